#!/usr/bin/env python3
"""Writes, into tools/manifest_src/Cxx.json, one sentence per property describing the regenerated
tie (go2lean targets with their tie theorems), from tools/trans_targets.json. Idempotent: the
sentence is delimited by the marker below and replaced on every run."""
import json, re, os, sys
root = os.path.dirname(os.path.dirname(os.path.abspath(__file__)))
tg = json.load(open(os.path.join(root, 'tools/trans_targets.json')))
M0, M1 = ' [Regenerated tie (go2lean): ', ']'
for pid, targets in tg.items():
    if not re.fullmatch(r'C\d\d', pid): continue
    p = os.path.join(root, 'tools/manifest_src', pid + '.json')
    if not os.path.exists(p): continue
    d = json.load(open(p))
    props = open(os.path.join(root, 'lean/Golib/Props', pid + '.lean')).read()
    tied, untied = [], []
    for t in targets:
        name = t.get('name') or t.get('func') or '?'
        th = t.get('theorem', '')
        (tied if th and re.search(r'\btheorem\s+' + re.escape(th) + r'\b', props) else untied).append((t.get('file', '?'), name, th))
    if not tied and not untied: continue
    txt = 'on every run go2lean translates ' + ', '.join(f'{f}:{n}' for f, n, _ in tied) + \
          ' from the tree under verification into lean/Golib/Gen/Trans' + pid + '.lean and the tie theorems ' + \
          ', '.join(sorted({th for _, _, th in tied})) + \
          ' prove the regenerated definitions equal to the hand-written model the property theorems are about' + \
          ' (int as unbounded Int; the translator is cross-checked against the real functions by the trans-diff Extra); these functions are therefore exempt from the token-hash drift alarm'
    if untied:
        txt += '; translated and executed by trans-diff but not yet tied by a theorem: ' + ', '.join(f'{f}:{n}' for f, n, _ in untied)
    s = d.get('level_text', '')
    s = re.sub(re.escape(M0) + r'.*?' + re.escape(M1), '', s, flags=re.S)
    s = re.sub(re.escape(' [Regenerated tie, wave 8: ') + r'.*?' + re.escape(M1), '', s, flags=re.S)
    d['level_text'] = s.rstrip() + M0 + txt + M1
    tech = d.get('technique', '')
    if 'go2lean' not in tech:
        d['technique'] = tech.rstrip() + '; go2lean-regenerated definitions with tie theorems'
    json.dump(d, open(p, 'w'), indent=1, ensure_ascii=False)
    print(pid, len(tied), 'tied', len(untied), 'untied')
