#!/bin/bash
# Verifies an independently written breaking change and files it under /verif/seeded/.
# usage: tools/verify_seed.sh <outdir with patch.diff demo_test.go meta.json> <name e.g. C04-A>
# Confirms: demo passes on pristine HEAD; patch applies; library still builds and the
# whole existing suite passes with the patch; demo fails with the patch.
set -u
cd "$(dirname "$0")/.."
src="$(readlink -f "$1")"; name="$2"
export GOFLAGS=-mod=mod GOPROXY=off GOSUMDB=off GOTOOLCHAIN=local
demo_dir=$(python3 -c "import json;print(json.load(open('$src/meta.json'))['demo_dir'])")
# demos of data-race seeds only fail under the race detector (meta.json demo_cmd says so)
race=$(python3 -c "import json;m=json.load(open('$src/meta.json'));print('-race' if ('-race' in m.get('demo_cmd','') or m.get('race_required') is True) else '')")
wt=$(mktemp -d /tmp/seedverify.XXXXXX)
git -C /repo worktree add -q --detach "$wt" HEAD || exit 2
log="$wt.log"; : > "$log"
res() { echo "$name: $*" | tee -a "$log"; }
cleanup() { git -C /repo worktree remove --force "$wt" 2>/dev/null; }
demo="$wt/$demo_dir/zz_seed_demo_test.go"
cp "$src/demo_test.go" "$demo"
run=$(grep -o 'func Test[A-Za-z0-9_]*' "$src/demo_test.go" | sed 's/func //' | paste -sd'|')
( cd "$wt" && go test $race -vet=off -count=1 -run "^($run)\$" "./$demo_dir/" ) >> "$log" 2>&1; pristine=$?
rm -f "$demo"
if ! git -C "$wt" apply "$src/patch.diff" >> "$log" 2>&1; then res "FAIL patch does not apply"; cleanup; exit 1; fi
( cd "$wt" && go build ./... && go test -vet=off -count=1 -timeout 25m ./... ) >> "$log" 2>&1; suite=$?
cp "$src/demo_test.go" "$demo"
( cd "$wt" && go test $race -vet=off -count=1 -timeout 5m -run "^($run)\$" "./$demo_dir/" ) >> "$log" 2>&1; mutated=$?
head=$(git -C /repo rev-parse --short HEAD)
cleanup
if [ $pristine -eq 0 ] && [ $suite -eq 0 ] && [ $mutated -ne 0 ]; then
  mkdir -p "seeded/$name"
  cp "$src/patch.diff" "seeded/$name/patch.diff"
  cp "$src/demo_test.go" "seeded/$name/demo_test.go"
  python3 - "$src/meta.json" "seeded/$name/meta.json" "$head" "$run" "$demo_dir" <<'PY'
import json,sys
m=json.load(open(sys.argv[1]))
m['verified']={'repo_head':sys.argv[3],'demo_on_pristine':'pass','existing_suite_with_patch':'pass (go test -vet=off -count=1 ./...)','demo_with_patch':'fail','demo_tests':sys.argv[4],'demo_dir':sys.argv[5],'by':'tools/verify_seed.sh'}
json.dump(m,open(sys.argv[2],'w'),indent=1)
PY
  res "VERIFIED (pristine demo pass, suite pass with patch, demo fails with patch)"
  rm -f "$log"; exit 0
else
  res "REJECTED pristine_demo=$pristine suite_with_patch=$suite demo_with_patch=$mutated (log $log)"; exit 1
fi
