#!/bin/bash
# usage: tools/wave10_seed.sh Cxx [letters…]  — verifies and files /tmp/seed10/Cxx/out/<L> as seeded/Cxx-<L>,
# then runs the quick check(s) against each.
cd "$(dirname "$0")/.."
id="$1"; shift; ls="${*:-M}"
names=""
for l in $ls; do
  if [ -f /tmp/seed10/$id/out/$l/patch.diff ]; then
    tools/verify_seed.sh /tmp/seed10/$id/out/$l $id-$l && names="$names $id-$l"
  else echo "$id-$l: no patch delivered"; fi
done
[ -n "$names" ] && tools/seedall.sh $names
