#!/bin/bash
# usage: tools/integrate_one.sh Cxx [patch …] — applies a builder's announced shared patch(es) to the working tree,
# merges its targets entry, regenerates all Gen/Trans*.lean, builds Props.Cxx and runs ./check Cxx quick.
cd "$(dirname "$0")/.."
export GOFLAGS=-mod=mod GOPROXY=off GOSUMDB=off GOTOOLCHAIN=local
id="$1"; shift
for p in "$@"; do
  git add go/internal go/cmd lean/Golib/Prelude
  if git apply -3 "$p" 2>&1 | tee /tmp/integ.log | grep -q 'with conflicts'; then echo "CONFLICT in $p"; git reset -q; exit 1; fi
  grep -q 'patch does not apply' /tmp/integ.log && { cat /tmp/integ.log; git reset -q; exit 1; }
  git reset -q; echo "applied $p"
done
tools/merge_targets.py "$id"
( cd go && go build ./internal/... ./cmd/go2lean && go test ./internal/go2lean/ 2>&1 | tail -1 && go run ./cmd/go2lean -targets ../tools/trans_targets.json -all -leandir ../lean/Golib/Gen 2>&1 | grep -i 'not translated' )
git status --short lean/Golib/Gen
tools/gen.sh /repo >/dev/null 2>&1
./check "$id" quick 2>&1 | tail -4 | cut -c1-300
