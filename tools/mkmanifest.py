#!/usr/bin/env python3
"""Regenerates /verif/MANIFEST.json from tools/manifest_src/Cxx.json fragments.
A property is claimed iff its fragment exists; every other property of
properties.jsonl is listed under not_applicable with the reason 'pending'."""
import json, os, glob
root = os.path.dirname(os.path.dirname(os.path.abspath(__file__)))
props = [json.loads(l) for l in open(os.path.join(root, "properties.jsonl")) if l.strip()]
checks, na = [], []
for p in props:
    pid = p["id"]
    f = os.path.join(root, "tools", "manifest_src", pid + ".json")
    if not os.path.exists(f):
        na.append({"property_id": pid, "reason": "check not built yet (work in progress; the design in DESIGN.md §5 applies, nothing about the property makes the technique inapplicable)"})
        continue
    frag = json.load(open(f))
    if frag.get("not_applicable"):
        na.append({"property_id": pid, "reason": frag["not_applicable"]})
        continue
    checks.append({
        "property_id": pid,
        "quick_cmd": f"./check {pid} quick",
        "thorough_cmd": f"./check {pid} thorough",
        "evidence_file": f"/verif/evidence/{pid}.json",
        "replay_cmd_template": f"./check {pid} --replay {{path}}",
        "engine": "lean4-proof+correspondence",
        "level_claimed": {"category": "proof", "text": frag["level_text"], "design_ref": frag.get("design_ref", "DESIGN.md §5 " + pid)},
        "level_note": frag["level_note"],
        "technique": frag.get("technique", "Lean 4 theorems over an executable model + differential correspondence check against the Go code"),
    })
m = {
    "version": 1,
    "setup_cmd": "./setup.sh",
    "hooks": {
        "guard": "verif",
        "enable": "no hook lives in /repo: concurrent files are copied into the harness module with sync/atomic and runtime redirected to shims (go/gen.sh), private fields are reached through reflection",
        "baseline_off_cmd": "cd /repo && GOFLAGS=-mod=mod GOPROXY=off GOSUMDB=off GOTOOLCHAIN=local go test -json -vet=off -count=1 -timeout 25m ./...",
        "source_commits": [],
        "add_only": True,
    },
    "engines": [
        {"name": "lean4-proof+correspondence", "path": "/verif/lean + /verif/go",
         "serves_properties": [c["property_id"] for c in checks],
         "kind_free_text": "Lean 4 model + theorems (lake project lean/, axioms audited on every run); Go harness diffing the real code against the compiled Lean model and evaluating an independent property oracle; go/ast fact extractor regenerating Golib/Gen/Facts*.lean"}
    ],
    "checks": checks,
    "not_applicable": na,
    "notes": "See DESIGN.md. KNOWN_FINDINGS.txt lists recorded defects (known:) and repaired ones (fixed:).",
}
json.dump(m, open(os.path.join(root, "MANIFEST.json"), "w"), indent=1)
print("claimed:", [c["property_id"] for c in checks]); print("pending:", [x["property_id"] for x in na])
