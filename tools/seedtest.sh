#!/bin/bash
# Runs a property check against a scratch worktree of /repo with a patch applied.
# usage: tools/seedtest.sh <Cxx> <patch.diff> [quick|thorough]
# (equivalent to `git -C /repo apply` + check + `git -C /repo checkout -- .`, without
#  touching /repo while other work is going on)
set -u
cd "$(dirname "$0")/.."
id="$1"; patch="$(readlink -f "$2")"; tier="${3:-quick}"
wt=$(mktemp -d /tmp/seedwt.XXXXXX)
git -C /repo worktree add -q --detach "$wt" HEAD || exit 2
if ! git -C "$wt" apply "$patch"; then echo "patch does not apply"; git -C /repo worktree remove --force "$wt"; exit 2; fi
# the facts file regenerated from the scratch tree must not stay behind
facts="lean/Golib/Gen/Facts$id.lean"; bak=""
if [ -f "$facts" ]; then bak=$(mktemp); cp "$facts" "$bak"; fi
# … and neither must the definitions go2lean regenerated from it (wave 8)
trans="lean/Golib/Gen/Trans$id.lean"; tbak=""
if [ -f "$trans" ]; then tbak=$(mktemp); cp "$trans" "$tbak"; fi
VERIF_REPO="$wt" ./check "$id" "$tier"; e=$?
if [ -n "$bak" ]; then cmp -s "$bak" "$facts" || cp "$bak" "$facts"; rm -f "$bak"; fi
if [ -n "$tbak" ]; then cmp -s "$tbak" "$trans" || cp "$tbak" "$trans"; rm -f "$tbak"; fi
git -C /repo worktree remove --force "$wt"
rm -rf go/.build/*$(printf '%s' "$wt" | cksum | cut -d' ' -f1)*
echo "seedtest exit=$e"
exit $e
