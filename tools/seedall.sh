#!/bin/bash
# Runs the quick check of the owning property against every filed seeded change (or the
# ones named on the command line) and records the outcome in seeded/RESULTS.md and in
# each meta.json ("check_result").
cd "$(dirname "$0")/.."
names="$*"; [ -z "$names" ] && names=$(ls seeded | grep -E '^C[0-9]+-')
for n in $names; do
  owner=${n%%-*}
  [ -f seeded/$n/patch.diff ] || continue
  # every property anchored in a file the patch touches is run (the owner first)
  ids=$(python3 - "$owner" "seeded/$n/patch.diff" <<'PY'
import json,re,sys
owner,patch=sys.argv[1],sys.argv[2]
files=set(re.findall(r'^\+\+\+ b/(\S+)',open(patch).read(),re.M))
ids=[owner]
for l in open('properties.jsonl'):
    p=json.loads(l)
    if p['id']!=owner and files & set(p['anchors']['files']): ids.append(p['id'])
print(' '.join(ids))
PY
)
  verdict="MISSED"; sum=""; detail=""; by=""
  for id in $ids; do
    out=$(tools/seedtest.sh $id seeded/$n/patch.diff quick 2>&1)
    nviol=$(echo "$out" | grep -c '^VIOLATION')
    nofail=$(echo "$out" | grep -c 'no-failing-input-found')
    s1=$(echo "$out" | grep -E "^$id quick:" | tail -1)
    if [ "$nviol" -gt 0 ] && [ "$nofail" -lt "$nviol" ]; then v="caught (concrete replay)";
    elif [ "$nviol" -gt 0 ]; then v="caught (no-failing-input-found)";
    else v="MISSED"; fi
    by="$by $id:${v%% *}"
    if [ "$v" != "MISSED" ] && { [ "$verdict" = "MISSED" ] || { [ "$verdict" = "caught (no-failing-input-found)" ] && [ "$v" = "caught (concrete replay)" ]; }; }; then
      verdict="$v"; sum="$s1"
      first=$(echo "$out" | grep '^VIOLATION' | grep -v no-failing | head -1 | sed 's/.*replay=//')
      [ -z "$first" ] && first=$(echo "$out" | grep '^VIOLATION' | head -1 | sed 's/.*replay=//')
      [ -n "$first" ] && [ -f "${first%% *}" ] && detail=$(python3 -c "import json,sys;print(json.load(open(sys.argv[1])).get('detail','')[:300])" "${first%% *}" 2>/dev/null)
    fi
    [ -z "$sum" ] && sum="$s1"
    [ "$verdict" = "caught (concrete replay)" ] && break
  done
  python3 - "seeded/$n/meta.json" "$verdict" "$sum" "$detail" "$by" <<'PY'
import json,sys
p=sys.argv[1]; m=json.load(open(p))
m['check_result']={'verdict':sys.argv[2],'summary':sys.argv[3],'first_replay_detail':sys.argv[4],'checks_run':sys.argv[5].strip()}
json.dump(m,open(p,'w'),indent=1)
PY
  echo "$n: $verdict [$by ] :: $sum"
done
python3 - <<'PY'
import json,glob,os
rows=[]
for d in sorted(glob.glob('seeded/C*-*')):
    try: m=json.load(open(d+'/meta.json'))
    except Exception: continue
    cr=m.get('check_result',{})
    rows.append((os.path.basename(d), m.get('summary','').replace('\n',' ').replace('|','/')[:160], m.get('needs','').replace('\n',' ').replace('|','/')[:160], cr.get('verdict','not run')+' ['+cr.get('checks_run','')+']', cr.get('first_replay_detail','').replace('\n',' ').replace('|','/')[:200]))
with open('seeded/RESULTS.md','w') as f:
    f.write("# Seeded changes vs. checks\n\nEach change was written by an independent sub-agent that saw only the property text and a scratch worktree; it compiles, passes the existing 380 tests, and breaks the property (demo_test.go fails with it, passes without). `tools/seedall.sh` runs `./check <id> quick` against a scratch worktree with the patch applied.\n\n| seed | change | needs | verdict | first replay |\n|---|---|---|---|---|\n")
    for r in rows: f.write("| %s | %s | %s | %s | %s |\n"%r)
print(len(rows),"seeds in table;", sum(1 for r in rows if r[3].startswith('caught')),"caught")
PY
