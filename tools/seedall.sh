#!/bin/bash
# Runs the quick check of the owning property against every filed seeded change (or the
# ones named on the command line) and records the outcome in seeded/RESULTS.md and in
# each meta.json ("check_result").
cd "$(dirname "$0")/.."
names="$*"; [ -z "$names" ] && names=$(ls seeded | grep -E '^C[0-9]+-')
for n in $names; do
  id=${n%%-*}
  [ -f seeded/$n/patch.diff ] || continue
  out=$(tools/seedtest.sh $id seeded/$n/patch.diff quick 2>&1)
  nviol=$(echo "$out" | grep -c '^VIOLATION')
  nofail=$(echo "$out" | grep -c 'no-failing-input-found')
  sum=$(echo "$out" | grep -E "^$id quick:" | tail -1)
  if [ "$nviol" -gt 0 ] && [ "$nofail" -lt "$nviol" ]; then verdict="caught (concrete replay)";
  elif [ "$nviol" -gt 0 ]; then verdict="caught (no-failing-input-found)";
  else verdict="MISSED"; fi
  first=$(echo "$out" | grep '^VIOLATION' | head -1 | sed 's/.*replay=//')
  detail=""
  [ -n "$first" ] && [ -f "${first%% *}" ] && detail=$(python3 -c "import json,sys;print(json.load(open(sys.argv[1])).get('detail','')[:300])" "${first%% *}" 2>/dev/null)
  python3 - "seeded/$n/meta.json" "$verdict" "$sum" "$detail" <<'PY'
import json,sys
p=sys.argv[1]; m=json.load(open(p))
m['check_result']={'verdict':sys.argv[2],'summary':sys.argv[3],'first_replay_detail':sys.argv[4]}
json.dump(m,open(p,'w'),indent=1)
PY
  echo "$n: $verdict :: $sum"
done
python3 - <<'PY'
import json,glob,os
rows=[]
for d in sorted(glob.glob('seeded/C*-*')):
    try: m=json.load(open(d+'/meta.json'))
    except Exception: continue
    cr=m.get('check_result',{})
    rows.append((os.path.basename(d), m.get('summary','').replace('\n',' ')[:160], m.get('needs','').replace('\n',' ')[:160], cr.get('verdict','not run'), cr.get('first_replay_detail','').replace('\n',' ').replace('|','/')[:200]))
with open('seeded/RESULTS.md','w') as f:
    f.write("# Seeded changes vs. checks\n\nEach change was written by an independent sub-agent that saw only the property text and a scratch worktree; it compiles, passes the existing 380 tests, and breaks the property (demo_test.go fails with it, passes without). `tools/seedall.sh` runs `./check <id> quick` against a scratch worktree with the patch applied.\n\n| seed | change | needs | verdict | first replay |\n|---|---|---|---|---|\n")
    for r in rows: f.write("| %s | %s | %s | %s | %s |\n"%r)
print(len(rows),"seeds in table;", sum(1 for r in rows if r[3].startswith('caught')),"caught")
PY
