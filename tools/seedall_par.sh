#!/bin/bash
# Runs tools/seedall.sh for several properties in parallel (seeds of one property stay
# sequential: they share that property's regenerated facts file).  usage: seedall_par.sh [-j N] [Cxx …]
cd "$(dirname "$0")/.."
j=5; if [ "${1:-}" = "-j" ]; then j=$2; shift 2; fi
ids="$*"; [ -z "$ids" ] && ids=$(ls seeded | grep -E '^C[0-9]+-' | sed 's/-.*//' | sort -u)
for id in $ids; do echo "$id"; done | xargs -P "$j" -I{} bash -c 'tools/seedall.sh $(ls seeded | grep "^{}-") > /tmp/seedall-{}.log 2>&1; grep -E "^{}-" /tmp/seedall-{}.log'
tools/seedall.sh NONE >/dev/null 2>&1
tail -1 seeded/RESULTS.md >/dev/null; python3 - <<'PY'
import json,glob
v=[json.load(open(f)).get('check_result',{}).get('verdict','not run') for f in glob.glob('seeded/C*-*/meta.json')]
print(len(v),'seeds:',sum(x.startswith('caught (concrete') for x in v),'caught with replay,',sum('no-failing' in x for x in v),'caught without input,',sum(x=='MISSED' for x in v),'missed,',sum(x=='not run' for x in v),'not run')
PY
