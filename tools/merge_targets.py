#!/usr/bin/env python3
# usage: tools/merge_targets.py C06 C18 …  — merges /tmp/work/cXX/targets_CXX.json (a builder's entry) into tools/trans_targets.json
import json,sys,glob,os
t=json.load(open('tools/trans_targets.json'))
for pid in sys.argv[1:]:
    fs=glob.glob('/tmp/work/c*/targets_%s.json'%pid)
    if not fs: print('no file for',pid); continue
    d=json.load(open(fs[0]))
    if isinstance(d,dict) and pid in d: d=d[pid]
    if isinstance(d,dict) and 'targets' in d: d=d['targets']
    assert isinstance(d,list),fs[0]
    t[pid]=d; print('targets',pid,len(d))
out=['{']
items=list(t.items())
for n,(k,v) in enumerate(items):
    comma=',' if n<len(items)-1 else ''
    if isinstance(v,list):
        out.append(' %s: ['%json.dumps(k))
        for m,x in enumerate(v):
            out.append('  '+json.dumps(x,ensure_ascii=False)+(',' if m<len(v)-1 else ''))
        out.append(' ]'+comma)
    else:
        out.append(' %s: %s%s'%(json.dumps(k),json.dumps(v,ensure_ascii=False),comma))
out.append('}')
open('tools/trans_targets.json','w').write('\n'.join(out)+'\n')
