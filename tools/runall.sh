#!/bin/bash
# Runs every claimed check (quick tier by default) and validates MANIFEST + evidence.
# usage: tools/runall.sh [quick|thorough] [ids…]
cd "$(dirname "$0")/.."
tier="${1:-quick}"; shift || true
ids="$*"
[ -z "$ids" ] && ids=$(python3 -c "import json;print(' '.join(c['property_id'] for c in json.load(open('MANIFEST.json'))['checks']))")
rc=0
for id in $ids; do
  s=$(date +%s)
  out=$(./check "$id" "$tier" 2>&1); e=$?
  d=$(( $(date +%s) - s ))
  echo "== $id exit=$e ${d}s :: $(echo "$out" | tail -1)"
  echo "$out" | grep -E '^(VIOLATION|KNOWN-FINDING)' 
  [ $e -ne 0 ] && rc=1
done
python3-vt - <<'PY'
import json, jsonschema, os
m = json.load(open('MANIFEST.json'))
jsonschema.validate(m, json.load(open('/root/.vp/MANIFEST.schema.json')))
es = json.load(open('/root/.vp/EVIDENCE.schema.json'))
for c in m['checks']:
    f = c['evidence_file']
    if not os.path.exists(f): print('MISSING evidence', f); continue
    try: jsonschema.validate(json.load(open(f)), es)
    except Exception as ex: print('INVALID evidence', f, str(ex)[:200])
print('manifest + evidence validated')
PY
exit $rc
