/-
`oracle`: all models in one executable (kept for manual use; the checks use the
per-property executables `oracle_Cxx`, see Oracle/Driver.lean).
-/
import Oracle.Driver
import Oracle.Registry

def main : IO Unit := Oracle.mainWith registry
