/-
`oracle`: the executable side of the models.  Reads cases from stdin
(`@ Cxx <kind> args…` header line, then one operation per line), prints exactly one
output line per input line.  Core-only imports (no Mathlib) so it links.
-/
import Oracle.Registry

open Golib.Proto

def runCase (lines : Array String) : List String :=
  match lines.toList with
  | [] => []
  | h :: ops =>
    match toks h with
    | "@" :: id :: hdr =>
      match registry.lookup id with
      | some f => f hdr ops
      | none => "bad-op" :: ops.map fun _ => "bad-op"
    | _ => "bad-op" :: ops.map fun _ => "bad-op"

partial def loop (h : IO.FS.Stream) (out : IO.FS.Stream) (cur : Array String) : IO Unit := do
  let line ← h.getLine
  if line.isEmpty then
    for o in runCase cur do out.putStrLn o
    out.flush
    return ()
  let l := (line.dropEndWhile (· == '\n')).toString
  if l.startsWith "@" then
    for o in runCase cur do out.putStrLn o
    loop h out #[l]
  else
    loop h out (cur.push l)

def main : IO Unit := do
  loop (← IO.getStdin) (← IO.getStdout) #[]
