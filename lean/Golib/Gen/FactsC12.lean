-- REGENERATED on every run by the C12 extractor (go/props/c12/facts.go) from mapz/*.go
-- of the tree under verification; do not edit.  One entry per SafeKV method: the
-- source-order events (see Golib/Model/C12Ev.lean).
import Golib.Model.C12Ev

namespace Golib.Gen.C12
open Golib.C12

def extractorOK : Bool := true

def methods : List (String × List Ev) := [
  ("Get", [.rlock, .read, .runlock]),  -- safekv.go:19
  ("GetWithMap", [.rlock, .read, .runlock]),  -- safekv.go:28
  ("GetWithLock", [.rlock, .read, .callFn, .runlock]),  -- safekv.go:40
  ("Set", [.lock, .write, .unlock]),  -- safekv.go:50
  ("SetNx", [.lock, .read, .write, .unlock]),  -- safekv.go:57
  ("SetX", [.lock, .read, .write, .unlock]),  -- safekv.go:68
  ("Delete", [.bad, .bad]),  -- safekv.go:79
  --   bad at safekv.go:82: calls deleteKeys on the receiver (nested locking is not modelled)
  --   bad at safekv.go:85: calls deleteKeys on the receiver (nested locking is not modelled)
  ("deleteKeys", [.lock, .write, .unlock]),  -- safekv.go:90
  ("Has", [.rlock, .read, .runlock]),  -- safekv.go:99
  ("Contains", [.rlock, .read, .runlock]),  -- safekv.go:107
  ("Len", [.rlock, .read, .runlock]),  -- safekv.go:115
  ("Keys", [.rlock, .read, .read, .runlock]),  -- safekv.go:123
  ("Values", [.rlock, .read, .read, .runlock]),  -- safekv.go:134
  ("Range", [.rlock, .read, .callFn, .runlock]),  -- safekv.go:145
  ("Clear", [.lock, .read, .replace, .unlock]),  -- safekv.go:156
  ("Map", [.lock, .read, .callFnMap, .unlock]),  -- safekv.go:163
  ("All", [.rlock, .read, .callFn, .runlock])  -- iter.go:8
]

end Golib.Gen.C12
