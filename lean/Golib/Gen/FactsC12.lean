-- REGENERATED on every run by the C12 extractor (go/props/c12/facts.go) from mapz/*.go
-- of the tree under verification; do not edit.  One entry per SafeKV method: the
-- source-order events (see Golib/Model/C12Ev.lean).
import Golib.Model.C12Ev

namespace Golib.Gen.C12
open Golib.C12

def extractorOK : Bool := true

def methods : List (String × List Ev) := [
  ("Get", [.rlock, .read, .runlock]),  -- safekv.go:19
  ("GetWithMap", [.rlock, .read, .runlock]),  -- safekv.go:28
  ("GetWithLock", [.rlock, .read, .callFn, .runlock]),  -- safekv.go:40
  ("Set", [.lock, .write, .unlock]),  -- safekv.go:50
  ("SetNx", [.lock, .read, .write, .unlock]),  -- safekv.go:57
  ("SetX", [.lock, .read, .write, .unlock]),  -- safekv.go:68
  ("Delete", [.lock, .write, .unlock]),  -- safekv.go:79
  ("Has", [.rlock, .read, .runlock]),  -- safekv.go:88
  ("Contains", [.rlock, .read, .runlock]),  -- safekv.go:96
  ("Len", [.rlock, .read, .runlock]),  -- safekv.go:104
  ("Keys", [.rlock, .read, .read, .runlock]),  -- safekv.go:112
  ("Values", [.rlock, .read, .read, .runlock]),  -- safekv.go:123
  ("Range", [.rlock, .read, .callFn, .runlock]),  -- safekv.go:134
  ("Clear", [.lock, .read, .replace, .unlock]),  -- safekv.go:145
  ("Map", [.lock, .read, .callFnMap, .unlock]),  -- safekv.go:152
  ("All", [.rlock, .read, .callFn, .runlock])  -- iter.go:8
]

-- per method: is (one of) its release(s) a top-level `defer s.mu.Unlock()/RUnlock()`?
def deferredRelease : List (String × Bool) := [
  ("Get", false),
  ("GetWithMap", false),
  ("GetWithLock", false),
  ("Set", false),
  ("SetNx", false),
  ("SetX", false),
  ("Delete", false),
  ("Has", false),
  ("Contains", false),
  ("Len", false),
  ("Keys", false),
  ("Values", false),
  ("Range", false),
  ("Clear", false),
  ("Map", false),
  ("All", false)
]

end Golib.Gen.C12
