-- generated on every run by the C09 facts extractor (go/ast) from cryptz/crypt.go; do not edit
import Golib.Model.C09Crypt

namespace Golib.Gen.C09

def extractorOK : Bool := true
def saltLen : Nat := 8
def keyLen : Nat := 32
def credLen : Nat := 48
/-- `[]byte("Salted__")` -/
def fixedSaltHeader : List Nat := [83, 97, 108, 116, 101, 100, 95, 95]
/-- `for i := 0; i < 3; i++` in fillCred -/
def credRounds : Nat := 3
/-- `saltHeader := make([]byte, aes.BlockSize)` -/
def headerBufLen : Nat := 16
/-- the call that fills `saltHeader` in DecryptStreamTo: `io.ReadFull(stream, saltHeader)` -/
def headerReadCall : String := "io.ReadFull"
def headerRead : Golib.C09.HeaderRead := .readFull
/-- body of strz.Base64Decode -/
def base64DecodeBody : String := "dst := make([]byte, enc.DecodedLen(len(s))); n, err := enc.Decode(dst, UnsafeStrOrBytesToBytes(s)); return dst[:n], err"
/-- body of strz.HexDecode -/
def hexDecodeBody : String := "dst := make([]byte, hex.DecodedLen(len(s))); n, err := hexDecode(dst, s); return dst[:n], err"
def decryptDecodeCall : String := "strz.Base64Decode(cipherText, base64.StdEncoding)"
def gcmDecryptDecodeCall : String := "strz.HexDecode(cipherText)"

end Golib.Gen.C09
