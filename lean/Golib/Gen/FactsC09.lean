-- generated on every run by the C09 facts extractor (go/ast) from cryptz/crypt.go; do not edit
import Golib.Model.C09Crypt

namespace Golib.Gen.C09

def extractorOK : Bool := true
def saltLen : Nat := 8
def keyLen : Nat := 32
def credLen : Nat := 48
/-- `[]byte("Salted__")` -/
def fixedSaltHeader : List Nat := [83, 97, 108, 116, 101, 100, 95, 95]
/-- `for i := 0; i < 3; i++` in fillCred -/
def credRounds : Nat := 3
/-- `saltHeader := make([]byte, aes.BlockSize)` -/
def headerBufLen : Nat := 16
/-- the call that fills `saltHeader` in DecryptStreamTo: `io.ReadFull(stream, saltHeader)` -/
def headerReadCall : String := "io.ReadFull"
def headerRead : Golib.C09.HeaderRead := .readFull

end Golib.Gen.C09
