-- REGENERATED on every run by the C19 extractor (go/props/c19/facts.go) from goz/goz.go
-- of the tree under verification; do not edit.
namespace Golib.Gen.C19

def extractorOK : Bool := true

def limiterFields : List String := ["c:chanstruct{}", "w:sync.WaitGroup", "panicHandler:func(any)"]

def newLimiterBody : List String := ["if(limit<1){limit=3}", "return &Limiter{c:make(chanstruct{},limit),}"]

def goBody : List String := ["l.add()", "go Recover(fn,l.panicHandler,l.done)", "return l"]

def addBody : List String := ["send l.c", "l.w.Add(1)"]

def doneBody : List String := ["l.w.Done()", "recv l.c"]

def recoverBody : List String := ["defer{if(p:=recover();p!=nil){if(panicFn!=nil){panicFn(p)}else{var buf; buf.Grow(…); buf.WriteString(…); stack(&buf,4,6); fmt.Println(…)}}; if(len(cleanups)==0){return}; var index; defer{if(p:=recover();p!=nil){s:=fmt.Sprintf(…); if(panicFn!=nil){panicFn(s)}else{fmt.Println(…)}}}; range(i,cleanup:cleanups){index=i; cleanup()}}", "fn()"]

def setHandlerBody : List String := ["l.panicHandler=fn", "return l"]

def waitUntimedTail : String := "l.w.Wait()"

def waitTimedBody : List String := ["if(len(waitTime)>0){quit:=make(chanstruct{},1); go func(chchan<-struct{}){l.w.Wait()ch<-struct{}{}}(…); select{case recv quit:{} case recv time.After(waitTime[0]):{}}; return}"]

def stackHead : List String := ["callers:=make([]uintptr,deep)", "n:=runtime.Callers(skip,callers)", "frames:=runtime.CallersFrames(callers[:n])"]

def logPanicBody : List String := ["return func{var buf; buf.Grow(…); buf.WriteString(…); stack(&buf,5,deep); l.Error(…)}"]

end Golib.Gen.C19
