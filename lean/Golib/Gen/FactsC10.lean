-- generated on every run by go/props/c10 (Facts) from ringz/sync.go; do not edit
import Golib.Model.C01Ring

namespace Golib.Gen.C10
open Golib.C01

/-- shared-memory accesses of `Push` in source order -/
def pushOps : List SrcOp :=
  [.loadTail, .loadSeq, .casTail, .writeVal, .storeSeqPlus1]

/-- shared-memory accesses of `Pop` in source order -/
def popOps : List SrcOp :=
  [.loadHead, .loadSeq, .casHead, .readVal, .clearVal, .storeSeqPlusMask]

/-- shared-memory accesses of `Len` in source order -/
def lenOps : List SrcOp :=
  [.loadTail, .loadHead]

/-- shared-memory accesses of `IsEmpty` in source order -/
def isEmptyOps : List SrcOp :=
  [.loadHead, .loadTail]

/-- shared-memory accesses of `IsFull` in source order -/
def isFullOps : List SrcOp :=
  [.loadTail, .loadHead]

end Golib.Gen.C10
