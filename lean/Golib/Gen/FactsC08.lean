-- generated on every run by the C08 facts extractor (go/ast) from cryptz/aes.go; do not edit
namespace Golib.Gen.C08

def extractorOK : Bool := true
def blockSizeMask : Nat := 15
def gcmTagSize : Nat := 16
def nonceSize : Nat := 12
/-- `var prePadPatterns [aes.BlockSize + 1][]byte` -/
def padTableSize : Nat := 17
/-- `for i := 0; i < len(prePadPatterns); i++ { prePadPatterns[i] = bytes.Repeat([]byte{byte(i)}, i) }` -/
def padTableLoopBound : Nat := 17
/-- entry `i` as `init()` computes it: `bytes.Repeat([]byte{byte(i)}, i)` -/
def padTableEntry (i : Nat) : List Nat := List.replicate i (i % 256)

end Golib.Gen.C08
