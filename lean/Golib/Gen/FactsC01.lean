-- generated on every run by go/props/c01 (Facts) from ringz/sync.go; do not edit
import Golib.Model.C01Ring

namespace Golib.Gen.C01
open Golib.C01

/-- shared-memory accesses of `Push` in source order -/
def pushOps : List SrcOp :=
  [.loadTail, .loadSeq, .casTail, .writeVal, .storeSeqPlus1]

/-- shared-memory accesses of `Pop` in source order -/
def popOps : List SrcOp :=
  [.loadHead, .loadSeq, .casHead, .readVal, .clearVal, .storeSeqPlusMask]

/-- shared-memory accesses of `Len` in source order -/
def lenOps : List SrcOp :=
  [.loadTail, .loadHead]

/-- shared-memory accesses of `IsEmpty` in source order -/
def isEmptyOps : List SrcOp :=
  [.loadHead, .loadTail]

/-- shared-memory accesses of `IsFull` in source order -/
def isFullOps : List SrcOp :=
  [.loadTail, .loadHead]

/-- control shape of `PushWait`: tests and returns in source order -/
def pushWaitShape : List String :=
  ["if neg [", "loop [", "if attempt [", "ret true", "]", "gosched", "]", "]", "if attempt [", "ret true", "]", "if zero [", "ret false", "]", "loop [", "tick", "if attempt [", "ret true", "]", "if deadline [", "ret false", "]", "]"]

/-- control shape of `PopWait`: tests and returns in source order -/
def popWaitShape : List String :=
  ["if neg [", "loop [", "if attempt [", "ret true", "]", "gosched", "]", "]", "if attempt [", "ret true", "]", "if zero [", "ret false", "]", "loop [", "tick", "if attempt [", "ret true", "]", "if deadline [", "ret false", "]", "]"]

/-- every assignment to `r.values` in `Init` (nesting depth:right-hand side) -/
def initValues : List String :=
  ["0:make"]

end Golib.Gen.C01
