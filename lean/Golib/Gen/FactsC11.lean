-- generated on every run by go/props/c11 (Facts) from listz/sync_list.go; do not edit
import Golib.Model.C11List

namespace Golib.Gen.C11
open Golib.C11

/-- shared-memory accesses of `Push` in source order -/
def pushOps : List SrcOp :=
  [.loadTail, .loadNext, .casNext, .addLen 1, .storeTail, .gosched]

/-- shared-memory accesses of `Pop` in source order -/
def popOps : List SrcOp :=
  [.loadHead, .loadTail, .loadNext, .casHead, .readVal, .writeVal, .addLen (-1)]

/-- shared-memory accesses of `Len` in source order -/
def lenOps : List SrcOp :=
  [.loadLen]

/-- control skeleton of `Push`: loops, branches, returns, calls of anything that is not a
sync/atomic operation, `runtime.Gosched` or a conversion -/
def pushCtl : List SrcOp :=
  [.loop, .cond "if", .ret]

/-- control skeleton of `Pop`: loops, branches, returns, calls of anything that is not a
sync/atomic operation, `runtime.Gosched` or a conversion -/
def popCtl : List SrcOp :=
  [.cond "if", .ret, .cond "if", .ret, .ret]

/-- control skeleton of `Len`: loops, branches, returns, calls of anything that is not a
sync/atomic operation, `runtime.Gosched` or a conversion -/
def lenCtl : List SrcOp :=
  [.ret]

/-- control skeleton of `PopWait` in source order: tests of the duration parameter, loops,
calls of `Pop`, `runtime.Gosched`, returns, the ticker -/
def popWaitOps : List SrcOp :=
  [.cond "d < 0", .loop, .callPop, .ret, .gosched, .callPop, .ret, .cond "d == 0", .ret, .ticker, .loop, .other "recv ticker.C", .callPop, .ret, .cond "now.Sub(begin) >= d", .ret]

end Golib.Gen.C11
