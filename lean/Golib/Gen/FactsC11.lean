-- generated on every run by go/props/c11 (Facts) from listz/sync_list.go; do not edit
import Golib.Model.C11List

namespace Golib.Gen.C11
open Golib.C11

/-- shared-memory accesses of `Push` in source order -/
def pushOps : List SrcOp :=
  [.loadTail, .loadNext, .casNext, .addLen 1, .storeTail, .gosched]

/-- shared-memory accesses of `Pop` in source order -/
def popOps : List SrcOp :=
  [.loadHead, .loadNext, .casHead, .readVal, .writeVal, .addLen (-1)]

/-- shared-memory accesses of `Len` in source order -/
def lenOps : List SrcOp :=
  [.loadLen]

end Golib.Gen.C11
