/-
F11 (C05): refutation of the PRE-FIX decoder: `decodeRune` maps every invalid byte to
U+FFFD (width 1), the same rune as a genuine U+FFFD (EF BF BD, width 3).  The automaton
is the model's, run with the pre-fix decoder `oldDecodeStep` and the pre-fix `WriteRune`.
Witness: pattern "�"; text / key "\xff".
-/
import Golib.Model.C05Trie

namespace Golib.C05
open Golib

/-- pre-fix `decodeRune`: ASCII fast path, else `utf8.DecodeRuneInString`. -/
def oldDecodeStep (bs : List Nat) : Step :=
  match bs with
  | [] => (Utf8.runeError, 0)
  | b :: _ => if b < 0x80 then ((b : Int), 1) else Utf8.decodeRune bs

def f11Pats : List (List Nat) := [[0xEF, 0xBF, 0xBD]]

/-- the conflation itself: two different byte strings decode to the same rune -/
theorem f11_conflation : (oldDecodeStep [0xFF]).1 = (oldDecodeStep [0xEF, 0xBF, 0xBD]).1 := by decide

/-- `Match("\xff")` is true although the pattern does not occur -/
theorem f11_match_false_positive :
    (Trie.ofPatternsWith oldDecodeStep f11Pats).bind (fun t => matchWith oldDecodeStep t [0xFF]) = some true := by
  decide +kernel

/-- `FindAll("\xff")` slices `text[-2:1]`: panic -/
theorem f11_findall_panics :
    (Trie.ofPatternsWith oldDecodeStep f11Pats).bind (fun t => findSteps t (decodeAllWith oldDecodeStep [0xFF]))
      = some [⟨-2, 1⟩] ∧
    (Trie.ofPatternsWith oldDecodeStep f11Pats).bind (fun t => findAllWith oldDecodeStep t [0xFF]) = none ∧
    (Trie.ofPatternsWith oldDecodeStep f11Pats).isSome = true := by
  refine ⟨by decide +kernel, by decide +kernel, by decide +kernel⟩

/-- `PrefixSearch("\xff")` returns the key, which is not an inserted pattern -/
theorem f11_prefix_unsound :
    (Trie.ofPatternsWith oldDecodeStep f11Pats).bind
      (fun t => prefixSearchWith oldDecodeStep (fun _ => 1) Utf8.encodeRune t [0xFF]) = some [[0xFF]] := by
  decide +kernel

/-- repaired decoder on the same witness -/
theorem f11_fixed :
    (Trie.ofPatterns f11Pats).bind (fun t => t.match [0xFF]) = some false ∧
    (Trie.ofPatterns f11Pats).bind (fun t => t.findAll [0xFF]) = some [] ∧
    (Trie.ofPatterns f11Pats).bind (fun t => t.prefixSearch [0xFF]) = some [] := by
  refine ⟨by decide +kernel, by decide +kernel, by decide +kernel⟩

end Golib.C05
