/-
F6 (C10): refutation of the pre-fix `SyncRing.Init` (panic branch `cap <= 0` only).
For a request above 2^31 the `uint32` arithmetic yields capacity 0 (`1 << 32 == 0` in
`roundupPowOfTwo`, or the `uint32(cap)` truncation), `Cap()` returns 0, the backing
array is empty and the first `Push` indexes it out of range.
Witness: `NewSync[struct{}](1<<31 + 1)`.
-/
import Golib.Model.C10Sync
import Golib.Model.C10Ring

namespace Golib.C10.Findings
open Golib.C10

/-- the capacity computation as the pre-fix code has it -/
def syncCapPre (cap : Int) : Option Nat :=
  if cap ≤ 0 then none
  else if 1 = cap then some 2
  else
    let c := cap.toNat % two32
    if c &&& ((c + two32 - 1) % two32) > 0 then some (roundupPowOfTwo c) else some c

def initPre (cap : Int) : Option SyncRing :=
  (syncCapPre cap).map fun c =>
    { cap := c, mask := (c + two32 - 1) % two32, head := 0, tail := 0,
      values := (List.range c).map fun i => { value := 0, pos := i % two32 } }

/-- `NewSync(2^31+1)`: accepted, `Cap() = 0`, and `Push` panics (index out of range). -/
theorem f6_cap_zero_push_panics :
    (initPre (2 ^ 31 + 1)).map (·.cap) = some 0 ∧
    (initPre (2 ^ 31 + 1)).bind (fun r => (r.push 1).map (·.2)) = none ∧
    (initPre (2 ^ 31 + 1)).isSome = true := by
  refine ⟨by decide +kernel, by decide +kernel, by decide +kernel⟩

/-- `NewSync(2^32)` and `NewSync(2^32+3)`: the request is truncated (capacity 0 and 4). -/
theorem f6_truncation :
    syncCapPre (2 ^ 32) = some 0 ∧ syncCapPre (2 ^ 32 + 3) = some 4 := by
  refine ⟨by decide +kernel, by decide +kernel⟩

/-! ### F16: `SyncRing.Init` on a USED ring keeps the old head/tail counters -/

/-- `Init` as coded before the repair: new `cap`, `mask`, `values` (slot i holds i), but
`head`/`tail` are not touched. -/
def reinitPreFix (r : SyncRing) (cap : Int) : Option SyncRing :=
  (SyncRing.init? cap).map fun f => { f with head := r.head, tail := r.tail }

/-- Witness `NewSync(3); Push(2); Init(5)`: the re-initialised ring reports `Len() = 1`,
`Pop` fails although `IsEmpty()` is false, i.e. it is not a bounded FIFO of any content. -/
example :
    ((SyncRing.init? 3).bind fun r => (r.push 2).bind fun (r1, _) =>
      (reinitPreFix r1 5).map fun r2 => (r2.len, r2.isEmpty, r2.pop.map (·.2.2))) =
      some (1, false, some false) := by decide +kernel

/-! ### seeded C10-G: one-expression `Len` overflows at capacities near `math.MaxInt` -/

/-- Go `int64` wrap-around and truncated remainder. -/
def wrap64 (x : Int) : Int := (x + 2 ^ 63) % 2 ^ 64 - 2 ^ 63

/-- `(r.tail - r.head + r.cap) % r.cap + 1` as Go evaluates it. -/
def lenOneExpr (head tail cap : Int) : Int :=
  wrap64 (Int.tmod (wrap64 (wrap64 (tail - head) + cap)) cap + 1)

/-- `New[struct{}](math.MaxInt)` after two pushes (`head = 0`, `tail = 1`): the
one-expression form answers `0`, the coded two-branch form `2`. -/
example : lenOneExpr 0 1 (2 ^ 63 - 1) = 0 ∧
    (⟨[], 0, 1, 2 ^ 63 - 1⟩ : Golib.C10.Ring).len = 2 := by
  constructor <;> decide +kernel

end Golib.C10.Findings
