/-
F1 (C02) — refutation of the code before the fix, on the zero-value `SkipList`:
`RangeWithStart` indexes `head.next[0]` of a nil slice, and `Clear()` sets `head.next`
without creating the random source, so the `lazyInit` of the next `Set` is skipped and
`randomLevel(nil)` panics.  `fixed := false` is that code; the C02 theorems are about
`fixed := true` (`if s.len == 0 { return }` / `if s.head.next == nil { return }`).
-/
import Golib.Model.C02Skip

namespace Golib.C02.Findings

def cmpInt (a b : Int) : Int := if a < b then -1 else if a = b then 0 else 1
def pre : Cfg Int Int := { cmp := cmpInt, lazy := true, zeroK := 0, zeroV := 0, fixed := false }
def post : Cfg Int Int := { cmp := cmpInt, lazy := true, zeroK := 0, zeroV := 0, fixed := true }

/-- Pre-fix: `var s SkipList[int,int]; s.RangeWithStart(1, f)` panics. -/
theorem f1_prefix_rangeWithStart_panics : (SL.zero : SL Int Int).rangeFrom pre 1 none 0 = none := by
  decide

/-- Pre-fix: `s.Clear(); s.Set(1, 1)` panics for every height. -/
theorem f1_prefix_clear_set_panics (h : Nat) :
    ((SL.zero : SL Int Int).clear pre).setH pre 1 1 0 h = none := by
  simp [SL.clear, SL.zero, pre, SL.setH, SL.levelsDown, maxLevel, setLoop, after, walk]

/-- Repaired code on the same witnesses. -/
theorem f1_fixed :
    (SL.zero : SL Int Int).rangeFrom post 1 none 0 = some [] ∧
    (((SL.zero : SL Int Int).clear post).setH post 1 1 0 1).map (fun r => (r.1.lv.head?, r.1.len)) =
      some (some [1], 1) := by
  decide

end Golib.C02.Findings
