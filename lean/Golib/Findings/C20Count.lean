/-
C20 (CountGenerator).

F14: refutation of the pre-fix `getRand`, which converted its bound with `uint32(max)`:
a positive `intervalMaxIncr` (or `periodEndMaxIncr`) that is a multiple of 2^32 becomes 0
and `n % 0` panics (integer divide by zero).  The proof of `c20_count_bounds` had forced
the hypothesis `… < 2^32`.  Witness: `AddRule(10, 5, 1, 1<<32); Generate("a", 5)`.
Repair: `int(uint64(n)%uint64(max)) + 1` (the model in `Golib/Model/C20Count.lean`).

Also recorded (outside the property's hypothesis "positive parameters"): with
`periodEndMaxIncr = 0` — the value the package's own test passes — `Generate` adds 0 at the
end of a period while `Min` adds 1, so `Min > Generate` and even `Min > Max`.
Witness: `AddRule(10, 0, 1, 1)`, `diff = 10`: `Generate = 10`, `Min = 11`, `Max = 10`.
-/
import Golib.Model.C20Count

namespace Golib.C20.Findings
open Golib.C20

/-- `getRand` as the pre-fix code has it: `int(n%uint32(max) + 1)` in `uint32`. -/
def getRandPre (n : Nat) (max : Int) : Option Int :=
  if max = 0 then some 0 else
  let m := (max % 2^32).toNat
  if m = 0 then none else some (((n % m + 1) % 2^32 : Nat) : Int)

/-- the loop of `Generate` over the pre-fix `getRand` -/
def genLoopPre (hn : Nat) (diff : Int) : List Rule → Int → Int → Option Int
  | [], count, _ => some count
  | v :: rs, count, lastPeriod =>
    match getRandPre hn v.intervalMaxIncr with
    | none => none
    | some multi =>
      if diff < v.period then
        (goDiv (diff - lastPeriod) v.interval).map fun q => q * multi + count
      else
        match goDiv (v.period - lastPeriod) v.interval, getRandPre hn v.periodEndMaxIncr with
        | some q, some pe => genLoopPre hn diff rs (count + (q * multi + pe)) v.period
        | _, _ => none

/-- F14: a positive parameter (2^32) makes the pre-fix `Generate` panic; the repaired
model returns a value within the bounds. -/
theorem f14_uint32_truncation_panics :
    genLoopPre (bkdrHash [97]) 5 [⟨10, 5, 1, 2 ^ 32⟩] 0 0 = none ∧ (0 : Int) < 2 ^ 32 ∧
    countGenerate [⟨10, 5, 1, 2 ^ 32⟩] (bkdrHash [97]) 5 = some 490 := by
  refine ⟨by decide +kernel, by decide, by decide +kernel⟩

theorem count_zero_period_end :
    countGenerate [⟨10, 0, 1, 1⟩] (bkdrHash [97]) 10 = some 10 ∧
    countMin [⟨10, 0, 1, 1⟩] 10 = some 11 ∧ countMax [⟨10, 0, 1, 1⟩] 10 = some 10 := by
  refine ⟨by decide +kernel, by decide +kernel, by decide +kernel⟩

end Golib.C20.Findings
