/-
C20 (CountGenerator): two observations at the edge of the property's hypothesis
("positive parameters"), both reproduced on the real code through `./check C20 --replay`
(model and implementation agree line by line).

1. `getRand` converts its bound with `uint32(max)`: a positive `intervalMaxIncr` (or
   `periodEndMaxIncr`) that is a multiple of 2^32 becomes 0 and `n % 0` panics
   (integer divide by zero).  `c20_count_bounds` therefore carries `… < 2^32`.
   Witness: `AddRule(10, 5, 1, 1<<32); Generate("a", 5)`.
2. With `periodEndMaxIncr = 0` (not a positive parameter, but the value the package's own
   test passes) `Generate` adds 0 at the end of a period while `Min` adds 1, so
   `Min > Generate` and even `Min > Max`.  Witness: `AddRule(10, 0, 1, 1)`, `diff = 10`:
   `Generate = 10`, `Min = 11`, `Max = 10`.
-/
import Golib.Model.C20Count

namespace Golib.C20.Findings
open Golib.C20

theorem count_uint32_truncation_panics :
    countGenerate [⟨10, 5, 1, 2 ^ 32⟩] (bkdrHash [97]) 5 = none ∧
    (0 : Int) < 2 ^ 32 := by
  refine ⟨by decide +kernel, by decide⟩

theorem count_zero_period_end :
    countGenerate [⟨10, 0, 1, 1⟩] (bkdrHash [97]) 10 = some 10 ∧
    countMin [⟨10, 0, 1, 1⟩] 10 = some 11 ∧ countMax [⟨10, 0, 1, 1⟩] 10 = some 10 := by
  refine ⟨by decide +kernel, by decide +kernel, by decide +kernel⟩

end Golib.C20.Findings
