/-
C19 — a deviation of the MODEL from `sync.WaitGroup` (modelled-not-verified), recorded as a
machine-checked fact about the machine `C19Lim`.  It is OUTSIDE property C19 as worded
(bound / exactly once / Wait / no leak / handler): none of the C19 theorems is affected.

The real `sync.WaitGroup` panics with
  "sync: WaitGroup is reused before previous Wait has returned"
when a `Wait` caller has been woken by the counter reaching zero but has not yet returned
from `sync.WaitGroup.Wait`, and a new `Add(1)` (from the next `Limiter.Go`) moves the
counter away from zero.  `Limiter.Wait()` / `Limiter.Wait(d)` call `l.w.Wait()` and
`Limiter.Go` calls `l.w.Add(1)` with nothing that orders the two, so the real code can
crash there.  Reproduced on the real code by a probe: limit 1, one goroutine looping
`Go(func(){})`, one goroutine looping `Wait(50µs)` — the process dies with that message.

The machine is more permissive: `waitRet` is an atomic step guarded by `wg = 0`, and `Add`
(`sent → added`) is always enabled.  In the window below the `Add(1)` step is enabled; after
it the woken waiter silently keeps waiting (`waitRet` is no longer enabled) — where the real
WaitGroup panics.  So: every behaviour of the real code that does not hit the misuse panic
is a behaviour of the machine, but the machine does not predict the crash.
-/
import Golib.Model.C19Lim

namespace Golib.C19.WGReuse
open Golib.C19

/-- A `Wait()` caller has not returned, the WaitGroup counter is zero, and some submission
has sent its token and performs `l.w.Add(1)` next (from zero). -/
def MisuseWindow (s : St) : Bool :=
  s.waiters.any (fun w => !w.returned) && s.wg == 0 && s.tasks.any (fun t => t.pc == .sent)

/-- limit 2: task 0 enters its function; task 1 sends its token (and stops before `Add`);
`Wait()` is called — it blocks, the counter is 1. -/
def blocked : List Label :=
  [.submit .ok, .adv 0, .adv 0, .adv 0, .adv 0, .submit .ok, .adv 1, .waitCall]

/-- … then task 0 leaves its function and passes `l.w.Done()`: counter 0, the waiter is
woken, but its `waitRet` has not happened. -/
def window : List Label := blocked ++ [.adv 0, .adv 0, .adv 0]

/-- The `Wait()` call really blocked: when it was issued the counter was 1 and its return
was not enabled. -/
theorem wait_blocked :
    ∃ s, (newLimiter 2).run blocked = some s ∧ s.wg = 1 ∧
      s.waiters = [{ before := [0], returned := false }] ∧ s.step (.waitRet 0) = none := by
  refine ⟨_, rfl, ?_⟩
  decide

/-- The misuse window is reachable; in it the waiter could return (it has been woken), the
`Add(1)` of task 1 is ENABLED in the machine, and after that step the waiter cannot return
any more (the machine lets it keep waiting; the real `sync.WaitGroup` panics
"WaitGroup is reused before previous Wait has returned"). -/
theorem misuse_window_reachable :
    ∃ s, Reachable 2 s ∧ (newLimiter 2).run window = some s ∧ MisuseWindow s = true ∧
      (s.step (.waitRet 0)).isSome = true ∧
      (s.tasks.map (·.pc) = [.wgDone, .sent]) ∧
      (s.step (.adv 1)).isSome = true ∧
      ∃ s', s.step (.adv 1) = some s' ∧ s'.wg = 1 ∧ s'.tasks.map (·.pc) = [.wgDone, .added] ∧
        s'.waiters = [{ before := [0], returned := false }] ∧ s'.step (.waitRet 0) = none := by
  refine ⟨_, ⟨window, rfl⟩, rfl, ?_⟩
  decide

/-- In general: in a misuse window of ANY state the `Add(1)` step of some submission is
enabled, and after it no `Wait()` call can return. -/
theorem misuse_step_enabled (s : St) (h : MisuseWindow s = true) :
    ∃ i s', s.step (.adv i) = some s' ∧ s'.wg = 1 ∧ ∀ j, s'.step (.waitRet j) = none := by
  simp only [MisuseWindow, Bool.and_eq_true, beq_iff_eq, List.any_eq_true] at h
  obtain ⟨⟨_, hz⟩, t, htm, hpc⟩ := h
  obtain ⟨i, hlt, hti⟩ := List.getElem_of_mem htm
  have ht : s.tasks[i]? = some t := by rw [List.getElem?_eq_getElem hlt, hti]
  obtain ⟨pc, outcome, starts, handled, hid⟩ := t
  simp only [] at hpc
  subst hpc
  let t' : Task := { pc := .added, outcome := outcome, starts := starts, handled := handled, hid := hid }
  let s1 : St := { s with wg := s.wg + 1, tasks := s.tasks.set i t' }
  refine ⟨i, s1, by simp only [St.step, St.adv, ht, s1, t'], by simp only [s1, hz], ?_⟩
  intro j
  simp only [St.step]
  split
  · rw [if_neg]
    simp [s1, hz]
  · rfl

end Golib.C19.WGReuse
