/-
F4 (C06): refutation of the PRE-FIX `mergeScopes` (single forward pass that never
re-checks the predecessor after a merge lowered `start`).
Witness: patterns a, c, abcde; text abcde.  `find` emits [0,1) [2,3) [0,5); the pre-fix
pass leaves the overlapping [0,1) [0,5), and both re-assembly loops slice `text[1:0]`.
-/
import Golib.Model.C06Replace

namespace Golib.C06
open Golib Golib.C05

def f4Text : List Nat := [97, 98, 99, 100, 101]
def f4Pats : List (List Nat) := [[97], [99], f4Text]

/-- what `find` emits on the witness -/
theorem f4_scopes : (Trie.ofPatterns f4Pats).bind (fun t => t.find f4Text)
    = some [⟨0, 1⟩, ⟨2, 3⟩, ⟨0, 5⟩] := by decide +kernel

/-- pre-fix pass: the result still overlaps -/
theorem f4_prefix_merge_overlaps :
    mergeScopesWith false [⟨0, 1⟩, ⟨2, 3⟩, ⟨0, 5⟩] = some [⟨0, 1⟩, ⟨0, 5⟩] := by decide +kernel

/-- pre-fix `Replace` and `ReplaceWithMask` panic on the witness -/
theorem f4_prefix_replace_panics :
    (Trie.ofPatterns f4Pats).bind (fun t => replaceWith false t f4Text [42]) = none := by
  decide +kernel

theorem f4_prefix_mask_panics :
    (Trie.ofPatterns f4Pats).bind (fun t => replaceWithMaskWith false t f4Text 42) = none := by
  decide +kernel

/-- the trie itself was built (the `none` above is the re-assembly panic) -/
theorem f4_trie_built : (Trie.ofPatterns f4Pats).isSome = true := by decide +kernel

/-- repaired code on the same witness -/
theorem f4_fixed_replace :
    (Trie.ofPatterns f4Pats).bind (fun t => replace t f4Text [42]) = some [42] := by decide +kernel

theorem f4_fixed_mask :
    (Trie.ofPatterns f4Pats).bind (fun t => replaceWithMask t f4Text 42) = some [42, 42, 42, 42, 42] := by
  decide +kernel

end Golib.C06
