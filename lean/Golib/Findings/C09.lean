/-
F5 (C09) — refutation of the code as found.  Before the repair `DecryptStreamTo` read the
16-byte header with ONE `stream.Read(saltHeader)` (`HeaderRead.single` in the model) and
required that call to return exactly 16 bytes and no error.  The `io.Reader` contract allows
short reads and allows `io.EOF` together with the last bytes, so `c09_stream_roundtrip` is
FALSE for that code:

* a reader that delivers one byte per call ⇒ "read header less error: n=1" (`err "rshort"`);
* a reader that delivers the 16 header bytes of an empty-plaintext stream together with
  `io.EOF` ⇒ "read header error: EOF" (`err "rhdr"`),

for every choice of the primitives, secret, salt and plaintext.  The repaired code
(`io.ReadFull`, `HeaderRead.readFull`) decrypts both (theorem `c09_stream_roundtrip`).
Witness replayed on the real code by `./check C09` (corpus lines `dec-stream … g:1,1,…`).
-/
import Golib.Proof.C09Top

namespace Golib.C09
open Golib.C08

/-- any reader whose first answer is a single byte of a longer stream defeats the
single-`Read` header code, whatever follows. -/
theorem f5_one_byte_reader (P : Prims) (secret : Bytes) (r : Reader) (out : Writer) (rest : List Nat)
    (hplan : r.plan = 1 :: rest) (hdata : 2 ≤ r.data.length) :
    decryptStreamTo P .single secret r out = .err "rshort" := by
  unfold decryptStreamTo readHeader Reader.read
  simp only [hplan, aesBlockSize]
  have h1 : min (min 1 16) r.data.length = 1 := by omega
  rw [h1]
  have h2 : ¬ (r.data.drop 1 = [] ∧ (1 = 0 ∨ r.eofWithData = true)) := by
    intro h
    have := congrArg List.length h.1
    simp only [List.length_drop, List.length_nil] at this; omega
  rw [if_neg h2]
  have h3 : (r.data.take 1).length = 1 := by simp; omega
  simp [h3]

/-- the complete stream of an empty plaintext (exactly the 16 header bytes) delivered in one
call together with `io.EOF` is rejected by the single-`Read` header code. -/
theorem f5_header_with_eof (P : Prims) (secret : Bytes) (r : Reader) (out : Writer)
    (hplan : r.plan = []) (hdata : r.data.length = 16) (heof : r.eofWithData = true) :
    decryptStreamTo P .single secret r out = .err "rhdr" := by
  unfold decryptStreamTo readHeader Reader.read
  simp only [hplan, aesBlockSize, heof]
  have h1 : min 16 r.data.length = 16 := by omega
  rw [h1]
  have h2 : r.data.drop 16 = [] := List.drop_eq_nil_of_le (by omega)
  simp [h2]

/-- toy primitives for the concrete witness (nothing before the header check uses them) -/
def f5Prims : Prims :=
  { md5 := fun x => (x ++ List.replicate 16 7).take 16,
    C := ⟨fun _ x => x, fun _ x => x⟩, A := ⟨fun _ _ p _ => p, fun _ _ c _ => some c⟩,
    KS := fun _ _ _ => 0, b64enc := id, b64raw := fun _ => ([], false), hexenc := id }

/-- a well-formed stream (`"Salted__"`, salt 1..8, three payload bytes) behind a
one-byte-at-a-time reader -/
def f5Reader : Reader :=
  { data := fixedSaltHeader ++ [1,2,3,4,5,6,7,8] ++ [10, 20, 30],
    plan := List.replicate 19 1, eofWithData := false, failAtEnd := false }

/-- the concrete witness: rejected by the code as found, decrypted by the repaired code. -/
example :
    decryptStreamTo f5Prims .single [1] f5Reader ⟨[], none⟩ = .err "rshort" ∧
    (match decryptStreamTo f5Prims .readFull [1] f5Reader ⟨[], none⟩ with
      | .ok w => w.content | _ => []) = [10, 20, 30] := by decide +kernel

end Golib.C09
