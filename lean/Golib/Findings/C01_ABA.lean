/-
F12 (C01) — ticket ABA: `c01_linearizable` WITHOUT BoundedLag is false for every fixed
ticket width.  The machine is generic in the ticket modulus; at width `w = 2`
(`M = 4`, capacity 2) the overwriting schedule consists of honest steps only and is
checked here by `decide`:

  thread 0   Push(7): loads tail = 0, loads slot[0].seq = 0 (free for position 0) — parked
  thread 1   Push(8), Push(9)            ring full, tail = 2
  thread 2   Pop() = 8                   head = 1
  thread 1   Push(10)                    tail = 3
  thread 2   Pop() = 9                   head = 2
  thread 1   Push(11)                    tail = 4 ≡ 0 (mod 4): 2^w positions went by
  thread 0   CAS(&tail, 0, 1) succeeds ON A FULL RING, writes 7 over the live value 10,
             stores seq 1 into slot 0 (it should be 3)
  thread 2   Pop() = false although two/three values are stored: the ring is wedged.

Five pushes and two pops returned true: three elements in a queue of capacity 2.
At `w = 32` the same happens when 2^32 positions go by during one call; the Go harness
replays that on the real code (corpus case `corpus-F12` of go/props/c01: the counters
are advanced by 2^32 − 2 through reflection while thread 0 is parked).
-/
import Golib.Model.C01Ring

namespace Golib.C01.Findings

def w2 : Cfg := { M := 4, cap := 2 }

def progs : List (List Call) :=
  [[.push 7], [.push 8, .push 9, .push 10, .push 11], [.pop, .pop, .pop]]

def rep (n t : Nat) : List Nat := List.replicate n t

/-- push = 5 steps (2 loads, CAS, plain write, store); pop = 6 steps. -/
def abaSchedule : List Nat :=
  rep 2 0 ++ rep 10 1 ++ rep 6 2 ++ rep 5 1 ++ rep 6 2 ++ rep 5 1 ++ rep 3 0 ++ rep 2 2

def rets (es : List Event) : List Ret := es.filterMap (·.ret)

/-- Every push returned true, the pops returned 8 and 9, and the last pop fails. -/
theorem aba_results :
    rets (run w2 (init w2 progs) abaSchedule).2 =
      [.push true, .push true, .pop 8 true, .push true, .pop 9 true, .push true,
       .push true, .pop 0 false] := by decide

/-- The live value 10 was overwritten by 7; the slot's sequence number is 1 while the
next pop (position 2) needs 3: no later pop can ever succeed on this slot. -/
theorem aba_final_state :
    let s := (run w2 (init w2 progs) abaSchedule).1
    s.head = 2 ∧ s.tail = 1 ∧ s.slots = [⟨1, 7⟩, ⟨0, 11⟩] := by decide

/-- 5 successful pushes and 2 successful pops: 3 elements in capacity 2 — no run of a
bounded FIFO of capacity 2 has these results. -/
theorem aba_exceeds_capacity :
    let rs := rets (run w2 (init w2 progs) abaSchedule).2
    (rs.filter (· = .push true)).length
      - (rs.filter (fun r => match r with | .pop _ true => true | _ => false)).length
      > w2.cap := by decide

/-- The SAME schedule on the ghost machine with unbounded tickets (`M = 0`): thread 0's
stale CAS fails (tail = 4 ≠ 0), nothing is overwritten and the next pop (completed by
four more steps of thread 2) returns 10. -/
theorem aba_absent_with_unbounded_tickets :
    let c : Cfg := { M := 0, cap := 2 }
    rets (run c (init c progs) (abaSchedule ++ rep 4 2)).2 =
      [.push true, .push true, .pop 8 true, .push true, .pop 9 true, .push true,
       .push false, .pop 10 true] := by decide

end Golib.C01.Findings
