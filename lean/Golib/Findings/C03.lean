/-
F2 (C03) — refutation of the code before the fix: `RoaringBitmapIter.Next` kept the
exhausted inner iterator when it advanced to the next bucket, so only the first bucket
was enumerated.  `itNext false` is that code; `itNext true` is the repaired code
(`i.iter = nil` after `i.node = i.node.Next()`), which the C03 theorems are about.
-/
import Golib.Model.C03Roaring

namespace Golib.C03.Findings

/-- add 1, 70000, 140000 to the zero value: three buckets. -/
def witness : Option RB := do
  let (r, _) ← RB.empty.add 1
  let (r, _) ← r.add 70000
  let (r, _) ← r.add 140000
  pure r

/-- Pre-fix: `Len() == 3`, but `Iter` yields `[1]` only. -/
theorem f2_prefix_iter_incomplete :
    witness.map (·.len) = some 3 ∧
    witness.bind (fun r => (r.iterAll false).map (·.1)) = some [1] ∧
    witness.map (fun r => r.range 0) = some [1, 70000, 140000] := by
  decide

/-- Repaired code on the same witness. -/
theorem f2_fixed_iter_complete :
    witness.bind (fun r => (r.iterAll true).map (·.1)) = some [1, 70000, 140000] := by
  decide

end Golib.C03.Findings
