/-
C11 — refutation of a two-counter `Len()` that loads `pushed` BEFORE `popped`
(seeded change C11-K; the class: a `Len()` composed of several atomic loads whose order
matters).  Machine: `Golib/Model/C11Len2.lean` (the real `Push`/`Pop` with the counter update in
the same place, `Len()` = two loads with a preemption point between them).

Schedule: thread 0 performs the FIRST load of its `Len()`; thread 1 then runs a complete
`Push(7)` (5 accesses) and a complete `Pop()` (7 accesses, it takes the initial value 4);
thread 0 performs its second load and returns.  The pair is counted on the `popped` side only:
`Len()` returns `|initial| - 1`.
 * On a list pre-filled with one value: it returns 0 although one value (first 4, then 7)
   can be popped at EVERY instant of the call — below the minimum over the call, so no
   instant justifies it (`k_len_below_poppable`).
 * On an empty list: it returns -1 (`k_len_negative`).
 * With the loads in the other order (`poppedFirst`) the same schedule returns 2 resp. 1, an
   over-approximation, which the property allows (`k_popped_first_same_schedule`;
   `Golib/Proof/C11Len2.lean` proves it for every schedule).
The Go harness finds these schedules on the real (changed) code: DFS configurations
`list 2 T l T u21 o`, `list 1 T l l T u21 o u22 o` and the `parked-window` stream of
go/props/c11/gen.go, judged by `checkLenCalls`.
-/
import Golib.Model.C11Len2

namespace Golib.C11.Findings

def kProgs : List (List Call) := [[.len], [.push 7, .pop]]

/-- thread 0: first load;  thread 1: Push = load tail, load next, link CAS, add pushed, store
tail; Pop = load head, load tail, load next, CAS head, read value, clear value, add popped;
thread 0: second load, return. -/
def kWindow : List Nat := [0] ++ List.replicate 12 1

/-- `pushed` first, pre-filled list: `Len()` returns 0 while the poppable count is 1 or 2 at
every instant of the call (the listed counts: before the first load, after every step up to
and including the return). -/
theorem k_len_below_poppable :
    ((run2 .pushedFirst (init2 [4] kProgs) (kWindow ++ [0])).2.filterMap (·.ret)) =
      [.push, .pop 4 true, .len 0] ∧
    poppableAlong2 .pushedFirst (init2 [4] kProgs) (kWindow ++ [0]) =
      [1, 1, 1, 1, 1, 1, 2, 2, 2, 2, 1, 1, 1, 1, 1] ∧
    ¬ LenCallOK (poppableAlong2 .pushedFirst (init2 [4] kProgs) (kWindow ++ [0])) 0 := by
  decide

/-- `pushed` first, empty list: `Len()` returns -1. -/
theorem k_len_negative :
    ((run2 .pushedFirst (init2 [] kProgs) (kWindow ++ [0])).2.filterMap (·.ret)) =
      [.push, .pop 7 true, .len (-1)] := by
  decide

/-- The accesses of thread 0's `Len()` in the witness: the two loads see `pushed = 1` (before
the pair) and `popped = 1` (after it). -/
theorem k_len_accesses :
    ((run2 .pushedFirst (init2 [4] kProgs) (kWindow ++ [0])).2.filter (·.tid == 0)).map (·.acc) =
      [.ldPushed 1, .ldPopped 1] := by
  decide

/-- `popped` first on the same schedules: 2 resp. 1 — not below the poppable count of the
instant of the second load. -/
theorem k_popped_first_same_schedule :
    ((run2 .poppedFirst (init2 [4] kProgs) (kWindow ++ [0])).2.filterMap (·.ret)) =
      [.push, .pop 4 true, .len 2] ∧
    LenCallOK (poppableAlong2 .poppedFirst (init2 [4] kProgs) (kWindow ++ [0])) 2 ∧
    ((run2 .poppedFirst (init2 [] kProgs) (kWindow ++ [0])).2.filterMap (·.ret)) =
      [.push, .pop 7 true, .len 1] := by
  decide

/-- Hence the Len clause for calls is FALSE of the two-counter `Len()` that loads `pushed`
first: the witness is a call window in the sense of `LenCallSpec2` (thread 0 in front of the
first access of `Len()`, no return of thread 0 during the window, `len 0` on its next step). -/
theorem k_refutes_pushed_first : ¬ LenCallSpec2 .pushedFirst := by
  intro h
  have := h [4] kProgs [] kWindow 0 0 (by decide) (by decide) (by decide) (by decide)
  exact absurd this (by decide)

end Golib.C11.Findings
