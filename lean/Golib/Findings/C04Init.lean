/-
Finding F13 (C04): `Heap.Init` on a non-empty heap, as coded before the repair, does not detach
the elements it discards: they keep `heap == h` and their old `index`.  A handle obtained before
the second `Init` therefore (a) still reports `Index() = 0` although its element has left the
heap and (b) makes `Remove` delete a *different* element of the new heap.

Witness (also in the corpus of the Go harness, reproduced on the real code):
`h.Init([10,20,30], <); old := h.Peek(); h.Init([1,2,3], <); h.Remove(old)`.
-/
import Golib.Model.C04Clients

namespace Golib.C04.Findings
open Golib.C04

/-- `Init` exactly as coded before the repair (no detaching loop). -/
def initPreFix (cmp : Int → Int → Bool) (m : HMem) (h : Nat) (vs : List Int) : Option HMem :=
  let (m1, values) := HMem.allocInit h vs 0 m []
  let m2 := m1.setArr h values
  build (heapOps cmp h) m2 values.length

def lt : Int → Int → Bool := fun a b => decide (a < b)

/-- The state after the two `Init`s, pre-fix. -/
def witness : Option HMem :=
  (initPreFix lt HMem.zero 0 [10, 20, 30]).bind fun m => initPreFix lt m 0 [1, 2, 3]

/-- (a) element `0` (value 10) has left the heap but still reports `Index() = 0`;
(b) `Remove(old)` is not ignored: it removes element `3` (value 1) of the new heap. -/
theorem prefix_init_keeps_stale_handles :
    (witness.map fun m => (m.arr 0, m.idx.get 0)) = some ([3, 4, 5], 0) ∧
    ((witness.bind fun m => m.remove lt 0 0).map fun m => m.arr 0) = some ([4, 5]) := by
  decide

/-- The repaired `Init` detaches it: `Index() = -1` and `Remove(old)` changes nothing. -/
theorem repaired_init_detaches :
    let w := (HMem.init lt HMem.zero 0 [10, 20, 30]).bind fun m => HMem.init lt m 0 [1, 2, 3]
    (w.map fun m => (m.arr 0, m.idx.get 0)) = some ([3, 4, 5], -1) ∧
    ((w.bind fun m => m.remove lt 0 0).map fun m => m.arr 0) = some ([3, 4, 5]) := by
  decide

end Golib.C04.Findings
