/-
Finding note (not a defect of the property as worded): `StrGenerator.Generate(n)`, `n ≥ 1`,
does not terminate for a `rand.Source` that offers no acceptable index — e.g. one whose
`Int63()` always returns 2^63 − 1.  General statement: `c20_str_never_returns`
(Props/C20.lean).  Concrete instances, evaluated: the package's CHAR_SET (31 runes, 5 index
bits, 12 indices per word) and the one-rune set "a".
-/
import Golib.Proof.C20Term

namespace Golib.C20.Findings
open Golib.C20

example : (newStrGen [65,66,67,68,69,70,71,72,74,75,77,78,80,81,82,83,84,85,86,87,88,89,90,50,51,52,53,54,55,56,57]).map
    (fun g => (g.charIdxBits, g.charIdxMax, accepted g (2 ^ 63 - 1) g.charIdxMax,
      generate g 1 [2 ^ 63 - 1, 2 ^ 63 - 1, 2 ^ 63 - 1])) = some (5, 12, 0, .exhausted) := by
  decide +kernel

example : (newStrGen [97]).map (fun g => (g.charIdxBits, accepted g (2 ^ 63 - 1) g.charIdxMax,
    generate g 1 [2 ^ 63 - 1, 2 ^ 63 - 1])) = some (1, 0, .exhausted) := by
  decide +kernel

end Golib.C20.Findings
