/-
C14 / wave 8 B — the change class of seeded change C14-I, on concrete inputs.

`Copy` rewritten so that the END index is clamped (`end := start + length; if length < 0 || end > l
{ end = l }; s[start:end]`, "the same way SubSlice does") forms the sum `start + length` BEFORE it is
compared.  `copyEndG` (Model/C14Wrap.lean) is that text with the `int` operations as a parameter.
Over unbounded integers it is the same function as `Copy` (`c14_copy_sum_first_guard`, first clause);
on the 64-bit machine the sum wraps to a negative end and the slice expression panics — the idiom
`Copy(s, 1, math.MaxInt)` ("everything from index 1") and every `Copy(s, k, MaxInt - j)` with `j < k`.
This is NOT the code of /repo (which clamps the length first: `c14_copy_nowrap`); the file records
the witnesses the int-edge streams of the harness replay, and that the CODE AS WRITTEN answers them.
-/
import Golib.Model.C14Wrap

namespace Golib.C14.Findings

/-- the sum-first text on the 64-bit machine: a panic (`none`) where the documented answer is `s[start:]` -/
theorem copy_sum_first_panics :
    copyEndG .wrap64 [1, 2, 3] 1 maxInt = none ∧
    copyEndG .wrap64 [1, 2, 3] 2 (maxInt - 1) = none ∧
    copyEndG .wrap64 [1, 2, 3, 4, 5] 4 maxInt = none := by decide

/-- … while over unbounded integers, and for every length that still fits, it is right -/
theorem copy_sum_first_ideal :
    copyEndG .exact [1, 2, 3] 1 maxInt = some (.fresh [2, 3]) ∧
    copyEndG .wrap64 [1, 2, 3] 1 (maxInt - 1) = some (.fresh [2, 3]) ∧
    copyEndG .wrap64 [1, 2, 3] 0 maxInt = some (.fresh [1, 2, 3]) ∧
    copyEndG .wrap64 [1, 2, 3] (-1) maxInt = some (.fresh [1, 2, 3]) ∧
    copyEndG .wrap64 [1, 2, 3] 1 4294967297 = some (.fresh [2, 3]) := by decide

/-- the code as written, same arguments, on the 64-bit machine -/
theorem copy_as_written :
    copyG .wrap64 [1, 2, 3] 1 maxInt = some (.fresh [2, 3]) ∧
    copyG .wrap64 [1, 2, 3] 2 (maxInt - 1) = some (.fresh [3]) ∧
    copyG .wrap64 [1, 2, 3, 4, 5] 4 maxInt = some (.fresh [5]) ∧
    copyG .wrap64 [1, 2, 3] minInt minInt = some (.fresh [1, 2, 3]) ∧
    copyG .wrap64 [1, 2, 3] maxInt maxInt = some .nil := by decide

end Golib.C14.Findings
