/-
C16 — sensitivity witnesses for the one-memory model (NOT defects of the repository).

The theorems `c16_noninterference` / `c16_clone_independent` hold because every reachable state
of the coded methods keeps the backing arrays of different registers disjoint.  The examples
below show that the model would expose the two kinds of change that were seeded against this
property (seeded/C16-A, C16-B): once two registers share a backing array, or stale words are
re-exposed by a reslice, the views read through the headers change exactly as the Go slices do.
-/
import Golib.Proof.C16HeapSim

namespace Golib.C16.Findings

/-- `*b = other` (C16-B): both registers hold the SAME header.  The pairwise-disjointness part of
the invariant is false for such a state … -/
example : ¬ Disj (⟨0, 2, 2⟩ : Hdr) ⟨0, 2, 2⟩ := by unfold Disj; decide

/-- … and an `Add` through one header changes what the other one reads (member 5 appears in the
"other" set although only the receiver was written). -/
example :
    let H : Heap := [8#64, 1#64]
    let h : Hdr := ⟨0, 2, 2⟩      -- receiver after `*b = other`
    let o : Hdr := ⟨0, 2, 2⟩      -- the other operand
    (hAdd goGrow8 H h 5).map (fun r => (o.view r.1, o.view H)) = some ([40#64, 1#64], [8#64, 1#64]) := by
  decide

/-- Truncate-instead-of-zero (C16-A): `Intersect` cutting the receiver to `len(other)` leaves the
old words in the spare capacity.  The coded `Grow`/`Add` re-extend with `append(make(zeros)…)`,
which overwrites them — the stale word `7` does not come back … -/
example :
    let H : Heap := [1#64, 7#64, 7#64]
    let h : Hdr := ⟨0, 1, 3⟩      -- truncated to one word, capacity still three
    (hGrow goGrow8 H h 130).2.view (hGrow goGrow8 H h 130).1 = [1#64, 0#64, 0#64] := by decide

/-- … whereas the seeded fast path `b.set = b.set[:index+1]` (a pure reslice inside the capacity)
re-exposes them: the model reads the stale words through the longer header. -/
example :
    let H : Heap := [1#64, 7#64, 7#64]
    let resliced : Hdr := ⟨0, 3, 3⟩
    resliced.view H = [1#64, 7#64, 7#64] := by decide

/-- The coded `Clone` gives a block of its own: writing through the clone's header leaves the
source's view alone (here member 5 is added to the clone only). -/
example :
    let H : Heap := [8#64]
    let src : Hdr := ⟨0, 1, 1⟩
    let c := hClone H src
    (hAdd goGrow8 c.1 c.2 5).map (fun r => (src.view r.1, r.2.1.view r.1)) = some ([8#64], [40#64]) := by
  decide

end Golib.C16.Findings
