/-
Finding F9 (C17): the pre-fix `SubByDisplay` of `strz/strs.go`

    var dpl, end int
    for _, v := range s {
        if v < utf8.RuneSelf { dpl += 1 } else { dpl += 2 }
        if dpl > length { break }
        end += utf8.RuneLen(v)
    }
    return s[:end]

derives the byte length of each rune from the decoded rune.  For an invalid byte the
range loop yields U+FFFD *and advances by one byte*, but `utf8.RuneLen(U+FFFD) = 3`, so
`end` runs ahead of the real cursor and `s[:end]` slices past the end of the string.
This file keeps the model of that algorithm and the machine-checked refutation of the
no-panic claim for it; the model in `Golib/Model/C17Strs.lean` is the repaired code
(cut at the range index).
-/
import Golib.Model.C17Strs

namespace Golib.C17.Findings
open Golib.Utf8 Golib.C17

/-- The pre-fix loop: `end_` accumulates `utf8.RuneLen(v)`. `runeLen` is −1 only for
invalid runes, which a range loop never yields. -/
def subByDisplayLoopOld (length : Int) : List (Nat × Int × Nat) → Int → Int → Int
  | [], _, end_ => end_
  | (_, v, _) :: rest, dpl, end_ =>
    let dpl := if v < 0x80 then dpl + 1 else dpl + 2
    if dpl > length then end_
    else subByDisplayLoopOld length rest dpl (end_ + runeLen v)

def subByDisplayOld (s : List Nat) (length : Int) : Option (List Nat) :=
  if (s.length : Int) ≤ length then some s
  else
    let end_ := subByDisplayLoopOld length (rangeDecode s) 0 0
    if 0 ≤ end_ then sliceTo s end_.toNat else none

/-- F9 witness: `SubByDisplay("\xff\xff\xff\xff\xff", 4)` computes `end = 6 > len(s) = 5`. -/
theorem f9_end_runs_ahead :
    subByDisplayLoopOld 4 (rangeDecode [0xff, 0xff, 0xff, 0xff, 0xff]) 0 0 = 6 := by decide

/-- … and therefore panics (slice bounds out of range `[:6]` with length 5). -/
theorem f9_old_subByDisplay_panics :
    subByDisplayOld [0xff, 0xff, 0xff, 0xff, 0xff] 4 = none := by decide

/-- The pre-fix algorithm is not total: the no-panic clause of C17 is false of it. -/
theorem f9_old_not_total : ¬ ∀ (s : List Nat) (n : Int), subByDisplayOld s n ≠ none :=
  fun h => h _ _ f9_old_subByDisplay_panics

/-- Even without a panic the old result is not a prefix cut at a rune boundary of what
was scanned: `SubByDisplay("\xffab", 2)` returns the whole string (display width 4). -/
theorem f9_old_wrong_cut : subByDisplayOld [0xff, 0x61, 0x62] 2 = some [0xff, 0x61, 0x62] := by decide

/-- The repaired model on the same witnesses. -/
example : subByDisplay [0xff, 0xff, 0xff, 0xff, 0xff] 4 = some [0xff, 0xff] := by decide
example : subByDisplay [0xff, 0x61, 0x62] 2 = some [0xff] := by decide

/-! ## Finding F15: `Mask` — `l - start - end` wraps around in `int`

    l := utf8.RuneCountInString(str)
    ml := l - start - end
    if ml <= 0 { return str }
    if utf8.RuneCountInString(mask) == 1 { mask = strings.Repeat(mask, ml) }
    if ml == l { return mask }
    end = l - end
    …

For non-negative arguments with `start + end > 2^63 + l` the 64-bit subtraction wraps to a
positive `ml`: `Mask("abc", "*", MaxInt64, 5)` calls `strings.Repeat("*", MaxInt64)` (panic:
`makeslice: len out of range`), `Mask("abc", "*", MaxInt64, MaxInt64)` returns `"*****"`.
The repair `if start > l || end > l { return str }` keeps every intermediate value in
`[-l, l]`.  Below: the pre-fix code with 64-bit arithmetic and its refutation, and the
repaired code with 64-bit arithmetic together with the proof that it never wraps, i.e. that
it is the model `Golib.C17.mask` (which computes in unbounded `Int`). -/

/-- Two's-complement `int64` result of an exact integer `x`. -/
def wrap64 (x : Int) : Int := (x + 9223372036854775808) % 18446744073709551616 - 9223372036854775808

theorem wrap64_id (x : Int) (h1 : -9223372036854775808 ≤ x) (h2 : x < 9223372036854775808) :
    wrap64 x = x := by
  unfold wrap64; omega

/-- `strings.Repeat(m, n)`, `n ≥ 0`: `none` when the result cannot exist (`len(m)*n` beyond
`maxAlloc = 2^48` bytes: "Repeat output length overflow" / "makeslice: len out of range"). -/
def repeatOld (m : List Nat) (n : Nat) : Option (List Nat) :=
  if m.length * n > 281474976710656 then none else some (repeatStr m n)

/-- The pre-fix `Mask`, every `int` operation wrapped to 64 bits. -/
def maskOld64 (str msk : List Nat) (start end_ : Int) : Option (List Nat) :=
  let l : Int := runeCount str
  let ml := wrap64 (wrap64 (l - start) - end_)
  if ml ≤ 0 then some str
  else
    match (if runeCount msk = 1 then repeatOld msk ml.toNat else some msk) with
    | none => none
    | some msk =>
    if ml = l then some msk
    else
      let end_ := wrap64 (l - end_)
      match maskLoop str start end_ (str.length + 1) 0 0 0 0 with
      | none => none
      | some (si, ei) =>
        let ei := if ei = 0 then str.length else ei
        match sliceTo str si, sliceFrom str ei with
        | some a, some b => some (a ++ msk ++ b)
        | _, _ => none

/-- The repaired `Mask`, every `int` operation wrapped to 64 bits. -/
def mask64 (str msk : List Nat) (start end_ : Int) : Option (List Nat) :=
  let l : Int := runeCount str
  if start > l ∨ end_ > l then some str
  else
  let ml := wrap64 (wrap64 (l - start) - end_)
  if ml ≤ 0 then some str
  else
    let msk := if runeCount msk = 1 then repeatStr msk ml.toNat else msk
    if ml = l then some msk
    else
      let end_ := wrap64 (l - end_)
      match maskLoop str start end_ (str.length + 1) 0 0 0 0 with
      | none => none
      | some (si, ei) =>
        let ei := if ei = 0 then str.length else ei
        match sliceTo str si, sliceFrom str ei with
        | some a, some b => some (a ++ msk ++ b)
        | _, _ => none

def maxInt64 : Int := 9223372036854775807

/-- F15 witness 1: `Mask("abc", "*", MaxInt64, 5)`: the wrapped `ml` is `MaxInt64` … -/
theorem f15_ml_wraps : wrap64 (wrap64 (3 - maxInt64) - 5) = maxInt64 := by decide

/-- … so `strings.Repeat("*", MaxInt64)` is called and the function panics. -/
theorem f15_old_mask_panics : maskOld64 [97, 98, 99] [42] maxInt64 5 = none := by decide

/-- F15 witness 2: `Mask("abc", "*", MaxInt64, MaxInt64)` returns `"*****"`, not `"abc"`. -/
theorem f15_old_mask_wrong :
    maskOld64 [97, 98, 99] [42] maxInt64 maxInt64 = some [42, 42, 42, 42, 42] := by decide

/-- The pre-fix algorithm is not total on non-negative `int` arguments. -/
theorem f15_old_not_total :
    ¬ ∀ (s m : List Nat) (a b : Int), 0 ≤ a → a ≤ maxInt64 → 0 ≤ b → b ≤ maxInt64 →
      maskOld64 s m a b ≠ none :=
  fun h => h _ _ _ _ (by decide) (by decide) (by decide) (by decide) f15_old_mask_panics

theorem go_length_le : ∀ (fuel off : Nat) (bs : List Nat), (rangeDecode.go fuel off bs).length ≤ fuel := by
  intro fuel
  induction fuel with
  | zero => intro off bs; simp [rangeDecode.go]
  | succ f ih =>
    intro off bs
    cases bs with
    | nil => simp [rangeDecode.go]
    | cons b rest =>
      simp only [rangeDecode.go, List.length_cons]
      have := ih (off + (if (decodeRune (b :: rest)).2 = 0 then 1 else (decodeRune (b :: rest)).2))
        ((b :: rest).drop (if (decodeRune (b :: rest)).2 = 0 then 1 else (decodeRune (b :: rest)).2))
      omega

theorem runeCount_le_length (bs : List Nat) : runeCount bs ≤ bs.length :=
  go_length_le bs.length 0 bs

/-- The repaired `Mask` never wraps: for every string (a Go string is shorter than 2^63
bytes) and all non-negative `int` arguments, computing with 64-bit wrap-around gives exactly
what the model `mask` computes in unbounded integers.  So the theorems about `mask`
(`c17_mask`, `c17_no_panic`, `c17_results_valid`) are theorems about the 64-bit code. -/
theorem mask64_eq_mask (str msk : List Nat) (start end_ : Int)
    (hl : (str.length : Int) ≤ maxInt64)
    (hs : 0 ≤ start ∧ start ≤ maxInt64) (he : 0 ≤ end_ ∧ end_ ≤ maxInt64) :
    mask64 str msk start end_ = mask str msk start end_ := by
  have hc := runeCount_le_length str
  unfold maxInt64 at hl hs he
  unfold mask64 mask
  simp only []
  by_cases hg : start > (runeCount str : Int) ∨ end_ > (runeCount str : Int)
  · rw [if_pos hg, if_pos hg]
  · rw [if_neg hg, if_neg hg]
    have h1 : wrap64 ((runeCount str : Int) - start) = (runeCount str : Int) - start :=
      wrap64_id _ (by omega) (by omega)
    have h2 : wrap64 ((runeCount str : Int) - start - end_) = (runeCount str : Int) - start - end_ :=
      wrap64_id _ (by omega) (by omega)
    have h3 : wrap64 ((runeCount str : Int) - end_) = (runeCount str : Int) - end_ :=
      wrap64_id _ (by omega) (by omega)
    rw [h1, h2, h3]
    rfl

/-- The repaired model on the F15 witnesses. -/
example : mask [97, 98, 99] [42] maxInt64 5 = some [97, 98, 99] := by decide
example : mask [97, 98, 99] [42] maxInt64 maxInt64 = some [97, 98, 99] := by decide
example : mask64 [97, 98, 99] [42] 1 1 = some [97, 42, 99] := by decide

end Golib.C17.Findings
