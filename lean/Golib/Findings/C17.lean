/-
Finding F9 (C17): the pre-fix `SubByDisplay` of `strz/strs.go`

    var dpl, end int
    for _, v := range s {
        if v < utf8.RuneSelf { dpl += 1 } else { dpl += 2 }
        if dpl > length { break }
        end += utf8.RuneLen(v)
    }
    return s[:end]

derives the byte length of each rune from the decoded rune.  For an invalid byte the
range loop yields U+FFFD *and advances by one byte*, but `utf8.RuneLen(U+FFFD) = 3`, so
`end` runs ahead of the real cursor and `s[:end]` slices past the end of the string.
This file keeps the model of that algorithm and the machine-checked refutation of the
no-panic claim for it; the model in `Golib/Model/C17Strs.lean` is the repaired code
(cut at the range index).
-/
import Golib.Model.C17Strs

namespace Golib.C17.Findings
open Golib.Utf8 Golib.C17

/-- The pre-fix loop: `end_` accumulates `utf8.RuneLen(v)`. `runeLen` is −1 only for
invalid runes, which a range loop never yields. -/
def subByDisplayLoopOld (length : Int) : List (Nat × Int × Nat) → Int → Int → Int
  | [], _, end_ => end_
  | (_, v, _) :: rest, dpl, end_ =>
    let dpl := if v < 0x80 then dpl + 1 else dpl + 2
    if dpl > length then end_
    else subByDisplayLoopOld length rest dpl (end_ + runeLen v)

def subByDisplayOld (s : List Nat) (length : Int) : Option (List Nat) :=
  if (s.length : Int) ≤ length then some s
  else
    let end_ := subByDisplayLoopOld length (rangeDecode s) 0 0
    if 0 ≤ end_ then sliceTo s end_.toNat else none

/-- F9 witness: `SubByDisplay("\xff\xff\xff\xff\xff", 4)` computes `end = 6 > len(s) = 5`. -/
theorem f9_end_runs_ahead :
    subByDisplayLoopOld 4 (rangeDecode [0xff, 0xff, 0xff, 0xff, 0xff]) 0 0 = 6 := by decide

/-- … and therefore panics (slice bounds out of range `[:6]` with length 5). -/
theorem f9_old_subByDisplay_panics :
    subByDisplayOld [0xff, 0xff, 0xff, 0xff, 0xff] 4 = none := by decide

/-- The pre-fix algorithm is not total: the no-panic clause of C17 is false of it. -/
theorem f9_old_not_total : ¬ ∀ (s : List Nat) (n : Int), subByDisplayOld s n ≠ none :=
  fun h => h _ _ f9_old_subByDisplay_panics

/-- Even without a panic the old result is not a prefix cut at a rune boundary of what
was scanned: `SubByDisplay("\xffab", 2)` returns the whole string (display width 4). -/
theorem f9_old_wrong_cut : subByDisplayOld [0xff, 0x61, 0x62] 2 = some [0xff, 0x61, 0x62] := by decide

/-- The repaired model on the same witnesses. -/
example : subByDisplay [0xff, 0xff, 0xff, 0xff, 0xff] 4 = some [0xff, 0xff] := by decide
example : subByDisplay [0xff, 0x61, 0x62] 2 = some [0xff] := by decide

end Golib.C17.Findings
