/-
The hypothesis `SWO cmp` (strict weak order) of the C04 theorems is NECESSARY, not a convenience:
machine-checked counter-examples for two comparators a caller might pass.

(1) the NON-STRICT `<=` (not irreflexive): with ties, the element `Pop` returns IS preceded by a
    remaining one, and no arrangement of `[1, 1]` satisfies the heap-order predicate at all.
(2) a "clearly smaller" comparator `a + 1 < b` (irreflexive and transitive — a strict partial
    order — but incomparability is not transitive: 0 ~ 1, 1 ~ 2, yet 0 < 2): after the pushes
    2, 1, 2, 0 every parent/child pair is in order (`Values = [2, 1, 2, 0]` is a "heap"), but `Peek` and
    `Pop` return 2 while 0, which precedes 2, is still inside.
-/
import Golib.Model.C04Clients

namespace Golib.C04.Findings
open Golib.C04

def le : Int → Int → Bool := fun a b => decide (a ≤ b)
def gap : Int → Int → Bool := fun a b => decide (a + 1 < b)

/-- (1) `<=`: `Pop` on `FromSlice([1,1])` returns 1 and leaves a 1 that "precedes" it. -/
theorem le_pop_not_minimal :
    ((Slice.fromSlice le [1, 1]).bind fun s => Slice.pop le s) = some ([1], 1, true) ∧
    le 1 1 = true := by
  decide

/-- (2a) `gap` is irreflexive and transitive on the values used, but incomparability is not
transitive. -/
theorem gap_not_weak :
    gap 0 1 = false ∧ gap 1 0 = false ∧ gap 1 2 = false ∧ gap 2 1 = false ∧ gap 0 2 = true := by
  decide

/-- the state after `Push 2, 1, 2, 0` on an empty `Slice` -/
def gapHeap : Option (List Int) :=
  (((Slice.push gap [] 2).bind fun s => Slice.push gap s 1).bind fun s => Slice.push gap s 2).bind
    fun s => Slice.push gap s 0

/-- (2b) every child/parent pair of `[2,1,2,0]` is in order, `Peek`/`Pop` return 2, and 0 — still in
the heap — precedes 2. -/
theorem gap_pop_not_minimal :
    gapHeap = some [2, 1, 2, 0] ∧
    (gap 1 2 = false ∧ gap 2 2 = false ∧ gap 0 1 = false) ∧
    Slice.peek [2, 1, 2, 0] = some (2, true) ∧
    ((Slice.pop gap [2, 1, 2, 0]).map fun r => (r.2.1, r.1)) = some (2, [0, 1, 2]) ∧
    gap 0 2 = true := by
  decide

end Golib.C04.Findings
