/-
F8 (C12) — refutation of the PRE-FIX code: `Keys()` / `Values()` in mapz/safekv.go
evaluated `len(s.entries)` (the capacity argument of `make`) BEFORE `s.mu.RLock()`.
Extracted events of the pre-fix bodies: [read, rlock, read, runlock].
* they are not well locked;
* in the machine, one goroutine about to run pre-fix `Keys` and one goroutine that has
  entered `Set` are in a `Race` configuration, reachable in one step.
Repair (fix-F8): take the read lock first.  The Go race detector reports this race
within milliseconds (`./check C12` on the unrepaired tree).
-/
import Golib.Model.C12Conc

namespace Golib.C12.F8

def keysPreFix : List Ev := [.read, .rlock, .read, .runlock]
def setBody : List Ev := [.lock, .write, .unlock]

theorem keys_prefix_not_wellLocked : wellLocked keysPreFix = false := by decide

def acts (es : List Ev) : List (Act Unit Unit) := es.map fun e => { ev := e }

/-- goroutine 0 runs pre-fix Keys, goroutine 1 runs Set, everybody else nothing -/
def prog (t : Nat) : List (Act Unit Unit) :=
  if t = 0 then acts keysPreFix else if t = 1 then acts setBody else []

def c₀ : Conf Unit Unit := Conf.init () prog (fun _ => ())

/-- after goroutine 1 takes the write lock, goroutine 0's unlocked `len(s.entries)`
and goroutine 1's map assignment are both enabled: a data race. -/
theorem keys_prefix_race : ∃ c, Reach c₀ c ∧ Race c := by
  refine ⟨c₀.after 1 { ev := .lock } (acts [.write, .unlock]), ?_, ?_⟩
  · refine Reach.step Reach.refl (Step.mk c₀ 1 _ _ ?_ ?_)
    · rfl
    · intro u; rfl
  · refine ⟨0, 1, { ev := .read }, acts [.rlock, .read, .runlock], { ev := .write }, acts [.unlock],
      by decide, ?_, ?_, rfl, rfl, Or.inr rfl⟩
    · rfl
    · rfl

end Golib.C12.F8
