/-
C14 / F17 — refutation of the PRE-FIX `FlexSlice.Prepend` (before 5e7c306): with enough capacity
the content was shifted first and `v` read afterwards, so an argument aliasing the receiver's own
array was clobbered; the result of the same logical call depended on the spare capacity, which
contradicts "behaves as a sequence under … Prepend … regardless of spare capacity".
-/
import Golib.Model.C14FlexAlias

namespace Golib.C14.Findings

/-- the pre-fix code: in capacity `v` is ALWAYS read after the shift -/
def prependWinPre (f : Flex) (a n1 : Nat) : Option Flex :=
  if a + n1 > f.cap then none
  else if f.cap ≥ n1 + f.len then some (f.writeFront n1 (((f.shifted n1).drop a).take n1))
  else some (f.prepend ((f.mem.drop a).take n1))

/-- `[1 2 3]` with capacity 8, `f.Prepend(f.Values[1:3]...)`: the sequence semantics is `[2 3 1 2 3]` -/
theorem prefix_clobbered_with_room :
    (prependWinPre ⟨[1, 2, 3, 0, 0, 0, 0, 0], 3⟩ 1 2).map Flex.values = some [2, 1, 1, 2, 3] := by decide

/-- the same call on a full slice (reallocating path) was right -/
theorem right_without_room :
    (prependWinPre ⟨[1, 2, 3], 3⟩ 1 2).map Flex.values = some [2, 3, 1, 2, 3] := by decide

/-- the repaired code gives the sequence semantics in both situations -/
theorem repaired :
    (Flex.prependWin ⟨[1, 2, 3, 0, 0, 0, 0, 0], 3⟩ 1 2).map Flex.values = some [2, 3, 1, 2, 3] ∧
    (Flex.prependWin ⟨[1, 2, 3], 3⟩ 1 2).map Flex.values = some [2, 3, 1, 2, 3] := by decide

end Golib.C14.Findings
