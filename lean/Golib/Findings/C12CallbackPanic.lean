/-
C12 — observation, OUTSIDE the property as worded (C12 promises race freedom and
atomicity; it has no liveness clause and says nothing about callbacks that panic):
a user callback that panics inside `Range`, `All` (the loop body), `GetWithLock` or `Map`
leaves the RWMutex locked, because no SafeKV method releases the lock with `defer`.
After the caller has recovered the panic, every later writer (and every reader queued
behind a waiting writer) blocks for ever.  Reproduced on the real code (probe):
  s.Set(1,1); func(){ defer func(){recover()}(); s.Range(func(int,int) bool { panic("boom") }) }(); s.Set(2,2)
— the last `Set` never returns; likewise for `All`, `GetWithLock`, `Map`.

This file records it as a machine-checked fact about the MODEL of the current code, i.e.
about the regenerated facts (`Golib/Gen/FactsC12.lean`): for each of the four methods the
extracted event list reaches its callback event while the lock is held, and the release is
an ordinary statement behind the callback, not a deferred one (`deferredRelease = false`) —
so a panic that unwinds through the body skips it.  In the machine, a goroutine that has
stopped while holding the lock disables `lock` for everybody, for ever.
It is NOT a violation of C12 and no check fails because of it.  A repair would be
`defer s.mu.RUnlock()` / `defer s.mu.Unlock()` in the four methods; then `deferredRelease`
becomes `true` and this file (not part of any property's theorems) no longer compiles,
which is the signal to retire it.
-/
import Golib.Model.C12Conc
import Golib.Gen.FactsC12

namespace Golib.C12.CallbackPanic

def Ev.isCallback : Ev → Bool
  | .callFn | .callFnMap => true
  | _ => false

/-- What the goroutine holds after executing `es` (the discipline is not checked here). -/
def heldAfter : Mode → List Ev → Mode
  | m, [] => m
  | m, e :: es => heldAfter (m.next e) es

/-- The events executed when the FIRST callback panics and nothing is deferred: everything
up to and including that callback; the rest of the body is skipped. -/
def panicPrefix : List Ev → List Ev
  | [] => []
  | e :: es => if Ev.isCallback e then [e] else e :: panicPrefix es

/-- the methods of SafeKV that call a user-supplied function -/
def callbackMethods : List String := ["GetWithLock", "Range", "Map", "All"]

/-- THE FACT (about the extracted code): each callback method reaches its callback with the
lock held, releases it only by an ordinary statement (no `defer`), and therefore still
holds it after a panicking callback. -/
theorem c12_callback_panic_leaks_lock :
    ∀ name ∈ callbackMethods, ∃ es,
      Gen.C12.methods.lookup name = some es ∧
      Gen.C12.deferredRelease.lookup name = some false ∧
      (es.any Ev.isCallback) = true ∧
      heldAfter .free (panicPrefix es) ≠ .free := by decide

/-- no other SafeKV method calls a user function (so these four are all) -/
theorem c12_other_methods_have_no_callback :
    ∀ p ∈ Gen.C12.methods, p.1 ∉ callbackMethods → (p.2.any Ev.isCallback) = false := by decide

/-! Consequence in the concurrent machine: a goroutine that took no further step keeps what
it holds; while somebody holds the lock in any mode, `lock` is not enabled. -/

theorem stopped_keeps {σ μ : Type} {c c' : Conf σ μ} (hr : Reach c c') (u : Nat)
    (hstop : (c.th u).rest = []) : c'.th u = c.th u := by
  induction hr with
  | refl => rfl
  | step _ hs ih =>
    cases hs with | mk t a as hrest hen =>
    by_cases hut : u = t
    · subst hut
      rw [ih, hstop] at hrest
      cases hrest
    · simp only [Conf.after, upd, hut, if_false]
      exact ih

/-- After a goroutine has stopped inside a critical section (its callback panicked and was
recovered by the caller), no writer can ever enter again. -/
theorem c12_leaked_lock_blocks_writers {σ μ : Type} {c c' : Conf σ μ} (hr : Reach c c') (u : Nat)
    (hstop : (c.th u).rest = []) (hheld : (c.th u).mode ≠ .free) : ¬ enabled c' .lock := by
  intro hen
  have := hen u
  rw [stopped_keeps hr u hstop] at this
  exact hheld this

/-- Non-vacuity: `Range` as extracted: after `[rlock, read, callFn]` the read lock is held. -/
example : panicPrefix [.rlock, .read, .callFn, .runlock] = [.rlock, .read, .callFn] ∧
    heldAfter .free [.rlock, .read, .callFn] = .r := by decide

end Golib.C12.CallbackPanic
