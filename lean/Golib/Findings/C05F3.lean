/-
F3 (C05): refutation of the PRE-FIX `PrefixSearch` / `FuzzySearch`: `depth` counted runes
while `buf.Truncate` works on bytes.  The pre-fix loop is the model's `dfsLoop` with the
depth increment `fun _ => 1` (the repaired code passes `runeWidth`).
Witness: patterns 你好, 你们; key 你.
-/
import Golib.Model.C05Trie

namespace Golib.C05
open Golib

def f3Ni : List Nat := [0xE4, 0xBD, 0xA0]        -- 你
def f3Hao : List Nat := [0xE5, 0xA5, 0xBD]       -- 好
def f3Men : List Nat := [0xE4, 0xBB, 0xAC]       -- 们
def f3Pats : List (List Nat) := [f3Ni ++ f3Hao, f3Ni ++ f3Men]

/-- pre-fix: the second result is 你 + the first two bytes of 好 + 们 — not an inserted pattern -/
theorem f3_prefix_prefixSearch :
    (Trie.ofPatterns f3Pats).bind (fun t => prefixSearchWith decodeStep (fun _ => 1) writeRune t f3Ni)
      = some [f3Ni ++ f3Hao, f3Ni ++ [0xE5, 0xA5] ++ f3Men] := by
  decide +kernel

theorem f3_prefix_fuzzySearch_unsound :
    ∃ r, (Trie.ofPatterns f3Pats).bind (fun t => fuzzySearchWith decodeStep (fun _ => 1) writeRune t f3Ni)
      = some r ∧ ∃ w ∈ r, w ∉ f3Pats := by
  refine ⟨[f3Ni ++ f3Hao, f3Ni ++ [0xE5, 0xA5] ++ f3Men], by decide +kernel, _,
    List.mem_cons_of_mem _ (List.mem_singleton.2 rfl), by decide⟩

/-- repaired code on the same witness -/
theorem f3_fixed :
    (Trie.ofPatterns f3Pats).bind (fun t => t.prefixSearch f3Ni) = some [f3Ni ++ f3Hao, f3Ni ++ f3Men] ∧
    (Trie.ofPatterns f3Pats).bind (fun t => t.fuzzySearch f3Ni) = some [f3Ni ++ f3Hao, f3Ni ++ f3Men] := by
  constructor <;> decide +kernel

end Golib.C05
