/-
Seeded change C04-H (not a defect of /repo): `Heap.Remove` with the re-siting `fix` (down, else up)
replaced by a one-direction shortcut decided by comparing the moved last element with the REMOVED
element: `if cmp(values[index], e) { up } else { down }`.  Same result while `e` is correctly
placed; wrong after `e.Value` was changed without `Fix` — the use the package doc blesses
(`Fix` = `Remove` + `Push` of the new value).

Witness: `h.Init([1,10,2,11,12,3], <)`; the element holding 12 (index 4) gets `Value = 0`;
`Remove` of it moves the last element 3 into index 4, compares 3 with 0, chooses `down`, and leaves
3 below its parent 10.  The real `Remove` (`c04_remove_after_change`) yields a heap.
-/
import Golib.Model.C04Clients

namespace Golib.C04.Findings
open Golib.C04

/-- `Remove` with the shortcut of C04-H. -/
def removeShortcut (cmp : Int → Int → Bool) (m : HMem) (h e : Nat) : Option HMem :=
  if m.own.get e = none ∨ m.own.get e ≠ some h then some m else
  if m.idx.get e < 0 ∨ m.idx.get e ≥ (m.arr h).length then none else
  let n : Int := ((m.arr h).length : Int) - 1
  let m1? : Option HMem :=
    if n ≠ m.idx.get e then
      let index := m.idx.get e
      match (heapOps cmp h).swap m (m.idx.get e) n with
      | none => none
      | some m1 =>
        match nth (m1.arr h) index with
        | none => none
        | some x =>
          if cmp (m1.val.get x) (m1.val.get e) then upF (heapOps cmp h) m1 index
          else (downB (heapOps cmp h) m1 index n).map (·.1)
    else some m
  match m1? with
  | none => none
  | some m1 => (m1.popLast h).map (·.1)

def ltH : Int → Int → Bool := fun a b => decide (a < b)

/-- after `Init([1,10,2,11,12,3])` and `e.Value = 0` for the element holding 12 (id 4) -/
def changed : Option HMem :=
  (HMem.init ltH HMem.zero 0 [1, 10, 2, 11, 12, 3]).map fun m => { m with val := m.val.set 4 0 }

/-- the shortcut leaves 3 under 10; the real `Remove` yields a heap -/
theorem shortcut_breaks_order :
    ((changed.bind fun m => removeShortcut ltH m 0 4).map fun m => (m.arr 0).map m.val.get)
      = some [1, 10, 2, 11, 3] ∧
    ((changed.bind fun m => m.remove ltH 0 4).map fun m => (m.arr 0).map m.val.get)
      = some [1, 3, 2, 11, 10] := by
  decide

end Golib.C04.Findings
