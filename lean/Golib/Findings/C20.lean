/-
F10 (C20): refutation of the pre-fix `init` in randz/id.go.  With the first init loop
bounded by `len(encodeBase32Map) = 32` (instead of the table size) only indices 0..31
are marked invalid; every other byte outside the alphabet keeps the zero value, which
`ParseBase32` reads as the digit 0.  Witnesses: `ParseBase32("!") = (0, nil)`,
`ParseBase32("il") = (0, nil)`.
-/
import Golib.Model.C20Id

namespace Golib.C20.Findings
open Golib.C20 Golib.Gen.C20

/-- the table as the pre-fix code builds it: first loop bound 32 -/
def decodeTablePre : Option (List Nat) :=
  (initLoop1 32 0xFF (List.replicate 256 0)).bind (initLoop2 32 alphabet)

/-- `'!'` (33) and `"il"` are accepted as the number 0 by the pre-fix table. -/
theorem f10_accepts_bang :
    decodeTablePre.map (fun t => parseBase32With t [33]) = some (.ok 0) ∧
    decodeTablePre.map (fun t => parseBase32With t [105, 108]) = some (.ok 0) ∧
    33 ∉ alphabet ∧ 105 ∉ alphabet ∧ 108 ∉ alphabet := by
  refine ⟨by decide +kernel, by decide +kernel, by decide, by decide, by decide⟩

/-- 192 of the 224 non-alphabet bytes are wrongly accepted by the pre-fix table. -/
theorem f10_count :
    decodeTablePre.map (fun t => ((List.range 256).filter fun b =>
      !(alphabet.contains b) && t[b]? != some 0xFF).length) = some 192 := by decide +kernel

end Golib.C20.Findings
