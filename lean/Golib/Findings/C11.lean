/-
F7 (C11) — refutation of `c11_len` for the code BEFORE the repair.

`Push` published the tail (`StorePointer(&l.tail, node)`) before incrementing the
counter (`AddInt64(&l.len, 1)`).  With that statement order (`Order.storeThenAdd` in
the model) the schedule below — thread 0 links and publishes, thread 1 pops — reaches
`len = -1`; after thread 0's first four steps one value can be popped while `len = 0`.
The same schedule on the repaired order (`Order.addThenStore`) is harmless.
The Go harness replays exactly this schedule on the real code (corpus case
`corpus-F7` of go/props/c11).
-/
import Golib.Model.C11List

namespace Golib.C11.Findings

def progs : List (List Call) := [[.push 7], [.pop], [.len]]

/-- thread 0: load tail, load next, link CAS, store tail;  thread 1: load head, load
tail, load next, CAS head, read value, clear value, add −1. -/
def f7Schedule : List Nat := [0, 0, 0, 0, 1, 1, 1, 1, 1, 1, 1]

/-- Before the repair: `Len()` becomes negative. -/
theorem f7_len_negative :
    (run .storeThenAdd (init [] progs) f7Schedule).1.len = -1 := by decide

/-- Before the repair: after the publication one value is poppable while `Len() = 0`. -/
theorem f7_len_below_poppable :
    let s := (run .storeThenAdd (init [] progs) (f7Schedule.take 4)).1
    s.len = 0 ∧ s.tail - s.head = 1 := by decide

/-- Hence the pre-repair machine violates `0 ≤ len` in a reachable state. -/
theorem f7_refutes_len_nonneg :
    ¬ ∀ σ : List Nat, 0 ≤ (run .storeThenAdd (init [] progs) σ).1.len := by
  intro h
  have := h f7Schedule
  rw [f7_len_negative] at this
  exact absurd this (by decide)

/-- The repaired order on the same schedule: the pop sees `head = tail` and returns
false, the counter never leaves `[0, 1]`. -/
theorem f7_repaired_same_schedule :
    (run .addThenStore (init [] progs) f7Schedule).1.len = 1 ∧
    ((run .addThenStore (init [] progs) f7Schedule).2.map (·.ret)).filterMap id
      = [some (.pop 0 false)].filterMap id := by decide

end Golib.C11.Findings
