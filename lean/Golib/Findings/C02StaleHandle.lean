/-
C02 / C03 — observation, OUTSIDE the properties as worded: a node handle kept across `Remove`
of its key is stale, and `node.Next()` on it PANICS.

`Remove` (skip.go and skip_cmp.go) ends with `cur.next = nil`: the unlinked node loses its
tower.  The node itself stays reachable through any `*SkipNode` the caller still holds
(`GetNode`, `Head`, a previous `Next`), its `Key()` and `Value()` are still readable, but
`Next()` is `return n.next[0]` — index out of range [0] with length 0.

Reproduced on /repo:
  s.Set(1, 10); s.Set(2, 20); n := s.GetNode(1); s.Remove(1); n.Next()        // panics
and, one level up, through the RoaringBitmap iterator, which holds such a handle between calls:
  rb.Add(1); rb.Add(70000); it := rb.Iter(); it.Next(); rb.Remove(1); it.Next() // panics
(`Remove(1)` empties bucket 0 and unlinks its node; the iterator standing in bucket 0 then
calls `node.Next()`): "index out of range [0] with length 0".

Why this is outside C02 and C03 as worded.  C02 speaks about the results of the methods of the
list in reachable states and about handles of LINKED nodes: the node-handle clause
(`c02_node_walk`, clause 4) requires the node to be still linked when it is walked.  C03 speaks
about enumerations of the member set of a reached state; an iterator in flight across a `Remove`
has no defined member set.  No check fails because of this and no theorem is affected.

This file records it as machine-checked facts about the POINTER model (`Model/C02Ptr.lean`),
where the write `cur.next = nil` is the step `next := #[]` of `PSL.remove`:
* `stale_handle_next_panics`: in every reachable state, for every present key, the handle that
  `GetNode` answered is a valid heap index after `Remove`, key and value still readable, its
  tower is `#[]`, and `Next()` on it is `none` (the panic);
* concrete witnesses on `PSL Int Int` and on the RoaringBitmap over the pointer skip list
  (`RBP`, `Proof/C03OverPtr.lean`).

Two minimal repairs:
(a) delete `cur.next = nil` in `Remove` of skip.go and skip_cmp.go.  A stale handle then walks on
    into the successors that were linked when the node was removed.  Every theorem is unaffected:
    no method ever reads an unlinked node, and the abstraction relation does not mention them —
    `PSL.removeKeep` below is that code; `removeKeep_abs` shows that from every reachable state it
    gives the answer of `Remove` and keeps `Abs` (so every C02/C03 theorem goes through unchanged),
    `witness_keep` that the stale handle then answers its old successor.
(b) `func (n *SkipNode) Next() *SkipNode { if len(n.next) == 0 { return nil }; return n.next[0] }`
    (both node types): a stale handle ends the walk.
-/
import Golib.Proof.C02PtrRefine
import Golib.Proof.C03OverPtr

set_option linter.unusedSectionVars false
set_option linter.unusedSimpArgs false
set_option linter.unusedVariables false

namespace Golib.C02

variable {K V : Type} [DecidableEq K]

/-- A handle kept across `Remove` of its key: still a valid node with its key and the removed
value, but its tower is gone and `Next()` panics. -/
theorem stale_handle_next_panics (cfg : Cfg K V) (hc : WeakCmp cfg.cmp) (hf : cfg.fixed = true)
    {p : PSL K V} {s : SL K V} (hab : Abs p s) (hg : Good cfg s) (k : K) {id : Nat}
    (hn : p.getNode cfg k = some (some id)) {p' : PSL K V} {v : V}
    (hr : p.remove cfg k = some (p', v, true)) :
    p'.nodeNext id = none ∧
    ∃ nd, p'.nodes[id]? = some nd ∧ p'.keyOf id = some nd.key ∧ p.keyOf id = some nd.key ∧
      cfg.cmp nd.key k = 0 ∧ nd.val = v ∧ nd.next = #[] := by
  obtain ⟨f, ha⟩ := hab
  -- the list is initialised: on the zero value `GetNode` answers nil
  have hi : Inv cfg.cmp s := by
    rcases hg with h | ⟨_, rfl⟩
    · exact h
    · have hl : p.level = 0 := ha.level
      simp [PSL.getNode, hl, PSL.findLoop] at hn
  have hg' : Good cfg s := Or.inl hi
  have hsn := getNode_spec cfg hc hi k
  have hpn := ha.getNode_sim (hg'.rdOk hc) cfg k hsn
  rw [hn] at hpn
  cases hfe : findEq cfg.cmp k (chain0 s) with
  | none => rw [hfe] at hpn; cases hpn
  | some nk =>
    rw [hfe] at hpn
    simp only [Option.map_some, Option.some.injEq] at hpn
    obtain ⟨hmem, hcmp⟩ := findEq_some hfe
    obtain ⟨val, lvl, _, _, r3⟩ := remove_found cfg hc hi hfe
    obtain ⟨p'', q1, q2, _, q4⟩ := remove_ptr_inv_full cfg hc ha hi k r3
    rw [hr] at q1
    simp only [Option.some.injEq, Prod.mk.injEq] at q1
    obtain ⟨rfl, rfl, _⟩ := q1
    obtain ⟨nd', e1, e2, e3, e4⟩ := q4 nk hfe
    rw [← hpn] at e1
    have hk0 : p.keyOf id = some nk := by rw [hpn]; exact ha.keyOf hmem
    refine ⟨?_, nd', e1, ?_, ?_, ?_, e3, e4⟩
    · simp [PSL.nodeNext, PSL.nextOf, e1, e4]
    · simp [PSL.keyOf, e1]
    · rw [hk0, e2]
    · rw [e2]; exact hcmp

/-! ### repair (a): `Remove` without `cur.next = nil` -/

/-- `Remove(key)` with the statement `cur.next = nil` deleted. -/
def PSL.removeKeep (cfg : Cfg K V) (p : PSL K V) (key : K) : Option (PSL K V × V × Bool) :=
  match p.removeLoop cfg.cmp key p.level none 0 (Array.replicate maxLevel none) with
  | none => none
  | some (cur, curLevel, upd) =>
    if curLevel == 0 then some (p, cfg.zeroV, false)
    else
      match p.nextOf cur 0 with
      | none | some none => none
      | some (some n) =>
        match p.nodes[n]? with
        | none => none
        | some nd =>
          match PSL.unlinkLoop n upd curLevel 0 p with
          | none => none
          | some p1 =>
            let lvl := if curLevel ≥ p1.level then p1.shrink p1.level else some p1.level
            match lvl with
            | none => none
            | some lvl => some ({ p1 with level := lvl, len := p1.len - 1 }, nd.val, true)

/-- The shrink loop reads the head tower only. -/
theorem shrink_congr {p q : PSL K V} (hh : q.head = p.head) : ∀ m, q.shrink m = p.shrink m := by
  intro m
  induction m using Nat.strongRecOn with
  | _ m ih =>
    match m, ih with
    | 0, _ => rfl
    | 1, _ => rfl
    | n + 2, ih =>
      unfold PSL.shrink
      have : q.nextOf none (n + 1) = p.nextOf none (n + 1) := by simp [PSL.nextOf, hh]
      rw [this, ih (n + 1) (by omega)]

/-- `removeKeep` answers what `Remove` answers; the two final states differ at most in the
tower of one node, which `Remove` has emptied. -/
theorem remove_vs_keep (cfg : Cfg K V) {p p' : PSL K V} {key : K} {v : V} {b : Bool}
    (h : p.remove cfg key = some (p', v, b)) :
    ∃ pK, p.removeKeep cfg key = some (pK, v, b) ∧ pK.head = p'.head ∧ pK.level = p'.level ∧
      pK.len = p'.len ∧ pK.hasRand = p'.hasRand ∧
      ∃ n : Nat, (∀ j, j ≠ n → pK.nodes[j]? = p'.nodes[j]?) ∧
        (pK.nodes[n]? = p'.nodes[n]? ∨ ∀ nd', p'.nodes[n]? = some nd' → nd'.next = #[]) := by
  unfold PSL.remove at h
  unfold PSL.removeKeep
  cases hl : p.removeLoop cfg.cmp key p.level none 0 (Array.replicate maxLevel none) with
  | none => rw [hl] at h; cases h
  | some t =>
    obtain ⟨cur, cl, upd⟩ := t
    rw [hl] at h
    simp only [] at h ⊢
    by_cases hz : (cl == 0) = true
    · simp only [hz, if_true, Option.some.injEq, Prod.mk.injEq] at h ⊢
      obtain ⟨rfl, rfl, rfl⟩ := h
      exact ⟨p, ⟨rfl, rfl, rfl⟩, rfl, rfl, rfl, rfl, 0, fun _ _ => rfl, Or.inl rfl⟩
    · simp only [hz, Bool.false_eq_true, if_false] at h ⊢
      cases hn : p.nextOf cur 0 with
      | none => rw [hn] at h; cases h
      | some on =>
        cases on with
        | none => rw [hn] at h; cases h
        | some n =>
          rw [hn] at h
          simp only [] at h ⊢
          cases hnd : p.nodes[n]? with
          | none => rw [hnd] at h; cases h
          | some nd =>
            rw [hnd] at h
            simp only [] at h ⊢
            cases hu : PSL.unlinkLoop n upd cl 0 p with
            | none => rw [hu] at h; cases h
            | some p1 =>
              rw [hu] at h
              simp only [] at h ⊢
              cases hn1 : p1.nodes[n]? with
              | none => rw [hn1] at h; cases h
              | some nd1 =>
                rw [hn1] at h
                simp only [] at h
                have hsh : ({ p1 with nodes := p1.nodes.setIfInBounds n { nd1 with next := #[] } } : PSL K V).shrink p1.level
                    = p1.shrink p1.level :=
                  shrink_congr (p := p1) (q := { p1 with nodes := p1.nodes.setIfInBounds n { nd1 with next := #[] } }) rfl _
                rw [hsh] at h
                cases hlv : (if cl ≥ p1.level then p1.shrink p1.level else some p1.level) with
                | none => rw [hlv] at h; cases h
                | some lvl =>
                  rw [hlv] at h
                  simp only [Option.some.injEq, Prod.mk.injEq] at h ⊢
                  obtain ⟨rfl, rfl, rfl⟩ := h
                  refine ⟨_, ⟨rfl, rfl, rfl⟩, rfl, rfl, rfl, rfl, n, ?_, Or.inr ?_⟩
                  · intro j hj
                    show p1.nodes[j]? = (p1.nodes.setIfInBounds n _)[j]?
                    rw [Array.getElem?_setIfInBounds, if_neg (Ne.symm hj)]
                  · intro nd' hnd'
                    have hlt := (Array.getElem?_eq_some_iff.mp hn1).1
                    have : (p1.nodes.setIfInBounds n { nd1 with next := #[] })[n]? = some nd' := hnd'
                    simp only [Array.getElem?_setIfInBounds, hlt, if_true, Option.some.injEq] at this
                    rw [← this]

/-- Repair (a) is safe: from every reachable state `removeKeep` gives the answer of `Remove` and
the resulting heap still represents the list-level state — no chain passes through the stale
node, so whether its tower is emptied is invisible to every method. -/
theorem removeKeep_abs (cfg : Cfg K V) (hc : WeakCmp cfg.cmp) {p : PSL K V} {s : SL K V} (hab : Abs p s)
    (hg : Good cfg s) (key : K) {s' : SL K V} {v : V} {b : Bool} (hs : s.remove cfg key = some (s', v, b)) :
    ∃ pK, p.removeKeep cfg key = some (pK, v, b) ∧ Abs pK s' := by
  obtain ⟨f, ha⟩ := hab
  obtain ⟨p', h1, ha', _⟩ := remove_ptr_h cfg hc ha hg key hs
  obtain ⟨pK, k1, k2, k3, k4, k5, n, k6, k7⟩ := remove_vs_keep cfg h1
  -- a node on a chain of `p'` keeps its node in `pK`
  have hnode : ∀ {i : Nat} {st : Option Nat} {l : List K}, ChainK p' f i st l → ∀ k ∈ l,
      pK.nodes[f k]? = p'.nodes[f k]? := by
    intro i st l hc' k hk
    by_cases e : f k = n
    · rcases k7 with k7 | k7
      · rw [e]; exact k7
      · obtain ⟨nd, nx, a1, _, a3⟩ := hc'.node k hk
        rw [e] at a1
        have := k7 nd a1
        rw [this] at a3; simp at a3
    · exact k6 _ e
  refine ⟨pK, k1, f, ?_, ?_, ?_, ?_, ?_, ?_, ?_⟩
  · rw [k3]; exact ha'.level
  · rw [k4]; exact ha'.len
  · rw [k5]; exact ha'.rand
  · rw [k2]; exact ha'.headNone
  · intro h hh; rw [k2] at hh; exact ha'.headSize h hh
  · intro i l hl
    obtain ⟨st, c1, c2⟩ := ha'.chains i l hl
    refine ⟨st, by simpa [PSL.nextOf, k2] using c1, c2.mono (fun _ _ => rfl) ?_⟩
    intro k hk nd hnd
    exact ⟨nd, by rw [hnode c2 k hk]; exact hnd, rfl, rfl⟩
  · intro k hk nd hnd
    cases hlv : s'.lv with
    | nil => simp [chain0, hlv] at hk
    | cons l0 rest =>
      have h0 : s'.lv[0]? = some l0 := by rw [hlv]; rfl
      have hk0 : k ∈ l0 := by simpa [chain0, hlv] using hk
      obtain ⟨st, c1, c2⟩ := ha'.chains 0 l0 h0
      rw [hnode c2 k hk0] at hnd
      exact ha'.vals k hk nd hnd

/-! ### concrete witnesses -/

namespace StaleHandle

def cmpI (a b : Int) : Int := if a < b then -1 else if a = b then 0 else 1
def cfgI : Cfg Int Int := { cmp := cmpI, lazy := true, zeroK := 0, zeroV := 0 }

/-- `s.Set(1, 10); s.Set(2, 20)` (towers of heights 2 and 1). -/
def two : Option (PSL Int Int) :=
  ((PSL.zero : PSL Int Int).set cfgI 1 10 0 (1 <<< 30)).bind fun a => (a.1.set cfgI 2 20 0 0).map (·.1)

/-- `n := s.GetNode(1)` is node 0; before the `Remove`, `n.Next()` is node 1 (key 2); after
`s.Remove(1)`, `n.Key()` is still 1, `n.Value()` still 10, `len(n.next) = 0`, and `n.Next()`
panics; the list itself is fine (`[2]`). -/
theorem witness_skiplist :
    two.bind (fun p => p.getNode cfgI 1) = some (some 0) ∧
    two.bind (fun p => p.nodeNext 0) = some (some 1) ∧
    (two.bind fun p => (p.remove cfgI 1).map fun r => (r.2, r.1.keyOf 0, r.1.nodeNext 0)) =
      some ((10, true), some 1, none) ∧
    (two.bind fun p => (p.remove cfgI 1).map fun r =>
      ((r.1.nodes[0]?).map (fun nd => (nd.val, nd.next.size)), r.1.absLv.take 2)) =
      some (some (10, 0), [[2], []]) := by
  refine ⟨by decide, by decide, by decide, by decide⟩

/-- With repair (a) the same handle walks on: after `removeKeep(1)` node 0 still has its tower,
`n.Next()` is node 1 (key 2), and the list is the same as after `Remove`. -/
theorem witness_keep :
    (two.bind fun p => (p.removeKeep cfgI 1).map fun r => (r.2, r.1.keyOf 0, r.1.nodeNext 0)) =
      some ((10, true), some 1, some (some 1)) ∧
    (two.bind fun p => (p.removeKeep cfgI 1).map fun r =>
      ((r.1.nodes[0]?).map (fun nd => (nd.val, nd.next.size)), r.1.absLv.take 2, r.1.keyOf 1)) =
      some (some (10, 2), [[2], []], some 2) := by
  refine ⟨by decide, by decide⟩

open Golib.C03 in
/-- `rb.Add(1); rb.Add(70000)`: buckets 0 and 1 are nodes 0 and 1. -/
def twoBuckets : Option RBP :=
  (RBP.zero.add 1 0).bind fun a => (a.1.add 70000 (2 ^ 29)).map (·.1)

open Golib.C03 in
/-- `it := rb.Iter(); it.Next()` leaves the iterator standing in bucket 0 = `Head()` = node 0,
whose `Next()` is node 1.  `rb.Remove(1)` empties bucket 0 and unlinks node 0; the iterator's
next step `node.Next()` on node 0 then panics, although the bitmap itself is fine. -/
theorem witness_roaring_iter :
    twoBuckets.bind (fun r => r.sl.headNode) = some (some 0) ∧
    twoBuckets.bind (fun r => r.sl.nodeNext 0) = some (some 1) ∧
    (twoBuckets.bind fun r => (r.remove 1).map fun q => (q.2, q.1.len, q.1.sl.keyOf 0, q.1.sl.nodeNext 0)) =
      some (true, 1, some 0, none) ∧
    (twoBuckets.bind fun r => (r.remove 1).map fun q => q.1.nodes.map omToList) = some (some [70000]) := by
  refine ⟨by decide, by decide, by decide, by decide⟩

end StaleHandle

end Golib.C02
