/-
Go semantics referred to by the definitions that `go2lean` generates (`Golib/Gen/Trans*.lean`).
Hand-written, core-only (no Mathlib): the executables link against it.

* `Res α`     : outcome of a Go function: a value, a Go panic, or "the loop fuel ran out"
                (`fuel` is an artefact of the translation; every tie theorem shows it
                does not occur).
* fixed width : `uintN`/`intN` are `BitVec N`; `+ - * & | ^ &^` are the `BitVec` operations
                (wrap-around), shifts by a count `≥ N` give 0 (`BitVec.shiftLeft`/`ushiftRight`
                on a `Nat` count already behave like Go), a negative count panics, `/ %` by zero
                panic, signed types use `sdiv`/`srem`/`slt`/`sle`/`sshiftRight`.
* `int`       : `Int` (unbounded) — the ONE idealisation, the convention of every hand-written
                model (DESIGN §3.3).  Bitwise operators on `int` go through `BitVec 64`
                (exact inside the `int64` range); `int(x)` for a 64-bit unsigned `x` is the
                two's complement reading (`BitVec.toInt`), as in Go.
* slices / strings : `List α` (`string` = `List (BitVec 8)`, its bytes) WITHOUT aliasing and with
                `cap = len`: `s[i]`, `s[a:b]` check their bounds against the length and panic.
* `math/bits` : `Len64`, `OnesCount64`, `TrailingZeros64`, … as functions into `Int`.
* `unicode/utf8`, rune conversions : through the executable model `Golib.Utf8` (bytes as `Nat`, runes as
                `Int`); `rune` = `int32` is `BitVec 32` here, so the wrappers convert at the boundary.
-/
import Golib.Prelude.Utf8

namespace Golib.GoSem

inductive Res (α : Type) where
  | ok (a : α)
  | panic
  | fuel
deriving Repr, DecidableEq

@[inline] def Res.bind {α β : Type} (x : Res α) (f : α → Res β) : Res β :=
  match x with
  | .ok a => f a
  | .panic => .panic
  | .fuel => .fuel

instance : Monad Res where
  pure := .ok
  bind := Res.bind

@[simp] theorem Res.bind_ok {α β : Type} (a : α) (f : α → Res β) : (Res.ok a >>= f) = f a := rfl
@[simp] theorem Res.bind_panic {α β : Type} (f : α → Res β) : ((Res.panic : Res α) >>= f) = .panic := rfl
@[simp] theorem Res.bind_fuel {α β : Type} (f : α → Res β) : ((Res.fuel : Res α) >>= f) = .fuel := rfl
@[simp] theorem Res.pure_eq {α : Type} (a : α) : (pure a : Res α) = .ok a := rfl
@[simp] theorem Res.bind_ok' {α β : Type} (a : α) (f : α → Res β) : Res.bind (.ok a) f = f a := rfl
@[simp] theorem Res.bind_panic' {α β : Type} (f : α → Res β) : Res.bind (.panic : Res α) f = .panic := rfl
@[simp] theorem Res.bind_fuel' {α β : Type} (f : α → Res β) : Res.bind (.fuel : Res α) f = .fuel := rfl

/-- Outcome of a translated loop whose body contains `return`: the function returns `r`,
or the loop ended normally with the state `s`. -/
inductive Flow (ρ σ : Type) where
  | ret (r : ρ)
  | done (s : σ)
deriving Repr, DecidableEq

/-! ### `int` (unbounded `Int`) -/

/-- `a / b` on `int`: truncated division, panics on zero. -/
def intDiv (a b : Int) : Res Int := if b = 0 then .panic else .ok (Int.tdiv a b)
/-- `a % b` on `int`: remainder of the truncated division, panics on zero. -/
def intMod (a b : Int) : Res Int := if b = 0 then .panic else .ok (Int.tmod a b)

@[simp] theorem intDiv_ne {a b : Int} (h : b ≠ 0) : intDiv a b = .ok (Int.tdiv a b) := by simp [intDiv, h]
@[simp] theorem intMod_ne {a b : Int} (h : b ≠ 0) : intMod a b = .ok (Int.tmod a b) := by simp [intMod, h]

/-- Bitwise operators on `int`: through the 64-bit two's complement representation. -/
def intAnd (a b : Int) : Int := (BitVec.ofInt 64 a &&& BitVec.ofInt 64 b).toInt
def intOr (a b : Int) : Int := (BitVec.ofInt 64 a ||| BitVec.ofInt 64 b).toInt
def intXor (a b : Int) : Int := (BitVec.ofInt 64 a ^^^ BitVec.ofInt 64 b).toInt
def intAndNot (a b : Int) : Int := (BitVec.ofInt 64 a &&& ~~~ BitVec.ofInt 64 b).toInt
def intNot (a : Int) : Int := -a - 1

/-- `a << n` on `int` for a count that is known to be non-negative. -/
def intShl (a : Int) (n : Nat) : Int := a * (2 : Int) ^ n
/-- `a >> n` on `int` (arithmetic shift) for a non-negative count. -/
def intShr (a : Int) (n : Nat) : Int := a >>> n

/-- A shift count of type `int`: negative panics. -/
def shiftCount (n : Int) : Res Nat := if n < 0 then .panic else .ok n.toNat

@[simp] theorem shiftCount_ofNat (n : Nat) : shiftCount (n : Int) = .ok n := by
  simp [shiftCount]

theorem shiftCount_nonneg {n : Int} (h : 0 ≤ n) : shiftCount n = .ok n.toNat := by
  simp [shiftCount]; omega

/-- `intAnd` of two naturals below `2^63` is `Nat.land`. -/
theorem intAnd_ofNat (a b : Nat) (ha : a < 2 ^ 63) (hb : b < 2 ^ 63) :
    intAnd (a : Int) (b : Int) = ((a &&& b : Nat) : Int) := by
  unfold intAnd
  have hab : a &&& b < 2 ^ 63 := Nat.lt_of_le_of_lt Nat.and_le_left ha
  have h1 : BitVec.ofInt 64 (a : Int) = BitVec.ofNat 64 a := by
    apply BitVec.eq_of_toNat_eq; simp
  have h2 : BitVec.ofInt 64 (b : Int) = BitVec.ofNat 64 b := by
    apply BitVec.eq_of_toNat_eq; simp
  rw [h1, h2, BitVec.toInt_eq_toNat_of_lt]
  · simp only [BitVec.toNat_and, BitVec.toNat_ofNat]
    rw [Nat.mod_eq_of_lt (by omega), Nat.mod_eq_of_lt (by omega)]
  · simp only [BitVec.toNat_and, BitVec.toNat_ofNat]
    rw [Nat.mod_eq_of_lt (by omega), Nat.mod_eq_of_lt (by omega)]
    omega

/-! ### fixed width -/

/-- `a / b` on `uintN`. -/
def udiv {n : Nat} (a b : BitVec n) : Res (BitVec n) := if b = 0 then .panic else .ok (a / b)
/-- `a % b` on `uintN`. -/
def umod {n : Nat} (a b : BitVec n) : Res (BitVec n) := if b = 0 then .panic else .ok (a % b)
/-- `a / b` on `intN` (truncated; `MinInt / -1` wraps, as in Go). -/
def sdiv {n : Nat} (a b : BitVec n) : Res (BitVec n) := if b = 0 then .panic else .ok (BitVec.sdiv a b)
/-- `a % b` on `intN`. -/
def smod {n : Nat} (a b : BitVec n) : Res (BitVec n) := if b = 0 then .panic else .ok (BitVec.srem a b)

/-! ### slices and strings as lists -/

/-- `s[i]` with `i : int`. -/
def idx {α : Type} (s : List α) (i : Int) : Res α :=
  if i < 0 then .panic else
  match s[i.toNat]? with
  | some a => .ok a
  | none => .panic

/-- `s[i]` with an unsigned index. -/
def idxN {α : Type} (s : List α) (i : Nat) : Res α :=
  match s[i]? with
  | some a => .ok a
  | none => .panic

/-- `s[i] = v` with `i : int`. -/
def setIdx {α : Type} (s : List α) (i : Int) (v : α) : Res (List α) :=
  if i < 0 then .panic else
  if i.toNat < s.length then .ok (s.set i.toNat v) else .panic

/-- `s[i] = v` with an unsigned index. -/
def setIdxN {α : Type} (s : List α) (i : Nat) (v : α) : Res (List α) :=
  if i < s.length then .ok (s.set i v) else .panic

/-- `s[a:b]` (bounds checked against the length: `cap = len`). -/
def slice {α : Type} (s : List α) (a b : Int) : Res (List α) :=
  if a < 0 ∨ b < a ∨ (s.length : Int) < b then .panic
  else .ok ((s.take b.toNat).drop a.toNat)

/-- `make([]T, n)` with the zero value `z`. -/
def makeSlice {α : Type} (z : α) (n : Int) : Res (List α) :=
  if n < 0 then .panic else .ok (List.replicate n.toNat z)

theorem idx_ofNat {α : Type} (s : List α) (i : Nat) (h : i < s.length) :
    idx s (i : Int) = .ok s[i] := by
  simp [idx, h]

theorem idxN_lt {α : Type} (s : List α) (i : Nat) (h : i < s.length) :
    idxN s i = .ok s[i] := by
  simp [idxN, h]

theorem idxN_ge {α : Type} (s : List α) (i : Nat) (h : s.length ≤ i) :
    idxN s i = .panic := by
  simp [idxN, h]

/-- `s[i]` at a natural-number index (what `int(x)` of an unsigned `x` gives): no sign check left. -/
theorem idx_natCast {α : Type} (s : List α) (n : Nat) :
    idx s (n : Int) = match s[n]? with | some a => .ok a | none => .panic := by
  have h : ¬ ((n : Int) < 0) := by omega
  simp [idx, h]

theorem setIdx_natCast {α : Type} (s : List α) (n : Nat) (v : α) :
    setIdx s (n : Int) v = if n < s.length then .ok (s.set n v) else .panic := by
  have h : ¬ ((n : Int) < 0) := by omega
  simp [setIdx, h]

theorem slice_natCast {α : Type} (s : List α) (a b : Nat) :
    slice s (a : Int) (b : Int) = if b < a ∨ s.length < b then .panic else .ok ((s.take b).drop a) := by
  have h : ¬ ((a : Int) < 0) := by omega
  simp only [slice, h, false_or, Int.toNat_natCast]
  congr 1
  apply propext
  omega

theorem makeSlice_natCast {α : Type} (z : α) (n : Nat) :
    makeSlice z (n : Int) = .ok (List.replicate n z) := by
  have h : ¬ ((n : Int) < 0) := by omega
  simp [makeSlice, h]

/-! ### `unicode/utf8`, `range` over a string, rune conversions (`Golib.Utf8` is the model of the package) -/

/-- the bytes of a string as the `List Nat` of `Golib.Utf8`. -/
def strNat (s : List (BitVec 8)) : List Nat := s.map BitVec.toNat
/-- back (every byte the `Golib.Utf8` functions produce is `< 256`). -/
def natStr (s : List Nat) : List (BitVec 8) := s.map (BitVec.ofNat 8)

/-- `utf8.RuneCountInString(s)` / `utf8.RuneCount(b)`. -/
def utf8RuneCount (s : List (BitVec 8)) : Int := Int.ofNat (Golib.Utf8.runeCount (strNat s))
/-- `utf8.DecodeRuneInString(s)` / `utf8.DecodeRune(b)`: `(rune, size)`. -/
def utf8DecodeRune (s : List (BitVec 8)) : BitVec 32 × Int :=
  (BitVec.ofInt 32 (Golib.Utf8.decodeRune (strNat s)).1, Int.ofNat (Golib.Utf8.decodeRune (strNat s)).2)
/-- `utf8.RuneLen(r)`. -/
def utf8RuneLen (r : BitVec 32) : Int := Golib.Utf8.runeLen r.toInt
/-- `utf8.ValidRune(r)`. -/
def utf8ValidRune (r : BitVec 32) : Bool := Golib.Utf8.validRune r.toInt
/-- `utf8.ValidString(s)` / `utf8.Valid(b)`. -/
def utf8Valid (s : List (BitVec 8)) : Bool := Golib.Utf8.valid (strNat s)
/-- `for i, v := range s`: the `(byte offset, rune)` pairs in order (an invalid byte is U+FFFD, width 1). -/
def strRange (s : List (BitVec 8)) : List (Int × BitVec 32) :=
  (Golib.Utf8.rangeDecode (strNat s)).map fun e => (Int.ofNat e.1, BitVec.ofInt 32 e.2.1)
/-- `[]rune(s)`. -/
def stringToRunes (s : List (BitVec 8)) : List (BitVec 32) :=
  (Golib.Utf8.runes (strNat s)).map (BitVec.ofInt 32)
/-- `string(rs)` for `rs []rune`: invalid runes become U+FFFD. -/
def runesToString (rs : List (BitVec 32)) : List (BitVec 8) :=
  natStr (Golib.Utf8.encode (rs.map BitVec.toInt))
/-- `string(r)` for an integer `r` (a byte, a rune): the UTF-8 encoding of the code point. -/
def runeToString (r : Int) : List (BitVec 8) := natStr (Golib.Utf8.encodeRune r)
/-- `strings.Repeat(s, n)`: panics on a negative count.  (`len(s) * n` is computed in the unbounded `Int`:
the "output length overflow" panic of the real function is part of the `int ↦ Int` idealisation.) -/
def stringsRepeat (s : List (BitVec 8)) (n : Int) : Res (List (BitVec 8)) :=
  if n < 0 then .panic else .ok (List.replicate n.toNat s).flatten

/-! ### `math/bits` -/

/-- number of bits needed to write `n` (0 for 0). -/
def natLen (n : Nat) : Nat := if n = 0 then 0 else Nat.log2 n + 1

def popCount : Nat → Nat → Nat
  | 0, _ => 0
  | w + 1, n => (n % 2) + popCount w (n / 2)

def trailingZeros : Nat → Nat → Nat
  | 0, _ => 0
  | w + 1, n => if n % 2 = 1 then 0 else 1 + trailingZeros w (n / 2)

/-- `bits.Len64`. -/
def bitsLen64 (x : BitVec 64) : Int := (natLen x.toNat : Nat)
/-- `bits.Len32`. -/
def bitsLen32 (x : BitVec 32) : Int := (natLen x.toNat : Nat)
/-- `bits.Len8`. -/
def bitsLen8 (x : BitVec 8) : Int := (natLen x.toNat : Nat)
/-- `bits.OnesCount64`. -/
def bitsOnesCount64 (x : BitVec 64) : Int := (popCount 64 x.toNat : Nat)
/-- `bits.OnesCount32`. -/
def bitsOnesCount32 (x : BitVec 32) : Int := (popCount 32 x.toNat : Nat)
/-- `bits.TrailingZeros64` (64 for 0). -/
def bitsTrailingZeros64 (x : BitVec 64) : Int := (trailingZeros 64 x.toNat : Nat)
/-- `bits.TrailingZeros32` (32 for 0). -/
def bitsTrailingZeros32 (x : BitVec 32) : Int := (trailingZeros 32 x.toNat : Nat)

/-! ### `copy` -/

/-- `copy(dst, src)`: the updated `dst` and the number of elements copied, `min (len dst) (len src)`
(the source is a VALUE here: Go's `copy` is a memmove, so an overlapping source reads as it was
before the call). -/
def copySlice {α : Type} (dst src : List α) : List α × Int :=
  (src.take dst.length ++ dst.drop src.length, Int.ofNat (min dst.length src.length))

/-- `copy(dst[a:b], src)` writing through into `dst`: panics like the slice expression `dst[a:b]`,
otherwise the window `dst[a:b]` is overwritten from its start; the length of `dst` is unchanged. -/
def copyAt {α : Type} (dst : List α) (a b : Int) (src : List α) : Res (List α × Int) :=
  if a < 0 ∨ b < a ∨ (dst.length : Int) < b then .panic
  else
    let w := copySlice ((dst.take b.toNat).drop a.toNat) src
    .ok (dst.take a.toNat ++ w.1 ++ dst.drop b.toNat, w.2)

theorem copySlice_length {α : Type} (dst src : List α) : (copySlice dst src).1.length = dst.length := by
  simp only [copySlice, List.length_append, List.length_take, List.length_drop]
  omega

theorem copySlice_count {α : Type} (dst src : List α) :
    (copySlice dst src).2 = Int.ofNat (min dst.length src.length) := rfl

theorem copyAt_natCast {α : Type} (dst : List α) (a b : Nat) (src : List α) :
    copyAt dst (a : Int) (b : Int) src =
      if b < a ∨ dst.length < b then .panic
      else .ok (dst.take a ++ (copySlice ((dst.take b).drop a) src).1 ++ dst.drop b,
                (copySlice ((dst.take b).drop a) src).2) := by
  have h : ¬ ((a : Int) < 0) := by omega
  have e : ((b : Int) < (a : Int) ∨ (dst.length : Int) < (b : Int)) = (b < a ∨ dst.length < b) := by
    apply propext; omega
  simp only [copyAt, h, false_or, Int.toNat_natCast, e]

/-! ### `error` values

An `error` is modelled by its CLASS: `nil`, or `mk cls args` where `cls` is the constant format
string of the `fmt.Errorf`/`errors.New` call that made it, or `"<import path>.<Name>"` for a
package-level error variable (`encoding/hex.ErrLength`; ASSUMED never reassigned), and `args` are
the integer-typed arguments of the `Errorf` call in order (arguments of other types are evaluated,
for their panics, and dropped).  The message text is not modelled; only comparisons with `nil`
are translated. -/
inductive Err where
  | nil
  | mk (cls : String) (args : List Int)
deriving Repr, DecidableEq

instance : Inhabited Err := ⟨.nil⟩

def Err.isNil : Err → Bool
  | .nil => true
  | .mk _ _ => false

/-! ### callback menus of the execution path (`trans-diff`): the same small menus exist on the Go
side (`transrt.CmpMenu`, `transrt.SwapMenu`), selected by one extra integer argument. -/

/-- comparators on `int`: 0 `<`, 1 `>`, 2 `≤`, 3 `==`, 4 constant false, otherwise constant true. -/
def cmpMenuInt (k : Int) (a b : Int) : Bool :=
  if k = 0 then decide (a < b) else if k = 1 then decide (a > b) else if k = 2 then decide (a ≤ b)
  else if k = 3 then a == b else if k = 4 then false else true

/-- `swap` callbacks: 0 `s[i], s[j] = s[j], s[i]`, 1 no-op, otherwise `s[i] = s[j]`. -/
def swapMenu {α : Type} (k : Int) (s : List α) (i j : Int) : Res (List α) :=
  if k = 0 then do
    let a ← idx s j
    let b ← idx s i
    let s1 ← setIdx s i a
    setIdx s1 j b
  else if k = 1 then .ok s
  else do
    let a ← idx s j
    setIdx s i a

/-! ### line protocol (execution path `trans <func> <args…>` of the oracle) -/

def showRes {α : Type} (sh : α → String) : Res α → String
  | .ok a => sh a
  | .panic => "panic"
  | .fuel => "fuel"

def showBV {n : Nat} (x : BitVec n) : String := toString x.toNat
def showSBV {n : Nat} (x : BitVec n) : String := toString x.toInt
def showInt (x : Int) : String := toString x
def showBool (b : Bool) : String := if b then "true" else "false"
def showUnit (_ : Unit) : String := "ok"

def hexDigit (n : Nat) : Char :=
  if n < 10 then Char.ofNat (48 + n) else Char.ofNat (87 + n)

/-- bytes as lower-case hex, `-` when empty (the convention of `Golib.Proto`). -/
def showBytes (bs : List (BitVec 8)) : String :=
  if bs.isEmpty then "-" else
  String.ofList (bs.flatMap fun b => [hexDigit (b.toNat / 16), hexDigit (b.toNat % 16)])

/-- a list as comma-separated items, `-` when empty. -/
def showList {α : Type} (sh : α → String) (xs : List α) : String :=
  if xs.isEmpty then "-" else ",".intercalate (xs.map sh)

def parseBV (n : Nat) (s : String) : Option (BitVec n) :=
  match s.toNat? with
  | some v => if v < 2 ^ n then some (BitVec.ofNat n v) else none
  | none => none

def parseSBV (n : Nat) (s : String) : Option (BitVec n) :=
  match s.toInt? with
  | some v => if -(2 ^ (n - 1) : Int) ≤ v ∧ v < (2 ^ (n - 1) : Int) then some (BitVec.ofInt n v) else none
  | none => none

def parseInt (s : String) : Option Int := s.toInt?

def parseBool (s : String) : Option Bool :=
  if s = "true" then some true else if s = "false" then some false else none

def hexVal (c : Char) : Option Nat :=
  if '0' ≤ c ∧ c ≤ '9' then some (c.toNat - 48)
  else if 'a' ≤ c ∧ c ≤ 'f' then some (c.toNat - 87)
  else none

def parseHexAux : List Char → Option (List (BitVec 8))
  | [] => some []
  | [_] => none
  | a :: b :: rest =>
    match hexVal a, hexVal b, parseHexAux rest with
    | some x, some y, some r => some (BitVec.ofNat 8 (x * 16 + y) :: r)
    | _, _, _ => none

def parseBytes (s : String) : Option (List (BitVec 8)) :=
  if s = "-" then some [] else parseHexAux s.toList

def parseList {α : Type} (p : String → Option α) (s : String) : Option (List α) :=
  if s = "-" then some [] else (s.splitOn ",").mapM p

def findIdx {α : Type} [DecidableEq α] (x : α) : List α → Nat → Nat
  | [], n => n
  | y :: ys, n => if x = y then n else findIdx x ys (n + 1)

/-- an error as `nil` or `err:<k>`, `k` = position of its class in the list of the classes the
translated function can produce (the Go wrapper prints the positions of all classes that match). -/
def showErr (classes : List String) : Err → String
  | .nil => "nil"
  | .mk c _ => "err:" ++ toString (findIdx c classes 0)

/-! ### `unicode/utf8.EncodeRune`, `unicode/utf16.DecodeRune` (used by the escape codecs of `strz/enc.go`) -/

/-- The bytes `utf8.EncodeRune` writes for the rune `r` (an `int32`): 1–4 bytes; surrogates, negative values and
values above U+10FFFF are written as U+FFFD (`EF BF BD`). -/
def utf8EncodeRuneBytes (r : BitVec 32) : List (BitVec 8) :=
  let v := r.toInt
  let n := v.toNat
  if v < 0 then [0xEF#8, 0xBF#8, 0xBD#8]
  else if v < 0x80 then [BitVec.ofNat 8 n]
  else if v < 0x800 then [BitVec.ofNat 8 (0xC0 + n / 64), BitVec.ofNat 8 (0x80 + n % 64)]
  else if (0xD800 ≤ v ∧ v ≤ 0xDFFF) ∨ 0x10FFFF < v then [0xEF#8, 0xBF#8, 0xBD#8]
  else if v < 0x10000 then [BitVec.ofNat 8 (0xE0 + n / 4096), BitVec.ofNat 8 (0x80 + n / 64 % 64), BitVec.ofNat 8 (0x80 + n % 64)]
  else [BitVec.ofNat 8 (0xF0 + n / 262144), BitVec.ofNat 8 (0x80 + n / 4096 % 64), BitVec.ofNat 8 (0x80 + n / 64 % 64),
        BitVec.ofNat 8 (0x80 + n % 64)]

/-- `utf8.EncodeRune(dst[a:b], r)` writing through into `dst`: panics like the slice expression `dst[a:b]`; the
encoding is written at the start of the window when it fits, otherwise the call panics before writing (the library
checks the highest index first); the result is the updated `dst` (same length) and the number of bytes written. -/
def utf8EncodeRuneAt (dst : List (BitVec 8)) (a b : Int) (r : BitVec 32) : Res (List (BitVec 8) × Int) :=
  if a < 0 ∨ b < a ∨ (dst.length : Int) < b then .panic
  else
    let bs := utf8EncodeRuneBytes r
    if b - a < (bs.length : Int) then .panic
    else .ok (dst.take a.toNat ++ bs ++ dst.drop (a.toNat + bs.length), (bs.length : Int))

/-- `utf16.DecodeRune(r1, r2)`: the code point of a surrogate pair, U+FFFD when `(r1, r2)` is not a valid pair. -/
def utf16DecodeRune (r1 r2 : BitVec 32) : BitVec 32 :=
  let a := r1.toInt
  let b := r2.toInt
  if 0xD800 ≤ a ∧ a < 0xDC00 ∧ 0xDC00 ≤ b ∧ b < 0xE000 then
    BitVec.ofInt 32 ((a - 0xD800) * 0x400 + (b - 0xDC00) + 0x10000)
  else 0xFFFD#32
/-! ### capacity-tracked local slices (wave 9, C09)

A local created by `make([]T, n, c)` that is resliced by `b = b[:k]` only and never gets a second
name is the pair (visible part `b[0:len]`, rest of its array `b[len:cap]`). -/

/-- `b := make([]T, n, c)`: panics unless `0 ≤ n ≤ c` (Go: "len out of range" / "cap out of range"). -/
def makeCap {α : Type} (z : α) (n c : Int) : Res (List α × List α) :=
  if n < 0 ∨ c < n then .panic
  else .ok (List.replicate n.toNat z, List.replicate (c.toNat - n.toNat) z)

/-- `b = b[:k]`: panics unless `0 ≤ k ≤ cap(b)`; elements between the old and the new length
are what the array holds there. -/
def resliceTo {α : Type} (b : List α × List α) (k : Int) : Res (List α × List α) :=
  if k < 0 ∨ ((b.1.length + b.2.length : Nat) : Int) < k then .panic
  else .ok ((b.1 ++ b.2).take k.toNat, (b.1 ++ b.2).drop k.toNat)

theorem makeCap_natCast {α : Type} (z : α) (n c : Nat) (h : n ≤ c) :
    makeCap z (n : Int) (c : Int) = .ok (List.replicate n z, List.replicate (c - n) z) := by
  have h1 : ¬ ((n : Int) < 0 ∨ (c : Int) < (n : Int)) := by omega
  simp only [makeCap, h1, if_false, Int.toNat_natCast]

theorem resliceTo_natCast {α : Type} (b : List α × List α) (k : Nat) (h : k ≤ b.1.length + b.2.length) :
    resliceTo b (k : Int) = .ok ((b.1 ++ b.2).take k, (b.1 ++ b.2).drop k) := by
  have h1 : ¬ ((k : Int) < 0 ∨ ((b.1.length + b.2.length : Nat) : Int) < (k : Int)) := by omega
  simp only [resliceTo, h1, if_false, Int.toNat_natCast]

end Golib.GoSem
