/-
Executable model of Go's `unicode/utf8` (DecodeRune / EncodeRune / RuneLen / ValidRune /
RuneCount / Valid) on byte lists (`List Nat`, every element < 256) and runes (`Int`,
as Go's `rune = int32`).  Core-only.  Assumed to equal the Go standard library (trusted
base); compared with it on every correspondence run that goes through these functions.
-/
namespace Golib.Utf8

def runeError : Int := 0xFFFD
def maxRune : Int := 0x10FFFF

/-- Accept range of the second byte and total size for a leading byte; `none` = invalid leader. -/
def leader (b : Nat) : Option (Nat × Nat × Nat) :=   -- (size, lo, hi) for the 2nd byte
  if b < 0x80 then some (1, 0, 0)
  else if b < 0xC2 then none
  else if b ≤ 0xDF then some (2, 0x80, 0xBF)
  else if b = 0xE0 then some (3, 0xA0, 0xBF)
  else if b ≤ 0xEC then some (3, 0x80, 0xBF)
  else if b = 0xED then some (3, 0x80, 0x9F)
  else if b ≤ 0xEF then some (3, 0x80, 0xBF)
  else if b = 0xF0 then some (4, 0x90, 0xBF)
  else if b ≤ 0xF3 then some (4, 0x80, 0xBF)
  else if b = 0xF4 then some (4, 0x80, 0x8F)
  else none

def isCont (b : Nat) : Bool := 0x80 ≤ b && b ≤ 0xBF

/-- `utf8.DecodeRune(p)`: `(rune, size)`; empty input gives `(RuneError, 0)`, any
invalid or truncated sequence `(RuneError, 1)`. -/
def decodeRune : List Nat → Int × Nat
  | [] => (runeError, 0)
  | b0 :: rest =>
    match leader b0 with
    | none => (runeError, 1)
    | some (1, _, _) => (b0, 1)
    | some (2, lo, hi) =>
      match rest with
      | b1 :: _ => if lo ≤ b1 ∧ b1 ≤ hi then (((b0 % 32) * 64 + b1 % 64 : Nat), 2) else (runeError, 1)
      | _ => (runeError, 1)
    | some (3, lo, hi) =>
      match rest with
      | b1 :: b2 :: _ =>
        if lo ≤ b1 ∧ b1 ≤ hi ∧ isCont b2 then
          (((b0 % 16) * 4096 + (b1 % 64) * 64 + b2 % 64 : Nat), 3)
        else (runeError, 1)
      | _ => (runeError, 1)
    | some (_, lo, hi) =>
      match rest with
      | b1 :: b2 :: b3 :: _ =>
        if lo ≤ b1 ∧ b1 ≤ hi ∧ isCont b2 ∧ isCont b3 then
          (((b0 % 8) * 262144 + (b1 % 64) * 4096 + (b2 % 64) * 64 + b3 % 64 : Nat), 4)
        else (runeError, 1)
      | _ => (runeError, 1)

def isSurrogate (r : Int) : Bool := 0xD800 ≤ r && r ≤ 0xDFFF

/-- `utf8.ValidRune`. -/
def validRune (r : Int) : Bool := (0 ≤ r && r < 0xD800) || (0xDFFF < r && r ≤ maxRune)

/-- `utf8.RuneLen`: −1 for an invalid rune. -/
def runeLen (r : Int) : Int :=
  if r < 0 then -1
  else if r < 0x80 then 1
  else if r < 0x800 then 2
  else if isSurrogate r then -1
  else if r < 0x10000 then 3
  else if r ≤ maxRune then 4
  else -1

/-- `utf8.AppendRune(nil, r)` / `EncodeRune`: invalid runes are encoded as U+FFFD. -/
def encodeRune (r : Int) : List Nat :=
  let n := r.toNat
  if r < 0 then [0xEF, 0xBF, 0xBD]
  else if r < 0x80 then [n]
  else if r < 0x800 then [0xC0 + n / 64, 0x80 + n % 64]
  else if isSurrogate r ∨ maxRune < r then [0xEF, 0xBF, 0xBD]
  else if r < 0x10000 then [0xE0 + n / 4096, 0x80 + n / 64 % 64, 0x80 + n % 64]
  else [0xF0 + n / 262144, 0x80 + n / 4096 % 64, 0x80 + n / 64 % 64, 0x80 + n % 64]

/-- Decoding a whole string the way a Go `for range s` loop does: one rune per step,
an invalid byte yields U+FFFD and advances by one.  Returns `(byte offset, rune, size)`.
Fuel = remaining length (every step consumes ≥ 1 byte). -/
def rangeDecode (bs : List Nat) : List (Nat × Int × Nat) :=
  go bs.length 0 bs
where
  go : Nat → Nat → List Nat → List (Nat × Int × Nat)
  | 0, _, _ => []
  | _, _, [] => []
  | fuel + 1, off, b :: rest =>
    let (r, sz) := decodeRune (b :: rest)
    let sz := if sz = 0 then 1 else sz
    (off, r, sz) :: go fuel (off + sz) ((b :: rest).drop sz)

/-- `[]rune(s)`. -/
def runes (bs : List Nat) : List Int := (rangeDecode bs).map (·.2.1)

/-- `string(rs)` / appending each rune with `AppendRune`. -/
def encode (rs : List Int) : List Nat := rs.flatMap encodeRune

/-- `utf8.RuneCount`. -/
def runeCount (bs : List Nat) : Nat := (rangeDecode bs).length

/-- `utf8.Valid`: no step of the range loop hit an encoding error.  (A genuine
U+FFFD is three bytes; an error step has size 1.) -/
def valid (bs : List Nat) : Bool :=
  (rangeDecode bs).all fun (_, r, sz) => !(r == runeError && sz == 1)

def isByte (b : Nat) : Bool := b < 256

end Golib.Utf8
