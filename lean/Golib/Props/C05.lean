/-
C05 — Trie multi-pattern queries are exact (`algz/trie.go`).
ONLY property theorems and non-vacuity examples; helper lemmas live in
`Golib/Proof/C05*.lean`.  The model (`Golib/Model/C05Trie.lean`) mirrors the REPAIRED code
(F3: DFS depth in bytes; F11: an invalid byte is its own private negative rune); the
pre-fix refutations are in `Golib/Findings/C05F3.lean`, `C05F11.lean`.

Vocabulary: `Bytes bs` – every element < 256; `Trie.ofPatterns pats` – `Insert` of every
pattern in order, then `BuildFailureLinks` (`none` = panic); `IsNode ps n` – `n` is the root
or a prefix of a pattern's rune sequence; `lns ps l` / `lps ps l` – longest (proper) suffix
of `l` that is a node; `IsOcc pats text s` – scope `s` lies inside `text`, is non-empty and
`text[s.start:s.stop]` is an inserted non-empty pattern (byte for byte); `ValidUtf8 p` – no
decoding step of `p` is an invalid byte; `Aligned A p B` – the occurrence of `p` in
`A ++ p ++ B` starts and ends at a step boundary of the decoded text and is decoded like `p`
itself (always true for valid-UTF-8 `p`).
-/
import Golib.Proof.C05Exact
import Golib.Proof.C05Search
import Golib.Proof.C05Aligned
import Golib.Proof.C05Facts
import Golib.Proof.C05Rebuild
import Golib.Proof.C05Driver
import Golib.Proof.C05PtrAll
import Golib.Proof.C05PtrDfs
import Golib.Proof.C05Arr
import Golib.Proof.C05Stream
import Golib.Proof.C05U32
import Golib.Proof.C05Fuzzy
import Golib.Proof.C05Trans

namespace Golib.C05
open Golib

/-- The two binary searches over a strictly increasing child array never panic;
`index` returns the position of `val` or `-1` (inner `none`) iff it is absent;
`findChildIndex` returns the lower bound (everything before is `< val`, everything from
there on is `≥ val`). -/
theorem c05_bsearch_spec (cs : List Int) (val : Int) (hs : StrictSorted cs) :
    ((∃ i, index cs val = some (some i) ∧ cs[i]? = some val) ∨
      (index cs val = some none ∧ val ∉ cs)) ∧
    (∃ k, findChildIndex cs val = some k ∧ k ≤ cs.length ∧
      (∀ j a, j < k → cs[j]? = some a → a < val) ∧
      (∀ j a, k ≤ j → cs[j]? = some a → val ≤ a)) :=
  ⟨index_spec cs val hs, findChildIndex_spec cs val hs⟩

example : StrictSorted [97, 233, 20320] ∧ index [97, 233, 20320] 233 = some (some 1) ∧
    index [97, 233, 20320] 98 = some none ∧ findChildIndex [97, 233, 20320] 98 = some 1 := by
  refine ⟨by unfold StrictSorted; decide, by decide, by decide, by decide⟩

/-- `trieNodeQueue` (growable ring, initial capacity 10) refines a FIFO list: `Init` is
empty; under the representation invariant `Push` never panics and appends at the back
(also when it has to grow, wrapped or not), `Pop` returns the front, `IsEmpty` is exact. -/
theorem c05_queue_fifo :
    ((Queue.init 10).Inv ∧ (Queue.init 10).content = []) ∧
    (∀ (q : Queue) (x : Label), q.Inv →
      ∃ q', q.push x = some q' ∧ q'.Inv ∧ q'.content = q.content ++ [x]) ∧
    (∀ (q : Queue) (x : Label) (rest : List Label), q.Inv → q.content = x :: rest →
      ∃ q', q.pop = some (x, q') ∧ q'.Inv ∧ q'.content = rest) ∧
    (∀ q : Queue, q.Inv → (q.isEmpty = true ↔ q.content = [])) :=
  ⟨Queue.init_spec 10 (by decide), fun q x h => Queue.push_spec q x h,
    fun q x rest h hc => Queue.pop_spec q h x rest hc, fun q h => Queue.isEmpty_spec q h⟩

/-- A full wrapped queue (head = 14, tail = 24 — ten elements in capacity 10) meets the invariant. -/
example : (⟨List.replicate 10 [1], 14, 24, 10⟩ : Queue).Inv := ⟨by decide, by decide, by decide, by decide⟩

/-- `Insert`* + `BuildFailureLinks` never panic, and the failure link of every non-root
node is the longest proper suffix of its label that is a trie node; the root has none. -/
theorem c05_fail_spec (pats : List (List Nat)) :
    ∃ t, Trie.ofPatterns pats = some t ∧
      ∀ n, IsNode t.pats n → n ≠ [] → t.failOf n = some (lps t.pats n) := by
  obtain ⟨t, h1, _, h3⟩ := ofPatterns_spec pats
  exact ⟨t, h1, h3⟩

/-- he, she: the node `she` fails to `he`. -/
example : (Trie.ofPatterns [[104, 101], [115, 104, 101]]).bind (fun t => t.failOf [115, 104, 101])
    = some [104, 101] := by decide +kernel

/-- After reading `text[:i]` the automaton state (the fallback loop followed by the child
step, as in `Match`, `find`, `FuzzySearch`) is the longest suffix of the runes read that is
a trie node; the walk never panics. -/
theorem c05_state_spec (pats : List (List Nat)) (t : Trie) (hbuilt : Trie.ofPatterns pats = some t)
    (steps : List Step) :
    stateLoop t steps [] = some (lns t.pats (lab steps)) := by
  obtain ⟨t', h1, _, h3⟩ := ofPatterns_spec pats
  rw [hbuilt] at h1; cases h1
  have := stateLoop_spec t h3 steps []
  simpa [lns] using this

/-- `find` is exact.  For byte strings `pats`, `text` and the trie built from `pats`:
`find` does not panic; its scopes come ordered by end position and, for equal end
positions, by decreasing length (`ScopeLt`, which also excludes duplicates); every scope is a
byte-for-byte occurrence of an inserted non-empty pattern inside the text; no scope is
reported twice; and every occurrence of an inserted valid-UTF-8 pattern is reported —
overlapping and nested occurrences included.  (A scope determines its pattern, so this is
one entry per (pattern, position).) -/
theorem c05_find_exact (pats : List (List Nat)) (text : List Nat) (hp : ∀ p ∈ pats, Bytes p)
    (ht : Bytes text) (t : Trie) (hbuilt : Trie.ofPatterns pats = some t) :
    ∃ scopes, t.find text = some scopes ∧
      C06.SortedByStop scopes ∧ scopes.Nodup ∧ scopes.Pairwise ScopeLt ∧
      (∀ s ∈ scopes, IsOcc pats text s) ∧
      (∀ A p B, text = A ++ p ++ B → p ∈ pats → p ≠ [] → ValidUtf8 p →
        (⟨(A.length : Int), ((A.length + p.length : Nat) : Int)⟩ : Scope) ∈ scopes) := by
  obtain ⟨hf, hsorted, hocc⟩ := find_sound pats text hp ht t hbuilt
  obtain ⟨t', h1, h2, _⟩ := ofPatterns_spec pats
  rw [hbuilt] at h1; cases h1
  refine ⟨_, hf, hsorted, ?_, ?_, hocc, ?_⟩
  · rw [h2]
    exact findSpec_nodup _ (decodedPats_wf pats hp) _ [] 0 (decodeAll_wf text ht) rfl
  · rw [h2]
    exact findSpec_lex _ (decodedPats_wf pats hp) _ [] 0 (decodeAll_wf text ht) rfl
  · intro A p B htext hpm hne hv
    rw [h2, htext]
    exact find_complete pats hp A p B hpm hne hv (htext ▸ ht)

/-- `Match(text)` never panics; `true` implies that some inserted non-empty pattern occurs in
the text byte for byte; and an occurrence of an inserted valid-UTF-8 pattern implies `true`. -/
theorem c05_match_iff (pats : List (List Nat)) (text : List Nat) (hp : ∀ p ∈ pats, Bytes p)
    (ht : Bytes text) (t : Trie) (hbuilt : Trie.ofPatterns pats = some t) :
    ∃ b, t.match text = some b ∧
      (b = true → ∃ A p B, text = A ++ p ++ B ∧ p ∈ pats ∧ p ≠ []) ∧
      (∀ A p B, text = A ++ p ++ B → p ∈ pats → p ≠ [] → ValidUtf8 p → b = true) := by
  obtain ⟨hm, hiff⟩ := match_spec pats text t hbuilt
  obtain ⟨scopes, hf, _, _, _, hocc, hcomp⟩ := c05_find_exact pats text hp ht t hbuilt
  have hfs : scopes = findSpec t.pats (decodeAll text) [] 0 := by
    obtain ⟨hf', _, _⟩ := find_sound pats text hp ht t hbuilt
    rw [hf'] at hf; exact (Option.some.inj hf).symm
  refine ⟨_, hm, ?_, ?_⟩
  · intro hb
    have hne := hiff.1 hb
    rw [← hfs] at hne
    cases hsc : scopes with
    | nil => exact absurd hsc hne
    | cons s ss =>
      obtain ⟨h0, h1, h2, p, hpm, hpne, hsl⟩ := hocc s (by rw [hsc]; simp)
      refine ⟨text.take s.start.toNat, p, text.drop s.stop.toNat, ?_, hpm, hpne⟩
      simp only [sliceInt?] at hsl
      split at hsl
      · cases hsl
        have e1 : text.take s.start.toNat = (text.take s.stop.toNat).take s.start.toNat := by
          rw [List.take_take]; congr 1; omega
        rw [e1, List.take_append_drop, List.take_append_drop]
      · cases hsl
  · intro A p B htext hpm hne hv
    apply hiff.2
    rw [← hfs]
    intro hnil
    have := hcomp A p B htext hpm hne hv
    rw [hnil] at this; simp at this

/-- `find` is exact for ARBITRARY byte patterns too: it reports exactly the occurrences of
inserted non-empty patterns that are aligned with the decoding of the text (`Aligned`: the
text decodes as steps consuming the bytes before the occurrence, then the steps of the
pattern).  Every occurrence of a valid-UTF-8 pattern in arbitrary bytes is aligned
(`c05_aligned_of_valid`), which gives the completeness half of `c05_find_exact`; for a
pattern with invalid bytes the restriction cannot be dropped (example below). -/
theorem c05_find_iff (pats : List (List Nat)) (text : List Nat) (hp : ∀ p ∈ pats, Bytes p)
    (ht : Bytes text) (t : Trie) (hbuilt : Trie.ofPatterns pats = some t) :
    ∃ scopes, t.find text = some scopes ∧ scopes.Nodup ∧
      ∀ s, s ∈ scopes ↔ ∃ A p B, text = A ++ p ++ B ∧ p ∈ pats ∧ p ≠ [] ∧ Aligned A p B ∧
        s = ⟨(A.length : Int), ((A.length + p.length : Nat) : Int)⟩ := by
  obtain ⟨hf, _, _⟩ := find_sound pats text hp ht t hbuilt
  obtain ⟨t', h1, h2, _⟩ := ofPatterns_spec pats
  rw [hbuilt] at h1; cases h1
  refine ⟨_, hf, ?_, ?_⟩
  · rw [h2]
    exact findSpec_nodup _ (decodedPats_wf pats hp) _ [] 0 (decodeAll_wf text ht) rfl
  · intro s
    rw [h2]
    exact find_iff_aligned pats text hp ht s

/-- Self-synchronisation: an occurrence of a non-empty valid-UTF-8 string inside arbitrary
bytes is aligned with the decoding of the text. -/
theorem c05_aligned_of_valid (A p B : List Nat) (hb : Bytes (A ++ p ++ B)) (hv : ValidUtf8 p)
    (hne : p ≠ []) : Aligned A p B := aligned_of_valid A p B hb hv hne

/-- The restriction of completeness to valid-UTF-8 patterns (or aligned occurrences) is
forced by the code, not by the proof: the pattern `E4` (a lone lead byte, not valid UTF-8)
occurs byte for byte in `E4 BD A0` (你), but the text decodes as one rune and nothing is
found; in `E4 41` the same byte is an invalid byte of the text and is found. -/
example : (Trie.ofPatterns [[0xE4]]).bind (fun t => t.findAll [0xE4, 0xBD, 0xA0]) = some [] ∧
    (Trie.ofPatterns [[0xE4]]).bind (fun t => t.match [0xE4, 0xBD, 0xA0]) = some false ∧
    (Trie.ofPatterns [[0xE4]]).bind (fun t => t.findAll [0xE4, 0x41]) = some [[0xE4]] := by
  refine ⟨by decide +kernel, by decide +kernel, by decide +kernel⟩

/-- `Match` as an iff, for pattern sets made of runes (every pattern valid UTF-8, as the
property quantifies) and ARBITRARY byte texts: `Match(text)` is true iff some non-empty
inserted pattern occurs in the text as a byte substring.  The empty pattern never counts
(`Insert("")` is a no-op) and the empty text matches nothing. -/
theorem c05_match_iff_valid (pats : List (List Nat)) (text : List Nat) (hp : ∀ p ∈ pats, Bytes p)
    (hv : ∀ p ∈ pats, ValidUtf8 p) (ht : Bytes text) (t : Trie) (hbuilt : Trie.ofPatterns pats = some t) :
    ∃ b, t.match text = some b ∧
      (b = true ↔ ∃ A p B, text = A ++ p ++ B ∧ p ∈ pats ∧ p ≠ []) := by
  obtain ⟨b, hm, h1, h2⟩ := c05_match_iff pats text hp ht t hbuilt
  refine ⟨b, hm, h1, ?_⟩
  rintro ⟨A, p, B, htext, hpm, hne⟩
  exact h2 A p B htext hpm hne (hv p hpm)

/-- Empty pattern and empty text: the pattern set {""} matches nothing, not even the empty
text; the set {"", "a", "a"} (empty pattern, duplicate) behaves like {"a"}: `Match("")` is
false and `FindAll("aa")` has one entry per position, not per inserted copy. -/
example : (Trie.ofPatterns [[]]).bind (fun t => t.match []) = some false ∧
    (Trie.ofPatterns [[]]).bind (fun t => t.match [97]) = some false ∧
    (Trie.ofPatterns [[]]).bind (fun t => t.findAll [97]) = some [] ∧
    (Trie.ofPatterns [[], [97], [97]]).bind (fun t => t.match []) = some false ∧
    (Trie.ofPatterns [[], [97], [97]]).bind (fun t => t.findAll [97, 97]) = some [[97], [97]] ∧
    (Trie.ofPatterns [[], [97], [97]]).bind (fun t => t.prefixSearch []) = some [[97]] := by
  refine ⟨by decide +kernel, by decide +kernel, by decide +kernel, by decide +kernel,
    by decide +kernel, by decide +kernel⟩

/-- `FindAll(text)` never panics and returns, in `find`'s order, exactly one entry per scope
of `find` — the entry being the matched pattern itself (`text[start:stop]`, an inserted
pattern); with `c05_find_exact` this is exactly one entry per (pattern, position). -/
theorem c05_findall_exact (pats : List (List Nat)) (text : List Nat) (hp : ∀ p ∈ pats, Bytes p)
    (ht : Bytes text) (t : Trie) (hbuilt : Trie.ofPatterns pats = some t) :
    ∃ scopes ws, t.find text = some scopes ∧ t.findAll text = some ws ∧ ws.length = scopes.length ∧
      ∀ k, (h : k < scopes.length) → ∃ w, ws[k]? = some w ∧ w ∈ pats ∧
        sliceInt? text scopes[k].start scopes[k].stop = some w := by
  obtain ⟨hf, _, _⟩ := find_sound pats text hp ht t hbuilt
  obtain ⟨ws, h1, h2, h3⟩ := findAll_spec pats text hp ht t hbuilt
  exact ⟨_, ws, hf, h1, h2, h3⟩

/-- Byte exactness for ARBITRARY byte strings (patterns and text need not be valid UTF-8):
building, `Match`, `find`, `FindAll` never panic, and every reported match is a
byte-for-byte occurrence of an inserted pattern. -/
theorem c05_byte_exact (pats : List (List Nat)) (text : List Nat) (hp : ∀ p ∈ pats, Bytes p)
    (ht : Bytes text) :
    ∃ t b scopes ws, Trie.ofPatterns pats = some t ∧ t.match text = some b ∧
      t.find text = some scopes ∧ t.findAll text = some ws ∧
      (∀ s ∈ scopes, IsOcc pats text s) ∧ (∀ w ∈ ws, w ∈ pats) ∧
      (b = true → ∃ A p B, text = A ++ p ++ B ∧ p ∈ pats ∧ p ≠ []) := by
  obtain ⟨t, hbuilt, _, _⟩ := ofPatterns_spec pats
  obtain ⟨b, hm, hb, _⟩ := c05_match_iff pats text hp ht t hbuilt
  obtain ⟨scopes, hf, _, _, _, hocc, _⟩ := c05_find_exact pats text hp ht t hbuilt
  obtain ⟨scopes', ws, hf', hfa, hlen, hk⟩ := c05_findall_exact pats text hp ht t hbuilt
  rw [hf] at hf'; cases hf'
  refine ⟨t, b, scopes, ws, hbuilt, hm, hf, hfa, hocc, ?_, hb⟩
  intro w hw
  obtain ⟨k, hk1, hk2⟩ := List.mem_iff_getElem.1 hw
  obtain ⟨w', e1, e2, _⟩ := hk k (by omega)
  rw [List.getElem?_eq_getElem hk1, hk2] at e1
  cases e1; exact e2

/-- Non-vacuity: he, she, his, hers on "ushers" — nested and overlapping occurrences. -/
example : (Trie.ofPatterns [[104, 101], [115, 104, 101], [104, 105, 115], [104, 101, 114, 115]]).bind
      (fun t => t.find [117, 115, 104, 101, 114, 115]) = some [⟨1, 4⟩, ⟨2, 4⟩, ⟨2, 6⟩] := by
  decide +kernel

/-- Non-vacuity for arbitrary bytes: pattern U+FFFD (EF BF BD) against the text FF is not a
match, and pattern FF is found in the text FF. -/
example : (Trie.ofPatterns [[0xEF, 0xBF, 0xBD]]).bind (fun t => t.match [0xFF]) = some false ∧
    (Trie.ofPatterns [[0xEF, 0xBF, 0xBD]]).bind (fun t => t.findAll [0xFF]) = some [] ∧
    (Trie.ofPatterns [[0xFF]]).bind (fun t => t.findAll [0x61, 0xFF]) = some [[0xFF]] := by
  refine ⟨by decide +kernel, by decide +kernel, by decide +kernel⟩

/-- `PrefixSearch(k)` is exact, for keys and patterns of any UTF-8 width (repaired code, F3):
no panic; no string is returned twice; every returned string is an inserted non-empty
pattern that starts with `k` (byte prefix) — for ARBITRARY byte keys; and when `k` is valid
UTF-8 every inserted non-empty pattern starting with `k` is returned.  (An inserted pattern
appears once even if it was inserted several times.) -/
theorem c05_prefix_exact (pats : List (List Nat)) (key : List Nat) (hp : ∀ p ∈ pats, Bytes p)
    (hk : Bytes key) (t : Trie) (hbuilt : Trie.ofPatterns pats = some t) :
    ∃ res, t.prefixSearch key = some res ∧ res.Nodup ∧
      (∀ w ∈ res, w ∈ pats ∧ w ≠ [] ∧ key <+: w) ∧
      (ValidUtf8 key → ∀ w ∈ pats, w ≠ [] → key <+: w → w ∈ res) := by
  obtain ⟨res, h1, h2, h3⟩ := prefixSearch_spec pats hp key hk t hbuilt
  refine ⟨res, h1, h2, ?_, ?_⟩
  · intro w hw
    obtain ⟨e1, e2, e3⟩ := (h3 w).1 hw
    exact ⟨e1, e2, (prefix_bytes_iff key w hk (hp w e1)).1 e3⟩
  · intro hv w hw hne hpre
    exact (h3 w).2 ⟨hw, hne, (prefix_bytes_iff key w hk (hp w hw)).2 hv hpre⟩

/-- 你好, 你们 (F3 witness) and the duplicate 你好: `PrefixSearch("你")` returns both, each once. -/
example : (Trie.ofPatterns [[0xE4, 0xBD, 0xA0, 0xE5, 0xA5, 0xBD], [0xE4, 0xBD, 0xA0, 0xE4, 0xBB, 0xAC],
      [0xE4, 0xBD, 0xA0, 0xE5, 0xA5, 0xBD]]).bind (fun t => t.prefixSearch [0xE4, 0xBD, 0xA0])
    = some [[0xE4, 0xBD, 0xA0, 0xE5, 0xA5, 0xBD], [0xE4, 0xBD, 0xA0, 0xE4, 0xBB, 0xAC]] := by
  decide +kernel

/-- `FuzzySearch(k)` is sound for arbitrary byte keys: no panic, and every returned string is
an inserted pattern. -/
theorem c05_fuzzy_sound (pats : List (List Nat)) (key : List Nat) (hp : ∀ p ∈ pats, Bytes p)
    (hk : Bytes key) (t : Trie) (hbuilt : Trie.ofPatterns pats = some t) :
    ∃ res, t.fuzzySearch key = some res ∧ ∀ w ∈ res, w ∈ pats :=
  fuzzySearch_sound pats hp key hk t hbuilt

/-- he, she, hers: `FuzzySearch("she")` walks the fail chain she → he and lists she, he, hers. -/
example : (Trie.ofPatterns [[104, 101], [115, 104, 101], [104, 101, 114, 115]]).bind
      (fun t => t.fuzzySearch [115, 104, 101])
    = some [[115, 104, 101], [104, 101], [104, 101, 114, 115]] := by
  decide +kernel

/-- Histories (Insert…, Build, queries, Insert…, Build, queries): "after inserting any set of
patterns and building failure links" also covers a trie that was built before.  `Built pats t`:
`t` holds the decoded patterns `pats`, its failure table has entries only for nodes (none for
the root; entries of earlier builds may lie shadowed underneath) and its `failOf` function is
that of `Trie.ofPatterns pats`.  The first build gives a `Built` trie; inserting further
patterns into a `Built` trie and calling `BuildFailureLinks` again (`Trie.rebuild`: the model
keeps the old table underneath, as the code keeps the old pointers) never panics, never
reads a stale link, and gives a trie `Built` for all patterns so far — by induction over any
number of rounds; and a `Built` trie answers every query exactly like the trie built in one
go, so every theorem above holds after every round. -/
theorem c05_rebuild_eq_build :
    (∀ (pats : List (List Nat)) (t : Trie), Trie.ofPatterns pats = some t → Built pats t) ∧
    (∀ (pats1 pats2 : List (List Nat)) (t1 : Trie), Built pats1 t1 →
      ∃ t2, (pats2.foldl (fun t p => t.insert (decodeAll p)) t1).rebuild = some t2 ∧
        Built (pats1 ++ pats2) t2) ∧
    (∀ (pats : List (List Nat)) (t : Trie), Built pats t →
      ∃ t0, Trie.ofPatterns pats = some t0 ∧ t.pats = t0.pats ∧ (∀ n, t.failOf n = t0.failOf n) ∧
        (∀ text, t.match text = t0.match text) ∧ (∀ text, t.find text = t0.find text) ∧
        (∀ text, t.findAll text = t0.findAll text) ∧
        (∀ key, t.prefixSearch key = t0.prefixSearch key) ∧
        (∀ key, t.fuzzySearch key = t0.fuzzySearch key)) := by
  refine ⟨built_first, rebuild_spec, ?_⟩
  intro pats t hb
  obtain ⟨t0, h0, h1, h2, h3, h4, h5, _, _⟩ := built_queries pats t hb
  obtain ⟨hp, _, _, t0', h0', hf⟩ := hb
  rw [h0] at h0'; cases h0'
  obtain ⟨hp0, _⟩ := ofPatterns_table pats t0 h0
  exact ⟨t0, h0, by rw [hp, hp0], hf, h1, h2, h3, h4, h5⟩

/-- abcd, xbcy built; then bc, c inserted and built again: the OLD node `abc` now fails to the
NEW pattern node `bc`, and `FindAll("abcd")` reports the nested new patterns. -/
example : ((Trie.ofPatterns [[97, 98, 99, 100], [120, 98, 99, 121]]).bind fun t1 =>
      ([[98, 99], [99]].foldl (fun t p => t.insert (decodeAll p)) t1).rebuild).bind
      (fun t2 => (t2.findAll [97, 98, 99, 100]).map fun ws => (ws, t2.failOf [97, 98, 99]))
    = some ([[98, 99], [99], [97, 98, 99, 100]], some [98, 99]) := by
  decide +kernel

/-- Histories of CALLS (wave 4), about the protocol driver that the real code is compared
with line by line (`runOpsWith` / `stepWith`, shared by C05 and C06; `q` = the query
function of the property):
* result stability — the answers already given do not depend on the calls that follow
  (the model is a function of the current state; the harness keeps a ledger of every string
  the real code returned and re-compares all of them after every later call);
* a call that is not `insert` / `build`, whatever it answers — also a query that panics
  because patterns were inserted since the last `BuildFailureLinks` — leaves the trie and
  the dirty flag untouched, so the `build` that follows starts from exactly the trie the
  inserts produced and yields a `Built` trie (`c05_rebuild_eq_build`): after a recovered
  panic the trie behaves as freshly built;
* such a panic kills the case exactly when the trie is not dirty (a panic inside the
  property is never stepped over). -/
theorem c05_call_history :
    (∀ (q : Query) (a b : List String) (s : Option DState),
      (runOpsWith q s (a ++ b)).take a.length = runOpsWith q s a) ∧
    (∀ (q : Query) (s s' : DState) (ts : List String), mutOp s ts = none →
      (stepWith q s ts).2 = some s' → s'.t = s.t ∧ s'.dirty = s.dirty) ∧
    (∀ (q : Query) (s : DState) (ts : List String), mutOp s ts = none → q s ts = some none →
      stepWith q s ts = ("panic", if s.dirty then some s else none)) :=
  ⟨answers_prefix_stable, query_keeps_trie, query_panic⟩

/-- `ab` inserted, not built: `FindAll("ab")` meets a nil failure link and panics; the panic is
recovered, `BuildFailureLinks` follows, and the same query answers as on a fresh trie. -/
example : (([[97, 98]] : List (List Nat)).foldl (fun t p => t.insert (decodeAll p)) Trie.empty).findAll [97, 98]
      = none ∧
    ((([[97, 98]] : List (List Nat)).foldl (fun t p => t.insert (decodeAll p)) Trie.empty).rebuild.bind
      fun t' => t'.findAll [97, 98]) = some [[97, 98]] := by
  constructor <;> decide +kernel

/-- The POINTER-level model (`Golib/Model/C05Ptr.lean`: a store of nodes with ids, per node a
child array of `(rune, id)` maintained by `findChildIndex` + insertion shift as `Insert` does,
`fail` ids, `isEnd`, `size`; `BuildFailureLinks` through the real queue model; the scan loops
walking pointers) refines the label trie.  `Rep pt t lbl`: `lbl[id]` is the rune path of node
`id`, the ids are exactly the nodes of the label trie `t`, every child array equals the label
trie's (children's ids carry the extended labels), `isEnd` / `size` agree, and every `fail` id
maps to `t.failOf`.
* the zero value represents the empty trie;
* `Insert` never panics, keeps the ids of old nodes and preserves `Rep`;
* whenever the label-level `BuildFailureLinks` succeeds (it always does on a `Built` trie:
  `c05_rebuild_eq_build`) the pointer-level one succeeds and preserves `Rep` — the failure
  pointers are the label trie's `failOf`;
* in every represented state every child array is strictly increasing (sorted, duplicate-free);
* the pointer-level `find` / `Match` / `FindAll` return what the label-level ones return.
Hence by induction every pointer state reachable by Insert / BuildFailureLinks represents the
label trie of the patterns inserted so far; the `dump` of the oracle driver is printed from
this pointer model and compared with the reflective dump of the real heap. -/
theorem c05_pointer_refines_label :
    Rep PTrie.empty Trie.empty [[]] ∧
    (∀ (pt : PTrie) (t : Trie) (lbl : List Label) (p : List Step), Rep pt t lbl →
      ∃ pt' lbl', pt.insert p = some pt' ∧ Rep pt' (t.insert p) (lbl ++ lbl')) ∧
    (∀ (pt : PTrie) (t : Trie) (lbl : List Label) (F : FailTab), Rep pt t lbl →
      buildFailFrom t.pats t.fail = some F →
      ∃ pt', pt.build = some pt' ∧ Rep pt' { t with fail := F } lbl) ∧
    (∀ (pt : PTrie) (t : Trie) (lbl : List Label), Rep pt t lbl →
      ∀ (id : Nat) (nd : PNode), pt.nodes[id]? = some nd → StrictSorted nd.vals) ∧
    (∀ (pt : PTrie) (t : Trie) (lbl : List Label) (text : List Nat), Rep pt t lbl →
      (∀ r, t.find text = some r → pt.find text = some r) ∧
      (∀ b, t.match text = some b → pt.match text = some b) ∧
      (∀ ws, t.findAll text = some ws → pt.findAll text = some ws)) :=
  ⟨rep_empty, fun pt t lbl p h => pinsert_rep pt t lbl p h,
    fun pt t lbl F h hb => pbuild_rep pt t lbl h F hb,
    fun _ _ _ h id nd hn => rep_children_sorted h id nd hn,
    fun pt t lbl text h => ⟨fun r hr => pfind_api pt t lbl h text r hr,
      fun b hb => pmatch_api pt t lbl h text b hb, fun ws hw => pfindAll_api pt t lbl h text ws hw⟩⟩

/-- `c05_pointer_refines_label` extended to the DFS loops: the pointer-level `PrefixSearch` /
`FuzzySearch` (`pDfsLoop` with the explicit stack of `(rune, depth, node id)` frames and the
shared truncated buffer, `pDescend`, `pFuzzyDescend`, `pFuzzyOuter` reading `size` / `fail` /
the leaf shortcut from the node store) return what the label-level ones return, on every
pointer state that represents the label trie — so `c05_prefix_exact`, `c05_fuzzy_sound` and
`c05_fuzzy_spec` hold of the pointer model as well. -/
theorem c05_pointer_search (pt : PTrie) (t : Trie) (lbl : List Label) (h : Rep pt t lbl)
    (key : List Nat) :
    (∀ res, t.prefixSearch key = some res → pt.prefixSearch key = some res) ∧
    (∀ res, t.fuzzySearch key = some res → pt.fuzzySearch key = some res) :=
  ⟨fun res hr => pprefix_api pt t lbl h key res hr, fun res hr => pfuzzy_api pt t lbl h key res hr⟩

/-- The array-backed pointer store the oracle executable runs (`Golib/Model/C05Arr.lean`: node
store `Array PNode`, queue `Array` of ids, every access O(1), so tries of 10^5 nodes are run
and compared with the real heap) computes exactly what the list-backed pointer model of
`c05_pointer_refines_label` computes: `Insert`, `BuildFailureLinks` (queue included: `push`,
`pop`, growth copy, `isFull`, `isEmpty` commute with the abstraction to the `Queue` model),
`find`, `Match`, `FindAll` commute with `ATrie.toP`. -/
theorem c05_array_refines :
    (∀ (a : ATrie) (p : List Step), (a.insert p).map ATrie.toP = a.toP.insert p) ∧
    (∀ (a : ATrie), a.build.map ATrie.toP = a.toP.build) ∧
    (∀ (pats : List (List Nat)), (ATrie.ofPatterns pats).map ATrie.toP = PTrie.ofPatterns pats) ∧
    (∀ (a : ATrie) (text : List Nat), a.find text = a.toP.find text ∧ a.match text = a.toP.match text ∧
      a.findAll text = a.toP.findAll text) ∧
    (∀ (q : AQueue) (id : Nat), q.toQ.push (ptrLabel id) = (q.push id).map AQueue.toQ) ∧
    (∀ (q : AQueue), q.toQ.pop = q.pop.map fun x => (slotLabel x.1, x.2.toQ)) :=
  ⟨ainsert_toP, abuild_toP, aofPatterns_toP,
    fun a text => ⟨afind_toP a text, amatch_toP a text, afindAll_toP a text⟩,
    AQueue.push_toQ, AQueue.pop_toQ⟩

/-- `c05_find_exact` / `c05_find_iff` / `c05_match_iff` / `c05_findall_exact` restated for the
pointer model: `Insert`* + `BuildFailureLinks` on the zero value never panic, and the
pointer-level `find`, `Match`, `FindAll` are exact. -/
theorem c05_pointer_find_exact (pats : List (List Nat)) (text : List Nat) (hp : ∀ p ∈ pats, Bytes p)
    (ht : Bytes text) :
    ∃ pt scopes b ws, PTrie.ofPatterns pats = some pt ∧ pt.find text = some scopes ∧
      pt.match text = some b ∧ pt.findAll text = some ws ∧
      C06.SortedByStop scopes ∧ scopes.Nodup ∧
      (∀ s, s ∈ scopes ↔ ∃ A p B, text = A ++ p ++ B ∧ p ∈ pats ∧ p ≠ [] ∧ Aligned A p B ∧
        s = ⟨(A.length : Int), ((A.length + p.length : Nat) : Int)⟩) ∧
      (∀ A p B, text = A ++ p ++ B → p ∈ pats → p ≠ [] → ValidUtf8 p →
        (⟨(A.length : Int), ((A.length + p.length : Nat) : Int)⟩ : Scope) ∈ scopes) ∧
      (b = true → ∃ A p B, text = A ++ p ++ B ∧ p ∈ pats ∧ p ≠ []) ∧
      (∀ A p B, text = A ++ p ++ B → p ∈ pats → p ≠ [] → ValidUtf8 p → b = true) ∧
      ws.length = scopes.length ∧ (∀ w ∈ ws, w ∈ pats) := by
  obtain ⟨pt, t, lbl, hpt, hbuilt, hrep⟩ := pofPatterns_rep pats
  obtain ⟨scopes, hf, hs, hnd, _, _, hcomp⟩ := c05_find_exact pats text hp ht t hbuilt
  obtain ⟨scopes', hf', _, hiff⟩ := c05_find_iff pats text hp ht t hbuilt
  rw [hf] at hf'; cases hf'
  obtain ⟨b, hm, hb1, hb2⟩ := c05_match_iff pats text hp ht t hbuilt
  obtain ⟨scopes2, ws2, hf2, hfa2, hlen, _⟩ := c05_findall_exact pats text hp ht t hbuilt
  rw [hf] at hf2; cases hf2
  have hwsmem : ∀ w ∈ ws2, w ∈ pats := by
    obtain ⟨t3, b3, sc3, ws3, hb3, _, _, hfa3, _, hw3, _⟩ := c05_byte_exact pats text hp ht
    rw [hbuilt] at hb3; cases hb3
    rw [hfa2] at hfa3; cases hfa3
    exact hw3
  exact ⟨pt, scopes, b, ws2, hpt, pfind_api pt t lbl hrep text scopes hf,
    pmatch_api pt t lbl hrep text b hm, pfindAll_api pt t lbl hrep text ws2 hfa2,
    hs, hnd, hiff, hcomp, hb1, hb2, hlen, hwsmem⟩

/-- he, she, his, hers through the pointer model: ten nodes, the same scopes as the label trie. -/
example : (PTrie.ofPatterns [[104, 101], [115, 104, 101], [104, 105, 115], [104, 101, 114, 115]]).bind
      (fun pt => (pt.find [117, 115, 104, 101, 114, 115]).map fun r => (pt.nodes.length, r))
    = some (10, [⟨1, 4⟩, ⟨2, 4⟩, ⟨2, 6⟩]) := by
  decide +kernel

/-- The scan loops AS CODED — decode one rune at position `i`, step the automaton, advance `i` by
the rune's width (`Trie.findStreaming`, `Trie.matchStreaming`, `Golib/Model/C05Stream.lean`) —
equal the model loops that run over the pre-decoded text, for every byte text and every trie. -/
theorem c05_stream_eq_decoded (t : Trie) (text : List Nat) (ht : Bytes text) :
    t.findStreaming text = t.find text ∧ t.matchStreaming text = t.match text :=
  stream_eq_decoded t text ht

/-- Magnitude guard for the `uint32` counters of `trieNodeQueue` (modelled as `Nat`): along any
run from `Init(10)` with at most `n` pushes, `tail ≤ n` and `cap ≤ max 10 (2n)`
(`Queue.Bound`, preserved by `push` / `pop`), and while `n + 1 < 2^31` the operations computed
modulo `W` = 2^32 as Go computes them (`push32`, `pop32`, `isFull32`) are the `Nat` operations of
the model.  `BuildFailureLinks` pushes every non-root node once, so the model is exact for
tries with fewer than 2^31 − 1 nodes; beyond that the theorems of this file do not apply.
(`W` is a variable equal to 4294967296 so that no term has the shape `x + 4294967296`.) -/
theorem c05_queue_no_wrap :
    (Queue.init 10).Bound 0 ∧
    (∀ (q q' : Queue) (x : Label) (n : Nat), q.Inv → q.Bound n → q.push x = some q' → q'.Bound (n + 1)) ∧
    (∀ (q q' : Queue) (x : Label) (n : Nat), q.Bound n → q.pop = some (x, q') → q'.Bound n) ∧
    (∀ (W : Nat), W = 4294967296 → ∀ (q : Queue) (x : Label) (n : Nat), q.Inv → q.Bound n →
      n + 1 < 2147483648 →
      q.isFull32 W = q.isFull ∧ q.push32 W x = q.push x ∧ q.pop32 W = q.pop) :=
  ⟨Queue.bound_init, fun q q' x n hi hb hp => Queue.bound_push q q' x n hi hb hp,
    fun q q' x n hb hp => Queue.bound_pop q q' x n hb hp,
    fun W hW q x n hi hb hn => queue_no_wrap W hW q x n hi hb hn⟩

/-- What `FuzzySearch(key)` returns for a non-empty key (the property asks soundness only; this
is the exact specification the correspondence check compares the code with): never a panic,
and exactly `fuzzySpec` — nothing if after some rune no non-empty suffix of the runes read so
far is a trie node (`alive`); otherwise, for every non-empty suffix `n` of the key's runes
that is a trie node, longest first (`chainOf`: the failure chain of the automaton state), the
pattern `n` itself if it is one, followed by the patterns strictly below `n` in the visiting
order of the explicit-stack DFS (`below`).  Order and multiplicities included: a pattern below
several chain nodes is listed once per chain node. -/
theorem c05_fuzzy_spec (pats : List (List Nat)) (key : List Nat) (hp : ∀ p ∈ pats, Bytes p)
    (hk : Bytes key) (hne : key ≠ []) (t : Trie) (hbuilt : Trie.ofPatterns pats = some t) :
    t.fuzzySearch key = some (fuzzySpec t.pats (lab (decodeAll key))) :=
  fuzzySearch_spec pats hp key hk hne t hbuilt

/-- aa, aaa, key `aa`: the chain is `aa`, `a`; both patterns lie below both chain nodes and are
listed twice. -/
example : (Trie.ofPatterns [[97, 97], [97, 97, 97]]).bind (fun t => t.fuzzySearch [97, 97])
    = some [[97, 97], [97, 97, 97], [97, 97], [97, 97, 97]] := by decide +kernel

/-- The source expressions and statements of `algz/trie.go` the model is written against
(re-extracted by go/ast on every run into `Golib/Gen/FactsC05.lean`) are the ones the model
mirrors; a revert of F3 / F11 or a single-token change in one of them breaks this obligation
independently of the random search. -/
theorem c05_facts : SourceFacts := c05_facts_holds

/-! ### Regenerated tie (wave 8): `algz/trie.go: runeLen` translated by `go2lean`

`Golib.Gen.Trans.C05.runeLen` is regenerated from the tree under verification on every run
(`Golib/Gen/TransC05.lean`; the value `utf8.RuneLen(r)` delivers is its parameter `k`).  The code's
`rune` is `int32` (`BitVec 32`); the model's rune is the integer `r.toInt`.  (Every other function
of `algz/trie.go` the C05 model mirrors is a method of `*Trie`, whose struct holds `*trieNode`
pointers: outside the translator's subset; they stay tied by `c05_facts`, the correspondence check
and the source hash.) -/

/-- TIE: the translated `runeLen`, given what `utf8.RuneLen` returns for `r`, equals the model's
`runeWidth` (the DFS depth increment of `PrefixSearch` / `FuzzySearch`, F3) for every `int32`
rune; it cannot panic. -/
theorem c05_trans_runeLen (r : BitVec 32) :
    Golib.Gen.Trans.C05.runeLen r (Utf8.runeLen r.toInt) = .ok (runeWidth r.toInt) :=
  trans_runeLen_eq r

/-- The same without the standard-library model: for EVERY value `k` the call `utf8.RuneLen(r)`
could deliver, the translated `runeLen` is 1 on a negative rune (the private symbol of an
invalid byte, F11) and `k` otherwise. -/
theorem c05_trans_runeLen_any (r : BitVec 32) (k : Int) :
    Golib.Gen.Trans.C05.runeLen r k = .ok (if r.toInt < 0 then 1 else k) :=
  trans_runeLen_any r k

/-- The clause the DFS relies on, directly on the generated definition: for every rune `r` that
`decodeRune` produces on a byte string (and that fits `int32`, as every decoded rune does), the
translated `runeLen` returns the number of bytes `writeRune` emits for it — so truncating the
buffer by it removes exactly that rune. -/
theorem c05_trans_runeLen_written (bs : List Nat) (hb : Bytes bs) (r : BitVec 32)
    (hr : ∃ st ∈ decodeAll bs, st.1 = r.toInt) :
    Golib.Gen.Trans.C05.runeLen r (Utf8.runeLen r.toInt)
      = .ok (((writeRune r.toInt).length : Nat) : Int) := by
  obtain ⟨st, hst, he⟩ := hr
  rw [c05_trans_runeLen, ← he, decodeAll_runeWidth bs hb st hst]

/-- Non-vacuity: 'a' is 1 byte, U+00E9 2, U+4E16 3, U+1F600 4, the private symbol of the invalid
byte 0xFF (−256) 1 — where `utf8.RuneLen` itself says −1. -/
example : Golib.Gen.Trans.C05.runeLen 97#32 (Utf8.runeLen 97) = .ok 1 ∧
    Golib.Gen.Trans.C05.runeLen 233#32 (Utf8.runeLen 233) = .ok 2 ∧
    Golib.Gen.Trans.C05.runeLen 19990#32 (Utf8.runeLen 19990) = .ok 3 ∧
    Golib.Gen.Trans.C05.runeLen 128512#32 (Utf8.runeLen 128512) = .ok 4 ∧
    Golib.Gen.Trans.C05.runeLen (BitVec.ofInt 32 (-256)) (Utf8.runeLen (-256)) = .ok 1 ∧
    Utf8.runeLen (-256) = -1 := by
  refine ⟨?_, ?_, ?_, ?_, ?_, ?_⟩ <;> decide +kernel

end Golib.C05
