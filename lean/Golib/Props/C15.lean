/-
C15 — re-implemented standard routines agree with the Go standard library.
ONLY property theorems and non-vacuity examples live here; helper lemmas are in
`Golib/Proof/C15*.lean`, the models in `Golib/Model/C15*.lean`.

Vocabulary: strings / byte slices are `List Nat` of bytes; `natValue base s` is the Horner
value of a digit string; `ValidDigits base s`: every character is `0-9a-zA-Z` of value
`< base`; `hexEncodeSpec` = two lower-case digits per byte.
-/
import Golib.Proof.C15Parse
import Golib.Proof.C15Spec
import Golib.Proof.C15Underscore
import Golib.Proof.C15Hex
import Golib.Proof.C15HexText
import Golib.Proof.C15B64
import Golib.Proof.C15Stream
import Golib.Proof.C15B64Len
import Golib.Proof.C15IP
import Golib.Proof.C15Facts
import Golib.Proof.C15Trans

namespace Golib.C15

/-- The two overflow tests of the digit loop (`n >= cutoff`, then `n1 < n || n1 > maxVal` on
wrapped 64-bit arithmetic) fire exactly when `n·base + d > maxVal` over the naturals — for
every base 2..36, every bit size 1..64, every 64-bit accumulator and every digit. -/
theorem c15_cutoff_exact (base bits n d : Nat)
    (hb : 2 ≤ base ∧ base ≤ 36) (hbits : 1 ≤ bits ∧ bits ≤ 64) (hn : n < 2 ^ 64) (hd : d < base) :
    maxValOf bits = 2 ^ bits - 1 ∧
    ((n ≥ cutoffOf base ∨
        ((n * base) % 2 ^ 64 + d) % 2 ^ 64 < (n * base) % 2 ^ 64 ∨
        ((n * base) % 2 ^ 64 + d) % 2 ^ 64 > maxValOf bits)
      ↔ n * base + d > 2 ^ bits - 1) := by
  have _ := hn
  have hm := maxValOf_eq bits (by omega)
  refine ⟨hm, ?_⟩
  have h := overflowTest_iff base (maxValOf bits) n d (by omega) (maxValOf_lt bits)
    (by unfold two64; omega)
  rw [hm] at h
  simpa only [overflowTest, two64, hm] using h

example : (255 : Nat) ≥ cutoffOf 36 ∨ ((255 * 36) % 2 ^ 64 + 35) % 2 ^ 64 > maxValOf 8 := by decide

/-- For a syntactically valid numeral in an explicit base (non-empty, all digits `< base`),
`ParseUint` returns its natural-number value when that fits the bit size, and
`(maxVal, range error)` otherwise; `bitSize = 0` means 64. -/
theorem c15_parseUint_value (s : List Nat) (base bits : Nat)
    (hb : 2 ≤ base ∧ base ≤ 36) (hbits : bits ≤ 64) (hne : s ≠ []) (hv : ValidDigits base s) :
    parseUint s (base : Int) (bits : Int) =
      if natValue base s ≤ 2 ^ effBits bits - 1 then (natValue base s, .ok)
      else (2 ^ effBits bits - 1, .range) :=
  parseUint_explicit_base s base bits hb.1 hb.2 hbits hne hv

example : ValidDigits 16 [70, 102] ∧ parseUint [70, 102] 16 8 = (255, .ok) ∧
    parseUint [49, 48, 48] 16 8 = (255, .range) := by
  refine ⟨?_, by decide, by decide⟩
  intro c hc
  simp only [List.mem_cons, List.not_mem_nil, or_false] at hc
  rcases hc with rfl | rfl
  · exact ⟨15, by decide, by decide⟩
  · exact ⟨15, by decide, by decide⟩

/-- `base == 0`: with `(b, body) = base0Prefix s` (the `0x/0o/0b/0` prefix handling as coded)
and all non-underscore characters of `body` digits `< b`: a value that does not fit gives
`(maxVal, range)` (even when the underscores are misplaced, as in `strconv`); otherwise
misplaced underscores (`underscoreOK s = false`) give `(0, syntax)`; otherwise the value of
the digits without the underscores. -/
theorem c15_parseUint_value_base0 (s : List Nat) (bits : Nat) (hbits : bits ≤ 64) (hne : s ≠ [])
    (hv : ValidDigits (base0Prefix s).1 (stripUnderscores (base0Prefix s).2)) :
    parseUint s 0 (bits : Int) =
      if natValue (base0Prefix s).1 (stripUnderscores (base0Prefix s).2) ≤ 2 ^ effBits bits - 1 then
        if (base0Prefix s).2.contains 95 = true ∧ underscoreOK s = false then (0, .syntax)
        else (natValue (base0Prefix s).1 (stripUnderscores (base0Prefix s).2), .ok)
      else (2 ^ effBits bits - 1, .range) :=
  parseUint_base0 s bits hbits hne hv

-- "0x_f_F" is 255; "0xf__f" is a syntax error; "0x1_00" does not fit 8 bits
example : parseUint [48, 120, 95, 102, 95, 70] 0 8 = (255, .ok) ∧
    parseUint [48, 120, 102, 95, 95, 102] 0 8 = (0, .syntax) ∧
    parseUint [48, 120, 49, 95, 48, 48] 0 8 = (255, .range) := by decide

/-- `underscoreOK` accepts exactly the strings in which every underscore is immediately
preceded by a digit or the base prefix and immediately followed by a digit
(`usParts s` = hex flag, prefix flag and the text after the optional sign and prefix). -/
theorem c15_underscoreOK_spec (s : List Nat) :
    underscoreOK s = true ↔
      UnderscoresSeparateDigits (usParts s).1 (usParts s).2.1 (usParts s).2.2 :=
  underscoreOK_spec s

example : underscoreOK [48, 120, 95, 49, 95, 102] = true ∧ underscoreOK [49, 95, 95, 48] = false ∧
    underscoreOK [95, 49] = false ∧ underscoreOK [49, 95] = false := by decide

/-- What the numeral vocabulary means: the digit switch recognises exactly `0-9a-zA-Z` with the
usual values (for every byte), and `natValue` is positional notation. -/
theorem c15_numeral_vocabulary :
    (∀ c, c < 256 → digit? c =
      if 48 ≤ c ∧ c ≤ 57 then some (c - 48) else if 97 ≤ c ∧ c ≤ 122 then some (c - 87)
      else if 65 ≤ c ∧ c ≤ 90 then some (c - 55) else none) ∧
    (∀ base, natValue base [] = 0) ∧
    (∀ base s c, natValue base (s ++ [c]) = natValue base s * base + digitOf c) :=
  ⟨digit?_classes, natValue_nil, natValue_snoc⟩

/-- Syntax errors: the first character that is not acceptable (`BadChar`: not a digit `< base`,
and not an underscore under `base == 0`) after a valid prefix gives `(0, syntax)` — unless the
prefix alone already exceeds `maxVal`, in which case the range error comes first. Explicit
base and `base == 0` (then `pre ++ c :: post` is the body after the prefix). -/
theorem c15_parseUint_syntax (pre post : List Nat) (c base bits : Nat)
    (hb : 2 ≤ base ∧ base ≤ 36) (hbits : bits ≤ 64)
    (hv : ValidDigits base pre) (hc : BadChar false base c) :
    parseUint (pre ++ c :: post) (base : Int) (bits : Int) =
      if natValue base pre ≤ 2 ^ effBits bits - 1 then (0, .syntax)
      else (2 ^ effBits bits - 1, .range) :=
  parseUint_explicit_syntax pre post c base bits hb.1 hb.2 hbits hv hc

theorem c15_parseUint_syntax_base0 (s pre post : List Nat) (c bits : Nat) (hbits : bits ≤ 64)
    (hbody : (base0Prefix s).2 = pre ++ c :: post)
    (hv : ValidDigits (base0Prefix s).1 (stripUnderscores pre))
    (hc : BadChar true (base0Prefix s).1 c) :
    parseUint s 0 (bits : Int) =
      if natValue (base0Prefix s).1 (stripUnderscores pre) ≤ 2 ^ effBits bits - 1 then (0, .syntax)
      else (2 ^ effBits bits - 1, .range) :=
  parseUint_base0_syntax s pre post c bits hbits hbody hv hc

example : BadChar false 10 43 ∧ parseUint [43, 49] 10 64 = (0, .syntax) := by
  refine ⟨⟨by decide, ?_⟩, by decide⟩
  intro d hd
  have : digit? 43 = none := by decide
  rw [this] at hd; cases hd

/-- Complete characterisation, explicit base 2..36, any non-empty string: with `pre` the
longest prefix of digits `< base`: the value of `pre` exceeding `maxVal` gives
`(maxVal, range)`; otherwise a remaining character gives `(0, syntax)`; otherwise the value.
Together with `c15_parseUint_total_base0` and `c15_parseUint_args` this determines the
result of `ParseUint` for every string, base and bit size. -/
theorem c15_parseUint_total (s : List Nat) (base bits : Nat)
    (hb : 2 ≤ base ∧ base ≤ 36) (hbits : bits ≤ 64) (hne : s ≠ []) :
    parseUint s (base : Int) (bits : Int) =
      if natValue base (s.takeWhile (okDigit base)) ≤ 2 ^ effBits bits - 1 then
        if (s.takeWhile (okDigit base)).length < s.length then (0, .syntax)
        else (natValue base s, .ok)
      else (2 ^ effBits bits - 1, .range) :=
  parseUint_total_explicit s base bits hb.1 hb.2 hbits hne

/-- Complete characterisation for `base == 0`, any non-empty string: `(b, body)` from the
prefix handling, `pre` the longest prefix of `body` made of underscores and digits `< b`:
range error if the digits of `pre` exceed `maxVal`; else syntax error if a character remains;
else syntax error if there are underscores and `underscoreOK s` fails; else the value of the
digits. -/
theorem c15_parseUint_total_base0 (s : List Nat) (bits : Nat) (hbits : bits ≤ 64) (hne : s ≠ []) :
    parseUint s 0 (bits : Int) =
      let b := (base0Prefix s).1
      let body := (base0Prefix s).2
      let pre := body.takeWhile (okChar0 b)
      if natValue b (stripUnderscores pre) ≤ 2 ^ effBits bits - 1 then
        if pre.length < body.length then (0, .syntax)
        else if body.contains 95 = true ∧ underscoreOK s = false then (0, .syntax)
        else (natValue b (stripUnderscores body), .ok)
      else (2 ^ effBits bits - 1, .range) :=
  parseUint_total_base0 s bits hbits hne

-- "12x4" in base 10: the longest digit prefix is "12", a character remains → syntax error;
-- "300" fits neither 8 bits → (255, range); "0x_1f_" under base 0: trailing underscore → syntax error
example : [49, 50, 120, 52].takeWhile (okDigit 10) = [49, 50] ∧
    parseUint [49, 50, 120, 52] 10 64 = (0, .syntax) ∧ parseUint [51, 48, 48] 10 8 = (255, .range) ∧
    parseUint [48, 120, 95, 49, 102, 95] 0 64 = (0, .syntax) ∧
    parseUint [48, 120, 95, 49, 102] 0 64 = (31, .ok) := by decide

-- prefix handling as coded: "0x1f" → (16, "1f"); "0x" → (8, "x") (too short for a prefix); "017" → (8, "17")
example : base0Prefix [48, 120, 49, 102] = (16, [49, 102]) ∧ base0Prefix [48, 120] = (8, [120]) ∧
    base0Prefix [48, 49, 55] = (8, [49, 55]) ∧ base0Prefix [49, 55] = (10, [49, 55]) := by decide

/-- Argument checks in the coded order: empty string → syntax error (whatever base and bit
size); otherwise a base outside `{0} ∪ 2..36` → base error; otherwise a bit size outside
`0..64` → bit-size error; the value is 0 in all three cases. -/
theorem c15_parseUint_args (s : List Nat) (base bits : Int) :
    (s = [] → parseUint s base bits = (0, .syntax)) ∧
    (s ≠ [] → ¬ (2 ≤ base ∧ base ≤ 36) → base ≠ 0 → parseUint s base bits = (0, .base)) ∧
    (s ≠ [] → ((2 ≤ base ∧ base ≤ 36) ∨ base = 0) → (bits < 0 ∨ bits > 64) →
      parseUint s base bits = (0, .bitSize)) :=
  ⟨fun h => h ▸ parseUint_empty base bits, parseUint_bad_base s base bits,
   parseUint_bad_bitSize s base bits⟩

/-- The single full-strength statement: for EVERY string, EVERY Go `int` base and EVERY Go `int`
bit size the code-mirroring model of `ParseUint` returns what the specification
`parseUintSpec` says (argument checks in order; then range error / syntax error / value of
the digits, phrased with the positional value of the longest acceptable prefix — no digit
loop, no cut-off, no wrapped arithmetic).  `c15_parseUint_total`, `…_total_base0` and `…_args`
are its three branches. -/
theorem c15_parseUint_spec (s : List Nat) (base bitSize : Int) :
    parseUint s base bitSize = parseUintSpec s base bitSize :=
  parseUint_eq_spec s base bitSize

-- the specification evaluated: "" → syntax whatever the rest; base 37, 1, -1 → base error;
-- bit size 65, -1 → bit-size error; lone "0x" under base 0 → syntax; "0X_fF" → 255; "+1" → syntax;
-- "18446744073709551616" (2^64) base 10 bit size 0 → (2^64-1, range)
example : parseUintSpec [] 37 65 = (0, .syntax) ∧ parseUintSpec [49] 37 65 = (0, .base) ∧
    parseUintSpec [49] 1 8 = (0, .base) ∧ parseUintSpec [49] (-1) 8 = (0, .base) ∧
    parseUintSpec [49] 10 65 = (0, .bitSize) ∧ parseUintSpec [49] 0 (-1) = (0, .bitSize) ∧
    parseUintSpec [48, 120] 0 64 = (0, .syntax) ∧ parseUintSpec [48, 88, 95, 102, 70] 0 8 = (255, .ok) ∧
    parseUintSpec [43, 49] 10 64 = (0, .syntax) ∧
    parseUintSpec [49, 56, 52, 52, 54, 55, 52, 52, 48, 55, 51, 55, 48, 57, 53, 53, 49, 54, 49, 54] 10 0
      = (18446744073709551615, .range) := by decide

/-- `HexEncode` never panics and produces two lower-case hex digits per byte. -/
theorem c15_hex_lower (bs : List Nat) (h : ∀ b ∈ bs, b < 256) :
    ∃ out, hexEncode? bs = some out ∧ out = hexEncodeSpec bs ∧ out.length = 2 * bs.length ∧
      ∀ c ∈ out, isLowerHex c = true :=
  ⟨_, hexEncode?_eq bs h, rfl, hexEncodeSpec_length bs, hexEncodeSpec_lower bs h⟩

/-- `HexDecode(HexEncode(b)) = (b, nil)` for every byte slice. -/
theorem c15_hex_decode_encode (bs : List Nat) (h : ∀ b ∈ bs, b < 256) :
    ∃ enc, hexEncode? bs = some enc ∧ hexDecode? enc = some (bs, .ok) := by
  refine ⟨_, hexEncode?_eq bs h, ?_⟩
  rw [hexDecode?_eq, hexDecodePure_encode bs h]

example : hexEncode? [0, 171, 255] = some [48, 48, 97, 98, 102, 102] ∧
    hexDecode? [48, 48, 65, 98, 102, 70] = some ([0, 171, 255], .ok) := by decide

/-- Error precedence of `HexDecode`: an invalid character after a prefix of hex digits is
reported (by value), wherever it stands and whatever follows — in particular before the
odd-length error; the decoded bytes returned with it are those of the complete pairs before
it (`len(pre)/2` bytes, the decoding of the longest even-length prefix of `pre`). -/
theorem c15_hex_error_precedence (pre post : List Nat) (c : Nat)
    (hpre : AllHex pre) (hc : fromHexChar c = none) :
    ∃ out, hexDecode? (pre ++ c :: post) = some (out, .invalidByte c) ∧
      out.length = pre.length / 2 ∧
      hexDecode? (pre.take (2 * (pre.length / 2))) = some (out, .ok) := by
  refine ⟨(hexDecodePure pre).1, ?_, (hexDecodePure_valid pre hpre).1, ?_⟩
  · rw [hexDecode?_eq, hexDecodePure_invalid pre post c hpre hc]
  · rw [hexDecode?_eq, (hexDecodePure_valid pre hpre).2.2]

/-- All characters hex digits: `len/2` bytes are decoded, the error is `ErrLength` exactly
when the length is odd (then the bytes are those of the string without its last character),
and no panic occurs. -/
theorem c15_hex_decode_valid (s : List Nat) (hs : AllHex s) :
    ∃ out, hexDecode? s = some (out, if s.length % 2 = 1 then .length else .ok) ∧
      out.length = s.length / 2 ∧
      hexDecode? (s.take (2 * (s.length / 2))) = some (out, .ok) := by
  obtain ⟨h1, h2, h3⟩ := hexDecodePure_valid s hs
  refine ⟨(hexDecodePure s).1, ?_, h1, ?_⟩
  · rw [hexDecode?_eq, ← h2]
  · rw [hexDecode?_eq, h3]

/-- `HexDecode` never panics (the destination buffer `make([]byte, len/2)` is never
overrun), for any input. -/
theorem c15_hex_decode_total (s : List Nat) : hexDecode? s ≠ none := by
  rw [hexDecode?_eq]; exact Option.some_ne_none _

/-- `HexDecodeInPlace(b)` (= `hex.Decode(b, b)`) never panics and agrees with `HexDecode`:
same count, same error, the first `n` bytes of the buffer are the decoded bytes and the rest
of the buffer is unchanged (writing into the array being read is harmless). -/
theorem c15_hex_decode_in_place (b : List Nat) :
    ∃ out e, hexDecode? b = some (out, e) ∧
      hexDecodeInPlace? b = some (out ++ b.drop out.length, out.length, e) :=
  ⟨_, _, hexDecode?_eq b, hexDecodeInPlace?_eq b⟩

example : AllHex [97, 66, 99] ∧ hexDecodeInPlace? [97, 66, 99] = some ([171, 66, 99], 1, .length) := by
  refine ⟨?_, by decide⟩
  intro x hx
  simp only [List.mem_cons, List.not_mem_nil, or_false] at hx
  rcases hx with rfl | rfl | rfl <;> decide

-- "1g3" : invalid 'g' wins over the odd length; "abc" : odd length, one byte decoded
example : hexDecode? [49, 103, 51] = some ([], .invalidByte 103) ∧
    hexDecode? [97, 98, 99] = some ([171], .length) ∧
    (HErr.invalidByte 103).text = some (asciiBytes "encoding/hex: invalid byte: U+0067 'g'") := by
  decide

/-- The error TEXT (part of the property): the error values returned by the decoders print as
`encoding/hex: odd length hex string` resp. `encoding/hex: invalid byte: U+00XY` followed, for
a printable Latin-1 byte, by the quoted character in UTF-8 (`invalidByteTextSpec`, written out
byte by byte) — for every byte value; a nil error has no text. -/
theorem c15_hex_error_text :
    (∀ c, c < 256 → (HErr.invalidByte c).text = some (invalidByteTextSpec c)) ∧
    HErr.length.text = some (asciiBytes "encoding/hex: odd length hex string") ∧
    HErr.ok.text = none :=
  ⟨invalidByte_text, rfl, rfl⟩

-- 'g' → U+0067 'g'; NUL → U+0000 (no quote); 0xE9 → U+00E9 'é' (two UTF-8 bytes); 0xAD → U+00AD
example : invalidByteTextSpec 103 = asciiBytes "encoding/hex: invalid byte: U+0067 'g'" ∧
    invalidByteTextSpec 0 = asciiBytes "encoding/hex: invalid byte: U+0000" ∧
    invalidByteTextSpec 0xe9 = asciiBytes "encoding/hex: invalid byte: U+00E9 '" ++ [0xc3, 0xa9, 39] ∧
    invalidByteTextSpec 0xad = asciiBytes "encoding/hex: invalid byte: U+00AD" := by decide

/-! ### Stream form = one-shot form, for every reader

`streamHelper H script`: the `…Stream` helper of the algorithm with digest function `H` on a
reader that behaves as `script` (a list of `Read` results: chunk, and what came with it). -/

/-- Every chunking: if the reader delivers chunks `pre` without error (any sizes, empty reads
included) and then a chunk `c` TOGETHER with `io.EOF` (`c` may be empty: the usual final
`(0, EOF)`), the helper returns `HexEncode(H(pre ++ c))` — the one-shot result on the
concatenation — whatever the reader would do afterwards.  In particular two readers delivering
the same bytes in different pieces give the same result, and no byte delivered with EOF is lost. -/
theorem c15_stream_any_chunking (H : List Nat → List Nat) (pre : ReadScript) (c : List Nat)
    (post : ReadScript) (hpre : ∀ r ∈ pre, r.2 = RErr.none) :
    streamHelper H (pre ++ (c, RErr.eof) :: post) = .value (hexEncode? (H (delivered pre ++ c))) := by
  unfold streamHelper
  rw [ioCopy_prefix pre c .eof post [] hpre (by decide)]
  simp

/-- Failures: a non-EOF error (alone or together with data) makes the helper return the error, a
panicking `Read` propagates, and as long as the reader has reported no error the helper has not
returned (it never produces a digest of a partial stream). -/
theorem c15_stream_failures (H : List Nat → List Nat) (pre : ReadScript) (c : List Nat)
    (post : ReadScript) (hpre : ∀ r ∈ pre, r.2 = RErr.none) :
    streamHelper H (pre ++ (c, RErr.other) :: post) = .error ∧
    streamHelper H (pre ++ (c, RErr.panic) :: post) = .panic ∧
    streamHelper H pre = .pending := by
  unfold streamHelper
  rw [ioCopy_prefix pre c .other post [] hpre (by decide),
    ioCopy_prefix pre c .panic post [] hpre (by decide), ioCopy_all_none pre [] hpre]
  simp

-- "abc" in one read with EOF, byte by byte with zero-length reads in between, and with a non-EOF error
example : streamHelper (fun w => w) [([97, 98, 99], .eof)] = .value (some [54, 49, 54, 50, 54, 51]) ∧
    streamHelper (fun w => w) [([], .none), ([97], .none), ([], .none), ([98], .none), ([99], .eof), ([100], .none)]
      = .value (some [54, 49, 54, 50, 54, 51]) ∧
    streamHelper (fun w => w) [([97, 98], .none), ([99], .other)] = .error := by decide

/-! ### Base64 (`Base64Encode` / `Base64Decode` = `enc.Encode` / `enc.Decode` on a fresh buffer, result
`dst[:n]` and the error; `e` ranges over Std / URL / RawStd / RawURL) -/

/-- `Base64Decode(Base64Encode(x, enc), enc) = (x, nil)` for every byte string and each of the
four encodings (alphabet std / URL, padded / raw). -/
theorem c15_base64_roundtrip (e : B64Enc) (x : List Nat) (hx : ∀ y ∈ x, y < 256) :
    b64Decode e (b64Encode e x) = (x, none) :=
  b64_roundtrip e x hx

/-- Invalid input is rejected where `encoding/base64` reports it: after the encoding of complete
triples `x` and `j ≤ 3` further alphabet characters `q`, a character `c` that is neither in the
alphabet of the encoding, nor a newline, nor a `=` that could be padding (padded encoding and
`j ≥ 2`) gives `CorruptInputError` at the OFFSET OF `c`, and the decoded prefix returned with the
error is exactly `x` — whatever follows `c`.  (A `=` in a raw encoding, a `-` in the std
alphabet, a `+` in the URL alphabet are instances.) -/
theorem c15_base64_rejects (e : B64Enc) (x : List Nat) (hm : x.length % 3 = 0)
    (hx : ∀ y ∈ x, y < 256) (q : List Nat) (hq : q.length ≤ 3) (c : Nat) (post : List Nat)
    (hc : b64Val e.url c = none) (hnl : isNL c = false)
    (hpad : ¬ (e.pad = true ∧ c = 61) ∨ q.length < 2) :
    b64Decode e (b64Encode e x ++ q.map (b64Char e.url) ++ c :: post) =
      (x, some ((b64Encode e x).length + q.length)) :=
  b64_invalid_char e x hm hx q hq c post hc hnl hpad

/-- Buffer sizes: `Base64Encode` allocates `EncodedLen(len(s))` bytes and the encoder fills exactly
that many; `Base64Decode` allocates `DecodedLen(len(s))` bytes and the decoder NEVER produces more,
for any input whatsoever (valid, truncated, with newlines, corrupt) — so `dst[:n]` is in range. -/
theorem c15_base64_buffers (e : B64Enc) (x src : List Nat) :
    (b64Encode e x).length = encodedLen e x.length ∧
    (b64Decode e src).1.length ≤ decodedLen e src.length :=
  ⟨b64Encode_length e x, b64Decode_length e src⟩

example : encodedLen ⟨false, true⟩ 4 = 8 ∧ encodedLen ⟨true, false⟩ 4 = 6 ∧ decodedLen ⟨false, true⟩ 7 = 3 ∧
    decodedLen ⟨false, false⟩ 7 = 5 := by decide

-- the padding grammar as coded (evaluated): "Zm9vYg==" ok; one '=' missing → offset len(src); 'x' after
-- the padding → the quantum's byte is still delivered, error at the garbage; "Zg=x" → offset 2 (si-1);
-- newlines are skipped anywhere; raw encodings reject '=' at its offset; URL alphabet in std → offset 0
example : b64Decode ⟨false, true⟩ (asciiBytes "Zm9vYg==") = (asciiBytes "foob", none) ∧
    b64Decode ⟨false, true⟩ (asciiBytes "Zm9vYg=") = (asciiBytes "foo", some 7) ∧
    b64Decode ⟨false, true⟩ (asciiBytes "Zm9vYg==x") = (asciiBytes "foob", some 8) ∧
    b64Decode ⟨false, true⟩ (asciiBytes "Zg=x") = ([], some 2) ∧
    b64Decode ⟨false, true⟩ (asciiBytes "Zm9v\nYg=\r\n=\n") = (asciiBytes "foob", none) ∧
    b64Decode ⟨true, false⟩ (asciiBytes "Zm9vYg==") = (asciiBytes "foo", some 6) ∧
    b64Decode ⟨true, false⟩ (asciiBytes "Zm9vY") = (asciiBytes "foo", some 4) ∧
    b64Decode ⟨false, false⟩ (asciiBytes "-_-_") = ([], some 0) ∧
    b64Decode ⟨true, false⟩ (asciiBytes "-_-_") = ([251, 255, 191], none) ∧
    b64ErrText 12 = asciiBytes "illegal base64 data at input byte 12" := by decide

/-- `IPv4ToLong(LongToIPv4(x)) = x` for every 32-bit `x`. -/
theorem c15_ipv4_roundtrip (x : Nat) (hx : x < 2 ^ 32) : ipv4ToLong (longToIPv4 x) = x :=
  ipv4_roundtrip x hx

example : longToIPv4 3232235777 = asciiBytes "192.168.1.1" ∧
    ipv4ToLong (asciiBytes "192.168.1.1") = 3232235777 := by decide

-- BEGIN wave-8 tie block (trans-strconv)
/-! ### Regenerated tie (wave 8): `strz/std_strconv.go`, `strz/std_hex.go` translated by `go2lean`

`Golib.Gen.Trans.C15.*` is regenerated from the tree under verification on every run
(`Golib/Gen/TransC15.lean`); these theorems are re-checked against what the code says now.
The models above use `Nat` bytes, the translation `BitVec 8`: the abstraction function is
`BitVec.toNat` / `BitVec.ofNat 8`, written out in every statement. -/

/-- TIE: the translated `lower` (`c | 32`) is the model's `lower` on EVERY byte; it cannot panic. -/
theorem c15_trans_lower (c : BitVec 8) :
    Golib.Gen.Trans.C15.lower c = .ok (BitVec.ofNat 8 (Golib.C15.lower c.toNat)) :=
  Tie.trans_lower_eq c

/-- TIE: the translated `fromHexChar` is the model's `fromHexChar` on EVERY byte: `(v, true)` where
the model answers `some v`, `(0, false)` where it answers `none`; it cannot panic. -/
theorem c15_trans_fromHexChar (c : BitVec 8) :
    Golib.Gen.Trans.C15.fromHexChar c = .ok (Tie.hexCharPair (Golib.C15.fromHexChar c.toNat)) :=
  Tie.trans_fromHexChar_eq c

/-- Non-vacuity: `'F'` is 15, `'g'` is rejected, `lower('X') = 'x'`. -/
example : Golib.Gen.Trans.C15.fromHexChar 70#8 = .ok (15#8, true) ∧
    Golib.Gen.Trans.C15.fromHexChar 103#8 = .ok (0#8, false) ∧
    Golib.Gen.Trans.C15.lower 88#8 = .ok 120#8 := by
  refine ⟨?_, ?_, ?_⟩ <;> decide +kernel

/-- TIE: the translated generic `underscoreOK` (string and []byte instantiate to the same translation:
a byte list) equals the model's `underscoreOK` — the definition `c15_underscoreOK_spec` and the
base-0 theorems of `parseUint` are about — for EVERY string; abstraction `Tie.bytesOf = List.map
BitVec.toNat`.  In particular no index or slice expression of it can panic (`s[0]`, `s[1]`, `s[1:]`,
`s[i]` are guarded by the length tests) and the loop never runs out of fuel. -/
theorem c15_trans_underscoreOK (s : List (BitVec 8)) :
    Golib.Gen.Trans.C15.underscoreOK s = .ok (Golib.C15.underscoreOK (Tie.bytesOf s)) :=
  Tie.trans_underscoreOK_eq s

/-- The property clause directly on the generated definition: the code answers `true` exactly on the
strings whose underscores separate digits. -/
theorem c15_trans_underscoreOK_spec (s : List (BitVec 8)) :
    Golib.Gen.Trans.C15.underscoreOK s = .ok true ↔
      UnderscoresSeparateDigits (usParts (Tie.bytesOf s)).1 (usParts (Tie.bytesOf s)).2.1
        (usParts (Tie.bytesOf s)).2.2 := by
  rw [c15_trans_underscoreOK, ← c15_underscoreOK_spec]
  constructor
  · intro h; injection h
  · intro h; rw [h]

/-- Non-vacuity: `0x_1_f` is fine, `1__0`, `_1`, `1_` and `+0x` followed by `_` at the end are not. -/
example : Golib.Gen.Trans.C15.underscoreOK [48#8, 120#8, 95#8, 49#8, 95#8, 102#8] = .ok true ∧
    Golib.Gen.Trans.C15.underscoreOK [49#8, 95#8, 95#8, 48#8] = .ok false ∧
    Golib.Gen.Trans.C15.underscoreOK [95#8, 49#8] = .ok false ∧
    Golib.Gen.Trans.C15.underscoreOK [43#8, 48#8, 88#8, 49#8, 95#8] = .ok false := by
  refine ⟨?_, ?_, ?_, ?_⟩ <;> decide +kernel

/-- TIE: the translated `hexEncode(dst, src)` (generic over string/[]byte: one translation; `dst` is
an in-out parameter of the translation: its final content comes after the result) against the
model's `hexEncode?`: the model answers `some r` and, whenever `dst` has room for the text
(`2·len(src) ≤ len(dst)`), the code returns `2·len(src)` and has written `r` over the first
`2·len(src)` bytes of `dst`, leaving the rest untouched.  Neither table lookup nor write panics. -/
theorem c15_trans_hexEncode (dst src : List (BitVec 8)) (h : 2 * src.length ≤ dst.length) :
    ∃ r, hexEncode? (Tie.bytesOf src) = some r ∧
      Golib.Gen.Trans.C15.hexEncode dst src
        = .ok (((2 * src.length : Nat) : Int), r.map (BitVec.ofNat 8) ++ dst.drop (2 * src.length)) :=
  ⟨_, Tie.hexEncode?_encBV src, by rw [Tie.trans_hexEncode_eq dst src h, Tie.ofBytes_bytesOf]⟩

/-- TIE: the translated `HexEncode` (`make`, `hexEncode`, return `dst`) equals the model's
`hexEncode?` — the definition `c15_hex_lower` and `c15_hex_decode_encode` are about — on EVERY
string: the model answers `some r` and the code returns `r`; it cannot panic. -/
theorem c15_trans_HexEncode (s : List (BitVec 8)) :
    ∃ r, hexEncode? (Tie.bytesOf s) = some r ∧
      Golib.Gen.Trans.C15.HexEncode s = .ok (r.map (BitVec.ofNat 8)) :=
  ⟨_, Tie.hexEncode?_encBV s, by rw [Tie.trans_HexEncode_eq s, Tie.ofBytes_bytesOf]⟩

/-- The property clause directly on the generated definition: `HexEncode` returns two lower-case
hex digits per byte. -/
theorem c15_trans_HexEncode_lower (s : List (BitVec 8)) :
    ∃ out, Golib.Gen.Trans.C15.HexEncode s = .ok out ∧ out.length = 2 * s.length ∧
      ∀ c ∈ out, isLowerHex c.toNat = true := by
  obtain ⟨r, hr, hg⟩ := c15_trans_HexEncode s
  have hb : ∀ b ∈ Tie.bytesOf s, b < 256 := by
    intro b hb
    simp only [Tie.bytesOf, List.mem_map] at hb
    obtain ⟨c, _, rfl⟩ := hb
    exact c.isLt
  obtain ⟨out, ho, _, hlen, hlow⟩ := c15_hex_lower (Tie.bytesOf s) hb
  rw [hr] at ho
  injection ho with ho
  subst ho
  refine ⟨_, hg, by simpa [Tie.bytesOf] using hlen, ?_⟩
  intro c hc
  simp only [List.mem_map] at hc
  obtain ⟨v, hv, rfl⟩ := hc
  have hl := hlow v hv
  have hv256 : v < 256 := by
    unfold isLowerHex at hl
    simp only [Bool.or_eq_true, Bool.and_eq_true, decide_eq_true_eq] at hl
    omega
  simpa [Nat.mod_eq_of_lt hv256] using hl

/-- Non-vacuity: `HexEncode("\x00\xab\xff") = "00abff"`; `hexEncode` into a longer buffer keeps its tail. -/
example : Golib.Gen.Trans.C15.HexEncode [0#8, 171#8, 255#8] = .ok [48#8, 48#8, 97#8, 98#8, 102#8, 102#8] ∧
    Golib.Gen.Trans.C15.hexEncode [1#8, 2#8, 3#8] [171#8] = .ok (2, [97#8, 98#8, 3#8]) ∧
    Golib.Gen.Trans.C15.hexEncode [1#8] [171#8] = .panic := by
  refine ⟨?_, ?_, ?_⟩ <;> decide +kernel

/-- TIE: the translated `hexDecode(dst, src)` (generic: one translation; `dst` in-out; `error` as the
class `GoSem.Err`: nil / the `fmt.Errorf` format with the offending byte / `hex.ErrLength`) for EVERY
`src` and every `dst` with room (`len(src)/2 ≤ len(dst)`): it returns `Tie.decRes src dst` — count,
error class and final buffer of the pair loop `Tie.decF` — and `Tie.model_dec` shows that loop IS the
model's `hexDecodeLoop` on the byte lists (`some`, i.e. no panic).  Error precedence (invalid byte
before odd length) is part of the statement. -/
theorem c15_trans_hexDecode (dst src : List (BitVec 8)) (h : src.length / 2 ≤ dst.length) :
    Golib.Gen.Trans.C15.hexDecode dst src = .ok (Tie.decRes src dst) ∧
    hexDecodeLoop (Tie.bytesOf src) (Tie.bytesOf dst) 0 = some (Tie.modelOf (Tie.decF src dst 0)) :=
  ⟨Tie.trans_hexDecode_eq dst src h, Tie.model_dec src dst 0 (by omega)⟩

/-- TIE: the translated `HexDecode` (`make`, `hexDecode`, `dst[:n]`) equals the model's `hexDecode?` —
the definition `c15_hex_decode_encode`, `c15_hex_error_precedence`, `c15_hex_decode_valid` and
`c15_hex_decode_total` are about — on EVERY string: the model answers `some (out, e)` and the code
returns `out` with the error class of `e`; neither the writes nor `dst[:n]` can panic. -/
theorem c15_trans_HexDecode (s : List (BitVec 8)) :
    ∃ out e, hexDecode? (Tie.bytesOf s) = some (Tie.bytesOf out, e) ∧
      Golib.Gen.Trans.C15.HexDecode s = .ok (out, Tie.errOf e) :=
  Tie.trans_HexDecode_eq s

/-- Non-vacuity: `"00Abf"` decodes two bytes then reports the odd length; `"0g1"` reports `g` first. -/
example : Golib.Gen.Trans.C15.HexDecode [48#8, 48#8, 65#8, 98#8, 102#8]
      = .ok ([0#8, 171#8], GoSem.Err.mk "encoding/hex.ErrLength" []) ∧
    Golib.Gen.Trans.C15.HexDecode [48#8, 103#8, 49#8]
      = .ok ([], GoSem.Err.mk "encoding/hex: invalid byte: %#U" [103]) ∧
    Golib.Gen.Trans.C15.HexDecode [102#8, 70#8] = .ok ([255#8], GoSem.Err.nil) := by
  refine ⟨?_, ?_, ?_⟩ <;> decide +kernel
-- END wave-8 tie block (trans-strconv)

end Golib.C15
