/-
C17 — rune-aware string helpers of `strz/strs.go`.  ONLY property theorems and
non-vacuity examples live here; helper lemmas are in `Golib/Proof/C17*.lean`.

Conventions: a string is its byte list; `encode rs` is `string(rs)` for a rune list `rs`;
"valid UTF-8 string" = `encode rs` with every rune of `rs` a valid scalar value
(`validRune`: not a surrogate, ≤ U+10FFFF).  `none` = the Go code panics (or the model's
loop fuel ran out, which `c17_no_panic` excludes as well).
The models of `SubByDisplay` and `Mask` are the repaired code (F9, F15: see
`Golib/Findings/C17.lean`).
-/
import Golib.Proof.C17Loops
import Golib.Proof.C17Spec
import Golib.Proof.C17Rev
import Golib.Proof.C17Mask
import Golib.Proof.C17Case
import Golib.Proof.C17Utf8Valid
import Golib.Findings.C17
import Golib.Proof.C17Int64
import Golib.Model.C17Large
import Golib.Proof.C17CaseB
import Golib.Proof.C17Fast
import Golib.Proof.C17Trans

namespace Golib.C17
open Golib.Utf8

/-- The quantifier of the theorems below: a byte string is valid UTF-8 (`utf8.Valid`)
exactly when it is `encode rs` for a list `rs` of valid scalar values (and then
`rs = []rune(s)`).  So "for all `rs` with `validRune`" = "for every valid UTF-8 string". -/
theorem c17_valid_iff_encode (s : List Nat) :
    valid s = true ↔ ∃ rs : List Int, (∀ r ∈ rs, validRune r = true) ∧ s = encode rs := by
  constructor
  · intro h
    exact ⟨runes s, (valid_eq_encode s h).1, (valid_eq_encode s h).2.symm⟩
  · rintro ⟨rs, hv, rfl⟩
    exact valid_encode rs hv

/-- Non-vacuity: strings with 1-, 2-, 3- and 4-byte runes are valid; a truncated 3-byte
sequence and a lone `0xff` are not. -/
example : valid (encode [0x61, 0xe9, 0x4f60, 0x1f600]) = true ∧ valid [0xe4, 0xbd] = false ∧
    valid [0x61, 0xff] = false := by decide

/-- No function panics (and no model loop runs out of fuel) on ANY byte string — valid
UTF-8 or not — and for all integer arguments (the property asks for the non-negative ones;
`Mask`/`Sub`/`SubByDisplay` are in fact total on negative ones too, `Go int` unbounded). -/
theorem c17_no_panic (s m : List Nat) (a b : Int) (p : Int → Bool) (fu : Bool) :
    sub s a b ≠ none ∧ mask s m a b ≠ none ∧ subByDisplay s a ≠ none ∧ rev s ≠ none ∧
    removeRunes s p ≠ none ∧ ucFirst s ≠ none ∧ lcFirst s ≠ none ∧
    snakeToCamel s fu ≠ none ∧ camelToSnake s ≠ none ∧
    ((snakeToCamel s fu).bind camelToSnake) ≠ none := by
  have e : ∀ {o : Option (List Nat)}, (∃ r, o = some r) → o ≠ none := by
    rintro _ ⟨r, rfl⟩; simp
  refine ⟨e (sub_some s a b), e (mask_some s m a b), e (subByDisplay_some s a), e (rev_some s),
    e (removeRunes_some s p), e (ucFirst_some s), e (lcFirst_some s), e (snakeToCamel_some s fu),
    e (camelToSnake_some s), ?_⟩
  obtain ⟨r, hr⟩ := snakeToCamel_some s fu
  rw [hr]; exact e (camelToSnake_some r)

/-- Non-vacuity: the F9 witness string (five invalid bytes) is covered, with its result. -/
example : subByDisplay [0xff, 0xff, 0xff, 0xff, 0xff] 4 = some [0xff, 0xff] := by decide

/-- `Len` counts runes. -/
theorem c17_len (rs : List Int) (hv : ∀ r ∈ rs, validRune r = true) :
    len (encode rs) = rs.length :=
  runeCount_encode rs hv

example : len (encode [0x61, 0xe9, 0x4f60, 0x1f600]) = 4 := by decide

/-- `Sub(s, start, length)` is the string of runes `[start, start+length)` of `s`
(to the end for `length = -1`), for every valid UTF-8 `s` and all `start ≥ 0`,
`length ≥ -1`, including arguments beyond the rune count. -/
theorem c17_sub (rs : List Int) (hv : ∀ r ∈ rs, validRune r = true) (start : Nat) :
    (∀ length : Nat, sub (encode rs) start length = some (encode ((rs.drop start).take length))) ∧
    sub (encode rs) start (-1) = some (encode (rs.drop start)) := by
  constructor
  · intro length
    unfold sub
    by_cases hnil : encode rs = []
    · have := encode_eq_nil rs hnil
      subst this
      simp [encode_nil]
    · rw [if_neg (by simp only [hnil, or_false]; omega)]
      by_cases h0 : length = 0
      · subst h0; simp [encode_nil]
      · rw [if_neg (by omega)]
        have := subLoop_phase1 start length (by omega) rs hv [] 0 ((encode rs).length + 1) (by omega) (by omega)
        simpa using this
  · unfold sub
    by_cases hnil : encode rs = []
    · have := encode_eq_nil rs hnil
      subst this
      simp [encode_nil]
    · rw [if_neg (by simp only [hnil, or_false]; omega), if_neg (by omega)]
      have := subLoop_toEnd start rs hv [] 0 ((encode rs).length + 1) (by omega) (by omega)
      simpa using this

/-- Non-vacuity: a cut between a 3-byte and a 4-byte rune, and a length beyond the end. -/
example : sub (encode [0x61, 0xe9, 0x4f60, 0x1f600, 0x42]) 1 2 = some (encode [0xe9, 0x4f60]) := by decide
example : sub (encode [0x61, 0xe9, 0x4f60, 0x1f600, 0x42]) 3 9 = some (encode [0x1f600, 0x42]) := by decide

/-- `Mask(s, mask, start, end)` keeps exactly the first `start` and the last `end` runes and
replaces the `ml = len − start − end` runes in between: one copy of the mask per replaced
rune when the mask is a single rune, the mask once otherwise; nothing changes when
`ml ≤ 0`.  (`maskRunes ms ml = if ms.length = 1 then ms repeated ml times else ms`.) -/
theorem c17_mask (rs ms : List Int) (hv : ∀ r ∈ rs, validRune r = true)
    (hm : ∀ r ∈ ms, validRune r = true) (start end_ : Nat) :
    mask (encode rs) (encode ms) start end_ =
      some (if rs.length ≤ start + end_ then encode rs
            else encode (rs.take start ++ maskRunes ms (rs.length - start - end_)
                          ++ rs.drop (rs.length - end_))) :=
  mask_encode rs ms hv hm start end_

/-- `Mask` with Go's 64-bit `int`: the repaired code never wraps around.  For every string
(shorter than 2^63 bytes, as every Go string is) and ALL non-negative `int` arguments — up
to `MaxInt64`, far beyond the rune count — evaluating every `int` operation of `Mask` with
two's-complement wrap-around (`Findings.mask64`) gives exactly the unbounded-integer model
`mask` that `c17_mask`, `c17_no_panic` and `c17_results_valid` are about.  (False of the
pre-fix code, finding F15: `Findings.f15_old_mask_panics`, `Findings.f15_old_mask_wrong`.)
`SubByDisplay` performs no arithmetic on its argument (only `len(s) <= length` and
`dpl > length`); for `Sub` see `c17_sub_int64_exact`. -/
theorem c17_mask_int64_exact (str msk : List Nat) (start end_ : Int)
    (hl : (str.length : Int) ≤ Findings.maxInt64)
    (hs : 0 ≤ start ∧ start ≤ Findings.maxInt64) (he : 0 ≤ end_ ∧ end_ ≤ Findings.maxInt64) :
    Findings.mask64 str msk start end_ = mask str msk start end_ :=
  Findings.mask64_eq_mask str msk start end_ hl hs he

/-- `Sub` with Go's 64-bit `int`: its only arithmetic on the arguments is the sum in
`start+length == count`.  Evaluated with two's-complement wrap-around (`sub64`) the function
is the same as the unbounded-integer model `sub` for ALL `0 ≤ start ≤ MaxInt64` and
`-1 ≤ length ≤ MaxInt64` (an overflowed sum is negative, the exact one ≥ 2^63, and
`0 ≤ count ≤ len(s)` equals neither). -/
theorem c17_sub_int64_exact (s : List Nat) (start length : Int)
    (hlen : (s.length : Int) ≤ Findings.maxInt64)
    (hs : 0 ≤ start ∧ start ≤ Findings.maxInt64)
    (hl : -1 ≤ length ∧ length ≤ Findings.maxInt64) :
    sub64 s start length = sub s start length :=
  sub64_eq_sub s start length hlen hs hl

/-- Non-vacuity: a sum that overflows (`Sub("abc", 2, MaxInt64)` = `"c"`). -/
example : sub64 [97, 98, 99] 2 Findings.maxInt64 = some [99] ∧
    Findings.wrap64 (2 + Findings.maxInt64) < 0 := by decide

/-- Non-vacuity: the F15 witnesses `Mask("abc","*",MaxInt64,5)`, `Mask("abc","*",MaxInt64,MaxInt64)`. -/
example : mask [97, 98, 99] [42] Findings.maxInt64 5 = some [97, 98, 99] ∧
    Findings.mask64 [97, 98, 99] [42] Findings.maxInt64 Findings.maxInt64 = some [97, 98, 99] := by decide

/-- Non-vacuity: mask boundaries next to multi-byte runes; single- and multi-rune masks. -/
example : mask (encode [0x61, 0xe9, 0x4f60, 0x1f600, 0x42]) (encode [0x2a]) 1 1
    = some (encode [0x61, 0x2a, 0x2a, 0x2a, 0x42]) := by decide
example : mask (encode [0x61, 0xe9, 0x4f60, 0x1f600, 0x42]) (encode [0x4f60, 0x23]) 2 0
    = some (encode [0x61, 0xe9, 0x4f60, 0x23]) := by decide

/-- `SubByDisplay(s, limit)` is the longest rune prefix of `s` whose display width
(1 per ASCII rune, 2 per other rune) does not exceed `limit`. -/
theorem c17_subByDisplay_longest_prefix (rs : List Int) (hv : ∀ r ∈ rs, validRune r = true)
    (limit : Nat) :
    ∃ k, k ≤ rs.length ∧ subByDisplay (encode rs) limit = some (encode (rs.take k)) ∧
      width (rs.take k) ≤ limit ∧
      ∀ j, j ≤ rs.length → width (rs.take j) ≤ limit → j ≤ k := by
  unfold subByDisplay
  by_cases hle : ((encode rs).length : Int) ≤ limit
  · rw [if_pos hle]
    refine ⟨rs.length, Nat.le_refl _, by simp, ?_, fun j hj _ => hj⟩
    have := width_le_encode_length rs hv
    simp only [List.take_length]; omega
  · rw [if_neg hle, rangeDecode_encode rs hv]
    have hl := subByDisplayLoop_encode limit rs [] 0
    simp only [List.nil_append, List.length_nil] at hl
    obtain ⟨h1, h2, h3⟩ := fit_spec limit rs 0
    refine ⟨fit limit 0 rs, h1, hl, ?_, ?_⟩
    · have := h2 (by omega); omega
    · intro j hj hw; exact h3 j hj (by omega)

/-- Non-vacuity: a limit that falls in the middle of a wide rune. -/
example : subByDisplay (encode [0x61, 0x4f60, 0x1f600, 0x42]) 4 = some (encode [0x61, 0x4f60]) := by decide

/-- `Rev` reverses the rune order. -/
theorem c17_rev (rs : List Int) (hv : ∀ r ∈ rs, validRune r = true) :
    rev (encode rs) = some (encode rs.reverse) :=
  rev_encode rs hv

example : rev (encode [0x61, 0xe9, 0x4f60, 0x1f600]) = some (encode [0x1f600, 0x4f60, 0xe9, 0x61]) := by decide

/-- `RemoveRunes` deletes exactly the runes selected by the predicate. -/
theorem c17_removeRunes (rs : List Int) (hv : ∀ r ∈ rs, validRune r = true) (p : Int → Bool) :
    removeRunes (encode rs) p = some (encode (rs.filter fun r => !p r)) :=
  removeRunes_encode rs hv p

example : removeRunes (encode [0x61, 0x4f60, 0x62, 0x4f60]) (fun r => r == 0x4f60)
    = some (encode [0x61, 0x62]) := by decide

/-- The results are again valid UTF-8 (for a valid subject, and a valid mask for `Mask`). -/
theorem c17_results_valid (rs ms : List Int) (hv : ∀ r ∈ rs, validRune r = true)
    (hm : ∀ r ∈ ms, validRune r = true) (a b : Nat) (p : Int → Bool) :
    (∀ o, sub (encode rs) a b = some o → valid o = true) ∧
    (∀ o, sub (encode rs) a (-1) = some o → valid o = true) ∧
    (∀ o, mask (encode rs) (encode ms) a b = some o → valid o = true) ∧
    (∀ o, subByDisplay (encode rs) a = some o → valid o = true) ∧
    (∀ o, rev (encode rs) = some o → valid o = true) ∧
    (∀ o, removeRunes (encode rs) p = some o → valid o = true) := by
  have sub_v : ∀ l : List Int, (∀ r ∈ l, r ∈ rs) → valid (encode l) = true :=
    fun l hl => valid_encode l (fun r hr => hv r (hl r hr))
  refine ⟨?_, ?_, ?_, ?_, ?_, ?_⟩
  · intro o ho
    rw [(c17_sub rs hv a).1 b] at ho
    cases ho
    exact sub_v _ (fun r hr => List.mem_of_mem_drop (List.mem_of_mem_take hr))
  · intro o ho
    rw [(c17_sub rs hv a).2] at ho
    cases ho
    exact sub_v _ (fun r hr => List.mem_of_mem_drop hr)
  · intro o ho
    rw [c17_mask rs ms hv hm a b] at ho
    cases ho
    split
    · exact valid_encode rs hv
    · apply valid_encode
      intro r hr
      rcases List.mem_append.mp hr with hr | hr
      · rcases List.mem_append.mp hr with hr | hr
        · exact hv r (List.mem_of_mem_take hr)
        · apply hm r
          unfold maskRunes at hr
          split at hr
          · obtain ⟨l, hl, hrl⟩ := List.mem_flatten.mp hr
            rw [(List.mem_replicate.mp hl).2] at hrl; exact hrl
          · exact hr
      · exact hv r (List.mem_of_mem_drop hr)
  · intro o ho
    obtain ⟨k, _, hk, _⟩ := c17_subByDisplay_longest_prefix rs hv a
    rw [hk] at ho
    cases ho
    exact sub_v _ (fun r hr => List.mem_of_mem_take hr)
  · intro o ho
    rw [c17_rev rs hv] at ho
    cases ho
    exact sub_v _ (fun r hr => List.mem_reverse.mp hr)
  · intro o ho
    rw [c17_removeRunes rs hv p] at ho
    cases ho
    exact sub_v _ (fun r hr => (List.mem_filter.mp hr).1)

/-- `UcFirst` / `LcFirst` re-case exactly a leading ASCII letter and leave every other
string (empty, or starting with any other rune — multi-byte ones included) unchanged, so
their results are valid UTF-8 as well.  (Not spelled out in the property text; proved
because both functions are among the observed ones.) -/
theorem c17_ucfirst_lcfirst (r : Int) (rs : List Int) (hr : validRune r = true) :
    ucFirst (encode (r :: rs)) = some (encode ((if 97 ≤ r ∧ r ≤ 122 then r - 32 else r) :: rs)) ∧
    lcFirst (encode (r :: rs)) = some (encode ((if 65 ≤ r ∧ r ≤ 90 then r + 32 else r) :: rs)) ∧
    ucFirst [] = some [] ∧ lcFirst [] = some [] :=
  ⟨ucFirst_encode r rs hr, lcFirst_encode r rs hr, rfl, rfl⟩

example : ucFirst (encode [0x7a, 0x4f60]) = some (encode [0x5a, 0x4f60]) := by decide
example : ucFirst (encode [0xe9, 0x61]) = some (encode [0xe9, 0x61]) := by decide

/-- `CamelCaseToSnake(SnakeToCamelCase(x, firstUp)) = x` for every lower-case snake_case
identifier `x ∈ [a-z][a-z0-9]*(_[a-z][a-z0-9]*)*` (`isSnakeIdent`, a two-state automaton on
bytes) and both values of `firstUp`.  The grammar is the largest one for which the
statement is true: see the counter-examples below. -/
theorem c17_snake_camel_roundtrip (x : List Nat) (firstUp : Bool) (h : isSnakeIdent x = true) :
    (snakeToCamel x firstUp).bind camelToSnake = some x :=
  roundtrip_ident x firstUp h

/-- What the two case converters compute on ASCII input (every ASCII string, not only the
grammar): `SnakeToCamelCase` drops each `_` that is not at byte 0 and upper-cases the byte
after it if it is a lower-case letter (and the first byte when `firstUp`); `CamelCaseToSnake`
lower-cases each capital and puts `_` before it unless it is at byte 0.  (`snakeSpec`,
`camelSpec`: structural recursions on the byte list, `Golib/Proof/C17Case.lean`.)  On
non-ASCII input the two functions are covered by `c17_no_panic` and the differential check
only. -/
theorem c17_snake_camel_ascii (x : List Nat) (firstUp : Bool) (h : ∀ b ∈ x, b < 0x80) :
    snakeToCamel x firstUp = some (snakeSpec x firstUp false) ∧
    camelToSnake x = some (camelSpec x false) :=
  ⟨snakeToCamel_ascii x firstUp h, camelToSnake_ascii x h⟩

/-- Non-vacuity: `__a_1_b` ↦ `_A1B` (the leading `_` stays, the others go, only letters are re-cased); `AbCD` ↦ `ab_c_d`. -/
example : snakeSpec [95, 95, 97, 95, 49, 95, 98] true false = [95, 65, 49, 66] ∧
    camelSpec [65, 98, 67, 68] false = [97, 98, 95, 99, 95, 100] := by decide

/-- `SnakeToCamelCase` on ARBITRARY byte strings (valid UTF-8 or not): the cursor model equals
the byte-level specification `snakeB` (Model/C17Large.lean) — bytes `< 0x80` follow the ASCII
rules of `c17_snake_camel_ascii`; at any other byte the function skips
`utf8.DecodeRuneInString`'s size (1 for an invalid byte), copies those bytes verbatim and
clears `firstUp`. -/
theorem c17_snake_spec (x : List Nat) (firstUp : Bool) :
    snakeToCamel x firstUp = some (snakeB x.length x firstUp false) :=
  snakeToCamel_bytes x firstUp

/-- `CamelCaseToSnake` on arbitrary byte strings: ASCII capitals are lower-cased and preceded by
`_` (except at byte 0); every non-ASCII sequence is copied verbatim. -/
theorem c17_camel_spec (x : List Nat) : camelToSnake x = some (camelB x.length x false) :=
  camelToSnake_bytes x

/-- What that means on valid UTF-8 (`encode rs`): a non-ASCII rune — letter of either case,
digit of another script, symbol — is never changed and never re-cased, and after it (as after
any byte that is not `_`) nothing is upper-cased; ASCII digits and capitals are copied. -/
theorem c17_snake_camel_nonascii (r : Int) (hr : validRune r = true) (h80 : 0x80 ≤ r)
    (rest : List Nat) (n : Nat) (hn : (encodeRune r ++ rest).length ≤ n) (fu pos : Bool) :
    snakeB n (encodeRune r ++ rest) fu pos = encodeRune r ++ snakeB (n - 1) rest false true ∧
    camelB n (encodeRune r ++ rest) pos = encodeRune r ++ camelB (n - 1) rest true := by
  obtain ⟨b, t, hbt, h1, h2⟩ := encodeRune_head r hr
  have hb : ¬ b < 0x80 := by
    intro hb
    have := (h1 hb).2
    omega
  have hdec := decodeRune_encodeRune r rest hr
  rw [hbt] at hdec hn ⊢
  obtain ⟨m, rfl⟩ : ∃ m, n = m + 1 := ⟨n - 1, by simp at hn; omega⟩
  simp only [List.cons_append] at hdec hn ⊢
  have htk : (b :: (t ++ rest)).take (t.length + 1) = b :: t := by simp
  have hdr : (b :: (t ++ rest)).drop (t.length + 1) = rest := by simp
  have hl : (b :: t).length = t.length + 1 := rfl
  constructor
  · rw [snakeB]; simp only [hb, if_false, hdec, hl, htk, hdr]; simp
  · rw [camelB]; simp only [hb, if_false, hdec, hl, htk, hdr]; simp

/-- The linear-time evaluators of the LARGE and HISTORY streams (`Golib/Model/C17Large.lean`)
compute exactly what the cursor models compute, for EVERY byte string — valid UTF-8 or not —
every mask and every integer argument.  `subF`/`maskF` are the cursor loops with the remaining
suffix threaded through (O(1) per step); `revF s = string(reverse([]rune(s)))`; `removeF` =
bytes before the first selected rune verbatim, the remaining unselected runes re-encoded. -/
theorem c17_large_eq_model (s m : List Nat) (a b : Int) (p : Int → Bool) :
    sub s a b = subF s a b ∧ mask s m a b = maskF s m a b ∧
    rev s = some (revF s) ∧ removeRunes s p = some (removeF s p) :=
  ⟨(subF_eq s a b).symm, (maskF_eq s m a b).symm, rev_all s, removeRunes_all s p⟩

/-- Non-vacuity: invalid subjects — `Rev("a\\xffb")`; `RemoveRunes("\\xffab\\xff", b)` keeps the
first invalid byte verbatim and re-encodes the second; `SnakeToCamelCase("a_é_b", false)` =
`aéB` (the `_` before `b` upper-cases it), `SnakeToCamelCase("a_éb", false)` = `aéb` (after `_é`
nothing is upper-cased). -/
example : revF [97, 255, 98] = [98, 239, 191, 189, 97] ∧
    removeF [255, 97, 98, 255] (fun r => r == 98) = [255, 97, 239, 191, 189] ∧
    snakeB 7 [97, 95, 195, 169, 95, 98] false false = [97, 195, 169, 66] ∧
    snakeB 5 [97, 95, 195, 169, 98] false false = [97, 195, 169, 98] := by decide

/-- Non-vacuity: `foo_bar1` is in the grammar; `FooBar1` / `fooBar1` are the intermediate values. -/
example : isSnakeIdent [102, 111, 111, 95, 98, 97, 114, 49] = true := by decide
example : snakeToCamel [102, 111, 111, 95, 98, 97, 114, 49] true = some [70, 111, 111, 66, 97, 114, 49] := by decide
example : snakeToCamel [102, 111, 111, 95, 98, 97, 114, 49] false = some [102, 111, 111, 66, 97, 114, 49] := by decide
/-- `foo__bar`, `foo_`, `foo_1` are outside the grammar and are genuine counter-examples of
the round trip (so the hypothesis cannot be weakened to "lower-case letters, digits, `_`"). -/
example : isSnakeIdent [102, 111, 111, 95, 95, 98, 97, 114] = false ∧
    (snakeToCamel [102, 111, 111, 95, 95, 98, 97, 114] false).bind camelToSnake
      ≠ some [102, 111, 111, 95, 95, 98, 97, 114] := by decide
example : isSnakeIdent [102, 111, 111, 95] = false ∧
    (snakeToCamel [102, 111, 111, 95] false).bind camelToSnake ≠ some [102, 111, 111, 95] := by decide
example : isSnakeIdent [102, 111, 111, 95, 49] = false ∧
    (snakeToCamel [102, 111, 111, 95, 49] false).bind camelToSnake ≠ some [102, 111, 111, 95, 49] := by decide

/-! ### The regenerated tie (`go2lean`, wave 9): `Golib/Gen/TransC17.lean` is translated from
`strz/strs.go` on every run; `unicode/utf8` and the rune conversions of the translation are the
functions of `Golib.Utf8` (through `GoSem`), strings are `List (BitVec 8)`, abstraction
`GoSem.strNat = List.map BitVec.toNat` (inverse `GoSem.natStr`). -/

/-- TIE: the translated `Len` is the model `len` (the rune count of `Golib.Utf8`) on EVERY byte string. -/
theorem c17_trans_Len (s : List (BitVec 8)) :
    Golib.Gen.Trans.C17.Len s = .ok ((len (Golib.GoSem.strNat s) : Nat) : Int) :=
  Tie.trans_Len s

/-- Non-vacuity: `aé你😀` has 4 runes, five invalid bytes count 5. -/
example : Golib.Gen.Trans.C17.Len [0x61#8, 0xc3#8, 0xa9#8, 0xe4#8, 0xbd#8, 0xa0#8, 0xf0#8, 0x9f#8, 0x98#8, 0x80#8] = .ok 4 ∧
    Golib.Gen.Trans.C17.Len [0xff#8, 0xff#8, 0xff#8, 0xff#8, 0xff#8] = .ok 5 := by
  constructor <;> decide +kernel

/-- TIE: for EVERY byte string (valid UTF-8 or not) and ALL integers `start`, `length`, the translated
`Sub` neither panics nor runs out of fuel, the model `sub` does not panic, and the two return the
same bytes.  (`c17_sub` … are about `sub`; `c17_sub_int64_exact` carries the unbounded `Int` of both
sides to Go's 64-bit `int`.) -/
theorem c17_trans_Sub (s : List (BitVec 8)) (start length : Int) :
    ∃ r, sub (Golib.GoSem.strNat s) start length = some r ∧
      Golib.Gen.Trans.C17.Sub s start length = .ok (Golib.GoSem.natStr r) :=
  Tie.trans_Sub s start length

/-- Non-vacuity: `Sub("aé你😀B", 1, 2) = "é你"`, `Sub(…, 3, -1) = "😀B"`, past the end `""`. -/
example : Golib.Gen.Trans.C17.Sub [0x61#8, 0xc3#8, 0xa9#8, 0xe4#8, 0xbd#8, 0xa0#8, 0xf0#8, 0x9f#8, 0x98#8, 0x80#8, 0x42#8] 1 2
      = .ok [0xc3#8, 0xa9#8, 0xe4#8, 0xbd#8, 0xa0#8] ∧
    Golib.Gen.Trans.C17.Sub [0x61#8, 0xc3#8, 0xa9#8, 0xe4#8, 0xbd#8, 0xa0#8, 0xf0#8, 0x9f#8, 0x98#8, 0x80#8, 0x42#8] 3 (-1)
      = .ok [0xf0#8, 0x9f#8, 0x98#8, 0x80#8, 0x42#8] ∧
    Golib.Gen.Trans.C17.Sub [0x61#8, 0xff#8] 7 1 = .ok [] := by
  refine ⟨?_, ?_, ?_⟩ <;> decide +kernel

/-- The property clause directly on the generated definition: `Sub` never panics. -/
theorem c17_trans_Sub_total (s : List (BitVec 8)) (start length : Int) :
    ∃ r, Golib.Gen.Trans.C17.Sub s start length = .ok r := by
  obtain ⟨r, _, h⟩ := c17_trans_Sub s start length
  exact ⟨_, h⟩

end Golib.C17
