/-
C07 — Backslash escape codecs (`strz/enc.go`, `parseUint`) round-trip and parse any
input safely.  ONLY property theorems and non-vacuity examples live here; helper lemmas
are in `Golib/Proof/C07*.lean`, `Golib/Proof/Utf8.lean`.

Model (`Golib/Model/C07Enc.lean`): `octalBody/hexBody/unicodeBody/utf16Body` are the Go loop
bodies with cursors `e f i` over `dst`/`src` (every index access checked: a panic is
`none`); `parse body dst src` is `XxxParse(dst, src)` (result `(n, dst afterwards)`),
`parseToString body s` is `XxxParseToString(s)`.  `parseFun dec` is the functional layer.
Bytes are `Nat`s; `IsBytes s` says every element is < 256.
-/
import Golib.Proof.C07Round
import Golib.Proof.C07Literal
import Golib.Proof.C07Utf16
import Golib.Proof.C07Embedded
import Golib.Proof.C07Shape
import Golib.Proof.C07Multi
import Golib.Proof.C07Fast
import Golib.Proof.C07InPlace
import Golib.Proof.C07FormatBuf
import Golib.Proof.C07Trans
import Golib.Proof.C07TransParse
import Golib.Proof.C07TransParseU
import Golib.Proof.C07TransParseV

namespace Golib.C07

/-- The cursor program computes the functional parser: for every codec, every `src` and every
`dst` with `len(dst) ≥ len(src)`, `XxxParse(dst, src)` returns `n` with `dst[:n] = parseFun src`
and leaves `len(dst)` unchanged; and `XxxParseToString(src) = parseFun src`. -/
theorem c07_cursor_eq_fun (c : Codec) (dst src : Bytes) (h : src.length ≤ dst.length) :
    (∃ n dst', parse c.body dst src = .ok (n, dst') ∧ dst'.length = dst.length ∧
      dst'.take n = parseFun c.dec src) ∧
    parseToString c.body src = .ok (parseFun c.dec src) := by
  obtain ⟨e, dst', hp, hl, -, ht⟩ := run_spec (body := c.body) h (c.bodySpec src _)
  exact ⟨⟨e, dst', hp, hl, ht⟩, parseToString_eq c.bodySpec src⟩

/-- The linear-time evaluator that the oracle uses for the LARGE stream (inputs above 4 KB:
`parseFast` with the O(1)-length-test decision functions `…DecQ`, Model/C07Fast.lean) computes
exactly what the cursor model computes: `XxxParseToString(src)`, and for every `dst` at least
as long as `src` the count `n` and the prefix `dst[:n]` returned by `XxxParse(dst, src)`. -/
theorem c07_fast_eq_model (src : Bytes) :
    parseToString octalBody src = .ok (parseFast octalDecQ src) ∧
    parseToString hexBody src = .ok (parseFast hexDecQ src) ∧
    parseToString unicodeBody src = .ok (parseFast unicodeDecQ src) ∧
    parseToString utf16Body src = .ok (parseFast utf16DecQ src) ∧
    ∀ (c : Codec) (dst : Bytes), src.length ≤ dst.length →
      ∃ n dst', parse c.body dst src = .ok (n, dst') ∧ dst'.take n = parseFun c.dec src ∧
        n = (parseFun c.dec src).length := by
  refine ⟨?_, ?_, ?_, ?_, fun c dst h => ?_⟩
  · rw [octalDecQ_eq, parseFast_eq]; exact parseToString_eq octal_bodySpec src
  · rw [hexDecQ_eq, parseFast_eq]; exact parseToString_eq hex_bodySpec src
  · rw [unicodeDecQ_eq, parseFast_eq]; exact parseToString_eq unicode_bodySpec src
  · rw [utf16DecQ_eq, parseFast_eq]; exact parseToString_eq utf16_bodySpec src
  · obtain ⟨e, dst', hp, hl, he, ht⟩ := run_spec (body := c.body) h (c.bodySpec src _)
    refine ⟨e, dst', hp, ht, ?_⟩
    rw [← ht, List.length_take]; omega

/-- … and the tail-recursive formatters used for inputs whose output is several MiB
(`unicodeFormatFast`, `utf16FormatFast`) are the value-level formatters. -/
theorem c07_format_fast_eq (s : Bytes) :
    unicodeFormatFast s = unicodeFormat s ∧ utf16FormatFast s = utf16Format s :=
  formatFast_eq s

/-- Non-vacuity: the fast evaluator on a pair followed by a truncated escape. -/
example : parseFast utf16DecQ [92, 117, 68, 56, 51, 68, 92, 117, 68, 69, 48, 48, 92, 117, 48] =
    [240, 159, 152, 128, 92, 117, 48] := by decide

/-- Parsing IN PLACE yields the same bytes as parsing into a fresh buffer.  `runIP dec k mem`
(Model/C07InPlace.lean) is the parser on ONE memory: `dst = mem[0:]`, `src = mem[k:]` — `k = 0`
is `XxxParse(b, b)` as in the library's own `TestOctalParse`, `k > 0` a destination that starts
`k` bytes before the source in the same array — with the Go cursors `e f i` and, per
iteration, the memory operations of the loop body in their order (memmove of the pending
literal run, then the decoded bytes).  For every codec, every `src`, every content `pad` of the
`k` bytes in front: the machine returns `(n, dst[:n])` with `dst[:n] = XxxParseToString(src)`
`= ` the prefix returned by `XxxParse(dst', src)` for any separate `dst'` with
`len(dst') ≥ len(src)`.  (The invariant is `e ≤ k + f`, `f ≤ i`: the write cursor never
reaches an unread source byte.) -/
theorem c07_inplace_eq (c : Codec) (pad src : Bytes) :
    ∃ out, parseToString c.body src = .ok out ∧
      runIP c.dec pad.length (pad ++ src) = (out.length, out) ∧
      ∀ dst : Bytes, src.length ≤ dst.length →
        ∃ n dst', parse c.body dst src = .ok (n, dst') ∧ dst'.take n = out ∧ n = out.length := by
  refine ⟨parseFun c.dec src, parseToString_eq c.bodySpec src,
    runIP_eq (decOk_of_bodySpec c.bodySpec) pad src, fun dst h => ?_⟩
  obtain ⟨e, dst', hp, hl, he, ht⟩ := run_spec (body := c.body) h (c.bodySpec src _)
  refine ⟨e, dst', hp, ht, ?_⟩
  rw [← ht, List.length_take]; omega

/-- EARLY MOVES are harmless: `runIPe early` is the one-memory machine that, at the start of any
iteration picked by an ARBITRARY oracle `early`, first moves the pending literal run down and
sets `f = i` — which is what `Utf16Parse` does after its first `\\uXXXX` has parsed and before
it knows whether a high surrogate is followed by a low one (`enc.go:335-338`), the one place
where the Go loop bodies write before an escape is accepted.  For every `early`, codec, `src`
and content in front, the returned bytes are those of `c07_inplace_eq`: such a move changes no
byte that is read later (`moveIP_spec`: memory from the read cursor on is untouched). -/
theorem c07_inplace_early_move (early : IP → Bool) (c : Codec) (pad src : Bytes) :
    ∃ out, parseToString c.body src = .ok out ∧
      runIPe early c.dec pad.length (pad ++ src) = (out.length, out) :=
  ⟨parseFun c.dec src, parseToString_eq c.bodySpec src,
    runIPe_eq early (decOk_of_bodySpec c.bodySpec) pad src⟩

/-- Non-vacuity: an unpaired high surrogate between text, early move at every iteration. -/
example : runIPe (fun _ => true) utf16DecF 0
    [97, 98, 92, 117, 68, 56, 51, 68, 120, 92, 117, 48, 48, 52, 49] =
    (10, [97, 98, 92, 117, 68, 56, 51, 68, 120, 65]) := by decide

/-- Non-vacuity: `\x41hello\x42` in place is `AhelloB` (7 bytes), also with 3 bytes in front. -/
example : runIP hexDec 0 [92, 120, 52, 49, 104, 101, 108, 108, 111, 92, 120, 52, 50] =
    (7, [65, 104, 101, 108, 108, 111, 66]) := by decide
example : runIP hexDec 3 ([1, 2, 3] ++ [92, 120, 52, 49, 104, 101, 108, 108, 111, 92, 120, 52, 50]) =
    (7, [65, 104, 101, 108, 108, 111, 66]) := by decide

/-- No Parse function panics, for any input whatsoever (`[]byte` form with a destination at
least as long as the source, and the `ToString` form). -/
theorem c07_no_panic (c : Codec) (dst src : Bytes) (h : src.length ≤ dst.length) :
    parse c.body dst src ≠ .panic ∧ parseToString c.body src ≠ .panic := by
  obtain ⟨⟨n, dst', hp, -, -⟩, hs⟩ := c07_cursor_eq_fun c dst src h
  rw [hp, hs]; exact ⟨by simp, by simp⟩

/-- Every Parse function produces at most `len(input)` bytes. -/
theorem c07_len_le (c : Codec) (dst src : Bytes) (h : src.length ≤ dst.length) :
    (∃ n dst', parse c.body dst src = .ok (n, dst') ∧ n ≤ src.length) ∧
    (∃ out, parseToString c.body src = .ok out ∧ out.length ≤ src.length) := by
  obtain ⟨e, dst', hp, hl, he, ht⟩ := run_spec (body := c.body) h (c.bodySpec src _)
  refine ⟨⟨e, dst', hp, he⟩, parseFun c.dec src, parseToString_eq c.bodySpec src, ?_⟩
  rw [← ht, List.length_take]; omega

/-- Every Parse loop terminates: the fuel `len(src)+1` given to `parse` is never exhausted,
whatever `dst` is (also one that is too short). -/
theorem c07_terminates (c : Codec) (dst src : Bytes) : parse c.body dst src ≠ .fuel := by
  cases c
  · exact run_terminates octal_progress dst src
  · exact run_terminates hex_progress dst src
  · exact run_terminates unicode_progress dst src
  · exact run_terminates utf16_progress dst src

/-- Input containing no backslash is returned unchanged. -/
theorem c07_no_backslash_id (c : Codec) (s : Bytes) (h : 92 ∉ s) :
    parseToString c.body s = .ok s := by
  rw [parseToString_eq c.bodySpec]
  congr 1
  cases c
  · exact parseFun_no_backslash octal_headLit s h
  · exact parseFun_no_backslash hex_headLit s h
  · exact parseFun_no_backslash unicode_headLit s h
  · exact parseFun_no_backslash utf16_headLit s h

/-- `OctalParse(OctalFormat(s)) = s` for every byte string (Format does not panic, its
output has 4 bytes per input byte). -/
theorem c07_octal_roundtrip (s : Bytes) (hs : IsBytes s) :
    ∃ out, octalFormat s = some out ∧ out.length = 4 * s.length ∧
      parseToString octalBody out = .ok s := by
  obtain ⟨out, hf, hl, hp⟩ := octal_fun_roundtrip s hs
  exact ⟨out, hf, hl, by rw [parseToString_eq octal_bodySpec, hp]⟩

/-- `HexParse(HexFormat(s)) = s` for every byte string. -/
theorem c07_hex_roundtrip (s : Bytes) (hs : IsBytes s) :
    ∃ out, hexFormat s = some out ∧ out.length = 4 * s.length ∧
      parseToString hexBody out = .ok s := by
  obtain ⟨out, hf, hl, hp⟩ := hex_fun_roundtrip s hs
  exact ⟨out, hf, hl, by rw [parseToString_eq hex_bodySpec, hp]⟩

/-- `UnicodeParse(UnicodeFormat(s)) = s` for every valid UTF-8 string (`Utf8.valid` is the
model of `utf8.Valid`); and for every `s` whatsoever Format does not panic and the round trip
yields `string([]rune(s))`: each invalid byte has become U+FFFD. -/
theorem c07_unicode_roundtrip (s : Bytes) :
    (∃ out, unicodeFormat s = some out ∧
      parseToString unicodeBody out = .ok (Utf8.encode (Utf8.runes s))) ∧
    (Utf8.valid s = true →
      ∃ out, unicodeFormat s = some out ∧ parseToString unicodeBody out = .ok s) := by
  constructor
  · obtain ⟨out, hf, hp⟩ := unicode_fun_reencode s
    exact ⟨out, hf, by rw [parseToString_eq unicode_bodySpec, hp]⟩
  · intro hv
    obtain ⟨out, hf, hp⟩ := unicode_fun_roundtrip s hv
    exact ⟨out, hf, by rw [parseToString_eq unicode_bodySpec, hp]⟩

/-- `Utf16Parse(Utf16Format(s)) = s` for every valid UTF-8 string (surrogate pairs above
U+FFFF are re-joined); for every `s` whatsoever the round trip yields `string([]rune(s))`. -/
theorem c07_utf16_roundtrip (s : Bytes) :
    (∃ out, utf16Format s = some out ∧
      parseToString utf16Body out = .ok (Utf8.encode (Utf8.runes s))) ∧
    (Utf8.valid s = true →
      ∃ out, utf16Format s = some out ∧ parseToString utf16Body out = .ok s) := by
  constructor
  · obtain ⟨out, hf, hp⟩ := utf16_fun_reencode s
    exact ⟨out, hf, by rw [parseToString_eq utf16_bodySpec, hp]⟩
  · intro hv
    obtain ⟨out, hf, hp⟩ := utf16_fun_roundtrip s hv
    exact ⟨out, hf, by rw [parseToString_eq utf16_bodySpec, hp]⟩

/-- Non-vacuity: valid UTF-8 with all four length classes ("aé日😀"). -/
example : Utf8.valid [97, 195, 169, 230, 151, 165, 240, 159, 152, 128] = true := by decide
example : utf16Format [240, 159, 152, 128] =
    some [92, 117, 68, 56, 51, 68, 92, 117, 68, 69, 48, 48] := by decide
/-- Non-vacuity: an invalid string (stray 0xFF, truncated 3-byte sequence) re-encodes with U+FFFD. -/
example : Utf8.valid [255, 97, 228, 184] = false ∧
    Utf8.encode (Utf8.runes [255, 97, 228, 184]) = [239, 191, 189, 97, 239, 191, 189, 239, 191, 189] := by
  decide

/-- Every well-formed escape embedded between backslash-free text `pre`, `post` is replaced by
the byte / UTF-8 encoding it denotes and the surrounding text is preserved byte for byte.
Well-formed: `\\ooo` with three octal digits of value ≤ 255; `\\xXX`; `\\UXXXXXXXX` with value
≤ U+10FFFF (a surrogate value is encoded as U+FFFD, as `utf8.EncodeRune` does); `\\uXXXX`
outside the surrogate range; a high surrogate `\\uD8xx..DBxx` followed by a low surrogate
`\\uDCxx..DFxx`.  `isDigit b c`: `c` is a digit character of base `b` (either case),
`valOf b X` its value. -/
theorem c07_embedded_escape (pre post : Bytes) (h1 : 92 ∉ pre) (h2 : 92 ∉ post) :
    (∀ X : Bytes, X.length = 3 → (∀ c ∈ X, isDigit 8 c = true) → valOf 8 X ≤ 255 →
      parseToString octalBody (pre ++ (92 :: X) ++ post) = .ok (pre ++ [valOf 8 X] ++ post)) ∧
    (∀ X : Bytes, X.length = 2 → (∀ c ∈ X, isDigit 16 c = true) →
      parseToString hexBody (pre ++ (92 :: 120 :: X) ++ post) = .ok (pre ++ [valOf 16 X] ++ post)) ∧
    (∀ X : Bytes, X.length = 8 → (∀ c ∈ X, isDigit 16 c = true) → valOf 16 X ≤ 0x10FFFF →
      parseToString unicodeBody (pre ++ (92 :: 85 :: X) ++ post) =
        .ok (pre ++ Utf8.encodeRune (valOf 16 X : Nat) ++ post)) ∧
    (∀ X : Bytes, X.length = 4 → (∀ c ∈ X, isDigit 16 c = true) →
      (valOf 16 X < 0xd800 ∨ valOf 16 X ≥ 0xe000) →
      parseToString utf16Body (pre ++ (92 :: 117 :: X) ++ post) =
        .ok (pre ++ Utf8.encodeRune (valOf 16 X : Nat) ++ post)) ∧
    (∀ X Y : Bytes, X.length = 4 → Y.length = 4 → (∀ c ∈ X, isDigit 16 c = true) →
      (∀ c ∈ Y, isDigit 16 c = true) → (0xd800 ≤ valOf 16 X ∧ valOf 16 X < 0xdc00) →
      (0xdc00 ≤ valOf 16 Y ∧ valOf 16 Y < 0xe000) →
      parseToString utf16Body (pre ++ (92 :: 117 :: X ++ (92 :: 117 :: Y)) ++ post) =
        .ok (pre ++ Utf8.encodeRune (utf16Dec (valOf 16 X) (valOf 16 Y)) ++ post) ∧
      utf16Dec (valOf 16 X) (valOf 16 Y) =
        ((valOf 16 X - 0xd800) * 1024 + (valOf 16 Y - 0xdc00) + 0x10000 : Nat)) := by
  refine ⟨?_, ?_, ?_, ?_, ?_⟩
  · intro X hl hd hv
    have hp := parseUint_digits (base := 8) (bits := 8) (by omega) (by omega) (by omega) hd (by omega)
    rw [hl] at hp
    rw [parseToString_eq octal_bodySpec]
    congr 1
    refine embedded octal_litSpec octal_headLit (fun r => ?_) h1 h2
    have := octal_step (r := r) hl hp
    rw [Nat.mod_eq_of_lt (by omega)] at this
    simpa using this
  · intro X hl hd
    have hlt := valOf_lt (base := 16) (by omega) X hd
    rw [hl] at hlt
    have hp := parseUint_digits (base := 16) (bits := 8) (by omega) (by omega) (by omega) hd (by omega)
    rw [hl] at hp
    rw [parseToString_eq hex_bodySpec]
    congr 1
    refine embedded hex_litSpec hex_headLit (fun r => ?_) h1 h2
    have := hex_step (r := r) hl hp
    rw [Nat.mod_eq_of_lt (by omega)] at this
    simpa using this
  · intro X hl hd hv
    have hp := parseUint_digits (base := 16) (bits := 32) (by omega) (by omega) (by omega) hd (by omega)
    rw [hl] at hp
    rw [parseToString_eq unicode_bodySpec]
    congr 1
    refine embedded unicode_litSpec unicode_headLit (fun r => ?_) h1 h2
    simpa using unicode_step (r := r) hl hp hv
  · intro X hl hd hv
    have hlt := valOf_lt (base := 16) (by omega) X hd
    rw [hl] at hlt
    have hp := parseUint_digits (base := 16) (bits := 16) (by omega) (by omega) (by omega) hd (by omega)
    rw [hl] at hp
    rw [parseToString_eq utf16_bodySpec]
    congr 1
    refine embedded utf16_litSpec utf16_headLit (fun r => ?_) h1 h2
    simpa using utf16_step1 (r := r) hl hp hv
  · intro X Y hl hl2 hd hd2 hv hw
    have hlt := valOf_lt (base := 16) (by omega) X hd
    have hlt2 := valOf_lt (base := 16) (by omega) Y hd2
    rw [hl] at hlt
    rw [hl2] at hlt2
    have hp := parseUint_digits (base := 16) (bits := 16) (by omega) (by omega) (by omega) hd (by omega)
    have hq := parseUint_digits (base := 16) (bits := 16) (by omega) (by omega) (by omega) hd2 (by omega)
    rw [hl] at hp
    rw [hl2] at hq
    constructor
    · rw [parseToString_eq utf16_bodySpec]
      congr 1
      refine embedded utf16_litSpec utf16_headLit (fun r => ?_) h1 h2
      have := utf16_step2 (r := r) hl hl2 hp hv hq hw
      simpa using this
    · obtain ⟨q, hq'⟩ : ∃ q, valOf 16 X = 0xd800 + q := ⟨valOf 16 X - 0xd800, by omega⟩
      obtain ⟨t, ht'⟩ : ∃ t, valOf 16 Y = 0xdc00 + t := ⟨valOf 16 Y - 0xdc00, by omega⟩
      rw [hq', ht', utf16Dec_pair q t (by omega) (by omega), Nat.add_sub_cancel_left,
        Nat.add_sub_cancel_left]

/-- Any number of escapes: if `s` consists of backslash-free runs and well-formed escapes of
the codec (`Denotes c s out`: escapes may be adjacent to each other, to the start and to the
end of the input; `WF` lists the well-formed escapes exactly as in `c07_embedded_escape`),
every escape is replaced by what it denotes and every run is preserved byte for byte — for the
`ToString` form and for the `[]byte` form with any `dst` at least as long as `src`. -/
theorem c07_escape_sequence (c : Codec) (s out : Bytes) (h : Denotes c s out) :
    parseToString c.body s = .ok out ∧
    ∀ dst : Bytes, s.length ≤ dst.length →
      ∃ n dst', parse c.body dst s = .ok (n, dst') ∧ dst'.take n = out := by
  refine ⟨by rw [parseToString_eq c.bodySpec, denotes_parseFun h], fun dst hd => ?_⟩
  obtain ⟨⟨n, dst', hp, -, ht⟩, -⟩ := c07_cursor_eq_fun c dst s hd
  exact ⟨n, dst', hp, by rw [ht, denotes_parseFun h]⟩

/-- Non-vacuity: `a\101\102b` (two adjacent octal escapes) denotes `aABb`; a surrogate pair
directly followed by a BMP escape, `\uD83D\uDE00\u0041`, denotes `😀A`. -/
example : Denotes .octal [97, 92, 49, 48, 49, 92, 49, 48, 50, 98] [97, 65, 66, 98] :=
  .esc [97] _ _ _ _ (by decide) (.octal [49, 48, 49] rfl (by decide) (by decide))
    (.esc [] _ _ _ _ (by decide) (.octal [49, 48, 50] rfl (by decide) (by decide)) (.lit [98] (by decide)))
example : Denotes .utf16 [92, 117, 68, 56, 51, 68, 92, 117, 68, 69, 48, 48, 92, 117, 48, 48, 52, 49]
    [240, 159, 152, 128, 65] :=
  .esc [] _ _ _ _ (by decide)
    (.pair [68, 56, 51, 68] [68, 69, 48, 48] rfl rfl (by decide) (by decide) (by decide) (by decide))
    (.esc [] _ _ _ _ (by decide) (.bmp [48, 48, 52, 49] rfl (by decide) (by decide)) (.lit [] (by decide)))

/-- Non-vacuity: `"ab" ++ "\\101" ++ "cd"`; the digits of a pair `\\uD83D\\uDE00`. -/
example : (∀ c ∈ [49, 48, 49], isDigit 8 c = true) ∧ valOf 8 [49, 48, 49] = 65 ∧ 92 ∉ [97, 98] := by decide
example : valOf 16 [68, 56, 51, 68] = 0xD83D ∧ valOf 16 [68, 69, 48, 48] = 0xDE00 ∧
    utf16Dec 0xD83D 0xDE00 = 0x1F600 := by decide

/-- `parseUint(s, base, bitSize)` as coded (uint64 accumulator, cutoff test, wrap-around
test) for every base 2..36, every bit size ≤ 64 and every `s` (no length bound):
success iff every character is a digit of the base and the value is ≤ 2^bitSize − 1, then
`(value, len(s), true)`; otherwise `(0 | maxVal, j, false)` where `j` is the index of the first
bad character — a non-digit (value 0) or the digit at which the value first exceeds `maxVal`
(value `maxVal`) — so that scanning resumes there. -/
theorem c07_parseUint_spec (s : Bytes) (base bits : Nat) (hb : 2 ≤ base ∧ base ≤ 36)
    (hbits : bits ≤ 64) :
    ((∀ c ∈ s, isDigit base c = true) → valOf base s ≤ 2 ^ bits - 1 →
      parseUint s base bits = (valOf base s, s.length, true)) ∧
    (∀ v j, parseUint s base bits = (v, j, true) →
      j = s.length ∧ v = valOf base s ∧ (∀ c ∈ s, isDigit base c = true) ∧ v ≤ 2 ^ bits - 1) ∧
    (∀ v j, parseUint s base bits = (v, j, false) →
      ∃ c, s[j]? = some c ∧ (∀ c' ∈ s.take j, isDigit base c' = true) ∧
        valOf base (s.take j) ≤ 2 ^ bits - 1 ∧
        ((isDigit base c = false ∧ v = 0) ∨
         (isDigit base c = true ∧ valOf base (s.take (j + 1)) > 2 ^ bits - 1 ∧ v = 2 ^ bits - 1))) := by
  refine ⟨fun hd hv => parseUint_digits hb.1 hb.2 hbits hd hv, ?_, ?_⟩
  · intro v j h
    rw [parseUint_eq_spec hb.1 hb.2 hbits] at h
    have := specLoop_true s 0 0 v j (Nat.zero_le _) h
    simpa [valOf] using this
  · intro v j h
    rw [parseUint_eq_spec hb.1 hb.2 hbits] at h
    obtain ⟨k, c, hj, hg, hall, hacc, hor⟩ := specLoop_false s 0 0 v j (Nat.zero_le _) h
    have : j = k := by omega
    subst this
    exact ⟨c, hg, hall, hacc, hor⟩

/-- Non-vacuity: `"777"` base 8, 8 bits fails at index 2 with 255; `"1g"` base 16 fails at 1. -/
example : parseUint [55, 55, 55] 8 8 = (255, 2, false) ∧ parseUint [49, 103] 16 8 = (0, 1, false) ∧
    parseUint [102, 70] 16 8 = (255, 2, true) := by decide

/-- Format output is a sequence of fixed-width upper-case escapes.  `Shape pfx w P n out`:
`out` consists of exactly `n` escapes, each `pfx` followed by `w` characters satisfying `P`
(`isOct` = `0-7`, `isUHex` = `0-9A-F`).  Octal/hex: one `\\ooo` / `\\xXX` per byte;
unicode: one `\\UXXXXXXXX` per rune of the range loop (= `utf8.RuneCountInString`, the size the
Go code allocates); utf16: `\\uXXXX` escapes, and a rune above U+FFFF is written as a high
surrogate escape followed by a low surrogate escape that decode back to it. -/
theorem c07_format_shape (s out : Bytes) :
    (octalFormat s = some out → Shape [92] 3 isOct s.length out ∧ out.length = 4 * s.length) ∧
    (hexFormat s = some out → Shape [92, 120] 2 isUHex s.length out ∧ out.length = 4 * s.length) ∧
    (unicodeFormat s = some out →
      Shape [92, 85] 8 isUHex (Utf8.runeCount s) out ∧ out.length = 10 * Utf8.runeCount s) ∧
    (utf16Format s = some out → ∃ n, Shape [92, 117] 4 isUHex n out ∧ out.length = 6 * n) ∧
    (∀ m : Nat, 0x10000 ≤ m → m ≤ 0x10FFFF →
      ∃ X Y hi lo, utf16FormatRune (m : Int) = some (92 :: 117 :: X ++ 92 :: 117 :: Y) ∧
        X.length = 4 ∧ Y.length = 4 ∧
        parseUint X 16 16 = (hi, 4, true) ∧ parseUint Y 16 16 = (lo, 4, true) ∧
        0xd800 ≤ hi ∧ hi < 0xdc00 ∧ 0xdc00 ≤ lo ∧ lo < 0xe000 ∧ utf16Dec hi lo = (m : Int)) := by
  refine ⟨fun h => ?_, fun h => ?_, fun h => ?_, fun h => ?_, fun m h1 h2 => utf16FormatRune_pair h1 h2⟩
  · have := octalFormat_shape s out h
    exact ⟨this, by rw [this.length]; simp; omega⟩
  · have := hexFormat_shape s out h
    exact ⟨this, by rw [this.length]; simp; omega⟩
  · have := unicodeFormatAux_shape s.length s out 0 h
    exact ⟨this, by rw [this.length]; simp [Utf8.runeCount, Utf8.rangeDecode]; omega⟩
  · obtain ⟨n, hn⟩ := utf16FormatAux_shape s.length s out h
    exact ⟨n, hn, by rw [hn.length]; simp; omega⟩

/-- The Format functions AS CODED — output buffer allocated up front (`len(s)*4`,
`RuneCount*10`; `Utf16Format`: capacity `RuneCount*6`, grown by `append`), escapes written
through the cursors `j`/`f` by indexed stores, `appendUint` with its three memory operations
(digits at the start of the window, memmove to its end, zero padding), `toUpper` in place,
`copy(b[f:j], "0000FFFD")` (Model/C07FormatBuf.lean; an index or slice bound outside the buffer
is `none`) — never index outside their buffer and return exactly what the value-level
formatters of the other theorems return.  For `Utf16Format` the buffer is re-allocated exactly
when the appended escapes outgrow the estimate (`grown`); the contents are unaffected. -/
theorem c07_format_buffer_eq (s : Bytes) :
    octalFormatB s = octalFormat s ∧ hexFormatB s = hexFormat s ∧
    (∃ out, unicodeFormat s = some out ∧ unicodeFormatB s = some out) ∧
    (∃ out g, utf16Format s = some out ∧ utf16FormatB s = some g ∧ g.b = out) := by
  refine ⟨?_, ?_, ?_, ?_⟩
  · have := octalLoopB_spec s [] (List.replicate (s.length * 4) 0) (by simp; omega)
    simpa [octalFormatB] using this
  · have := hexLoopB_spec s [] (List.replicate (s.length * 4) 0) (by simp; omega)
    simpa [hexFormatB] using this
  · obtain ⟨out, hf, -⟩ := (c07_unicode_roundtrip s).1
    have hl := ((c07_format_shape s out).2.2.1 hf).2
    have := unicodeLoopB_spec s.length s out [] (List.replicate (Utf8.runeCount s * 10) 0) hf
      (by simp; omega)
    exact ⟨out, hf, by simpa [unicodeFormatB] using this⟩
  · obtain ⟨out, hf, -⟩ := (c07_utf16_roundtrip s).1
    obtain ⟨g, h1, h2⟩ := utf16LoopB_spec s.length s out ⟨[], Utf8.runeCount s * 6, 0⟩ hf
    exact ⟨out, g, hf, by simpa [utf16FormatB] using h1, by simpa using h2⟩

/-- Non-vacuity: two supplementary runes need 24 bytes, the estimate reserves 12: one re-allocation. -/
example : (utf16FormatB [240, 159, 152, 128, 240, 159, 152, 128]).map (fun g => (g.b.length, g.grown)) =
    some (24, 1) := by decide

/-- Non-vacuity: Format of an invalid byte, a 3-byte and a 4-byte rune. -/
example : unicodeFormat [255, 230, 151, 165] =
    some [92, 85, 48, 48, 48, 48, 70, 70, 70, 68, 92, 85, 48, 48, 48, 48, 54, 53, 69, 53] := by decide

/-- Non-vacuity: a byte string with a backslash, a NUL and 0xFF is `IsBytes`; a concrete run. -/
example : IsBytes [92, 0, 255, 65] := by unfold IsBytes; decide
example : octalFormat [92, 0, 255] = some [92, 49, 51, 52, 92, 48, 48, 48, 92, 51, 55, 55] := by decide
example : hexFormat [92, 255] = some [92, 120, 53, 67, 92, 120, 70, 70] := by decide
example : parseToString octalBody [97, 92, 49, 48, 49, 98] = .ok [97, 65, 98] := by decide
example : parseToString utf16Body [92, 117, 68, 56, 51, 68, 92, 117, 68, 69, 48, 48] = .ok [240, 159, 152, 128] := by
  decide

-- BEGIN wave-8 tie block (trans-strconv)
/-! ### Regenerated tie (wave 8): the helpers of the escape codecs translated by `go2lean`

`Golib.Gen.Trans.C07.*` is regenerated from the tree under verification on every run
(`Golib/Gen/TransC07.lean`); these theorems are re-checked against what the code says now.
The model uses `Nat` bytes, the translation `BitVec 8`: the abstraction function is
`BitVec.toNat` / `BitVec.ofNat 8`, written out in every statement. -/

/-- TIE: the translated `lower` (`c | 32`) is the model's `lower` on EVERY byte; it cannot panic. -/
theorem c07_trans_lower (c : BitVec 8) :
    Golib.Gen.Trans.C07.lower c = .ok (BitVec.ofNat 8 (Golib.C07.lower c.toNat)) :=
  Tie.trans_lower_eq c

/-- TIE: the translated `upper` (`c &^ (c >> 6 << 5)`, what `toUpper` applies to every digit of a
Format escape) is the model's `upper` on EVERY byte; it cannot panic. -/
theorem c07_trans_upper (c : BitVec 8) :
    Golib.Gen.Trans.C07.upper c = .ok (BitVec.ofNat 8 (Golib.C07.upper c.toNat)) :=
  Tie.trans_upper_eq c

/-- Non-vacuity: `upper('f') = 'F'`, `upper('7') = '7'`, `lower('U') = 'u'`. -/
example : Golib.Gen.Trans.C07.upper 102#8 = .ok 70#8 ∧
    Golib.Gen.Trans.C07.upper 55#8 = .ok 55#8 ∧
    Golib.Gen.Trans.C07.lower 85#8 = .ok 117#8 := by
  refine ⟨?_, ?_, ?_⟩ <;> decide +kernel

/-- TIE: the translated generic `parseUint` (instantiations string and []byte have the same
translation: a byte list) equals the model's `parseUint` — the definition `c07_parseUint_spec` and
all four parser bodies are about — for EVERY byte string, every base `2 ≤ base < 2^64` and every
`bitSize < 2^64`; abstraction: `Tie.bytesOf = List.map BitVec.toNat`, value `BitVec.ofNat 64`, index
`Int.ofNat`.  In particular it neither panics nor runs out of fuel there. -/
theorem c07_trans_parseUint (s : List (BitVec 8)) (base bitSize : Nat)
    (h2 : 2 ≤ base) (hb : base < 2 ^ 64) (hbits : bitSize < 2 ^ 64) :
    Golib.Gen.Trans.C07.parseUint s (base : Int) (bitSize : Int)
      = .ok (BitVec.ofNat 64 (Golib.C07.parseUint (Tie.bytesOf s) base bitSize).1,
             ((Golib.C07.parseUint (Tie.bytesOf s) base bitSize).2.1 : Int),
             (Golib.C07.parseUint (Tie.bytesOf s) base bitSize).2.2) :=
  Tie.trans_parseUint_eq s base bitSize h2 hb hbits

/-- Exactly where the model does not apply the code panics: base 0 divides by zero. -/
theorem c07_trans_parseUint_base0 (s : List (BitVec 8)) (bitSize : Int) :
    Golib.Gen.Trans.C07.parseUint s 0 bitSize = .panic :=
  Tie.trans_parseUint_base0 s bitSize

/-- The property clause directly on the generated definition: a string of digits of the base whose
value fits the bit size is parsed to `(value, len(s), true)` — for every base 2..36, bit size ≤ 64
and length. -/
theorem c07_trans_parseUint_digits (s : List (BitVec 8)) (base bits : Nat) (hb : 2 ≤ base ∧ base ≤ 36)
    (hbits : bits ≤ 64) (hd : ∀ c ∈ Tie.bytesOf s, isDigit base c = true)
    (hv : valOf base (Tie.bytesOf s) ≤ 2 ^ bits - 1) :
    Golib.Gen.Trans.C07.parseUint s (base : Int) (bits : Int)
      = .ok (BitVec.ofNat 64 (valOf base (Tie.bytesOf s)), (s.length : Int), true) := by
  rw [c07_trans_parseUint s base bits hb.1 (by omega) (by omega),
    (c07_parseUint_spec (Tie.bytesOf s) base bits hb hbits).1 hd hv]
  simp [Tie.bytesOf]

/-- Non-vacuity: `"777"` base 8 into 8 bits stops at index 2 with 255; `"fF"` base 16 is 255. -/
example : Golib.Gen.Trans.C07.parseUint [55#8, 55#8, 55#8] 8 8 = .ok (255#64, 2, false) ∧
    Golib.Gen.Trans.C07.parseUint [102#8, 70#8] 16 8 = .ok (255#64, 2, true) := by
  constructor <;> decide +kernel

/-- TIE: the translated `toUpper` (`for i, b := range dst { dst[i] = upper(b) }`; `dst` is an in-out
parameter of the translation: its final content is the result) equals the model's `toUpper`
(`map upper`) for EVERY byte slice; no write is out of range. -/
theorem c07_trans_toUpper (dst : List (BitVec 8)) :
    Golib.Gen.Trans.C07.toUpper dst
      = .ok ((Golib.C07.toUpper (Tie.bytesOf dst)).map (BitVec.ofNat 8)) :=
  Tie.trans_toUpper_eq dst

/-- Non-vacuity: `"a7f_"` becomes `"A7F_"`. -/
example : Golib.Gen.Trans.C07.toUpper [97#8, 55#8, 102#8, 95#8] = .ok [65#8, 55#8, 70#8, 95#8] := by
  decide +kernel
-- END wave-8 tie block (trans-strconv)

-- BEGIN wave-9 tie block (trans-parse)
/-! ### Regenerated tie (wave 9): the escape PARSERS translated by `go2lean`

`OctalParse(dst, src)` and `HexParse(dst, src)` of `strz/enc.go` are regenerated into
`Golib.Gen.Trans.C07.OctalParse/HexParse` on every run (`dst` is an in-out parameter of the translation: the
result is `(n, dst afterwards)`; PRECONDITION of the translation: `dst` and `src` do not overlap — the in-place use
`dst == src` keeps its own model `c07_inplace_eq`).  Abstraction: `Tie.bytesOf = List.map BitVec.toNat` on both
arguments and on the returned `dst`, the count is the same number. -/

/-- TIE: for EVERY `dst` and `src` (also a `dst` that is too short) the translated `OctalParse` returns exactly what the
cursor model `parse octalBody` — the definition `c07_no_panic`, `c07_len_le`, `c07_cursor_eq_fun`, `c07_octal_roundtrip`
are about — returns, panics exactly where the model panics, and its fuel `len(src)+1` never runs out. -/
theorem c07_trans_OctalParse (dst src : List (BitVec 8)) :
    match parse octalBody (Tie.bytesOf dst) (Tie.bytesOf src) with
    | .ok (n, d) => ∃ d', Golib.Gen.Trans.C07.OctalParse dst src = .ok ((n : Int), d') ∧ Tie.bytesOf d' = d
    | .panic => Golib.Gen.Trans.C07.OctalParse dst src = .panic
    | .fuel => False :=
  (Tie.trans_OctalParse_rel dst src).tie

/-- TIE: the same for `HexParse` and `parse hexBody`. -/
theorem c07_trans_HexParse (dst src : List (BitVec 8)) :
    match parse hexBody (Tie.bytesOf dst) (Tie.bytesOf src) with
    | .ok (n, d) => ∃ d', Golib.Gen.Trans.C07.HexParse dst src = .ok ((n : Int), d') ∧ Tie.bytesOf d' = d
    | .panic => Golib.Gen.Trans.C07.HexParse dst src = .panic
    | .fuel => False :=
  (Tie.trans_HexParse_rel dst src).tie

/-- Non-vacuity: `a\101b` parses to `aAb` (3 bytes; the rest of `dst` keeps what the copies left there); a `dst` that is
too short panics; `\x4g` is kept verbatim. -/
example : Golib.Gen.Trans.C07.OctalParse [0#8, 0#8, 0#8, 0#8, 0#8, 0#8] [97#8, 92#8, 49#8, 48#8, 49#8, 98#8]
      = .ok (3, [97#8, 65#8, 98#8, 0#8, 0#8, 0#8]) ∧
    Golib.Gen.Trans.C07.OctalParse [0#8] [97#8, 92#8, 49#8, 48#8, 49#8, 98#8] = .panic ∧
    Golib.Gen.Trans.C07.HexParse [0#8, 0#8, 0#8, 0#8] [92#8, 120#8, 52#8, 103#8]
      = .ok (4, [92#8, 120#8, 52#8, 103#8]) := by
  refine ⟨?_, ?_, ?_⟩ <;> decide +kernel

/-- The property clauses directly on the generated definitions — "parses ANY input safely": for every `src` whatsoever
(malformed, truncated at any position) and every `dst` at least as long, the translated `OctalParse` does not panic,
returns `0 ≤ n ≤ len(src)`, keeps `len(dst)`, and `dst[:n]` is the functional parser's output. -/
theorem c07_trans_OctalParse_total (dst src : List (BitVec 8)) (h : src.length ≤ dst.length) :
    ∃ (n : Nat) (d' : List (BitVec 8)), Golib.Gen.Trans.C07.OctalParse dst src = .ok ((n : Int), d') ∧
      n ≤ src.length ∧ d'.length = dst.length ∧
      Tie.bytesOf (d'.take n) = parseFun octalDec (Tie.bytesOf src) :=
  Tie.gen_total .octal _ Tie.trans_OctalParse_rel dst src h

theorem c07_trans_HexParse_total (dst src : List (BitVec 8)) (h : src.length ≤ dst.length) :
    ∃ (n : Nat) (d' : List (BitVec 8)), Golib.Gen.Trans.C07.HexParse dst src = .ok ((n : Int), d') ∧
      n ≤ src.length ∧ d'.length = dst.length ∧
      Tie.bytesOf (d'.take n) = parseFun hexDec (Tie.bytesOf src) :=
  Tie.gen_total .hex _ Tie.trans_HexParse_rel dst src h

/-- The round-trip clause on the generated definition: whatever byte string `s` was formatted (`octalFormat`, the model
of `OctalFormat`), the translated `OctalParse` applied to the formatted bytes gives `s` back. -/
theorem c07_trans_OctalParse_roundtrip (s : Bytes) (hs : IsBytes s) (src dst : List (BitVec 8))
    (hf : octalFormat s = some (Tie.bytesOf src)) (h : src.length ≤ dst.length) :
    ∃ (n : Nat) (d' : List (BitVec 8)), Golib.Gen.Trans.C07.OctalParse dst src = .ok ((n : Int), d') ∧
      Tie.bytesOf (d'.take n) = s := by
  obtain ⟨n, d', hg, -, -, hp⟩ := c07_trans_OctalParse_total dst src h
  obtain ⟨out, ho, -, hr⟩ := octal_fun_roundtrip s hs
  rw [hf] at ho
  cases ho
  exact ⟨n, d', hg, by rw [hp, hr]⟩

theorem c07_trans_HexParse_roundtrip (s : Bytes) (hs : IsBytes s) (src dst : List (BitVec 8))
    (hf : hexFormat s = some (Tie.bytesOf src)) (h : src.length ≤ dst.length) :
    ∃ (n : Nat) (d' : List (BitVec 8)), Golib.Gen.Trans.C07.HexParse dst src = .ok ((n : Int), d') ∧
      Tie.bytesOf (d'.take n) = s := by
  obtain ⟨n, d', hg, -, -, hp⟩ := c07_trans_HexParse_total dst src h
  obtain ⟨out, ho, -, hr⟩ := hex_fun_roundtrip s hs
  rw [hf] at ho
  cases ho
  exact ⟨n, d', hg, by rw [hp, hr]⟩

/-- Non-vacuity of the round trip: `octalFormat "\\A" = "\\134\\101"` as `BitVec 8` bytes. -/
example : octalFormat [92, 65] = some (Tie.bytesOf [92#8, 49#8, 51#8, 52#8, 92#8, 49#8, 48#8, 49#8]) ∧ IsBytes [92, 65] := by
  constructor
  · decide
  · unfold IsBytes; decide

/-- TIE: the same for `UnicodeParse` and `parse unicodeBody`; `utf8.EncodeRune(dst[e:], rune(n))` is
`GoSem.utf8EncodeRuneAt` (all-or-panic write of the 1–4 bytes of the rune), tied here to the model's
`writeAt … (Utf8.encodeRune n)`. -/
theorem c07_trans_UnicodeParse (dst src : List (BitVec 8)) :
    match parse unicodeBody (Tie.bytesOf dst) (Tie.bytesOf src) with
    | .ok (n, d) => ∃ d', Golib.Gen.Trans.C07.UnicodeParse dst src = .ok ((n : Int), d') ∧ Tie.bytesOf d' = d
    | .panic => Golib.Gen.Trans.C07.UnicodeParse dst src = .panic
    | .fuel => False :=
  (Tie.trans_UnicodeParse_rel dst src).tie

/-- "parses ANY input safely" on the generated `UnicodeParse`: no panic, `0 ≤ n ≤ len(src)`, `len(dst)` kept, `dst[:n]` is
the functional parser's output — for every `src` and every `dst` at least as long. -/
theorem c07_trans_UnicodeParse_total (dst src : List (BitVec 8)) (h : src.length ≤ dst.length) :
    ∃ (n : Nat) (d' : List (BitVec 8)), Golib.Gen.Trans.C07.UnicodeParse dst src = .ok ((n : Int), d') ∧
      n ≤ src.length ∧ d'.length = dst.length ∧
      Tie.bytesOf (d'.take n) = parseFun unicodeDec (Tie.bytesOf src) :=
  Tie.gen_total .unicode _ Tie.trans_UnicodeParse_rel dst src h

/-- Non-vacuity: `\\U0001F600` becomes the four bytes `F0 9F 98 80`; `\\U00110000` (above MaxRune) is kept. -/
example : Golib.Gen.Trans.C07.UnicodeParse (List.replicate 10 0#8)
      [92#8, 85#8, 48#8, 48#8, 48#8, 49#8, 70#8, 54#8, 48#8, 48#8]
      = .ok (4, [0xF0#8, 0x9F#8, 0x98#8, 0x80#8, 0#8, 0#8, 0#8, 0#8, 0#8, 0#8]) ∧
    Golib.Gen.Trans.C07.UnicodeParse (List.replicate 10 0#8)
      [92#8, 85#8, 48#8, 48#8, 49#8, 49#8, 48#8, 48#8, 48#8, 48#8]
      = .ok (10, [92#8, 85#8, 48#8, 48#8, 49#8, 49#8, 48#8, 48#8, 48#8, 48#8]) := by
  constructor <;> decide +kernel

/-- TIE: the same for `Utf16Parse` and `parse utf16Body` (both `parseUint` calls of a surrogate pair inside one loop
round, every `continue`/`break` of the nested conditions); `utf16.DecodeRune` is `GoSem.utf16DecodeRune`, tied to the
model's `utf16Dec`. -/
theorem c07_trans_Utf16Parse (dst src : List (BitVec 8)) :
    match parse utf16Body (Tie.bytesOf dst) (Tie.bytesOf src) with
    | .ok (n, d) => ∃ d', Golib.Gen.Trans.C07.Utf16Parse dst src = .ok ((n : Int), d') ∧ Tie.bytesOf d' = d
    | .panic => Golib.Gen.Trans.C07.Utf16Parse dst src = .panic
    | .fuel => False :=
  (Tie.trans_Utf16Parse_rel dst src).tie

/-- "parses ANY input safely" on the generated `Utf16Parse`. -/
theorem c07_trans_Utf16Parse_total (dst src : List (BitVec 8)) (h : src.length ≤ dst.length) :
    ∃ (n : Nat) (d' : List (BitVec 8)), Golib.Gen.Trans.C07.Utf16Parse dst src = .ok ((n : Int), d') ∧
      n ≤ src.length ∧ d'.length = dst.length ∧
      Tie.bytesOf (d'.take n) = parseFun utf16DecF (Tie.bytesOf src) :=
  Tie.gen_total .utf16 _ Tie.trans_Utf16Parse_rel dst src h

/-- Non-vacuity: the pair `\\uD83D\\uDE00` becomes `F0 9F 98 80`; a lone high half `\\uD83Dx…` is kept. -/
example : Golib.Gen.Trans.C07.Utf16Parse (List.replicate 12 0#8)
      [92#8, 117#8, 68#8, 56#8, 51#8, 68#8, 92#8, 117#8, 68#8, 69#8, 48#8, 48#8]
      = .ok (4, [0xF0#8, 0x9F#8, 0x98#8, 0x80#8, 0#8, 0#8, 0#8, 0#8, 0#8, 0#8, 0#8, 0#8]) ∧
    Golib.Gen.Trans.C07.Utf16Parse (List.replicate 7 0#8) [92#8, 117#8, 68#8, 56#8, 51#8, 68#8, 120#8]
      = .ok (7, [92#8, 117#8, 68#8, 56#8, 51#8, 68#8, 120#8]) := by
  constructor <;> decide +kernel

/-- The round-trip clause on the generated `UnicodeParse` / `Utf16Parse`: for every valid UTF-8 string `s`, the translated
parser applied to the formatted bytes (`unicodeFormat`/`utf16Format`, the models of the Format functions) gives `s` back. -/
theorem c07_trans_UnicodeParse_roundtrip (s : Bytes) (hv : Utf8.valid s = true) (src dst : List (BitVec 8))
    (hf : unicodeFormat s = some (Tie.bytesOf src)) (h : src.length ≤ dst.length) :
    ∃ (n : Nat) (d' : List (BitVec 8)), Golib.Gen.Trans.C07.UnicodeParse dst src = .ok ((n : Int), d') ∧
      Tie.bytesOf (d'.take n) = s := by
  obtain ⟨n, d', hg, -, -, hp⟩ := c07_trans_UnicodeParse_total dst src h
  obtain ⟨out, ho, hr⟩ := unicode_fun_roundtrip s hv
  rw [hf] at ho
  cases ho
  exact ⟨n, d', hg, by rw [hp, hr]⟩

theorem c07_trans_Utf16Parse_roundtrip (s : Bytes) (hv : Utf8.valid s = true) (src dst : List (BitVec 8))
    (hf : utf16Format s = some (Tie.bytesOf src)) (h : src.length ≤ dst.length) :
    ∃ (n : Nat) (d' : List (BitVec 8)), Golib.Gen.Trans.C07.Utf16Parse dst src = .ok ((n : Int), d') ∧
      Tie.bytesOf (d'.take n) = s := by
  obtain ⟨n, d', hg, -, -, hp⟩ := c07_trans_Utf16Parse_total dst src h
  obtain ⟨out, ho, hr⟩ := utf16_fun_roundtrip s hv
  rw [hf] at ho
  cases ho
  exact ⟨n, d', hg, by rw [hp, hr]⟩

/-- Non-vacuity: `utf16Format "😀"` as `BitVec 8` bytes, and the string is valid UTF-8. -/
example : utf16Format [240, 159, 152, 128] =
      some (Tie.bytesOf [92#8, 117#8, 68#8, 56#8, 51#8, 68#8, 92#8, 117#8, 68#8, 69#8, 48#8, 48#8]) ∧
    Utf8.valid [240, 159, 152, 128] = true := by
  constructor <;> decide
-- END wave-9 tie block (trans-parse)

end Golib.C07
