/-
C07 — Backslash escape codecs (`strz/enc.go`, `parseUint`) round-trip and parse any
input safely.  ONLY property theorems and non-vacuity examples live here; helper lemmas
are in `Golib/Proof/C07*.lean`, `Golib/Proof/Utf8.lean`.

Model (`Golib/Model/C07Enc.lean`): `octalBody/hexBody/unicodeBody/utf16Body` are the Go loop
bodies with cursors `e f i` over `dst`/`src` (every index access checked: a panic is
`none`); `parse body dst src` is `XxxParse(dst, src)` (result `(n, dst afterwards)`),
`parseToString body s` is `XxxParseToString(s)`.  `parseFun dec` is the functional layer.
Bytes are `Nat`s; `IsBytes s` says every element is < 256.
-/
import Golib.Proof.C07Round
import Golib.Proof.C07Literal
import Golib.Proof.C07Utf16

namespace Golib.C07

/-- The cursor program computes the functional parser: for every codec, every `src` and every
`dst` with `len(dst) ≥ len(src)`, `XxxParse(dst, src)` returns `n` with `dst[:n] = parseFun src`
and leaves `len(dst)` unchanged; and `XxxParseToString(src) = parseFun src`. -/
theorem c07_cursor_eq_fun (c : Codec) (dst src : Bytes) (h : src.length ≤ dst.length) :
    (∃ n dst', parse c.body dst src = .ok (n, dst') ∧ dst'.length = dst.length ∧
      dst'.take n = parseFun c.dec src) ∧
    parseToString c.body src = .ok (parseFun c.dec src) := by
  obtain ⟨e, dst', hp, hl, -, ht⟩ := run_spec (body := c.body) h (c.bodySpec src _)
  exact ⟨⟨e, dst', hp, hl, ht⟩, parseToString_eq c.bodySpec src⟩

/-- No Parse function panics, for any input whatsoever (`[]byte` form with a destination at
least as long as the source, and the `ToString` form). -/
theorem c07_no_panic (c : Codec) (dst src : Bytes) (h : src.length ≤ dst.length) :
    parse c.body dst src ≠ .panic ∧ parseToString c.body src ≠ .panic := by
  obtain ⟨⟨n, dst', hp, -, -⟩, hs⟩ := c07_cursor_eq_fun c dst src h
  rw [hp, hs]; exact ⟨by simp, by simp⟩

/-- Every Parse function produces at most `len(input)` bytes. -/
theorem c07_len_le (c : Codec) (dst src : Bytes) (h : src.length ≤ dst.length) :
    (∃ n dst', parse c.body dst src = .ok (n, dst') ∧ n ≤ src.length) ∧
    (∃ out, parseToString c.body src = .ok out ∧ out.length ≤ src.length) := by
  obtain ⟨e, dst', hp, hl, he, ht⟩ := run_spec (body := c.body) h (c.bodySpec src _)
  refine ⟨⟨e, dst', hp, he⟩, parseFun c.dec src, parseToString_eq c.bodySpec src, ?_⟩
  rw [← ht, List.length_take]; omega

/-- Every Parse loop terminates: the fuel `len(src)+1` given to `parse` is never exhausted,
whatever `dst` is (also one that is too short). -/
theorem c07_terminates (c : Codec) (dst src : Bytes) : parse c.body dst src ≠ .fuel := by
  cases c
  · exact run_terminates octal_progress dst src
  · exact run_terminates hex_progress dst src
  · exact run_terminates unicode_progress dst src
  · exact run_terminates utf16_progress dst src

/-- Input containing no backslash is returned unchanged. -/
theorem c07_no_backslash_id (c : Codec) (s : Bytes) (h : 92 ∉ s) :
    parseToString c.body s = .ok s := by
  rw [parseToString_eq c.bodySpec]
  congr 1
  cases c
  · exact parseFun_no_backslash octal_headLit s h
  · exact parseFun_no_backslash hex_headLit s h
  · exact parseFun_no_backslash unicode_headLit s h
  · exact parseFun_no_backslash utf16_headLit s h

/-- `OctalParse(OctalFormat(s)) = s` for every byte string (Format does not panic, its
output has 4 bytes per input byte). -/
theorem c07_octal_roundtrip (s : Bytes) (hs : IsBytes s) :
    ∃ out, octalFormat s = some out ∧ out.length = 4 * s.length ∧
      parseToString octalBody out = .ok s := by
  obtain ⟨out, hf, hl, hp⟩ := octal_fun_roundtrip s hs
  exact ⟨out, hf, hl, by rw [parseToString_eq octal_bodySpec, hp]⟩

/-- `HexParse(HexFormat(s)) = s` for every byte string. -/
theorem c07_hex_roundtrip (s : Bytes) (hs : IsBytes s) :
    ∃ out, hexFormat s = some out ∧ out.length = 4 * s.length ∧
      parseToString hexBody out = .ok s := by
  obtain ⟨out, hf, hl, hp⟩ := hex_fun_roundtrip s hs
  exact ⟨out, hf, hl, by rw [parseToString_eq hex_bodySpec, hp]⟩

/-- `UnicodeParse(UnicodeFormat(s)) = s` for every valid UTF-8 string (`Utf8.valid` is the
model of `utf8.Valid`). -/
theorem c07_unicode_roundtrip (s : Bytes) (hv : Utf8.valid s = true) :
    ∃ out, unicodeFormat s = some out ∧ parseToString unicodeBody out = .ok s := by
  obtain ⟨out, hf, hp⟩ := unicode_fun_roundtrip s hv
  exact ⟨out, hf, by rw [parseToString_eq unicode_bodySpec, hp]⟩

/-- `Utf16Parse(Utf16Format(s)) = s` for every valid UTF-8 string (surrogate pairs above
U+FFFF are re-joined). -/
theorem c07_utf16_roundtrip (s : Bytes) (hv : Utf8.valid s = true) :
    ∃ out, utf16Format s = some out ∧ parseToString utf16Body out = .ok s := by
  obtain ⟨out, hf, hp⟩ := utf16_fun_roundtrip s hv
  exact ⟨out, hf, by rw [parseToString_eq utf16_bodySpec, hp]⟩

/-- Non-vacuity: valid UTF-8 with all four length classes ("aé日😀"). -/
example : Utf8.valid [97, 195, 169, 230, 151, 165, 240, 159, 152, 128] = true := by decide
example : utf16Format [240, 159, 152, 128] =
    some [92, 117, 68, 56, 51, 68, 92, 117, 68, 69, 48, 48] := by decide

/-- Non-vacuity: a byte string with a backslash, a NUL and 0xFF is `IsBytes`; a concrete run. -/
example : IsBytes [92, 0, 255, 65] := by unfold IsBytes; decide
example : octalFormat [92, 0, 255] = some [92, 49, 51, 52, 92, 48, 48, 48, 92, 51, 55, 55] := by decide
example : hexFormat [92, 255] = some [92, 120, 53, 67, 92, 120, 70, 70] := by decide
example : parseToString octalBody [97, 92, 49, 48, 49, 98] = .ok [97, 65, 98] := by decide
example : parseToString utf16Body [92, 117, 68, 56, 51, 68, 92, 117, 68, 69, 48, 48] = .ok [240, 159, 152, 128] := by
  decide

end Golib.C07
