/-
C18 — Knapsack, subset-sum solvers and maximal-clique enumeration are exact.
ONLY property theorems and non-vacuity examples live here; helper lemmas are in
`Golib/Proof/C18*.lean`, the models (mirroring `/repo/algz/dp.go`, `/repo/algz/graph.go`)
in `Golib/Model/C18*.lean`.

Conventions: a *selection* of `items` is a `List.Sublist` of it (`sel <+ items`): it picks
positions of `items` in order, each at most once — so equal items at different positions are
different items.  `isum f l` is the total of `f` over `l`.
-/
import Golib.Proof.C18Knap
import Golib.Proof.C18Best
import Golib.Proof.C18Top
import Golib.Proof.C18SolvH2
import Golib.Proof.C18CliquesTop
import Golib.Proof.C18SolvOrd
import Golib.Proof.C18Permute
import Golib.Proof.C18Compose
import Golib.Proof.C18Driver
import Golib.Proof.C18GraphDriver
import Golib.Proof.C18GraphR
import Golib.Proof.C18Int64
import Golib.Proof.C18Brute
import Golib.Proof.C18KnapH
import Golib.Proof.C18Knap64
import Golib.Proof.C18Trans

namespace Golib.C18

/-! ### Knapsack -/

/-- `Knapsack` never panics on a non-negative limit and non-negative weights and returns a
sub-selection (each item at most once) whose weight is within the limit — for every
tie-breaker (including none). -/
theorem c18_knapsack_valid {α : Type} (br : Option (List α → List α → Bool)) (wf vf : α → Int)
    (W : Int) (items : List α) (hW : 0 ≤ W) (hw : ∀ x ∈ items, 0 ≤ wf x) :
    ∃ sel, knapsackGo br wf vf W items = some sel ∧ sel.Sublist items ∧ isum wf sel ≤ W := by
  obtain ⟨sel, h1, h2, h3, _⟩ := knapsackGo_spec br wf vf W items hW hw
  exact ⟨sel, h1, h2, h3⟩

/-- … and its value is maximal among all sub-selections within the limit.  (Holds for
arbitrary values; the property only asks for positive ones.) -/
theorem c18_knapsack_optimal {α : Type} (br : Option (List α → List α → Bool)) (wf vf : α → Int)
    (W : Int) (items : List α) (hW : 0 ≤ W) (hw : ∀ x ∈ items, 0 ≤ wf x) :
    ∃ sel, knapsackGo br wf vf W items = some sel ∧
      ∀ t : List α, t.Sublist items → isum wf t ≤ W → isum vf t ≤ isum vf sel := by
  obtain ⟨sel, h1, _, _, h4⟩ := knapsackGo_spec br wf vf W items hW hw
  exact ⟨sel, h1, h4⟩

/-- The VALUE `Knapsack` returns is the optimum computed by the plain "take it or leave it"
recursion `bruteOpt` (which never builds a table, so it can be executed for limits of any size):
this is what the driver answers on value-only lines with limits around 2^20 and above. -/
theorem c18_knapsack_value {α : Type} (br : Option (List α → List α → Bool)) (wf vf : α → Int)
    (W : Int) (items : List α) (hW : 0 ≤ W) (hw : ∀ x ∈ items, 0 ≤ wf x) :
    ∃ sel, knapsackGo br wf vf W items = some sel ∧ sel.Sublist items ∧ isum wf sel ≤ W ∧
      isum vf sel = bruteOpt wf vf items W :=
  knapsack_value_eq_brute br wf vf W items hW hw

-- limit 2^20 + 1 hit exactly by the weights 2^20 and 1 (value 7 + 5), not by 2^20 + 2^19
example : bruteOpt (fun x : Int × Int => x.1) (fun x => x.2) [(1048576, 7), (524288, 6), (1, 5)] 1048577 = 12 ∧
    bruteOpt (fun x : Int × Int => x.1) (fun x => x.2) [(1048576, 7), (524288, 6), (1, 5)] 1048576 = 11 := by decide

/-- `Knapsack` with its real buffers: the scratch slice `tmp` and the per-cell slices
`dp[i].items` on an explicit heap (`append` in place when the capacity suffices, otherwise a
fresh buffer of any capacity `grow n`; nil slices = capacity 0).  For every tie-breaker, growth
policy, limit and item list the heap-level run returns exactly what the value-level model
returns: no cell ever shares a buffer with `tmp` or with another cell (invariant `KInv`:
pairwise distinct buffers), so the copy `append(dp[i].items[:0], tmp...)` cannot be observed
through any other cell, and refilling `tmp` cannot change a stored selection. -/
theorem c18_knapsack_buffers {α : Type} (br : Option (List α → List α → Bool)) (grow : Nat → Nat)
    (wf : α → Nat) (vf : α → Int) (W : Nat) (items : List α) :
    knapsackH br grow wf vf W items = knapsack br wf vf W items :=
  knapsackH_refines br grow wf vf W items

-- ties broken towards the longer list, exact-fit growth (every append reallocates) and doubling
example : knapsackH (some fun o n => decide (n.length ≥ o.length)) (fun n => n) (fun x : Nat × Int => x.1) (fun x => x.2) 6
      [(4, 4), (1, 1), (1, 1), (2, 2), (2, 2)] = some [(1, 1), (1, 1), (2, 2), (2, 2)] ∧
    knapsackH (some fun o n => decide (n.length ≥ o.length)) (fun n => 2 * n) (fun x : Nat × Int => x.1) (fun x => x.2) 6
      [(4, 4), (1, 1), (1, 1), (2, 2), (2, 2)] = some [(1, 1), (1, 1), (2, 2), (2, 2)] := by decide

/-- Non-vacuity: three items (weight, value), limit 5, a tie between {0,1} and {2} broken
towards the newer list. -/
example : knapsackGo (some fun _ _ => true) (fun x : Int × Int => x.1) (fun x => x.2) 5
    [(2, 3), (3, 4), (5, 7)] = some [(5, 7)] := by decide

/-! ### FindDpSolvers

`solversH` is the heap-level model (explicit buffers, `append`, the slice pool); `ord1`,
`ord2` are the iteration orders of `range dp` / `range dpTmp` in each pass (any
permutations), `br` the optional tie-breaker, `grow` the capacity chosen by `append` when
it reallocates (arbitrary). -/

/-- The pool never aliases: the run does not get stuck, in the final state (and, by the same
invariant `NoAlias`, after every loop iteration) the cells of `dp`, the cells of `dpTmp`
and the pooled slices name pairwise different allocated buffers, and the map read through
the heap is exactly the map computed on plain values (`solversV`). -/
theorem c18_pool_no_alias {α : Type} (br : Option (List α → List α → Bool)) (maxV : Int)
    (allowOver : Bool) (grow : Nat → Nat) (vf : α → Int) (ord1 ord2 : Nat → List Int → List Int)
    (hord2 : ∀ i l, (ord2 i l).Perm l) (items : List α) :
    ∃ st, solversH br maxV allowOver grow vf ord1 ord2 items = some st ∧ NoAlias st ∧
      readMap st.heap st.dp = some (solversV br maxV allowOver vf ord1 ord2 items) :=
  solversH_spec br maxV allowOver grow vf ord1 ord2 hord2 items

/-- Soundness, for every iteration order, tie-breaker and growth policy: the returned map
has distinct keys, every stored selection is a sub-selection of the items (each item at
most once) whose total is its key, and without `allowOverOnce` no key exceeds `maxValue`. -/
theorem c18_solvers_sound {α : Type} (br : Option (List α → List α → Bool)) (maxV : Int)
    (allowOver : Bool) (grow : Nat → Nat) (vf : α → Int) (ord1 ord2 : Nat → List Int → List Int)
    (hord1 : ∀ i l, (ord1 i l).Perm l) (hord2 : ∀ i l, (ord2 i l).Perm l)
    (items : List α) (hpos : ∀ x ∈ items, 0 < vf x) (hmax : 0 ≤ maxV) :
    ∃ st m, solversH br maxV allowOver grow vf ord1 ord2 items = some st ∧
      readMap st.heap st.dp = some m ∧ (keys m).Nodup ∧
      (∀ e ∈ m, e.2.Sublist items ∧ isum vf e.2 = e.1) ∧
      (allowOver = false → ∀ k ∈ keys m, k ≤ maxV) := by
  obtain ⟨st, h1, _, h3⟩ := solversH_spec br maxV allowOver grow vf ord1 ord2 hord2 items
  obtain ⟨a, b, _, d, _⟩ := solversV_spec br maxV allowOver vf ord1 ord2 hord1 hord2 items
    (fun x hx => Int.le_of_lt (hpos x hx)) (fun _ => hpos)
  exact ⟨st, _, h1, h3, a, b, fun hn k hk => by rcases d hn k hk with h | h <;> omega⟩

/-- Completeness: every total `≤ maxValue` attained by some sub-selection is a key (so the
keys `≤ maxValue` are exactly the attainable totals `≤ maxValue`), and with
`allowOverOnce` the least attainable total above `maxValue` is a key as well. -/
theorem c18_solvers_complete {α : Type} (br : Option (List α → List α → Bool)) (maxV : Int)
    (allowOver : Bool) (grow : Nat → Nat) (vf : α → Int) (ord1 ord2 : Nat → List Int → List Int)
    (hord1 : ∀ i l, (ord1 i l).Perm l) (hord2 : ∀ i l, (ord2 i l).Perm l)
    (items : List α) (hpos : ∀ x ∈ items, 0 < vf x) :
    ∃ st m, solversH br maxV allowOver grow vf ord1 ord2 items = some st ∧
      readMap st.heap st.dp = some m ∧
      (∀ t, t ≤ maxV → (t ∈ keys m ↔ Att vf items t)) ∧
      (allowOver = true → ∀ t, Att vf items t → maxV < t →
        (∀ a, Att vf items a → maxV < a → t ≤ a) → t ∈ keys m) := by
  obtain ⟨st, h1, _, h3⟩ := solversH_spec br maxV allowOver grow vf ord1 ord2 hord2 items
  obtain ⟨_, b, c, _, e⟩ := solversV_spec br maxV allowOver vf ord1 ord2 hord1 hord2 items
    (fun x hx => Int.le_of_lt (hpos x hx)) (fun _ => hpos)
  refine ⟨st, _, h1, h3, ?_, e⟩
  intro t ht
  constructor
  · intro hk
    obtain ⟨e', he', rfl⟩ := List.mem_map.mp hk
    exact ⟨e'.2, (b e' he').1, (b e' he').2⟩
  · intro ha; exact c t ha ht

/-- Order independence of what is observed: for any two choices of the iteration orders,
the cell stored under a key `k` is the same whenever `k` is at most every attainable total
above `maxValue` (`InK`) — that is, for every `k ≤ maxValue` and for the least attainable
total above `maxValue`.  (Together with `c18_pool_no_alias` this is also the content of the
map returned by the heap-level model.)  This is what the correspondence check compares,
Go's map order being real randomness. -/
theorem c18_solvers_order_independent {α : Type} (br : Option (List α → List α → Bool)) (maxV : Int)
    (allowOver : Bool) (vf : α → Int) (ord1 ord2 ord1' ord2' : Nat → List Int → List Int)
    (hord1 : ∀ i l, (ord1 i l).Perm l) (hord2 : ∀ i l, (ord2 i l).Perm l)
    (hord1' : ∀ i l, (ord1' i l).Perm l) (hord2' : ∀ i l, (ord2' i l).Perm l)
    (items : List α) (hpos : ∀ x ∈ items, 0 < vf x) (k : Int)
    (hk : ∀ a, Att vf items a → maxV < a → k ≤ a) :
    alLookup k (solversV br maxV allowOver vf ord1 ord2 items) =
      alLookup k (solversV br maxV allowOver vf ord1' ord2' items) :=
  solversV_order_indep br maxV allowOver vf ord1 ord2 ord1' ord2' hord1 hord2 hord1' hord2' items
    (fun x hx => Int.le_of_lt (hpos x hx)) (fun _ => hpos) k hk

/-- The iteration orders the executable driver derives from a seed are permutations, so the
runs compared with the Go code are instances of the theorems above. -/
theorem c18_driver_orders_are_permutations (seed : Nat) (l : List Int) : (permute seed l).Perm l :=
  permute_perm seed l

/-- Non-vacuity: values 2, 3, 3 with `maxValue = 4`, overshoot allowed, an accepting
tie-breaker (so the pool is exercised), reversed iteration orders. -/
example : (solversH (some fun _ _ => true) 4 true (fun n => n) (fun x : Int => x)
      (fun _ l => l.reverse) (fun _ l => l.reverse) [2, 3, 3]).bind (fun st => readMap st.heap st.dp) =
    some [(0, []), (2, [2]), (3, [3]), (5, [2, 3])] := by decide

/-! ### Best / BestAllowMinOverflow -/

/-- `Best(m)` on a map with distinct keys, for every iteration order: `nil` iff no key is
`≤ m`, otherwise the selection stored under the greatest key `≤ m`. -/
theorem c18_best_spec {β : Type} (ord : List Int → List Int) (s : List (Int × β)) (m : Int)
    (hn : (keys s).Nodup) (hp : (ord (keys s)).Perm (keys s))
    (hb : ∀ k ∈ keys s, m - k < maxInt) :
    match best ord s m with
    | none => ∀ e ∈ s, m < e.1
    | some v => ∃ k, (k, v) ∈ s ∧ k ≤ m ∧ ∀ e ∈ s, e.1 ≤ m → e.1 ≤ k :=
  best_spec ord s m hn hp hb

/-- `BestAllowMinOverflow(m)`, for every iteration order: `nil` iff the map is empty;
otherwise the entry of key `m` if present, else of the least key above `m` if there is
one, else of the greatest key. -/
theorem c18_bestOverflow_spec {β : Type} (ord : List Int → List Int) (s : List (Int × β)) (m : Int)
    (hn : (keys s).Nodup) (hp : (ord (keys s)).Perm (keys s))
    (hb : ∀ k ∈ keys s, m - k < maxInt) :
    match bestO ord s m with
    | none => s = []
    | some v => ∃ k, (k, v) ∈ s ∧
        (k = m ∨
         (m ∉ keys s ∧ m < k ∧ ∀ e ∈ s, m < e.1 → k ≤ e.1) ∨
         (m ∉ keys s ∧ (∀ e ∈ s, e.1 < m) ∧ ∀ e ∈ s, e.1 ≤ k)) :=
  bestO_spec ord s m hn hp hb

/-- Non-vacuity: keys 8 and 12, `m = 10`, both visiting orders. -/
example : best id [(8, "a"), (12, "b")] 10 = some "a" ∧ best List.reverse [(8, "a"), (12, "b")] 10 = some "a" ∧
    bestO id [(8, "a"), (12, "b")] 10 = some "b" ∧ bestO List.reverse [(8, "a"), (12, "b")] 10 = some "b" := by
  decide

/-! ### FindDpSolvers followed by Best / BestAllowMinOverflow (end to end)

The last sentence of the FindDpSolvers clause: the map returned by the heap-level run
(`solversH`, read back through the heap), queried at the same `maxValue`, for every iteration
order of the three map loops, every tie-breaker and growth policy.  `maxV < maxInt` is the
only guard beyond the domain of the property (`minDiff` starts at `math.MaxInt`). -/

/-- `FindDpSolvers(maxV, items, …).Best(maxV)` is never `nil`: it is a sub-selection (each
item at most once) whose total is `≤ maxV` and is the largest attainable total `≤ maxV`. -/
theorem c18_best_of_solvers {α : Type} (br : Option (List α → List α → Bool)) (maxV : Int)
    (allowOver : Bool) (grow : Nat → Nat) (vf : α → Int) (ord1 ord2 : Nat → List Int → List Int)
    (hord1 : ∀ i l, (ord1 i l).Perm l) (hord2 : ∀ i l, (ord2 i l).Perm l)
    (ord : List Int → List Int) (hord : ∀ l, (ord l).Perm l)
    (items : List α) (hpos : ∀ x ∈ items, 0 < vf x) (hmax : 0 ≤ maxV) (hbig : maxV < maxInt) :
    ∃ st m sel, solversH br maxV allowOver grow vf ord1 ord2 items = some st ∧
      readMap st.heap st.dp = some m ∧ best ord m maxV = some sel ∧
      sel.Sublist items ∧ isum vf sel ≤ maxV ∧
      ∀ t, Att vf items t → t ≤ maxV → t ≤ isum vf sel := by
  obtain ⟨st, h1, _, h3⟩ := solversH_spec br maxV allowOver grow vf ord1 ord2 hord2 items
  obtain ⟨sel, h⟩ := best_of_solvers br maxV allowOver vf ord1 ord2 hord1 hord2 ord hord items
    hpos hmax hbig
  exact ⟨st, _, sel, h1, h3, h⟩

/-- `FindDpSolvers(maxV, items, valueFunc, true, …).BestAllowMinOverflow(maxV)` is never
`nil`: a sub-selection whose total is exactly `maxV` if `maxV` is attainable; otherwise the
smallest attainable total above `maxV` if some total above `maxV` is attainable; otherwise
(everything attainable lies below `maxV`) the largest attainable total. -/
theorem c18_bestOverflow_of_solvers {α : Type} (br : Option (List α → List α → Bool)) (maxV : Int)
    (grow : Nat → Nat) (vf : α → Int) (ord1 ord2 : Nat → List Int → List Int)
    (hord1 : ∀ i l, (ord1 i l).Perm l) (hord2 : ∀ i l, (ord2 i l).Perm l)
    (ord : List Int → List Int) (hord : ∀ l, (ord l).Perm l)
    (items : List α) (hpos : ∀ x ∈ items, 0 < vf x) (hmax : 0 ≤ maxV) (hbig : maxV < maxInt) :
    ∃ st m sel, solversH br maxV true grow vf ord1 ord2 items = some st ∧
      readMap st.heap st.dp = some m ∧ bestO ord m maxV = some sel ∧
      sel.Sublist items ∧
      (Att vf items maxV → isum vf sel = maxV) ∧
      (¬ Att vf items maxV → (∃ a, Att vf items a ∧ maxV < a) →
        maxV < isum vf sel ∧ ∀ a, Att vf items a → maxV < a → isum vf sel ≤ a) ∧
      (¬ Att vf items maxV → (¬ ∃ a, Att vf items a ∧ maxV < a) →
        isum vf sel < maxV ∧ ∀ t, Att vf items t → t ≤ isum vf sel) := by
  obtain ⟨st, h1, _, h3⟩ := solversH_spec br maxV true grow vf ord1 ord2 hord2 items
  obtain ⟨sel, h⟩ := bestO_of_solvers br maxV vf ord1 ord2 hord1 hord2 ord hord items
    hpos hmax hbig
  exact ⟨st, _, sel, h1, h3, h⟩

/-- Non-vacuity: values 2, 3, 3 and `maxValue = 4` (not attainable: totals are 0 2 3 5 6 8):
`Best` gives total 3, `BestAllowMinOverflow` the smallest overshoot 5; with `maxValue = 9`
nothing overshoots and `BestAllowMinOverflow` gives the largest total 8. -/
example : best List.reverse (solversV none 4 true (fun x : Int => x) (fun _ l => l) (fun _ l => l.reverse) [2, 3, 3]) 4
      = some [3] ∧
    bestO List.reverse (solversV none 4 true (fun x : Int => x) (fun _ l => l) (fun _ l => l.reverse) [2, 3, 3]) 4
      = some [2, 3] ∧
    bestO id (solversV none 9 true (fun x : Int => x) (fun _ l => l.reverse) (fun _ l => l) [2, 3, 3]) 9
      = some [2, 3, 3] := by decide

/-! ### Go `int` (64 bits) versus the unbounded integers of the models

All theorems above compute in `Int`.  They are statements about the Go code under the guard
`absSum f items < 2^63` (sum of the absolute values of the weights resp. values; for the
property's positive values simply "the sum of all values is `< 2^63`"), and `0 ≤ limit < 2^63`
(a Go `int`).  Beyond the guard Go wraps around and the property does not hold of the code. -/

/-- The guard, explicitly: (1) the total of every sub-selection lies within `±absSum` and hence
fits a Go `int`; (2) the only addition in `Knapsack` (`dp[i-w].score + value`, for a table cell
satisfying the invariant of the correctness proof) and (3) the only addition in `FindDpSolvers`
(`currentValue + value`, for a sound map entry) produce the total of a sub-selection — so under
the guard no sum formed by the code overflows, and table scores, map keys and the optimum fit. -/
theorem c18_int64_guard {α : Type} (f : α → Int) (items : List α)
    (hg : absSum f items < (2 : Int) ^ 63) :
    (∀ t : List α, t.Sublist items → fitsInt64 (isum f t)) ∧
    (∀ (wf : α → Nat) (pre : List α) (i : Nat) (src : Cell α) (x : α), CellGood wf f pre i src →
      src.1 + f x = isum f (src.2 ++ [x]) ∧ (src.2 ++ [x]).Sublist (pre ++ [x])) ∧
    (∀ (pre : List α) (e : Int × List α) (x : α), EntrySound f pre e →
      e.1 + f x = isum f (e.2 ++ [x]) ∧ (e.2 ++ [x]).Sublist (pre ++ [x])) :=
  ⟨totals_fit_int64 f items hg, fun wf pre i src x g => knap_addition_is_total wf f pre i src x g,
   fun pre e x g => solv_addition_is_total f pre e x g⟩

/-- `Knapsack` under the guard: the returned selection is valid and optimal (as above) and its
value, like the value of every competing selection, is a Go `int`. -/
theorem c18_knapsack_int64 {α : Type} (br : Option (List α → List α → Bool)) (wf vf : α → Int)
    (W : Int) (items : List α) (hW : 0 ≤ W) (hw : ∀ x ∈ items, 0 ≤ wf x)
    (hg : absSum vf items < (2 : Int) ^ 63) :
    ∃ sel, knapsackGo br wf vf W items = some sel ∧ sel.Sublist items ∧ isum wf sel ≤ W ∧
      fitsInt64 (isum vf sel) ∧
      ∀ t : List α, t.Sublist items → isum wf t ≤ W → isum vf t ≤ isum vf sel ∧ fitsInt64 (isum vf t) := by
  obtain ⟨sel, h1, h2, h3, h4⟩ := knapsackGo_spec br wf vf W items hW hw
  exact ⟨sel, h1, h2, h3, totals_fit_int64 vf items hg sel h2,
    fun t ht hwt => ⟨h4 t ht hwt, totals_fit_int64 vf items hg t ht⟩⟩

/-- `FindDpSolvers` under the guard (positive values whose sum is `< 2^63`): every key of the
returned map is a Go `int`. -/
theorem c18_solvers_int64 {α : Type} (br : Option (List α → List α → Bool)) (maxV : Int)
    (allowOver : Bool) (vf : α → Int) (ord1 ord2 : Nat → List Int → List Int)
    (hord1 : ∀ i l, (ord1 i l).Perm l) (hord2 : ∀ i l, (ord2 i l).Perm l)
    (items : List α) (hpos : ∀ x ∈ items, 0 < vf x) (hg : absSum vf items < (2 : Int) ^ 63) :
    ∀ e ∈ solversV br maxV allowOver vf ord1 ord2 items, fitsInt64 e.1 := by
  obtain ⟨_, b, _, _, _⟩ := solversV_spec br maxV allowOver vf ord1 ord2 hord1 hord2 items
    (fun x hx => Int.le_of_lt (hpos x hx)) (fun _ => hpos)
  intro e he
  obtain ⟨hs, hsum⟩ := b e he
  rw [← hsum]
  exact totals_fit_int64 vf items hg e.2 hs

-- at the guard: two values 2^62 and 2^62 - 1 (sum 2^63 - 1) still fit; their total is a Go int
example : absSum (fun x : Int => x) [4611686018427387904, 4611686018427387903] < (2 : Int) ^ 63 ∧
    knapsackGo none (fun _ => 1) (fun x : Int => x) 2 [4611686018427387904, 4611686018427387903]
      = some [4611686018427387904, 4611686018427387903] := by decide

/-! ### Go `int`: the 64-bit twin (arguments at the edge of `int`)

`knapsack64 add` performs the `int` arithmetic of `Knapsack` the way the machine does: `maxWeight+1`,
`i-w`, `i--` wrap around (`wrap64`), `make` with a negative length and every index outside the
table panic (`Run.panic`), the score addition is `add` (`add64` = the machine's, `(· + ·)` = the
ideal one).  `solversVA add` is `FindDpSolvers` with its one addition `currentValue + value` = `add`. -/

/-- WEIGHTS NEED NO GUARD.  For every 64-bit limit `W < math.MaxInt` (so that `maxWeight+1` is an
`int`) and ALL 64-bit weights — `math.MaxInt`, `1<<62`, zero, negative — the wrapping index
arithmetic of the code computes exactly what the ideal-integer model `knapsackGo` computes (the
same selection, or a panic exactly where the model panics; the model never runs out of fuel):
the code compares `i >= w` before it forms `i-w` and never adds a weight to anything.  So all
Knapsack theorems above hold of the code for arbitrarily large weights; a change that SUMS weights
(a remaining-weight bound, `i+w`, a total-weight shortcut) leaves this theorem's reach. -/
theorem c18_knapsack_int64_weights {α : Type} (br : Option (List α → List α → Bool)) (wf vf : α → Int)
    (W : Int) (items : List α) (hW : fitsInt64 W) (hW' : W < maxInt)
    (hw : ∀ x ∈ items, fitsInt64 (wf x)) :
    knapsack64 (· + ·) br wf vf W items = Run.ofOption (knapsackGo br wf vf W items) := by
  rw [fitsInt64_iff] at hW
  unfold maxInt at hW'
  exact knapsack64_eq (· + ·) br wf vf W items hW.1 hW'
    (fun x hx => (fitsInt64_iff _).mp (hw x hx)) (fun _ _ _ => rfl)

/-- VALUES ARE SUMMED, under the guard.  With the machine's wrapping addition for
`dp[i-w].score + value` as well, the twin equals the ideal-integer model whenever the sum of the
absolute values is `< 2^63` (every sum the code forms is then the total of a sub-selection and
fits) — again for all 64-bit weights and limits `< math.MaxInt`. -/
theorem c18_knapsack_int64_exact {α : Type} (br : Option (List α → List α → Bool)) (wf vf : α → Int)
    (W : Int) (items : List α) (hW : fitsInt64 W) (hW' : W < maxInt)
    (hw : ∀ x ∈ items, fitsInt64 (wf x)) (hg : absSum vf items < (2 : Int) ^ 63) :
    knapsack64 add64 br wf vf W items = Run.ofOption (knapsackGo br wf vf W items) := by
  rw [fitsInt64_iff] at hW
  unfold maxInt at hW'
  refine knapsack64_eq add64 br wf vf W items hW.1 hW'
    (fun x hx => (fitsInt64_iff _).mp (hw x hx)) ?_
  intro t x ht
  apply add64_of_fits
  have := totals_fit_int64 vf items hg (t ++ [x]) ht
  rw [isum_snoc] at this
  exact this

/-- The property clause, stated directly on the 64-bit twin: for a limit `0 ≤ W < math.MaxInt`,
non-negative 64-bit weights of ANY size and values under the guard, the wrapping code returns a
selection (no panic, enough fuel) that uses each item at most once, whose TRUE total weight (an
unbounded sum — it may exceed every `int`) is within the limit, and whose value is maximal among
all such selections. -/
theorem c18_knapsack_int64_property {α : Type} (br : Option (List α → List α → Bool)) (wf vf : α → Int)
    (W : Int) (items : List α) (hW : 0 ≤ W) (hW' : W < maxInt)
    (hw : ∀ x ∈ items, 0 ≤ wf x ∧ fitsInt64 (wf x)) (hg : absSum vf items < (2 : Int) ^ 63) :
    ∃ sel, knapsack64 add64 br wf vf W items = Run.ok sel ∧ sel.Sublist items ∧ isum wf sel ≤ W ∧
      ∀ t : List α, t.Sublist items → isum wf t ≤ W → isum vf t ≤ isum vf sel := by
  obtain ⟨sel, h1, h2, h3, h4⟩ := knapsackGo_spec br wf vf W items hW (fun x hx => (hw x hx).1)
  refine ⟨sel, ?_, h2, h3, h4⟩
  have hf : fitsInt64 W := by
    rw [fitsInt64_iff]; unfold maxInt at hW'; omega
  rw [c18_knapsack_int64_exact br wf vf W items hf hW' (fun x hx => (hw x hx).2) hg, h1]
  rfl

/-- `FindDpSolvers` with the machine's wrapping `currentValue + value` returns the same map as with
the ideal addition, for positive values whose sum is `< 2^63` (the guard: here values ARE summed),
every `maxValue` (up to and including `math.MaxInt`: it is only compared), every iteration order and
tie-breaker. -/
theorem c18_solvers_int64_exact {α : Type} (br : Option (List α → List α → Bool)) (maxV : Int)
    (allowOver : Bool) (vf : α → Int) (ord1 ord2 : Nat → List Int → List Int)
    (hord1 : ∀ i l, (ord1 i l).Perm l) (hord2 : ∀ i l, (ord2 i l).Perm l)
    (items : List α) (hpos : ∀ x ∈ items, 0 < vf x) (hg : absSum vf items < (2 : Int) ^ 63) :
    solversVA add64 br maxV allowOver vf ord1 ord2 items = solversV br maxV allowOver vf ord1 ord2 items := by
  refine solversVA_eq add64 br maxV allowOver vf ord1 ord2 hord1 hord2 items hpos ?_
  intro t x ht
  apply add64_of_fits
  have := totals_fit_int64 vf items hg (t ++ [x]) ht
  rw [isum_snoc] at this
  exact this

-- limit 10, weights 4, MaxInt, MaxInt, 6: the two unpackable items in the middle do not disturb the
-- optimum {4/5, 6/6}; four items of weight 2^62 neither; a negative weight and the limit -1 panic
example : knapsack64 add64 none (fun x : Int × Int => x.1) (fun x => x.2) 10
      [(4, 5), (9223372036854775807, 1), (9223372036854775807, 1), (6, 6)] = Run.ok [(4, 5), (6, 6)] ∧
    knapsack64 add64 none (fun x : Int × Int => x.1) (fun x => x.2) 7
      [(4611686018427387904, 3), (4, 5), (4611686018427387904, 3), (3, 4), (4611686018427387904, 3),
        (4611686018427387904, 3)] = Run.ok [(4, 5), (3, 4)] ∧
    knapsack64 add64 none (fun x : Int × Int => x.1) (fun x => x.2) 3 [(1, 2), (-1, 4)] = Run.panic ∧
    knapsack64 add64 none (fun x : Int × Int => x.1) (fun x => x.2) (-1) [(1, 2)] = Run.panic ∧
    knapsack64 add64 none (fun x : Int × Int => x.1) (fun x => x.2) (-1) [] = Run.panic := by decide

-- what a SUM of such weights would be on the machine: MaxInt + MaxInt = -2, 4·2^62 = 0, 2^62 + 2^62 =
-- MinInt — and beyond the value guard the twin really differs from the ideal model (2^62 + 2^62 wraps
-- to MinInt, so the second item is not taken): the guard of `c18_knapsack_int64_exact` is needed
example : wrap64 (9223372036854775807 + 9223372036854775807) = -2 ∧
    wrap64 (4 * 4611686018427387904) = 0 ∧
    wrap64 (4611686018427387904 + 4611686018427387904) = -9223372036854775808 ∧
    knapsack64 add64 none (fun _ : Int => 1) (fun x => x) 2 [4611686018427387904, 4611686018427387904]
      = Run.ok [4611686018427387904] ∧
    knapsackGo none (fun _ : Int => 1) (fun x => x) 2 [4611686018427387904, 4611686018427387904]
      = some [4611686018427387904, 4611686018427387904] := by decide

-- subset sums at the guard: values 2^63 - 8, 3, 4 (total 2^63 - 1 = MaxInt), maxValue = MaxInt
example : solversVA add64 none 9223372036854775807 false (fun x : Int => x) (fun _ l => l) (fun _ l => l.reverse)
      [9223372036854775800, 3, 4] =
    solversV none 9223372036854775807 false (fun x : Int => x) (fun _ l => l) (fun _ l => l.reverse)
      [9223372036854775800, 3, 4] ∧
    (solversVA add64 none 9223372036854775807 false (fun x : Int => x) (fun _ l => l) (fun _ l => l.reverse)
      [9223372036854775800, 3, 4]).length = 8 := by decide

/-! ### GetMaximalCliques: the shared `P`/`X` array -/

/-- The top-level call `BronKerbosch(R, P, P[:0])` on the shared array returns what the
recursion on separate values returns, and leaves the array as it was: every in-place
`append(X, v)` writes `arr[k] := v` with `v` the value just read from `arr[k]`
(`set_self_of_getElem?`). -/
theorem c18_top_alias_safe {V : Type} (nb : V → V → Bool) (P : List V) :
    bkTop nb P = (bk nb (P.length + 2) [] P []).map (fun cs => (cs, P)) :=
  bkTop_eq nb P

example : bkTop (fun a b : Nat => (a, b) ∈ [(0, 1), (1, 0), (1, 2), (2, 1)]) [2, 0, 1] =
    some ([[2, 1], [0, 1]], [2, 0, 1]) := by decide

/-! ### BronKerbosch: `R` on its shared backing array -/

/-- `append(R, v)` writes into R's array in place whenever it has spare capacity (the array
allocated by `GetMaximalCliques` always has), so sibling branches of the loop overwrite the
same cell and deeper frames write behind it.  Harmless: for EVERY initial heap `h`, every slice
`r` that reads `R` in it (any capacity, any junk in the spare cells), every reallocation policy
`grow` and every fuel, the heap-level recursion `bkH` emits exactly the cliques of the
value-level recursion `bk` (each clique is the value of `R` at the moment it is copied out),
changes nothing of the pre-existing heap except cells at index `≥ len(R)` of R's own array
(`Frame`), and the caller's `R` still reads the same afterwards. -/
theorem c18_R_alias_safe {V : Type} (nb : V → V → Bool) (grow : Nat → Nat) (fuel : Nat)
    (h : RHeap V) (r : RSlice) (R P X : List V) (hr : readR h r = some R) :
    match bk nb fuel R P X with
    | none => bkH nb grow fuel h r P X = none
    | some out => ∃ h', bkH nb grow fuel h r P X = some (h', out) ∧ Frame h h' r ∧
        readR h' r = some R := by
  have := bkH_refines nb grow fuel h r R P X hr
  cases hb : bk nb fuel R P X with
  | none => rw [hb] at this; exact this
  | some out =>
    rw [hb] at this
    obtain ⟨h', h1, f, _⟩ := this
    exact ⟨h', h1, f, readR_frame f hr⟩

/-- `GetMaximalCliques`: `R := make([]T, 0, cap)` (any capacity, any content `junk` of the spare
cells) gives the cliques of `maximalCliques` (the value-level top call, `c18_cliques_exact`). -/
theorem c18_R_alias_safe_top {V : Type} (nb : V → V → Bool) (grow : Nat → Nat) (junk P : List V) :
    (bkH nb grow (P.length + 2) [junk] ⟨0, 0⟩ P []).map (·.2) = maximalCliques nb P := by
  have hr : readR [junk] (⟨0, 0⟩ : RSlice) = some ([] : List V) := by simp [readR]
  have := bkH_refines nb grow (P.length + 2) [junk] ⟨0, 0⟩ [] P [] hr
  simp only [maximalCliques, bkTop_eq]
  cases hb : bk nb (P.length + 2) [] P [] with
  | none => rw [hb] at this; simp [this]
  | some out =>
    rw [hb] at this
    obtain ⟨h', h1, _, _⟩ := this
    simp [h1]

-- triangle 0-1-2 + pendant 3: capacity 4 (always in place), capacity 1 (reallocates), capacity 0
example : let nb : Nat → Nat → Bool := fun a b => decide ((a, b) ∈ [(0, 1), (1, 0), (1, 2), (2, 1), (0, 2), (2, 0), (2, 3), (3, 2)])
    (bkH nb (fun n => n) 6 [[9, 9, 9, 9]] ⟨0, 0⟩ [0, 1, 2, 3] []).map (·.2) = some [[0, 1, 2], [2, 3]] ∧
    (bkH nb (fun _ => 0) 6 [[9]] ⟨0, 0⟩ [0, 1, 2, 3] []).map (·.2) = some [[0, 1, 2], [2, 3]] ∧
    (bkH nb (fun n => n + 1) 6 [[]] ⟨0, 0⟩ [3, 2, 0, 1] []).map (·.2) = some [[3, 2], [2, 0, 1]] := by
  decide

/-! ### Maximal cliques

The graph: vertex list `P` (the keys of `g.Nodes` in map iteration order — any duplicate-free
list), adjacency `nb v u = (u ∈ g.Nodes[v])`, simple (`nb v v = false`) and undirected
(`nb a b = nb b a`).  `MaxClique nb P C`: all of `C` are vertices, pairwise adjacent, and
every other vertex has a non-neighbour in `C`.  Cliques are compared as sets (`SameSet`). -/

/-- The invariant of the recursion: if `R` is a clique of vertices, `R`, `P`, `X` are
duplicate-free and pairwise disjoint and `P ∪ X` is the set of common neighbours of `R`
(`BKPre`), then `BronKerbosch(R, P, X)` terminates within fuel `|P| + 1` and reports exactly
the maximal cliques `C` with `R ⊆ C ⊆ R ∪ P`, each of the form `R ++ Q` with `Q` a
duplicate-free list from `P`, no two equal as sets (`BKPost`). -/
theorem c18_bk_invariant {V : Type} (nb : V → V → Bool) (U : List V) (irrefl : ∀ v, nb v v = false)
    (symm : ∀ a b, nb a b = nb b a) (fuel : Nat) (R P X : List V) (hf : P.length < fuel)
    (hpre : BKPre nb U R P X) :
    ∃ out, bk nb fuel R P X = some out ∧ BKPost nb U R P out :=
  bk_spec nb U irrefl symm fuel R P X hf hpre

/-- `GetMaximalCliques` (the top-level call on the shared `P`/`X` array, for every map
iteration order `P`) returns duplicate-free vertex lists that are maximal cliques, every
maximal clique is among them, and no two of them are the same clique. -/
theorem c18_cliques_exact {V : Type} (nb : V → V → Bool) (irrefl : ∀ v, nb v v = false)
    (symm : ∀ a b, nb a b = nb b a) (P : List V) (hP : P.Nodup) :
    ∃ out, maximalCliques nb P = some out ∧
      (∀ o ∈ out, o.Nodup ∧ MaxClique nb P o) ∧
      (∀ C, MaxClique nb P C → ∃ o ∈ out, SameSet o C) ∧
      out.Pairwise (fun a b => ¬ SameSet a b) :=
  maximalCliques_spec nb irrefl symm P hP

/-- The adjacency relation the executable driver hands to the model (per-vertex lists, so that
graphs on a hundred vertices run fast) is exactly "the arc `(v, u)` was parsed", for every
vertex `v < n` — so the large-graph runs compared with the Go code are instances of the
theorems above. -/
theorem c18_driver_adjacency (n : Nat) (edges : List (Nat × Nat)) (v u : Nat) (hv : v < n) :
    ((adjLists n edges).getD v []).contains u = edges.contains (v, u) :=
  adjLists_contains n edges v u hv

example : ((adjLists 3 [(0, 1), (1, 0), (1, 2), (2, 1)]).getD 1 []).contains 2 = true ∧
    ((adjLists 3 [(0, 1), (1, 0), (1, 2), (2, 1)]).getD 0 []).contains 2 = false := by decide

/-! ### The construction API (order of public calls)

`gBuild ops` is the zero-value `Graph` after the calls `ops` (`AddNode`, `AddEdge`,
`AddUndirectedEdge` as coded: `Nodes map[T]map[T]struct{}` as an association list). -/

/-- After ANY sequence of construction calls, `u ∈ g.Nodes[v]` iff some call contributed the
arc `(v, u)` (`AddEdge(v, u)`, `AddUndirectedEdge(v, u)` or `AddUndirectedEdge(u, v)`), and `v`
is a key of `g.Nodes` iff some call created it — so the graph is a function of the SET of
calls: their order, their multiplicity, and whether an arc was first added one-way and later
completed by `AddUndirectedEdge` do not matter. -/
theorem c18_graph_api (ops : List GOp) (v u : Nat) :
    (gNb (gBuild ops) v u = true ↔ ∃ op ∈ ops, op.arc v u) ∧
    (gIsNode (gBuild ops) v = true ↔ ∃ op ∈ ops, op.node v) :=
  ⟨gNb_build ops v u, gIsNode_build ops v⟩

/-- `Init` forgets everything: whatever calls came before it, the graph after `Init` followed by
the calls `after` is the graph built by `after` alone on a fresh value (in particular the
adjacency right after `Init` is empty and there are no nodes). -/
theorem c18_graph_api_init (before after : List GOp) (v u : Nat) :
    gNb (after.foldl gStep (gInit (gBuild before))) v u = gNb (gBuild after) v u ∧
    gIsNode (after.foldl gStep (gInit (gBuild before))) v = gIsNode (gBuild after) v ∧
    gNb (gInit (gBuild before)) v u = false ∧ gKeys (gInit (gBuild before)) = [] :=
  ⟨rfl, rfl, rfl, rfl⟩

/-- Two call sequences with the same set of calls build the same graph. -/
theorem c18_graph_api_order_irrelevant (ops ops' : List GOp) (h : ∀ op, op ∈ ops ↔ op ∈ ops')
    (v u : Nat) :
    gNb (gBuild ops) v u = gNb (gBuild ops') v u ∧ gIsNode (gBuild ops) v = gIsNode (gBuild ops') v := by
  constructor
  · rw [Bool.eq_iff_iff, gNb_build, gNb_build]
    exact ⟨fun ⟨o, ho, ha⟩ => ⟨o, (h o).mp ho, ha⟩, fun ⟨o, ho, ha⟩ => ⟨o, (h o).mpr ho, ha⟩⟩
  · rw [Bool.eq_iff_iff, gIsNode_build, gIsNode_build]
    exact ⟨fun ⟨o, ho, ha⟩ => ⟨o, (h o).mp ho, ha⟩, fun ⟨o, ho, ha⟩ => ⟨o, (h o).mpr ho, ha⟩⟩

/-- The graph is undirected as soon as every one-way `AddEdge(a, b)` is matched by a call that
contributes the reverse arc (before or after it) — in particular a graph built with
`AddUndirectedEdge` only, or `AddEdge(a, b)` followed by `AddUndirectedEdge(a, b)`. -/
theorem c18_graph_api_undirected (ops : List GOp)
    (h : ∀ a b, GOp.addEdge a b ∈ ops → ∃ op ∈ ops, op.arc b a) (v u : Nat) :
    gNb (gBuild ops) v u = gNb (gBuild ops) u v := by
  have key : ∀ v u, (∃ op ∈ ops, op.arc v u) → ∃ op ∈ ops, op.arc u v := by
    rintro v u ⟨op, ho, ha⟩
    cases op with
    | addNode x => exact absurd ha (by simp [GOp.arc])
    | addEdge a b =>
      obtain ⟨rfl, rfl⟩ := ha
      exact h a b ho
    | addUndirected a b =>
      refine ⟨_, ho, ?_⟩
      rcases ha with ⟨rfl, rfl⟩ | ⟨rfl, rfl⟩
      · exact Or.inr ⟨rfl, rfl⟩
      · exact Or.inl ⟨rfl, rfl⟩
  rw [Bool.eq_iff_iff, gNb_build, gNb_build]
  exact ⟨key v u, key u v⟩

/-- The executable driver: the arc list it derives from the edge tokens (`a-b` =
`AddUndirectedEdge(a, b)`, `a>b` = `AddEdge(a, b)`) answers adjacency exactly like the graph
built by those calls — whatever order and mixture the Go harness uses to issue them. -/
theorem c18_driver_graph (n : Nat) (toks : List String) (es : List (Nat × Nat))
    (h : parseEdges n toks = some es) :
    ∃ ops : List GOp, toks.mapM (parseEdgeOp n) = some ops ∧
      ∀ v u, es.contains (v, u) = gNb (gBuild ops) v u := by
  obtain ⟨ops, h1, rfl⟩ := parseEdges_eq n toks es h
  exact ⟨ops, h1, contains_flatMap_arcsOf ops⟩

-- AddEdge(0,1) then AddUndirectedEdge(0,1) (the mixed order), with and without AddNode calls
example : gNb (gBuild [.addEdge 0 1, .addUndirected 0 1]) 1 0 = true ∧
    gNb (gBuild [.addNode 1, .addUndirected 1 0, .addNode 0, .addEdge 0 1]) 0 1 = true ∧
    gNb (gBuild [.addEdge 0 1]) 1 0 = false ∧ gIsNode (gBuild [.addEdge 0 1]) 1 = false := by decide

/-- Non-vacuity: triangle 0-1-2 with pendant 3 at 2, two vertex orders. -/
example : maximalCliques (fun a b : Nat => (a, b) ∈ [(0, 1), (1, 0), (1, 2), (2, 1), (0, 2), (2, 0), (2, 3), (3, 2)])
      [0, 1, 2, 3] = some [[0, 1, 2], [2, 3]] ∧
    maximalCliques (fun a b : Nat => (a, b) ∈ [(0, 1), (1, 0), (1, 2), (2, 1), (0, 2), (2, 0), (2, 3), (3, 2)])
      [3, 2, 0, 1] = some [[3, 2], [2, 0, 1]] := by decide


/-- Changes of the graph that do NOT go through the methods of the queried value (history ops
`cnode`/`cund`/`carc`: the same calls on a by-value copy of the struct, which shares the exported
`Nodes` map; `mnode`/`marc`: direct writes to that map) are the updates `gAddNode`/`gAddEdge` already
covered by `c18_graph_api`; the one new update is the direct delete `mdel v`
(`delete(g.Nodes, v)` + `delete(ns, v)` in every remaining set): afterwards `v` is no node, no arc
starts or ends at `v`, and nothing else changed — so a query is answered from the CURRENT map. -/
theorem c18_graph_api_delnode (g : GMap) (v a b : Nat) :
    gNb (gDelNode g v) a b = (gNb g a b && (a != v) && (b != v)) ∧
    gIsNode (gDelNode g v) a = (gIsNode g a && (a != v)) :=
  ⟨gNb_delNode g v a b, gIsNode_delNode g v a⟩

-- triangle 1-2-3: after the direct delete of 2 the only maximal clique is {1, 3}
example : maximalCliques (gNb (gDelNode (gBuild [.addUndirected 1 2, .addUndirected 2 3, .addUndirected 1 3]) 2))
      (gKeys (gDelNode (gBuild [.addUndirected 1 2, .addUndirected 2 3, .addUndirected 1 3]) 2)) = some [[1, 3]] := by
  decide

/-! ### Regenerated tie (wave 9): `algz/dp.go` translated by `go2lean` on every run

`Golib.Gen.Trans.C18.Knapsack` / `slicesPool_Get` / `slicesPool_Put` are regenerated from the tree under
verification (`Golib/Gen/TransC18.lean`).  The variadic `tieBreaker ...func(old, new []T) bool` is the
list parameter `List (Option (List T → List T → Bool))` (`none` = a nil function value); the buffer
idiom `x = append(x[:0], ys...)` is translated by value under the syntactic ownership discipline stated
in the generated header (the hand-written heap-level counterpart is `c18_knapsack_buffers`). -/

/-- **Tie (Knapsack).** For every limit `maxWeight ≥ 0`, item list, weight and value function and
variadic breaker list the regenerated definition returns exactly what the hand-written model
`knapsackGo` (the subject of `c18_knapsack*`) returns, panics exactly where the model is `none`
(an item of negative weight), and never runs out of fuel.  The breaker is element 0 of the list when
there is one (`Trans.brOf`; `[]` and a nil first element: no breaker). -/
theorem c18_trans_Knapsack {T : Type} [Inhabited T] (maxWeight : Int) (h0 : 0 ≤ maxWeight)
    (items : List T) (wf vf : T → Int) (tb : List (Option (List T → List T → Bool))) :
    Golib.Gen.Trans.C18.Knapsack maxWeight items wf vf tb
      = Trans.ofOpt (knapsackGo (Trans.brOf tb) wf vf maxWeight items) :=
  Trans.trans_knapsack maxWeight h0 items wf vf tb

-- non-vacuity: the tie at a tie-breaking instance (breaker passed / nil passed / nothing passed) and
-- at a negative weight (panic)
example : Golib.Gen.Trans.C18.Knapsack 5 [(2, 3), (3, 4), (5, 7)] (fun x : Int × Int => x.1) (fun x => x.2)
      [some fun _ _ => true] = .ok [(5, 7)] ∧
    Golib.Gen.Trans.C18.Knapsack 5 [(2, 3), (3, 4), (5, 7)] (fun x : Int × Int => x.1) (fun x => x.2)
      [none] = .ok [(2, 3), (3, 4)] ∧
    Golib.Gen.Trans.C18.Knapsack 5 [(2, 3), (3, 4), (5, 7)] (fun x : Int × Int => x.1) (fun x => x.2)
      [] = .ok [(2, 3), (3, 4)] ∧
    Golib.Gen.Trans.C18.Knapsack 5 [(2, 3), (-1, 4)] (fun x : Int × Int => x.1) (fun x => x.2)
      [] = .panic := by decide

/-- The property clause restated on the regenerated definition: whatever `Knapsack` returns is a
sub-selection within the limit — through the tie, every theorem about `knapsackGo` speaks about the
current source text. -/
theorem c18_trans_Knapsack_some {T : Type} [Inhabited T] (maxWeight : Int) (h0 : 0 ≤ maxWeight)
    (items : List T) (wf vf : T → Int) (tb : List (Option (List T → List T → Bool))) (r : List T)
    (h : Golib.Gen.Trans.C18.Knapsack maxWeight items wf vf tb = .ok r) :
    knapsackGo (Trans.brOf tb) wf vf maxWeight items = some r := by
  rw [c18_trans_Knapsack maxWeight h0] at h
  cases hk : knapsackGo (Trans.brOf tb) wf vf maxWeight items with
  | none => rw [hk] at h; cases h
  | some a => rw [hk] at h; cases h; rfl

/-- **Tie (slicesPool.Put).** The pool is the list of recycled slices; `Put` appends at the end. -/
theorem c18_trans_slicesPool_Put {T : Type} [Inhabited T] (p : Golib.Gen.Trans.C18.slicesPool T) (s : List T) :
    Golib.Gen.Trans.C18.slicesPool_Put p s = .ok { entries := p.entries ++ [s] } :=
  Trans.trans_pool_put p s

/-- **Tie (slicesPool.Get).** `Get` never panics; it hands out an EMPTY slice and removes the last
entry (when there is one) — the value-level reading of `poolGet` (`st.pool.dropLast`, `len := 0`). -/
theorem c18_trans_slicesPool_Get {T : Type} [Inhabited T] (p : Golib.Gen.Trans.C18.slicesPool T) (c : Int) :
    Golib.Gen.Trans.C18.slicesPool_Get p c = .ok ([], { entries := p.entries.dropLast }) :=
  Trans.trans_pool_get p c

example : Golib.Gen.Trans.C18.slicesPool_Get ⟨[[1, 2], [3]]⟩ 4 = .ok (([] : List Nat), ⟨[[1, 2]]⟩) ∧
    Golib.Gen.Trans.C18.slicesPool_Get ⟨[]⟩ 4 = .ok (([] : List Nat), ⟨[]⟩) ∧
    Golib.Gen.Trans.C18.slicesPool_Put ⟨[[1, 2]]⟩ [3] = .ok (⟨[[1, 2], [3]]⟩ : Golib.Gen.Trans.C18.slicesPool Nat) := by
  decide

end Golib.C18
