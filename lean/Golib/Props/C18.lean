/-
C18 — Knapsack, subset-sum solvers and maximal-clique enumeration are exact.
ONLY property theorems and non-vacuity examples live here; helper lemmas are in
`Golib/Proof/C18*.lean`, the models (mirroring `/repo/algz/dp.go`, `/repo/algz/graph.go`)
in `Golib/Model/C18*.lean`.

Conventions: a *selection* of `items` is a `List.Sublist` of it (`sel <+ items`): it picks
positions of `items` in order, each at most once — so equal items at different positions are
different items.  `isum f l` is the total of `f` over `l`.
-/
import Golib.Proof.C18Knap
import Golib.Proof.C18Best
import Golib.Proof.C18Top

namespace Golib.C18

/-! ### Knapsack -/

/-- `Knapsack` never panics on a non-negative limit and non-negative weights and returns a
sub-selection (each item at most once) whose weight is within the limit — for every
tie-breaker (including none). -/
theorem c18_knapsack_valid {α : Type} (br : Option (List α → List α → Bool)) (wf vf : α → Int)
    (W : Int) (items : List α) (hW : 0 ≤ W) (hw : ∀ x ∈ items, 0 ≤ wf x) :
    ∃ sel, knapsackGo br wf vf W items = some sel ∧ sel.Sublist items ∧ isum wf sel ≤ W := by
  obtain ⟨sel, h1, h2, h3, _⟩ := knapsackGo_spec br wf vf W items hW hw
  exact ⟨sel, h1, h2, h3⟩

/-- … and its value is maximal among all sub-selections within the limit.  (Holds for
arbitrary values; the property only asks for positive ones.) -/
theorem c18_knapsack_optimal {α : Type} (br : Option (List α → List α → Bool)) (wf vf : α → Int)
    (W : Int) (items : List α) (hW : 0 ≤ W) (hw : ∀ x ∈ items, 0 ≤ wf x) :
    ∃ sel, knapsackGo br wf vf W items = some sel ∧
      ∀ t : List α, t.Sublist items → isum wf t ≤ W → isum vf t ≤ isum vf sel := by
  obtain ⟨sel, h1, _, _, h4⟩ := knapsackGo_spec br wf vf W items hW hw
  exact ⟨sel, h1, h4⟩

/-- Non-vacuity: three items (weight, value), limit 5, a tie between {0,1} and {2} broken
towards the newer list. -/
example : knapsackGo (some fun _ _ => true) (fun x : Int × Int => x.1) (fun x => x.2) 5
    [(2, 3), (3, 4), (5, 7)] = some [(5, 7)] := by decide

/-! ### Best / BestAllowMinOverflow -/

/-- `Best(m)` on a map with distinct keys, for every iteration order: `nil` iff no key is
`≤ m`, otherwise the selection stored under the greatest key `≤ m`. -/
theorem c18_best_spec {β : Type} (ord : List Int → List Int) (s : List (Int × β)) (m : Int)
    (hn : (keys s).Nodup) (hp : (ord (keys s)).Perm (keys s))
    (hb : ∀ k ∈ keys s, m - k < maxInt) :
    match best ord s m with
    | none => ∀ e ∈ s, m < e.1
    | some v => ∃ k, (k, v) ∈ s ∧ k ≤ m ∧ ∀ e ∈ s, e.1 ≤ m → e.1 ≤ k :=
  best_spec ord s m hn hp hb

/-- `BestAllowMinOverflow(m)`, for every iteration order: `nil` iff the map is empty;
otherwise the entry of key `m` if present, else of the least key above `m` if there is
one, else of the greatest key. -/
theorem c18_bestOverflow_spec {β : Type} (ord : List Int → List Int) (s : List (Int × β)) (m : Int)
    (hn : (keys s).Nodup) (hp : (ord (keys s)).Perm (keys s))
    (hb : ∀ k ∈ keys s, m - k < maxInt) :
    match bestO ord s m with
    | none => s = []
    | some v => ∃ k, (k, v) ∈ s ∧
        (k = m ∨
         (m ∉ keys s ∧ m < k ∧ ∀ e ∈ s, m < e.1 → k ≤ e.1) ∨
         (m ∉ keys s ∧ (∀ e ∈ s, e.1 < m) ∧ ∀ e ∈ s, e.1 ≤ k)) :=
  bestO_spec ord s m hn hp hb

/-- Non-vacuity: keys 8 and 12, `m = 10`, both visiting orders. -/
example : best id [(8, "a"), (12, "b")] 10 = some "a" ∧ best List.reverse [(8, "a"), (12, "b")] 10 = some "a" ∧
    bestO id [(8, "a"), (12, "b")] 10 = some "b" ∧ bestO List.reverse [(8, "a"), (12, "b")] 10 = some "b" := by
  decide

/-! ### GetMaximalCliques: the shared `P`/`X` array -/

/-- The top-level call `BronKerbosch(R, P, P[:0])` on the shared array returns what the
recursion on separate values returns, and leaves the array as it was: every in-place
`append(X, v)` writes `arr[k] := v` with `v` the value just read from `arr[k]`
(`set_self_of_getElem?`). -/
theorem c18_top_alias_safe {V : Type} (nb : V → V → Bool) (P : List V) :
    bkTop nb P = (bk nb (P.length + 2) [] P []).map (fun cs => (cs, P)) :=
  bkTop_eq nb P

example : bkTop (fun a b : Nat => (a, b) ∈ [(0, 1), (1, 0), (1, 2), (2, 1)]) [2, 0, 1] =
    some ([[2, 1], [0, 1]], [2, 0, 1]) := by decide

end Golib.C18
