/-
C16 — Bits / Bitmap / dsz.Bits are sets of unsigned integers.  ONLY property theorems
and non-vacuity examples live here; helper lemmas are in `Golib/Proof/C16*.lean`.

Abstraction: `mem ws n` (bit `n % 64` of word `n / 64`, `false` beyond the array) and
`members ws` (the ascending member list); `card ws = (members ws).length`.
All theorems hold for word arrays of every length, every `n : Nat` and every history.
In the functional model the *other* operand of a bulk operation is a value and is
unchanged by construction; that the Go code does not write through `other.set` is part
of the tie (the harness re-reads the other operand after every bulk operation).
-/
import Golib.Proof.C16Refine

namespace Golib.C16

/-- Representation: `Contains` never panics and answers "bit `n % 64` of word `n / 64`";
the ascending member list contains exactly those numbers and is strictly ascending. -/
theorem c16_abs (b : Bitmap) (n : Nat) :
    b.contains n = some (mem b.set n) ∧
    mem b.set n = (wordAt b.set (n / 64)).getLsbD (n % 64) ∧
    (n ∈ members b.set ↔ mem b.set n = true) ∧
    (members b.set).Pairwise (· < ·) :=
  ⟨contains_spec b n, rfl, mem_members b.set n, members_sorted b.set⟩

/-- `Add` (Bitmap and Bits): never panics, returns "was not a member", afterwards exactly
`n` has been added, the cached length stays the cardinality. -/
theorem c16_add (b : Bits) (n : Nat) (hi : b.Inv) :
    ∃ b', b.add n = some (b', !mem b.bm.set n) ∧ b'.Inv ∧
      (∀ m, mem b'.bm.set m = (decide (n = m) || mem b.bm.set m)) ∧
      b.bm.add n = some (b'.bm, !mem b.bm.set n) := by
  obtain ⟨bm', h, hm, _⟩ := add_spec b.bm n
  cases hc : mem b.bm.set n
  · have h' : b.add n = some (⟨b.length + 1, bm'⟩, true) := by simp [Bits.add, h, hc]
    exact ⟨_, by simpa using h', Bits.add_inv _ _ _ _ hi h', by simpa [hc] using hm, by simpa [hc] using h⟩
  · have h' : b.add n = some (⟨b.length, bm'⟩, false) := by simp [Bits.add, h, hc]
    exact ⟨_, by simpa using h', Bits.add_inv _ _ _ _ hi h', by simpa [hc] using hm, by simpa [hc] using h⟩

/-- `Remove`: never panics, returns "was a member", afterwards exactly `n` is gone. -/
theorem c16_remove (b : Bits) (n : Nat) (hi : b.Inv) :
    ∃ b', b.remove n = some (b', mem b.bm.set n) ∧ b'.Inv ∧
      (∀ m, mem b'.bm.set m = (!decide (n = m) && mem b.bm.set m)) ∧
      b.bm.remove n = some (b'.bm, mem b.bm.set n) := by
  obtain ⟨bm', h, hm, _⟩ := remove_spec b.bm n
  cases hc : mem b.bm.set n
  · have h' : b.remove n = some (⟨b.length, bm'⟩, false) := by simp [Bits.remove, h, hc]
    exact ⟨_, by simpa using h', Bits.remove_inv _ _ _ _ hi h', by simpa [hc] using hm, by simpa [hc] using h⟩
  · have h' : b.remove n = some (⟨b.length - 1, bm'⟩, true) := by simp [Bits.remove, h, hc]
    exact ⟨_, by simpa using h', Bits.remove_inv _ _ _ _ hi h', by simpa [hc] using hm, by simpa [hc] using h⟩

/-- `Len` equals the cardinality at all times: `Bitmap.Len()` always recounts correctly,
and the cached `Bits.length` equals the cardinality after every history of element
operations and bulk operations with other operands of any word length. -/
theorem c16_len_cache :
    (∀ b : Bitmap, b.len = (card b.set : Int)) ∧
    (∀ b : Bits, Bits.Reachable b → b.len = (card b.bm.set : Int)) ∧
    (∀ (b : Bits) (o : Bitmap), (b.diff o).Inv ∧ (b.intersect o).Inv ∧ (b.merge o).Inv) :=
  ⟨len_eq_card, fun b h => Bits.reachable_inv b h,
   fun b o => ⟨Bits.diff_inv b o, Bits.intersect_inv b o, Bits.merge_inv b o⟩⟩

/-- `Diff` / `Intersect` / `Merge` compute set difference / intersection / union for
operands of any two word lengths; resulting word counts as coded. -/
theorem c16_bulk (a o : Bitmap) (n : Nat) :
    mem (a.diff o).set n = (mem a.set n && !mem o.set n) ∧
    mem (a.intersect o).set n = (mem a.set n && mem o.set n) ∧
    mem (a.merge o).set n = (mem a.set n || mem o.set n) ∧
    (a.diff o).set.length = a.set.length ∧ (a.intersect o).set.length = a.set.length ∧
    (a.merge o).set.length = max a.set.length o.set.length :=
  ⟨mem_diff _ _ n, mem_intersect _ _ n, mem_merge _ _ n,
   length_diff _ _, length_intersect _ _, length_merge _ _⟩

/-- The same for `Bits` (whose bulk methods also refresh the cache). -/
theorem c16_bulk_bits (a : Bits) (o : Bitmap) :
    (a.diff o).bm = a.bm.diff o ∧ (a.intersect o).bm = a.bm.intersect o ∧
    (a.merge o).bm = a.bm.merge o := ⟨rfl, rfl, rfl⟩

/-- `Range` (and `Bits.All`, the same double loop) calls `fn` on the members in ascending
order and stops after the first call answering `false`. -/
theorem c16_range_eq (b : Bitmap) (fn : Nat → Bool) :
    b.range fn = (callsUntil fn (members b.set)).1 ∧
    b.range (fun _ => true) = members b.set := by
  have h := rangeWords_spec fn b.set 0
  have h2 := rangeWords_spec (fun _ => true) b.set 0
  rw [callsUntil_all] at h2
  exact ⟨h, h2⟩

/-- A fresh iterator drained with `Next`/`Value` yields exactly the ascending member list
(word boundaries included), i.e. the same as `Range`. -/
theorem c16_iter_eq (b : Bitmap) :
    b.iterAll = members b.set ∧ b.iterAll = b.range (fun _ => true) := by
  rw [(c16_range_eq b (fun _ => true)).2]
  exact ⟨iterAll_eq_members b, iterAll_eq_members b⟩

/-- Resumable form: an iterator whose next scan starts at `(i, j)` delivers exactly the
members `≥ 64·i + j` that are still to come (`pending`), whatever happened before. -/
theorem c16_iter_resume (ws : List W) (it : Iter) (fuel : Nat)
    (hj : (if it.read then it.j + 1 else it.j) ≤ 64)
    (hfuel : (pending ws it.i (if it.read then it.j + 1 else it.j)).length < fuel) :
    Iter.drain ws fuel it = pending ws it.i (if it.read then it.j + 1 else it.j) :=
  drain_spec ws fuel it hj hfuel

/-- `Grow` and `Cap` never change membership or cardinality, `Cap() = 64·words > n` after
`Grow(n)`, every member is below `Cap()`, and `Clone` has the same content. -/
theorem c16_grow_cap_clone (b : Bitmap) (n : Nat) :
    (∀ m, mem (b.grow n).set m = mem b.set m) ∧ card (b.grow n).set = card b.set ∧
    b.cap = ((64 * b.set.length : Nat) : Int) ∧ (n : Int) < (b.grow n).cap ∧
    (∀ m, mem b.set m = true → (m : Int) < b.cap) ∧
    b.clone.set = b.set := by
  have hg := grow_spec b n
  refine ⟨hg.1, grow_card b n, by simp [Bitmap.cap, shl6], ?_, ?_, by simp [Bitmap.clone]⟩
  · simp only [Bitmap.cap, shl6, hg.2]; omega
  · intro m hm
    simp only [Bitmap.cap, shl6]
    by_cases h : m / 64 < b.set.length
    · omega
    · simp [mem, wordAt_of_ge b.set (m / 64) (by omega)] at hm

/-- `dsz.Bits` is the same machine as `setz.Bits` minus return values: every operation is
the `setz.Bits` operation on the same fields, so all theorems above transfer. -/
theorem c16_dsz_same (d : DBits) (n : Nat) :
    d.add n = (d.toBits.add n).map (fun r => r.1.toD) ∧
    d.remove n = (d.toBits.remove n).map (fun r => r.1.toD) ∧
    d.contains n = d.toBits.bm.contains n ∧
    (d.grow n).toBits = { d.toBits with bm := d.toBits.bm.grow n } ∧
    d.len = d.toBits.len ∧ d.cap = d.toBits.bm.cap :=
  ⟨DBits.add_eq d n, DBits.remove_eq d n, DBits.contains_eq d n, DBits.grow_eq d n,
   DBits.len_eq d, DBits.cap_eq d⟩

/-! ### non-vacuity -/

/-- a three-word set with members on both sides of the word boundaries 63|64 and 127|128 -/
def exWords : List W := [1#64 <<< 63, 3#64, 1#64]

example : members exWords = [63, 64, 65, 128] := by decide
example : (⟨exWords⟩ : Bitmap).iterAll = [63, 64, 65, 128] := by decide
example : (⟨4, ⟨exWords⟩⟩ : Bits).Inv := by
  show (4 : Int) = ((card exWords : Nat) : Int)
  decide
example : mem (mergeWords [5#64] exWords) 128 = true ∧ mem (diffWords exWords [0#64, 1#64]) 64 = false ∧
    mem (intersectWords exWords [1#64 <<< 63]) 65 = false := by decide
example : Bits.Reachable (Bits.merge Bits.empty ⟨exWords⟩) := .step _ _ .init (.merge _ _)
/-- a resumed iterator (already delivered 63, standing at word 0 bit 63) -/
example : Iter.drain exWords 10 ⟨0, 63, true⟩ = [64, 65, 128] := by decide

end Golib.C16
