/-
C16 — Bits / Bitmap / dsz.Bits are sets of unsigned integers.  ONLY property theorems
and non-vacuity examples live here; helper lemmas are in `Golib/Proof/C16*.lean`.

Abstraction: `mem ws n` (bit `n % 64` of word `n / 64`, `false` beyond the array) and
`members ws` (the ascending member list); `card ws = (members ws).length`.
All theorems hold for word arrays of every length, every `n : Nat` and every history.

Two machines: the by-value specification machine (`C16Spec.lean`, registers hold word lists)
about which the per-operation theorems speak, and the ONE-MEMORY machine (`C16Heap.lean`:
one heap, registers are slice headers `(base, len, cap)`, `other` operands are header copies,
`append` writes in place within capacity) which the oracle executes and which is tied to the
Go code on every run.  "The other bulk operand is untouched" and "Clone is independent of its
source" are theorems about the one-memory machine (`c16_noninterference`,
`c16_clone_independent`), where sharing would be visible; `c16_heap_refines` transports the
per-operation theorems to it.
-/
import Golib.Proof.C16Bank
import Golib.Proof.C16Trans

namespace Golib.C16

/-- Representation: `Contains` never panics and answers "bit `n % 64` of word `n / 64`";
the ascending member list contains exactly those numbers and is strictly ascending. -/
theorem c16_abs (b : Bitmap) (n : Nat) :
    b.contains n = some (mem b.set n) ∧
    mem b.set n = (wordAt b.set (n / 64)).getLsbD (n % 64) ∧
    (n ∈ members b.set ↔ mem b.set n = true) ∧
    (members b.set).Pairwise (· < ·) :=
  ⟨contains_spec b n, rfl, mem_members b.set n, members_sorted b.set⟩

/-- `Add` (Bitmap and Bits): never panics, returns "was not a member", afterwards exactly
`n` has been added, the cached length stays the cardinality. -/
theorem c16_add (b : Bits) (n : Nat) (hi : b.Inv) :
    ∃ b', b.add n = some (b', !mem b.bm.set n) ∧ b'.Inv ∧
      (∀ m, mem b'.bm.set m = (decide (n = m) || mem b.bm.set m)) ∧
      b.bm.add n = some (b'.bm, !mem b.bm.set n) := by
  obtain ⟨bm', h, hm, _⟩ := add_spec b.bm n
  cases hc : mem b.bm.set n
  · have h' : b.add n = some (⟨b.length + 1, bm'⟩, true) := by simp [Bits.add, h, hc]
    exact ⟨_, by simpa using h', Bits.add_inv _ _ _ _ hi h', by simpa [hc] using hm, by simpa [hc] using h⟩
  · have h' : b.add n = some (⟨b.length, bm'⟩, false) := by simp [Bits.add, h, hc]
    exact ⟨_, by simpa using h', Bits.add_inv _ _ _ _ hi h', by simpa [hc] using hm, by simpa [hc] using h⟩

/-- `Remove`: never panics, returns "was a member", afterwards exactly `n` is gone. -/
theorem c16_remove (b : Bits) (n : Nat) (hi : b.Inv) :
    ∃ b', b.remove n = some (b', mem b.bm.set n) ∧ b'.Inv ∧
      (∀ m, mem b'.bm.set m = (!decide (n = m) && mem b.bm.set m)) ∧
      b.bm.remove n = some (b'.bm, mem b.bm.set n) := by
  obtain ⟨bm', h, hm, _⟩ := remove_spec b.bm n
  cases hc : mem b.bm.set n
  · have h' : b.remove n = some (⟨b.length, bm'⟩, false) := by simp [Bits.remove, h, hc]
    exact ⟨_, by simpa using h', Bits.remove_inv _ _ _ _ hi h', by simpa [hc] using hm, by simpa [hc] using h⟩
  · have h' : b.remove n = some (⟨b.length - 1, bm'⟩, true) := by simp [Bits.remove, h, hc]
    exact ⟨_, by simpa using h', Bits.remove_inv _ _ _ _ hi h', by simpa [hc] using hm, by simpa [hc] using h⟩

/-- `Len` equals the cardinality at all times: `Bitmap.Len()` always recounts correctly,
and the cached `Bits.length` equals the cardinality after every history of element
operations and bulk operations with other operands of any word length. -/
theorem c16_len_cache :
    (∀ b : Bitmap, b.len = (card b.set : Int)) ∧
    (∀ b : Bits, Bits.Reachable b → b.len = (card b.bm.set : Int)) ∧
    (∀ (b : Bits) (o : Bitmap), (b.diff o).Inv ∧ (b.intersect o).Inv ∧ (b.merge o).Inv) :=
  ⟨len_eq_card, fun b h => Bits.reachable_inv b h,
   fun b o => ⟨Bits.diff_inv b o, Bits.intersect_inv b o, Bits.merge_inv b o⟩⟩

/-- `Diff` / `Intersect` / `Merge` compute set difference / intersection / union for
operands of any two word lengths; resulting word counts as coded. -/
theorem c16_bulk (a o : Bitmap) (n : Nat) :
    mem (a.diff o).set n = (mem a.set n && !mem o.set n) ∧
    mem (a.intersect o).set n = (mem a.set n && mem o.set n) ∧
    mem (a.merge o).set n = (mem a.set n || mem o.set n) ∧
    (a.diff o).set.length = a.set.length ∧ (a.intersect o).set.length = a.set.length ∧
    (a.merge o).set.length = max a.set.length o.set.length :=
  ⟨mem_diff _ _ n, mem_intersect _ _ n, mem_merge _ _ n,
   length_diff _ _, length_intersect _ _, length_merge _ _⟩

/-- The same for `Bits` (whose bulk methods also refresh the cache). -/
theorem c16_bulk_bits (a : Bits) (o : Bitmap) :
    (a.diff o).bm = a.bm.diff o ∧ (a.intersect o).bm = a.bm.intersect o ∧
    (a.merge o).bm = a.bm.merge o := ⟨rfl, rfl, rfl⟩

/-- `Range` (and `Bits.All`, the same double loop) calls `fn` on the members in ascending
order and stops after the first call answering `false`. -/
theorem c16_range_eq (b : Bitmap) (fn : Nat → Bool) :
    b.range fn = (callsUntil fn (members b.set)).1 ∧
    b.range (fun _ => true) = members b.set := by
  have h := rangeWords_spec fn b.set 0
  have h2 := rangeWords_spec (fun _ => true) b.set 0
  rw [callsUntil_all] at h2
  exact ⟨h, h2⟩

/-- A fresh iterator drained with `Next`/`Value` yields exactly the ascending member list
(word boundaries included), i.e. the same as `Range`. -/
theorem c16_iter_eq (b : Bitmap) :
    b.iterAll = members b.set ∧ b.iterAll = b.range (fun _ => true) := by
  rw [(c16_range_eq b (fun _ => true)).2]
  exact ⟨iterAll_eq_members b, iterAll_eq_members b⟩

/-- Resumable form: an iterator whose next scan starts at `(i, j)` delivers exactly the
members `≥ 64·i + j` that are still to come (`pending`), whatever happened before. -/
theorem c16_iter_resume (ws : List W) (it : Iter) (fuel : Nat)
    (hj : (if it.read then it.j + 1 else it.j) ≤ 64)
    (hfuel : (pending ws it.i (if it.read then it.j + 1 else it.j)).length < fuel) :
    Iter.drain ws fuel it = pending ws it.i (if it.read then it.j + 1 else it.j) :=
  drain_spec ws fuel it hj hfuel

/-- `Grow` and `Cap` never change membership or cardinality, `Cap() = 64·words > n` after
`Grow(n)`, every member is below `Cap()`, and `Clone` has the same content. -/
theorem c16_grow_cap_clone (b : Bitmap) (n : Nat) :
    (∀ m, mem (b.grow n).set m = mem b.set m) ∧ card (b.grow n).set = card b.set ∧
    b.cap = ((64 * b.set.length : Nat) : Int) ∧ (n : Int) < (b.grow n).cap ∧
    (∀ m, mem b.set m = true → (m : Int) < b.cap) ∧
    b.clone.set = b.set := by
  have hg := grow_spec b n
  refine ⟨hg.1, grow_card b n, by simp [Bitmap.cap, shl6], ?_, ?_, by simp [Bitmap.clone]⟩
  · simp only [Bitmap.cap, shl6, hg.2]; omega
  · intro m hm
    simp only [Bitmap.cap, shl6]
    by_cases h : m / 64 < b.set.length
    · omega
    · simp [mem, wordAt_of_ge b.set (m / 64) (by omega)] at hm

/-- `dsz.Bits` is the same machine as `setz.Bits` minus return values: every operation is
the `setz.Bits` operation on the same fields, so all theorems above transfer. -/
theorem c16_dsz_same (d : DBits) (n : Nat) :
    d.add n = (d.toBits.add n).map (fun r => r.1.toD) ∧
    d.remove n = (d.toBits.remove n).map (fun r => r.1.toD) ∧
    d.contains n = d.toBits.bm.contains n ∧
    (d.grow n).toBits = { d.toBits with bm := d.toBits.bm.grow n } ∧
    d.len = d.toBits.len ∧ d.cap = d.toBits.bm.cap :=
  ⟨DBits.add_eq d n, DBits.remove_eq d n, DBits.contains_eq d n, DBits.grow_eq d n,
   DBits.len_eq d, DBits.cap_eq d⟩

/-- **Whole histories against a mathematical set.**  Start from any `Bits` value whose cache
is right (e.g. the zero value) and apply ANY sequence of `Add`/`Remove`/`Grow`/`Diff`/
`Intersect`/`Merge` with any arguments and any other operands (of any word length): no panic,
every `Add`/`Remove` answers what the set `S ↦ S ∪ {n}` / `S ∖ {n}` answers ("membership
changed"), and afterwards `Contains` is the set's membership predicate, `Len` is the number of
members, and `Iter`, `Range` and `All` enumerate exactly the members in ascending order. -/
theorem c16_history (ops : List SOp) (b : Bits) (hi : b.Inv) :
    ∃ b', runAll b ops = some (b', (specAll (mem b.bm.set) ops).2) ∧
      (∀ m, b'.bm.contains m = some ((specAll (mem b.bm.set) ops).1 m)) ∧
      (∀ m, m ∈ members b'.bm.set ↔ (specAll (mem b.bm.set) ops).1 m = true) ∧
      (members b'.bm.set).Pairwise (· < ·) ∧
      b'.len = ((members b'.bm.set).length : Int) ∧ b'.bm.len = ((members b'.bm.set).length : Int) ∧
      b'.bm.iterAll = members b'.bm.set ∧ b'.bm.range (fun _ => true) = members b'.bm.set := by
  obtain ⟨b', hr, hi', hm⟩ := runAll_spec ops b hi
  refine ⟨b', hr, fun m => by rw [contains_spec, hm], fun m => by rw [mem_members, hm],
    members_sorted _, hi', len_eq_card _, iterAll_eq_members _, (c16_range_eq b'.bm (fun _ => true)).2⟩

/-- **The whole register bank against a bank of mathematical sets.**  `memOf s q m` says "m is
a member of register q".  (1) Every successful step — any operation on any of the registers,
any kinds, any operand combination including `x.Merge(x)`, the element-operation loops and the
re-ranged `All()` value, interleaved in any order with iterator operations — transforms the
bank of sets by `specEffect` (the target register gets the set-theoretic result, every other
register keeps its set).  (2) Hence after ANY list of operations the bank holds `specHistory`.
(3) Observations in every state: `Contains` answers the bank's predicate; a drained fresh
iterator yields the ascending members; one `Next` of a live iterator, whatever was done to its
register since it was made, answers false iff nothing `≥` its cursor is left and otherwise
moves to the least such member, which `Value` reports.  (4) In every bank state reachable from
zero-valued registers of any kinds every cached length is exact, and `Len()` of every register
answers the number of members.  (`Range`/`All`: `c16_range_eq`.) -/
theorem c16_bank_history :
    (∀ (s s' : St) (op : Op) (out : String), step s op = .ok s' out →
      ∀ q m, memOf s' q m = specEffect op (memOf s) q m) ∧
    (∀ (ops : List Op) (s s' : St) (outs : List String), runBank s ops = some (s', outs) →
      ∀ q m, memOf s' q m = specHistory ops (memOf s) q m) ∧
    (∀ (s : St) (r n : Nat) (o : Obj), s.regs[r]? = some o →
      step s (.contains r n) = .ok s (Golib.Proto.showBool (memOf s r n)) ∧
      step s (.iterall r) = .ok s (Golib.Proto.showNats (members o.words)) ∧
      (∀ m, m ∈ members o.words ↔ memOf s r m = true)) ∧
    (∀ (regs0 : List Obj) (s : St),
      (∀ o ∈ regs0, o = .bits Bits.empty ∨ o = .bitmap Bitmap.empty ∨ o = .dsz DBits.empty) →
      BReach regs0 s → BankInv s ∧
        ∀ (r : Nat) (o : Obj), s.regs[r]? = some o →
          step s (.len r) = .ok s (toString ((members o.words).length : Int))) ∧
    (∀ (ws : List W) (it : Iter), (if it.read then it.j + 1 else it.j) ≤ 64 →
      (pending ws it.i (if it.read then it.j + 1 else it.j) = [] ∧ (Iter.next ws it).2 = false) ∨
      (∃ i' j', j' < 64 ∧ Iter.next ws it = (⟨i', j', true⟩, true) ∧
        pending ws it.i (if it.read then it.j + 1 else it.j) = (64 * i' + j') :: pending ws i' (j' + 1) ∧
        (⟨i', j', true⟩ : Iter).value = 64 * i' + j')) :=
  ⟨step_effect, fun ops s s' outs h => runBank_effect ops s s' outs h,
   fun s r n o hr => ⟨obs_contains s r n o hr, obs_iterall s r o hr,
     fun m => by rw [mem_members]; simp [memOf, hr]⟩,
   fun regs0 s h0 hr =>
     have hi := breach_inv regs0 (bankInv_zero regs0 h0) s hr
     ⟨hi, fun r o ho => obs_len s r o ho (hi r o ho)⟩,
   obs_next⟩

/-! ### the one-memory machine -/

/-- **The one-memory machine refines the by-value machine.**  For every growth function of
`append`: (1) from every state satisfying the invariant (headers inside the heap, backing
arrays of different registers pairwise disjoint) every operation — element operations, bulk
operations with any other register INCLUDING the receiver itself, `Clone`, iterators — gives
the same verdict (no panic unless the by-value machine panics, which it never does), prints the
same line and leaves, read through the slice headers, exactly the by-value successor state,
and the invariant holds again; (2) hence every reachable state satisfies the invariant;
(3) hence whole runs print the same lines, starting from zero-valued registers. -/
theorem c16_heap_refines (grow : Nat → Nat → Nat) (kinds : List Kind) :
    (∀ s op, HInv s → Sim op.target s (hstep grow s op) (step s.abs op)) ∧
    (∀ s, HReach grow kinds s → HInv s) ∧
    (∀ ls, hrunOps grow (some (HSt.init kinds)) ls = runOps (some (HSt.init kinds).abs) ls) := by
  refine ⟨fun s op hi => hstep_sim grow s op hi, ?_, fun ls => hrunOps_eq grow ls _ (hinv_init kinds)⟩
  intro s hr
  induction hr with
  | init => exact hinv_init kinds
  | step s s' op out _ hs ih =>
    have := hstep_sim grow s op ih
    rw [hs] at this
    cases h2 : step s.abs op <;> rw [h2] at this <;> simp only [Sim] at this
    exact this.2.2.1

/-- **Non-interference** ("the other operand is left untouched"): in every reachable state,
an operation changes at most its target register (`add/remove/grow r`: `r`; `clone d s`: `d`;
`diff/intersect/merge a b`: `a`).  Every OTHER register — in particular the other operand `b`
of a bulk operation and the source of a `Clone` — keeps its slice header and its cached length
and reads the same words from the shared memory afterwards. -/
theorem c16_noninterference (grow : Nat → Nat → Nat) (kinds : List Kind) (s s' : HSt) (op : Op)
    (out : String) (hr : HReach grow kinds s) (hs : hstep grow s op = .ok s' out) :
    ∀ (r : Nat) (o : HObj), op.target ≠ some r → s.regs[r]? = some o →
      s'.regs[r]? = some o ∧ o.hdr.view s'.heap = o.hdr.view s.heap := by
  have hi := (c16_heap_refines grow kinds).2.1 s hr
  have := hstep_sim grow s op hi
  rw [hs] at this
  cases h2 : step s.abs op <;> rw [h2] at this <;> simp only [Sim] at this
  exact this.2.2.2

/-- **Clone is independent of its source**: `*d = s.Clone()` gives `d` the words of `s` in a
backing array disjoint from every other register's; whatever is done to `d` afterwards leaves
`s` as it was, and whatever is done to `s` leaves `d` as it was. -/
theorem c16_clone_independent (grow : Nat → Nat → Nat) (kinds : List Kind) (s s1 s2 : HSt)
    (d src : Nat) (od os : HObj) (op : Op) (out1 out2 : String) (hr : HReach grow kinds s)
    (hne : d ≠ src) (hd : s.regs[d]? = some od) (hsrc : s.regs[src]? = some os)
    (h1 : hstep grow s (.clone d src) = .ok s1 out1) (h2 : hstep grow s1 op = .ok s2 out2) :
    (∃ od1, s1.regs[d]? = some od1 ∧ od1.hdr.view s1.heap = os.hdr.view s.heap ∧
      Disj od1.hdr os.hdr ∧
      (op.target = some src → s2.regs[d]? = some od1 ∧ od1.hdr.view s2.heap = od1.hdr.view s1.heap)) ∧
    (op.target = some d → s2.regs[src]? = some os ∧ os.hdr.view s2.heap = os.hdr.view s.heap) := by
  have hr1 : HReach grow kinds s1 := .step s s1 _ _ hr h1
  have hi1 := (c16_heap_refines grow kinds).2.1 s1 hr1
  have hsrc1 := c16_noninterference grow kinds s s1 _ _ hr h1 src os (by simp [Op.target, hne]) hsrc
  have hlen : d < s.regs.length := by
    rcases Nat.lt_or_ge d s.regs.length with h | h
    · exact h
    · rw [List.getElem?_eq_none h] at hd; cases hd
  -- what `clone` did to register d
  simp only [hstep, hstep1, hd, hsrc] at h1
  split at h1
  · rename_i hk
    simp only [HRes.ok.injEq] at h1
    obtain ⟨rfl, _⟩ := h1
    have hi := (c16_heap_refines grow kinds).2.1 s hr
    have hc := hClone_spec s.heap os.hdr (hi.wf src os hsrc)
    refine ⟨⟨{ od with hdr := (hClone s.heap os.hdr).2 }, by simp [hlen], ?_, ?_, ?_⟩, ?_⟩
    · simpa [Bitmap.clone] using hc.1
    · exact hi1.disj d src _ os hne (by simp [hlen]) hsrc1.1
    · intro ht
      exact c16_noninterference grow kinds _ s2 op out2 hr1 h2 d _ (by simp [ht, Ne.symm hne]) (by simp [hlen])
    · intro ht
      have := c16_noninterference grow kinds _ s2 op out2 hr1 h2 src os (by simp [ht, hne]) hsrc1.1
      exact ⟨this.1, this.2.trans hsrc1.2⟩
  · cases h1

/-! ### non-vacuity -/

/-- a three-word set with members on both sides of the word boundaries 63|64 and 127|128 -/
def exWords : List W := [1#64 <<< 63, 3#64, 1#64]

example : members exWords = [63, 64, 65, 128] := by decide
example : (⟨exWords⟩ : Bitmap).iterAll = [63, 64, 65, 128] := by decide
example : (⟨4, ⟨exWords⟩⟩ : Bits).Inv := by
  show (4 : Int) = ((card exWords : Nat) : Int)
  decide
example : mem (mergeWords [5#64] exWords) 128 = true ∧ mem (diffWords exWords [0#64, 1#64]) 64 = false ∧
    mem (intersectWords exWords [1#64 <<< 63]) 65 = false := by decide
example : Bits.Reachable (Bits.merge Bits.empty ⟨exWords⟩) := .step _ _ .init (.merge _ _)
/-- a history over word boundaries with a bulk operation in the middle -/
example : (runAll Bits.empty [.add 63, .add 64, .add 63, .merge ⟨exWords⟩, .remove 64, .remove 7,
    .intersect ⟨[~~~ 0#64]⟩]).map (fun r => (r.2, members r.1.bm.set, r.1.len)) =
    some ([some true, some true, some false, none, some true, some false, none], [63], 1) := by decide
/-- a bank history over three registers of different kinds with a self-operand and a clone -/
example : (runBank ⟨[.bits Bits.empty, .bitmap Bitmap.empty, .dsz DBits.empty], [none, none]⟩
    [.add 0 63, .add 0 64, .add 2 5, .merge 1 0, .remove 0 64, .diff 1 1, .clone 1 0, .addn 1 100 64 3,
     .contains 1 63, .contains 0 64, .iterall 1, .iterall 2]).map (·.2) =
    some ["true", "true", "ok", "ok", "true", "ok", "ok", "3", "true", "false", "[63 100 164 228]", "[5]"] := by
  decide
/-- a run of the one-memory machine in which register 0 is re-allocated (Merge appends beyond
capacity), register 2 becomes a clone, and `x.Diff(x)` runs on a shared header copy -/
example : (hrunList goGrow8 (HSt.init [.bits, .bits, .bitmap])
    [.add 1 70, .add 0 3, .merge 0 1, .clone 2 0, .add 2 200, .contains 0 200, .contains 2 70,
     .diff 0 0, .contains 0 3, .contains 2 3]).1 =
    ["true", "true", "ok", "ok", "true", "false", "true", "ok", "false", "true"] := by
  decide
/-- …and a reachable state with a non-empty heap in which two registers are live -/
example : ∃ s, HReach goGrow8 [.bits, .bitmap] s ∧ s.heap.length = 3 ∧
    s.regs.map (·.hdr) = [⟨0, 1, 1⟩, ⟨1, 2, 2⟩] :=
  ⟨_, .step _ _ (.add 1 64) _ (.step _ _ (.add 0 1) _ .init rfl) rfl, by decide, by decide⟩
/-- a resumed iterator (already delivered 63, standing at word 0 bit 63) -/
example : Iter.drain exWords 10 ⟨0, 63, true⟩ = [64, 65, 128] := by decide

/-! ### Regenerated tie (wave 8): `setz/bits.go` `Bitmap` methods translated by `go2lean`

`Golib.Gen.Trans.C16.Bitmap_*` are regenerated from the tree under verification on every run
(`Golib/Gen/TransC16.lean`; a pointer receiver is passed and returned as a value).  `ofOpt`/`outOf`
read the model's `Option` (`none` = Go panic) as the outcome of the translated code, `toModel`
is the identity on the word list. -/

/-- TIE: `(*Bitmap).Contains` as translated = the model's `Bitmap.contains`, for every word list
and every `uint` argument. -/
theorem c16_trans_Bitmap_Contains (b : GBitmap) (num : BitVec 64) :
    Golib.Gen.Trans.C16.Bitmap_Contains b num = ofOpt ((toModel b).contains num.toNat) :=
  trans_contains b num

/-- TIE: `(*Bitmap).Remove` as translated = the model's `Bitmap.remove` (result and updated receiver). -/
theorem c16_trans_Bitmap_Remove (b : GBitmap) (num : BitVec 64) :
    Golib.Gen.Trans.C16.Bitmap_Remove b num = outOf ((toModel b).remove num.toNat) :=
  trans_remove b num

/-- TIE: `(*Bitmap).Add` as translated = the model's `Bitmap.add`, growth branch included
(`append(b.set, make([]uint64, grow)...)`). -/
theorem c16_trans_Bitmap_Add (b : GBitmap) (num : BitVec 64) :
    Golib.Gen.Trans.C16.Bitmap_Add b num = outOf ((toModel b).add num.toNat) :=
  trans_add b num

/-- TIE: `(*Bitmap).Len` as translated (a `range` loop over `bits.OnesCount64`) = the model's
`Bitmap.len`; the fuel `len(b.set) + 1` always suffices. -/
theorem c16_trans_Bitmap_Len (b : GBitmap) :
    Golib.Gen.Trans.C16.Bitmap_Len b = .ok ((toModel b).len) :=
  trans_len b

/-- Non-vacuity: adding 70 to the empty bitmap grows it to two words and sets bit 6 of word 1. -/
example : Golib.Gen.Trans.C16.Bitmap_Add ⟨[]⟩ 70#64 = .ok (true, ⟨[0#64, 64#64]⟩) ∧
    Golib.Gen.Trans.C16.Bitmap_Contains ⟨[0#64, 64#64]⟩ 70#64 = .ok true ∧
    Golib.Gen.Trans.C16.Bitmap_Len ⟨[0#64, 64#64]⟩ = .ok 1 := by
  refine ⟨?_, ?_, ?_⟩ <;> decide +kernel

/-! ### Regenerated tie (wave 8), part 2: `Grow`, `Cap`, the bulk operations, and `dsz.Bits`

Same reading as above.  `ofModel`/`ofDModel` are the identity on the fields (model structure ↦ translated
structure).  The bulk operations take `other` BY VALUE: the translation (like `Model/C16Bits.lean`) has no
aliasing, so these ties are about two receivers with separate word arrays; `x.Diff(x)` and the other shared-array
histories are the subject of the one-memory machine (`C16Heap`), not of these theorems.
`setz.Bits` (cached length over an EMBEDDED `Bitmap`) is outside the translator's subset (embedded field) and
keeps the token-hash drift alarm. -/

/-- TIE: `(*Bitmap).Grow` as translated = the model's `Bitmap.grow` (never panics: `grow ≥ 1` in the branch). -/
theorem c16_trans_Bitmap_Grow (b : GBitmap) (n : BitVec 64) :
    Golib.Gen.Trans.C16.Bitmap_Grow b n = .ok (ofModel ((toModel b).grow n.toNat)) :=
  trans_grow b n

/-- TIE: `(*Bitmap).Cap` as translated (`len(b.set) << 6` on the unbounded `Int`) = the model's `Bitmap.cap`. -/
theorem c16_trans_Bitmap_Cap (b : GBitmap) :
    Golib.Gen.Trans.C16.Bitmap_Cap b = .ok ((toModel b).cap) :=
  trans_cap b

/-- TIE: `(*Bitmap).Diff` as translated (a `for` loop with `break`) = the model's `diffWords`, for every pair
of word lists; the fuel `len(b.set) + 1` always suffices and no index panics. -/
theorem c16_trans_Bitmap_Diff (b other : GBitmap) :
    Golib.Gen.Trans.C16.Bitmap_Diff b other = .ok (ofModel ((toModel b).diff (toModel other))) :=
  trans_diff b other

/-- TIE: `(*Bitmap).Intersect` as translated (a `for` loop with `continue`) = the model's `intersectWords`. -/
theorem c16_trans_Bitmap_Intersect (b other : GBitmap) :
    Golib.Gen.Trans.C16.Bitmap_Intersect b other = .ok (ofModel ((toModel b).intersect (toModel other))) :=
  trans_intersect b other

/-- TIE: `(*Bitmap).Merge` as translated (a loop over `other` that appends beyond the receiver's length)
= the model's `mergeWords`; fuel `len(other.set) + 1`. -/
theorem c16_trans_Bitmap_Merge (b other : GBitmap) :
    Golib.Gen.Trans.C16.Bitmap_Merge b other = .ok (ofModel ((toModel b).merge (toModel other))) :=
  trans_merge b other

/-- TIE: `dsz.(*Bits).Grow` as translated = the model's `DBits.grow` (the `length` field untouched). -/
theorem c16_trans_dsz_Bits_Grow (b : GDBits) (n : BitVec 64) :
    Golib.Gen.Trans.C16.Bits_Grow b n = .ok (ofDModel ((toDModel b).grow n.toNat)) :=
  trans_dgrow b n

/-- TIE: `dsz.(*Bits).Add` as translated = the model's `DBits.add` (word list and cached length `++`). -/
theorem c16_trans_dsz_Bits_Add (b : GDBits) (num : BitVec 64) :
    Golib.Gen.Trans.C16.Bits_Add b num = dOutOf ((toDModel b).add num.toNat) :=
  trans_dadd b num

/-- TIE: `dsz.(*Bits).Remove` as translated = the model's `DBits.remove` (cached length `--`). -/
theorem c16_trans_dsz_Bits_Remove (b : GDBits) (num : BitVec 64) :
    Golib.Gen.Trans.C16.Bits_Remove b num = dOutOf ((toDModel b).remove num.toNat) :=
  trans_dremove b num

/-- TIE: `dsz.(*Bits).Contains` as translated = the model's `DBits.contains`. -/
theorem c16_trans_dsz_Bits_Contains (b : GDBits) (num : BitVec 64) :
    Golib.Gen.Trans.C16.Bits_Contains b num = ofOpt ((toDModel b).contains num.toNat) :=
  trans_dcontains b num

/-- TIE: `dsz.(*Bits).Len` as translated = the model's `DBits.len` (the cached field, not a recount). -/
theorem c16_trans_dsz_Bits_Len (b : GDBits) :
    Golib.Gen.Trans.C16.Bits_Len b = .ok ((toDModel b).len) :=
  trans_dlen b

/-- TIE: `dsz.(*Bits).Cap` as translated = the model's `DBits.cap`. -/
theorem c16_trans_dsz_Bits_Cap (b : GDBits) :
    Golib.Gen.Trans.C16.Bits_Cap b = .ok ((toDModel b).cap) :=
  trans_dcap b

/-- Non-vacuity: `Grow(130)` on one word gives three; `Cap` of three words is 192. -/
example : Golib.Gen.Trans.C16.Bitmap_Grow ⟨[5#64]⟩ 130#64 = .ok ⟨[5#64, 0#64, 0#64]⟩ ∧
    Golib.Gen.Trans.C16.Bitmap_Grow ⟨[5#64, 0#64, 0#64]⟩ 130#64 = .ok ⟨[5#64, 0#64, 0#64]⟩ ∧
    Golib.Gen.Trans.C16.Bitmap_Cap ⟨[5#64, 0#64, 0#64]⟩ = .ok 192 := by
  refine ⟨?_, ?_, ?_⟩ <;> decide +kernel
/-- Non-vacuity: the three bulk operations on receivers of different lengths (shorter, longer than `other`). -/
example : Golib.Gen.Trans.C16.Bitmap_Diff ⟨[7#64, 3#64, 9#64]⟩ ⟨[5#64, 1#64]⟩ = .ok ⟨[2#64, 2#64, 9#64]⟩ ∧
    Golib.Gen.Trans.C16.Bitmap_Diff ⟨[7#64]⟩ ⟨[5#64, 1#64]⟩ = .ok ⟨[2#64]⟩ := by
  refine ⟨?_, ?_⟩ <;> decide +kernel
example : Golib.Gen.Trans.C16.Bitmap_Intersect ⟨[7#64, 3#64, 9#64]⟩ ⟨[5#64, 1#64]⟩ = .ok ⟨[5#64, 1#64, 0#64]⟩ ∧
    Golib.Gen.Trans.C16.Bitmap_Intersect ⟨[7#64]⟩ ⟨[5#64, 1#64]⟩ = .ok ⟨[5#64]⟩ := by
  refine ⟨?_, ?_⟩ <;> decide +kernel
example : Golib.Gen.Trans.C16.Bitmap_Merge ⟨[8#64]⟩ ⟨[5#64, 1#64, 2#64]⟩ = .ok ⟨[13#64, 1#64, 2#64]⟩ ∧
    Golib.Gen.Trans.C16.Bitmap_Merge ⟨[8#64, 3#64, 9#64]⟩ ⟨[5#64]⟩ = .ok ⟨[13#64, 3#64, 9#64]⟩ := by
  refine ⟨?_, ?_⟩ <;> decide +kernel
/-- Non-vacuity (`dsz.Bits`): adding 70 to the empty set grows and counts; re-adding does not count;
removing counts down; `Len` is the cached field (here deliberately wrong: 41). -/
example : Golib.Gen.Trans.C16.Bits_Add ⟨0, []⟩ 70#64 = .ok ⟨1, [0#64, 64#64]⟩ ∧
    Golib.Gen.Trans.C16.Bits_Add ⟨1, [0#64, 64#64]⟩ 70#64 = .ok ⟨1, [0#64, 64#64]⟩ ∧
    Golib.Gen.Trans.C16.Bits_Remove ⟨1, [0#64, 64#64]⟩ 70#64 = .ok ⟨0, [0#64, 0#64]⟩ ∧
    Golib.Gen.Trans.C16.Bits_Contains ⟨1, [0#64, 64#64]⟩ 70#64 = .ok true := by
  refine ⟨?_, ?_, ?_, ?_⟩ <;> decide +kernel
example : Golib.Gen.Trans.C16.Bits_Len ⟨41, [0#64, 64#64]⟩ = .ok 41 ∧
    Golib.Gen.Trans.C16.Bits_Cap ⟨41, [0#64, 64#64]⟩ = .ok 128 ∧
    Golib.Gen.Trans.C16.Bits_Grow ⟨41, []⟩ 64#64 = .ok ⟨41, [0#64, 0#64]⟩ := by
  refine ⟨?_, ?_, ?_⟩ <;> decide +kernel


end Golib.C16
