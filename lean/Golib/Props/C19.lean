/-
C19 — Limiter bounds concurrency, runs every task once and survives panics.  ONLY
property theorems and non-vacuity examples live here; helper lemmas are in
`Golib/Proof/C19*.lean`.
-/
import Golib.Model.C19Lim
import Golib.Gen.FactsC19

namespace Golib.C19

/-- THE TIE (regenerated on every run): the statement order the machine `C19Lim` executes is
the order in the current source — `add` = send then `Add(1)`; `done` = `Done()` then
receive; `Go` = `add()` then `go Recover(fn, l.panicHandler, l.done)`; `Recover` = the
outer deferred function (recover → handler; cleanups under an inner deferred recover)
registered before `fn()`; `NewLimiter` = `limit < 1 → 3`, channel capacity `limit`;
untimed `Wait` = `l.w.Wait()`. -/
theorem c19_facts :
    Gen.C19.extractorOK = true ∧
    Gen.C19.limiterFields = ["c:chanstruct{}", "w:sync.WaitGroup", "panicHandler:func(any)"] ∧
    Gen.C19.newLimiterBody = ["if(limit<1){limit=3}", "return &Limiter{c:make(chanstruct{},limit),}"] ∧
    Gen.C19.goBody = ["l.add()", "go Recover(fn,l.panicHandler,l.done)", "return l"] ∧
    Gen.C19.addBody = ["send l.c", "l.w.Add(1)"] ∧
    Gen.C19.doneBody = ["l.w.Done()", "recv l.c"] ∧
    Gen.C19.recoverBody =
      ["defer{if(p:=recover();p!=nil){if(panicFn!=nil){panicFn(p)}else{var buf; buf.Grow(…); buf.WriteString(…); stack(…); fmt.Println(…)}}; if(len(cleanups)==0){return}; var index; defer{if(p:=recover();p!=nil){s:=fmt.Sprintf(…); if(panicFn!=nil){panicFn(s)}else{fmt.Println(…)}}}; range(i,cleanup:cleanups){index=i; cleanup()}}",
       "fn()"] ∧
    Gen.C19.waitUntimedTail = "l.w.Wait()" :=
  ⟨rfl, rfl, rfl, rfl, rfl, rfl, rfl, rfl⟩

/-- `NewLimiter(limit)`: a limit below 1 falls back to 3. -/
theorem c19_default_limit (limit : Int) :
    (newLimiter limit).n = (if limit < 1 then 3 else limit.toNat) ∧ 1 ≤ (newLimiter limit).n := by
  by_cases h : limit < 1 <;> simp [newLimiter, limitOf, h] <;> omega

end Golib.C19
