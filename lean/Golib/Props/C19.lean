/-
C19 — Limiter bounds concurrency, runs every task once and survives panics.  ONLY
property theorems and non-vacuity examples live here; helper lemmas are in
`Golib/Proof/C19*.lean`.
-/
import Golib.Proof.C19Fill
import Golib.Proof.C19Rec
import Golib.Proof.C19Hid
import Golib.Proof.C19Trace
import Golib.Proof.C19Endings
import Golib.Model.C19Log
import Golib.Gen.FactsC19

namespace Golib.C19

/-- THE TIE (regenerated on every run): the statement order the machine `C19Lim` executes is
the order in the current source — `add` = send then `Add(1)`; `done` = `Done()` then
receive; `Go` = `add()` then `go Recover(fn, l.panicHandler, l.done)`; `Recover` = the
outer deferred function (recover → handler; cleanups under an inner deferred recover)
registered before `fn()`; `NewLimiter` = `limit < 1 → 3`, channel capacity `limit`;
untimed `Wait` = `l.w.Wait()`; `Wait(d)` = a helper goroutine blocked in `l.w.Wait()` that
signals a private buffered channel, and a `select` on that channel and `time.After(d)` —
no operation on `l.c`, no `Add`/`Done` (the machine's `waitTimed` step is the identity);
`stack` = `make([]uintptr, deep)`, `runtime.Callers(skip, callers)`, `callers[:n]`, then the
frame loop; `LogPanic` = a closure that calls `stack(&buf, 5, deep)` and then `l.Error`. -/
theorem c19_facts :
    Gen.C19.extractorOK = true ∧
    Gen.C19.limiterFields = ["c:chanstruct{}", "w:sync.WaitGroup", "panicHandler:func(any)"] ∧
    Gen.C19.newLimiterBody = ["if(limit<1){limit=3}", "return &Limiter{c:make(chanstruct{},limit),}"] ∧
    Gen.C19.goBody = ["l.add()", "go Recover(fn,l.panicHandler,l.done)", "return l"] ∧
    Gen.C19.addBody = ["send l.c", "l.w.Add(1)"] ∧
    Gen.C19.doneBody = ["l.w.Done()", "recv l.c"] ∧
    Gen.C19.recoverBody =
      ["defer{if(p:=recover();p!=nil){if(panicFn!=nil){panicFn(p)}else{var buf; buf.Grow(…); buf.WriteString(…); stack(&buf,4,6); fmt.Println(…)}}; if(len(cleanups)==0){return}; var index; defer{if(p:=recover();p!=nil){s:=fmt.Sprintf(…); if(panicFn!=nil){panicFn(s)}else{fmt.Println(…)}}}; range(i,cleanup:cleanups){index=i; cleanup()}}",
       "fn()"] ∧
    Gen.C19.setHandlerBody = ["l.panicHandler=fn", "return l"] ∧
    Gen.C19.waitUntimedTail = "l.w.Wait()" ∧
    Gen.C19.waitTimedBody =
      ["if(len(waitTime)>0){quit:=make(chanstruct{},1); go func(chchan<-struct{}){l.w.Wait()ch<-struct{}{}}(…); select{case recv quit:{} case recv time.After(waitTime[0]):{}}; return}"] ∧
    -- the library's own handler `LogPanic` and the buffer handling of its helper `stack`
    -- (`Golib.Model.C19Log`: `stackBuf`, `logPanicCall`; theorem `c19_logpanic_total`)
    Gen.C19.stackHead =
      ["callers:=make([]uintptr,deep)", "n:=runtime.Callers(skip,callers)",
       "frames:=runtime.CallersFrames(callers[:n])"] ∧
    Gen.C19.logPanicBody =
      ["return func{var buf; buf.Grow(…); buf.WriteString(…); stack(&buf,5,deep); l.Error(…)}"] :=
  ⟨rfl, rfl, rfl, rfl, rfl, rfl, rfl, rfl, rfl, rfl, rfl, rfl⟩

/-- `NewLimiter(limit)`: a limit below 1 falls back to 3. -/
theorem c19_default_limit (limit : Int) :
    (newLimiter limit).n = (if limit < 1 then 3 else limit.toNat) ∧ 1 ≤ (newLimiter limit).n := by
  by_cases h : limit < 1 <;> simp [newLimiter, limitOf, h] <;> omega

/-- `c19_bound`: in every reachable state — any limit, any number of submissions from
any number of goroutines, any blocking / finishing / panicking pattern, any schedule —
the number of functions inside `fn` is at most the number of tokens in the channel,
which is at most the capacity `n` (= limit, or 3 for limit < 1; n ≥ 1). -/
theorem c19_bound (limit : Int) (s : St) (h : Reachable limit s) :
    s.running ≤ s.k ∧ s.k ≤ s.n ∧ s.n = limitOf limit ∧ 1 ≤ s.n := by
  have hi := Inv.of_reachable h
  refine ⟨?_, hi.hkn, hi.hn, ?_⟩
  · rw [hi.hk]
    exact List.countP_mono_left fun t _ ht => by
      have : t.pc = .running := by simpa using ht
      simp [this, Pc.holdsToken]
  · rw [hi.hn]; exact (c19_default_limit limit).2

/-- `c19_exactly_once`: every submitted function has been entered exactly once as soon
as it is running or later, and never before; in particular never twice. -/
theorem c19_exactly_once (limit : Int) (s : St) (h : Reachable limit s) :
    ∀ t ∈ s.tasks, t.starts = (if 4 ≤ t.pc.rank then 1 else 0) ∧ t.starts ≤ 1 := by
  intro t ht
  have := ((Inv.of_reachable h).htasks t ht).starts
  refine ⟨this, ?_⟩
  rw [this]; split <;> omega

/-- `c19_wait`: a `Wait()` call that has returned: every task whose `Go` had returned
when `Wait()` was called (`w.before`, recorded by the `waitCall` step) has left its
function and passed `w.Done()` (rank ≥ 7).  `Wait()` itself returns only at `wg = 0`
(guard of `waitRet`). -/
theorem c19_wait (limit : Int) (s : St) (h : Reachable limit s) :
    ∀ w ∈ s.waiters, w.returned = true → ∀ i ∈ w.before,
      ∃ t, s.tasks[i]? = some t ∧ 7 ≤ t.pc.rank := by
  intro w hw hr i hi'
  obtain ⟨t, ht, _, h7⟩ := (Inv.of_reachable h).hwait w hw i hi'
  exact ⟨t, ht, h7 hr⟩

/-- `c19_no_leak`: (1) the token count is exactly the number of tasks between their
send and their receive; (2) no cleanup ever panics (a panicking function returns its
token like any other); (3) progress: every task that has not exited can take its
next step unless it is a submission facing a full channel — and the channel is full
only when `n` tasks hold tokens; (4) from every reachable state, the free slots can all
be filled: a state with `n - k` more functions inside is reachable — in particular
after any number of panics, once `k = 0`, `n` functions run simultaneously. -/
theorem c19_no_leak (limit : Int) (s : St) (h : Reachable limit s) :
    s.k = s.tasks.countP (fun t => t.pc.holdsToken) ∧
    (∀ t ∈ s.tasks, t.pc ≠ .cleanupPanicked) ∧
    (∀ i t, s.tasks[i]? = some t → t.pc ≠ .exited → (t.pc = .new → s.k < s.n) →
        (s.adv i).isSome = true) ∧
    (∃ s', Reachable limit s' ∧ s'.running = s.running + (s.n - s.k)) := by
  have hi := Inv.of_reachable h
  refine ⟨hi.hk, fun t ht => (hi.htasks t ht).noCleanupPanic,
    fun i t ht hne hnew => hi.progress ht hne hnew, ?_⟩
  have hkn := hi.hkn
  obtain ⟨ls, s', hr, hrun, _, _⟩ := fill_slots (s.n - s.k) s (by omega)
  exact ⟨s', h.extend hr, hrun⟩

/-- `c19_handler`: the handler (or the fallback print) has received exactly `[v]` on
behalf of a task iff `recover()` in the outer deferred function reported the value `v` —
the function panicked with `v` (for a re-panic: the value of the last panic; for
`panic(nil)` under the Go ≥ 1.21 default: the `*runtime.PanicNilError`) — and the deferred
function has passed its `recover()` check; nothing otherwise: not for a function that
returns, not for `panic(nil)` under `GODEBUG=panicnil=1` (`recover()` returns nil: there is
no value, the code cannot tell it from a return — recorded observation), not for
`runtime.Goexit()` (not a panic). -/
theorem c19_handler (limit : Int) (s : St) (h : Reachable limit s) :
    ∀ t ∈ s.tasks, t.handled =
      (match t.outcome with
       | .panic v => if 6 ≤ t.pc.rank then [.val v] else []
       | .ok | .panicNil | .goexit => []) := by
  intro t ht
  rw [((Inv.of_reachable h).htasks t ht).handled]
  unfold Task.expectedHandled
  cases t.outcome <;> rfl

/-- `c19_endings` (the ways a submitted function can END — wave 8 class "task endings"):
which endings the property sentence "a function that panics" covers is `Outcome.isPanic`:
`panic v` and `panicNil` (`panic(nil)` under `GODEBUG=panicnil=1`); `goexit`
(`runtime.Goexit()`) is NOT a panic and is covered by the first sentence of the property
(slots, exactly once, Wait).  For EVERY ending `o` — `ok`, `panic v`, `panicNil`, `goexit` —
and every reachable state, once task `i` has left its function (`recovering`: the outer
deferred function of `Recover` is about to call `recover()`; it runs for every ending because
it was deferred before `fn()`):
(1) its three remaining statements `recover()`→(handler), `l.w.Done()`, `<-l.c` are enabled one
    after the other and end in `exited`: exactly one token and one WaitGroup count are given
    back (`k` and `wg` are positive before), the number of functions inside is unchanged, every
    other task is untouched;
(2) on the way the handler gets `[v]` if `recover()` reported `v`, and nothing for `ok`,
    `panicNil`, `goexit`;
(3) in any interleaving with other goroutines each of these steps stays enabled until the task
    has exited (no ending leaves a task stuck holding its slot). -/
theorem c19_endings (limit : Int) (s : St) (h : Reachable limit s) (i : Nat) (t : Task)
    (ht : s.tasks[i]? = some t) (hpc : t.pc = .recovering) :
    (∃ s', advN s i 3 = some s' ∧ Reachable limit s' ∧
        s'.k + 1 = s.k ∧ s'.wg + 1 = s.wg ∧ s'.running = s.running ∧
        (∀ j, j ≠ i → s'.tasks[j]? = s.tasks[j]?) ∧
        s'.tasks[i]? = some { t with pc := .exited, handled := t.handled ++ t.outcome.handlerGets }) ∧
    t.outcome.handlerGets =
      (match t.outcome with
       | .panic v => [.val v]
       | .ok | .panicNil | .goexit => []) ∧
    (∀ s₂ t₂, Reachable limit s₂ → s₂.tasks[i]? = some t₂ → 5 ≤ t₂.pc.rank → t₂.pc ≠ .exited →
        (s₂.adv i).isSome = true) := by
  have hi := Inv.of_reachable h
  obtain ⟨hrun, hk, hwg⟩ := ending_returns_slot hi ht hpc
  have hlen : i < s.tasks.length := (List.getElem?_eq_some_iff.1 ht).1
  refine ⟨⟨_, hrun, ?_, ?_, ?_, ?_, ?_, ?_⟩, ?_, ?_⟩
  · exact h.extend (by rw [← advN_eq_run]; exact hrun)
  · show s.k - 1 + 1 = s.k; omega
  · show s.wg - 1 + 1 = s.wg; omega
  · have c := (countP_set_some (p := fun t => t.pc == .running)
      (t' := { t with pc := .exited, handled := t.handled ++ t.outcome.handlerGets }) ht).1
    simp only [hpc] at c
    simpa [St.running] using c
  · intro j hj
    exact List.getElem?_set_ne (Ne.symm hj)
  · exact List.getElem?_set_self hlen
  · unfold Outcome.handlerGets
    cases t.outcome <;> rfl
  · intro s₂ t₂ h₂ ht₂ h5 hne
    refine (Inv.of_reachable h₂).progress ht₂ hne (fun e => ?_)
    rw [e] at h5; simp [Pc.rank] at h5

/-- `c19_logpanic_total` (what is claimed when the HANDLER itself could panic): the handler
call is a step of the machine that returns.  A user-supplied handler that panics is the
caller's fault and outside the property; the library's OWN handler `goz.LogPanic(l, deep)`
must not: for EVERY depth `deep ≥ 0` (0, 1, …, 31, 32, 33, …, any size) and however many
frames the runtime has, the buffer handling of `stack` does not panic — it hands
`min avail deep ≤ deep` pcs to `CallersFrames` — so `LogPanic` returns whenever the user's
logger does.  RECORDED OBSERVATION (not claimed): a NEGATIVE `deep` is a misuse
(`make([]uintptr, deep)` panics: the handler dies inside `Recover`'s deferred function before
the cleanups and the process terminates) — `stackBuf` says so. -/
theorem c19_logpanic_total (deep : Int) (avail : Nat) :
    (0 ≤ deep → stackBuf deep avail = some (min avail deep.toNat) ∧
        logPanicCall deep avail false = some (min avail deep.toNat) ∧
        (min avail deep.toNat : Int) ≤ deep) ∧
    (deep < 0 → stackBuf deep avail = none ∧ ∀ b, logPanicCall deep avail b = none) := by
  refine ⟨fun h => ?_, fun h => ?_⟩
  · have hb : stackBuf deep avail = some (min avail deep.toNat) := by
      have : ¬ deep < 0 := by omega
      simp [stackBuf, this, Nat.min_le_right]
    refine ⟨hb, by simp [logPanicCall, hb], ?_⟩
    have : (min avail deep.toNat : Nat) ≤ deep.toNat := Nat.min_le_right _ _
    omega
  · have hb : stackBuf deep avail = none := by simp [stackBuf, h]
    exact ⟨hb, fun b => by simp [logPanicCall, hb]⟩

/-- Non-vacuity: depths at and around the size of any fixed buffer (31, 32, 33, 1000) with 40
frames available: the handler returns; depth −1: it panics. -/
example : logPanicCall 31 40 false = some 31 ∧ logPanicCall 32 40 false = some 32 ∧
    logPanicCall 33 40 false = some 33 ∧ logPanicCall 1000 40 false = some 40 ∧
    logPanicCall 0 40 false = some 0 ∧ logPanicCall (-1) 40 false = none := by decide

/-- `c19_endings_sequence`: any finite sequence of endings of any kinds, one function after the
other (submit, run, end, deferred cleanup), on a Limiter with a free slot: the schedule is
executable to the end and leaves the token count and the WaitGroup counter EXACTLY as they
were — in particular from `NewLimiter(limit)`: `k = 0`, `wg = 0`, so all `n` slots are free for
later submissions (with `c19_no_leak` (4): `n` functions can be inside simultaneously) and a
`Wait()` returns —, every function was entered once, and the handler got exactly what
`recover()` reported for each. -/
theorem c19_endings_sequence (limit : Int) (os : List Outcome) :
    ∃ s, (newLimiter limit).run (seqTasks 0 os) = some s ∧
      s.k = 0 ∧ s.wg = 0 ∧ s.n = limitOf limit ∧
      s.tasks = os.map (doneTask 0) ∧
      (∀ t ∈ s.tasks, t.pc = .exited ∧ t.starts = 1 ∧ t.handled = t.outcome.handlerGets) ∧
      (∃ s', Reachable limit s' ∧ s'.running = s.n) := by
  have hn : (newLimiter limit).k < (newLimiter limit).n := (c19_default_limit limit).2
  have hr := run_seqTasks os (newLimiter limit) hn
  simp only [newLimiter, List.length_nil, List.nil_append] at hr
  refine ⟨_, hr, rfl, rfl, rfl, rfl, ?_, ?_⟩
  · intro t ht
    simp only [List.mem_map] at ht
    obtain ⟨o, _, rfl⟩ := ht
    exact ⟨rfl, rfl, rfl⟩
  · have hreach : Reachable limit { n := limitOf limit, tasks := os.map (doneTask 0) } := ⟨_, hr⟩
    obtain ⟨s', h1, h2⟩ := (c19_no_leak limit _ hreach).2.2.2
    refine ⟨s', h1, ?_⟩
    rw [h2]
    simp [St.running, List.countP_map, doneTask, Function.comp_def]

/-- Non-vacuity: limit 2; the functions end with `panic(nil)` under `panicnil=1`, `Goexit`,
a panic with 7, a return: all four have exited, the handler got only the 7, no token is held,
the WaitGroup counter is zero. -/
example : ∃ s, (newLimiter 2).run (seqTasks 0 [.panicNil, .goexit, .panic 7, .ok]) = some s ∧
    s.k = 0 ∧ s.wg = 0 ∧ s.tasks.map (·.pc) = [.exited, .exited, .exited, .exited] ∧
    s.tasks.map (·.handled) = [[], [], [.val 7], []] := by
  refine ⟨_, rfl, ?_⟩
  decide

/-- Non-vacuity of `c19_endings`: limit 1; task 0 ended with `panic(nil)` under `panicnil=1`
and sits in `recovering` holding the only token, task 1 is blocked before its send; after
the three deferred statements of task 0 the token is back and task 1 can send. -/
example : ∃ s s', Reachable 1 s ∧ (s.tasks.map (·.pc) = [.recovering, .new]) ∧ s.adv 1 = none ∧
    advN s 0 3 = some s' ∧ s'.k = 0 ∧ (s'.adv 1).isSome = true := by
  refine ⟨_, _, ⟨[.submit .panicNil, .adv 0, .adv 0, .adv 0, .adv 0, .adv 0, .submit .goexit], rfl⟩, ?_, ?_, rfl, ?_, ?_⟩ <;>
  decide

/-- `c19_wait_timeout_preserves_bound`: a `Wait(d)` call (d > 0) that returns — because
the Limiter became idle or because `d` expired while functions are still running — changes
nothing: inserting it anywhere into any schedule leads to the same state as the schedule
without it.  Hence every theorem of this file holds verbatim for histories that contain
any number of timed waits (they quantify over all `Reachable` states, and `waitTimed` is a
label); spelled out for the bound: after an expired `Wait(d)` and any further submissions,
still `#inside ≤ k ≤ n`. -/
theorem c19_wait_timeout_preserves_bound (limit : Int) (before after : List Label) (s : St)
    (h : (newLimiter limit).run (before ++ Label.waitTimed :: after) = some s) :
    (newLimiter limit).run (before ++ after) = some s ∧
    s.running ≤ s.k ∧ s.k ≤ s.n ∧ s.n = limitOf limit := by
  have hb := c19_bound limit s ⟨_, h⟩
  refine ⟨?_, hb.1, hb.2.1, hb.2.2.1⟩
  rw [run_append] at h ⊢
  cases hr : (newLimiter limit).run before with
  | none => rw [hr] at h; cases h
  | some s₁ =>
    rw [hr] at h
    simpa [St.run, St.step] using h

/-- Non-vacuity: limit 1, task 0 inside its function, a timed wait expires, task 1 is
submitted and stays blocked before its send (`new`): one function inside, one token. -/
example : ∃ s, (newLimiter 1).run [.submit .ok, .adv 0, .adv 0, .adv 0, .adv 0, .waitTimed,
      .submit .ok] = some s ∧ s.running = 1 ∧ s.k = 1 ∧ s.adv 1 = none := by
  refine ⟨_, rfl, ?_⟩
  decide

/-- `c19_handler_configured` ("the panic value reaches the CONFIGURED handler", for every
order of `SetPanicHandler` and `Go`): (1) `SetPanicHandler(h)` is a store to
`l.panicHandler` and nothing else — it may come before the first `Go`, between rounds,
after panics; every other theorem of this file holds for histories containing it;
(2) a submission reads that field exactly once, at its `go Recover(fn, l.panicHandler,
l.done)` statement (fact `goBody`: no cached copy, no `sync.Once`): the task's handler is
the one configured at that moment; (3) no later step of anybody — in particular no later
`SetPanicHandler` — changes the handler of a task whose `Go` has returned.  Together with
`c19_handler`: the value goes, once, to the handler that was current when the function
was submitted. -/
theorem c19_handler_configured (s s' : St) (l : Label) (h : s.step l = some s') :
    (∀ hh, l = .setHandler hh → s' = { s with cur := hh }) ∧
    (∀ (i : Nat) (t : Task), s.tasks[i]? = some t → t.pc = .added → l = .adv i →
        ∃ t', s'.tasks[i]? = some t' ∧ t'.pc = .ready ∧ t'.hid = s.cur) ∧
    (∀ (i : Nat) (t : Task), s.tasks[i]? = some t → 3 ≤ t.pc.rank →
        ∃ t', s'.tasks[i]? = some t' ∧ t'.hid = t.hid) := by
  refine ⟨fun hh e => ?_, fun i t ht hpc e => ?_, fun i t ht hr => ?_⟩
  · subst e; simpa [St.step] using h.symm
  · subst e
    obtain ⟨t', h1, h2, h3⟩ := adv_hid (by simpa [St.step] using h) i t ht
    exact ⟨t', h1, h3 rfl hpc, by simpa [hpc] using h2⟩
  · have hne : t.pc ≠ .added := by
      intro e; rw [e] at hr; simp [Pc.rank] at hr
    cases l with
    | adv j =>
      obtain ⟨t', h1, h2, _⟩ := adv_hid (by simpa [St.step] using h) i t ht
      exact ⟨t', h1, by simpa [hne] using h2⟩
    | submit o =>
      simp only [St.step, Option.some.injEq] at h
      subst h
      have hlen : i < s.tasks.length := (List.getElem?_eq_some_iff.1 ht).1
      exact ⟨t, by simp [List.getElem?_append_left hlen, ht], rfl⟩
    | waitCall => simp only [St.step, Option.some.injEq] at h; subst h; exact ⟨t, ht, rfl⟩
    | waitTimed => simp only [St.step, Option.some.injEq] at h; subst h; exact ⟨t, ht, rfl⟩
    | setHandler hh => simp only [St.step, Option.some.injEq] at h; subst h; exact ⟨t, ht, rfl⟩
    | waitRet j =>
      simp only [St.step] at h
      split at h
      · split at h
        · cases h; exact ⟨t, ht, rfl⟩
        · cases h
      · cases h

/-- Non-vacuity: handler 1 is configured after task 0 (handler 0) was submitted and
before task 1; both panic: 7 goes to handler 0, 8 to handler 1. -/
example : ∃ s, (newLimiter 2).run [.submit (.panic 7), .adv 0, .adv 0, .adv 0, .adv 0,
      .setHandler 1, .submit (.panic 8), .adv 1, .adv 1, .adv 1, .adv 1,
      .adv 0, .adv 0, .adv 1, .adv 1] = some s ∧
    s.tasks.map (fun t => (t.hid, t.handled)) = [(0, [.val 7]), (1, [.val 8])] := by
  refine ⟨_, rfl, ?_⟩
  decide

/-- `c19_limiters_independent` (several Limiters at once): in a script that drives several
Limiters alternately, an op addressed to Limiter `i` is exactly the single-limiter op on
machine `i` (`playOp`), and every other machine is left untouched — `Limiter` values share no
state (fact `limiterFields`: channel, WaitGroup, handler, all per value; no package-level
variable is touched by `Go`/`Wait`/`add`/`done`), so each Limiter of the script satisfies
all theorems of this file on its own. -/
theorem c19_limiters_independent (ps : List Player) (idx : String) (i : Nat) (p : Player)
    (rest : List String) (hidx : idx.toNat? = some i) (hp : ps[i]? = some p) :
    (playMultiOp ps (idx :: rest)).2 = (playOp p rest).2 ∧
    (playMultiOp ps (idx :: rest)).1[i]? = some (playOp p rest).1 ∧
    ∀ j, j ≠ i → (playMultiOp ps (idx :: rest)).1[j]? = ps[j]? := by
  have hlen : i < ps.length := (List.getElem?_eq_some_iff.1 hp).1
  simp only [playMultiOp, hidx, hp]
  exact ⟨trivial, List.getElem?_set_self hlen, fun j hj => List.getElem?_set_ne (Ne.symm hj)⟩

/-- `c19_recover` (the exported `Recover(fn, panicFn, cleanups...)` used directly; anchor
"converts a panic into a handler call and then runs the cleanups even if a cleanup
panics"), for every way `fn` ends (return, panic with a value, `panic(nil)` under
`GODEBUG=panicnil=1`, `runtime.Goexit()`) and every list of cleanups:
(1) the handler gets the value `recover()` reports for `fn` first — exactly when there is one;
(2) if every cleanup returns, every cleanup is called once, in order, and the handler gets
    nothing else — in particular after ANY ending of `fn` (the slot is given back);
(3) if cleanup number `k` is the first that does not return and it panics with `w`, the
    cleanups `0..k` have been called, the handler additionally gets "cleanup panic: w, index: k",
    and the cleanups after `k` are NOT called;
(4) if cleanup number `k` is the first that does not return and it ends with `panic(nil)` under
    `panicnil=1` or with `Goexit`, the cleanups `0..k` have been called, the cleanups after `k`
    are NOT called and the handler gets nothing about it (the inner `recover()` returns nil:
    recorded observation, the remaining cleanups are lost silently);
(5) `Recover` returns to its caller unless `fn` or a called cleanup ended the goroutine with
    `Goexit` — no panic escapes in any case (`recoverRun` is total). -/
theorem c19_recover (fn : Outcome) :
    (∀ cl, ∃ rest, (recoverRun fn cl).handled =
        (match fn with | .panic v => [RVal.val v] | .ok | .panicNil | .goexit => []) ++ rest ∧
        rest.length ≤ 1) ∧
    (∀ cl, (∀ c ∈ cl, c = Outcome.ok) →
        (recoverRun fn cl).ran = List.range cl.length ∧
        (recoverRun fn cl).handled =
          (match fn with | .panic v => [RVal.val v] | .ok | .panicNil | .goexit => [])) ∧
    (∀ pre w post, (∀ c ∈ pre, c = Outcome.ok) →
        (recoverRun fn (pre ++ Outcome.panic w :: post)).ran = List.range (pre.length + 1) ∧
        (recoverRun fn (pre ++ Outcome.panic w :: post)).handled =
          (match fn with | .panic v => [RVal.val v] | .ok | .panicNil | .goexit => []) ++
            [RVal.cleanupPanic w pre.length]) ∧
    (∀ pre c post, (∀ c ∈ pre, c = Outcome.ok) → c = Outcome.panicNil ∨ c = Outcome.goexit →
        (recoverRun fn (pre ++ c :: post)).ran = List.range (pre.length + 1) ∧
        (recoverRun fn (pre ++ c :: post)).handled =
          (match fn with | .panic v => [RVal.val v] | .ok | .panicNil | .goexit => [])) ∧
    (∀ cl, (∀ c ∈ cl, c ≠ Outcome.goexit) → (recoverRun fn cl).returns = !(fn == .goexit)) ∧
    (∀ pre post, (∀ c ∈ pre, c = Outcome.ok) →
        (recoverRun fn (pre ++ Outcome.goexit :: post)).returns = false) := by
  refine ⟨fun cl => ?_, fun cl h => ?_, fun pre w post h => ?_, fun pre c post h hc => ?_,
    fun cl h => ?_, fun pre post h => ?_⟩
  · refine ⟨match (runCleanups 0 cl).2 with | some (v, i) => [.cleanupPanic v i] | none => [], ?_, ?_⟩
    · cases fn <;> rfl
    · cases (runCleanups 0 cl).2 <;> simp
  · cases fn <;> simp [recoverRun, Outcome.recovered, runCleanups_all_ok 0 cl h]
  · cases fn <;> simp [recoverRun, Outcome.recovered, runCleanups_split 0 pre w post h]
  · cases fn <;> simp [recoverRun, Outcome.recovered, runCleanups_split_silent 0 pre c post h hc]
  · simp [recoverRun, cleanupsGoexit_false cl h]
  · simp [recoverRun, cleanupsGoexit_split pre post h]

/-- `Limiter.Go` is `Recover(fn, handler, l.done)`; `l.done` never panics
(`c19_no_leak` (2)), so the one cleanup always runs — for every ending of `fn` — and the
handler gets exactly what `recover()` reported: the `recovering → cleanup → wgDone → exited`
path of the machine (`c19_endings`). -/
theorem c19_recover_limiter_instance (fn : Outcome) :
    (recoverRun fn [.ok]).ran = [0] ∧
    (recoverRun fn [.ok]).handled =
      (match fn with | .panic v => [RVal.val v] | .ok | .panicNil | .goexit => []) := by
  cases fn <;> exact ⟨rfl, rfl⟩

/-- Non-vacuity: `fn` panics with 5, cleanups ok / panic 7 / ok: handler gets 5 then the
cleanup panic at index 1; cleanup 2 does not run. -/
example : recoverRun (.panic 5) [.ok, .panic 7, .ok] =
    { handled := [.val 5, .cleanupPanic 7 1], ran := [0, 1] } := by decide

/-- Non-vacuity: `fn` ends with `panic(nil)` under `panicnil=1`: nothing for the handler, both
cleanups run, `Recover` returns; `fn` calls `Goexit`: the same, but `Recover` does not return;
a cleanup that ends with `panic(nil)` under `panicnil=1`: the next one is lost silently. -/
example : recoverRun .panicNil [.ok, .ok] = { handled := [], ran := [0, 1] } ∧
    recoverRun .goexit [.ok, .ok] = { handled := [], ran := [0, 1], returns := false } ∧
    recoverRun (.panic 5) [.panicNil, .ok] = { handled := [.val 5], ran := [0] } := by decide

/-- Non-vacuity: a concrete reachable state with limit 1 — task 0 (panicking with 7) has
exited and its value reached the handler, task 1 is inside its function, task 2 waits
for a token. -/
example : ∃ s, Reachable 1 s ∧ s.running = 1 ∧ s.k = 1 ∧
    s.tasks.map (·.pc) = [.exited, .running, .new] ∧
    s.tasks.map (·.handled) = [[.val 7], [], []] := by
  refine ⟨_, ⟨[.submit (.panic 7), .adv 0, .adv 0, .adv 0, .adv 0, .submit .ok, .submit .ok,
    .adv 0, .adv 0, .adv 0, .adv 0, .adv 1, .adv 1, .adv 1, .adv 1], rfl⟩, ?_⟩
  decide

/-! ### Refinement: every trace the machine ACCEPTS satisfies the property clauses as
predicates on the trace itself

The harness logs the events of real runs and has the oracle answer every line
(`acceptAll`); `c19_acceptAll_sound` turns "every line answered ok" into the hypothesis
`accepts (newLimiter limit) tr = some s` of the four theorems below, whose conclusions
(`TraceBound`, `TraceOnce`, `TraceWait`, `TraceHandler`, defined in `Golib.Model.C19Trace`)
mention the observed trace only — no machine state. -/

/-- `c19_acceptAll_sound`: if the oracle answers `ok` to every logged line then the lines
parse (`parseEv?`, the token shapes of `acceptEv`: `acceptEv_eq`) to a structured trace
that the machine accepts from `NewLimiter(limit)`. -/
theorem c19_acceptAll_sound (limit : Int) (lines : List String)
    (h : ∀ a ∈ acceptAll (newLimiter limit) lines, a = "ok") :
    ∃ tr s, lines.map (fun l => parseEv? (Proto.toks l)) = tr.map some ∧
      accepts (newLimiter limit) tr = some s :=
  acceptAll_sound lines _ h

/-- `c19_trace_bound`: in every prefix of an accepted trace,
#start ≤ #finish + n (n = limit, or 3 for limit < 1): at no moment of the observed run were
more than `n` functions inside. -/
theorem c19_trace_bound (limit : Int) (tr : List Ev) (s : St)
    (h : accepts (newLimiter limit) tr = some s) : TraceBound (limitOf limit) tr :=
  traceBound_of_accepts h

/-- `c19_trace_exactly_once`: in an accepted trace no task id is started twice or finished
twice, `start i` is preceded by at least `i+1` submit events, `finish i` by `start i`. -/
theorem c19_trace_exactly_once (limit : Int) (tr : List Ev) (s : St)
    (h : accepts (newLimiter limit) tr = some s) : TraceOnce tr :=
  traceOnce_of_accepts h

/-- `c19_trace_wait`: in an accepted trace, before every `waitret` each function that was
entered has been left (the WaitGroup counter is zero), and in every prefix
#waitret ≤ #waitcall. -/
theorem c19_trace_wait (limit : Int) (tr : List Ev) (s : St)
    (h : accepts (newLimiter limit) tr = some s) : TraceWait tr :=
  traceWait_of_accepts h

/-- `c19_trace_handler`: in an accepted trace the handler events are matched injectively to
task ids: the matched task was submitted with `panic v` for the received `v`, had finished
before, and the receiving handler is the one configured (last `sethandler`, default 0) when
the task was started; no task is matched twice; and before every `waitret` each finished
panicking task has had its handler event. -/
theorem c19_trace_handler (limit : Int) (tr : List Ev) (s : St)
    (h : accepts (newLimiter limit) tr = some s) : TraceHandler tr :=
  traceHandler_of_accepts h

/-- Non-vacuity: limit 1; task 0 (panics with 7) is inside, task 1 is submitted and blocked
(`start 1` is not accepted), a `Wait()` is called; task 0 leaves, its value reaches handler
0, the `Wait()` returns (task 1 has not yet done `Add`), then task 1 starts.  The whole
trace is accepted; a `waitret` before the handler event, or a second `start 0`, is not. -/
example :
    (accepts (newLimiter 1) [.submit (.panic 7), .start 0, .submit .ok, .waitcall, .finish 0,
        .handler 7 0, .waitret, .start 1]).isSome = true ∧
    accepts (newLimiter 1) [.submit (.panic 7), .start 0, .submit .ok, .start 1] = none ∧
    accepts (newLimiter 1) [.submit (.panic 7), .start 0, .submit .ok, .waitcall, .finish 0,
        .waitret] = none ∧
    accepts (newLimiter 1) [.submit (.panic 7), .start 0, .submit .ok, .waitcall, .finish 0,
        .handler 7 1] = none ∧
    accepts (newLimiter 1) [.submit (.panic 7), .start 0, .start 0] = none := by
  decide

end Golib.C19
