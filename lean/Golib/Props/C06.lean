/-
C06 — Trie Replace / ReplaceWithMask are total and rewrite exactly the matched regions.
ONLY property theorems and non-vacuity examples; helper lemmas are in
`Golib/Proof/C06Merge.lean`, `Golib/Proof/C06Assemble.lean`.

Vocabulary (defined in the Proof files):
* `SortedByStop l`  – end positions non-decreasing (the emission order of `find`);
* `AllNonEmpty l`   – every scope has `start < stop`;
* `Disjoint r`      – pairwise: earlier `stop ≤` later `start` (increasing, non-overlapping);
* `covered l x`     – position `x` lies in some scope of `l`;
* `assemble text fill 0 r` – the text outside the scopes of `r`, in order, with `fill s`
  in place of every scope `s`;   `uncovered text r` – the bytes of `text` at positions
  not inside any scope of `r`, in order.
The model mirrors the REPAIRED code (F4); the pre-fix refutation is `Golib/Findings/C06F4.lean`.
-/
import Golib.Proof.C06Assemble
import Golib.Proof.C05Exact
import Golib.Proof.C06Mask
import Golib.Proof.C06Count
import Golib.Proof.C06Facts
import Golib.Proof.C05Rebuild
import Golib.Proof.C05Driver
import Golib.Proof.C05PtrAll
import Golib.Model.C06
import Golib.Proof.C06Trans

namespace Golib.C06
open Golib Golib.C05

/-- `mergeScopes` on the scope list of `find` (sorted by end position, non-empty scopes):
never panics; the result is strictly increasing and pairwise disjoint; the union of the
intervals is preserved (pointwise, and scope-wise: every input scope lies inside one
result scope, every result scope starts with an input scope contained in it). -/
theorem c06_merge_spec (l : List Scope) (hs : SortedByStop l) (hne : AllNonEmpty l) :
    ∃ r, mergeScopes l = some r ∧ Disjoint r ∧ AllNonEmpty r ∧
      (∀ x, covered r x ↔ covered l x) ∧
      (∀ o ∈ l, ∃ s ∈ r, s.start ≤ o.start ∧ o.stop ≤ s.stop) ∧
      (∀ s ∈ r, ∃ o ∈ l, o.start = s.start ∧ o.stop ≤ s.stop) := by
  obtain ⟨r, hr, hm⟩ := mergeScopes_spec l hs hne
  exact ⟨r, hr, hm.disj, hm.ne, hm.cover, hm.inside, hm.starts⟩

example : SortedByStop [⟨0, 1⟩, ⟨2, 3⟩, ⟨0, 5⟩] ∧ AllNonEmpty [⟨0, 1⟩, ⟨2, 3⟩, ⟨0, 5⟩] ∧
    mergeScopes [⟨0, 1⟩, ⟨2, 3⟩, ⟨0, 5⟩] = some [⟨0, 5⟩] := by
  refine ⟨by unfold SortedByStop; decide, ?_, by decide⟩
  intro s hs; simp only [List.mem_cons, List.not_mem_nil, or_false] at hs
  rcases hs with rfl | rfl | rfl <;> (unfold Scope.NonEmpty; decide)

/-- What `find` delivers on a trie built from byte patterns (C05): sorted by end position,
non-empty scopes inside the text, each a byte-for-byte occurrence of an inserted pattern,
and every occurrence of an inserted valid-UTF-8 pattern is among them. -/
theorem c06_find_fact (pats : List (List Nat)) (text : List Nat) (hp : ∀ p ∈ pats, Bytes p)
    (ht : Bytes text) (t : Trie) (hbuilt : Trie.ofPatterns pats = some t) :
    ∃ scopes, t.find text = some scopes ∧ SortedByStop scopes ∧ AllNonEmpty scopes ∧
      (∀ s ∈ scopes, 0 ≤ s.start ∧ s.stop ≤ text.length) ∧
      (∀ s ∈ scopes, IsOcc pats text s) ∧
      (∀ A p B, text = A ++ p ++ B → p ∈ pats → p ≠ [] → ValidUtf8 p →
        (⟨(A.length : Int), ((A.length + p.length : Nat) : Int)⟩ : Scope) ∈ scopes) := by
  obtain ⟨hf, hsorted, hocc⟩ := find_sound pats text hp ht t hbuilt
  obtain ⟨t', h1, h2, _⟩ := ofPatterns_spec pats
  rw [hbuilt] at h1; cases h1
  refine ⟨_, hf, hsorted, fun s hs => (hocc s hs).2.1, fun s hs => ⟨(hocc s hs).1, (hocc s hs).2.2.1⟩,
    hocc, ?_⟩
  intro A p B htext hpm hne hv
  rw [h2, htext]
  exact find_complete pats hp A p B hpm hne hv (htext ▸ ht)

/-- `Replace` is total and rewrites exactly the matched regions.  For byte patterns and
text and the trie built from the patterns, with `scopes` the occurrence list of `find`
(characterised in `c06_find_fact` / `c05_find_exact`): `Replace` does not panic, and its
result is the text in which the scopes of a disjoint increasing list `r` with the same
union as the occurrences are each replaced by one copy of `repl`:
* the uncovered bytes are kept, in order (`assemble … (fun _ => []) = uncovered`), and
  `uncovered` is the same for `r` as for the occurrence list (same covered positions);
* one copy of `repl` per scope of `r`; every scope of `r` lies inside the covered set and
  begins with an occurrence contained in it, every occurrence lies inside one scope of `r`,
  and distinct scopes of `r` are disjoint — so a maximal covered region receives at least
  one copy and at most as many as it has occurrences, and nothing is inserted elsewhere. -/
theorem c06_replace_spec (pats : List (List Nat)) (text repl : List Nat) (hp : ∀ p ∈ pats, Bytes p)
    (ht : Bytes text) (t : Trie) (hbuilt : Trie.ofPatterns pats = some t) :
    ∃ scopes r, t.find text = some scopes ∧
      replace t text repl = some (assemble text (fun _ => repl) 0 r) ∧
      Disjoint r ∧ AllNonEmpty r ∧ (∀ x, covered r x ↔ covered scopes x) ∧
      (∀ s ∈ r, ∃ o ∈ scopes, o.start = s.start ∧ o.stop ≤ s.stop) ∧
      (∀ o ∈ scopes, ∃ s ∈ r, s.start ≤ o.start ∧ o.stop ≤ s.stop) ∧
      assemble text (fun _ => []) 0 r = uncovered text r ∧
      uncovered text r = uncovered text scopes := by
  obtain ⟨scopes, hfind, hs, hne, hb, _, _⟩ := c06_find_fact pats text hp ht t hbuilt
  obtain ⟨r, hr, hm⟩ := mergeScopes_spec scopes hs hne
  have hfits : Fits text.length 0 r :=
    fits_of_disjoint text.length r 0 (Int.le_refl _) (by omega) hm.disj hm.ne
      (merged_bounds hm 0 text.length hb)
  refine ⟨scopes, r, hfind, ?_, hm.disj, hm.ne, hm.cover, hm.starts, hm.inside,
    assemble_uncovered text r hfits, ?_⟩
  · have h := replLoop_spec text repl r 0 [] hfits
    simp only [replace, replaceWith, hfind]
    simp only [mergeScopes] at hr
    simp only [hr, h, List.nil_append, Int.toNat_zero]
  · unfold uncovered
    apply keepAux_congr
    intro j _ _
    have h1 := coveredB_iff r j
    have h2 := coveredB_iff scopes j
    have h3 := hm.cover (j : Int)
    cases hA : coveredB r j <;> cases hB : coveredB scopes j <;> simp_all

/-- The counting clause of `Replace`, as numbers.  `MaxRegion scopes a b`: `[a, b)` is a maximal
covered region of the text (non-empty, every position inside some occurrence, the positions
`a - 1` and `b` inside none); `cntIn scopes R`: the number of entries of `find`'s list that lie
inside `R` — by `c05_find_exact` that list has one entry per (pattern, position), so this is
the number of occurrences in the region; `copies k repl`: `k` copies of `repl`.
For byte patterns and text and the trie built from the patterns `Replace` does not panic and
returns the text in which every maximal covered region `R` is replaced by `k R` copies of the
replacement with `1 ≤ k R ≤ cntIn scopes R`, and nothing else is changed: `regions` lists
exactly the maximal covered regions, increasing and with a gap between neighbours, the text
outside them is kept in order (`assemble`), and deleting the copies leaves exactly the bytes
not covered by any occurrence (`uncovered`).  (`k R` is the number of scopes that
`mergeScopes` leaves inside `R`: it does not merge occurrences that merely touch.) -/
theorem c06_replace_count (pats : List (List Nat)) (text repl : List Nat) (hp : ∀ p ∈ pats, Bytes p)
    (ht : Bytes text) (t : Trie) (hbuilt : Trie.ofPatterns pats = some t) :
    ∃ (scopes regions : List Scope) (k : Scope → Nat), t.find text = some scopes ∧
      replace t text repl = some (assemble text (fun R => copies (k R) repl) 0 regions) ∧
      Separated regions ∧
      (∀ a b, MaxRegion scopes a b ↔ (⟨a, b⟩ : Scope) ∈ regions) ∧
      (∀ R ∈ regions, 1 ≤ k R ∧ k R ≤ cntIn scopes R) ∧
      assemble text (fun _ => []) 0 regions = uncovered text scopes := by
  obtain ⟨scopes, hfind, hs, hne, hb, _, _⟩ := c06_find_fact pats text hp ht t hbuilt
  obtain ⟨r, hr, hm⟩ := mergeScopes_spec scopes hs hne
  have hfits : Fits text.length 0 r :=
    fits_of_disjoint text.length r 0 (Int.le_refl _) (by omega) hm.disj hm.ne
      (merged_bounds hm 0 text.length hb)
  obtain ⟨c1, c2, c3⟩ := coalesce_spec r hm.disj hm.ne
  have hcov : ∀ x, covered (coalesce r) x ↔ covered scopes x := fun x => (c3 x).trans (hm.cover x)
  have hreg : ∀ a b, MaxRegion scopes a b ↔ (⟨a, b⟩ : Scope) ∈ coalesce r := by
    intro a b
    rw [← MaxRegion_congr hcov a b]
    exact ⟨region_all _ c1 c2 a b, fun h => region_max _ c1 c2 ⟨a, b⟩ h⟩
  refine ⟨scopes, coalesce r, cntIn r, hfind, ?_, c1, hreg, ?_, ?_⟩
  · have h := replLoop_spec text repl r 0 [] hfits
    simp only [replace, replaceWith, hfind]
    simp only [mergeScopes] at hr
    simp only [hr, h, List.nil_append, Int.toNat_zero]
    rw [assemble_coalesce text repl r 0 hm.disj hm.ne]
  · intro R hR
    have hmax : MaxRegion r R.start R.stop :=
      (MaxRegion_congr c3 _ _).1 (region_max _ c1 c2 R hR)
    exact ⟨cntIn_pos hmax, cntIn_le hm R⟩
  · have hbR : ∀ R ∈ coalesce r, (0 : Int) ≤ R.start ∧ R.stop ≤ text.length := by
      intro R hR
      have hRne : R.start < R.stop := c2 R hR
      obtain ⟨a, ha, h1, _⟩ := (hcov R.start).1 ⟨R, hR, Int.le_refl _, hRne⟩
      obtain ⟨b, hb', _, h2⟩ := (hcov (R.stop - 1)).1 ⟨R, hR, by omega, by omega⟩
      have := hb a ha; have := hb b hb'
      omega
    have hfitsR : Fits text.length 0 (coalesce r) :=
      fits_of_disjoint text.length _ 0 (Int.le_refl _) (by omega)
        (c1.imp (fun h => Int.le_of_lt h)) c2 hbR
    rw [assemble_uncovered text _ hfitsR]
    unfold uncovered
    apply keepAux_congr
    intro j _ _
    have h1 := coveredB_iff (coalesce r) j
    have h2 := coveredB_iff scopes j
    have h3 := hcov (j : Int)
    cases hA : coveredB (coalesce r) j <;> cases hB : coveredB scopes j <;> simp_all

/-- Patterns ab, cd, e, text `abcd-e`: the touching occurrences ab, cd form ONE maximal covered
region `[0,4)` holding two occurrences and receive two copies (mergeScopes does not merge
them); the region `[5,6)` receives one. -/
example : (Trie.ofPatterns [[97, 98], [99, 100], [101]]).bind
      (fun t => replace t [97, 98, 99, 100, 45, 101] [42]) = some [42, 42, 45, 42] ∧
    MaxRegion [⟨0, 2⟩, ⟨2, 4⟩, ⟨5, 6⟩] 0 4 ∧ cntIn [⟨0, 2⟩, ⟨2, 4⟩, ⟨5, 6⟩] ⟨0, 4⟩ = 2 ∧
    coalesce [⟨0, 2⟩, ⟨2, 4⟩, ⟨5, 6⟩] = [⟨0, 4⟩, ⟨5, 6⟩] := by
  refine ⟨by decide +kernel, ?_, by decide, by decide⟩
  have h := region_max [⟨0, 4⟩, ⟨5, 6⟩] (by unfold Separated; decide)
    (by intro s hs; simp only [List.mem_cons, List.not_mem_nil, or_false] at hs
        rcases hs with rfl | rfl <;> (unfold Scope.NonEmpty; decide)) ⟨0, 4⟩ (by simp)
  refine (MaxRegion_congr (l1 := [⟨0, 4⟩, ⟨5, 6⟩]) ?_ 0 4).1 h
  intro x
  simp only [covered, List.mem_cons, List.not_mem_nil, or_false]
  constructor
  · rintro ⟨s, rfl | rfl, h1, h2⟩
    · by_cases hx : x < 2
      · exact ⟨⟨0, 2⟩, by simp, h1, hx⟩
      · exact ⟨⟨2, 4⟩, by simp, by simp only []; omega, h2⟩
    · exact ⟨⟨5, 6⟩, by simp, h1, h2⟩
  · rintro ⟨s, rfl | rfl | rfl, h1, h2⟩
    · exact ⟨⟨0, 4⟩, by simp, h1, by simp only [] at h2 ⊢; omega⟩
    · exact ⟨⟨0, 4⟩, by simp, by simp only [] at h1 ⊢; omega, h2⟩
    · exact ⟨⟨5, 6⟩, by simp, h1, h2⟩

/-- `ReplaceWithMask` is total and masks exactly the runes inside occurrences.  For byte
patterns and text (arbitrary bytes) and the trie built from the patterns, with `scopes` the
occurrence list of `find` (characterised in `c06_find_fact` / `c05_find_exact`):
`ReplaceWithMask` does not panic; its result is `maskSteps`: walking the text rune by rune
(`decodeAll`: an invalid byte is one rune of width 1, as Go's `range` does), a rune whose
first byte lies inside some occurrence becomes `WriteRune(mask)` (invalid masks are written
as U+FFFD), every other rune keeps its bytes; a rune is covered as a whole or not at all
(`c06_mask_whole_rune`); and the rune count of the result equals that of the text. -/
theorem c06_mask_spec (pats : List (List Nat)) (text : List Nat) (mask : Int)
    (hp : ∀ p ∈ pats, Bytes p) (ht : Bytes text) (t : Trie) (hbuilt : Trie.ofPatterns pats = some t) :
    ∃ scopes, t.find text = some scopes ∧
      replaceWithMask t text mask = some (maskSteps text mask (coveredB scopes) (decodeAll text) 0) ∧
      Utf8.runeCount (maskSteps text mask (coveredB scopes) (decodeAll text) 0) = Utf8.runeCount text :=
  mask_runewise pats text mask hp ht t hbuilt

/-- With the scopes of `find`, a rune (a decoding step `(r, w)` at byte offset `wsum X`) is
covered as a whole: every byte of it is covered iff its first byte is. -/
theorem c06_mask_whole_rune (pats : List (List Nat)) (text : List Nat)
    (hp : ∀ p ∈ pats, Bytes p) (ht : Bytes text) (t : Trie) (hbuilt : Trie.ofPatterns pats = some t)
    (scopes : List Scope) (hfind : t.find text = some scopes)
    (X Y : List Step) (r : Int) (w : Nat) (h : decodeAll text = X ++ (r, w) :: Y)
    (j : Nat) (hj1 : wsum X ≤ j) (hj2 : j < wsum X + w) :
    coveredB scopes (wsum X) = coveredB scopes j :=
  mask_rune_covered_whole pats text hp ht t hbuilt scopes hfind X Y r w h j hj1 hj2

/-- Pattern é, text `a é <80> é`, mask `*`: both é are masked, the invalid byte stays. -/
example : (Trie.ofPatterns [[0xC3, 0xA9]]).bind
      (fun t => replaceWithMask t [97, 0xC3, 0xA9, 0x80, 0xC3, 0xA9] 42) = some [97, 42, 0x80, 42] := by
  decide +kernel

/-- The same result region by region: no panic; the uncovered bytes are unchanged and every
scope `s` of the merged list `r` is replaced by `RuneCount(text[s.start:s.stop])` mask runes. -/
theorem c06_mask_regions (pats : List (List Nat)) (text : List Nat) (mask : Int)
    (hp : ∀ p ∈ pats, Bytes p) (ht : Bytes text) (t : Trie) (hbuilt : Trie.ofPatterns pats = some t) :
    ∃ scopes r, t.find text = some scopes ∧
      replaceWithMask t text mask = some (assemble text (maskFill text mask) 0 r) ∧
      Disjoint r ∧ AllNonEmpty r ∧ (∀ x, covered r x ↔ covered scopes x) ∧
      assemble text (fun _ => []) 0 r = uncovered text scopes := by
  obtain ⟨scopes, hfind, hs, hne, hb, _, _⟩ := c06_find_fact pats text hp ht t hbuilt
  obtain ⟨r, hr, hm⟩ := mergeScopes_spec scopes hs hne
  have hfits : Fits text.length 0 r :=
    fits_of_disjoint text.length r 0 (Int.le_refl _) (by omega) hm.disj hm.ne
      (merged_bounds hm 0 text.length hb)
  refine ⟨scopes, r, hfind, ?_, hm.disj, hm.ne, hm.cover, ?_⟩
  · have h := maskLoop_spec text mask r 0 [] hfits
    simp only [replaceWithMask, replaceWithMaskWith, hfind]
    simp only [mergeScopes] at hr
    simp only [hr, h, List.nil_append, Int.toNat_zero]
  · rw [assemble_uncovered text r hfits]
    unfold uncovered
    apply keepAux_congr
    intro j _ _
    have h1 := coveredB_iff r j
    have h2 := coveredB_iff scopes j
    have h3 := hm.cover (j : Int)
    cases hA : coveredB r j <;> cases hB : coveredB scopes j <;> simp_all

/-- Non-vacuity: the F4 witness (patterns a, c, abcde; text abcde) meets the hypotheses,
and the repaired `Replace` answers `*`. -/
example : (Trie.ofPatterns [[97], [99], [97, 98, 99, 100, 101]]).bind
      (fun t => t.find [97, 98, 99, 100, 101]) = some [⟨0, 1⟩, ⟨2, 3⟩, ⟨0, 5⟩] ∧
    (Trie.ofPatterns [[97], [99], [97, 98, 99, 100, 101]]).bind
      (fun t => replace t [97, 98, 99, 100, 101] [42]) = some [42] := by
  constructor <;> decide +kernel

/-- Histories: on a trie that went through any number of rounds Insert…, BuildFailureLinks
(`Built pats t`, see `c05_rebuild_eq_build`: every further round keeps it) `Replace` and
`ReplaceWithMask` answer exactly as on the trie built in one go from all patterns inserted so
far — so the theorems above hold after every rebuild. -/
theorem c06_rebuild_eq_build (pats : List (List Nat)) (t : Trie) (hb : Built pats t) :
    ∃ t0, Trie.ofPatterns pats = some t0 ∧
      (∀ text repl, replace t text repl = replace t0 text repl) ∧
      (∀ text mask, replaceWithMask t text mask = replaceWithMask t0 text mask) := by
  obtain ⟨t0, h0, _, _, _, _, _, h6, h7⟩ := built_queries pats t hb
  exact ⟨t0, h0, h6, h7⟩

/-- abcd, xbcy built; bc, c inserted; built again: `ReplaceWithMask("abce", '*')` = `a**e`. -/
example : ((Trie.ofPatterns [[97, 98, 99, 100], [120, 98, 99, 121]]).bind fun t1 =>
      ([[98, 99], [99]].foldl (fun t p => t.insert (decodeAll p)) t1).rebuild).bind
      (fun t2 => replaceWithMask t2 [97, 98, 99, 101] 42) = some [97, 42, 42, 101] := by
  decide +kernel

/-- Histories of calls (wave 4) for the C06 driver (`runOp` = `mask` / `replace` / `sibling`, the
loop is C05's): the answers already given do not depend on later calls (result stability; the
harness' results ledger checks it of the real `Replace` / `ReplaceWithMask` strings, which are
also fed back in as the next text), and a `mask` / `replace` call — whatever it answers, also
a panic on a trie with patterns inserted since the last build — leaves the trie untouched. -/
theorem c06_call_history :
    (∀ (a b : List String) (s : Option DState),
      (runOpsWith runOp s (a ++ b)).take a.length = runOpsWith runOp s a) ∧
    (∀ (s s' : DState) (ts : List String), mutOp s ts = none →
      (stepWith runOp s ts).2 = some s' → s'.t = s.t ∧ s'.dirty = s.dirty) :=
  ⟨answers_prefix_stable runOp, query_keeps_trie runOp⟩

/-- `Replace` / `ReplaceWithMask` over the POINTER-level trie (`Golib/Model/C05Ptr.lean`,
`c05_pointer_refines_label`): they use the trie only through `find`, and the pointer-level
`find` of a state that represents the label trie returns the label-level scopes — so both
functions computed from the pointer model's scopes are the ones the theorems above are about. -/
theorem c06_pointer_refines (pt : PTrie) (t : Trie) (lbl : List Label) (h : Rep pt t lbl)
    (text repl : List Nat) (mask : Int) (scopes : List Scope) (hf : t.find text = some scopes) :
    pt.find text = some scopes ∧
    replace t text repl = (mergeScopes scopes).bind (fun m => replLoop text repl m 0 []) ∧
    replaceWithMask t text mask = (mergeScopes scopes).bind (fun m => maskLoop text mask m 0 []) := by
  refine ⟨pfind_api pt t lbl h text scopes hf, ?_, ?_⟩
  · simp only [replace, replaceWith, hf, mergeScopes]
    cases mergeScopesWith true scopes <;> rfl
  · simp only [replaceWithMask, replaceWithMaskWith, hf, mergeScopes]
    cases mergeScopesWith true scopes <;> rfl

/-! ### the regenerated tie (`go2lean`, `Golib/Gen/TransC06.lean`, rewritten from the tree on every run) -/

/-- TIE: `(*Trie).mergeScopes` as translated from the source on this run IS the model's
`mergeScopes` (the definition `c06_merge_spec`, `c06_replace_spec`, `c06_mask_spec`, … are
about), for EVERY scope list: same resulting list (`toM`/`ofM` convert between the generated
`scope` structure and the model's `Scope`, same two `Int` fields); the generated function never
panics; the model's `none` is exactly "the fuel `2·len + 1` ran out".  Reading of the Go
signature: the receiver is never mentioned and is dropped; `sp *[]scope` is read once and stored
once as the last statement, hence an in-out list. -/
theorem c06_trans_mergeScopes (sp : List GScope) :
    Golib.Gen.Trans.C06.Trie_mergeScopes sp =
      match mergeScopes (sp.map toM) with
      | some r => .ok (r.map ofM)
      | none => .fuel :=
  trans_mergeScopes sp

example : Golib.Gen.Trans.C06.Trie_mergeScopes [⟨0, 1⟩, ⟨2, 3⟩, ⟨0, 5⟩] = .ok [⟨0, 5⟩] := by decide +kernel

/-- The property clause DIRECTLY on the generated definition: on what `find` delivers (sorted by
end position, non-empty scopes) the translated `mergeScopes` returns normally — no panic, the
fuel does not run out — and its result is increasing and pairwise disjoint, made of non-empty
scopes, and covers exactly the union of the input intervals (pointwise and scope-wise). -/
theorem c06_trans_mergeScopes_spec (sp : List GScope) (hs : SortedByStop (sp.map toM))
    (hne : AllNonEmpty (sp.map toM)) :
    ∃ r, Golib.Gen.Trans.C06.Trie_mergeScopes sp = .ok r ∧
      Disjoint (r.map toM) ∧ AllNonEmpty (r.map toM) ∧
      (∀ x, covered (r.map toM) x ↔ covered (sp.map toM) x) ∧
      (∀ o ∈ sp.map toM, ∃ s ∈ r.map toM, s.start ≤ o.start ∧ o.stop ≤ s.stop) ∧
      (∀ s ∈ r.map toM, ∃ o ∈ sp.map toM, o.start = s.start ∧ o.stop ≤ s.stop) := by
  obtain ⟨r, hr, h1, h2, h3, h4, h5⟩ := c06_merge_spec (sp.map toM) hs hne
  refine ⟨r.map ofM, ?_, ?_⟩
  · rw [c06_trans_mergeScopes, hr]
  · rw [map_toM_ofM]; exact ⟨h1, h2, h3, h4, h5⟩

example : SortedByStop (([⟨0, 1⟩, ⟨2, 3⟩, ⟨0, 5⟩] : List GScope).map toM) ∧
    AllNonEmpty (([⟨0, 1⟩, ⟨2, 3⟩, ⟨0, 5⟩] : List GScope).map toM) := by
  refine ⟨by unfold SortedByStop; decide, ?_⟩
  intro s hs
  simp only [List.map_cons, List.map_nil, List.mem_cons, List.not_mem_nil, or_false] at hs
  rcases hs with rfl | rfl | rfl <;> (unfold Scope.NonEmpty toM; decide)

/-- The source expressions and statements of `algz/trie.go` the model is written against
(re-extracted by go/ast on every run into `Golib/Gen/FactsC06.lean`) are the ones the model
mirrors; a revert of F4 or a single-token change in one of them breaks this obligation
independently of the random search. -/
theorem c06_facts : SourceFacts := c06_facts_holds

end Golib.C06
