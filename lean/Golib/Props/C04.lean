/-
C04 — heapz heaps behave as priority queues with stable element handles.
ONLY property theorems and non-vacuity examples live here; helper lemmas are in
`Golib/Proof/C04*.lean`.

All theorems are about the executable model of `adjustment.go` / `slice.go` (`up`, `down`,
`fix`, `build` over the callbacks `less`/`swap`, instantiated with the plain slice swap) and hold
for every comparator that is a strict weak order, every slice and every index.
`Heap cmp s` : no element of `s` precedes its parent `s[(j-1)/2]`.
-/
import Golib.Proof.C04SliceOps
import Golib.Proof.C04Sim
import Golib.Proof.C04Handles
import Golib.Proof.C04HeapSpec
import Golib.Proof.C04Generic
import Golib.Proof.C04SliceSeq
import Golib.Proof.C04Client
import Golib.Proof.C04Overflow
import Golib.Proof.C04Cmp
import Golib.Proof.C04Trans
import Golib.Proof.C04TransSlice

namespace Golib.C04

/-- `down(s, cmp, swap, i, n)`: if all pairs (child, parent) of the first `n` positions whose
parent is not `i` are in order and the children of `i` do not precede `i`'s parent, then `down`
does not panic, keeps the multiset, leaves positions `≥ n` alone and restores the heap order on
the first `n` positions. (`lo` generalises to sub-heaps, as `build` needs.) -/
theorem c04_down_restores {cmp} (hs : SWO cmp) (s : List Int) (i n lo : Nat)
    (hn : n ≤ s.length) (hlo : lo ≤ i) (hin : i ≤ n) (hpre : DownPre cmp (nthN s) i n lo true) :
    ∃ (s' : List Int) (i' : Nat),
      downB (sliceOps cmp) s (i : Int) (n : Int) = some (s', decide (i < i')) ∧
      s'.length = s.length ∧ s'.Perm s ∧ (∀ k, n ≤ k → nthN s' k = nthN s k) ∧
      HeapOn cmp (nthN s') lo n := by
  obtain ⟨s', i', h1, h2, h3, h4, _, h6⟩ := downB_spec hs s i n lo true hn hlo hin hpre
  exact ⟨s', i', h1, h2, h3, h4, by simpa using h6⟩

/-- `up(s, cmp, swap, j)`: if all pairs except `(j, parent j)` are in order and the children of
`j` do not precede `j`'s parent, `up` restores the heap order; multiset kept; no panic. -/
theorem c04_up_restores {cmp} (hs : SWO cmp) (s : List Int) (j n : Nat)
    (hn : n ≤ s.length) (hj : j < n) (hpre : UpPre cmp (nthN s) j n) :
    ∃ s', upF (sliceOps cmp) s (j : Int) = some s' ∧
      s'.length = s.length ∧ s'.Perm s ∧ (∀ k, n ≤ k → nthN s' k = nthN s k) ∧
      HeapOn cmp (nthN s') 0 n := by
  obtain ⟨s', h⟩ := up_spec hs (j + 1) s j n hn hj (by omega) hpre
  exact ⟨s', by simpa [upF] using h⟩

/-- `fix(s, cmp, swap, i, n)`: a heap on the first `n` positions in which the value at `i` was
replaced arbitrarily is a heap again afterwards; multiset kept; positions `≥ n` untouched. -/
theorem c04_fix_restores {cmp} (hs : SWO cmp) (s : List Int) (i n : Nat) (f0 : Nat → Int)
    (hn : n ≤ s.length) (hi : i < n) (h0 : HeapOn cmp f0 0 n)
    (hsame : ∀ k, k < n → k ≠ i → nthN s k = f0 k) :
    ∃ s', fix (sliceOps cmp) s (i : Int) (n : Int) = some s' ∧
      s'.length = s.length ∧ s'.Perm s ∧ (∀ k, n ≤ k → nthN s' k = nthN s k) ∧
      HeapOn cmp (nthN s') 0 n :=
  fix_spec hs s i n f0 hn hi h0 hsame

/-- `build` turns any slice into a heap with the same multiset. -/
theorem c04_build_heap {cmp} (hs : SWO cmp) (s : List Int) :
    ∃ s', build (sliceOps cmp) s (s.length : Int) = some s' ∧ s'.Perm s ∧ Heap cmp s' := by
  obtain ⟨s', h1, _, h3, h4⟩ := build_spec hs s
  exact ⟨s', h1, h3, h4⟩

/-- `FromSlice`: `Values` is heap-ordered and holds the given multiset. -/
theorem c04_slice_fromSlice {cmp} (hs : SWO cmp) (s : List Int) :
    ∃ s', Slice.fromSlice cmp s = some s' ∧ Heap cmp s' ∧ s'.Perm s :=
  slice_fromSlice hs s

/-- `Slice.Push`: heap order kept, exactly `x` added. -/
theorem c04_slice_push {cmp} (hs : SWO cmp) (s : List Int) (x : Int) (h : Heap cmp s) :
    ∃ s', Slice.push cmp s x = some s' ∧ Heap cmp s' ∧ s'.Perm (x :: s) :=
  slice_push hs s x h

/-- `Slice.Pop`: on an empty heap `(zero, false)`; otherwise it removes exactly one element `x`
that no element of the heap precedes, and `Values` stays heap-ordered. -/
theorem c04_slice_pop {cmp} (hs : SWO cmp) (s : List Int) (h : Heap cmp s) :
    (s = [] → Slice.pop cmp s = some ([], 0, false)) ∧
    (s ≠ [] → ∃ s' x, Slice.pop cmp s = some (s', x, true) ∧ Heap cmp s' ∧ (x :: s').Perm s ∧
      ∀ y ∈ s, cmp y x = false) :=
  slice_pop hs s h

/-- `Slice.Peek` returns an element no element of the heap precedes (and `(zero,false)` on empty). -/
theorem c04_slice_peek {cmp} (hs : SWO cmp) (s : List Int) (h : Heap cmp s) :
    (s = [] → Slice.peek s = some (0, false)) ∧
    (s ≠ [] → ∃ x, Slice.peek s = some (x, true) ∧ x ∈ s ∧ ∀ y ∈ s, cmp y x = false) :=
  slice_peek hs s h

/-- `Slice.Remove(i)` at ANY index: out of range it is a no-op returning `(zero,false)`; in range
it removes exactly `Values[i]` and `Values` stays heap-ordered. -/
theorem c04_slice_remove {cmp} (hs : SWO cmp) (s : List Int) (h : Heap cmp s) (i : Int) :
    ((i < 0 ∨ (s.length : Int) ≤ i) → Slice.remove cmp s i = some (s, 0, false)) ∧
    (∀ k : Nat, i = (k : Int) → k < s.length →
      ∃ s', Slice.remove cmp s i = some (s', nthN s k, true) ∧ Heap cmp s' ∧ (nthN s k :: s').Perm s) :=
  ⟨slice_remove_out cmp s i, fun k hk hlt => hk ▸ slice_remove_in hs s k h hlt⟩

/-- `Slice.Fix(i)` at ANY index, after an arbitrary change of `Values[i]`: out of range a no-op;
in range the heap order is restored and the multiset kept. -/
theorem c04_slice_fix {cmp} (hs : SWO cmp) (s0 : List Int) (h : Heap cmp s0) :
    (∀ i : Int, (i < 0 ∨ (s0.length : Int) ≤ i) → Slice.fix cmp s0 i = some s0) ∧
    (∀ (k : Nat) (v : Int), k < s0.length →
      ∃ s', Slice.fix cmp (s0.set k v) (k : Int) = some s' ∧ Heap cmp s' ∧ s'.Perm (s0.set k v)) :=
  ⟨fun i => slice_fix_out cmp s0 i, fun k v hk => slice_fix_in hs s0 k v h hk⟩

/-- `PopAll` (consumed to the end) yields every element exactly once, sorted, and empties the
heap: no later element precedes an earlier one. -/
theorem c04_popall_sorted {cmp} (hs : SWO cmp) (s : List Int) (h : Heap cmp s) :
    ∃ xs, Slice.popAll cmp (s.length + 1) s = some ([], xs) ∧ xs.Perm s ∧
      xs.Pairwise (fun a b => cmp b a = false) :=
  slice_popAll hs s.length s rfl h

/-- `Slice` along EVERY operation sequence (`stepS` = the model of one client call, incl.
`s.Values[i] = v; s.Fix(i)` as `setFix`): starting from `FromSlice` of any slice (or from any
heap-ordered `Values`), no call panics, `Values` is heap-ordered after every call and every call
did to the multiset what `SPost` says (`Push` adds `x`; `Pop`/`Peek` return `(zero,false)` iff empty
and otherwise an element no element precedes, `Pop` removing exactly it; `Remove(i)` out of range is
a no-op returning `(zero,false)`, in range it returns and removes exactly `Values[i]`; `Fix` keeps
the multiset; `PopAll` yields everything once, sorted). The only client obligation (`sPre`): the
assignment `Values[i] = v` is inside the slice. -/
theorem c04_slice_sequences {cmp} (hs : SWO cmp) :
    (∀ (v : List Int) (ops : List SOp), ∃ s, Slice.fromSlice cmp v = some s ∧ s.Perm v ∧
      SliceSteps cmp ops s) ∧
    (∀ (ops : List SOp) (s : List Int), Heap cmp s → SliceSteps cmp ops s) := by
  refine ⟨fun v ops => ?_, fun ops s h => slice_steps hs ops s h⟩
  obtain ⟨s, h1, h2, h3⟩ := slice_fromSlice hs v
  exact ⟨s, h1, h3, slice_steps hs ops s h2⟩

/-- The sift routines are parametric in the container: for ANY `Interface` implementation whose
`Less`/`Swap` agree with those of a slice holding the same data (same answers, same panics — the
interface laws), the generic `std_up`/`std_down`/`Fix`/`Init` loops behave on the data exactly
as `up`/`down`/`fix`/`build` on the slice, so `c04_up_restores` … `c04_build_heap` apply to it. -/
theorem c04_generic_sim {σ : Type} (o : Ops σ) (abs : σ → List Int) (cmp : Int → Int → Bool)
    (laws : Sim o (sliceOps cmp) (fun a s => abs a = s)) (a : σ) (i n : Int) :
    RelO (fun x s => abs x = s) (upF o a i) (upF (sliceOps cmp) (abs a) i) ∧
    RelO (fun x y => abs x.1 = y.1 ∧ x.2 = y.2) (downB o a i n) (downB (sliceOps cmp) (abs a) i n) ∧
    RelO (fun x s => abs x = s) (fix o a i n) (fix (sliceOps cmp) (abs a) i n) ∧
    RelO (fun x s => abs x = s) (build o a n) (build (sliceOps cmp) (abs a) n) :=
  ⟨up_sim laws _ a (abs a) i rfl, downB_sim laws a (abs a) i n rfl, fix_sim laws a (abs a) i n rfl,
   build_sim laws a (abs a) n rfl⟩

/-- The generic `Init`, `Push`, `Pop`, `Remove`, `Fix` of `std_heap.go` (`GenI.*`) on ANY lawful
`Interface` implementation — `Lawful I abs cmp`: relative to the abstraction `abs : σ → List Int`
of the caller's container, `Less`/`Swap` answer and panic as those of a slice holding the same
data, `Len` is the length, `Push` appends, `Pop` removes and returns the last element:
`Init` establishes the heap order; `Push`, `Pop` (on a non-empty container), `Remove(i)` (any
index in range) and `Fix(i)` (after an arbitrary change of element `i`) keep / restore it, none
panics, `Push` adds exactly `x`, `Pop` removes exactly one element that no element precedes,
`Remove(i)` returns and removes exactly element `i`, `Fix` keeps the multiset.
The recording container of the harness is lawful, so all of this holds for `Gen.*`, the functions
the oracle runs (`Gen.x cmp = GenI.x (recIface cmp)` by definition). -/
theorem c04_generic {cmp} (hs : SWO cmp) :
    (∀ {σ : Type} (I : Iface σ) (abs : σ → List Int), Lawful I abs cmp → ∀ a : σ,
      (∃ a', GenI.init I a = some a' ∧ Heap cmp (abs a') ∧ (abs a').Perm (abs a)) ∧
      (Heap cmp (abs a) → ∀ x, ∃ a', GenI.push I a x = some a' ∧ Heap cmp (abs a') ∧
        (abs a').Perm (x :: abs a)) ∧
      (Heap cmp (abs a) → abs a ≠ [] → ∃ a' x, GenI.pop I a = some (a', x) ∧ Heap cmp (abs a') ∧
        (x :: abs a').Perm (abs a) ∧ ∀ y, y ∈ abs a → cmp y x = false) ∧
      (Heap cmp (abs a) → ∀ k : Nat, k < (abs a).length →
        ∃ a', GenI.remove I a (k : Int) = some (a', nthN (abs a) k) ∧ Heap cmp (abs a') ∧
          (nthN (abs a) k :: abs a').Perm (abs a)) ∧
      (∀ (s0 : List Int) (i : Nat) (v : Int), Heap cmp s0 → i < s0.length → abs a = s0.set i v →
        ∃ a', GenI.fix I a (i : Int) = some a' ∧ Heap cmp (abs a') ∧ (abs a').Perm (abs a))) ∧
    Lawful (recIface cmp) (fun r => r.data) cmp :=
  ⟨fun I abs L a => ⟨genI_init hs L a, fun h x => genI_push hs L a x h, fun h hne => genI_pop hs L a h hne,
    fun h k hk => genI_remove hs L a h k hk, fun s0 i v h hi ha => genI_fix hs L a s0 i v h hi ha⟩,
   rec_lawful cmp⟩

/-- Non-vacuity of `Lawful` beyond the recording container: the plain slice itself (`abs = id`,
no log) is a lawful `Interface`. -/
example (cmp : Int → Int → Bool) :
    Lawful (σ := List Int) ⟨sliceOps cmp, fun s => s.length, fun s x => s ++ [x], sliceLast⟩ id cmp := by
  refine ⟨⟨fun a b j i hab => ?_, fun a b i j hab => ?_⟩, fun _ => rfl, fun _ _ => rfl, fun a => ?_⟩
  · cases hab; exact relO_refl _ _ (fun _ => ⟨rfl, rfl⟩)
  · cases hab; exact relO_refl _ _ (fun _ => rfl)
  · exact relO_refl _ _ (fun _ => ⟨rfl, rfl⟩)

/-- `Heap` with handles: if the cached `index` of every element of `h.values` equals its real
position (`IdxInv`), it still does after `swapEle` and therefore after every `up`, `down`, `fix`
and `build` run with it, whatever they rearrange. -/
theorem c04_heap_index_inv {cmp} {m : HMem} {h : Nat} (hI : IdxInv m h) :
    (∀ i j m', (heapOps cmp h).swap m i j = some m' → IdxInv m' h) ∧
    (∀ i n m', fix (heapOps cmp h) m i n = some m' → IdxInv m' h) ∧
    (∀ j m', upF (heapOps cmp h) m j = some m' → IdxInv m' h) ∧
    (∀ i n m' b, downB (heapOps cmp h) m i n = some (m', b) → IdxInv m' h) ∧
    (∀ n m', build (heapOps cmp h) m n = some m' → IdxInv m' h) :=
  ⟨fun i j m' e => swapEle_idxInv hI e, (heap_sift_idxInv hI).1, (heap_sift_idxInv hI).2.1,
   (heap_sift_idxInv hI).2.2.1, (heap_sift_idxInv hI).2.2.2⟩

/-- `Heap[T]` with `*Element[T]` handles is a priority queue over a multiset of handles, along
EVERY operation sequence.  The client-visible calls are `HOp` (`Init(vs, c)` incl. re-`Init` with
the repaired detaching and with ANOTHER comparator `c`, `Push`, `PushElement`, `Pop`, `Peek`,
`Len`, `Remove(e)`, `Fix(e)`, `e.Value = v; Fix(e)`, `e.Value = v; Remove(e)`, `PopAll`, each on one of two heaps sharing
one memory of elements); `stepH` runs the model of the Go code on `HState` = the element memory
plus `h.cmp` of both heaps.  The specification (`Proof/C04HeapSpec.lean`) keeps, per heap, the
list of LIVE handles and the comparator, and a value per handle:
`Push`/`PushElement` add the handle, `Pop`/`Peek` return nil iff nothing is live and otherwise a
live handle that no live handle precedes (`IsMin`; `Pop` erases it), `Len` is the number of live
handles, `Remove(e)` erases exactly `e` (the identity for stale and foreign handles), `Fix` changes
nothing but the value, `Init` makes the fresh handles of the given values the live ones (the old
ones are dropped) and installs the comparator, `PopAll` returns the values of the live handles,
each once, sorted, and leaves none; a `PopAll` left after `k` elements (`popAllN`) is `k` `Pop`s.
Client obligations (`specPre`): the comparator given to
`Init` is a strict weak order; `PushElement(e)` is called with an allocated element that is in
no heap; a value changed by `setFix h e v` does not belong to the OTHER heap.

(1) `Refines`: from two heaps made by `New(0, cmp)` (and from any related pair), as long as the
    client meets `specPre`, no call panics, every result is one the spec allows, and `Rel` holds
    again — for every op list.
(2) What `Rel` means for the memory: `h.values` is heap-ordered in `h`'s comparator (same
    predicate `Heap` as for `Slice`, on the values), has no duplicates and holds exactly the live
    handles; `Index()` of the element at position `k` is `k` and its owner is `h`; an element
    owned by `h` is live in `h`.
(3) Every allocated element that is live nowhere (popped, removed, discarded by `Init`) reports
    `Index() == -1` and has no owner.
(4) Stale and foreign handles leave the WHOLE memory unchanged (not just the spec state); the
    element leaving through `h.pop()` reports `-1` and loses its owner (for any memory).
(5) One call on a memory satisfying the invariant (`cm h` = comparator of heap `h`): `Remove(e)` of
    a live `e` removes exactly `e` (`Removed`: `e :: values' ~ values`, invariant, `e` detached,
    other heap, values, allocation untouched); `Fix(e)` after ANY change of the value table at `e`
    restores the invariant with the same elements; `Pop` on a non-empty heap returns the root,
    which no element precedes. -/
theorem c04_heap_handles :
    ((∀ cmp, SWO cmp → ∀ ops, Refines ops (HState.zero cmp) (HSpec.zero cmp)) ∧
     (∀ ops st s, Rel st s → Refines ops st s)) ∧
    (∀ st s, Rel st s → ∀ h : Fin 2,
      Heap (s.cmp h) ((st.m.arr h.val).map st.m.val.get) ∧ (st.m.arr h.val).Nodup ∧
      (st.m.arr h.val).Perm (s.live h) ∧ st.cmp h.val = s.cmp h ∧
      (∀ (k e : Nat), (st.m.arr h.val)[k]? = some e →
        st.m.idx.get e = (k : Int) ∧ st.m.own.get e = some h.val) ∧
      (∀ e, st.m.own.get e = some h.val → e ∈ s.live h)) ∧
    (∀ st s, Rel st s → ∀ e, e < s.fresh → (∀ h, e ∉ s.live h) →
      st.m.idx.get e = -1 ∧ st.m.own.get e = none) ∧
    ((∀ st s, Rel st s → ∀ (h : Fin 2) e, e ∉ s.live h → ∀ cmp,
        st.m.remove cmp h.val e = some st.m ∧ st.m.fixElem cmp h.val e = some st.m) ∧
     (∀ cmp (m : HMem) (h e : Nat), m.own.get e ≠ some h →
        m.remove cmp h e = some m ∧ m.fixElem cmp h e = some m) ∧
     (∀ (m m' : HMem) (h x : Nat), m.popLast h = some (m', x) →
        m'.idx.get x = -1 ∧ m'.own.get x = none)) ∧
    (∀ (cm : Nat → Int → Int → Bool) m, MemOK cm m → ∀ h, h < 2 → SWO (cm h) →
      (∀ e, m.own.get e = some h → ∃ m', m.remove (cm h) h e = some m' ∧ Removed cm m m' h e) ∧
      (∀ e (val' : Golib.C13.IM), m.own.get e = some h → (∀ x, x ≠ e → val'.get x = m.val.get x) →
        ∃ m', ({ m with val := val' } : HMem).fixElem (cm h) h e = some m' ∧ MemOK cm m' ∧
          (m'.arr h).Perm (m.arr h) ∧ m'.arr (oth h) = m.arr (oth h) ∧ m'.val = val' ∧
          m'.fresh = m.fresh) ∧
      (m.arr h ≠ [] → ∃ m', m.pop (cm h) h = some (m', some (elemAt m h 0)) ∧
        Removed cm m m' h (elemAt m h 0) ∧
        ∀ y, y ∈ m.arr h → cm h (m.val.get y) (m.val.get (elemAt m h 0)) = false)) := by
  refine ⟨⟨fun cmp hs ops => refines_all ops _ _ (rel_zero hs), fun ops st s R => refines_all ops st s R⟩,
    ?_, ?_, ⟨?_, fun cmp m h e => heap_handles_ignored cmp m h e, fun m m' h x hp => popLast_left m m' h x hp⟩, ?_⟩
  · intro st s R h
    have hI := R.ok.core.idx h.val h.isLt
    refine ⟨by rw [← R.cmpEq h]; exact R.ok.ord h.val h.isLt, hI.nodup, R.live h, R.cmpEq h, ?_,
      fun e he => (mem_live_iff R h e).2 he⟩
    intro k e hk
    exact ⟨hI.index k e hk, (R.ok.core.own e h.val h.isLt).2 (List.mem_of_getElem? hk)⟩
  · intro st s R e hf hd
    have ho := own_none_of_dead R hd
    exact ⟨R.ok.left e trivial (by rw [R.fresh]; exact hf) ho, ho⟩
  · intro st s R h e he cmp
    exact heap_handles_ignored cmp st.m h.val e (fun ho => he ((mem_live_iff R h e).2 ho))
  · intro cm m hok h hh hs
    refine ⟨fun e ho => remove_spec hs hh hok ho, fun e val' ho hv => fixElem_spec hs hh hok hv ho, ?_⟩
    intro hne
    obtain ⟨m', hrun, hrm⟩ := (pop_spec hs hh hok).2 hne
    exact ⟨m', hrun, hrm, heapOrd_root_min hs (hok.ord h hh)⟩

/-- A `PopAll` that the consumer leaves early (`for x := range h.PopAll() { …; break }` after `k`
received elements; model `Slice.popAllK` / `HMem.popAllK`, ops `SOp.popAllN` / `HOp.popAllN`, also
covered by `c04_slice_sequences` and `c04_heap_handles`) IS `k` calls of `Pop`:
(1) `Slice`: no panic; `min k len` elements are yielded, sorted; none of the remaining elements
    precedes a yielded one; `Values` is heap-ordered and holds exactly the remaining multiset.
(2) `Slice`: `Values` afterwards equals `Values` after the op list `[pop, …, pop]` (`k` times).
(3) `Heap`: the popped handles are the results of `k` successive `Pop`s of the spec (`PopsOK`:
    each a live handle no live handle precedes at its turn; fewer than `k` iff the heap ran empty),
    and the relation `Rel` (heap order, exact indices/owners, the popped handles detached) holds
    with the spec state after those `Pop`s. -/
theorem c04_popall_interrupted {cmp} (hs : SWO cmp) :
    (∀ (k : Nat) (s : List Int), Heap cmp s →
      ∃ s' xs, Slice.popAllK cmp k s = some (s', xs) ∧ Heap cmp s' ∧ xs.length = min k s.length ∧
        (xs ++ s').Perm s ∧ xs.Pairwise (fun a b => cmp b a = false) ∧
        ∀ x, x ∈ xs → ∀ y, y ∈ s' → cmp y x = false) ∧
    (∀ (k : Nat) (s : List Int),
      (stepS cmp s (.popAllN k)).map (fun p => p.1) = runS cmp (List.replicate k .pop) s) ∧
    (∀ (h : Fin 2) (k : Nat) (st : HState) (s : HSpec), Rel st s →
      ∃ m' es, HMem.popAllK (st.cmp h.val) h.val k st.m = some (m', es) ∧ PopsOK s h k es ∧
        Rel { st with m := m' } (specPops s h es)) :=
  ⟨slice_popAllK hs, slice_popAllN_is_pops cmp, fun h k st s R => rel_popAllK h k st s R⟩

/-- The client that keeps `iter.Seq` values and struct copies around (`COp`, `stepC`: the function
the oracle runs for the heap driver), along EVERY sequence of client ops:
* `q := h.PopAll()` (`seq`) touches nothing;
* ranging a held `q` (`range slot k` / `rangeAll slot`) — whenever `q` was obtained: before
  pushes, removals, an early break of an earlier range of the same `q`, a re-`Init` with another
  comparator — is exactly `popAllN h k` / `popAll h` on the CURRENT state of its heap (`CPost`:
  same state change and result as `stepH` for that op, allowed by the spec); the result is a
  function of the current abstract state only;
* `c := *h; c.Remove(e)` / `c.Fix(e)` (`copyRemove`/`copyFix`) for ANY handle `e` change nothing:
  a struct copy is another heap object, so every element is foreign to it;
* every other op is its `HOp` (`c04_heap_handles`); `Rel` — heap order, exact indices and owners,
  detached elements at −1 — holds after every client op. -/
theorem c04_client_handles :
    (∀ cmp, SWO cmp → ∀ ops, CSteps ops ⟨HState.zero cmp, [], []⟩ (HSpec.zero cmp)) ∧
    (∀ ops (c : HClient) s, Rel c.st s → CSteps ops c s) ∧
    (∀ (c : HClient) s, Rel c.st s → ∀ (h : Fin 2) e,
      stepC c (.copyRemove h e) = some (c, .unit) ∧ stepC c (.copyFix h e) = some (c, .unit)) := by
  refine ⟨fun cmp hs ops => client_steps ops _ _ (rel_zero hs), fun ops c s R => client_steps ops c s R, ?_⟩
  intro c s R h e
  have hf : c.st.m.own.get e ≠ some (h.val + 2) := by
    intro ho; have := R.ok.core.ownR e _ ho; omega
  have h1 := heap_handles_ignored (c.st.cmp h.val) c.st.m (h.val + 2) e hf
  exact ⟨by simp [stepC, h1.1], by simp [stepC, h1.2]⟩

/-- `for v := range PopAll() { body }` with calls INSIDE the loop body (Push, Pop, Peek, Len,
Remove, Fix … on either heap resp. on the slice; the body of iteration `i` is `body i`, the
consumer leaves after `k` iterations, `k = 0`: never). The model runs the loop of iter.go as
coded — `Pop` first, THEN `yield` — (`popAllBody`, `Slice.popAllBody`, protocol line
`popallbody`); the theorem says that this is the explicit loop
`for len > 0 { e := Pop(); body(i, e); if i+1 == k { break } }` on the multiset spec:
(1) `Heap`: from related states, for ANY body whose calls carry no client obligation, no panic;
    the yielded elements, the body results and the final state are those of `BodyLoopOK` — every
    yielded `e` is a live handle that no live handle precedes AT ITS TURN (after the earlier bodies'
    effects), its body runs in the spec state where `e` has already left the heap (`specPop`), every
    body call is a spec step (`SpecRun`); `Rel` holds at the end.  Hence a loop that yields
    `Values[0]` BEFORE popping (seed C04-F) is not this model: there a body `Push` of a preceding
    value re-yields the same element, whereas here the yielded handle is not live during its body.
(2) `Slice`: the same with multisets (`SBodyLoopOK`): each yielded `x` is preceded by no element
    of `Values` at its turn and `(x :: Values') ~ Values`; the body runs on `Values'`; `Values` is
    heap-ordered after every body call and at the end. -/
theorem c04_popall_body :
    (∀ (h : Fin 2) (body : Nat → List HOp) (k : Nat),
      (∀ i o, o ∈ body i → ∀ s', specPre s' o) →
      ∀ (f i : Nat) (st : HState) (s : HSpec), Rel st s →
      ∃ st' es rs d s', popAllBody h body k f i st = some (st', es, rs, d) ∧
        BodyLoopOK h body k f i s es rs d s' ∧ Rel st' s') ∧
    (∀ cmp, SWO cmp → ∀ (body : Nat → List SOp) (k : Nat),
      (∀ i o, o ∈ body i → ∀ s', sPre s' o) →
      ∀ (f i : Nat) (s : List Int), Heap cmp s →
      ∃ s' xs rs d, Slice.popAllBody cmp body k f i s = some (s', xs, rs, d) ∧
        SBodyLoopOK cmp body k f i s xs rs d s' ∧ Heap cmp s') :=
  ⟨fun h body k hb => body_loop h body k hb, fun cmp hs body k hb => slice_body_loop hs body k hb⟩

/-- Two (or more) `iter.Pull` cursors over held `PopAll` Seq values, interleaved in any order with
each other and with every other client op (`COp.pull/next/stop`, part of `CSteps` in
`c04_client_handles`): `next()` on an active cursor is EXACTLY one `Pop` on the shared heap in its
current state — same state change, same result, the spec's `Pop` step — and the cursor is finished
iff that `Pop` answered nil; `next()` on a finished cursor answers nil and changes nothing (also
after later pushes); `pull` and `stop` touch no heap. So two alternating cursors over one heap see
the successive minima, each element exactly once. -/
theorem c04_pull_cursors (c : HClient) (s : HSpec) (R : Rel c.st s) (j : Nat) (hj : j < c.curs.length) :
    (∀ h, c.curs[j]? = some (h, true) →
      ∃ c' r, stepC c (.next j) = some (c', r) ∧ stepH c.st (.pop h) = some (c'.st, r) ∧
        MinRet s h r ∧ Rel c'.st (specStep s (.pop h) r) ∧ c'.curs[j]? = some (h, !r.isNil)) ∧
    (∀ h, c.curs[j]? = some (h, false) → stepC c (.next j) = some (c, .handle none)) ∧
    (∃ c', stepC c (.stop j) = some (c', .unit) ∧ c'.st = c.st) := by
  refine ⟨fun h hg => ?_, fun h hg => by simp [stepC, hg], ?_⟩
  · obtain ⟨c', r, s', hrun, hpost, R'⟩ := client_step R (.next j) hj
    simp only [CPost, hg] at hpost
    obtain ⟨h1, h2, h3, h4⟩ := hpost
    exact ⟨c', r, hrun, h1, h2, h3 ▸ R', h4⟩
  · have hget : c.curs[j]? = some c.curs[j] := List.getElem?_eq_getElem hj
    exact ⟨{ c with curs := c.curs.set j ((c.curs[j]).1, false) }, by simp [stepC, hget], rfl⟩

/-- `e.Value = v; h.Remove(e)` — removing an element whose value was changed WITHOUT `Fix` (the use
the package doc blesses: "`Fix` is equivalent to, but less expensive than, calling `Remove`
followed by a `Push` of the new value"). `Remove(e)` is correct for ANY current value of `e`: it
never relies on `e` being in the right place, only on the rest of the array being a heap except
at `e`, and re-sites the element moved into the hole by `fix` (down, ELSE up — a one-direction
shortcut decided by comparing the moved element with `e`'s new value, seed C04-H, is not this
function).
(1) one call: the invariant held before the value table was changed arbitrarily at a live `e`;
    then `Remove(e)` does not panic, exactly `e` leaves (`e :: values' ~ values`), `e` is detached
    (index −1, no owner), the other heap, the allocation and the (new) values are untouched and
    the invariant holds again.
(2) as the op `setRemove h e v` it is part of `c04_heap_handles` (`Refines` over all op lists:
    spec step = new value, live handles minus `e`; client obligation as for `setFix`: `e` is not
    live in the OTHER heap). Anything else done to a heap that holds a misplaced element (Pop,
    Push, Remove of another element …) remains client misuse, outside `specPre`.
(3) `Slice`: `s.Values[k] = v; s.Remove(k)` (driver lines `set k v`, `rm k`) returns `v`, removes
    exactly it and leaves `Values` heap-ordered, for any `v` and any index in range. -/
theorem c04_remove_after_change {cm : Nat → Int → Int → Bool} {m0 : HMem} {h e : Nat}
    (hs : SWO (cm h)) (hh : h < 2) (hok : MemOK cm m0) (hown : m0.own.get e = some h)
    (val' : Golib.C13.IM) (hv : ∀ x, x ≠ e → val'.get x = m0.val.get x) :
    (∃ m', ({ m0 with val := val' } : HMem).remove (cm h) h e = some m' ∧ MemOK cm m' ∧
      (e :: m'.arr h).Perm (m0.arr h) ∧ m'.arr (oth h) = m0.arr (oth h) ∧ m'.val = val' ∧
      m'.fresh = m0.fresh ∧ m'.idx.get e = -1 ∧ m'.own.get e = none) ∧
    (∀ (st : HState) (s : HSpec) (hf : Fin 2) (v : Int), Rel st s → specPre s (.setRemove hf e v) →
      ∃ st' r, stepH st (.setRemove hf e v) = some (st', r) ∧ specOK s (.setRemove hf e v) r ∧
        Rel st' (specStep s (.setRemove hf e v) r)) ∧
    (∀ cmp, SWO cmp → ∀ (s0 : List Int) (k : Nat) (v : Int), Heap cmp s0 → k < s0.length →
      ∃ s', Slice.remove cmp (s0.set k v) (k : Int) = some (s', v, true) ∧ Heap cmp s' ∧
        (v :: s').Perm (s0.set k v)) :=
  ⟨remove_change_spec hs hh hok hv hown, fun st s hf v R hp => step_refines R _ hp,
   fun cmp hc s0 k v h hk => slice_remove_after_set hc s0 k v h hk⟩

/-- Go's 64-bit `int` in `down` / `std_down` (`j1 := 2*i + 1; if j1 >= n || j1 < 0 { break }`).
`down64` = the loop with two's-complement index arithmetic:
(1) for every size below `2^62` (`|i| < 2^62`, `n ≤ 2^62` — every heap with a non-zero-size
    element type) it IS the ideal-integer loop `down` that all other theorems are about, for every
    container;
(2) when `2*i + 1` wraps around (`2^62 ≤ i < 2^63`: only a zero-size element type such as
    `Slice[struct{}]` with `len(Values)` near `math.MaxInt` gets there) the guard ends the loop at
    once: no comparison, no swap, no panic — `Fix(i)`/`Remove(i)` in the upper half of such a
    slice are safe;
(3) without the guard (`down64NoGuard`, seed C04-G) the wrapped index is negative, passes `j < n`
    and the slice is indexed with it: a panic for every `2^62 ≤ i < n`. -/
theorem c04_down_no_overflow :
    (∀ {σ : Type} (o : Ops σ) (f : Nat) (s : σ) (i n : Int),
      -4611686018427387904 ≤ i → i < 4611686018427387904 → n ≤ 4611686018427387904 →
      down64 o f s i n = down o f s i n) ∧
    (∀ {σ : Type} (o : Ops σ) (f : Nat) (s : σ) (i n : Int),
      4611686018427387904 ≤ i → i < 9223372036854775808 → down64 o (f + 1) s i n = some (s, i)) ∧
    (∀ (cmp : Int → Int → Bool) (f : Nat) (s : List Int) (i n : Int),
      4611686018427387904 ≤ i → i < n → n < 9223372036854775808 →
      down64NoGuard (sliceOps cmp) (f + 1) s i n = none) :=
  ⟨fun o f s i n h1 h2 h3 => down64_eq_down o f s i n h1 h2 h3,
   fun o f s i n h1 h2 => down64_guard o f s i n h1 h2,
   fun cmp f s i n h1 h2 h3 => down64NoGuard_panics cmp f s i n h1 h2 h3⟩

/-- Comparator shapes. Every C04 theorem assumes exactly what `Heap`/`Slice` document for `cmp`: a
strict weak order (`SWO`: irreflexive, transitive, incomparability transitive). Instances:
`<` on the values; the REVERSE of any strict weak order (max-heaps, `gt`); comparison BY KEY with
ties (distinguishable elements with equal keys are tied: `key`, `rkey`), i.e. the pull-back of any
strict weak order along any function; and all four comparators of the harness (`cmpOf`).
The hypothesis is necessary: `Golib/Findings/C04Cmp.lean` gives machine-checked runs of the model
for the non-strict `<=` (the element `Pop` returns is preceded by a remaining one) and for the
strict partial order `a + 1 < b`, whose incomparability is not transitive (after pushes 2,1,2,0
all parent/child pairs are in order, yet `Peek`/`Pop` return 2 while 0 precedes it). -/
theorem c04_comparators :
    SWO (fun a b : Int => decide (a < b)) ∧
    (∀ cmp, SWO cmp → SWO (fun a b => cmp b a)) ∧
    (∀ cmp, SWO cmp → ∀ key : Int → Int, SWO (fun a b => cmp (key a) (key b))) ∧
    (∀ name cmp, cmpOf name = some cmp → SWO cmp) :=
  ⟨swo_lt, fun _ h => h.reverse, fun _ h key => h.byKey key, fun _ _ h => cmpOf_swo h⟩

/-- Handles after `PopAll` / `Init`, in EVERY history (every state reachable by client calls is
related to a spec state by `Rel`, `c04_heap_handles` (1)): let `e` be live in heap `h`. After
`h.PopAll()` drained to the end, and after `h.Init(vs, c)` (any strict weak order `c`), the call does
not panic and in the resulting state `e` reports `Index() == -1`, has no owner, is live in NO heap,
`Remove(e)` and `Fix(e)` on EITHER heap (with any comparator) leave the whole memory unchanged, and
`e` may be pushed again into either heap (`specPre` of `PushElement` holds). -/
theorem c04_handles_after_exit (st : HState) (s : HSpec) (R : Rel st s) (h : Fin 2) (e : Nat)
    (he : e ∈ s.live h) (op : HOp)
    (hop : op = .popAll h ∨ ∃ c vs, SWO c ∧ op = .init h c vs) :
    ∃ st' r, stepH st op = some (st', r) ∧ Rel st' (specStep s op r) ∧
      st'.m.idx.get e = -1 ∧ st'.m.own.get e = none ∧ (∀ h', e ∉ (specStep s op r).live h') ∧
      (∀ cmp (h' : Nat), st'.m.remove cmp h' e = some st'.m ∧ st'.m.fixElem cmp h' e = some st'.m) ∧
      (∀ h' : Fin 2, specPre (specStep s op r) (.pushElem h' e)) := by
  have hown : st.m.own.get e = some h.val := (mem_live_iff R h e).1 he
  have hfr : e < s.fresh := by
    rw [← R.fresh]
    exact R.ok.core.ltf h.val h.isLt e ((R.ok.core.own e h.val h.isLt).1 hown)
  have hoth : ∀ h' : Fin 2, h' ≠ h → e ∉ s.live h' := by
    intro h' hne he'
    have := (mem_live_iff R h' e).1 he'
    rw [hown] at this
    exact hne (Fin.ext (Option.some.inj this).symm)
  have hpre : specPre s op := by
    rcases hop with rfl | ⟨c, vs, hc, rfl⟩
    · trivial
    · exact hc
  obtain ⟨st', r, hrun, _, R'⟩ := step_refines R op hpre
  have hdead : ∀ h', e ∉ (specStep s op r).live h' := by
    intro h'
    rcases hop with rfl | ⟨c, vs, hc, rfl⟩
    · simp only [specStep]
      by_cases hne : h' = h
      · subst hne; simp [setLive_self]
      · rw [setLive_other s h _ h' hne]; exact hoth h' hne
    · simp only [specStep]
      by_cases hne : h' = h
      · subst hne; rw [setLive_self]; intro hm
        have := List.mem_range'_1.1 hm; omega
      · rw [setLive_other s h _ h' hne]; exact hoth h' hne
  have hfr' : e < (specStep s op r).fresh := by
    rcases hop with rfl | ⟨c, vs, hc, rfl⟩
    · exact hfr
    · simp only [specStep]; omega
  have ho := own_none_of_dead R' hdead
  refine ⟨st', r, hrun, R', R'.ok.left e trivial (by rw [R'.fresh]; exact hfr') ho, ho, hdead, ?_,
    fun h' => ⟨hfr', hdead⟩⟩
  intro cmp h'
  exact heap_handles_ignored cmp st'.m h' e (by rw [ho]; exact fun hh => by cases hh)

/-- Non-vacuity of `specPre`: after `Push(7)` on heap A returned handle 0 and `Pop` returned it,
handle 0 is allocated and live nowhere, so `B.PushElement(0)` is a call the client may make; and
`setFix A 0 9` is allowed while 0 lives in A. -/
example (cmp : Int → Int → Bool) :
    specPre (specStep (specStep (HSpec.zero cmp) (.push 0 7) (.handle (some 0))) (.pop 0) (.handle (some 0)))
      (.pushElem 1 0) := by
  refine ⟨by simp [specStep, specPop, HSpec.zero], ?_⟩
  intro h'; simp [specStep, specPop, HSpec.setLive, HSpec.zero]

example (cmp : Int → Int → Bool) :
    specPre (specStep (HSpec.zero cmp) (.push 0 7) (.handle (some 0))) (.setFix 0 0 9) := by
  intro h' hne; simp [specStep, HSpec.setLive, HSpec.zero, hne]

/-- Non-vacuity: `<` on keys with ties (the harness's `key` comparator shape) is a strict weak
order, and a concrete slice with ties is a heap for it. -/
example : SWO (fun a b => decide (a / 10 < b / 10)) :=
  ⟨fun a => by simp, fun a b c h1 h2 => by simp at *; omega,
   fun a b c h1 h2 h3 h4 => by simp at *; omega⟩

example : Heap (fun a b => decide (a / 10 < b / 10)) [10, 31, 12, 33, 34, 15] := by
  intro c hc hc1 _
  simp at hc
  have : c = 1 ∨ c = 2 ∨ c = 3 ∨ c = 4 ∨ c = 5 := by omega
  rcases this with rfl | rfl | rfl | rfl | rfl <;> decide

/-- Non-vacuity of `IdxInv`: a two-element heap whose cached indices are exact. -/
example : IdxInv { HMem.zero with a0 := [0, 1], idx := (Golib.C13.IM.empty.set 0 0).set 1 1, fresh := 2 } 0 := by
  refine ⟨by simp [HMem.arr], fun k e hk => ?_⟩
  simp only [HMem.arr, if_true] at hk
  match k, hk with
  | 0, hk => simp at hk; subst hk; simp [Golib.C13.IM.get_set]
  | 1, hk => simp at hk; subst hk; simp [Golib.C13.IM.get_set]
  | k + 2, hk => simp at hk

/-! ### Regenerated tie (wave 8)

`Golib.Gen.Trans.C04.swap / up / down / fix / build` are regenerated by `go2lean` from
`heapz/adjustment.go` of the tree under verification on every run (`Gen/TransC04.lean`), generic in
the element type `T`, with the callbacks as parameters: `cmp : T → T → Bool` (ASSUMED pure and total,
as the generated header says: a comparator that panics or has effects is outside the tie) and
`swap : List T → Int → Int → Res (List T)` (may panic; returns the slice after the call; a written
slice parameter comes back after the results: state passing).  Abstraction (`Proof/C04Trans.lean`):
the model's container is `σ = List T` with `cbOps cmp sw` (`less s j i = cmp s[j] s[i]`, panic on an
index out of range; `swap = sw`), where `sw : List T → Int → Int → Option (List T)` is ANY behaviour
of the swap callback (`none` = it panics), handed to the generated code as `cbSwap sw`; `optRes` maps
the model's `none` to `.panic`; `.fuel` never occurs.  No well-formedness hypothesis is needed: the
ties hold for every slice, every index (negative, out of range) and every callback.  For `T = int` and
the package's own `swap[T]` (`c04_trans_swap`), `cbOps cmp swapL` IS `sliceOps cmp`, the instance the
theorems above are about (`c04_trans_slice`).  `int` is the unbounded `Int` on both sides; the
64-bit overflow of `2*i + 1` is `c04_down_no_overflow`'s subject, not this tie's. -/

/-- The regenerated `swap[T]` IS `swapL`: exchanges the two cells; panics exactly when an index is
out of range. -/
theorem c04_trans_swap {T : Type} [Inhabited T] (s : List T) (i j : Int) :
    Golib.Gen.Trans.C04.swap s i j = optRes id (swapL s i j) :=
  trans_swap_eq s i j

/-- The regenerated `up` IS `upF` over the callbacks: same final slice; panics exactly where the
model does; never out of fuel — for every slice, index and callback behaviour. -/
theorem c04_trans_up {T : Type} [Inhabited T] (cmp : T → T → Bool)
    (sw : List T → Int → Int → Option (List T)) (s : List T) (j : Int) :
    Golib.Gen.Trans.C04.up s cmp (cbSwap sw) j = optRes id (upF (cbOps cmp sw) s j) :=
  trans_up_eq cmp sw s j

/-- The regenerated `down` IS `downB` (boolean result `i > i0` first, then the slice). -/
theorem c04_trans_down {T : Type} [Inhabited T] (cmp : T → T → Bool)
    (sw : List T → Int → Int → Option (List T)) (s : List T) (i0 n : Int) :
    Golib.Gen.Trans.C04.down s cmp (cbSwap sw) i0 n
      = optRes (fun p : List T × Bool => (p.2, p.1)) (downB (cbOps cmp sw) s i0 n) :=
  trans_down_eq cmp sw s i0 n

/-- The regenerated `fix` IS the model's `fix`. -/
theorem c04_trans_fix {T : Type} [Inhabited T] (cmp : T → T → Bool)
    (sw : List T → Int → Int → Option (List T)) (s : List T) (index tail : Int) :
    Golib.Gen.Trans.C04.fix s cmp (cbSwap sw) index tail
      = optRes id (fix (cbOps cmp sw) s index tail) :=
  trans_fix_eq cmp sw s index tail

/-- The regenerated `build` IS the model's `build` with `n = len(s)`. -/
theorem c04_trans_build {T : Type} [Inhabited T] (cmp : T → T → Bool)
    (sw : List T → Int → Int → Option (List T)) (s : List T) :
    Golib.Gen.Trans.C04.build s cmp (cbSwap sw)
      = optRes id (build (cbOps cmp sw) s (s.length : Int)) :=
  trans_build_eq cmp sw s

/-- The instance `heapz/slice.go` uses (`T = int`, callback `swap[T]` = the regenerated `swap`
itself): the regenerated functions are the `sliceOps` model of the theorems above. -/
theorem c04_trans_slice (cmp : Int → Int → Bool) (s : List Int) (i n : Int) :
    Golib.Gen.Trans.C04.up s cmp Golib.Gen.Trans.C04.swap i = optRes id (upF (sliceOps cmp) s i) ∧
    Golib.Gen.Trans.C04.down s cmp Golib.Gen.Trans.C04.swap i n
      = optRes (fun p : List Int × Bool => (p.2, p.1)) (downB (sliceOps cmp) s i n) ∧
    Golib.Gen.Trans.C04.fix s cmp Golib.Gen.Trans.C04.swap i n = optRes id (fix (sliceOps cmp) s i n) ∧
    Golib.Gen.Trans.C04.build s cmp Golib.Gen.Trans.C04.swap
      = optRes id (build (sliceOps cmp) s (s.length : Int)) := by
  rw [← cbSwap_swapL, ← cbOps_swapL]
  exact ⟨c04_trans_up cmp swapL s i, c04_trans_down cmp swapL s i n, c04_trans_fix cmp swapL s i n,
    c04_trans_build cmp swapL s⟩

/-- `c04_down_restores` directly on the generated definitions. -/
theorem c04_trans_down_restores {cmp} (hs : SWO cmp) (s : List Int) (i n lo : Nat)
    (hn : n ≤ s.length) (hlo : lo ≤ i) (hin : i ≤ n) (hpre : DownPre cmp (nthN s) i n lo true) :
    ∃ (s' : List Int) (i' : Nat),
      Golib.Gen.Trans.C04.down s cmp Golib.Gen.Trans.C04.swap (i : Int) (n : Int)
        = .ok (decide (i < i'), s') ∧
      s'.length = s.length ∧ s'.Perm s ∧ (∀ k, n ≤ k → nthN s' k = nthN s k) ∧
      HeapOn cmp (nthN s') lo n := by
  obtain ⟨s', i', h1, h2⟩ := c04_down_restores hs s i n lo hn hlo hin hpre
  exact ⟨s', i', by rw [(c04_trans_slice cmp s i n).2.1, h1]; rfl, h2⟩

/-- `c04_up_restores` directly on the generated definitions. -/
theorem c04_trans_up_restores {cmp} (hs : SWO cmp) (s : List Int) (j n : Nat)
    (hn : n ≤ s.length) (hj : j < n) (hpre : UpPre cmp (nthN s) j n) :
    ∃ s', Golib.Gen.Trans.C04.up s cmp Golib.Gen.Trans.C04.swap (j : Int) = .ok s' ∧
      s'.length = s.length ∧ s'.Perm s ∧ (∀ k, n ≤ k → nthN s' k = nthN s k) ∧
      HeapOn cmp (nthN s') 0 n := by
  obtain ⟨s', h1, h2⟩ := c04_up_restores hs s j n hn hj hpre
  exact ⟨s', by rw [(c04_trans_slice cmp s j 0).1, h1]; rfl, h2⟩

/-- `c04_build_heap` directly on the generated definitions: `build` turns any `[]int` into a heap
with the same multiset, without panicking. -/
theorem c04_trans_build_heap {cmp} (hs : SWO cmp) (s : List Int) :
    ∃ s', Golib.Gen.Trans.C04.build s cmp Golib.Gen.Trans.C04.swap = .ok s' ∧ s'.Perm s ∧ Heap cmp s' := by
  obtain ⟨s', h1, h2⟩ := c04_build_heap hs s
  exact ⟨s', by rw [(c04_trans_slice cmp s 0 0).2.2.2, h1]; rfl, h2⟩

/-- Non-vacuity: the generated code run on concrete slices with `<`: `up` from the last position,
`down` from the root (it moved: `true`), `build`; an index out of range panics; a `swap` callback
that panics makes `up` panic (`cbSwap fun _ _ _ => none`). -/
example :
    Golib.Gen.Trans.C04.up [3, 5, 1] (fun a b => decide (a < b)) Golib.Gen.Trans.C04.swap 2 = .ok [1, 5, 3] ∧
    Golib.Gen.Trans.C04.down [9, 5, 1, 7] (fun a b => decide (a < b)) Golib.Gen.Trans.C04.swap 0 4
      = .ok (true, [1, 5, 9, 7]) ∧
    Golib.Gen.Trans.C04.build [9, 7, 5, 3, 1] (fun a b => decide (a < b)) Golib.Gen.Trans.C04.swap
      = .ok [1, 3, 5, 9, 7] ∧
    Golib.Gen.Trans.C04.up [3, 5, 1] (fun a b => decide (a < b)) Golib.Gen.Trans.C04.swap 3 = .panic ∧
    Golib.Gen.Trans.C04.up [3, 5, 1] (fun a b => decide (a < b)) (cbSwap fun _ _ _ => none) 2 = .panic := by
  refine ⟨?_, ?_, ?_, ?_, ?_⟩ <;> decide +kernel

/-! ### Wave 9: the methods of `heapz/slice.go` regenerated from source

`Golib.Gen.Trans.C04.Slice` is the Go struct (`Values []T`, `cmp func(T, T) bool`; the callback FIELD is
ASSUMED pure and total like a callback parameter), the pointer receiver is passed as state, the
call `up(s.Values, s.cmp, swap[T], …)` hands the receiver's field to the regenerated sift routine
and the regenerated `swap` as the callback.  The ties say: on `T = int` each method IS the client
model `Slice.*` the sequence theorems (`c04_slice_*`, `c04_slice_sequences`, `c04_popall_sorted`)
are about — same result, same final `Values`, `cmp` untouched, panic exactly where the model
panics, never out of fuel.  `FromSlice`/`NewSlice` stay outside the subset (the struct field aliases
the caller's slice argument), as do `std_heap.go` (interface parameter) and `heap.go`
(`[]*Element[T]` with owner back-pointers). -/

/-- The regenerated `(*Slice[int]).Push` IS `Slice.push`. -/
theorem c04_trans_Slice_Push (s : Golib.Gen.Trans.C04.Slice Int) (x : Int) :
    Golib.Gen.Trans.C04.Slice_Push s x
      = optRes (fun v => ({ s with Values := v } : Golib.Gen.Trans.C04.Slice Int))
          (Slice.push s.cmp s.Values x) :=
  trans_Slice_Push_eq s x

/-- The regenerated `(*Slice[int]).Pop` IS `Slice.pop` (`popOut`: results `(x, ok)` first, then the receiver). -/
theorem c04_trans_Slice_Pop (s : Golib.Gen.Trans.C04.Slice Int) :
    Golib.Gen.Trans.C04.Slice_Pop s = optRes (popOut s) (Slice.pop s.cmp s.Values) :=
  trans_Slice_Pop_eq s

/-- The regenerated `(*Slice[int]).Peek` IS `Slice.peek`. -/
theorem c04_trans_Slice_Peek (s : Golib.Gen.Trans.C04.Slice Int) :
    Golib.Gen.Trans.C04.Slice_Peek s = optRes id (Slice.peek s.Values) :=
  trans_Slice_Peek_eq s

/-- The regenerated `(*Slice[int]).Len` is the length of `Values`. -/
theorem c04_trans_Slice_Len (s : Golib.Gen.Trans.C04.Slice Int) :
    Golib.Gen.Trans.C04.Slice_Len s = .ok (s.Values.length : Int) :=
  trans_Slice_Len_eq s

/-- The regenerated `(*Slice[int]).Remove` IS `Slice.remove`, at every index. -/
theorem c04_trans_Slice_Remove (s : Golib.Gen.Trans.C04.Slice Int) (i : Int) :
    Golib.Gen.Trans.C04.Slice_Remove s i = optRes (popOut s) (Slice.remove s.cmp s.Values i) :=
  trans_Slice_Remove_eq s i

/-- The regenerated `(*Slice[int]).Fix` IS `Slice.fix`, at every index. -/
theorem c04_trans_Slice_Fix (s : Golib.Gen.Trans.C04.Slice Int) (i : Int) :
    Golib.Gen.Trans.C04.Slice_Fix s i
      = optRes (fun v => ({ s with Values := v } : Golib.Gen.Trans.C04.Slice Int))
          (Slice.fix s.cmp s.Values i) :=
  trans_Slice_Fix_eq s i

/-- `c04_slice_push` and `c04_slice_pop` directly on the generated methods: on a heap-ordered
`Values`, `Push` does not panic, keeps the heap order and adds exactly `x`; `Pop` on a non-empty
heap removes exactly one element that no element precedes and keeps the heap order; on an empty
heap it returns `(0, false)` and leaves the receiver alone. -/
theorem c04_trans_Slice_push_pop (s : Golib.Gen.Trans.C04.Slice Int) (hs : SWO s.cmp)
    (h : Heap s.cmp s.Values) :
    (∀ x, ∃ v, Golib.Gen.Trans.C04.Slice_Push s x = .ok { s with Values := v } ∧
      Heap s.cmp v ∧ v.Perm (x :: s.Values)) ∧
    (s.Values = [] → Golib.Gen.Trans.C04.Slice_Pop s = .ok ((0, false), s)) ∧
    (s.Values ≠ [] → ∃ v x, Golib.Gen.Trans.C04.Slice_Pop s = .ok ((x, true), { s with Values := v }) ∧
      Heap s.cmp v ∧ (x :: v).Perm s.Values ∧ ∀ y ∈ s.Values, s.cmp y x = false) := by
  refine ⟨fun x => ?_, fun he => ?_, fun hne => ?_⟩
  · obtain ⟨v, h1, h2⟩ := c04_slice_push hs s.Values x h
    exact ⟨v, by rw [c04_trans_Slice_Push, h1]; rfl, h2⟩
  · rw [c04_trans_Slice_Pop, (c04_slice_pop hs s.Values h).1 he]
    show GoSem.Res.ok ((0, false), ({ s with Values := [] } : Golib.Gen.Trans.C04.Slice Int)) = _
    rw [← he]
  · obtain ⟨v, x, h1, h2⟩ := (c04_slice_pop hs s.Values h).2 hne
    exact ⟨v, x, by rw [c04_trans_Slice_Pop, h1]; rfl, h2⟩

/-- Non-vacuity: the generated methods run on a concrete heap with `<`: `Push 0` sifts to the root,
`Pop` returns the minimum, `Remove` out of range is a no-op with `(0, false)`, `Remove(1)` takes
`Values[1]`, `Fix` after the root was overwritten restores the order, `Peek` on empty is `(0, false)`. -/
example :
    valsOf (Golib.Gen.Trans.C04.Slice_Push ⟨[1, 3, 5], fun a b => decide (a < b)⟩ 0) = .ok [0, 1, 5, 3] ∧
    popValsOf (Golib.Gen.Trans.C04.Slice_Pop ⟨[1, 3, 5, 7], fun a b => decide (a < b)⟩)
      = .ok ((1, true), [3, 7, 5]) ∧
    popValsOf (Golib.Gen.Trans.C04.Slice_Remove ⟨[1, 3, 5, 7], fun a b => decide (a < b)⟩ 4)
      = .ok ((0, false), [1, 3, 5, 7]) ∧
    popValsOf (Golib.Gen.Trans.C04.Slice_Remove ⟨[1, 3, 5, 7], fun a b => decide (a < b)⟩ 1)
      = .ok ((3, true), [1, 7, 5]) ∧
    valsOf (Golib.Gen.Trans.C04.Slice_Fix ⟨[9, 3, 5, 7], fun a b => decide (a < b)⟩ 0) = .ok [3, 7, 5, 9] ∧
    Golib.Gen.Trans.C04.Slice_Peek ⟨([] : List Int), fun a b => decide (a < b)⟩ = .ok (0, false) ∧
    Golib.Gen.Trans.C04.Slice_Len ⟨[4, 5], fun a b => decide (a < b)⟩ = .ok 2 := by
  refine ⟨?_, ?_, ?_, ?_, ?_, ?_, ?_⟩ <;> decide +kernel

end Golib.C04
