/-
C04 — heapz heaps behave as priority queues with stable element handles.
ONLY property theorems and non-vacuity examples live here; helper lemmas are in
`Golib/Proof/C04*.lean`.

All theorems are about the executable model of `adjustment.go` / `slice.go` (`up`, `down`,
`fix`, `build` over the callbacks `less`/`swap`, instantiated with the plain slice swap) and hold
for every comparator that is a strict weak order, every slice and every index.
`Heap cmp s` : no element of `s` precedes its parent `s[(j-1)/2]`.
-/
import Golib.Proof.C04SliceOps
import Golib.Proof.C04Sim
import Golib.Proof.C04Handles

namespace Golib.C04

/-- `down(s, cmp, swap, i, n)`: if all pairs (child, parent) of the first `n` positions whose
parent is not `i` are in order and the children of `i` do not precede `i`'s parent, then `down`
does not panic, keeps the multiset, leaves positions `≥ n` alone and restores the heap order on
the first `n` positions. (`lo` generalises to sub-heaps, as `build` needs.) -/
theorem c04_down_restores {cmp} (hs : SWO cmp) (s : List Int) (i n lo : Nat)
    (hn : n ≤ s.length) (hlo : lo ≤ i) (hin : i ≤ n) (hpre : DownPre cmp (nthN s) i n lo true) :
    ∃ (s' : List Int) (i' : Nat),
      downB (sliceOps cmp) s (i : Int) (n : Int) = some (s', decide (i < i')) ∧
      s'.length = s.length ∧ s'.Perm s ∧ (∀ k, n ≤ k → nthN s' k = nthN s k) ∧
      HeapOn cmp (nthN s') lo n := by
  obtain ⟨s', i', h1, h2, h3, h4, _, h6⟩ := downB_spec hs s i n lo true hn hlo hin hpre
  exact ⟨s', i', h1, h2, h3, h4, by simpa using h6⟩

/-- `up(s, cmp, swap, j)`: if all pairs except `(j, parent j)` are in order and the children of
`j` do not precede `j`'s parent, `up` restores the heap order; multiset kept; no panic. -/
theorem c04_up_restores {cmp} (hs : SWO cmp) (s : List Int) (j n : Nat)
    (hn : n ≤ s.length) (hj : j < n) (hpre : UpPre cmp (nthN s) j n) :
    ∃ s', upF (sliceOps cmp) s (j : Int) = some s' ∧
      s'.length = s.length ∧ s'.Perm s ∧ (∀ k, n ≤ k → nthN s' k = nthN s k) ∧
      HeapOn cmp (nthN s') 0 n := by
  obtain ⟨s', h⟩ := up_spec hs (j + 1) s j n hn hj (by omega) hpre
  exact ⟨s', by simpa [upF] using h⟩

/-- `fix(s, cmp, swap, i, n)`: a heap on the first `n` positions in which the value at `i` was
replaced arbitrarily is a heap again afterwards; multiset kept; positions `≥ n` untouched. -/
theorem c04_fix_restores {cmp} (hs : SWO cmp) (s : List Int) (i n : Nat) (f0 : Nat → Int)
    (hn : n ≤ s.length) (hi : i < n) (h0 : HeapOn cmp f0 0 n)
    (hsame : ∀ k, k < n → k ≠ i → nthN s k = f0 k) :
    ∃ s', fix (sliceOps cmp) s (i : Int) (n : Int) = some s' ∧
      s'.length = s.length ∧ s'.Perm s ∧ (∀ k, n ≤ k → nthN s' k = nthN s k) ∧
      HeapOn cmp (nthN s') 0 n :=
  fix_spec hs s i n f0 hn hi h0 hsame

/-- `build` turns any slice into a heap with the same multiset. -/
theorem c04_build_heap {cmp} (hs : SWO cmp) (s : List Int) :
    ∃ s', build (sliceOps cmp) s (s.length : Int) = some s' ∧ s'.Perm s ∧ Heap cmp s' := by
  obtain ⟨s', h1, _, h3, h4⟩ := build_spec hs s
  exact ⟨s', h1, h3, h4⟩

/-- `FromSlice`: `Values` is heap-ordered and holds the given multiset. -/
theorem c04_slice_fromSlice {cmp} (hs : SWO cmp) (s : List Int) :
    ∃ s', Slice.fromSlice cmp s = some s' ∧ Heap cmp s' ∧ s'.Perm s :=
  slice_fromSlice hs s

/-- `Slice.Push`: heap order kept, exactly `x` added. -/
theorem c04_slice_push {cmp} (hs : SWO cmp) (s : List Int) (x : Int) (h : Heap cmp s) :
    ∃ s', Slice.push cmp s x = some s' ∧ Heap cmp s' ∧ s'.Perm (x :: s) :=
  slice_push hs s x h

/-- `Slice.Pop`: on an empty heap `(zero, false)`; otherwise it removes exactly one element `x`
that no element of the heap precedes, and `Values` stays heap-ordered. -/
theorem c04_slice_pop {cmp} (hs : SWO cmp) (s : List Int) (h : Heap cmp s) :
    (s = [] → Slice.pop cmp s = some ([], 0, false)) ∧
    (s ≠ [] → ∃ s' x, Slice.pop cmp s = some (s', x, true) ∧ Heap cmp s' ∧ (x :: s').Perm s ∧
      ∀ y ∈ s, cmp y x = false) :=
  slice_pop hs s h

/-- `Slice.Peek` returns an element no element of the heap precedes (and `(zero,false)` on empty). -/
theorem c04_slice_peek {cmp} (hs : SWO cmp) (s : List Int) (h : Heap cmp s) :
    (s = [] → Slice.peek s = some (0, false)) ∧
    (s ≠ [] → ∃ x, Slice.peek s = some (x, true) ∧ x ∈ s ∧ ∀ y ∈ s, cmp y x = false) :=
  slice_peek hs s h

/-- `Slice.Remove(i)` at ANY index: out of range it is a no-op returning `(zero,false)`; in range
it removes exactly `Values[i]` and `Values` stays heap-ordered. -/
theorem c04_slice_remove {cmp} (hs : SWO cmp) (s : List Int) (h : Heap cmp s) (i : Int) :
    ((i < 0 ∨ (s.length : Int) ≤ i) → Slice.remove cmp s i = some (s, 0, false)) ∧
    (∀ k : Nat, i = (k : Int) → k < s.length →
      ∃ s', Slice.remove cmp s i = some (s', nthN s k, true) ∧ Heap cmp s' ∧ (nthN s k :: s').Perm s) :=
  ⟨slice_remove_out cmp s i, fun k hk hlt => hk ▸ slice_remove_in hs s k h hlt⟩

/-- `Slice.Fix(i)` at ANY index, after an arbitrary change of `Values[i]`: out of range a no-op;
in range the heap order is restored and the multiset kept. -/
theorem c04_slice_fix {cmp} (hs : SWO cmp) (s0 : List Int) (h : Heap cmp s0) :
    (∀ i : Int, (i < 0 ∨ (s0.length : Int) ≤ i) → Slice.fix cmp s0 i = some s0) ∧
    (∀ (k : Nat) (v : Int), k < s0.length →
      ∃ s', Slice.fix cmp (s0.set k v) (k : Int) = some s' ∧ Heap cmp s' ∧ s'.Perm (s0.set k v)) :=
  ⟨fun i => slice_fix_out cmp s0 i, fun k v hk => slice_fix_in hs s0 k v h hk⟩

/-- `PopAll` (consumed to the end) yields every element exactly once, sorted, and empties the
heap: no later element precedes an earlier one. -/
theorem c04_popall_sorted {cmp} (hs : SWO cmp) (s : List Int) (h : Heap cmp s) :
    ∃ xs, Slice.popAll cmp (s.length + 1) s = some ([], xs) ∧ xs.Perm s ∧
      xs.Pairwise (fun a b => cmp b a = false) :=
  slice_popAll hs s.length s rfl h

/-- The sift routines are parametric in the container: for ANY `Interface` implementation whose
`Less`/`Swap` agree with those of a slice holding the same data (same answers, same panics — the
interface laws), the generic `std_up`/`std_down`/`Fix`/`Init` loops behave on the data exactly
as `up`/`down`/`fix`/`build` on the slice, so `c04_up_restores` … `c04_build_heap` apply to it. -/
theorem c04_generic_sim {σ : Type} (o : Ops σ) (abs : σ → List Int) (cmp : Int → Int → Bool)
    (laws : Sim o (sliceOps cmp) (fun a s => abs a = s)) (a : σ) (i n : Int) :
    RelO (fun x s => abs x = s) (upF o a i) (upF (sliceOps cmp) (abs a) i) ∧
    RelO (fun x y => abs x.1 = y.1 ∧ x.2 = y.2) (downB o a i n) (downB (sliceOps cmp) (abs a) i n) ∧
    RelO (fun x s => abs x = s) (fix o a i n) (fix (sliceOps cmp) (abs a) i n) ∧
    RelO (fun x s => abs x = s) (build o a n) (build (sliceOps cmp) (abs a) n) :=
  ⟨up_sim laws _ a (abs a) i rfl, downB_sim laws a (abs a) i n rfl, fix_sim laws a (abs a) i n rfl,
   build_sim laws a (abs a) n rfl⟩

/-- The generic `Init`, `Push`, `Fix` on the recording container of the harness (a lawful
`Interface`): heap order established / kept / restored, multiset kept, no panic.
Partial: the same for the generic `Pop(h)` and `Remove(h, i)` (return the minimum / element `i`,
heap order kept) is not proved yet for the container (it is for `Slice`, whose code is the same
sequence of calls); both are checked on every run call by call (`Less`/`Swap` log) against the
model and by the multiset oracle. -/
theorem c04_generic_partial {cmp} (hs : SWO cmp) (r : Rec) :
    (∃ r', Gen.init cmp r = some r' ∧ Heap cmp r'.data ∧ r'.data.Perm r.data) ∧
    (Heap cmp r.data → ∀ x, ∃ r', Gen.push cmp r x = some r' ∧ Heap cmp r'.data ∧
      r'.data.Perm (x :: r.data)) ∧
    (Heap cmp r.data → ∀ (i : Nat) (v : Int), i < r.data.length →
      ∃ r', Gen.fix cmp { r with data := r.data.set i v } (i : Int) = some r' ∧ Heap cmp r'.data ∧
        r'.data.Perm (r.data.set i v)) :=
  ⟨gen_init hs r, fun h x => gen_push hs r x h, fun h i v hi => gen_fix hs r i v h hi⟩

/-- `Heap` with handles: if the cached `index` of every element of `h.values` equals its real
position (`IdxInv`), it still does after `swapEle` and therefore after every `up`, `down`, `fix`
and `build` run with it, whatever they rearrange. -/
theorem c04_heap_index_inv {cmp} {m : HMem} {h : Nat} (hI : IdxInv m h) :
    (∀ i j m', (heapOps cmp h).swap m i j = some m' → IdxInv m' h) ∧
    (∀ i n m', fix (heapOps cmp h) m i n = some m' → IdxInv m' h) ∧
    (∀ j m', upF (heapOps cmp h) m j = some m' → IdxInv m' h) ∧
    (∀ i n m' b, downB (heapOps cmp h) m i n = some (m', b) → IdxInv m' h) ∧
    (∀ n m', build (heapOps cmp h) m n = some m' → IdxInv m' h) :=
  ⟨fun i j m' e => swapEle_idxInv hI e, (heap_sift_idxInv hI).1, (heap_sift_idxInv hI).2.1,
   (heap_sift_idxInv hI).2.2.1, (heap_sift_idxInv hI).2.2.2⟩

/-- Handles: a stale handle (`e.heap == nil`: popped, removed, or discarded by the repaired
`Init`) and a handle of another heap are ignored by `Remove` and `Fix` (state unchanged); the
element leaving through `h.pop()` reports `Index() == -1` and loses its owner.
Partial: that `Remove(e)` for a live `e` removes exactly `e` and that `Push/Pop/Remove/Fix` keep
the heap order on `Heap` follows from `c04_heap_index_inv` + the `Slice` theorems through the
simulation `c04_generic_sim` (same values, consistent indices) but is not assembled yet; it is
checked on every run (Index() of every live and dead handle after every call, sort-free
multiset oracle). -/
theorem c04_heap_handles_partial (cmp : Int → Int → Bool) (m : HMem) (h e : Nat) :
    (m.own.get e ≠ some h → m.remove cmp h e = some m ∧ m.fixElem cmp h e = some m) ∧
    (∀ m' x, m.popLast h = some (m', x) → m'.idx.get x = -1 ∧ m'.own.get x = none) :=
  ⟨heap_handles_ignored cmp m h e, fun m' x hp => popLast_left m m' h x hp⟩

/-- Non-vacuity: `<` on keys with ties (the harness's `key` comparator shape) is a strict weak
order, and a concrete slice with ties is a heap for it. -/
example : SWO (fun a b => decide (a / 10 < b / 10)) :=
  ⟨fun a => by simp, fun a b c h1 h2 => by simp at *; omega,
   fun a b c h1 h2 h3 h4 => by simp at *; omega⟩

example : Heap (fun a b => decide (a / 10 < b / 10)) [10, 31, 12, 33, 34, 15] := by
  intro c hc hc1 _
  simp at hc
  have : c = 1 ∨ c = 2 ∨ c = 3 ∨ c = 4 ∨ c = 5 := by omega
  rcases this with rfl | rfl | rfl | rfl | rfl <;> decide

/-- Non-vacuity of `IdxInv`: a two-element heap whose cached indices are exact. -/
example : IdxInv { HMem.zero with a0 := [0, 1], idx := (Golib.C13.IM.empty.set 0 0).set 1 1, fresh := 2 } 0 := by
  refine ⟨by simp [HMem.arr], fun k e hk => ?_⟩
  simp only [HMem.arr, if_true] at hk
  match k, hk with
  | 0, hk => simp at hk; subst hk; simp [Golib.C13.IM.get_set]
  | 1, hk => simp at hk; subst hk; simp [Golib.C13.IM.get_set]
  | k + 2, hk => simp at hk

end Golib.C04
