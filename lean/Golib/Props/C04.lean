/-
C04 — heapz heaps behave as priority queues with stable element handles.
ONLY property theorems and non-vacuity examples live here; helper lemmas are in
`Golib/Proof/C04*.lean`.

All theorems are about the executable model of `adjustment.go` / `slice.go` (`up`, `down`,
`fix`, `build` over the callbacks `less`/`swap`, instantiated with the plain slice swap) and hold
for every comparator that is a strict weak order, every slice and every index.
`Heap cmp s` : no element of `s` precedes its parent `s[(j-1)/2]`.
-/
import Golib.Proof.C04SliceOps

namespace Golib.C04

/-- `down(s, cmp, swap, i, n)`: if all pairs (child, parent) of the first `n` positions whose
parent is not `i` are in order and the children of `i` do not precede `i`'s parent, then `down`
does not panic, keeps the multiset, leaves positions `≥ n` alone and restores the heap order on
the first `n` positions. (`lo` generalises to sub-heaps, as `build` needs.) -/
theorem c04_down_restores {cmp} (hs : SWO cmp) (s : List Int) (i n lo : Nat)
    (hn : n ≤ s.length) (hlo : lo ≤ i) (hin : i ≤ n) (hpre : DownPre cmp (nthN s) i n lo true) :
    ∃ (s' : List Int) (i' : Nat),
      downB (sliceOps cmp) s (i : Int) (n : Int) = some (s', decide (i < i')) ∧
      s'.length = s.length ∧ s'.Perm s ∧ (∀ k, n ≤ k → nthN s' k = nthN s k) ∧
      HeapOn cmp (nthN s') lo n := by
  obtain ⟨s', i', h1, h2, h3, h4, _, h6⟩ := downB_spec hs s i n lo true hn hlo hin hpre
  exact ⟨s', i', h1, h2, h3, h4, by simpa using h6⟩

/-- `up(s, cmp, swap, j)`: if all pairs except `(j, parent j)` are in order and the children of
`j` do not precede `j`'s parent, `up` restores the heap order; multiset kept; no panic. -/
theorem c04_up_restores {cmp} (hs : SWO cmp) (s : List Int) (j n : Nat)
    (hn : n ≤ s.length) (hj : j < n) (hpre : UpPre cmp (nthN s) j n) :
    ∃ s', upF (sliceOps cmp) s (j : Int) = some s' ∧
      s'.length = s.length ∧ s'.Perm s ∧ (∀ k, n ≤ k → nthN s' k = nthN s k) ∧
      HeapOn cmp (nthN s') 0 n := by
  obtain ⟨s', h⟩ := up_spec hs (j + 1) s j n hn hj (by omega) hpre
  exact ⟨s', by simpa [upF] using h⟩

/-- `fix(s, cmp, swap, i, n)`: a heap on the first `n` positions in which the value at `i` was
replaced arbitrarily is a heap again afterwards; multiset kept; positions `≥ n` untouched. -/
theorem c04_fix_restores {cmp} (hs : SWO cmp) (s : List Int) (i n : Nat) (f0 : Nat → Int)
    (hn : n ≤ s.length) (hi : i < n) (h0 : HeapOn cmp f0 0 n)
    (hsame : ∀ k, k < n → k ≠ i → nthN s k = f0 k) :
    ∃ s', fix (sliceOps cmp) s (i : Int) (n : Int) = some s' ∧
      s'.length = s.length ∧ s'.Perm s ∧ (∀ k, n ≤ k → nthN s' k = nthN s k) ∧
      HeapOn cmp (nthN s') 0 n :=
  fix_spec hs s i n f0 hn hi h0 hsame

/-- `build` turns any slice into a heap with the same multiset. -/
theorem c04_build_heap {cmp} (hs : SWO cmp) (s : List Int) :
    ∃ s', build (sliceOps cmp) s (s.length : Int) = some s' ∧ s'.Perm s ∧ Heap cmp s' := by
  obtain ⟨s', h1, _, h3, h4⟩ := build_spec hs s
  exact ⟨s', h1, h3, h4⟩

/-- `FromSlice`: `Values` is heap-ordered and holds the given multiset. -/
theorem c04_slice_fromSlice {cmp} (hs : SWO cmp) (s : List Int) :
    ∃ s', Slice.fromSlice cmp s = some s' ∧ Heap cmp s' ∧ s'.Perm s :=
  slice_fromSlice hs s

/-- `Slice.Push`: heap order kept, exactly `x` added. -/
theorem c04_slice_push {cmp} (hs : SWO cmp) (s : List Int) (x : Int) (h : Heap cmp s) :
    ∃ s', Slice.push cmp s x = some s' ∧ Heap cmp s' ∧ s'.Perm (x :: s) :=
  slice_push hs s x h

/-- `Slice.Pop`: on an empty heap `(zero, false)`; otherwise it removes exactly one element `x`
that no element of the heap precedes, and `Values` stays heap-ordered. -/
theorem c04_slice_pop {cmp} (hs : SWO cmp) (s : List Int) (h : Heap cmp s) :
    (s = [] → Slice.pop cmp s = some ([], 0, false)) ∧
    (s ≠ [] → ∃ s' x, Slice.pop cmp s = some (s', x, true) ∧ Heap cmp s' ∧ (x :: s').Perm s ∧
      ∀ y ∈ s, cmp y x = false) :=
  slice_pop hs s h

/-- Non-vacuity: `<` on keys with ties (the harness's `key` comparator shape) is a strict weak
order, and a concrete slice with ties is a heap for it. -/
example : SWO (fun a b => decide (a / 10 < b / 10)) :=
  ⟨fun a => by simp, fun a b c h1 h2 => by simp at *; omega,
   fun a b c h1 h2 h3 h4 => by simp at *; omega⟩

example : Heap (fun a b => decide (a / 10 < b / 10)) [10, 31, 12, 33, 34, 15] := by
  intro c hc hc1 _
  simp at hc
  have : c = 1 ∨ c = 2 ∨ c = 3 ∨ c = 4 ∨ c = 5 := by omega
  rcases this with rfl | rfl | rfl | rfl | rfl <;> decide

end Golib.C04
