/-
C10 — Ring / SyncRing are bounded FIFOs sequentially.  ONLY property theorems and
non-vacuity examples live here; helper lemmas are in `Golib/Proof/C10*.lean`.

Abstraction: `Ring.content r` (oldest first); spec = bounded FIFO `BQ` on `List Int`
(`Golib/Model/C10Spec.lean`).
-/
import Golib.Proof.C10Refine
import Golib.Proof.C10SyncRefine
import Golib.Proof.C10Large
import Golib.Proof.C10History
import Golib.Proof.C10Copy
import Golib.Proof.C10C01
import Golib.Proof.C10Trans
import Golib.Proof.C10TransRing
import Golib.Proof.C10TransRingRun
import Golib.Proof.C10SyncArith
import Golib.Gen.FactsC10

namespace Golib.C10

/-- `New(cap)` for `cap > 0` yields an empty ring satisfying the invariant. -/
theorem c10_ring_init (cap : Int) (h : 0 < cap) :
    ∃ r, Ring.init? cap = some r ∧ r.Inv ∧ r.content = [] ∧ r.cap = cap := by
  have : ¬ cap ≤ 0 := by omega
  refine ⟨⟨List.replicate cap.toNat 0, -1, -1, cap⟩, by simp only [Ring.init?, this, if_false],
    ⟨h, ?_, Or.inl ⟨rfl, rfl⟩⟩, ?_, rfl⟩
  · simp; omega
  · simp [Ring.content]

/-- Push succeeds iff fewer than `Cap()` elements are held, appends at the tail, never panics. -/
theorem c10_ring_push (r : Ring) (v : Int) (hi : r.Inv) :
    ∃ r' ok, r.push v = some (r', ok) ∧ r'.Inv ∧ r'.cap = r.cap ∧
      (ok = true ↔ (r.content.length : Int) < r.cap) ∧
      r'.content = if ok then r.content ++ [v] else r.content :=
  push_spec r v hi

/-- Pop returns the oldest element and fails iff empty, never panics. -/
theorem c10_ring_pop (r : Ring) (hi : r.Inv) :
    ∃ r' v ok, r.pop = some (r', v, ok) ∧ r'.Inv ∧ r'.cap = r.cap ∧
      ((ok = true ∧ r.content = v :: r'.content) ∨
       (ok = false ∧ v = 0 ∧ r.content = [] ∧ r' = r)) :=
  pop_spec r hi

/-- Peek returns the oldest element without removing it. -/
theorem c10_ring_peek (r : Ring) (hi : r.Inv) :
    ∃ v ok, r.peek = some (v, ok) ∧
      ((ok = true ∧ r.content.head? = some v) ∨ (ok = false ∧ v = 0 ∧ r.content = [])) :=
  peek_spec r hi

/-- Len / IsEmpty / IsFull always agree with the element count. -/
theorem c10_ring_len (r : Ring) (hi : r.Inv) :
    r.len = r.content.length ∧ (r.isEmpty = true ↔ r.content = []) ∧
    (r.isFull = true ↔ (r.content.length : Int) = r.cap) :=
  ⟨(content_length r hi).symm, isEmpty_spec r hi, isFull_spec r hi⟩

/-- Non-vacuity: a wrapped ring (head > tail) satisfies the invariant. -/
example : (⟨[4, 5, 0, 3], 3, 1, 4⟩ : Ring).Inv ∧ (⟨[4, 5, 0, 3], 3, 1, 4⟩ : Ring).content = [3, 4, 5] :=
  ⟨⟨by decide, by decide, Or.inr (by decide)⟩, by decide⟩

/-- Recap succeeds exactly for positive capacities different from the current one and not
    below `Len`; it never panics, and content and order are preserved for every head
    offset, wrapped or not (the invariant admits every rotation). -/
theorem c10_recap_spec (r : Ring) (cap : Int) (hi : r.Inv) :
    ∃ r' ok, r.recap cap = some (r', ok) ∧ r'.Inv ∧ r'.content = r.content ∧
      (ok = true ↔ (0 < cap ∧ cap ≠ r.cap ∧ (r.content.length : Int) ≤ cap)) ∧
      r'.cap = (if ok then cap else r.cap) :=
  recap_spec r cap hi

/-- PushWithExpand always appends, never panics, doubles the capacity exactly when full. -/
theorem c10_expand (r : Ring) (v : Int) (hi : r.Inv) :
    ∃ r', r.pushWithExpand v = some r' ∧ r'.Inv ∧ r'.content = r.content ++ [v] ∧
      r'.cap = (if (r.content.length : Int) = r.cap then r.cap * 2 else r.cap) :=
  pushWithExpand_spec r v hi

/-- Non-vacuity for Recap: a wrapped ring shrunk to exactly its length. -/
example : (⟨[4, 5, 0, 3], 3, 1, 4⟩ : Ring).recap 3 = some (⟨[3, 4, 5], 0, 2, 3⟩, true) := by decide

/-- Refinement over arbitrary operation lists: from any state satisfying the
    representation invariant (every capacity, every rotation, wrapped or not, every
    fill level), a sequence of `push/pushx/recap/pop/peek/len/cap/isempty/isfull`
    of ANY length never panics and prints exactly what the bounded FIFO prints;
    the final state again abstracts to the FIFO's final state. -/
theorem c10_ring_refines (r : Ring) (hi : r.Inv) (ops : List Op) :
    ∃ r', r.run ops = some (r', (r.abs.run ops).2) ∧ r'.Inv ∧ r'.abs = (r.abs.run ops).1 := by
  induction ops generalizing r with
  | nil => exact ⟨r, rfl, hi, rfl⟩
  | cons op ops ih =>
    obtain ⟨r1, h1, hi1, ha1⟩ := step_refines r hi op
    obtain ⟨r2, h2, hi2, ha2⟩ := ih r1 hi1
    refine ⟨r2, ?_, hi2, ?_⟩
    · simp only [Ring.run, h1, h2, BQ.run, ha1]
    · simp only [BQ.run, ha2, ha1]

/-- The same from `New(cap)`: every history of a fresh ring is a bounded-FIFO history. -/
theorem c10_ring_refines_new (cap : Int) (h : 0 < cap) (ops : List Op) :
    ∃ r r', Ring.init? cap = some r ∧
      r.run ops = some (r', ((⟨[], cap⟩ : BQ).run ops).2) ∧ r'.Inv := by
  obtain ⟨r, hr, hi, hc, hcap⟩ := c10_ring_init cap h
  obtain ⟨r', h1, hi', _⟩ := c10_ring_refines r hi ops
  have : r.abs = ⟨[], cap⟩ := by simp only [Ring.abs, hc, hcap]
  rw [this] at h1
  exact ⟨r, r', hr, h1, hi'⟩

/-- Non-vacuity: a history with wrap, expand and recap, evaluated on model and spec. -/
example :
    ((⟨[4, 5, 0, 3], 3, 1, 4⟩ : Ring).run [.pushx 6, .pushx 7, .pop, .recap 4, .isFull]).map (·.2)
      = some ["ok", "ok", "3 true", "true", "true"] ∧
    ((⟨[3, 4, 5], 4⟩ : BQ).run [.pushx 6, .pushx 7, .pop, .recap 4, .isFull]).2
      = ["ok", "ok", "3 true", "true", "true"] := by
  constructor <;> decide

/-- Large stream: histories made of BULK operations (`fill n v` = n × `Push`, `drain n` =
n × `Pop`, `xfill n v` = n × `PushWithExpand`, defined on the model as plain iterations)
and single operations, from any state satisfying the invariant (every capacity, every
rotation): the iterated model never panics and prints exactly what the linear-time
spec-level run `BQ.lrun` prints — which is what the oracle answers for `ringL` cases
(capacities up to several thousand, rings grown across 1024/4096). -/
theorem c10_ring_large_refines (r : Ring) (hi : r.Inv) (ops : List LOp) :
    ∃ r', r.lrun ops = some (r', (r.abs.lrun ops).2) ∧ r'.Inv ∧ r'.abs = (r.abs.lrun ops).1 := by
  induction ops generalizing r with
  | nil => exact ⟨r, rfl, hi, rfl⟩
  | cons op ops ih =>
    obtain ⟨r1, h1, hi1, ha1⟩ := lstep_refines r hi op
    obtain ⟨r2, h2, hi2, ha2⟩ := ih r1 hi1
    refine ⟨r2, ?_, hi2, ?_⟩
    · simp only [Ring.lrun, h1, h2, BQ.lrun, ha1]
    · simp only [BQ.lrun, ha2, ha1]

/-- ... in particular from `New(cap)`: the `ringL` driver's answers are the model's. -/
theorem c10_ring_large_new (cap : Int) (h : 0 < cap) (ops : List LOp) :
    ∃ r r', Ring.init? cap = some r ∧ r.lrun ops = some (r', ((⟨[], cap⟩ : BQ).lrun ops).2) := by
  obtain ⟨r, hr, hi, hc, hcap⟩ := c10_ring_init cap h
  obtain ⟨r', h1, _, _⟩ := c10_ring_large_refines r hi ops
  have : r.abs = ⟨[], cap⟩ := by simp only [Ring.abs, hc, hcap]
  rw [this] at h1
  exact ⟨r, r', hr, h1⟩

/-- Non-vacuity: fill, rotate, refill, expand twice past full, drain: iterated model and
closed forms agree on a concrete wrapped history. -/
example :
    ((Ring.init? 4).bind fun r => (r.lrun [.fill 4 1, .drain 3, .fill 9 5, .xfill 3 20, .one .cap, .drain 9]).map (·.2))
      = some ["4", "3 6 " ++ toString ((((0*31+1+7)*31+2+7)*31+3+7) % 1000000007), "3", "ok", "8",
              (((⟨[], 4⟩ : BQ).lrun [.fill 4 1, .drain 3, .fill 9 5, .xfill 3 20, .one .cap, .drain 9]).2).getLast!] := by
  decide +kernel

/-- `c10_ring_len_no_overflow`: the `Ring` model computes on unbounded `Int`; Go computes on
`int` (64-bit).  With a zero-size element type (`Ring[struct{}]`, `Ring[[0]int]`) capacities
up to `math.MaxInt = 2^63 − 1` are reachable without memory, so this matters.  For every
state satisfying the invariant with `cap ≤ 2^63 − 1`, every INTERMEDIATE value of the coded
expressions — `tail − head + 1` (unwrapped `Len`), `cap − head`, `cap − head + tail`,
`cap − head + tail + 1` (wrapped `Len`, left to right), `tail + 1` (`IsFull`, `Push`),
`head + 1` (`Pop`) — lies in the `int64` range: Go's arithmetic coincides with the model's.
(`r.cap * 2` in `PushWithExpand` is evaluated only on a FULL ring; for `cap > 2^62` that
needs more than 2^62 pushes and is outside every executable history.  The one-expression
`Len` of seeded C10-G, `(tail − head + cap) % cap + 1`, does overflow: `Findings/C10.lean`.) -/
theorem c10_ring_len_no_overflow (r : Ring) (hi : r.Inv) (hc : r.cap ≤ 2 ^ 63 - 1) :
    let ok := fun (x : Int) => -(2 ^ 63) ≤ x ∧ x < 2 ^ 63
    ok (r.tail + 1) ∧ ok (r.head + 1) ∧
    (r.head ≠ -1 → r.head ≤ r.tail → ok (r.tail - r.head) ∧ ok (r.tail - r.head + 1)) ∧
    (r.head ≠ -1 → ¬ r.head ≤ r.tail →
      ok (r.cap - r.head) ∧ ok (r.cap - r.head + r.tail) ∧ ok (r.cap - r.head + r.tail + 1)) ∧
    ok r.len ∧ 0 ≤ r.len ∧ r.len ≤ r.cap := by
  intro ok
  have hlen := content_length r hi
  have hle := content_le_cap r hi
  obtain ⟨hcp, _, hr⟩ := hi
  have hl0 : 0 ≤ r.len := by rw [← hlen]; omega
  have hl1 : r.len ≤ r.cap := by rw [← hlen]; exact hle
  refine ⟨?_, ?_, ?_, ?_, ?_, hl0, hl1⟩
  · show -(2 ^ 63) ≤ r.tail + 1 ∧ r.tail + 1 < 2 ^ 63
    rcases hr with ⟨_, h⟩ | ⟨_, _, h1, h2⟩ <;> omega
  · show -(2 ^ 63) ≤ r.head + 1 ∧ r.head + 1 < 2 ^ 63
    rcases hr with ⟨h, _⟩ | ⟨h1, h2, _, _⟩ <;> omega
  · intro hne hle'
    show (-(2 ^ 63) ≤ r.tail - r.head ∧ r.tail - r.head < 2 ^ 63) ∧
      (-(2 ^ 63) ≤ r.tail - r.head + 1 ∧ r.tail - r.head + 1 < 2 ^ 63)
    rcases hr with ⟨h, _⟩ | ⟨h1, h2, h3, h4⟩
    · exact absurd h hne
    · omega
  · intro hne hgt
    show (-(2 ^ 63) ≤ r.cap - r.head ∧ r.cap - r.head < 2 ^ 63) ∧
      (-(2 ^ 63) ≤ r.cap - r.head + r.tail ∧ r.cap - r.head + r.tail < 2 ^ 63) ∧
      (-(2 ^ 63) ≤ r.cap - r.head + r.tail + 1 ∧ r.cap - r.head + r.tail + 1 < 2 ^ 63)
    rcases hr with ⟨h, _⟩ | ⟨h1, h2, h3, h4⟩
    · exact absurd h hne
    · omega
  · show -(2 ^ 63) ≤ r.len ∧ r.len < 2 ^ 63
    omega

/-- Non-vacuity: `New[struct{}](math.MaxInt)` after two pushes: `Len() = 2`, not full
(spec-level run, which is what the oracle answers for `ringZ` cases). -/
example : ((⟨[], 2 ^ 63 - 1⟩ : BQ).lrun [.fill 2 0, .one .len, .one .isFull, .one (.recap 1), .one (.recap 2), .one .cap]).2
    = ["2", "2", "false", "false", "true", "2"] := by decide +kernel

/-- Histories with `Init` on the EXISTING ring, any number of times, with any positive
capacities (smaller, equal, larger), interleaved with every other operation incl. `Recap`
and `PushWithExpand`: from every invariant state the model never panics and prints what
the bounded FIFO prints, where `Init(c)` is "the empty FIFO of capacity `c`"; a
non-positive `Init` panics (second conjunct).  Every history, not only the generated ones. -/
theorem c10_ring_refines_reinit (r : Ring) (hi : r.Inv) (hs : List HOp) (hp : HOp.initsPositive hs) :
    (∃ r', r.hrun hs = some (r', (r.abs.hrun hs).2) ∧ r'.Inv ∧ r'.abs = (r.abs.hrun hs).1) ∧
    ∀ (r0 : Ring) (c : Int) (tl : List HOp), c ≤ 0 → r0.hrun (.init c :: tl) = none :=
  ⟨hrun_refines hs r hi hp, fun r0 c tl hc => hrun_init_nonpos r0 c hc tl⟩

/-- EVERY history of the never-initialised zero value (outside the property, made total):
the single steps are `zeroOut` (Len 1, Cap 0, IsEmpty false, Recap(c ≤ 0) false, state
unchanged; every other operation panics), so a history either panics at its first
non-benign operation, or stays the zero value, or reaches an `Init(c)`, `c > 0`, after which
it is a bounded-FIFO history (across Recap / PushWithExpand / further Inits). -/
theorem c10_ring_zero_histories :
    (∀ o, Ring.zero.step o = (zeroOut o).map fun s => (Ring.zero, s)) ∧
    ∀ (pre : List Op), (∀ o ∈ pre, (zeroOut o).isSome) →
      (∀ (c : Int) (rest : List HOp), 0 < c → HOp.initsPositive rest →
        ∃ r', Ring.zero.hrun (pre.map HOp.op ++ .init c :: rest) =
          some (r', pre.map (fun o => (zeroOut o).getD "") ++ "ok" :: ((⟨[], c⟩ : BQ).hrun rest).2)) ∧
      (∀ (o : Op) (rest : List HOp), zeroOut o = none →
        Ring.zero.hrun (pre.map HOp.op ++ .op o :: rest) = none) :=
  ⟨zero_step, zero_hrun⟩

/-- Non-vacuity: zero value, two benign calls, `Init(2)`, fill, expand, re-`Init(1)`. -/
example : (Ring.zero.hrun [.op .len, .op (.recap 0), .init 2, .op (.push 1), .op (.push 2), .op (.pushx 3),
      .op .cap, .init 1, .op (.push 9), .op .isFull, .op .pop]).map (·.2)
    = some ["1", "false", "ok", "true", "true", "ok", "4", "ok", "true", "true", "9 true"] := by
  decide +kernel

/-- The zero value `var r Ring[T]` (never `Init`ialised; no capacity was requested, so it
is outside the property) is NOT an empty ring of capacity 0: `head = tail = 0` makes
`IsEmpty()` false and `Len()` 1 while `Cap()` is 0, and `IsFull`, `Push`,
`PushWithExpand` (division by zero in `% r.cap`), `Pop`, `Peek` (index into the nil slice)
and every `Recap` to a positive capacity (slice bounds) panic.  The case header
`ring zero` ties exactly this to the code on every run. -/
theorem c10_ring_zero_value :
    Ring.zero.isEmpty = false ∧ Ring.zero.len = 1 ∧ Ring.zero.cap = 0 ∧ ¬ Ring.zero.Inv ∧
    Ring.zero.isFull? = none ∧ (∀ v, Ring.zero.push v = none) ∧
    (∀ v, Ring.zero.pushWithExpand v = none) ∧ Ring.zero.pop = none ∧ Ring.zero.peek = none ∧
    (∀ c, Ring.zero.recap c = if c ≤ 0 then some (Ring.zero, false) else none) := by
  refine ⟨by decide, by decide, rfl, fun h => absurd h.capPos (by decide), by decide,
    fun _ => rfl, fun _ => rfl, by decide, by decide, ?_⟩
  intro c
  by_cases hc : c ≤ 0
  · rw [if_pos hc]
    unfold Ring.recap
    rw [if_pos (Or.inl hc)]
  · rw [if_neg hc]
    have h1 : ¬ (c ≤ 0 ∨ c = Ring.zero.cap) := by
      have : Ring.zero.cap = 0 := rfl
      omega
    have h2 : ¬ (c < Ring.zero.len) := by
      have : Ring.zero.len = 1 := by decide
      omega
    unfold Ring.recap
    rw [if_neg h1]
    simp only [h2, if_false]
    simp [Ring.zero, Ring.isEmpty, slice]

/-! ## SyncRing used from one goroutine -/

/-- `NewSync(n).Cap()` for every admissible request `1 ≤ n ≤ 2^31`: the smallest power of
two that is at least `max 2 n` (a power `2^e` with `1 ≤ e ≤ 31`; `uint32` truncation,
`1 → 2`, the `c&(c-1)` test and the bit-length loop all accounted for).  Requests above
2^31 are rejected by the (repaired, F6) panic branch: `c10_cap_overflow_rejected`. -/
theorem c10_cap_rounding (n : Int) (h1 : 1 ≤ n) (h2 : n ≤ 2 ^ 31) :
    ∃ r c e, SyncRing.init? n = some r ∧ r.cap = c ∧ c = 2 ^ e ∧ 1 ≤ e ∧ e ≤ 31 ∧
      max 2 n.toNat ≤ c ∧ ∀ e', max 2 n.toNat ≤ 2 ^ e' → c ≤ 2 ^ e' := by
  obtain ⟨c, e, g, ⟨_, hge, hleast⟩, hinit⟩ := init_mk n h1 (by omega)
  exact ⟨_, c, e, hinit, rfl, g.pow, g.e1, g.e31, hge, hleast⟩

/-- `NewSync(n)` panics for `n ≤ 0` and for `n > 2^31` (no `uint32` capacity can be the
least power of two ≥ n; before the repair of F6 such a ring had `Cap() = 0`). -/
theorem c10_cap_overflow_rejected (n : Int) (h : n ≤ 0 ∨ 2 ^ 31 < n) : SyncRing.init? n = none := by
  have : n ≤ 0 ∨ n > 2147483648 := by omega
  simp only [SyncRing.init?, syncCap, this, if_true]

/-- Non-vacuity: a request that is rounded (5 → 8) and the largest admissible one. -/
example : (SyncRing.init? 5).map (·.cap) = some 8 ∧ syncCap (2 ^ 31) = some (2 ^ 31) ∧
    syncCap (2 ^ 31 - 1) = some (2 ^ 31) := by
  refine ⟨by decide +kernel, by decide +kernel, by decide +kernel⟩

/-- The single-goroutine SyncRing equals the bounded FIFO for operation sequences of ANY
length (`push/pop/len/cap/isempty/isfull` and `PushWait/PopWait` with `maxWait ≥ 0`)
and from ANY absolute counter value: `H` is the ghost, unbounded number of
elements ever popped; the real `uint32` counters are `H mod 2^32` and `(H+|q|) mod 2^32`
and the slot sequence numbers are as in `mkSync` (slot `i` holds `(p+1) mod 2^32` if its
window position `p` is below the tail, else `p mod 2^32`).  So the guarantees hold after
more than 2^32 pushes, when the 32-bit position counters have wrapped (any number of
times).  No operation panics.  Needs `cap = 2^e`, `1 ≤ e ≤ 31` (which `Init` establishes:
`c10_cap_rounding`; with `cap = 1` the full test `pos ≠ seq` would fail). -/
theorem c10_sync_refines (c e : Nat) (hc : c = 2 ^ e) (he1 : 1 ≤ e) (he31 : e ≤ 31)
    (H : Nat) (q : List Int) (hq : q.length ≤ c) (ops : List SOp) :
    ∃ H' q', (mkSync c H q).run ops =
        some (mkSync c H' q', ((⟨q, c⟩ : BQ).run (ops.map SOp.toOp)).2) ∧
      ((⟨q, c⟩ : BQ).run (ops.map SOp.toOp)).1 = ⟨q', c⟩ ∧ q'.length ≤ c :=
  sync_run_refines ⟨hc, he1, he31⟩ ops H q hq

/-- `PushWait` / `PopWait` on every canonical state (every absolute counter value), for
every `maxWait`, every sequence of tick times the clock delivers and every amount of
spinning: with `maxWait ≥ 0` (and a clock that reaches `maxWait`) they do and return exactly
what `Push` / `Pop` do — `true` iff fewer than `Cap()` elements are held, the oldest element
iff non-empty; with `maxWait < 0` they return at the first attempt when the ring is not
full / not empty and otherwise never return (one goroutine: nobody else can make room).
Waits with `maxWait ≥ 0` are also operations of `c10_sync_refines` (`SOp.pushW/popW`). -/
theorem c10_sync_wait (c e : Nat) (hc : c = 2 ^ e) (he1 : 1 ≤ e) (he31 : e ≤ 31)
    (H : Nat) (q : List Int) (hq : q.length ≤ c) (v w : Int) (ticks : List Int) (fuel : Nat) :
    (0 ≤ w → (w = 0 ∨ ∃ t ∈ ticks, w ≤ t) →
      (mkSync c H q).pushWait v w ticks fuel = some (.done
        (if q.length < c then (mkSync c H (q ++ [v]), true) else (mkSync c H q, false))) ∧
      (mkSync c H q).popWait w ticks fuel = some (.done
        (match q with
         | [] => (mkSync c H [], 0, false)
         | x :: q' => (mkSync c (H + 1) q', x, true)))) ∧
    (w < 0 → 0 < fuel →
      (mkSync c H q).pushWait v w ticks fuel =
        some (if q.length < c then .done (mkSync c H (q ++ [v]), true) else .blocks) ∧
      (mkSync c H q).popWait w ticks fuel = some
        (match q with
         | [] => .blocks
         | x :: q' => .done (mkSync c (H + 1) q', x, true))) := by
  have g : Geom c e := ⟨hc, he1, he31⟩
  have hpush := push_mk g H q v hq
  refine ⟨fun hw ht => ⟨?_, ?_⟩, fun hw hf => ⟨?_, ?_⟩⟩
  · rw [pushWait_nonneg _ v w ticks fuel hw ht, hpush]; rfl
  · rw [popWait_nonneg _ w ticks fuel hw ht]
    cases q with
    | nil => rw [pop_mk_nil g H]; rfl
    | cons x q' => rw [pop_mk_cons g H x q' hq]; rfl
  · by_cases hlt : q.length < c
    · simp only [hlt, if_true] at hpush ⊢
      exact (pushWait_neg _ v w ticks hw).1 _ hpush fuel hf
    · simp only [hlt, if_false] at hpush ⊢
      exact (pushWait_neg _ v w ticks hw).2 _ hpush fuel
  · cases q with
    | nil => exact (popWait_neg _ w ticks hw).2 _ _ (pop_mk_nil g H) fuel
    | cons x q' => exact (popWait_neg _ w ticks hw).1 _ _ (pop_mk_cons g H x q' hq) fuel hf

/-- Non-vacuity: a full ring of capacity 2 at the 2^32 boundary: `PushWait(9, 25ms)` gives
up after the ticks 10, 20, 30, `PushWait(9, -1)` does not return, `PopWait(-1)` returns the
oldest element. -/
example :
    (mkSync 2 (2 ^ 32 - 1) [7, 8]).pushWait 9 25 [10, 20, 30] 0
      = some (.done (mkSync 2 (2 ^ 32 - 1) [7, 8], false)) ∧
    (mkSync 2 (2 ^ 32 - 1) [7, 8]).pushWait 9 (-1) [] 5 = some .blocks ∧
    (mkSync 2 (2 ^ 32 - 1) [7, 8]).popWait (-1) [] 5 = some (.done (mkSync 2 (2 ^ 32) [8], 7, true)) := by
  refine ⟨by decide +kernel, by decide +kernel, by decide +kernel⟩

/-- A timed `PushWait` / `PopWait` that answers `false` has not pushed / popped, for every
sequence of tick times and from every state; and a push / pop that succeeds on the very
tick on which `maxWait` expires is reported as a success (the loop attempts the operation
before it tests the expiry).  The extra `syncring-timed-wait` checks the same on the real
timed forms by accounting for the elements. -/
theorem c10_wait_false_unchanged (v w : Int) (ticks : List Int) (r r1 : SyncRing) (x : Int) :
    (pushTicks v w ticks r = some (.done (r1, false)) → r1 = r) ∧
    (popTicks w ticks r = some (.done (r1, x, false)) → r1 = r) ∧
    (∀ now ts r2, r.push v = some (r2, true) → pushTicks v w (now :: ts) r = some (.done (r2, true))) ∧
    (∀ now ts r2 y, r.pop = some (r2, y, true) → popTicks w (now :: ts) r = some (.done (r2, y, true))) :=
  ⟨pushTicks_false v w ticks r r1, popTicks_false w ticks r r1 x,
   fun now ts r2 h => pushTicks_success_on_expiry v w now ts r r2 h,
   fun now ts r2 y h => popTicks_success_on_expiry w now ts r r2 y h⟩

/-! ## Struct copies (`b := a`): shared backing arrays

`Ring` and `SyncRing` are handed around by value; a copy shares the backing array until
one of the two allocates (`Init` always; `Recap` when it succeeds, `PushWithExpand` when it
expands).  In the heap-of-buffers model (`Model/C10Copy.lean`, tied by the `ringC` /
`syncC` cases) an object's own operation is exactly `Ring.step` / `SyncRing.step` on the
struct with its array read from the heap, so all the theorems above apply to every object
for as long as nobody else writes into its buffer; the two theorems below say when that is
guaranteed. -/

/-- Frame: an operation on object `i` (written back in place or into a fresh buffer) does
not change what any object `j` with a DIFFERENT buffer reads — objects that do not share a
backing array are independent. -/
theorem c10_copy_frame {σ β : Type} (getV : σ → List β) (setV : σ → List β → σ) (m : MS σ β)
    (hwf : m.WF) (i j : Nat) (o' : σ) (alloc : Bool) (bi bj : Nat) (oi oj : σ)
    (hi : m.objs[i]? = some (bi, oi)) (hj : m.objs[j]? = some (bj, oj)) (hij : i ≠ j)
    (hb : bi ≠ bj) :
    (m.store getV i o' alloc).load setV j = m.load setV j :=
  load_store_other getV setV m hwf i j o' alloc bi bj oi oj hi hj hij hb

/-- After `Init` (or any allocating operation) the object owns a buffer that NO other
object refers to — it is independent of every copy made before, whatever the old and new
capacities are — and it reads back the freshly initialised state. -/
theorem c10_init_fresh {σ β : Type} (getV : σ → List β) (setV : σ → List β → σ) (m : MS σ β)
    (hwf : m.WF) (i : Nat) (o' : σ) (bi : Nat) (oi : σ) (hi : m.objs[i]? = some (bi, oi))
    (hgs : setV o' (getV o') = o') :
    (m.store getV i o' true).load setV i = some o' ∧ (m.store getV i o' true).WF ∧
    ∀ j bj oj, j ≠ i → (m.store getV i o' true).objs[j]? = some (bj, oj) → bj ≠ m.heap.length :=
  store_alloc_fresh getV setV m hwf i o' bi oi hi hgs

/-- `c10_objects_independent`: objects created by separate `New` calls (`MS.ofNew`: object
`k` owns buffer `k`) have pairwise distinct buffers inside the heap, and EVERY operation on
one of them — in place or allocating (Init, Recap, an expanding PushWithExpand) — keeps
that so and leaves what every other object reads unchanged.  By induction over any
interleaving of operations on 2, 3, 4 … rings that are never copied, each ring therefore
evolves exactly as if it were alone (`c10_ring_refines`, `c10_ring_large_refines`,
`c10_sync_refines` apply to each).  A package-level buffer pool that hands one ring's
LIVE buffer to another ring breaks precisely this (seeded C10-H). -/
theorem c10_objects_independent {σ β : Type} (getV : σ → List β) (setV : σ → List β → σ) :
    (∀ rs : List σ, (MS.ofNew getV rs).WF ∧ (MS.ofNew getV rs).Distinct) ∧
    ∀ (m : MS σ β), m.WF → m.Distinct → ∀ (i : Nat) (o' : σ) (alloc : Bool) (bi : Nat) (oi : σ),
      m.objs[i]? = some (bi, oi) →
      (m.store getV i o' alloc).WF ∧ (m.store getV i o' alloc).Distinct ∧
      ∀ j, j ≠ i → (m.store getV i o' alloc).load setV j = m.load setV j :=
  ⟨fun rs => ofNew_wf_distinct getV rs,
   fun m hwf hd i o' alloc bi oi hi => store_independent getV setV m hwf hd i o' alloc bi oi hi⟩

/-- Non-vacuity: `b := a; a.Init(4); a.Push(8); b.Pop()` on SyncRings — `b` still pops its
own oldest element; without the re-allocation in `Init` it would see `a`'s write. -/
example :
    (do
      let a ← SyncRing.init? 4
      let (a1, _) ← a.push 1
      let m : MS SyncRing Slot := { heap := [a1.values], objs := [(0, a1), (0, a1)] }  -- b := a
      let a' ← SyncRing.init? 4
      let m1 := m.store SyncRing.values 0 a' true                                      -- a.Init(4)
      let x ← m1.load syncSetV 0
      let (x1, _) ← x.push 8                                                           -- a.Push(8)
      let m2 := m1.store SyncRing.values 0 x1 false
      let b ← m2.load syncSetV 1
      let (_, v, ok) ← b.pop                                                           -- b.Pop()
      pure (v, ok)) = some ((1 : Int), true) := by
  decide +kernel

/-! ## The sequential model IS C01's per-access machine run by one thread -/

/-- `c10_sync_is_c01_single_thread`: for every ring state `r` (with `mask = cap − 1` and
`head < 2^32`, which every canonical state has — last conjunct), each call of C10's
one-step model equals C01's machine (`Golib.C01.step`, ONE shared-memory access per step:
load tail, load seq, compare, CAS, write value, store seq; load head, load seq, compare,
CAS, read value, clear value, store seq) run by a single thread until the call returns:
same final shared state (`embed`), same return value, a Go panic on the same inputs.  So
C10's and C01's models are the same object, and everything C01 proves about the access
structure (and its source-order facts) is about C10's model too. -/
theorem c10_sync_is_c01_single_thread (r : SyncRing) (hm : r.mask = r.cap - 1) (hh : r.head < two32) :
    (∀ v, (r.push v = none → (soloCall (cfgOf r) 6 (embed r (.pushLoadTail v))).2 = some .panic) ∧
      ∀ r' ok, r.push v = some (r', ok) →
        soloCall (cfgOf r) 6 (embed r (.pushLoadTail v)) = (embed r' .idle, some (.push ok))) ∧
    ((r.pop = none → (soloCall (cfgOf r) 7 (embed r .popLoadHead)).2 = some .panic) ∧
      ∀ r' x ok, r.pop = some (r', x, ok) →
        soloCall (cfgOf r) 7 (embed r .popLoadHead) = (embed r' .idle, some (.pop x ok))) ∧
    soloCall (cfgOf r) 2 (embed r .lenLoadTail) = (embed r .idle, some (.len r.len)) ∧
    soloCall (cfgOf r) 2 (embed r .emptyLoadHead) = (embed r .idle, some (.isEmpty r.isEmpty)) ∧
    soloCall (cfgOf r) 2 (embed r .fullLoadTail) = (embed r .idle, some (.isFull r.isFull)) ∧
    (∀ c H q, (mkSync c H q).mask = (mkSync c H q).cap - 1 ∧ (mkSync c H q).head < two32) :=
  ⟨fun v => solo_push r v hm, solo_pop r hm, solo_len r hh, solo_isEmpty r, solo_isFull r hh,
   fun c H q => ⟨rfl, Nat.mod_lt _ (by decide)⟩⟩

/-- The accesses that machine performs for C10's rings are, in order, the shared-memory
accesses found in the SOURCE of `Push`, `Pop`, `Len`, `IsEmpty`, `IsFull`
(`Gen/FactsC10.lean`, regenerated from ringz/sync.go on every C10 run): a reordering of the
accesses in the code breaks this theorem although no sequential result changes. -/
theorem c10_sync_source_order :
    C01.soloSrc (cfgOf ring2) (embed ring2 (.pushLoadTail 5)) 8 = Gen.C10.pushOps ∧
    C01.soloSrc (cfgOf ring2one) (embed ring2one .popLoadHead) 9 = Gen.C10.popOps ∧
    C01.soloSrc (cfgOf ring2) (embed ring2 .lenLoadTail) 4 = Gen.C10.lenOps ∧
    C01.soloSrc (cfgOf ring2) (embed ring2 .emptyLoadHead) 4 = Gen.C10.isEmptyOps ∧
    C01.soloSrc (cfgOf ring2) (embed ring2 .fullLoadTail) 4 = Gen.C10.isFullOps := by
  refine ⟨by decide +kernel, by decide +kernel, by decide +kernel, by decide +kernel, by decide +kernel⟩

/-- `ring2` / `ring2one` are what `NewSync(2)` and then `Push(7)` produce. -/
example : SyncRing.init? 2 = some ring2 ∧ ring2.push 7 = some (ring2one, true) := by
  constructor <;> decide +kernel

/-- Non-vacuity: on the ring of capacity 2 holding one element, six accesses of one thread
pop it, and the result is C10's `pop`. -/
example : soloCall (cfgOf ring2one) 7 (embed ring2one .popLoadHead)
    = ((ring2one.pop).map fun (r', x, ok) => (embed r' .idle, some (C01.Ret.pop x ok))).getD
        (embed ring2one .idle, none) := by
  decide +kernel

/-- From `NewSync(n)`: every history of a fresh SyncRing is a history of the bounded FIFO
whose capacity is the least power of two ≥ max 2 n. -/
theorem c10_sync_refines_new (n : Int) (h1 : 1 ≤ n) (h2 : n ≤ 2 ^ 31) (ops : List SOp) :
    ∃ r c r', SyncRing.init? n = some r ∧ r.cap = c ∧
      r.run ops = some (r', ((⟨[], c⟩ : BQ).run (ops.map SOp.toOp)).2) := by
  obtain ⟨c, e, g, _, hinit⟩ := init_mk n h1 (by omega)
  obtain ⟨H', q', hrun, _, _⟩ := sync_run_refines g ops 0 [] (by simp)
  exact ⟨_, c, _, hinit, rfl, hrun⟩

/-- ... and the same from a ring whose counters were advanced by `k` honest pairs (`warp k`,
any `k`): this and `c10_sync_refines_new` are what the `syncS` driver instantiates when it
answers cases on rings of up to 2^24 slots with the spec of capacity `syncCap n`. -/
theorem c10_sync_refines_warped (n : Int) (h1 : 1 ≤ n) (h2 : n ≤ 2 ^ 31) (k : Nat) (ops : List SOp) :
    ∃ r c r', SyncRing.init? n = some r ∧ syncCap n = some c ∧
      (r.warp k).run ops = some (r', ((⟨[], c⟩ : BQ).run (ops.map SOp.toOp)).2) := by
  obtain ⟨c, e, g, _, hinit⟩ := init_mk n h1 (by omega)
  have hc : 0 < c := by have := g.bounds; omega
  obtain ⟨H', q', hrun, _, _⟩ := sync_run_refines g ops k [] (by simp)
  have hcap : syncCap n = some c := by
    simp only [SyncRing.init?] at hinit
    cases hs : syncCap n with
    | none => simp [hs] at hinit
    | some c' =>
      simp only [hs, Option.some.injEq] at hinit
      have : c' = c := by have := congrArg SyncRing.cap hinit; simpa [mkSync] using this
      rw [this]
  exact ⟨_, c, _, hinit, hcap, by rw [warp_mk c k hc]; exact hrun⟩

/-- SyncRing (one goroutine) refines RING: for EVERY request `1 ≤ n ≤ 2^31` — powers of two
or not — every history of `NewSync(n)` prints exactly what the same history prints on
`New(c)` with `c` the least power of two ≥ max(2, n) (the rounding is the only difference
between the two types sequentially); `PushWait/PopWait(maxWait ≥ 0)` read as Push/Pop. -/
theorem c10_sync_refines_ring (n : Int) (h1 : 1 ≤ n) (h2 : n ≤ 2 ^ 31) (ops : List SOp) :
    ∃ (c : Nat) (s : SyncRing) (r : Ring), syncCap n = some c ∧ SyncRing.init? n = some s ∧
      Ring.init? c = some r ∧ max 2 n.toNat ≤ c ∧ (∀ e', max 2 n.toNat ≤ 2 ^ e' → c ≤ 2 ^ e') ∧
      (s.run ops).map (·.2) = (r.run (ops.map SOp.toOp)).map (·.2) ∧ (s.run ops).isSome := by
  obtain ⟨s0, c, e, hinit, hcap, hce, he1, _, hge, hleast⟩ := c10_cap_rounding n h1 h2
  obtain ⟨s, c', s', hs, hc', hrun⟩ := c10_sync_refines_new n h1 h2 ops
  have hss : s = s0 := by rw [hinit] at hs; exact (Option.some.inj hs).symm
  subst hss
  have hcc : c' = c := by rw [← hc', hcap]
  subst hcc
  have hpos : (0 : Int) < (c' : Int) := by
    have : 2 ≤ c' := Nat.le_trans (Nat.le_max_left 2 _) hge
    omega
  obtain ⟨r, r', hr, hrrun, _⟩ := c10_ring_refines_new (c' : Int) hpos (ops.map SOp.toOp)
  have hsc : syncCap n = some c' := by
    simp only [SyncRing.init?] at hinit
    cases hsy : syncCap n with
    | none => simp [hsy] at hinit
    | some c2 =>
      simp only [hsy, Option.some.injEq] at hinit
      have : c2 = s.cap := by rw [← hinit]
      rw [this, hc']
  exact ⟨c', s, r, hsc, hinit, hr, hge, hleast, by rw [hrun, hrrun]; rfl, by rw [hrun]; rfl⟩

/-- `warp k` (what the harness does to a fresh ring through reflect+unsafe) is exactly
the state `k` honest push/pop pairs lead to, for every `k` (beyond 2^32 included) and
whatever values are pushed; each of those pairs succeeds and returns what was pushed. -/
theorem c10_warp_eq_pairs (n : Int) (h1 : 1 ≤ n) (h2 : n ≤ 2 ^ 31) (vs : Nat → Int) (k : Nat) :
    ∃ r, SyncRing.init? n = some r ∧ r.isFresh = true ∧ r.pairs vs k = some (r.warp k) := by
  obtain ⟨c, e, g, _, hinit⟩ := init_mk n h1 (by omega)
  have hc : 0 < c := by have := g.bounds; omega
  exact ⟨_, hinit, fresh_mk c, by rw [pairs_mk g vs k, warp_mk c k hc]⟩

/-- Non-vacuity: a ring of capacity 4 whose counters stand at 2^32 − 2 (warped), filled
across the wrap and drained: model and spec print the same. -/
example :
    (((mkSync 4 0 []).warp (2 ^ 32 - 2)).run
        [.push 1, .push 2, .push 3, .push 4, .push 5, .len, .pop, .pop, .isFull]).map (·.2)
      = some ["true", "true", "true", "true", "false", "4", "1 true", "2 true", "false"] ∧
    (mkSync 4 0 []).warp (2 ^ 32 - 2) = mkSync 4 (2 ^ 32 - 2) [] := by
  constructor <;> decide +kernel

/-! ### Regenerated tie (wave 8): `ringz/sync.go: roundupPowOfTwo` translated by `go2lean`

`Golib.Gen.Trans.C10.roundupPowOfTwo` is regenerated from the tree under verification on every
run (`Golib/Gen/TransC10.lean`); these theorems are re-checked against what the code says now. -/

/-- TIE: the translated `roundupPowOfTwo` equals the hand-written model `roundupPowOfTwo` (the
definition `syncCap`/`SyncRing.init?` and all capacity theorems above are about) on EVERY
`uint32`; in particular it neither panics (`1 << pos` with `pos ≥ 0`) nor runs out of fuel. -/
theorem c10_trans_roundupPowOfTwo (x : BitVec 32) :
    Golib.Gen.Trans.C10.roundupPowOfTwo x
      = .ok (BitVec.ofNat 32 (Golib.C10.roundupPowOfTwo x.toNat)) :=
  trans_roundupPowOfTwo_eq x

/-- The property clause directly on the generated definition: for `2^L ≤ x < 2^(L+1)` with
`L + 1 ≤ 31` (every `x` with `1 ≤ x < 2^31`) the code returns `2^(L+1)`, the least power of two
above `x` — which is the least power of two `≥ x` whenever `x` is not itself a power of two, the
only case in which `Init` calls it. -/
theorem c10_trans_roundup_next_pow2 (x : BitVec 32) (L : Nat)
    (h1 : 2 ^ L ≤ x.toNat) (h2 : x.toNat < 2 ^ (L + 1)) (hL : L + 1 ≤ 31) :
    Golib.Gen.Trans.C10.roundupPowOfTwo x = .ok (BitVec.ofNat 32 (2 ^ (L + 1))) ∧
    x.toNat < 2 ^ (L + 1) ∧ 2 ^ (L + 1) ≤ 2 * x.toNat := by
  refine ⟨?_, h2, by rw [Nat.pow_succ]; omega⟩
  rw [c10_trans_roundupPowOfTwo]
  have hbl : bitLenLoop x.toNat 0 = L + 1 := by rw [bitLenLoop_spec L x.toNat 0 h1 h2]; omega
  have : 2 ^ (L + 1) ≤ 2 ^ 31 := Nat.pow_le_pow_right (by decide) hL
  simp only [Golib.C10.roundupPowOfTwo, hbl, Nat.shiftLeft_eq, Nat.one_mul, two32]
  congr 2
  apply Nat.mod_eq_of_lt
  omega

/-- Non-vacuity: 1000 rounds up to 1024, and 2^31 + 1 wraps to 0 (why `Init` must reject it). -/
example : Golib.Gen.Trans.C10.roundupPowOfTwo 1000#32 = .ok 1024#32 ∧
    Golib.Gen.Trans.C10.roundupPowOfTwo 2147483649#32 = .ok 0#32 := by
  constructor <;> decide +kernel


/-! ### Regenerated tie (wave 8): the methods of `ringz/ring.go: Ring[T]` translated by `go2lean`

`Golib.Gen.Trans.C10.Ring_*` (structure `Ring T`, pointer receiver = state passing: a method
returns the updated receiver next to its results) are regenerated from the tree under
verification on every run; the theorems below are re-checked against what the code says now.
They are stated at `T := Int` (the element type of the hand-written model; zero value
`default = 0`) through the abstraction `toM : Gen.Ring Int → Ring` / `ofM` (the four fields,
copied) and `ofOpt` (the model's `none` = a Go panic), and they are UNCONDITIONAL: they also
hold on states that violate the ring invariant (zero value, cursors out of range), where
translated code and model panic at the same expression.  Together with `c10_ring_push`,
`c10_ring_pop`, … (about `Ring.push`, `Ring.pop`, …) they make those theorems statements about
the regenerated code. -/

/-- TIE: `IsEmpty` is the model's `isEmpty`; it cannot panic. -/
theorem c10_trans_Ring_IsEmpty (r : GRing) :
    Golib.Gen.Trans.C10.Ring_IsEmpty r = .ok (toM r).isEmpty :=
  trans_Ring_IsEmpty r

/-- TIE: `IsFull` is the model's `isFull?`: `(tail+1) % cap == head`, a panic exactly when
`cap = 0` (integer divide by zero: the never-initialised zero value). -/
theorem c10_trans_Ring_IsFull (r : GRing) :
    Golib.Gen.Trans.C10.Ring_IsFull r = ofOpt (toM r).isFull? :=
  trans_Ring_IsFull r

/-- TIE: `Len` is the model's `len` (three-way case on empty / unwrapped / wrapped); no panic. -/
theorem c10_trans_Ring_Len (r : GRing) :
    Golib.Gen.Trans.C10.Ring_Len r = .ok (toM r).len :=
  trans_Ring_Len r

/-- TIE: `Cap` returns the field `cap`. -/
theorem c10_trans_Ring_Cap (r : GRing) :
    Golib.Gen.Trans.C10.Ring_Cap r = .ok (toM r).cap :=
  trans_Ring_Cap r

/-- TIE: `Push` is the model's `push` — same result, same updated receiver, and a panic exactly
where the model panics (`cap = 0`, or the new tail outside the backing array). -/
theorem c10_trans_Ring_Push (r : GRing) (v : Int) :
    Golib.Gen.Trans.C10.Ring_Push r v = ofOpt (((toM r).push v).map fun p => (p.2, ofM p.1)) :=
  trans_Ring_Push r v

/-- TIE: `Pop` is the model's `pop` — same value, same `ok`, same updated receiver (the vacated
cell zeroed, cursors reset to `-1` when the last element leaves), same panics. -/
theorem c10_trans_Ring_Pop (r : GRing) :
    Golib.Gen.Trans.C10.Ring_Pop r
      = ofOpt ((toM r).pop.map fun p => ((p.2.1, p.2.2), ofM p.1)) :=
  trans_Ring_Pop r

/-- TIE: `Peek` is the model's `peek`. -/
theorem c10_trans_Ring_Peek (r : GRing) :
    Golib.Gen.Trans.C10.Ring_Peek r = ofOpt (toM r).peek :=
  trans_Ring_Peek r

/-- TIE: `Init(cap)` is the model's `init?` whatever the receiver held before: panic iff
`cap ≤ 0`, otherwise `cap` zero cells, both cursors `-1`. -/
theorem c10_trans_Ring_Init (r : GRing) (cap : Int) :
    Golib.Gen.Trans.C10.Ring_Init r cap = ofOpt ((Ring.init? cap).map ofM) :=
  trans_Ring_Init r cap

/-- TIE: `Recap(cap)` is the model's `recap` — refusal (`false`, receiver untouched) for
`cap ≤ 0`, `cap = Cap()` and `cap < Len()`; otherwise a fresh array of `cap` zero cells that
receives the unwrapped region with ONE `copy` or the wrapped region with TWO (`values[head:]`,
then `values[:tail+1]` written through `newValues[n:]`), `head = 0`, `tail = Len()-1`; and a panic
exactly where a slice expression of the model is out of range (only off-invariant states). -/
theorem c10_trans_Ring_Recap (r : GRing) (cap : Int) :
    Golib.Gen.Trans.C10.Ring_Recap r cap
      = ofOpt (((toM r).recap cap).map fun p => (p.2, ofM p.1)) :=
  trans_Ring_Recap r cap

/-- TIE: `PushWithExpand` is the model's `pushWithExpand` (`IsFull`, then `Recap(2·cap)` when
full, then `Push`; results of `Recap`/`Push` discarded, receiver threaded). -/
theorem c10_trans_Ring_PushWithExpand (r : GRing) (v : Int) :
    Golib.Gen.Trans.C10.Ring_PushWithExpand r v = ofOpt (((toM r).pushWithExpand v).map ofM) :=
  trans_Ring_PushWithExpand r v

/-- TIE: `New(cap)` (zero value, then `Init`) is the model's `init?`. -/
theorem c10_trans_New (cap : Int) :
    Golib.Gen.Trans.C10.New (T := Int) cap = ofOpt ((Ring.init? cap).map ofM) :=
  trans_New cap

/-- The property clause directly on the generated definitions: on a ring that satisfies the
invariant, the TRANSLATED `Push` does not panic, succeeds iff fewer than `cap` elements are
held, and appends at the tail of the abstract content (`c10_ring_push` carried over the tie). -/
theorem c10_trans_Ring_Push_fifo (r : GRing) (v : Int) (hi : (toM r).Inv) :
    ∃ r' ok, Golib.Gen.Trans.C10.Ring_Push r v = .ok (ok, r') ∧ (toM r').Inv ∧
      (toM r').cap = (toM r).cap ∧
      (ok = true ↔ ((toM r).content.length : Int) < (toM r).cap) ∧
      (toM r').content = (if ok then (toM r).content ++ [v] else (toM r).content) := by
  obtain ⟨m', ok, hp, hinv, hcap, hok, hc⟩ := c10_ring_push (toM r) v hi
  refine ⟨ofM m', ok, ?_, by simpa using hinv, by simpa using hcap, hok, by simpa using hc⟩
  rw [c10_trans_Ring_Push, hp]; rfl

/-- The refinement theorem ON THE REGENERATED CODE: `grun` executes an operation list by calling
the generated definitions (`Golib/Proof/C10TransRingRun.lean`; `Push`, `PushWithExpand`, `Recap`,
`Pop`, `Peek`, `Len`, `Cap`, `IsEmpty`, `IsFull` in any order and number).  From every state that
satisfies the invariant it never panics, never runs out of fuel, prints exactly what the bounded
FIFO `BQ` prints, and ends in a state whose abstraction is the FIFO's (`c10_ring_refines` carried
over the ties; no bound on the history or on the capacity). -/
theorem c10_trans_ring_refines (r : GRing) (hi : (toM r).Inv) (ops : List Op) :
    ∃ r', grun r ops = .ok (r', ((toM r).abs.run ops).2) ∧ (toM r').Inv ∧
      (toM r').abs = ((toM r).abs.run ops).1 := by
  obtain ⟨m', h1, hi', ha⟩ := c10_ring_refines (toM r) hi ops
  refine ⟨ofM m', ?_, by simpa using hi', by simpa using ha⟩
  rw [grun_eq, h1]; rfl

/-- … and from the generated constructor: `New(cap)` with `cap > 0` does not panic and every
history on its result prints what the empty FIFO of capacity `cap` prints. -/
theorem c10_trans_ring_refines_new (cap : Int) (h : 0 < cap) (ops : List Op) :
    ∃ r r', Golib.Gen.Trans.C10.New (T := Int) cap = .ok r ∧
      grun r ops = .ok (r', ((⟨[], cap⟩ : BQ).run ops).2) ∧ (toM r').Inv := by
  obtain ⟨m, m', hm, hrun, hi'⟩ := c10_ring_refines_new cap h ops
  refine ⟨ofM m, ofM m', ?_, ?_, by simpa using hi'⟩
  · rw [c10_trans_New, hm]; rfl
  · rw [grun_eq, toM_ofM, hrun]; rfl

/-- Non-vacuity: a history on the generated code that fills, overflows, expands and drains. -/
example :
    (grun ⟨[0, 0], -1, -1, 2⟩ [.push 1, .push 2, .push 3, .isFull, .pushx 4, .cap, .pop, .len]).bind
        (fun p => .ok p.2)
      = .ok ["true", "true", "false", "true", "ok", "4", "1 true", "2"] := by
  decide +kernel

/-- Non-vacuity: the translated code run on a concrete wrapped ring (cap 3, head 2, tail 0):
`Push 9` fills cell 1, a second push reports full, `Pop` returns the oldest (`7`) and zeroes its
cell; on the zero value `IsFull` panics and `Init 0` panics; `Recap 5` unwraps the full ring
(two copies), `Recap 2` refuses, `PushWithExpand` on the full ring doubles it first. -/
example :
    Golib.Gen.Trans.C10.Ring_Push (T := Int) ⟨[5, 0, 7], 2, 0, 3⟩ 9 = .ok (true, ⟨[5, 9, 7], 2, 1, 3⟩) ∧
    Golib.Gen.Trans.C10.Ring_Push (T := Int) ⟨[5, 9, 7], 2, 1, 3⟩ 4 = .ok (false, ⟨[5, 9, 7], 2, 1, 3⟩) ∧
    Golib.Gen.Trans.C10.Ring_Pop (T := Int) ⟨[5, 9, 7], 2, 1, 3⟩ = .ok ((7, true), ⟨[5, 9, 0], 0, 1, 3⟩) ∧
    Golib.Gen.Trans.C10.Ring_Len (T := Int) ⟨[5, 9, 7], 2, 1, 3⟩ = .ok 3 ∧
    Golib.Gen.Trans.C10.Ring_IsFull (T := Int) ⟨[], 0, 0, 0⟩ = .panic ∧
    Golib.Gen.Trans.C10.Ring_Init (T := Int) ⟨[], 0, 0, 0⟩ 0 = .panic ∧
    Golib.Gen.Trans.C10.Ring_Recap (T := Int) ⟨[5, 9, 7], 2, 1, 3⟩ 5 = .ok (true, ⟨[7, 5, 9, 0, 0], 0, 2, 5⟩) ∧
    Golib.Gen.Trans.C10.Ring_Recap (T := Int) ⟨[5, 9, 7], 2, 1, 3⟩ 2 = .ok (false, ⟨[5, 9, 7], 2, 1, 3⟩) ∧
    Golib.Gen.Trans.C10.Ring_PushWithExpand (T := Int) ⟨[5, 9, 7], 2, 1, 3⟩ 4
      = .ok ⟨[7, 5, 9, 4, 0, 0], 0, 3, 6⟩ ∧
    Golib.Gen.Trans.C10.New (T := Int) 2 = .ok ⟨[0, 0], -1, -1, 2⟩ ∧
    (toM ⟨[5, 0, 7], 2, 0, 3⟩).Inv := by
  refine ⟨by decide, by decide, by decide, by decide, by decide, by decide, by decide, by decide,
    by decide, by decide, ?_⟩
  exact ⟨by decide, by decide, Or.inr ⟨by decide, by decide, by decide, by decide⟩⟩


end Golib.C10
