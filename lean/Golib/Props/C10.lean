/-
C10 — Ring / SyncRing are bounded FIFOs sequentially.  ONLY property theorems and
non-vacuity examples live here; helper lemmas are in `Golib/Proof/C10*.lean`.

Abstraction: `Ring.content r` (oldest first); spec = bounded FIFO on `List Int`.
-/
import Golib.Proof.C10Ring

namespace Golib.C10

/-- `New(cap)` for `cap > 0` yields an empty ring satisfying the invariant. -/
theorem c10_ring_init (cap : Int) (h : 0 < cap) :
    ∃ r, Ring.init? cap = some r ∧ r.Inv ∧ r.content = [] ∧ r.cap = cap := by
  have : ¬ cap ≤ 0 := by omega
  refine ⟨⟨List.replicate cap.toNat 0, -1, -1, cap⟩, by simp only [Ring.init?, this, if_false],
    ⟨h, ?_, Or.inl ⟨rfl, rfl⟩⟩, ?_, rfl⟩
  · simp; omega
  · simp [Ring.content]

/-- Push succeeds iff fewer than `Cap()` elements are held, appends at the tail, never panics. -/
theorem c10_ring_push (r : Ring) (v : Int) (hi : r.Inv) :
    ∃ r' ok, r.push v = some (r', ok) ∧ r'.Inv ∧ r'.cap = r.cap ∧
      (ok = true ↔ (r.content.length : Int) < r.cap) ∧
      r'.content = if ok then r.content ++ [v] else r.content :=
  push_spec r v hi

/-- Pop returns the oldest element and fails iff empty, never panics. -/
theorem c10_ring_pop (r : Ring) (hi : r.Inv) :
    ∃ r' v ok, r.pop = some (r', v, ok) ∧ r'.Inv ∧ r'.cap = r.cap ∧
      ((ok = true ∧ r.content = v :: r'.content) ∨
       (ok = false ∧ v = 0 ∧ r.content = [] ∧ r' = r)) :=
  pop_spec r hi

/-- Peek returns the oldest element without removing it. -/
theorem c10_ring_peek (r : Ring) (hi : r.Inv) :
    ∃ v ok, r.peek = some (v, ok) ∧
      ((ok = true ∧ r.content.head? = some v) ∨ (ok = false ∧ v = 0 ∧ r.content = [])) :=
  peek_spec r hi

/-- Len / IsEmpty / IsFull always agree with the element count. -/
theorem c10_ring_len (r : Ring) (hi : r.Inv) :
    r.len = r.content.length ∧ (r.isEmpty = true ↔ r.content = []) ∧
    (r.isFull = true ↔ (r.content.length : Int) = r.cap) :=
  ⟨(content_length r hi).symm, isEmpty_spec r hi, isFull_spec r hi⟩

/-- Non-vacuity: a wrapped ring (head > tail) satisfies the invariant. -/
example : (⟨[4, 5, 0, 3], 3, 1, 4⟩ : Ring).Inv ∧ (⟨[4, 5, 0, 3], 3, 1, 4⟩ : Ring).content = [3, 4, 5] :=
  ⟨⟨by decide, by decide, Or.inr (by decide)⟩, by decide⟩

end Golib.C10
