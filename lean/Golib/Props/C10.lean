/-
C10 — Ring / SyncRing are bounded FIFOs sequentially.  ONLY property theorems and
non-vacuity examples live here; helper lemmas are in `Golib/Proof/C10*.lean`.

Abstraction: `Ring.content r` (oldest first); spec = bounded FIFO `BQ` on `List Int`
(`Golib/Model/C10Spec.lean`).
-/
import Golib.Proof.C10Refine

namespace Golib.C10

/-- `New(cap)` for `cap > 0` yields an empty ring satisfying the invariant. -/
theorem c10_ring_init (cap : Int) (h : 0 < cap) :
    ∃ r, Ring.init? cap = some r ∧ r.Inv ∧ r.content = [] ∧ r.cap = cap := by
  have : ¬ cap ≤ 0 := by omega
  refine ⟨⟨List.replicate cap.toNat 0, -1, -1, cap⟩, by simp only [Ring.init?, this, if_false],
    ⟨h, ?_, Or.inl ⟨rfl, rfl⟩⟩, ?_, rfl⟩
  · simp; omega
  · simp [Ring.content]

/-- Push succeeds iff fewer than `Cap()` elements are held, appends at the tail, never panics. -/
theorem c10_ring_push (r : Ring) (v : Int) (hi : r.Inv) :
    ∃ r' ok, r.push v = some (r', ok) ∧ r'.Inv ∧ r'.cap = r.cap ∧
      (ok = true ↔ (r.content.length : Int) < r.cap) ∧
      r'.content = if ok then r.content ++ [v] else r.content :=
  push_spec r v hi

/-- Pop returns the oldest element and fails iff empty, never panics. -/
theorem c10_ring_pop (r : Ring) (hi : r.Inv) :
    ∃ r' v ok, r.pop = some (r', v, ok) ∧ r'.Inv ∧ r'.cap = r.cap ∧
      ((ok = true ∧ r.content = v :: r'.content) ∨
       (ok = false ∧ v = 0 ∧ r.content = [] ∧ r' = r)) :=
  pop_spec r hi

/-- Peek returns the oldest element without removing it. -/
theorem c10_ring_peek (r : Ring) (hi : r.Inv) :
    ∃ v ok, r.peek = some (v, ok) ∧
      ((ok = true ∧ r.content.head? = some v) ∨ (ok = false ∧ v = 0 ∧ r.content = [])) :=
  peek_spec r hi

/-- Len / IsEmpty / IsFull always agree with the element count. -/
theorem c10_ring_len (r : Ring) (hi : r.Inv) :
    r.len = r.content.length ∧ (r.isEmpty = true ↔ r.content = []) ∧
    (r.isFull = true ↔ (r.content.length : Int) = r.cap) :=
  ⟨(content_length r hi).symm, isEmpty_spec r hi, isFull_spec r hi⟩

/-- Non-vacuity: a wrapped ring (head > tail) satisfies the invariant. -/
example : (⟨[4, 5, 0, 3], 3, 1, 4⟩ : Ring).Inv ∧ (⟨[4, 5, 0, 3], 3, 1, 4⟩ : Ring).content = [3, 4, 5] :=
  ⟨⟨by decide, by decide, Or.inr (by decide)⟩, by decide⟩

/-- Recap succeeds exactly for positive capacities different from the current one and not
    below `Len`; it never panics, and content and order are preserved for every head
    offset, wrapped or not (the invariant admits every rotation). -/
theorem c10_recap_spec (r : Ring) (cap : Int) (hi : r.Inv) :
    ∃ r' ok, r.recap cap = some (r', ok) ∧ r'.Inv ∧ r'.content = r.content ∧
      (ok = true ↔ (0 < cap ∧ cap ≠ r.cap ∧ (r.content.length : Int) ≤ cap)) ∧
      r'.cap = (if ok then cap else r.cap) :=
  recap_spec r cap hi

/-- PushWithExpand always appends, never panics, doubles the capacity exactly when full. -/
theorem c10_expand (r : Ring) (v : Int) (hi : r.Inv) :
    ∃ r', r.pushWithExpand v = some r' ∧ r'.Inv ∧ r'.content = r.content ++ [v] ∧
      r'.cap = (if (r.content.length : Int) = r.cap then r.cap * 2 else r.cap) :=
  pushWithExpand_spec r v hi

/-- Non-vacuity for Recap: a wrapped ring shrunk to exactly its length. -/
example : (⟨[4, 5, 0, 3], 3, 1, 4⟩ : Ring).recap 3 = some (⟨[3, 4, 5], 0, 2, 3⟩, true) := by decide

/-- Refinement over arbitrary operation lists: from any state satisfying the
    representation invariant (every capacity, every rotation, wrapped or not, every
    fill level), a sequence of `push/pushx/recap/pop/peek/len/cap/isempty/isfull`
    of ANY length never panics and prints exactly what the bounded FIFO prints;
    the final state again abstracts to the FIFO's final state. -/
theorem c10_ring_refines (r : Ring) (hi : r.Inv) (ops : List Op) :
    ∃ r', r.run ops = some (r', (r.abs.run ops).2) ∧ r'.Inv ∧ r'.abs = (r.abs.run ops).1 := by
  induction ops generalizing r with
  | nil => exact ⟨r, rfl, hi, rfl⟩
  | cons op ops ih =>
    obtain ⟨r1, h1, hi1, ha1⟩ := step_refines r hi op
    obtain ⟨r2, h2, hi2, ha2⟩ := ih r1 hi1
    refine ⟨r2, ?_, hi2, ?_⟩
    · simp only [Ring.run, h1, h2, BQ.run, ha1]
    · simp only [BQ.run, ha2, ha1]

/-- The same from `New(cap)`: every history of a fresh ring is a bounded-FIFO history. -/
theorem c10_ring_refines_new (cap : Int) (h : 0 < cap) (ops : List Op) :
    ∃ r r', Ring.init? cap = some r ∧
      r.run ops = some (r', ((⟨[], cap⟩ : BQ).run ops).2) ∧ r'.Inv := by
  obtain ⟨r, hr, hi, hc, hcap⟩ := c10_ring_init cap h
  obtain ⟨r', h1, hi', _⟩ := c10_ring_refines r hi ops
  have : r.abs = ⟨[], cap⟩ := by simp only [Ring.abs, hc, hcap]
  rw [this] at h1
  exact ⟨r, r', hr, h1, hi'⟩

/-- Non-vacuity: a history with wrap, expand and recap, evaluated on model and spec. -/
example :
    ((⟨[4, 5, 0, 3], 3, 1, 4⟩ : Ring).run [.pushx 6, .pushx 7, .pop, .recap 4, .isFull]).map (·.2)
      = some ["ok", "ok", "3 true", "true", "true"] ∧
    ((⟨[3, 4, 5], 4⟩ : BQ).run [.pushx 6, .pushx 7, .pop, .recap 4, .isFull]).2
      = ["ok", "ok", "3 true", "true", "true"] := by
  constructor <;> decide

end Golib.C10
