/-
C14 — slicez set operations, in-place variants, FlexSlice.  ONLY property theorems and
non-vacuity examples live here; helper lemmas are in `Golib/Proof/C14*.lean`.

Conventions: `Mem = ⟨m1, m2⟩` are the backing arrays of the two input slices, `Dst` says
what the caller passed as `dst` (`nil`, `fresh`, `alias1 = s1[:k]`, `alias2 = s2[:k]`).
`DstOk sel d n1 M r`: the call returned content `sel`, left `s1` untouched unless dst aliases
it (its length always), left `s2` untouched unless dst aliases it, and touched nothing for a
nil/fresh dst.  `IpOk sel m r`: result content `sel` (even in order), argument a permutation
of the original, result = front portion of the argument.
All theorems are for arbitrary element values, lengths, duplicates and `Int` arguments.
-/
import Golib.Proof.C14ArenaDst
import Golib.Proof.C14FlexFast
import Golib.Proof.C14FlexAlias
import Golib.Proof.C14Wrap
import Golib.Proof.C14Trans
import Golib.Proof.C14Trans2
import Golib.Proof.C14Trans3

namespace Golib.C14

/-- **The write cursor never overtakes the read cursor.** One loop iteration at read cursor
`i` with `dst` living in `s1`'s own array and write cursor `j ≤ i`: no panic, no
reallocation, `j' ≤ i + 1`, the still unread cells (`> i`) and `s2` untouched, and `dst`
grew by exactly the selected element (the selector may be stateful: `Unique`). -/
theorem c14_write_le_read {σ : Type} (sel : σ → Int → σ × Bool) (i : Nat) (st : σ) (M : Mem) (o : Out)
    (hloc : o.loc = .in1) (hj : o.j ≤ i) (hi : i < M.m1.length) :
    ∃ v M' o', M.m1[i]? = some v ∧ selStep sel i st M o = some ((sel st v).1, M', o') ∧
      o'.loc = .in1 ∧ o'.j ≤ i + 1 ∧ o.j ≤ o'.j ∧ M'.m1.length = M.m1.length ∧
      M'.m1.drop (i + 1) = M.m1.drop (i + 1) ∧ M'.m2 = M.m2 ∧
      M'.m1.take o'.j = M.m1.take o.j ++ (if (sel st v).2 then [v] else []) :=
  selStep_in1 sel i st M o hloc hj hi

/-- `Filter` returns `s.filter p` in order for every dst layout, including `dst = s[:k]`. -/
theorem c14_filter_alias (p : Int → Bool) (d : Dst) (n1 : Bool) (M : Mem) :
    ∃ r, filter p d n1 M = some r ∧ DstOk (M.m1.filter p) d n1 M r :=
  filter_spec p d n1 M

/-- `Diff` = the elements of `s1` not in `s2`, in `s1` order, for every dst layout
(nil, fresh, `s1[:k]`, `s2[:k]`) and empty operands. -/
theorem c14_diff_alias (d : Dst) (n1 n2 : Bool) (M : Mem) :
    ∃ r, diff d n1 n2 M = some r ∧ DstOk (M.m1.filter fun v => !M.m2.contains v) d n1 M r :=
  diff_spec d n1 n2 M

/-- `Intersect` = the elements of `s1` also in `s2`, in `s1` order, for every dst layout. -/
theorem c14_intersect_alias (d : Dst) (n1 n2 : Bool) (M : Mem) :
    ∃ r, intersect d n1 n2 M = some r ∧ DstOk (M.m1.filter fun v => M.m2.contains v) d n1 M r :=
  intersect_spec d n1 n2 M

/-- `Unique` / `UniqueByKey` = first occurrence per key, in order (`firstOcc key []`: keep
`v` iff no earlier element has the same key), for every dst layout; the `len(seen)` growth
test is modelled as coded. -/
theorem c14_unique_alias (key : Int → Int) (d : Dst) (n1 : Bool) (M : Mem) :
    (∃ r, uniqueByKey key d n1 M = some r ∧ DstOk (firstOcc key [] M.m1) d n1 M r) ∧
    (∃ r, unique d n1 M = some r ∧ DstOk (firstOcc id [] M.m1) d n1 M r) :=
  ⟨uniqueByKey_spec key d n1 M, uniqueByKey_spec id d n1 M⟩

/-- Meaning of `firstOcc` (the Unique/UniqueByKey result): cutting the slice at any element
`v`, `v` is kept — at its position — iff its key occurs neither before the call (`seen`, empty
for the Go functions) nor among the earlier elements; otherwise it is dropped. -/
theorem c14_unique_first (key : Int → Int) (seen a b : List Int) (v : Int) :
    ((a.map key ++ seen).contains (key v) = false →
      firstOcc key seen (a ++ v :: b) =
        firstOcc key seen a ++ v :: firstOcc key (key v :: (a.map key ++ seen)) b) ∧
    ((a.map key ++ seen).contains (key v) = true →
      firstOcc key seen (a ++ v :: b) = firstOcc key seen a ++ firstOcc key (a.map key ++ seen) b) :=
  ⟨firstOcc_keep key seen a b v, firstOcc_drop key seen a b v⟩

/-- The InPlace variants: same elements as the non-in-place result (even in the same
order), the argument ends as a permutation of its original content, never a panic. -/
theorem c14_inplace_perm (p : Int → Bool) (key : Int → Int) (n1 : Bool) (m1 m2 : List Int) :
    (∃ r, filterInPlace p n1 m1 = some r ∧ IpOk (m1.filter p) m1 r) ∧
    (∃ r, diffInPlaceFirst n1 m1 m2 = some r ∧ IpOk (m1.filter fun v => !m2.contains v) m1 r) ∧
    (∃ r, intersectInPlaceFirst n1 m1 m2 = some r ∧ IpOk (m1.filter fun v => m2.contains v) m1 r) ∧
    (∃ r, uniqueByKeyInPlace key n1 m1 = some r ∧ IpOk (firstOcc key [] m1) m1 r) ∧
    (∃ r, uniqueInPlace n1 m1 = some r ∧ IpOk (firstOcc id [] m1) m1 r) :=
  ⟨filterInPlace_spec p n1 m1, diffInPlaceFirst_spec n1 m1 m2, intersectInPlaceFirst_spec n1 m1 m2,
   uniqueByKeyInPlace_spec key n1 m1, uniqueByKeyInPlace_spec id n1 m1⟩

/-- `Chunk` never panics for any `Int` size: nil for an empty input, one piece (the whole
input) when `chunkSize < 1` or `len ≤ chunkSize`, otherwise consecutive pieces whose
concatenation is the input. -/
theorem c14_chunk_concat (s : List Int) (chunkSize : Int) :
    chunk s.length chunkSize =
      (if s.length = 0 then some none
       else if chunkSize < 1 ∨ (s.length : Int) ≤ chunkSize then some (some [(0, s.length)])
       else some (some (chunkViews s.length chunkSize.toNat))) ∧
    (viewsContent s (chunkViews s.length chunkSize.toNat)).flatten = s ∧
    (viewsContent s [(0, s.length)]).flatten = s :=
  ⟨chunk_spec s.length chunkSize, chunkViews_concat s chunkSize.toNat, by simp [viewsContent]⟩

/-- Every piece but the last has exactly the requested size, the last between 1 and it. -/
theorem c14_chunk_sizes (len size : Nat) (hs : 1 ≤ size) :
    (∀ v ∈ (chunkViews len size).dropLast, v.2 = size) ∧
    (∀ v ∈ chunkViews len size, 1 ≤ v.2 ∧ v.2 ≤ size) :=
  chunkViews_sizes len size hs

/-- `ChunkProcess` never panics; `process` is called on exactly `Chunk`'s pieces, in order,
and the iteration stops at (and reports) the first error (`failAt` = index of the failing
call, 0 = never). -/
theorem c14_chunkprocess (len : Nat) (chunkSize : Int) (failAt : Nat) :
    chunkProcess len chunkSize failAt = some (procCalls (pieces len chunkSize) failAt) :=
  chunkProcess_spec len chunkSize failAt

/-- `Values` never panics and returns `fn` mapped over the concatenation of its arguments
(in the `make([]V, n)` array: fresh memory by construction). -/
theorem c14_values (fn : Int → Int) (ss : List (List Int)) :
    values fn ss = some (ss.flatten.map fn) :=
  values_spec fn ss

/-- `SubSlice` never panics for any `Int` arguments and returns the documented clamped
range (`subRange`: negative start = 0, negative/oversized end = len, empty range = nil),
as a view of the argument's memory. -/
theorem c14_subslice (n : Nat) (a b : Int) :
    subSlice n a b = some (match subRange n a b with
      | some (st, l) => .view st l
      | none => .nil) ∧
    (∀ st l, subRange n a b = some (st, l) → 0 < l ∧ st + l ≤ n) :=
  subSlice_spec n a b

/-- `Copy` never panics for any `Int` arguments and returns the documented clamped range in
FRESH memory (`View.fresh`: no cell shared with the argument), nil when nothing is copied. -/
theorem c14_copy_fresh (s : List Int) (a len : Int) :
    copy s a len = some (match copyRange s.length a len with
      | some (st, l) => .fresh ((s.drop st).take l)
      | none => .nil) ∧
    (∀ st l, copyRange s.length a len = some (st, l) → 0 < l ∧ st + l ≤ s.length) :=
  copy_spec s a len

/-- `Remove` never panics: out-of-range index → `(s, zero, false)` and memory untouched;
otherwise the element is erased, the memory is shifted left with a zeroed last cell. -/
theorem c14_remove (n1 : Bool) (s : List Int) (index : Int) :
    (index < 0 ∨ index ≥ s.length → remove n1 s index = some (s, ⟨n1, s⟩, 0, false)) ∧
    (∀ i : Nat, index = i → (hi : i < s.length) →
      remove n1 s index = some (s.eraseIdx i ++ [0], ⟨false, s.eraseIdx i⟩, s[i], true)) :=
  remove_spec n1 s index

/-- `Index`/`IndexFunc`/`Contains`: first matching position or `-1`. -/
theorem c14_index (s : List Int) (fn : Int → Bool) (v : Int) :
    (indexFunc s fn = match s.findIdx? fn with | some k => (k : Int) | none => -1) ∧
    (index s v = match s.findIdx? (fun x => v == x) with | some k => (k : Int) | none => -1) ∧
    (contains s v = decide (index s v ≥ 0)) :=
  ⟨indexFunc_spec fn s, indexFunc_spec _ s, rfl⟩

/-- `Equal` never panics and decides equality of contents (nil and empty are equal). -/
theorem c14_equal (s1 s2 : List Int) : equal s1 s2 = some (decide (s1 = s2)) :=
  equal_spec s1 s2

/-- **InPlace variants on ONE arena, every layout.**  `s1` and `s2` are windows
`arena[off:off+len]` of the same memory; NOTHING is assumed about their relative position
(`s2` disjoint from, equal to, a partial window of, or straddling `s1`).  Because the code
builds its membership map from `s2` BEFORE the first swap (slices.go:38-41, 80-83), the result
is the selection of the ORIGINAL `s1` by membership in the ORIGINAL `s2`, in order; the cells
of `s1` end as a permutation of what they were and every other arena cell is unchanged (so
the part of `s2` outside `s1` keeps its values, the part inside is permuted with `s1`).
An implementation that consults the live `s2` during the loop does not satisfy this. -/
theorem c14_inplace_arena (E : ElemEq) (A : List Int) (s1 s2 : Win) (p : Int → Bool) (key : Int → Int)
    (h : s1.off + s1.len ≤ A.length) :
    (∃ A' res, diffInPlaceA E A s1 s2 = some (A', res) ∧
      ArenaIpOk ((s1.read A).filter fun v => !memE E (s2.read A) v) A s1 A' res) ∧
    (∃ A' res, intersectInPlaceA E A s1 s2 = some (A', res) ∧
      ArenaIpOk ((s1.read A).filter fun v => memE E (s2.read A) v) A s1 A' res) ∧
    (∃ A' res, uniqueByKeyInPlaceA E key A s1 = some (A', res) ∧
      ArenaIpOk (firstOccE E key [] (s1.read A)) A s1 A' res) ∧
    (∃ A' res, filterInPlaceA p A s1 = some (A', res) ∧ ArenaIpOk ((s1.read A).filter p) A s1 A' res) :=
  ⟨diffInPlaceA_spec E A s1 s2 h, intersectInPlaceA_spec E A s1 s2 h, uniqueByKeyInPlaceA_spec E key A s1 h,
   filterInPlaceA_spec p A s1 h⟩

/-- **dst-style functions on ONE arena.**  `dst`, `s1`, `s2` are windows of the same memory.
Whenever `dst` is nil, or its window STARTS AT OR BEFORE the window of the first slice (this
contains "dst is the prefix `s[:0]` of an input" and every `dst` in front of `s1` whose capacity
runs into it), or lies entirely behind `s1` — and wherever `s2` lies, also overlapping `dst`
(the map is a snapshot) — `Diff`/`Intersect`/`UniqueByKey`(`Unique`)/`Filter` return the selection
of the ORIGINAL `s1` in order (`ArenaDstOk.result`), never panic, and write only cells inside
`[dst.off, dst.off + cap(dst))` (`FrameW`); with `dst = nil` the arena is not written at all and the
result is memory of its own, nil exactly when nothing was selected. -/
theorem c14_dst_arena (E : ElemEq) (A : List Int) (dst : Option Win) (s1 s2 : Win) (p : Int → Bool) (key : Int → Int)
    (hs1 : s1.off + s1.len ≤ A.length)
    (hd : ∀ w, dst = some w → w.off + w.cap ≤ A.length ∧ (w.off ≤ s1.off ∨ s1.off + s1.len ≤ w.off)) :
    (∃ A' res, diffA E A dst s1 s2 = some (A', res) ∧
      ArenaDstOk ((s1.read A).filter fun v => !memE E (s2.read A) v) A dst A' res) ∧
    (∃ A' res, intersectA E A dst s1 s2 = some (A', res) ∧
      ArenaDstOk ((s1.read A).filter fun v => memE E (s2.read A) v) A dst A' res) ∧
    (∃ A' res, uniqueByKeyA E key A dst s1 = some (A', res) ∧
      ArenaDstOk (firstOccE E key [] (s1.read A)) A dst A' res) ∧
    (∃ A' res, filterA p A dst s1 = some (A', res) ∧ ArenaDstOk ((s1.read A).filter p) A dst A' res) :=
  ⟨diffA_spec E A dst s1 s2 hs1 hd, intersectA_spec E A dst s1 s2 hs1 hd, uniqueByKeyA_spec E key A dst s1 hs1 hd,
   filterA_spec p A dst s1 hs1 hd⟩

/-- **The boundary of that claim is sharp**: in the remaining layouts — `dst` starting strictly
inside `s1` — the write cursor overtakes the read cursor and the code does NOT compute the
definition (each line: what the model, and the tied code, returns there). -/
theorem c14_dst_arena_boundary :
    -- Filter keeping everything, s1 = [1 2 3], dst = arena[1:1:3]: the definition says [1 2 3]
    filterA (fun _ => true) [1, 2, 3] (some ⟨1, 0, 2⟩) ⟨0, 3, 3⟩ = some ([1, 1, 1], .fresh [1, 1, 1] false) ∧
    -- Unique, s1 = [1 2 1 3], dst = arena[1:1:4]: the definition says [1 2 3]
    uniqueByKeyA intEq id [1, 2, 1, 3] (some ⟨1, 0, 3⟩) ⟨0, 4, 4⟩ = some ([1, 1, 3, 3], .win 1 2) ∧
    -- Diff, s1 = [1 2 3], s2 = [9], dst = arena[2:2:3]: the definition says [1 2 3]
    diffA intEq [1, 2, 3, 9] (some ⟨2, 0, 1⟩) ⟨0, 3, 3⟩ ⟨3, 1, 1⟩ = some ([1, 2, 1, 9], .fresh [1, 2, 1] false) := by
  decide

/-- `Values` with arena windows as arguments: the result is `make`d memory of its own holding
`fn` mapped over the concatenation, the arena is not written (and, as for `Copy`, not returned). -/
theorem c14_values_arena (fn : Int → Int) (A : List Int) (ss : List Win) :
    valuesA fn A ss = some (A, .fresh ((ss.map fun w => w.read A).flatten.map fn) false) := by
  simp [valuesA, values_spec]

/-- `Copy` of a window WITH spare capacity: the result is memory of its own (or nil) and no
arena cell — in particular no cell of the source's spare capacity — is written. -/
theorem c14_copy_arena (A : List Int) (s : Win) (a len : Int) :
    ∃ res, copyA A s a len = some (A, res) ∧ ∃ xs n, res = .fresh xs n :=
  copyA_spec A s a len

/-- **What element equality is.**  Every arena theorem above is for an arbitrary `E : ElemEq` — the
`==` of the element (or key) type — with NO reflexivity, symmetry or transitivity assumed:
membership in the map built from `s2` is "`==` to some inserted key" (`memE`), `Unique` keeps
`v` iff no earlier kept key is `==` to it (`firstOccE`).  For `float64` (`floatEq`) this means: a
NaN is never found in `s2` (Diff keeps it, Intersect drops it), `Unique` keeps EVERY NaN
(Go map semantics: each NaN key is a new entry), `-0` and `+0` are one key (the first
representation survives).  For `int` (`intEq`) the statements are the old ones (`memE_int`,
`firstOccE_int`).  `Equal` is exactly "same length and element-wise `==`": it does not depend
on where its arguments live, `Equal(s, s)` is true iff every element is `==` to itself — so it
is FALSE for a slice holding a NaN compared with itself (the theorems that need reflexivity are
only the `int` ones: `c14_equal`'s `decide (s1 = s2)`).  `Index` never finds a NaN. -/
theorem c14_elem_eq (E : ElemEq) (s1 s2 s : List Int) (key : Int → Int) (seen l : List Int) (m : List Int) (v : Int) :
    equalE E s1 s2 = some (decide (s1.length = s2.length) && (s1.zip s2).all fun p => E.eq p.1 p.2) ∧
    equalE E s s = some (s.all fun x => E.eq x x) ∧
    memE intEq m v = m.contains v ∧ firstOccE intEq key seen l = firstOcc key seen l :=
  ⟨equalE_spec E s1 s2, equalE_self E s, memE_int m v, firstOccE_int key seen l⟩

/-- **FlexSlice refines a plain list**: every sequence of Append/Prepend/Get/Remove/Pop/
Shift/SubSlice, from every state with any amount of spare capacity (`len ≤ cap`), under
every growth function `g` of `append`: no panic, the same answers and the same final
content as the list specification `specRun` — independent of capacity history, the
in-capacity vs reallocating `Prepend` paths and `shrink`. -/
theorem c14_flex_refines (g : Nat → Nat → Nat) (f : Flex) (ops : List FOp) (h : f.Inv) :
    ∃ f', flexRun g f ops = some (f', (specRun f.values ops).2) ∧ f'.Inv ∧
      f'.values = (specRun f.values ops).1 :=
  flexRun_refines g f ops h

/-- **The oracle's array representation of the FlexSlice model is the list model.**  On every
state (no invariant needed) `Pop` and `Get` of `FlexA` (one cell touched, reallocation only
when `shrink` fires) give the list model's answer and successor state; all other operations
of the oracle go through the list model itself.  Hence `c14_flex_refines` speaks about what
the oracle executes, and the large stream may drain thousands of elements by `Pop`. -/
theorem c14_flex_fast_eq (f : FlexA) (index : Int) :
    (f.pop).map (fun r => (r.1.toFlex, r.2.1, r.2.2)) = f.toFlex.pop ∧
    f.get index = f.toFlex.get index ∧
    (∀ g : Flex, (FlexA.ofFlex g).toFlex = g) :=
  ⟨FlexA.pop_eq f, FlexA.get_eq f index, FlexA.to_of⟩

/-- **SubSlice children share memory with their parent** (the case DESIGN lists as not
claimed; this is what holds).  A child made by `SubSlice(st, st+l)` that `shrink` did not
reallocate IS the window `[st, st+l)` of the parent's backing array (`Flex.subSlice`: `mem.drop st`).
(1) An `Append` on the parent within its capacity leaves the child's content as it was (beyond
capacity the parent moves away and the shared array is not written at all).  (2) `Pop` on the
parent writes exactly the cell `len-1` of the shared array (`pop_mem_eq` / `FlexA.pop`): a child
ending at or before it is unchanged, a child containing it reads a zero there — i.e. child
content is stable exactly until the parent writes inside the child's window. -/
theorem c14_flex_child (g : Nat → Nat → Nat) (f : Flex) (v : List Int) (st l : Nat) (hi : f.Inv) :
    (st + l ≤ f.len → f.len + v.length ≤ f.cap →
      ((f.append g v).mem.drop st).take l = (f.mem.drop st).take l) ∧
    (0 < f.len → st + l ≤ f.len - 1 →
      ((f.mem.set (f.len - 1) 0).drop st).take l = (f.mem.drop st).take l) ∧
    (0 < f.len → st ≤ f.len - 1 → f.len - 1 < st + l →
      ((f.mem.set (f.len - 1) 0).drop st).take l = ((f.mem.drop st).take l).set (f.len - 1 - st) 0) :=
  ⟨fun hc hcap => flex_child_stable_append g f v st l hi hc hcap,
   fun h0 h => (flex_child_pop f st l h0 hi).1 h,
   fun h0 h1 h2 => (flex_child_pop f st l h0 hi).2 h1 h2⟩

/-- **`Prepend(v...)` with `v` aliasing the receiver** (`f.Prepend(f.Values[a:a+n1]...)`; repaired code,
F17 / 5e7c306).  For EVERY state with `len ≤ cap` and EVERY window `[a, a+n1)` of the receiver's
own backing array — inside the content, straddling its end, or lying in the spare capacity —
whether the call reallocates or fits into the capacity: no panic, and afterwards
`Values = (the window as it was before the call) ++ (the old Values)`, i.e. plain sequence
semantics, regardless of spare capacity.  (A window with `a + n1 > cap` is a slice-bounds panic of
the CALLER's slice expression.)  The pre-fix code violated this for inner windows with spare
capacity: `Findings/C14PrependAlias.lean`. -/
theorem c14_flex_prepend_alias (f : Flex) (a n1 : Nat) (h : f.Inv) (ha : a + n1 ≤ f.cap) :
    ∃ f', f.prependWin a n1 = some f' ∧ f'.Inv ∧ f'.values = (f.mem.drop a).take n1 ++ f.values :=
  prependWin_spec f a n1 h ha

/-! ### wave 8 B / seed C14-K: the argument window's CAPACITY (three-index slices, clipped handles)

`v = array[a : a+n1 : k]`: every window of the receiver's own backing array is a triple
(offset, length, capacity) with `a + n1 ≤ k ≤ cap`; a handle cut earlier and kept across
Pops/Shifts is such a triple of the CURRENT array for as long as the receiver keeps its array.
`Flex.prependWinG ov` is `Prepend` with its alias test as a parameter (`ovCode` = the code's
address-range test on the ELEMENTS, `ovCapEnd` = "both slices end at the same address when
extended to their capacity", the `math/big` trick of seed C14-K). -/

/-- **`Prepend(f.Values[a:a+n1:k]...)`, repaired code: correct for EVERY window (offset, length,
capacity)** of the receiver's array, every state, reallocating or not — no panic,
`Values = (the window as it was) ++ (old Values)`; the answer does not depend on `k` at all
(it is `c14_flex_prepend_alias`'s), and outside `a + n1 ≤ k ≤ cap` the CALLER's slice expression panics. -/
theorem c14_flex_prepend_window (f : Flex) (a n1 k : Nat) (h : f.Inv) :
    (a + n1 ≤ k → k ≤ f.cap →
      (∃ f', f.prependWin3 a n1 k = some f' ∧ f'.Inv ∧ f'.values = (f.mem.drop a).take n1 ++ f.values) ∧
      f.prependWin3 a n1 k = f.prependWin a n1) ∧
    ((a + n1 > k ∨ k > f.cap) → f.prependWin3 a n1 k = none) :=
  ⟨fun hk hc => ⟨prependWinG_spec ovCode ovCode_adequate f a n1 k h hk hc, prependWin3_eq f a n1 k hk hc⟩,
   prependWinG_bounds ovCode f a n1 k⟩

/-- **Which alias tests keep `Prepend` a sequence operation.**  (1) EVERY adequate test (one that
reports each non-empty window meeting the shifted cells `[0, n1+len)`, whatever the window's
capacity) gives `window ++ old Values` for every (offset, length, capacity); the code's test is
adequate.  (2) The same-end-address test is not adequate, yet (3) it is right for every window whose
capacity reaches the end of the array (`f.Values[i:j]`) — two-index windows cannot tell the two
tests apart — and (4) wrong on a clipped one: `[1 2 3 4 5 6]` with capacity 16,
`Prepend(Values[3:5:5]...)` gives `[2 3 1 2 3 4 5 6]`, the code as written `[4 5 1 2 3 4 5 6]`. -/
theorem c14_flex_prepend_alias_test :
    (∀ ov : OvTest, ov.Adequate → ∀ (f : Flex) (a n1 k : Nat), f.Inv → a + n1 ≤ k → k ≤ f.cap →
      ∃ f', f.prependWinG ov a n1 k = some f' ∧ f'.Inv ∧ f'.values = (f.mem.drop a).take n1 ++ f.values) ∧
    ovCode.Adequate ∧ ¬ ovCapEnd.Adequate ∧
    (∀ (f : Flex) (a n1 : Nat), f.Inv → a + n1 ≤ f.cap →
      ∃ f', f.prependWinG ovCapEnd a n1 f.cap = some f' ∧ f'.Inv ∧ f'.values = (f.mem.drop a).take n1 ++ f.values) ∧
    (Flex.prependWinG ovCapEnd ⟨[1, 2, 3, 4, 5, 6, 0, 0, 0, 0, 0, 0, 0, 0, 0, 0], 6⟩ 3 2 5).map Flex.values
      = some [2, 3, 1, 2, 3, 4, 5, 6] ∧
    (Flex.prependWin3 ⟨[1, 2, 3, 4, 5, 6, 0, 0, 0, 0, 0, 0, 0, 0, 0, 0], 6⟩ 3 2 5).map Flex.values
      = some [4, 5, 1, 2, 3, 4, 5, 6] :=
  ⟨fun ov hov f a n1 k h hk hc => prependWinG_spec ov hov f a n1 k h hk hc, ovCode_adequate,
   ovCapEnd_not_adequate, prependWinG_capEnd_full, by decide, by decide⟩

/-- **`Append(f.Values[a:a+n1:k]...)`** for every window (offset, length, capacity) of the receiver's
array and every growth function: no panic, `Values = old Values ++ (the window as it was)` — also when
the appended cells `[len, len+n1)` are cells of the window itself (`append` moves with `memmove`). -/
theorem c14_flex_append_window (g : Nat → Nat → Nat) (f : Flex) (a n1 k : Nat) (h : f.Inv)
    (hk : a + n1 ≤ k) (hc : k ≤ f.cap) :
    ∃ f', f.appendWin3 g a n1 k = some f' ∧ f'.Inv ∧ f'.values = f.values ++ (f.mem.drop a).take n1 :=
  appendWin3_spec g f a n1 k h hk hc

/-! ### wave 8 B: the index arithmetic on the machine's `int`

Every theorem above computes with unbounded `Int`.  The `G` models (`Model/C14Wrap.lean`) are the same
code with the `int` operations `+ - *` as a PARAMETER `o : IntOps`; `o.Sound` says only that `o` is
right whenever the exact result fits in 64 bits — on overflow it may wrap, saturate or return
anything.  `IntOps.wrap64` (`BitVec 64`, two's complement) is the machine Go runs on and the twin the
oracle executes; `IntOps.poison p` returns the arbitrary value `p` for every overflowed result.
"For every Sound `o` the `G` model equals the unbounded model" therefore says: no sum, difference
or product that can leave the `int` range ever reaches a comparison, an index or a slice bound —
the code as written clamps before it adds — and every theorem above is a theorem about what the
64-bit code computes, for ALL `int` arguments (`MaxInt`, `MinInt`, `MaxInt - len`, …). -/

/-- The 64-bit two's-complement machine is Sound; so are exact arithmetic and every poisoned machine. -/
theorem c14_int_machine_sound : IntOps.wrap64.Sound ∧ IntOps.exact.Sound ∧ ∀ p, (IntOps.poison p).Sound :=
  ⟨wrap64_sound, exact_sound, poison_sound⟩

/-- **`Copy` never lets a sum wrap.**  For every `int` start and length (negative, oversized,
`MaxInt`, `MinInt`) and every slice whose length is an `int`: the machine-integer model equals the
unbounded one (`l - start` is formed after `start ∈ [0, l)`, `start + length` after
`length ∈ [1, l - start]`), hence `c14_copy_fresh` holds of the 64-bit code. -/
theorem c14_copy_nowrap (o : IntOps) (ho : o.Sound) (s : List Int) (start length : Int)
    (hl : (s.length : Int) ≤ maxInt) (hs : IsInt start) (hn : IsInt length) :
    copyG o s start length = copy s start length :=
  copyG_eq o ho s start length hl hs hn

/-- **The guard is exact** (the change class of seed C14-I: the END is clamped, so `start + length`
is formed BEFORE it is compared).  Over unbounded integers that text is the same function as
`Copy` — which is why no unbounded model can tell them apart; on a Sound machine it is `Copy`
exactly as long as `max start 0 + length` fits; on the 64-bit machine it PANICS (negative end) for
every start inside the slice and every length beyond `MaxInt - start`, e.g. `Copy(s, 1, MaxInt)`. -/
theorem c14_copy_sum_first_guard (s : List Int) (start length : Int)
    (hl : (s.length : Int) ≤ maxInt) (hs : IsInt start) (hn : IsInt length) :
    copyEndG .exact s start length = copy s start length ∧
    (∀ o : IntOps, o.Sound → (if start < 0 then 0 else start) + length ≤ maxInt →
      copyEndG o s start length = copy s start length) ∧
    (start < s.length → (if start < 0 then 0 else start) + length > maxInt →
      copyEndG .wrap64 s start length = none ∧ copyG .wrap64 s start length = copy s start length) :=
  ⟨copyEndG_exact s start length,
   fun o ho hfit => copyEndG_eq_of_fits o ho s start length hs hn hfit,
   fun hlt hover => ⟨copyEndG_wrap64_panics s start length hl hlt hn hover,
     copyG_eq _ wrap64_sound s start length hl hs hn⟩⟩

/-- **`Remove`**: `len(s) - 1` and `index + 1` (formed only when `index < last`) cannot wrap for any
`int` index; the machine-integer model equals the unbounded one (`c14_remove`). -/
theorem c14_remove_nowrap (o : IntOps) (ho : o.Sound) (nil1 : Bool) (s : List Int) (index : Int)
    (hl : (s.length : Int) ≤ maxInt) (hi : IsInt index) :
    removeG o nil1 s index = remove nil1 s index :=
  removeG_eq o ho nil1 s index hl hi

/-- **`Chunk` / `ChunkProcess`**: for every `int` chunk size — the loop counter `i++`, the cursor
`start + chunkSize` (≤ `n·chunkSize ≤ len`) and the capacity `n + 1` of `make` cannot wrap, the loop
ends by its own condition `i < n`, and the machine-integer models equal the unbounded ones
(`c14_chunk_concat`, `c14_chunk_sizes`, `c14_chunkprocess`).  Exact guard of `Chunk`: `len < MaxInt`
(with `len = MaxInt`, `chunkSize = 1` the capacity `n + 1` of `make` would wrap; no such slice of
non-zero-size elements exists). -/
theorem c14_chunk_nowrap (o : IntOps) (ho : o.Sound) (len : Nat) (chunkSize : Int) (failAt : Nat)
    (hc : IsInt chunkSize) :
    ((len : Int) < maxInt → chunkG o len chunkSize = chunk len chunkSize) ∧
    ((len : Int) ≤ maxInt → chunkProcessG o len chunkSize failAt = chunkProcess len chunkSize failAt) :=
  ⟨fun hl => chunkG_eq o ho len chunkSize hl hc, fun hl => chunkProcessG_eq o ho len chunkSize failAt hl hc⟩

/-- **FlexSlice indices**: `Get` and `SubSlice` form no sum of their arguments at all (`Flex.get`,
`subSlice` contain comparisons only); `Remove(index)`, `Pop` (`len - 1`), `Shift`, `SubSlice` followed by
`shrink` (`cap / 4`, `len * 2` after `len ≤ cap/4`) on the machine's integers equal the unbounded
model for every `int` index and every state with `len ≤ cap ≤ MaxInt` (`c14_flex_refines`). -/
theorem c14_flex_nowrap (o : IntOps) (ho : o.Sound) (f : Flex) (index a b : Int)
    (hinv : f.Inv) (hc : (f.cap : Int) ≤ maxInt) (hi : IsInt index) :
    f.removeG o index = f.remove index ∧ f.popG o = f.pop ∧ f.shiftG o = f.shift ∧
    f.subSliceG o a b = f.subSlice a b :=
  ⟨flex_removeG_eq o ho f index hinv hc hi, flex_popG_eq o ho f hinv hc, flex_shiftG_eq o ho f hinv hc,
   flex_subSliceG_eq o ho f a b hc⟩

/-- **`Prepend`: the exact guard.**  `n1 + n2` and `2 * c` are sums of LENGTHS, not of arguments; they
are right, and `Prepend` on the machine's integers is the unbounded `Flex.prepend` without a panic,
whenever `len(v) + len ≤ MaxInt` and `2·cap ≤ MaxInt` — true of every slice the runtime can
allocate (a `[]T` with `cap ≥ 2^62` and non-zero-size `T` exceeds the address space). -/
theorem c14_flex_prepend_guard (o : IntOps) (ho : o.Sound) (f : Flex) (v : List Int)
    (hg1 : (v.length : Int) + (f.len : Int) ≤ maxInt) (hg2 : 2 * (f.cap : Int) ≤ maxInt) :
    f.prependG o v = some (f.prepend v) :=
  flex_prependG_eq o ho f v hg1 hg2

/-! ### non-vacuity -/

/-- dst = s1[:0] on a slice with duplicates: the result overwrites the front of `s1` -/
example : filter (fun v => v != 2) .alias1 false ⟨[2, 1, 2, 3, 1], [7]⟩ =
    some ⟨⟨[1, 3, 1, 3, 1], [7]⟩, ⟨false, [1, 3, 1]⟩⟩ := by decide
/-- dst = s2[:0] with too little capacity: `append` detaches after one in-place write -/
example : diff .alias2 false false ⟨[1, 2, 3, 4], [2]⟩ =
    some ⟨⟨[1, 2, 3, 4], [1]⟩, ⟨false, [1, 3, 4]⟩⟩ := by decide
example : unique .alias1 false ⟨[1, 1, 2, 1, 3, 2], []⟩ =
    some ⟨⟨[1, 2, 3, 1, 3, 2], []⟩, ⟨false, [1, 2, 3]⟩⟩ := by decide
example : uniqueInPlace false [1, 1, 2, 1, 3, 2] = some ⟨[1, 2, 3, 1, 1, 2], ⟨false, [1, 2, 3]⟩⟩ := by decide
/-- a state meeting the hypotheses of `c14_write_le_read` with `j < i` -/
example : (⟨.in1, [], 1, false⟩ : Out).loc = .in1 ∧ (1 : Nat) ≤ 3 ∧ 3 < ([1, 1, 2, 3, 1] : List Int).length := by decide
example : chunk 5 2 = some (some [(0, 2), (2, 2), (4, 1)]) := by decide
example : subSlice 3 (-1) 9 = some (.view 0 3) ∧ subSlice 3 2 1 = some .nil ∧ copy [1, 2, 3] 1 (-1) = some (.fresh [2, 3]) := by
  decide
/-- a dst window in FRONT of s1 whose capacity runs into it, s2 overlapping dst: still the definition -/
example : intersectA intEq [9, 9, 1, 2, 1, 3] (some ⟨1, 0, 4⟩) ⟨2, 4, 4⟩ ⟨2, 1, 1⟩ = some ([9, 1, 1, 2, 1, 3], .win 1 2) := by
  decide
/-- float64 elements (1000000 = NaN, 1000001 = -0): `Equal(s, s)` is false with a NaN inside, `Index` does not
find a NaN, `Unique` keeps both NaNs but only the first of +0 / -0, `Diff` keeps a NaN that "is" in s2 -/
example : equalE floatEq [1, nanCode] [1, nanCode] = some false ∧ indexE floatEq [nanCode, 2] nanCode = -1 ∧
    uniqueByKeyA floatEq id [nanCode, 0, nanCode, negZeroCode, 0] none ⟨0, 5, 5⟩ =
      some ([nanCode, 0, nanCode, negZeroCode, 0], .fresh [nanCode, 0, nanCode] false) ∧
    diffA floatEq [nanCode, 3, nanCode, 3] none ⟨0, 2, 2⟩ ⟨2, 2, 2⟩ =
      some ([nanCode, 3, nanCode, 3], .fresh [nanCode] false) := by decide
/-- the F17 witness (cap 8, content [1 2 3], `f.Prepend(f.Values[1:3]...)`) and a window reaching into
the spare capacity, on the repaired model -/
example : (Flex.prependWin ⟨[1, 2, 3, 0, 0, 0, 0, 0], 3⟩ 1 2).map Flex.values = some [2, 3, 1, 2, 3] ∧
    (Flex.prependWin ⟨[1, 2, 3, 7, 8, 0, 0, 0], 3⟩ 2 3).map Flex.values = some [3, 7, 8, 1, 2, 3] := by decide
/-- the layout of seeded change C14-E: `s2 = s1[1:2]` inside `s1 = [3 7 5 7]`: both 7s are kept -/
example : (Flex.prependWin3 ⟨[1, 2, 3, 4, 5, 0, 0, 0], 5⟩ 2 2 4).map Flex.values = some [3, 4, 1, 2, 3, 4, 5] ∧
    (Flex.prependWin3 ⟨[1, 2, 3, 9, 0, 0, 0, 0], 3⟩ 2 2 6).map Flex.values = some [3, 9, 1, 2, 3] ∧
    (Flex.prependWin3 ⟨[1, 2, 3], 3⟩ 1 2 3).map Flex.values = some [2, 3, 1, 2, 3] ∧
    Flex.prependWin3 ⟨[1, 2, 3], 3⟩ 1 2 4 = none ∧ Flex.prependWin3 ⟨[1, 2, 3], 3⟩ 1 2 2 = none := by decide
example : (Flex.appendWin3 goGrow ⟨[1, 2, 3, 7, 8, 0, 0, 0], 3⟩ 2 3 5).map Flex.values = some [1, 2, 3, 3, 7, 8] := by decide
example : Flex.Inv ⟨[1, 2, 3, 4, 5, 6, 0, 0, 0, 0, 0, 0, 0, 0, 0, 0], 6⟩ := by simp [Flex.Inv]
example : intersectInPlaceA intEq [3, 7, 5, 7] ⟨0, 4, 4⟩ ⟨1, 1, 1⟩ = some ([7, 7, 5, 3], .win 0 2) := by decide
example : diffInPlaceA intEq [9, 3, 7, 5, 7, 9] ⟨1, 4, 4⟩ ⟨2, 2, 2⟩ = some ([9, 3, 7, 5, 7, 9], .win 1 1) := by decide
/-- a FlexSlice history crossing growth (cap 2 → 4 → 9 → 18), an in-capacity Prepend and a shrink (18 → 8) -/
example : (flexRun goGrow (mkFlex [] 2)
    [.append [1, 2, 3], .prepend [4], .prepend [5, 6, 7, 8, 9], .append [10], .shift, .shift, .shift, .shift, .shift,
     .pop, .get 0]).map (fun r => (r.1.values, r.1.cap)) = some ([4, 1, 2, 3], 8) := by decide

/-- wave 8 B: the 64-bit machine really wraps (so `Sound` is not "never overflows"), the arguments of
seed C14-I meet the hypotheses of `c14_copy_nowrap` / `c14_copy_sum_first_guard`, and on them the code as
written answers `s[1:]` while the sum-first text panics on the 64-bit machine and not on the exact one -/
example : IntOps.wrap64.add 1 maxInt = minInt ∧ IntOps.wrap64.sub minInt 1 = maxInt ∧
    IntOps.wrap64.mul 2 4611686018427387904 = minInt ∧ IsInt 1 ∧ IsInt maxInt ∧ IsInt minInt ∧
    ((([1, 2, 3] : List Int).length : Int) ≤ maxInt) ∧ (1 : Int) + maxInt > maxInt ∧
    copyG .wrap64 [1, 2, 3] 1 maxInt = some (.fresh [2, 3]) ∧
    copyEndG .wrap64 [1, 2, 3] 1 maxInt = none ∧ copyEndG .exact [1, 2, 3] 1 maxInt = some (.fresh [2, 3]) ∧
    copyEndG (.poison 2) [1, 2, 3] 1 maxInt = some (.fresh [2]) := by decide
/-- int-edge arguments through the 64-bit twins of Remove / Chunk / ChunkProcess / FlexSlice -/
example : removeG .wrap64 false [1, 2, 3] maxInt = some ([1, 2, 3], ⟨false, [1, 2, 3]⟩, 0, false) ∧
    removeG .wrap64 false [1, 2, 3] minInt = some ([1, 2, 3], ⟨false, [1, 2, 3]⟩, 0, false) ∧
    removeG .wrap64 false [1, 2, 3] 1 = some ([1, 3, 0], ⟨false, [1, 3]⟩, 2, true) := by decide
example : chunkG .wrap64 3 maxInt = some (some [(0, 3)]) ∧ chunkG .wrap64 3 minInt = some (some [(0, 3)]) ∧
    chunkG .wrap64 5 2 = some (some [(0, 2), (2, 2), (4, 1)]) ∧
    chunkProcessG .wrap64 5 2 2 = some ([(0, 2), (2, 2)], true) := by decide
example :
    (Flex.removeG .wrap64 ⟨[1, 2, 3, 0], 3⟩ maxInt).map (fun r => (r.1.values, r.2)) = some ([1, 2, 3], 0, false) ∧
    (Flex.popG .wrap64 ⟨[1, 2, 3, 0], 3⟩).map (fun r => (r.1.values, r.2)) = some ([1, 2], 3, true) ∧
    (Flex.subSliceG .wrap64 ⟨[1, 2, 3, 0], 3⟩ 1 maxInt).map Flex.values = some [2, 3] ∧
    (Flex.prependG .wrap64 ⟨[1, 2, 3, 0], 3⟩ [7, 8]).map Flex.values = some [7, 8, 1, 2, 3] := by decide

/-! ### Regenerated tie (wave 8): `slicez.Index` / `slicez.Contains` translated by `go2lean`

`Golib.Gen.Trans.C14.Index` / `Contains` are regenerated from the tree under verification on
every run (`Golib/Gen/TransC14.lean`, generic in the element type; the model's element type is
`Int`). -/

/-- TIE: the translated `Index` (a `range` loop with an early `return i`) equals the model's
`index` on every slice and value: first position holding `v`, else `-1`; no panic, fuel
`len(s) + 1` suffices. -/
theorem c14_trans_Index (s : List Int) (v : Int) :
    Golib.Gen.Trans.C14.Index s v = .ok (index s v) :=
  trans_index s v

/-- TIE: the translated `Contains` (`Index(s, v) >= 0`) equals the model's `contains`. -/
theorem c14_trans_Contains (s : List Int) (v : Int) :
    Golib.Gen.Trans.C14.Contains s v = .ok (contains s v) :=
  trans_contains s v

/-- Non-vacuity: the first of two occurrences is reported; an absent value gives -1 / false. -/
example : Golib.Gen.Trans.C14.Index [5, 7, 9, 7] (7 : Int) = .ok 1 ∧
    Golib.Gen.Trans.C14.Index [5, 7, 9, 7] (8 : Int) = .ok (-1) ∧
    Golib.Gen.Trans.C14.Contains [5, 7, 9, 7] (8 : Int) = .ok false := by
  refine ⟨?_, ?_, ?_⟩ <;> decide +kernel

/-! ### Regenerated tie (wave 8), continued: `slicez.Equal` / `Filter` / `IndexFunc` / `ContainsFunc` translated by `go2lean`

Abstraction between the generated code and the model: the translator's slices are content lists
without aliasing and without a nil/empty distinction (`Sl.xs`; the nil flag is not represented);
a model-side `none` (Go panic) is `Res.panic` (`resOfOption`).  The other C14 functions are
outside the translator's subset (`nil` slice results: SubSlice, Copy, Chunk; results aliasing a
written parameter: Remove, UniqueInPlace, FilterInPlace; maps: Unique; error-returning callback:
ChunkProcess; variadic: Values) and stay tied by correspondence + drift hash only. -/

/-- TIE: the translated `Equal` (length test, `s2 = s2[:len(s1)]`, a `range` loop with an early
`return false`) equals the model's `equal` on every pair of slices — panic (`none`) exactly where
the model panics, which is nowhere (`c14_equal`); fuel `len(s1) + 1` suffices. -/
theorem c14_trans_Equal (s1 s2 : List Int) :
    Golib.Gen.Trans.C14.Equal s1 s2 = resOfOption (equal s1 s2) :=
  trans_equal s1 s2

/-- The property clause directly on the regenerated definition: `Equal` never panics and decides
equality of the contents. -/
theorem c14_trans_Equal_decides (s1 s2 : List Int) :
    Golib.Gen.Trans.C14.Equal s1 s2 = .ok (decide (s1 = s2)) :=
  trans_equal_decide s1 s2

/-- Non-vacuity: equal, differing in the last element, differing in length, both empty. -/
example : Golib.Gen.Trans.C14.Equal [1, 2, 3] ([1, 2, 3] : List Int) = .ok true ∧
    Golib.Gen.Trans.C14.Equal [1, 2, 3] ([1, 2, 4] : List Int) = .ok false ∧
    Golib.Gen.Trans.C14.Equal [1, 2] ([1, 2, 3] : List Int) = .ok false ∧
    Golib.Gen.Trans.C14.Equal [] ([] : List Int) = .ok true := by
  refine ⟨?_, ?_, ?_, ?_⟩ <;> decide +kernel

/-- TIE: the translated `Filter` (`dst = dst[:0]`, a `range` loop appending the selected
elements; the callback is a pure total `Int → Bool`, the translator's stated assumption) equals
the model's `filter` at every dst layout the translation covers — `dst` sharing no memory with
`s` (`Dst.nil` / `Dst.fresh`, the translator's no-alias convention; the aliased layouts
`dst = s[:k]` are `c14_filter_alias` on the hand-written model): same returned content, the
model leaves both memories untouched there, no panic, for EVERY prior content of `dst`; fuel
`len(s) + 1` suffices. -/
theorem c14_trans_Filter (dst s m2 : List Int) (p : Int → Bool) (d : Dst) (n1 : Bool)
    (hd : d = .nil ∨ d = .fresh) :
    Golib.Gen.Trans.C14.Filter dst s p
      = resOfOption ((filter p d n1 ⟨s, m2⟩).map fun r => r.res.xs) ∧
    (filter p d n1 ⟨s, m2⟩).map (fun r => r.mem) = some ⟨s, m2⟩ :=
  trans_filter dst s m2 p d n1 hd

/-- The property clause directly on the regenerated definition: the selected elements in order. -/
theorem c14_trans_Filter_spec (dst s : List Int) (p : Int → Bool) :
    Golib.Gen.Trans.C14.Filter dst s p = .ok (s.filter p) :=
  trans_filter_spec dst s p

/-- Non-vacuity: duplicates kept in order, old `dst` content dropped, nothing selected → empty. -/
example : Golib.Gen.Trans.C14.Filter [9, 9] ([2, 1, 2, 3, 1] : List Int) (fun v => v != 2) = .ok [1, 3, 1] ∧
    Golib.Gen.Trans.C14.Filter [] ([2, 2] : List Int) (fun v => v != 2) = .ok [] := by
  refine ⟨?_, ?_⟩ <;> decide +kernel

/-- TIE: the translated `IndexFunc` (a `range` loop with an early `return i`; the callback is a
pure total `Int → Bool`, the translator's stated assumption) equals the model's `indexFunc` for
every slice and predicate: first position satisfying `fn`, else `-1`; no panic, fuel `len(s) + 1`
suffices. -/
theorem c14_trans_IndexFunc (s : List Int) (fn : Int → Bool) :
    Golib.Gen.Trans.C14.IndexFunc s fn = .ok (indexFunc s fn) :=
  trans_indexFunc s fn

/-- TIE: the translated `ContainsFunc` (`IndexFunc(s, fn) >= 0`) equals the model's `containsFunc`. -/
theorem c14_trans_ContainsFunc (s : List Int) (fn : Int → Bool) :
    Golib.Gen.Trans.C14.ContainsFunc s fn = .ok (containsFunc s fn) :=
  trans_containsFunc s fn

/-- Non-vacuity: the first of two matches is reported; no match gives -1 / false. -/
example : Golib.Gen.Trans.C14.IndexFunc ([5, 7, 9, 7] : List Int) (fun v => v > 6) = .ok 1 ∧
    Golib.Gen.Trans.C14.IndexFunc ([5, 7, 9, 7] : List Int) (fun v => v > 9) = .ok (-1) ∧
    Golib.Gen.Trans.C14.ContainsFunc ([5, 7, 9, 7] : List Int) (fun v => v > 9) = .ok false := by
  refine ⟨?_, ?_, ?_⟩ <;> decide +kernel

/-! ### Regenerated tie (wave 9): `slicez.Copy` / `SubSlice` / `Remove` / `FilterInPlace` / `Chunk` translated by `go2lean`

Same abstraction as above (a slice value of the generated code = its content list).  Two more
idealisations of the translator are used here and are written into the generated file's header:
a nil SLICE value is the empty list (`return nil`, `[]T(nil)`; a comparison of a slice with nil
stays outside the subset), and a result that is a view of a written parameter (`return s[:last]`)
is returned as its CONTENT next to the updated parameter — that result and argument share memory
after the call is not represented there; it is what `View.view` / `IpRes` of the hand-written
models and the correspondence check (mutating the result) cover. -/

/-- TIE: the translated `Copy` (clamping of `start`/`length`, `append([]T(nil), s[a:b]...)`) equals
the content of the model's `copy` for ALL `Int` arguments — `Res.panic` exactly where the model has
`none` (nowhere: `c14_copy`); nil result ↦ `[]`. -/
theorem c14_trans_Copy (s : List Int) (start length : Int) :
    Golib.Gen.Trans.C14.Copy s start length = viewXs s (copy s start length) :=
  trans_copy s start length

/-- Non-vacuity: clamped at both ends, negative length = the rest, empty results. -/
example : Golib.Gen.Trans.C14.Copy ([1, 2, 3, 4] : List Int) 1 2 = .ok [2, 3] ∧
    Golib.Gen.Trans.C14.Copy ([1, 2, 3, 4] : List Int) (-5) 9 = .ok [1, 2, 3, 4] ∧
    Golib.Gen.Trans.C14.Copy ([1, 2, 3, 4] : List Int) 2 (-1) = .ok [3, 4] ∧
    Golib.Gen.Trans.C14.Copy ([1, 2, 3, 4] : List Int) 4 1 = .ok [] := by
  refine ⟨?_, ?_, ?_, ?_⟩ <;> decide +kernel

/-- TIE: the translated `SubSlice` equals the content of the model's `subSlice` view for ALL `Int`
arguments, `Res.panic` exactly where the model has `none` (nowhere: `c14_subslice`). -/
theorem c14_trans_SubSlice (s : List Int) (start «end» : Int) :
    Golib.Gen.Trans.C14.SubSlice s start «end» = viewXs s (subSlice s.length start «end») :=
  trans_subSlice s start «end»

/-- Non-vacuity: inner window, negative end = the rest, start clamped, empty. -/
example : Golib.Gen.Trans.C14.SubSlice ([1, 2, 3, 4] : List Int) 1 3 = .ok [2, 3] ∧
    Golib.Gen.Trans.C14.SubSlice ([1, 2, 3, 4] : List Int) 2 (-1) = .ok [3, 4] ∧
    Golib.Gen.Trans.C14.SubSlice ([1, 2, 3, 4] : List Int) (-3) 2 = .ok [1, 2] ∧
    Golib.Gen.Trans.C14.SubSlice ([1, 2, 3, 4] : List Int) 3 2 = .ok [] := by
  refine ⟨?_, ?_, ?_, ?_⟩ <;> decide +kernel

/-- TIE: the translated `Remove` (`copy(s[index:], s[index+1:])` as a memmove inside the argument,
`s[last] = zero`, `return s[:last], v, true`) equals the model's `remove`: content of the returned
slice, removed value, ok, AND the argument's memory afterwards; no panic for any `Int` index. -/
theorem c14_trans_Remove (n1 : Bool) (s : List Int) (index : Int) :
    Golib.Gen.Trans.C14.Remove s index = resOfOption ((remove n1 s index).map removeProj) :=
  trans_remove n1 s index

/-- The property clause directly on the regenerated definition: out of range nothing happens and the
zero value comes back with `false`; in range the element is erased and the vacated cell zeroed. -/
theorem c14_trans_Remove_spec (s : List Int) (index : Int) :
    Golib.Gen.Trans.C14.Remove s index =
      if index < 0 ∨ index ≥ (s.length : Int) then .ok ((s, 0, false), s)
      else .ok ((s.eraseIdx index.toNat, s[index.toNat]?.getD 0, true), s.eraseIdx index.toNat ++ [0]) :=
  trans_remove_spec s index

/-- Non-vacuity: middle (shift), last (no shift), out of range on both sides. -/
example : Golib.Gen.Trans.C14.Remove ([5, 6, 7, 8] : List Int) 1 = .ok (([5, 7, 8], 6, true), [5, 7, 8, 0]) ∧
    Golib.Gen.Trans.C14.Remove ([5, 6, 7, 8] : List Int) 3 = .ok (([5, 6, 7], 8, true), [5, 6, 7, 0]) ∧
    Golib.Gen.Trans.C14.Remove ([5, 6] : List Int) 2 = .ok (([5, 6], 0, false), [5, 6]) ∧
    Golib.Gen.Trans.C14.Remove ([5, 6] : List Int) (-1) = .ok (([5, 6], 0, false), [5, 6]) := by
  refine ⟨?_, ?_, ?_, ?_⟩ <;> decide +kernel

/-- TIE: the translated `FilterInPlace` (a key-only `range` loop over the written parameter with
the tuple swap `s[remain], s[i] = s[i], s[remain]`, `return s[:remain]`; the callback is a pure total
`Int → Bool`, the translator's stated assumption) equals the model's `filterInPlace`: content of the
returned slice AND the argument's memory afterwards; `Res.panic` exactly where the model has `none`
(nowhere: `c14_inplace_perm`); fuel `len(s) + 1` suffices. -/
theorem c14_trans_FilterInPlace (n1 : Bool) (s : List Int) (p : Int → Bool) :
    Golib.Gen.Trans.C14.FilterInPlace s p = resOfOption ((filterInPlace p n1 s).map ipProj) :=
  trans_filterInPlace n1 s p

/-- The property clause directly on the regenerated definition: the result is `s.filter p` in order,
the argument afterwards is a permutation of the original whose front is the result; no panic. -/
theorem c14_trans_FilterInPlace_spec (s : List Int) (p : Int → Bool) :
    ∃ res mem, Golib.Gen.Trans.C14.FilterInPlace s p = .ok (res, mem) ∧
      res = s.filter p ∧ mem.Perm s ∧ res = mem.take res.length :=
  trans_filterInPlace_spec s p

/-- Non-vacuity: two swaps that move elements, everything selected, nothing selected. -/
example : Golib.Gen.Trans.C14.FilterInPlace ([0, 5, 0, 6] : List Int) (fun v => v != 0) = .ok ([5, 6], [5, 6, 0, 0]) ∧
    Golib.Gen.Trans.C14.FilterInPlace ([1, 2] : List Int) (fun v => v != 0) = .ok ([1, 2], [1, 2]) ∧
    Golib.Gen.Trans.C14.FilterInPlace ([0, 0] : List Int) (fun v => v != 0) = .ok ([], [0, 0]) := by
  refine ⟨?_, ?_, ?_⟩ <;> decide +kernel

/-- TIE: the translated `Chunk` (`return nil`, `[][]T{s}`, the counted loop of `s[start:end]`
appends and the remainder) equals the contents of the model's `chunk` views for ALL `Int` chunk
sizes, `Res.panic` exactly where the model has `none` (nowhere: `c14_chunk_concat`); fuel
`len(s) + 1` suffices. -/
theorem c14_trans_Chunk (s : List Int) (chunkSize : Int) :
    Golib.Gen.Trans.C14.Chunk s chunkSize = resOfOption ((chunk s.length chunkSize).map (chunkXs s)) :=
  trans_chunk s chunkSize

/-- The property clause directly on the regenerated definition: no panic, and the concatenation of
the pieces is the input. -/
theorem c14_trans_Chunk_concat (s : List Int) (chunkSize : Int) :
    ∃ r, Golib.Gen.Trans.C14.Chunk s chunkSize = .ok r ∧ r.flatten = s :=
  trans_chunk_concat s chunkSize

/-- Non-vacuity: a remainder piece, an exact tiling, size ≥ len and size < 1 (one piece), empty input. -/
example : Golib.Gen.Trans.C14.Chunk ([1, 2, 3, 4, 5] : List Int) 2 = .ok [[1, 2], [3, 4], [5]] ∧
    Golib.Gen.Trans.C14.Chunk ([1, 2, 3, 4] : List Int) 2 = .ok [[1, 2], [3, 4]] ∧
    Golib.Gen.Trans.C14.Chunk ([1, 2, 3] : List Int) 3 = .ok [[1, 2, 3]] ∧
    Golib.Gen.Trans.C14.Chunk ([1, 2, 3] : List Int) (-4) = .ok [[1, 2, 3]] ∧
    Golib.Gen.Trans.C14.Chunk ([] : List Int) 2 = .ok [] := by
  refine ⟨?_, ?_, ?_, ?_, ?_⟩ <;> decide +kernel

/-! ### Regenerated tie (wave 9), part 2: the membership-map functions translated by `go2lean`

`Diff` / `Intersect` / `Unique` / `UniqueByKey` and their in-place variants build a local
`map[K]struct{}` and use it as a SET (`m[k] = struct{}{}`, `_, ok := m[k]`, `len(m)`).  The translator
renders such a map as the list of its distinct keys (insert = cons unless present, lookup = membership,
len = length): iteration order — the one thing a list has and a Go map has not — is not observable
through these three operations, every other use of the map stays outside the subset, and `==` of the
key type is Lean's equality (true of the model's `Int` elements; the `float64`/NaN instantiation is the
arena model's `ElemEq`, `c14_arena_*`).  The hand-written models use `s2` itself (resp. `mapInsert`)
as the set; the tie proofs bridge the two by membership (`mkSet_contains`). -/

/-- TIE: the translated `Diff` equals the model's `diff` at every dst layout the translation covers
(`dst` sharing no memory with the inputs): same returned content, memories untouched, no panic. -/
theorem c14_trans_Diff (dst s1 s2 : List Int) (d : Dst) (n1 n2 : Bool) (hd : d = .nil ∨ d = .fresh) :
    Golib.Gen.Trans.C14.Diff dst s1 s2 = resOfOption ((diff d n1 n2 ⟨s1, s2⟩).map fun r => r.res.xs) ∧
    (diff d n1 n2 ⟨s1, s2⟩).map (fun r => r.mem) = some ⟨s1, s2⟩ :=
  trans_diff dst s1 s2 d n1 n2 hd

/-- The property clause directly on the regenerated definition. -/
theorem c14_trans_Diff_spec (dst s1 s2 : List Int) :
    Golib.Gen.Trans.C14.Diff dst s1 s2 = .ok (s1.filter fun v => !s2.contains v) :=
  trans_diff_spec dst s1 s2

/-- TIE: the translated `Intersect` equals the model's `intersect` (same layouts). -/
theorem c14_trans_Intersect (dst s1 s2 : List Int) (d : Dst) (n1 n2 : Bool) (hd : d = .nil ∨ d = .fresh) :
    Golib.Gen.Trans.C14.Intersect dst s1 s2 = resOfOption ((intersect d n1 n2 ⟨s1, s2⟩).map fun r => r.res.xs) ∧
    (intersect d n1 n2 ⟨s1, s2⟩).map (fun r => r.mem) = some ⟨s1, s2⟩ :=
  trans_intersect dst s1 s2 d n1 n2 hd

/-- The property clause directly on the regenerated definition. -/
theorem c14_trans_Intersect_spec (dst s1 s2 : List Int) :
    Golib.Gen.Trans.C14.Intersect dst s1 s2 = .ok (s1.filter fun v => s2.contains v) :=
  trans_intersect_spec dst s1 s2

/-- Non-vacuity: duplicates of `s1` kept, order of `s1`, old `dst` dropped, empty `s2`. -/
example : Golib.Gen.Trans.C14.Diff [9] ([3, 1, 3, 2, 4] : List Int) [2, 2, 1] = .ok [3, 3, 4] ∧
    Golib.Gen.Trans.C14.Diff [] ([3, 1] : List Int) [] = .ok [3, 1] ∧
    Golib.Gen.Trans.C14.Intersect [9] ([3, 1, 3, 2, 4] : List Int) [2, 2, 1] = .ok [1, 2] := by
  refine ⟨?_, ?_, ?_⟩ <;> decide +kernel

/-- TIE: the translated `Unique` (the coded "did the map grow" test `uniqueCount < len(seen)`) equals the
model's `unique` at the non-aliased dst layouts. -/
theorem c14_trans_Unique (dst s m2 : List Int) (d : Dst) (n1 : Bool) (hd : d = .nil ∨ d = .fresh) :
    Golib.Gen.Trans.C14.Unique dst s = resOfOption ((unique d n1 ⟨s, m2⟩).map fun r => r.res.xs) ∧
    (unique d n1 ⟨s, m2⟩).map (fun r => r.mem) = some ⟨s, m2⟩ :=
  trans_unique dst s m2 d n1 hd

/-- TIE: the translated `UniqueByKey` (the callback is a pure total `Int → Int`, the translator's stated
assumption) equals the model's `uniqueByKey` at the non-aliased dst layouts. -/
theorem c14_trans_UniqueByKey (dst s m2 : List Int) (key : Int → Int) (d : Dst) (n1 : Bool) (hd : d = .nil ∨ d = .fresh) :
    Golib.Gen.Trans.C14.UniqueByKey dst s key = resOfOption ((uniqueByKey key d n1 ⟨s, m2⟩).map fun r => r.res.xs) ∧
    (uniqueByKey key d n1 ⟨s, m2⟩).map (fun r => r.mem) = some ⟨s, m2⟩ :=
  trans_uniqueByKey dst s m2 key d n1 hd

/-- The property clause directly on the regenerated definitions: the first occurrence per key, in order. -/
theorem c14_trans_Unique_spec (dst s : List Int) (key : Int → Int) :
    Golib.Gen.Trans.C14.Unique dst s = .ok (firstOcc id [] s) ∧
    Golib.Gen.Trans.C14.UniqueByKey dst s key = .ok (firstOcc key [] s) :=
  ⟨trans_unique_spec dst s, trans_uniqueByKey_spec dst s key⟩

/-- Non-vacuity: first occurrences in order; by key (parity) only one per class. -/
example : Golib.Gen.Trans.C14.Unique [9] ([3, 1, 3, 2, 1] : List Int) = .ok [3, 1, 2] ∧
    Golib.Gen.Trans.C14.UniqueByKey [] ([3, 1, 4, 2] : List Int) (fun v => v % 2) = .ok [3, 4] := by
  refine ⟨?_, ?_⟩ <;> decide +kernel

/-- TIE: the translated in-place variants (map as set-list, key-only `range` over the written
parameter, tuple swap, `return s1[:remain]`) equal the models: content of the returned front portion AND
the argument's memory afterwards, `Res.panic` exactly where the model has `none` (nowhere:
`c14_inplace_perm`), any nil flag. -/
theorem c14_trans_DiffInPlaceFirst (n1 : Bool) (s1 s2 : List Int) :
    Golib.Gen.Trans.C14.DiffInPlaceFirst s1 s2 = resOfOption ((diffInPlaceFirst n1 s1 s2).map ipProj) :=
  trans_diffInPlaceFirst n1 s1 s2

theorem c14_trans_IntersectInPlaceFirst (n1 : Bool) (s1 s2 : List Int) :
    Golib.Gen.Trans.C14.IntersectInPlaceFirst s1 s2 = resOfOption ((intersectInPlaceFirst n1 s1 s2).map ipProj) :=
  trans_intersectInPlaceFirst n1 s1 s2

theorem c14_trans_UniqueInPlace (n1 : Bool) (s : List Int) :
    Golib.Gen.Trans.C14.UniqueInPlace s = resOfOption ((uniqueInPlace n1 s).map ipProj) :=
  trans_uniqueInPlace n1 s

theorem c14_trans_UniqueByKeyInPlace (n1 : Bool) (s : List Int) (key : Int → Int) :
    Golib.Gen.Trans.C14.UniqueByKeyInPlace s key = resOfOption ((uniqueByKeyInPlace key n1 s).map ipProj) :=
  trans_uniqueByKeyInPlace n1 s key

/-- Non-vacuity: swaps that move elements; the argument afterwards is a permutation with the result in front. -/
example : Golib.Gen.Trans.C14.DiffInPlaceFirst ([2, 3, 1, 4] : List Int) [2, 1] = .ok ([3, 4], [3, 4, 1, 2]) ∧
    Golib.Gen.Trans.C14.IntersectInPlaceFirst ([3, 2, 4, 1] : List Int) [2, 1] = .ok ([2, 1], [2, 1, 4, 3]) ∧
    Golib.Gen.Trans.C14.UniqueInPlace ([3, 3, 1, 3, 2] : List Int) = .ok ([3, 1, 2], [3, 1, 2, 3, 3]) ∧
    Golib.Gen.Trans.C14.UniqueByKeyInPlace ([3, 1, 4, 2] : List Int) (fun v => v % 2) = .ok ([3, 4], [3, 4, 1, 2]) := by
  refine ⟨?_, ?_, ?_, ?_⟩ <;> decide +kernel

end Golib.C14
