/-
C12 — SafeKV is data-race free and every operation is atomic.  ONLY property theorems
and non-vacuity examples live here; helper lemmas are in `Golib/Proof/C12*.lean`.
-/
import Golib.Proof.C12Race
import Golib.Model.C12KV
import Golib.Gen.FactsC12

namespace Golib.C12

/-- THE TIE (regenerated on every run): every method body extracted from the current
source obeys the lock discipline and has a single critical section. -/
theorem c12_facts_wellLocked :
    Gen.C12.extractorOK = true ∧ ∀ m ∈ Gen.C12.methods, bodyOK m.2 = true := by decide

/-- The hand-written bodies of `C12KV` have exactly the extracted event lists, and no
extracted method is missing from the model. -/
theorem c12_model_matches_facts :
    (∀ p ∈ modelEvents, Gen.C12.methods.lookup p.1 = some p.2) ∧
    Gen.C12.methods.length = modelEvents.length := by decide

/-- `c12_wellLocked_raceFree`: goroutines (any number) each executing any sequence of
well-locked bodies under RWMutex semantics: in NO reachable configuration are two
goroutines about to perform conflicting accesses (two accesses to the map, at least one
of them writing).  All schedules, all shared/local state types. -/
theorem c12_wellLocked_raceFree {σ μ : Type} (s₀ : σ) (calls : Nat → List (List (Act σ μ)))
    (init : Nat → μ) (h : ∀ t, ∀ b ∈ calls t, wellLocked (evs b) = true)
    (c : Conf σ μ) (hr : Reach (Conf.init s₀ (fun t => (calls t).flatten) init) c) : ¬ Race c := by
  refine ((LockInv.init s₀ _ init fun t => ?_).reach hr).no_race
  have : evs (calls t).flatten = ((calls t).map evs).flatten := by
    show List.map _ _ = _
    rw [List.map_flatten]; rfl
  rw [this]
  exact wellLocked_flatten _ (by
    intro b hb
    obtain ⟨b', hb', rfl⟩ := List.mem_map.1 hb
    exact h t b' hb')

/-- Every modelled SafeKV body (these are the extracted ones, by
`c12_model_matches_facts`) is well locked with a single critical section. -/
theorem c12_bodies_ok (c : Call) : bodyOK (evs (body c)) = true := by
  cases c <;> rfl

/-- SafeKV instance: any goroutines running any sequences of SafeKV calls never race. -/
theorem c12_safekv_raceFree (s₀ : KV) (calls : Nat → List Call) (init : Nat → Loc)
    (c : Conf KV Loc)
    (hr : Reach (Conf.init s₀ (fun t => ((calls t).map body).flatten) init) c) : ¬ Race c := by
  refine c12_wellLocked_raceFree s₀ (fun t => (calls t).map body) init ?_ c hr
  intro t b hb
  obtain ⟨cl, _, rfl⟩ := List.mem_map.1 hb
  have := c12_bodies_ok cl
  simp only [bodyOK, Bool.and_eq_true] at this
  exact this.1

/-- Non-vacuity: the hypothesis is met by concrete bodies, e.g. `SetNx` and `Keys`. -/
example : wellLocked (evs (body (.setNx 1 2))) = true ∧ wellLocked (evs (body .keys)) = true :=
  ⟨rfl, rfl⟩

end Golib.C12
