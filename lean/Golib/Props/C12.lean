/-
C12 — SafeKV is data-race free and every operation is atomic.  ONLY property theorems
and non-vacuity examples live here; helper lemmas are in `Golib/Proof/C12*.lean`.
-/
import Golib.Proof.C12Atomic
import Golib.Proof.C12KVSpec
import Golib.Proof.C12Expand
import Golib.Proof.C12Order
import Golib.Model.C12PKV
import Golib.Proof.C12ProgramsKV
import Golib.Proof.C12DynamicKV
import Golib.Gen.FactsC12

namespace Golib.C12

/-- THE TIE (regenerated on every run): every method body extracted from the current
source obeys the lock discipline and has a single critical section. -/
theorem c12_facts_wellLocked :
    Gen.C12.extractorOK = true ∧ ∀ m ∈ Gen.C12.methods, bodyOK m.2 = true := by decide

/-- The hand-written bodies of `C12KV` have exactly the extracted event lists, and no
extracted method is missing from the model. -/
theorem c12_model_matches_facts :
    (∀ p ∈ modelEvents, Gen.C12.methods.lookup p.1 = some p.2) ∧
    Gen.C12.methods.length = modelEvents.length := by decide

/-- `c12_wellLocked_raceFree`: goroutines (any number) each executing any sequence of
well-locked bodies under RWMutex semantics: in NO reachable configuration are two
goroutines about to perform conflicting accesses (two accesses to the map, at least one
of them writing).  All schedules, all shared/local state types. -/
theorem c12_wellLocked_raceFree {σ μ : Type} (s₀ : σ) (calls : Nat → List (List (Act σ μ)))
    (init : Nat → μ) (h : ∀ t, ∀ b ∈ calls t, wellLocked (evs b) = true)
    (c : Conf σ μ) (hr : Reach (Conf.init s₀ (fun t => (calls t).flatten) init) c) : ¬ Race c := by
  refine ((LockInv.init s₀ _ init fun t => ?_).reach hr).no_race
  have : evs (calls t).flatten = ((calls t).map evs).flatten := by
    show List.map _ _ = _
    rw [List.map_flatten]; rfl
  rw [this]
  exact wellLocked_flatten _ (by
    intro b hb
    obtain ⟨b', hb', rfl⟩ := List.mem_map.1 hb
    exact h t b' hb')

/-- Every modelled SafeKV body (these are the extracted ones, by
`c12_model_matches_facts`) is well locked with a single critical section. -/
theorem c12_bodies_ok (c : Call) : bodyOK (evs (body c)) = true := by
  cases c <;> rfl

/-- SafeKV instance: any goroutines running any sequences of SafeKV calls never race. -/
theorem c12_safekv_raceFree (s₀ : KV) (calls : Nat → List Call) (init : Nat → Loc)
    (c : Conf KV Loc)
    (hr : Reach (Conf.init s₀ (fun t => ((calls t).map body).flatten) init) c) : ¬ Race c := by
  refine c12_wellLocked_raceFree s₀ (fun t => (calls t).map body) init ?_ c hr
  intro t b hb
  obtain ⟨cl, _, rfl⟩ := List.mem_map.1 hb
  have := c12_bodies_ok cl
  simp only [bodyOK, Bool.and_eq_true] at this
  exact this.1

/-- Loops and branches: the extractor lists a loop / branch body once; a real execution
is an EXPANSION (`Expands`: lock events as listed, between them any sequence of the
non-lock events of that segment).  Every expansion of a body passing the obligation
passes it, so `c12_wellLocked_raceFree` and `c12_atomic` cover the executions with
any number of loop iterations and any branch outcomes. -/
theorem c12_expansion_ok (b a : List Ev) (hx : Expands b a) (h : bodyOK b = true) :
    bodyOK a = true := hx.bodyOK h

/-- Non-vacuity: `Range` with its loop body (`read` of the next entry, `callFn`)
executed twice is an expansion of the extracted `[rlock, read, callFn, runlock]`. -/
example : Expands [.rlock, .read, .callFn, .runlock]
    [.rlock, .read, .callFn, .read, .callFn, .runlock] := by
  refine Expands.cross (seg := []) (by simp) rfl ?_
  have hs : ∀ x ∈ [Ev.read, Ev.callFn], x.isLockEv = false := by
    intro x hx; simp at hx; rcases hx with rfl | rfl <;> rfl
  refine Expands.acc (seg := [.read, .callFn]) hs (by simp) ?_
  refine Expands.acc (seg := [.read, .callFn]) hs (by simp) ?_
  refine Expands.acc (seg := [.read, .callFn]) hs (by simp) ?_
  refine Expands.acc (seg := [.read, .callFn]) hs (by simp) ?_
  exact Expands.cross (seg := [.read, .callFn]) hs rfl (Expands.done (by simp))

/-- `c12_no_interference`: while a goroutine holds the lock in either mode, no step of
any OTHER goroutine changes the shared state (well-locked bodies, every reachable
configuration, every schedule). -/
theorem c12_no_interference {σ μ : Type} (s₀ : σ) (prog : Nat → List (Act σ μ)) (init : Nat → μ)
    (h : ∀ t, wellLocked (evs (prog t)) = true)
    (c : Conf σ μ) (hr : Reach (Conf.init s₀ prog init) c)
    (t : Nat) (a : Act σ μ) (as : List (Act σ μ)) (hrest : (c.th t).rest = a :: as)
    (u : Nat) (hut : u ≠ t) (hu : (c.th u).mode ≠ .free) :
    (c.after t a as).sh = c.sh := by
  have hi := (LockInv.init s₀ prog init h).reach hr
  show (a.apply c.sh (c.th t).loc).1 = c.sh
  cases hw : a.ev.writes
  · exact apply_fst_of_not_writes a _ _ hw
  · exfalso
    have hacc : a.ev.isAccess = true := by
      cases he : a.ev <;> simp_all [Ev.writes, Ev.isAccess]
    exact hu (hi.excl t u (Ne.symm hut) ((hi.access_mode hrest hacc).2 hw))

/-- `c12_atomic`: goroutine `t` executes the call `prog t` (any body that is well locked
with one critical section) from local state `init t`.  In EVERY reachable configuration
of EVERY schedule, with `c.order` = the goroutines in the order in which they entered
their critical section and `q` = the SEQUENTIAL execution of those calls in that order
(each call one uninterrupted function, `seqExec`):
* whenever no goroutine is inside a write section, the shared state IS `q`'s state;
* every call that has finished returned exactly what it returns in `q`;
* nobody enters twice; a finished call that never entered is a pure local computation. -/
theorem c12_atomic {σ μ : Type} (s₀ : σ) (prog : Nat → List (Act σ μ)) (init : Nat → μ)
    (h : ∀ t, bodyOK (evs (prog t)) = true)
    (c : Conf σ μ) (hr : Reach (Conf.init s₀ prog init) c) :
    c.order.Nodup ∧
    ((∀ t, (c.th t).mode ≠ .w) → c.sh = (seqExec prog init c.order s₀).1) ∧
    (∀ t ∈ c.order, (c.th t).rest = [] →
        List.lookup t (seqExec prog init c.order s₀).2 = some (c.th t).loc) ∧
    (∀ t, t ∉ c.order → (c.th t).rest = [] →
        ∀ s, runActs (prog t) s (init t) = (s, (c.th t).loc)) := by
  have hi := AInv.reach prog init s₀ h hr
  refine ⟨hi.nodup, hi.shFree, fun t ht hdone => ?_, fun t ht hdone s => ?_⟩
  · have := (hi.post t ht).2
    rwa [hdone] at this
  · have := (hi.pre t ht).2.2 s
    rw [hdone] at this
    exact this.symm

/-- `c12_realtime_order` (what turns the serialisation of `c12_atomic` into
LINEARIZABILITY): the witness order respects real time.  If in some reachable
configuration `c₁` the call of goroutine `t` has already entered its critical section
(in particular: if it has finished) and the call of `u` has not yet entered, then in
every later configuration `c₂` the sequential history of `c12_atomic` lists `t` before
`u`: `c₂.order = c₁.order ++ post` with `t` in the first part and `u` only in `post`.
Consequence for a goroutine that issues several calls one after the other (each call
starts after the previous one returned): they are calls of the one-call machine that are
ordered in real time, so the sequential history keeps their program order. -/
theorem c12_realtime_order {σ μ : Type} (s₀ : σ) (prog : Nat → List (Act σ μ)) (init : Nat → μ)
    (h : ∀ t, bodyOK (evs (prog t)) = true)
    (c₁ c₂ : Conf σ μ) (hr₁ : Reach (Conf.init s₀ prog init) c₁) (hr₂ : Reach c₁ c₂)
    (t u : Nat) (ht : t ∈ c₁.order) (hu : u ∉ c₁.order) (hu₂ : u ∈ c₂.order) :
    c₂.order.Nodup ∧ ∃ post, c₂.order = c₁.order ++ post ∧ t ∈ c₁.order ∧ u ∈ post ∧ u ∉ c₁.order := by
  obtain ⟨post, hpost⟩ := hr₂.order_prefix
  refine ⟨(c12_atomic s₀ prog init h c₂ (hr₁.trans hr₂)).1, post, hpost.symm, ht, ?_, hu⟩
  rw [← hpost] at hu₂
  rcases List.mem_append.1 hu₂ with h' | h'
  · exact absurd h' hu
  · exact h'

/-- Non-vacuity of `c12_realtime_order`: goroutine 0 runs `Set(1,5)` to completion, then
goroutine 1 enters `Get(1)`: the order is `[0, 1]` and goroutine 1 reads 5. -/
example : ∃ c₁ c₂ : Conf KV Loc,
    Reach (Conf.init [] (fun t => if t = 0 then body (.set 1 5) else body (.get 1)) (fun _ => {})) c₁ ∧
    Reach c₁ c₂ ∧ (c₁.th 0).rest = [] ∧ c₁.order = [0] ∧ c₂.order = [0, 1] ∧ (c₂.th 1).loc.val = 5 := by
  let w : A := wr (fun s l => (s.set 1 5, l))
  let c₀ : Conf KV Loc :=
    Conf.init [] (fun t => if t = 0 then body (.set 1 5) else body (.get 1)) (fun _ => {})
  let d₁ := c₀.after 0 aLock [w, aUnlock]
  let d₂ := d₁.after 0 w [aUnlock]
  let d₃ := d₂.after 0 aUnlock []
  let d₄ := d₃.after 1 aRLock [rdLookup 1, aRUnlock]
  let d₅ := d₄.after 1 (rdLookup 1) [aRUnlock]
  have s1 : Step c₀ d₁ := Step.mk c₀ 0 aLock [w, aUnlock] rfl (fun _ => rfl)
  have s2 : Step d₁ d₂ := Step.mk d₁ 0 w [aUnlock] rfl trivial
  have s3 : Step d₂ d₃ := Step.mk d₂ 0 aUnlock [] rfl trivial
  have s4 : Step d₃ d₄ := Step.mk d₃ 1 aRLock [rdLookup 1, aRUnlock] rfl (by
    intro u
    by_cases hu : u = 0 <;> simp [d₃, d₂, d₁, c₀, Conf.after, upd, hu, Mode.next, aUnlock, aLock, w, wr, Conf.init])
  have s5 : Step d₄ d₅ := Step.mk d₄ 1 (rdLookup 1) [aRUnlock] rfl trivial
  exact ⟨d₃, d₅, Reach.step (Reach.step (Reach.step Reach.refl s1) s2) s3,
    Reach.step (Reach.step Reach.refl s4) s5, rfl, rfl, rfl, rfl⟩

/-- `c12_atomic_programs` (atomicity for SEQUENCES of calls per goroutine): goroutine `t`
executes the program `calls t` — a list of call bodies, each well locked with exactly one
critical section (`CallOK`); the actions are functions of the goroutine-local state, so the
arguments of a later call may depend on the results of earlier ones.  In EVERY reachable
configuration of EVERY schedule, with `c.order` = the goroutine ids in the order in which
critical sections were entered and `Q` = the SEQUENTIAL history that performs, for each entry
of `t` in that order, `t`'s NEXT call as one uninterrupted function (`seqExecP`):
* program order: `Q` has performed exactly `count t c.order` calls of `t`, in the order of
  its program, and never more than the program has;
* whenever no goroutine is inside a write section, the shared state IS `Q`'s state;
* a goroutine that has finished has performed all its calls and its local state (all its
  results) is exactly the one it has in `Q`. -/
theorem c12_atomic_programs {σ μ : Type} (s₀ : σ) (calls : Nat → List (List (Act σ μ)))
    (init : Nat → μ) (h : ∀ t, ∀ b ∈ calls t, CallOK b)
    (c : Conf σ μ) (hr : Reach (Conf.init s₀ (fun t => (calls t).flatten) init) c) :
    (∀ t, (seqExecP calls init s₀ c.order).idx t = c.order.count t ∧
          c.order.count t ≤ (calls t).length) ∧
    ((∀ t, (c.th t).mode ≠ .w) → c.sh = (seqExecP calls init s₀ c.order).sh) ∧
    (∀ t, (c.th t).rest = [] →
        c.order.count t = (calls t).length ∧
        (seqExecP calls init s₀ c.order).loc t = (c.th t).loc) := by
  have hi := PInv.reach calls init s₀ h hr
  refine ⟨fun t => ⟨seqExecP_idx calls init s₀ c.order t, ?_⟩, hi.shFree, fun t hdone => ?_⟩
  · rw [← seqExecP_idx calls init s₀ c.order t]
    obtain ⟨_, _, hc⟩ := hi.thr t
    rcases hc with ⟨_, _, _, hlt, _⟩ | ⟨_, _, hle, _, _⟩
    · exact Nat.le_of_lt hlt
    · exact hle
  · have := (hi.thr t).finished calls h hdone
    rw [← seqExecP_idx calls init s₀ c.order t]
    exact this

/-- `c12_realtime_order_programs` (`c12_realtime_order` lifted to programs): the entry log
only grows.  If in a reachable configuration `c₁` the `j`-th call of `t` has already entered
its section (in particular: has returned) and the `i`-th call of `u` has not, then in every
later configuration `c₂` the `j`-th entry of `t` lies in the prefix `c₁.order` and the `i`-th
entry of `u` behind it: the sequential history of `c12_atomic_programs` performs a call that
returned before another one was invoked BEFORE that other one — the histories are
linearizable, not merely serializable. -/
theorem c12_realtime_order_programs {σ μ : Type} (c₀ c₁ c₂ : Conf σ μ) (_hr₁ : Reach c₀ c₁)
    (hr₂ : Reach c₁ c₂) (t u j i : Nat) (ht : j ≤ c₁.order.count t) (hu : c₁.order.count u < i)
    (hu₂ : i ≤ c₂.order.count u) :
    ∃ post, c₂.order = c₁.order ++ post ∧ j ≤ c₁.order.count t ∧
      c₁.order.count u < i ∧ i ≤ c₁.order.count u + post.count u := by
  obtain ⟨post, hpost⟩ := hr₂.order_prefix
  refine ⟨post, hpost.symm, ht, hu, ?_⟩
  rw [← hpost, List.count_append] at hu₂
  exact hu₂

/-- SafeKV instance of `c12_atomic_programs`: goroutine `t` performs the SafeKV calls
`calls t` one after the other (`pbody`: the modelled = extracted body of the method, preceded
by loading the call's own initial local state and followed by recording its result). -/
theorem c12_safekv_programs (s₀ : KV) (calls : Nat → List Call) (init : Nat → PLoc)
    (c : Conf KV PLoc)
    (hr : Reach (Conf.init s₀ (fun t => ((calls t).map pbody).flatten) init) c) :
    (∀ t, (seqExecP (fun t => (calls t).map pbody) init s₀ c.order).idx t = c.order.count t ∧
          c.order.count t ≤ (calls t).length) ∧
    ((∀ t, (c.th t).mode ≠ .w) →
        c.sh = (seqExecP (fun t => (calls t).map pbody) init s₀ c.order).sh) ∧
    (∀ t, (c.th t).rest = [] → c.order.count t = (calls t).length ∧
        (seqExecP (fun t => (calls t).map pbody) init s₀ c.order).loc t = (c.th t).loc) := by
  have := c12_atomic_programs s₀ (fun t => (calls t).map pbody) init (fun t b hb => by
    obtain ⟨cl, _, rfl⟩ := List.mem_map.1 hb
    exact pbody_callOK cl) c hr
  simpa using this

/-- One step of that sequential history IS the per-method function: the `i`-th call `cl` of
`t` maps the current map `s` to `(seqCall cl s).1` and records `(seqCall cl s).2` as its
result.  So every clause of `c12_body_spec` (Get/Set/SetNx/SetX/Delete/Has/Len as plain-map
functions; Keys/Values/Range/All/GetWithMap/Map = one snapshot of the whole map at the
call's entry) holds verbatim for every call of every program in every concurrent execution. -/
theorem c12_programs_step_is_seqCall (calls : Nat → List Call) (q : SeqSt KV PLoc) (t : Nat)
    (cl : Call) (hc : (calls t)[q.idx t]? = some cl) :
    seqStepP (fun t => (calls t).map pbody) q t =
      { sh := (seqCall cl q.sh).1
        loc := upd q.loc t ((seqCall cl q.sh).2, (seqCall cl q.sh).2 :: (q.loc t).2)
        idx := upd q.idx t (q.idx t + 1) } :=
  seqStepP_safekv calls q t cl hc

/-- Corollary for programs (`SetX` never creates a key): goroutines whose programs consist of
`SetX` calls only (any keys, any values, any number): a key absent at the start is absent
in every reachable configuration in which no write section is open. -/
theorem c12_programs_setx_never_creates (s₀ : KV) (calls : Nat → List Call) (init : Nat → PLoc)
    (hx : ∀ t, ∀ cl ∈ calls t, ∃ k' v, cl = Call.setX k' v) (k : Int) (hk : s₀.get k = none)
    (c : Conf KV PLoc)
    (hr : Reach (Conf.init s₀ (fun t => ((calls t).map pbody).flatten) init) c)
    (hfree : ∀ t, (c.th t).mode ≠ .w) : c.sh.get k = none := by
  rw [(c12_safekv_programs s₀ calls init c hr).2.1 hfree]
  exact foldl_setX_absent calls hx k c.order ⟨s₀, init, fun _ => 0⟩ hk

/-- Corollary for programs (one winner among concurrent `SetNx` on an absent key): any
number of goroutines, each performing any number of `SetNx(k, ·)` calls, on a map without
`k`.  In every reachable configuration a goroutine that has finished has won (`SetNx`
answered `true`) exactly once if it made the FIRST entry of all, and never otherwise:
exactly one call wins, whatever the schedule. -/
theorem c12_programs_setnx_one_winner (s₀ : KV) (k : Int) (hk : s₀.get k = none)
    (calls : Nat → List Call) (hx : ∀ t, ∀ cl ∈ calls t, ∃ v, cl = Call.setNx k v)
    (init : Nat → PLoc) (hinit : ∀ t, (init t).2 = [])
    (c : Conf KV PLoc)
    (hr : Reach (Conf.init s₀ (fun t => ((calls t).map pbody).flatten) init) c)
    (t0 : Nat) (o : List Nat) (ho : c.order = t0 :: o) :
    ∀ t, (c.th t).rest = [] → wins (c.th t).loc = if t = t0 then 1 else 0 := by
  intro t hdone
  have hat := c12_safekv_programs s₀ calls init c hr
  have h0 : 0 < (calls t0).length := by
    have := (hat.1 t0).2
    rw [ho, List.count_cons_self] at this
    omega
  rw [← (hat.2.2 t hdone).2, ho]
  have := foldl_setNx_absent calls k hx t0 o ⟨s₀, init, fun _ => 0⟩ hk h0 t
  simp only [seqExecP]
  rw [this]
  simp [wins, hinit t]

/-- Non-vacuity of the program theorems: every SafeKV call is a `CallOK` program body, e.g.
the program `[SetNx(1,5), Get(1), Keys()]`. -/
example : ∀ b ∈ [Call.setNx 1 5, Call.get 1, Call.keys].map pbody, CallOK b := by
  intro b hb
  obtain ⟨cl, _, rfl⟩ := List.mem_map.1 hb
  exact pbody_callOK cl

/-- Non-vacuity (computed): goroutine 0 runs `[SetNx(1,5), Get(1)]`, goroutine 1 runs
`[SetNx(1,7)]`, entry order `[0, 1, 0]`: the sequential history ends with map `{1:5}`,
goroutine 0 won its `SetNx` and then read 5, goroutine 1 lost. -/
example :
    let calls : Nat → List Call := fun t => if t = 0 then [.setNx 1 5, .get 1] else [.setNx 1 7]
    let Q := seqExecP (fun t => (calls t).map pbody) (fun _ => (({} : Loc), [])) [] [0, 1, 0]
    Q.sh = [(1, 5)] ∧ (Q.loc 0).2.map (fun r => (r.val, r.ok)) = [(5, true), (0, false)] ∧
    (Q.loc 1).2.map (fun r => (r.val, r.ok)) = [(5, true)] ∧ Q.idx 0 = 2 := by
  decide

/-- `c12_atomic_dynamic` (programs as DECISION TREES): goroutine `t` chooses its next call by
a function of its local state (`pol t l` = the body of the next call, `none` = stop; every
chosen body well locked with exactly one critical section), so the control flow — which
method comes next, whether there is a next call — may depend on the results of the earlier
calls; `fuel t` bounds the number of calls (depth of the tree).  The machine is the generic
machine plus the silent step `load` (start the chosen call).  In EVERY reachable
configuration of EVERY schedule, with `Q` = the sequential history that performs, for each
critical-section entry of `t` in entry order, the call `pol` chooses from `t`'s SEQUENTIAL
local state:
* whenever no goroutine is inside a write section, the shared state IS `Q`'s state;
* a goroutine between calls (in particular a finished one) has exactly the local state —
  all results, hence all the decisions it took — that it has in `Q`;
* a goroutine never makes more calls than its fuel allows. -/
theorem c12_atomic_dynamic {σ μ : Type} (pol : Policy σ μ) (s₀ : σ) (init : Nat → μ)
    (fuel : Nat → Nat) (hp : ∀ t l b, pol t l = some b → CallOK b)
    (d : DConf σ μ) (hr : DReach pol (DConf.init s₀ init fuel) d) :
    ((∀ t, (d.c.th t).mode ≠ .w) → d.c.sh = (seqExecD pol init s₀ d.c.order).sh) ∧
    (∀ t, (d.c.th t).rest = [] → (seqExecD pol init s₀ d.c.order).loc t = (d.c.th t).loc) ∧
    (∀ t, d.fuel t ≤ fuel t) := by
  have hi := DInv.reach pol init s₀ hp fuel hr
  refine ⟨hi.shFree, fun t hdone => ?_, fun t => hr.fuel_le pol t⟩
  obtain ⟨_, hcase⟩ := hi.thr t
  rw [hdone] at hcase
  rcases hcase with ⟨_, h1, _⟩ | ⟨_, hloc, _⟩
  · exact absurd rfl (oneAcq_ne_nil (by simpa [evs] using h1))
  · simpa [runActs] using hloc

/-- `c12_realtime_order_dynamic`: also for decision-tree programs the entry log only grows —
every entry made before a configuration precedes every entry made after it, so a call that
returned before another was invoked comes first in the sequential history of
`c12_atomic_dynamic` (linearizability). -/
theorem c12_realtime_order_dynamic {σ μ : Type} (pol : Policy σ μ) (d₁ d₂ : DConf σ μ)
    (hr : DReach pol d₁ d₂) (u i : Nat) (hu : d₁.c.order.count u < i)
    (hu₂ : i ≤ d₂.c.order.count u) :
    ∃ post, d₂.c.order = d₁.c.order ++ post ∧ i ≤ d₁.c.order.count u + post.count u ∧
      0 < post.count u := by
  obtain ⟨post, hpost⟩ := hr.order_prefix pol
  refine ⟨post, hpost.symm, ?_, ?_⟩
  · rw [← hpost, List.count_append] at hu₂; exact hu₂
  · rw [← hpost, List.count_append] at hu₂; omega

/-- SafeKV instance of `c12_atomic_dynamic`, with the step of the sequential history spelled
out: the chosen call `cl` maps the current map `s` to `(seqCall cl s).1` and records
`(seqCall cl s).2` — so `c12_body_spec` applies to every call of every decision tree. -/
theorem c12_safekv_dynamic (next : Nat → List Loc → Option Call) (s₀ : KV) (init : Nat → PLoc)
    (fuel : Nat → Nat) (d : DConf KV PLoc)
    (hr : DReach (kvPolicy next) (DConf.init s₀ init fuel) d) :
    ((∀ t, (d.c.th t).mode ≠ .w) →
        d.c.sh = (seqExecD (kvPolicy next) init s₀ d.c.order).sh) ∧
    (∀ t, (d.c.th t).rest = [] →
        (seqExecD (kvPolicy next) init s₀ d.c.order).loc t = (d.c.th t).loc) ∧
    (∀ (q : SeqSt KV PLoc) (t : Nat) (cl : Call), next t (q.loc t).2 = some cl →
        seqStepD (kvPolicy next) q t =
          { sh := (seqCall cl q.sh).1
            loc := upd q.loc t ((seqCall cl q.sh).2, (seqCall cl q.sh).2 :: (q.loc t).2)
            idx := upd q.idx t (q.idx t + 1) }) := by
  have h := c12_atomic_dynamic (kvPolicy next) s₀ init fuel (fun t l b hb => by
    simp only [kvPolicy, Option.map_eq_some_iff] at hb
    obtain ⟨cl, _, rfl⟩ := hb
    exact pbody_callOK cl) d hr
  refine ⟨h.1, h.2.1, fun q t cl hcl => ?_⟩
  simp only [seqStepD, kvPolicy, hcl, Option.map_some, runActs_pbody]

/-- Non-vacuity (computed): every goroutine first calls `SetNx(1, t)`; the one that WON then
calls `Set(2, 9)`, a loser calls `Get(1)` instead (control flow depends on the result).
Entry order `[1, 0, 1, 0]`: goroutine 1 wins and sets key 2, goroutine 0 loses and reads 1. -/
example :
    let next : Nat → List Loc → Option Call := fun t hist =>
      match hist with
      | [] => some (.setNx 1 (Int.ofNat t))
      | [r] => if r.ok then some (.get 1) else some (.set 2 9)
      | _ => none
    let Q := seqExecD (kvPolicy next) (fun _ => (({} : Loc), [])) [] [1, 0, 1, 0]
    Q.sh = [(1, 1), (2, 9)] ∧ (Q.loc 0).2.map (fun r => (r.val, r.ok)) = [(1, true), (1, true)] ∧
    (Q.loc 1).2.length = 2 ∧ Q.idx 0 = 2 := by
  decide

/-- SafeKV instance of `c12_atomic`: any goroutines, each performing any SafeKV call
(the modelled bodies are the extracted ones, `c12_model_matches_facts`). -/
theorem c12_safekv_atomic (s₀ : KV) (calls : Nat → Call) (c : Conf KV Loc)
    (hr : Reach (Conf.init s₀ (fun t => body (calls t)) (fun t => (calls t).init)) c) :
    c.order.Nodup ∧
    ((∀ t, (c.th t).mode ≠ .w) →
        c.sh = (seqExec (fun t => body (calls t)) (fun t => (calls t).init) c.order s₀).1) ∧
    (∀ t ∈ c.order, (c.th t).rest = [] →
        List.lookup t (seqExec (fun t => body (calls t)) (fun t => (calls t).init) c.order s₀).2
          = some (c.th t).loc) := by
  have := c12_atomic s₀ (fun t => body (calls t)) (fun t => (calls t).init)
    (fun t => c12_bodies_ok (calls t)) c hr
  exact ⟨this.1, this.2.1, this.2.2.1⟩

/-- `c12_body_spec`: each body, run uninterrupted, is the plain-map function
(`KV.get` = the finite-map reading; the harness compares the same bodies with the real
SafeKV on every run). -/
theorem c12_body_spec (s : KV) (k v : Int) :
    -- Get / Has / Contains
    (seqCall (.get k) s).1 = s ∧ (seqCall (.get k) s).2.val = (s.get k).getD 0 ∧
      (seqCall (.get k) s).2.ok = (s.get k).isSome ∧
    (seqCall (.has k) s).1 = s ∧ (seqCall (.has k) s).2.ok = (s.get k).isSome ∧
    (seqCall (.contains k) s).2.ok = (s.get k).isSome ∧
    -- Set
    (∀ k', (seqCall (.set k v) s).1.get k' = if k' = k then some v else s.get k') ∧
    -- SetNx: stores iff absent, answers `!ok`
    ((seqCall (.setNx k v) s).2.ok = (s.get k).isSome ∧
      ∀ k', (seqCall (.setNx k v) s).1.get k'
        = if k' = k ∧ s.get k = none then some v else s.get k') ∧
    -- SetX: stores iff present, answers `ok`; never creates a key
    ((seqCall (.setX k v) s).2.ok = (s.get k).isSome ∧
      (s.get k = none → (seqCall (.setX k v) s).1 = s) ∧
      ∀ k', (seqCall (.setX k v) s).1.get k'
        = if k' = k ∧ (s.get k).isSome then some v else s.get k') ∧
    -- Delete
    (∀ ks k', (seqCall (.delete ks) s).1.get k' = if k' ∈ ks then none else s.get k') ∧
    -- Len / Keys / Values / Range / All: one snapshot of the whole map
    (seqCall .len s).2.n = s.length ∧ (seqCall .len s).1 = s ∧
    (seqCall .keys s).2.out = s ∧ (seqCall .keys s).1 = s ∧
    (seqCall .values s).2.out = s ∧ (seqCall .values s).1 = s ∧
    (∀ lim, (seqCall (.range lim) s).2.out = s.take (max lim 1) ∧ (seqCall (.range lim) s).1 = s) ∧
    (∀ lim, (seqCall (.all lim) s).2.out = s.take (max lim 1) ∧ (seqCall (.all lim) s).1 = s) ∧
    -- GetWithMap / Clear / Map
    (∀ m, (seqCall (.getWithMap m) s).2.out = m.map (fillFrom s) ∧ (seqCall (.getWithMap m) s).1 = s) ∧
    (seqCall .clear s).1 = [] ∧
    (∀ g, seqCall (.map g) s = g s {}) := by
  have hsx : ∀ k', (seqCall (.setX k v) s).1.get k'
      = if k' = k ∧ (s.get k).isSome then some v else s.get k' := by
    intro k'
    by_cases h : (s.get k).isSome = true
    · have : (seqCall (.setX k v) s).1 = s.set k v := by
        simp [seqCall, body, runActs, Act.apply, aLock, aUnlock, rdLookup, rd, wr, Call.init, h]
      rw [this, KV.get_set]; simp [h]
    · have hn : s.get k = none := by simpa using h
      rw [seqCall_setX_absent s k v hn]; simp [hn]
  have hsx0 : (seqCall (.setX k v) s).2.ok = (s.get k).isSome := by
    by_cases h : (s.get k).isSome = true <;>
      simp [seqCall, body, runActs, Act.apply, aLock, aUnlock, rdLookup, rd, wr, Call.init, h]
  refine ⟨rfl, rfl, rfl, rfl, rfl, rfl, fun k' => ?_, ⟨?_, fun k' => ?_⟩,
    ⟨hsx0, fun h => by rw [seqCall_setX_absent s k v h], hsx⟩, fun ks k' => ?_,
    rfl, rfl, rfl, rfl, rfl, rfl, fun _ => ⟨rfl, rfl⟩, fun _ => ⟨rfl, rfl⟩, fun _ => ⟨rfl, rfl⟩, rfl,
    fun _ => rfl⟩
  · exact KV.get_set s k v k'
  · rw [seqCall_setNx]
  · rw [seqCall_setNx]
    by_cases h : (s.get k).isSome = true
    · have : s.get k ≠ none := by
        intro hn; rw [hn] at h; cases h
      simp [h, this]
    · have hn : s.get k = none := by simpa using h
      simp [hn, KV.get_set]
  · exact KV.get_foldl_del ks s k'

/-- `c12_seq_handle_current` (iterator handles): `All()` itself performs no event — the
extracted body of `All` is exactly the returned closure `[rlock, read, callFn, runlock]`
(regenerated fact; a read of `s.entries` at the time `All()` is CALLED would be an extra
event and fail `c12_model_matches_facts`).  Hence a `Seq2` obtained earlier carries no
state: ranging it — once, twice, after `Clear`/`Set`/`Map` — is the call `.all lim` on the
CURRENT map: it yields `s.take (max lim 1)` of the map `s` at ranging time and leaves it
unchanged. -/
theorem c12_seq_handle_current :
    Gen.C12.methods.lookup "All" = some [.rlock, .read, .callFn, .runlock] ∧
    ∀ (s : KV) (lim : Nat),
      (seqCall (.all lim) s).2.out = s.take (max lim 1) ∧ (seqCall (.all lim) s).1 = s :=
  ⟨by decide, fun _ _ => ⟨rfl, rfl⟩⟩

/-- `c12_clear_empties` (every key type, also those whose `==` is not reflexive): as
extracted, `Clear` REPLACES the map (`s.entries = make(…)`, event `replace` — an in-place
`for k := range m { delete(m, k) }` would be a `write` and fail `c12_model_matches_facts`);
the replaced map is empty whatever the key type `K` and whatever relation `eqv` plays the
role of `==` (no law assumed — in particular entries under a NaN key, which no `delete`
can find, are gone): `Len() = 0`, no key is found, nothing is enumerated.  Same statement
for the machine model of the body (`seqCall .clear`). -/
theorem c12_clear_empties :
    Gen.C12.methods.lookup "Clear" = some [.lock, .read, .replace, .unlock] ∧
    (∀ (K : Type) (eqv : K → K → Bool) (m : P.PKV K),
        (P.pclear m).length = 0 ∧ ∀ k, P.pget eqv (P.pclear m) k = none) ∧
    (∀ s : KV, (seqCall .clear s).1 = [] ∧ (seqCall .len (seqCall .clear s).1).2.n = 0) :=
  ⟨by decide, fun _ _ _ => ⟨rfl, fun _ => rfl⟩, fun _ => ⟨rfl, rfl⟩⟩

/-- `c12_nan_key` (what the clauses of C12 mean for a key that is not equal to itself — Go
map semantics, inherited statement by statement): for every map `m` and every key `k` with
`k ≠ k` under the key type's `==` and related to nothing else (NaN): `Get`/`Has` never
find it, `Set` inserts a NEW entry every time (`Len` grows by one), `Delete` removes
nothing, and `Clear` still removes every entry.  `SetNx` therefore always stores and
`SetX` never does. -/
theorem c12_nan_key {K : Type} (eqv : K → K → Bool) (m : P.PKV K) (k : K) (v : Int)
    (hk : ∀ k', eqv k' k = false) :
    P.pget eqv m k = none ∧
    P.pset eqv m k v = m ++ [(k, v)] ∧ (P.pset eqv m k v).length = m.length + 1 ∧
    P.pget eqv (P.pset eqv m k v) k = none ∧
    P.pdel eqv m k = m ∧
    P.pclear (P.pset eqv m k v) = [] := by
  have hget : ∀ m' : P.PKV K, P.pget eqv m' k = none := by
    intro m'
    simp [P.pget, hk]
  refine ⟨hget m, ?_, ?_, hget _, ?_, rfl⟩
  · simp [P.pset, hget m]
  · simp [P.pset, hget m]
  · simp [P.pdel, hk]

/-- Non-vacuity: the harness key type (`float64`, `struct{F float64; ID int}`): NaN meets
the hypothesis of `c12_nan_key`; `Set(NaN,1); Set(NaN,2); Set(0,3); Set(0,4)` gives three
entries (the two NaN entries and ONE entry for `+0`/`-0`), `Delete(NaN)` removes nothing,
`Clear` removes all. -/
example :
    let nan : P.FK := { nan := true, x := 0, tag := 0 }
    let zero : P.FK := { nan := false, x := 0, tag := 0 }
    let m := P.pset P.keq (P.pset P.keq (P.pset P.keq (P.pset P.keq [] nan 1) nan 2) zero 3) zero 4
    (∀ k', P.keq k' nan = false) ∧ m.length = 3 ∧ P.pget P.keq m zero = some 4 ∧
    P.pget P.keq m nan = none ∧ (P.pdel P.keq m nan).length = 3 ∧ (P.pclear m).length = 0 := by
  refine ⟨fun k' => by simp [P.keq], ?_⟩
  decide

/-- Corollary (`SetX` never creates a key), sequentially; by `c12_atomic` every
concurrent history is such a sequential history. -/
theorem c12_setx_never_creates (s : KV) (k v : Int) (h : s.get k = none) :
    (seqCall (.setX k v) s).1 = s ∧ (seqCall (.setX k v) s).2.ok = false := by
  rw [seqCall_setX_absent s k v h]; exact ⟨rfl, rfl⟩

/-- Corollary (`|Keys()|` = size of the map at one instant): in every reachable
configuration a finished `Keys()` call returned exactly the content the map has in the
sequential history at the call's critical-section entry — stated sequentially: the
returned list IS the map. -/
theorem c12_keys_snapshot (s : KV) :
    ((seqCall .keys s).2.out.map (·.1)).length = s.length ∧ (seqCall .keys s).2.out = s := by
  exact ⟨by simp [show (seqCall .keys s).2.out = s from rfl], rfl⟩

/-- Corollary (one winner among concurrent `SetNx` on an absent key): any number of
goroutines call `SetNx(k, ·)` concurrently on a map without `k`.  In every reachable
configuration, a finished call returned `true` (`ok = false`) iff it was the first to
enter its critical section — so exactly one of them wins, whatever the schedule. -/
theorem c12_setnx_one_winner (s₀ : KV) (k : Int) (vals : Nat → Int) (hk : s₀.get k = none)
    (c : Conf KV Loc)
    (hr : Reach (Conf.init s₀ (fun t => body (.setNx k (vals t))) (fun _ => {})) c) :
    ∀ t ∈ c.order, (c.th t).rest = [] → ((c.th t).loc.ok = false ↔ c.order.head? = some t) := by
  intro t ht hdone
  have hat := c12_atomic s₀ (fun t => body (.setNx k (vals t))) (fun _ => ({} : Loc))
    (fun t => c12_bodies_ok (.setNx k (vals t))) c hr
  have hl := hat.2.2.1 t ht hdone
  cases ho : c.order with
  | nil => rw [ho] at ht; cases ht
  | cons t0 ts =>
    rw [ho] at hl
    obtain ⟨r, rest, hq, hr0, hrest⟩ := seqExec_setNx_absent k vals t0 ts s₀ hk
    rw [hq, List.lookup_cons] at hl
    by_cases h0 : t = t0
    · subst h0
      simp only [beq_self_eq_true, Option.some.injEq] at hl
      simp [← hl, hr0]
    · have hb : (t == t0) = false := by simpa using h0
      simp only [hb] at hl
      have := hrest _ (mem_of_lookup hl)
      simp only [] at this
      simp [this, List.head?, Ne.symm h0]

/-- Non-vacuity: the hypothesis is met by concrete bodies, e.g. `SetNx` and `Keys`. -/
example : wellLocked (evs (body (.setNx 1 2))) = true ∧ wellLocked (evs (body .keys)) = true :=
  ⟨rfl, rfl⟩

/-- Non-vacuity of `c12_atomic` / `c12_setnx_one_winner`: the hypotheses are met by the
SafeKV bodies, and configurations inside a critical section are reachable: goroutine 0
has entered `SetNx(1, 5)` (it is first in `order`) while every other goroutine still
stands before its `Lock`. -/
example : ∃ c : Conf KV Loc,
    Reach (Conf.init [] (fun t => body (.setNx 1 (Int.ofNat t))) (fun _ => {})) c ∧
    c.order = [0] ∧ (c.th 0).mode = .w ∧ (c.th 1).mode = .free := by
  refine ⟨_, Reach.step Reach.refl
    (Step.mk _ 0 aLock [rdLookup 1, wr (fun s l => if !l.ok then (s.set 1 (Int.ofNat 0), l) else (s, l)), aUnlock]
      rfl (fun _ => rfl)), rfl, rfl, rfl⟩

end Golib.C12
