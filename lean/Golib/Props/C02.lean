/-
C02 — SkipList / SkipListWithCmp behave as an ordered map.
ONLY property theorems and non-vacuity examples; helper lemmas are in `Golib/Proof/C02*.lean`.
-/
import Golib.Model.C02Skip

namespace Golib.C02

/-- The forced-height mapping used by the harness: the word `1 <<< (32-L)` makes
`randomLevel` return `L` (and `0` gives 1). -/
theorem c02_randomLevel_forced : ∀ L, L < 32 → randomLevel (1 <<< (31 - L)) = L + 1 := by
  decide

end Golib.C02
