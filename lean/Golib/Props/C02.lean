/-
C02 — SkipList / SkipListWithCmp behave as an ordered map.
ONLY property theorems and non-vacuity examples; helper lemmas are in `Golib/Proof/C02*.lean`.

Model: `Golib/Model/C02Skip.lean` ("levels as lists", written as the code walks, of the
REPAIRED code — F1).  Specification: `OMap.step` on a key-ascending association list
(`Golib/Proof/C02Refine.lean`, `OMap.set/erase/get/from/between` in `C02Inv.lean`).
`Cfg.lazy = true` is `SkipList` (built-in order as `cmp`), `false` is `SkipListWithCmp`;
`TotalCmp cmp` are the total-order laws of the comparator.  `Good cfg s` = reachable:
`Inv cfg.cmp s` or the untouched zero value of `SkipList`.  Tower heights enter through the
word `r` of `Op.set/setX/setNx` (what the private random source returns); every theorem
quantifies over all of them.
-/
import Golib.Proof.C02Refine
import Golib.Proof.C02Cmp
import Golib.Gen.FactsC02

namespace Golib.C02

variable {K V : Type} [DecidableEq K]

/-- `randomLevel` (bit-level, as coded) always yields a height in `[1, 32]`. -/
theorem c02_randomLevel_range (r : Nat) : 1 ≤ randomLevel r ∧ randomLevel r ≤ 32 :=
  randomLevel_range r

/-- The mapping the harness uses to force a tower height: the source word `1 <<< (32-L)`
gives height `L` (`1 ≤ L ≤ 32`), and `0` gives height 1. -/
theorem c02_randomLevel_forced : (∀ L, L < 32 → randomLevel (1 <<< (31 - L)) = L + 1) ∧ randomLevel 0 = 1 := by
  decide

/-- What the representation invariant says: every level strictly sorted, level `i+1` a
sub-list of level `i`, nothing above `level`, the top level non-empty (or `level = 1`),
`len` = length of level 0, exactly the level-0 nodes carry a value, `1 ≤ level ≤ 32`. -/
theorem c02_inv_content {cmp : K → K → Int} {s : SL K V} (h : Inv cmp s) :
    s.lv.length = 32 ∧
    (∀ (i : Nat) (l : List K), s.lv[i]? = some l → l.Pairwise (fun a b => cmp a b < 0)) ∧
    (∀ (i : Nat) (l l' : List K), s.lv[i]? = some l → s.lv[i + 1]? = some l' → l'.Sublist l) ∧
    (∀ (i : Nat), s.level ≤ i → i < 32 → s.lv[i]? = some []) ∧
    (s.level = 1 ∨ ∃ l, s.lv[s.level - 1]? = some l ∧ l ≠ []) ∧
    (∃ l0, s.lv[0]? = some l0 ∧ s.len = (l0.length : Int) ∧ ∀ k, k ∈ s.vals.map Prod.fst ↔ k ∈ l0) ∧
    1 ≤ s.level ∧ s.level ≤ 32 := by
  obtain ⟨rest, hr⟩ := h.lv_cons
  refine ⟨h.len32, ?_, ?_, h.above, h.top, ⟨chain0 s, by rw [hr]; rfl, h.len, h.vals⟩, h.lvl⟩
  · intro i l hl
    exact h.tower.1 l (List.mem_of_getElem? hl)
  · intro i l l' hl hl'
    obtain ⟨hi, rfl⟩ := List.getElem?_eq_some_iff.mp hl
    obtain ⟨hi', rfl⟩ := List.getElem?_eq_some_iff.mp hl'
    exact (List.pairwise_iff_getElem.mp h.tower.2) i (i + 1) hi hi' (by omega)

/-- The invariant holds after `Init()` and is preserved by every method, for every tower
height; no method panics in a reachable state. -/
theorem c02_inv (cfg : Cfg K V) (hc : TotalCmp cfg.cmp) (hf : cfg.fixed = true) :
    Inv cfg.cmp (SL.init : SL K V) ∧
    ∀ (s : SL K V) (op : Op K V), Good cfg s → ∃ s' out, s.step cfg op = some (s', out) ∧ Good cfg s' := by
  refine ⟨Inv.init cfg.cmp, ?_⟩
  intro s op hg
  obtain ⟨s', out, h1, h2, _, _⟩ := step_sim cfg hc hf hg op
  exact ⟨s', out, h1, h2⟩

/-- The abstraction of a reachable state is a sorted map with unique keys. -/
theorem c02_abstraction_sorted {cmp : K → K → Int} {s : SL K V} (h : Inv cmp s) :
    (toMap s).Pairwise (fun (a b : K × V) => cmp a.1 b.1 < 0) :=
  h.toMap_sorted

/-- Refinement: for every operation sequence (Set, SetNx, SetX, Remove, Clear, Get, GetNode,
node.SetValue, Len, Head, Keys, Values, Range, All, RangeWithStart, RangeWithRange with a
callback that stops after `n` calls), from every reachable state and for every choice of
tower heights, no call panics and the outputs are exactly those of the sorted-map
specification run on the abstraction. -/
theorem c02_refines (cfg : Cfg K V) (hc : TotalCmp cfg.cmp) (hf : cfg.fixed = true)
    (s : SL K V) (hg : Good cfg s) (ops : List (Op K V)) :
    ∃ s' outs, SL.run cfg s ops = some (s', outs) ∧ Good cfg s' ∧
      OMap.run cfg (toMap s) ops = (toMap s', outs) :=
  run_sim cfg hc hf ops hg

/-- Starting points: the zero value of `SkipList` and every `New…`/`Init()` state are
reachable and represent the empty map. -/
theorem c02_initial (cfg : Cfg K V) :
    Good cfg (SL.init : SL K V) ∧ toMap (SL.init : SL K V) = [] ∧
    (cfg.lazy = true → Good cfg (SL.zero : SL K V)) ∧ toMap (SL.zero : SL K V) = [] :=
  ⟨Or.inl (Inv.init cfg.cmp), toMap_init, fun hl => Or.inr ⟨hl, rfl⟩, toMap_zero⟩

/-- The outputs do not depend on the tower heights: two runs of the same calls that differ
only in the words drawn from the random source produce the same outputs. -/
theorem c02_height_independent (cfg : Cfg K V) (hc : TotalCmp cfg.cmp) (hf : cfg.fixed = true)
    (s : SL K V) (hg : Good cfg s) (ops ops' : List (Op K V))
    (hsame : ops.map Op.eraseR = ops'.map Op.eraseR) :
    ∃ s1 s2 outs, SL.run cfg s ops = some (s1, outs) ∧ SL.run cfg s ops' = some (s2, outs) ∧
      toMap s1 = toMap s2 := by
  obtain ⟨s1, o1, h1, _, h1'⟩ := run_sim cfg hc hf ops hg
  obtain ⟨s2, o2, h2, _, h2'⟩ := run_sim cfg hc hf ops' hg
  have : OMap.run cfg (toMap s) ops = OMap.run cfg (toMap s) ops' := by
    rw [← omap_run_eraseR cfg ops, ← omap_run_eraseR cfg ops', hsame]
  rw [h1', h2'] at this
  obtain ⟨e1, e2⟩ := Prod.mk.inj this
  subst e2
  exact ⟨s1, s2, o1, h1, h2, e1⟩

/-- A zero-value `SkipList` behaves as an empty map for every method, before and after
`Clear()`: the call does not panic and answers what the empty map answers. -/
theorem c02_zero_value (cfg : Cfg K V) (hc : TotalCmp cfg.cmp) (hf : cfg.fixed = true)
    (hl : cfg.lazy = true) (op : Op K V) :
    (∃ s' out, (SL.zero : SL K V).step cfg op = some (s', out) ∧ Good cfg s' ∧
      OMap.step cfg [] op = (toMap s', out)) ∧
    (∃ s' out, ((SL.zero : SL K V).clear cfg).step cfg op = some (s', out) ∧ Good cfg s' ∧
      OMap.step cfg [] op = (toMap s', out)) := by
  have hz : Good cfg (SL.zero : SL K V) := Or.inr ⟨hl, rfl⟩
  have hcl : (SL.zero : SL K V).clear cfg = SL.zero := by simp [SL.clear, hf, hl, SL.zero]
  rw [hcl]
  obtain ⟨s', out, h1, h2, h3, _⟩ := step_sim cfg hc hf hz op
  rw [toMap_zero] at h3
  exact ⟨⟨s', out, h1, h2, h3⟩, ⟨s', out, h1, h2, h3⟩⟩

/-- `1 ≤ level ≤ 32` in every initialised state, and a call raises the top level by at
most one (the first insert into a zero value initialises it to 1 first). -/
theorem c02_level_bounds (cfg : Cfg K V) (hc : TotalCmp cfg.cmp) (hf : cfg.fixed = true)
    (s : SL K V) (hg : Good cfg s) (op : Op K V) :
    (Inv cfg.cmp s → 1 ≤ s.level ∧ s.level ≤ 32) ∧
    ∃ s' out, s.step cfg op = some (s', out) ∧ s'.level ≤ max s.level 1 + 1 ∧ s'.level ≤ 32 := by
  refine ⟨fun h => h.lvl, ?_⟩
  obtain ⟨s', out, h1, h2, _, h4⟩ := step_sim cfg hc hf hg op
  refine ⟨s', out, h1, h4, ?_⟩
  rcases h2 with h | ⟨_, rfl⟩
  · exact h.lvl.2
  · simp [SL.zero]

/-- The comparators the harness instantiates the theorems with (built-in order on int and on
strings = bytewise lexicographic, modular-then-value, length-then-bytes, and the reverse of any
total order) satisfy the total-order laws, so the theorems above apply to every driven list. -/
theorem c02_harness_comparators_total :
    TotalCmp cmpInt ∧ TotalCmp cmpBytes ∧ TotalCmp cmpMod3 ∧ TotalCmp cmpLen ∧
    (∀ {K : Type} {cmp : K → K → Int}, TotalCmp cmp → TotalCmp (fun a b => cmp b a)) :=
  ⟨cmpInt_total, cmpBytes_total, cmpMod3_total, cmpLen_total, fun h => h.reverse⟩

/-- What the hand-written model takes from the source text, re-extracted from /repo by go/ast
on every run (`Golib/Gen/FactsC02.lean`): the level constant, the body of `randomLevel`, and
which methods start with the `s.len == 0` guard, the `s.head.next == nil` guard (the F1 repair
of `Clear`; `RangeWithStart` of `SkipList` carries the `len` guard, that of `SkipListWithCmp`
does not) and `lazyInit`. -/
theorem c02_facts :
    Golib.Gen.C02.extractorOK = true ∧ Golib.Gen.C02.maxLevel = maxLevel ∧
    Golib.Gen.C02.lenGuard = ["All", "Head", "Keys", "Range", "RangeWithStart", "Values"] ∧
    Golib.Gen.C02.lenGuardCmp = ["All", "Head", "Keys", "Range", "Values"] ∧
    Golib.Gen.C02.nilGuard = ["Clear"] ∧ Golib.Gen.C02.nilGuardCmp = [] ∧
    Golib.Gen.C02.lazyInit = ["set"] ∧ Golib.Gen.C02.lazyInitCmp = [] ∧
    Golib.Gen.C02.randomLevelBody =
      "{ k := r.Uint64() & zoneMask return ((maxLevel - bits.Len64(k)) & levelMask) + 1 }" := by
  decide

/-! ### non-vacuity -/

/-- The built-in order on `Int` as a comparator. -/
def cmpIntEx (a b : Int) : Int := if a < b then -1 else if a = b then 0 else 1

theorem cmpIntEx_total : TotalCmp cmpIntEx := by
  refine ⟨?_, ?_, ?_⟩ <;> intros <;> simp only [cmpIntEx] at * <;> (repeat' split) <;> omega

def cfgEx : Cfg Int Int := { cmp := cmpIntEx, lazy := true, zeroK := 0, zeroV := 0 }

/-- A run from the zero value that grows to level 3 (words `1<<<29`, `1<<<30` force heights
3 and 2, capped at `level+1`), removes the tallest tower (level shrinks) and enumerates. -/
example :
    (SL.run cfgEx SL.zero
      [.set 5 50 (1 <<< 30), .set 3 30 (1 <<< 29), .set 8 80 (1 <<< 29), .setNx 3 31 0, .remove 8,
       .rangeWithRange 4 9 0]).map
      (fun p => (p.1.lv.take 3, p.1.level, p.1.len, toMap p.1)) =
    some ([[3, 5], [3, 5], [3]], 3, 2, [(3, 30), (5, 50)]) := by
  decide

example : Good cfgEx (SL.zero : SL Int Int) ∧ TotalCmp cfgEx.cmp ∧ cfgEx.fixed = true :=
  ⟨Or.inr ⟨rfl, rfl⟩, cmpIntEx_total, rfl⟩

end Golib.C02
