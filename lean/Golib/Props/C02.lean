/-
C02 — SkipList / SkipListWithCmp behave as an ordered map.
ONLY property theorems and non-vacuity examples; helper lemmas are in `Golib/Proof/C02*.lean`.

Model: `Golib/Model/C02Skip.lean` ("levels as lists", written as the code walks, of the
REPAIRED code — F1).  Specification: `OMap.step` on a key-ascending association list
(`Golib/Proof/C02Refine.lean`, `OMap.set/erase/get/from/between` in `C02Inv.lean`).
`Cfg.lazy = true` is `SkipList` (built-in order as `cmp`), `false` is `SkipListWithCmp`;
`TotalCmp cmp` are the total-order laws of the comparator.  `Good cfg s` = reachable:
`Inv cfg.cmp s` or the untouched zero value of `SkipList`.  Tower heights enter through the
word `r` of `Op.set/setX/setNx` (what the private random source returns); every theorem
quantifies over all of them.

Comparators that identify distinct keys (`SkipListWithCmp` with a case-insensitive or
projection comparator): `WeakCmp cmp` are the weak-order (total-preorder) laws — `cmp a a = 0`,
`0 < cmp a b ↔ cmp b a < 0`, `≤` transitive; `cmp a b = 0` does NOT imply `a = b`.  The
specification is then `OMap.stepW` (`OMap.getW/keyW/setW`): a key addresses the binding whose
STORED key is equivalent to it, a replacing `Set` keeps the stored key, `GetNode` answers the
stored key.  The `…_weak` theorems are the general statements; for a `TotalCmp` comparator
`OMap.stepW = OMap.step` (`c02_weak_agrees`), which is how the `TotalCmp` theorems are proved.
-/
import Golib.Proof.C02Refine
import Golib.Proof.C02Cmp
import Golib.Proof.C02Walk
import Golib.Proof.C02Seq
import Golib.Proof.C02PtrRefine
import Golib.Gen.FactsC02
import Golib.Proof.C02Trans

namespace Golib.C02

variable {K V : Type} [DecidableEq K]

/-- `randomLevel` (bit-level, as coded) always yields a height in `[1, 32]`. -/
theorem c02_randomLevel_range (r : Nat) : 1 ≤ randomLevel r ∧ randomLevel r ≤ 32 :=
  randomLevel_range r

/-- The mapping the harness uses to force a tower height: the source word `1 <<< (32-L)`
gives height `L` (`1 ≤ L ≤ 32`), and `0` gives height 1. -/
theorem c02_randomLevel_forced : (∀ L, L < 32 → randomLevel (1 <<< (31 - L)) = L + 1) ∧ randomLevel 0 = 1 := by
  decide

/-- What the representation invariant says: every level strictly sorted, level `i+1` a
sub-list of level `i`, nothing above `level`, the top level non-empty (or `level = 1`),
`len` = length of level 0, exactly the level-0 nodes carry a value, `1 ≤ level ≤ 32`. -/
theorem c02_inv_content {cmp : K → K → Int} {s : SL K V} (h : Inv cmp s) :
    s.lv.length = 32 ∧
    (∀ (i : Nat) (l : List K), s.lv[i]? = some l → l.Pairwise (fun a b => cmp a b < 0)) ∧
    (∀ (i : Nat) (l l' : List K), s.lv[i]? = some l → s.lv[i + 1]? = some l' → l'.Sublist l) ∧
    (∀ (i : Nat), s.level ≤ i → i < 32 → s.lv[i]? = some []) ∧
    (s.level = 1 ∨ ∃ l, s.lv[s.level - 1]? = some l ∧ l ≠ []) ∧
    (∃ l0, s.lv[0]? = some l0 ∧ s.len = (l0.length : Int) ∧ ∀ k, k ∈ s.vals.map Prod.fst ↔ k ∈ l0) ∧
    1 ≤ s.level ∧ s.level ≤ 32 := by
  obtain ⟨rest, hr⟩ := h.lv_cons
  refine ⟨h.len32, ?_, ?_, h.above, h.top, ⟨chain0 s, by rw [hr]; rfl, h.len, h.vals⟩, h.lvl⟩
  · intro i l hl
    exact h.tower.1 l (List.mem_of_getElem? hl)
  · intro i l l' hl hl'
    obtain ⟨hi, rfl⟩ := List.getElem?_eq_some_iff.mp hl
    obtain ⟨hi', rfl⟩ := List.getElem?_eq_some_iff.mp hl'
    exact (List.pairwise_iff_getElem.mp h.tower.2) i (i + 1) hi hi' (by omega)

/-- The invariant holds after `Init()` and is preserved by every method, for every tower
height; no method panics in a reachable state. -/
theorem c02_inv (cfg : Cfg K V) (hc : TotalCmp cfg.cmp) (hf : cfg.fixed = true) :
    Inv cfg.cmp (SL.init : SL K V) ∧
    ∀ (s : SL K V) (op : Op K V), Good cfg s → ∃ s' out, s.step cfg op = some (s', out) ∧ Good cfg s' := by
  refine ⟨Inv.init cfg.cmp, ?_⟩
  intro s op hg
  obtain ⟨s', out, h1, h2, _, _⟩ := step_sim cfg hc hf hg op
  exact ⟨s', out, h1, h2⟩

/-- The abstraction of a reachable state is a sorted map with unique keys. -/
theorem c02_abstraction_sorted {cmp : K → K → Int} {s : SL K V} (h : Inv cmp s) :
    (toMap s).Pairwise (fun (a b : K × V) => cmp a.1 b.1 < 0) :=
  h.toMap_sorted

/-- Refinement: for every operation sequence (Set, SetNx, SetX, Remove, Clear, Get, GetNode,
node.SetValue, Len, Head, Keys, Values, Range, All, RangeWithStart, RangeWithRange with a
callback that stops after `n` calls), from every reachable state and for every choice of
tower heights, no call panics and the outputs are exactly those of the sorted-map
specification run on the abstraction. -/
theorem c02_refines (cfg : Cfg K V) (hc : TotalCmp cfg.cmp) (hf : cfg.fixed = true)
    (s : SL K V) (hg : Good cfg s) (ops : List (Op K V)) :
    ∃ s' outs, SL.run cfg s ops = some (s', outs) ∧ Good cfg s' ∧
      OMap.run cfg (toMap s) ops = (toMap s', outs) :=
  run_sim cfg hc hf ops hg

/-! ### weak-order comparators (distinct keys may compare equal) -/

/-- A total-order comparator is a weak-order comparator. -/
theorem c02_total_is_weak {cmp : K → K → Int} (hc : TotalCmp cmp) : WeakCmp cmp := hc.toWeak

/-- For a total-order comparator the weak-order specification step is the plain one, on every
association list `m` (sorted or not), so `c02_inv`, `c02_refines`, … are the `TotalCmp`
instances of the `…_weak` theorems below. -/
theorem c02_weak_agrees (cfg : Cfg K V) (hc : TotalCmp cfg.cmp) (m : List (K × V)) (op : Op K V) :
    OMap.stepW cfg m op = OMap.step cfg m op :=
  OMap.stepW_eq_step cfg hc m op

/-- The same for whole runs and for the single spec functions. -/
theorem c02_weak_agrees_run (cfg : Cfg K V) (hc : TotalCmp cfg.cmp) (m : List (K × V)) :
    (∀ ops : List (Op K V), OMap.runW cfg m ops = OMap.run cfg m ops) ∧
    (∀ k, OMap.getW cfg.cmp m k = OMap.get m k) ∧
    (∀ k, OMap.keyW cfg.cmp m k = if (OMap.get m k).isSome then some k else none) ∧
    (∀ k v, OMap.setW cfg.cmp m k v = OMap.set cfg.cmp m k v) :=
  ⟨fun ops => OMap.runW_eq_run cfg hc ops m, OMap.getW_eq_get hc m, OMap.keyW_eq hc m,
   OMap.setW_eq_set hc m⟩

/-- The invariant holds after `Init()` and is preserved by every method, for every tower height
and every weak-order comparator; no method panics in a reachable state. -/
theorem c02_inv_weak (cfg : Cfg K V) (hc : WeakCmp cfg.cmp) (hf : cfg.fixed = true) :
    Inv cfg.cmp (SL.init : SL K V) ∧
    ∀ (s : SL K V) (op : Op K V), Good cfg s → ∃ s' out, s.step cfg op = some (s', out) ∧ Good cfg s' := by
  refine ⟨Inv.init cfg.cmp, ?_⟩
  intro s op hg
  obtain ⟨s', out, h1, h2, _, _⟩ := step_sim_weak cfg hc hf hg op
  exact ⟨s', out, h1, h2⟩

/-- Refinement for a weak-order comparator: for every operation sequence, from every reachable
state and for every choice of tower heights, no call panics and the outputs are exactly those of
the weak-order sorted-map specification (`OMap.stepW`: equivalent keys are one binding, the
stored key survives a replacing `Set`, `GetNode`/`Head` answer stored keys) run on the
abstraction.  The abstraction stays strictly sorted (`c02_abstraction_sorted`), so its keys are
pairwise inequivalent. -/
theorem c02_refines_weak (cfg : Cfg K V) (hc : WeakCmp cfg.cmp) (hf : cfg.fixed = true)
    (s : SL K V) (hg : Good cfg s) (ops : List (Op K V)) :
    ∃ s' outs, SL.run cfg s ops = some (s', outs) ∧ Good cfg s' ∧
      OMap.runW cfg (toMap s) ops = (toMap s', outs) :=
  run_sim_weak cfg hc hf ops hg

/-- One call, weak-order comparator: the step-wise form of `c02_refines_weak`, with the level
bound. -/
theorem c02_step_weak (cfg : Cfg K V) (hc : WeakCmp cfg.cmp) (hf : cfg.fixed = true)
    (s : SL K V) (hg : Good cfg s) (op : Op K V) :
    ∃ s' out, s.step cfg op = some (s', out) ∧ Good cfg s' ∧
      OMap.stepW cfg (toMap s) op = (toMap s', out) ∧ s'.level ≤ max s.level 1 + 1 :=
  step_sim_weak cfg hc hf hg op

/-- The outputs do not depend on the tower heights, for every weak-order comparator. -/
theorem c02_height_independent_weak (cfg : Cfg K V) (hc : WeakCmp cfg.cmp) (hf : cfg.fixed = true)
    (s : SL K V) (hg : Good cfg s) (ops ops' : List (Op K V))
    (hsame : ops.map Op.eraseR = ops'.map Op.eraseR) :
    ∃ s1 s2 outs, SL.run cfg s ops = some (s1, outs) ∧ SL.run cfg s ops' = some (s2, outs) ∧
      toMap s1 = toMap s2 := by
  obtain ⟨s1, o1, h1, _, h1'⟩ := run_sim_weak cfg hc hf ops hg
  obtain ⟨s2, o2, h2, _, h2'⟩ := run_sim_weak cfg hc hf ops' hg
  have : OMap.runW cfg (toMap s) ops = OMap.runW cfg (toMap s) ops' := by
    rw [← omap_runW_eraseR cfg ops, ← omap_runW_eraseR cfg ops', hsame]
  rw [h1', h2'] at this
  obtain ⟨e1, e2⟩ := Prod.mk.inj this
  subst e2
  exact ⟨s1, s2, o1, h1, h2, e1⟩

/-- A zero-value `SkipList` behaves as an empty map for every method, before and after
`Clear()`, for every weak-order comparator. -/
theorem c02_zero_value_weak (cfg : Cfg K V) (hc : WeakCmp cfg.cmp) (hf : cfg.fixed = true)
    (hl : cfg.lazy = true) (op : Op K V) :
    (∃ s' out, (SL.zero : SL K V).step cfg op = some (s', out) ∧ Good cfg s' ∧
      OMap.stepW cfg [] op = (toMap s', out)) ∧
    (∃ s' out, ((SL.zero : SL K V).clear cfg).step cfg op = some (s', out) ∧ Good cfg s' ∧
      OMap.stepW cfg [] op = (toMap s', out)) := by
  have hz : Good cfg (SL.zero : SL K V) := Or.inr ⟨hl, rfl⟩
  have hcl : (SL.zero : SL K V).clear cfg = SL.zero := by simp [SL.clear, hf, hl, SL.zero]
  rw [hcl]
  obtain ⟨s', out, h1, h2, h3, _⟩ := step_sim_weak cfg hc hf hz op
  rw [toMap_zero] at h3
  exact ⟨⟨s', out, h1, h2, h3⟩, ⟨s', out, h1, h2, h3⟩⟩

/-- What the weak-order specification says about equivalent keys, on a sorted map: a key
equivalent to a stored key `n` reads the binding of `n`, `setW` then replaces the value and
keeps `n`; with no equivalent stored key `setW` is the plain insertion. -/
theorem c02_weak_spec_content {cmp : K → K → Int} (hc : WeakCmp cmp) (m : List (K × V)) (k : K) (v : V) :
    (∀ n, OMap.keyW cmp m k = some n → cmp n k = 0 ∧ OMap.setW cmp m k v = OMap.set cmp m n v ∧
      OMap.erase cmp m k = OMap.erase cmp m n) ∧
    (OMap.keyW cmp m k = none → OMap.getW cmp m k = none ∧ OMap.setW cmp m k v = OMap.set cmp m k v) ∧
    ((OMap.keyW cmp m k).isSome = (OMap.getW cmp m k).isSome) := by
  refine ⟨fun n hn => ⟨omap_keyW_some hn, omap_setW_of_some hc hn v, omap_erase_congr hc (omap_keyW_some hn) m⟩,
    fun hn => ⟨?_, omap_setW_of_none hn v⟩, ?_⟩
  · unfold OMap.keyW at hn; unfold OMap.getW
    cases hf : m.find? (fun p => cmp p.1 k == 0) with
    | none => rfl
    | some p => rw [hf] at hn; cases hn
  · unfold OMap.keyW OMap.getW
    cases m.find? (fun p => cmp p.1 k == 0) <;> rfl

/-- Starting points: the zero value of `SkipList` and every `New…`/`Init()` state are
reachable and represent the empty map. -/
theorem c02_initial (cfg : Cfg K V) :
    Good cfg (SL.init : SL K V) ∧ toMap (SL.init : SL K V) = [] ∧
    (cfg.lazy = true → Good cfg (SL.zero : SL K V)) ∧ toMap (SL.zero : SL K V) = [] :=
  ⟨Or.inl (Inv.init cfg.cmp), toMap_init, fun hl => Or.inr ⟨hl, rfl⟩, toMap_zero⟩

/-- The outputs do not depend on the tower heights: two runs of the same calls that differ
only in the words drawn from the random source produce the same outputs. -/
theorem c02_height_independent (cfg : Cfg K V) (hc : TotalCmp cfg.cmp) (hf : cfg.fixed = true)
    (s : SL K V) (hg : Good cfg s) (ops ops' : List (Op K V))
    (hsame : ops.map Op.eraseR = ops'.map Op.eraseR) :
    ∃ s1 s2 outs, SL.run cfg s ops = some (s1, outs) ∧ SL.run cfg s ops' = some (s2, outs) ∧
      toMap s1 = toMap s2 := by
  obtain ⟨s1, o1, h1, _, h1'⟩ := run_sim cfg hc hf ops hg
  obtain ⟨s2, o2, h2, _, h2'⟩ := run_sim cfg hc hf ops' hg
  have : OMap.run cfg (toMap s) ops = OMap.run cfg (toMap s) ops' := by
    rw [← omap_run_eraseR cfg ops, ← omap_run_eraseR cfg ops', hsame]
  rw [h1', h2'] at this
  obtain ⟨e1, e2⟩ := Prod.mk.inj this
  subst e2
  exact ⟨s1, s2, o1, h1, h2, e1⟩

/-- A zero-value `SkipList` behaves as an empty map for every method, before and after
`Clear()`: the call does not panic and answers what the empty map answers. -/
theorem c02_zero_value (cfg : Cfg K V) (hc : TotalCmp cfg.cmp) (hf : cfg.fixed = true)
    (hl : cfg.lazy = true) (op : Op K V) :
    (∃ s' out, (SL.zero : SL K V).step cfg op = some (s', out) ∧ Good cfg s' ∧
      OMap.step cfg [] op = (toMap s', out)) ∧
    (∃ s' out, ((SL.zero : SL K V).clear cfg).step cfg op = some (s', out) ∧ Good cfg s' ∧
      OMap.step cfg [] op = (toMap s', out)) := by
  have hz : Good cfg (SL.zero : SL K V) := Or.inr ⟨hl, rfl⟩
  have hcl : (SL.zero : SL K V).clear cfg = SL.zero := by simp [SL.clear, hf, hl, SL.zero]
  rw [hcl]
  obtain ⟨s', out, h1, h2, h3, _⟩ := step_sim cfg hc hf hz op
  rw [toMap_zero] at h3
  exact ⟨⟨s', out, h1, h2, h3⟩, ⟨s', out, h1, h2, h3⟩⟩

/-- `1 ≤ level ≤ 32` in every initialised state, and a call raises the top level by at
most one (the first insert into a zero value initialises it to 1 first). -/
theorem c02_level_bounds (cfg : Cfg K V) (hc : TotalCmp cfg.cmp) (hf : cfg.fixed = true)
    (s : SL K V) (hg : Good cfg s) (op : Op K V) :
    (Inv cfg.cmp s → 1 ≤ s.level ∧ s.level ≤ 32) ∧
    ∃ s' out, s.step cfg op = some (s', out) ∧ s'.level ≤ max s.level 1 + 1 ∧ s'.level ≤ 32 := by
  refine ⟨fun h => h.lvl, ?_⟩
  obtain ⟨s', out, h1, h2, _, h4⟩ := step_sim cfg hc hf hg op
  refine ⟨s', out, h1, h4, ?_⟩
  rcases h2 with h | ⟨_, rfl⟩
  · exact h.lvl.2
  · simp [SL.zero]

/-- Traversal through node handles (`node.Next()`, `node.Key()`, `node.Value()`), in every
reachable state (`SL.walkNodes/walk/walkFrom`, `none` = panic or more than `Len()` rounds):
(1) `for n := s.Head(); n != nil; n = n.Next()` visits every binding exactly once in ascending
key order (nothing on the untouched zero value); (2) `for n := s.GetNode(k); …` visits nothing
when `k` is absent and otherwise exactly the bindings with key `≥ k`; (3) every node that is
linked at level 0 walks exactly the current bindings with key `≥` its own; (4) handle
stability: a handle `n` obtained from `GetNode` before an arbitrary call `op` still does so
in the state after the call, provided the call has not unlinked it. -/
theorem c02_node_walk (cfg : Cfg K V) (hc : TotalCmp cfg.cmp) (hf : cfg.fixed = true)
    (s : SL K V) (hg : Good cfg s) :
    s.walk = some (toMap s) ∧
    (∀ k, s.walkFrom cfg k =
      some (if (OMap.get (toMap s) k).isSome then OMap.from cfg.cmp (toMap s) k else [])) ∧
    (∀ n, n ∈ chain0 s →
      s.walkNodes (chain0 s).length (some n) = some (OMap.from cfg.cmp (toMap s) n)) ∧
    (∀ k n op s' out, s.getNode cfg k = some (some n) → s.step cfg op = some (s', out) →
      n ∈ chain0 s' →
      s'.walkNodes (chain0 s').length (some n) = some (OMap.from cfg.cmp (toMap s') n)) :=
  ⟨headWalk_spec cfg hc hg, walkFrom_spec cfg hc hf hg, fun _ hn => walkNodes_good cfg hc hg hn,
    fun _ _ op _ _ _ hs hn => walkNodes_after_step cfg hc hf hg op hs hn⟩

/-- `c02_node_walk` for weak-order comparators (`cmp a b = 0` is an equivalence, the list stores
one key per class, `GetNode(k)` answers the STORED equivalent node): (1) the `Head()/Next()`
walk visits every binding exactly once in ascending order; (2) the walk from `GetNode(k)`
visits nothing when no stored key is equivalent to `k` and otherwise exactly the bindings with
key `≥ k` — which are the bindings from the stored equivalent key `OMap.keyW … k` on;
(3) every linked node walks exactly the current bindings with key `≥` its own; (4) handle
stability across an arbitrary call that has not unlinked the node.  `c02_node_walk` is the
special case of a total order (`TotalCmp.toWeak`). -/
theorem c02_node_walk_weak (cfg : Cfg K V) (hc : WeakCmp cfg.cmp) (hf : cfg.fixed = true)
    (s : SL K V) (hg : Good cfg s) :
    s.walk = some (toMap s) ∧
    (∀ k, s.walkFrom cfg k =
        some (if (OMap.getW cfg.cmp (toMap s) k).isSome then OMap.from cfg.cmp (toMap s) k else []) ∧
      s.walkFrom cfg k = some (match OMap.keyW cfg.cmp (toMap s) k with
        | some n => OMap.from cfg.cmp (toMap s) n
        | none => [])) ∧
    (∀ n, n ∈ chain0 s →
      s.walkNodes (chain0 s).length (some n) = some (OMap.from cfg.cmp (toMap s) n)) ∧
    (∀ k n op s' out, s.getNode cfg k = some (some n) → s.step cfg op = some (s', out) →
      n ∈ chain0 s' →
      s'.walkNodes (chain0 s').length (some n) = some (OMap.from cfg.cmp (toMap s') n)) :=
  ⟨headWalk_spec_weak cfg hc hg,
    fun k => ⟨walkFrom_spec_weak cfg hc hf hg k, walkFrom_keyW cfg hc hf hg k⟩,
    fun _ hn => walkNodes_good_weak cfg hc hg hn,
    fun _ _ op _ _ _ hs hn => walkNodes_after_step_weak cfg hc hf hg op hs hn⟩

/-- Held `iter.Seq2` values (`seq := s.All()` kept by the caller).  `All()` returns a closure over
the list OBJECT, so the value has no state of its own (model: `SL.range` on the list as it is when
the loop starts).  Obtain the Seq in any reachable state `s0`, let ANY history `ops` happen (Clear,
Init-equivalent runs, the lazy init of the first Set on a zero value, removals, …), then range it
in whatever way: fully or with an early break (`n`), with a break after `j` and then again, nested
over itself (`j` outer rounds: every inner traversal sees every binding), or through two
alternating `iter.Pull2` cursors (the first stopped after `a` values) — every traversal
enumerates exactly the CURRENT bindings in ascending key order, no call panics, and ranging
changes nothing (all results are functions of `toMap s`, so a second range gives the same). -/
theorem c02_seq_reusable (cfg : Cfg K V) (hc : WeakCmp cfg.cmp) (hf : cfg.fixed = true)
    (s0 : SL K V) (hg : Good cfg s0) (ops : List (Op K V)) (n j a : Nat) :
    ∃ s outs, SL.run cfg s0 ops = some (s, outs) ∧ Good cfg s ∧
      s.range cfg n = some (stopAfter n (toMap s)) ∧
      s.seqTwice cfg j = some (stopAfter j (toMap s), toMap s) ∧
      s.seqNest cfg j = some (stopAfter j (toMap s),
        List.replicate (stopAfter j (toMap s)).length (toMap s).length) ∧
      s.pull2 cfg a = some (stopAfter a (toMap s), toMap s) := by
  obtain ⟨s, outs, h1, h2, _⟩ := run_sim_weak cfg hc hf ops hg
  exact ⟨s, outs, h1, h2, range_eq_weak cfg hc hf h2 n, seqTwice_eq cfg hc hf h2 j,
    seqNest_eq cfg hc hf h2 j, pull2_eq cfg hc hf h2 a⟩

/-- The comparators the harness instantiates the theorems with (built-in order on int and on
strings = bytewise lexicographic, modular-then-value, length-then-bytes, the comparators that
answer with arbitrary magnitudes — `a-b`, `7(a-b)`, `sign·(1+hash)`, byte/length difference —, the
reverse of any total order, and any comparator agreeing in sign with a total order) satisfy the total-order laws, so the theorems above apply to every driven list. -/
theorem c02_harness_comparators_total :
    TotalCmp cmpInt ∧ TotalCmp cmpBytes ∧ TotalCmp cmpMod3 ∧ TotalCmp cmpLen ∧
    TotalCmp cmpDiff ∧ TotalCmp cmpScaled ∧ TotalCmp cmpSgnHash ∧ TotalCmp cmpBytesDiff ∧
    (∀ {K : Type} {cmp : K → K → Int}, TotalCmp cmp → TotalCmp (fun a b => cmp b a)) ∧
    (∀ {K : Type} {cmp cmp' : K → K → Int}, TotalCmp cmp → (∀ a b, cmp' a b < 0 ↔ cmp a b < 0) →
      (∀ a b, 0 < cmp' a b ↔ 0 < cmp a b) → TotalCmp cmp') :=
  ⟨cmpInt_total, cmpBytes_total, cmpMod3_total, cmpLen_total, cmpDiff_total, cmpScaled_total,
    cmpSgnHash_total, cmpBytesDiff_total, fun h => h.reverse, fun h h1 h2 => h.of_sign h1 h2⟩

/-- The key-identifying comparators the harness drives `SkipListWithCmp` with (ints compared by
`k >> 1`, strings by length only, and the reverse of any weak order) satisfy the weak-order laws
— and `cmpHalf` is not a total-order comparator, so the `…_weak` theorems are what covers it. -/
theorem c02_harness_comparators_weak :
    WeakCmp cmpHalf ∧ WeakCmp cmpLenOnly ∧ WeakCmp cmpHalfDiff ∧ ¬ TotalCmp cmpHalf ∧
    (∀ {K : Type} {cmp : K → K → Int}, WeakCmp cmp → WeakCmp (fun a b => cmp b a)) ∧
    -- type matrix: float64 keys under `<`/`==` (the sign of zero is ignored: weak, not total),
    -- struct keys (lexicographic: total; first field only: weak), case-insensitive strings (weak)
    WeakCmp cmpF64 ∧ ¬ TotalCmp cmpF64 ∧ TotalCmp cmpPairLex ∧ WeakCmp cmpPairFirst ∧ WeakCmp cmpFold :=
  ⟨cmpHalf_weak, cmpLenOnly_weak, cmpHalfDiff_weak, cmpHalf_not_total, fun h => h.reverse,
    cmpF64_weak, cmpF64_not_total, cmpPairLex_total, cmpPairFirst_weak, cmpFold_weak⟩

/-- What the hand-written model takes from the source text, re-extracted from /repo by go/ast
on every run (`Golib/Gen/FactsC02.lean`): the level constant and the two masks, the body of
`randomLevel`, which methods start with the `s.len == 0` guard, the `s.head.next == nil` guard
(the F1 repair of `Clear`; `RangeWithStart` of `SkipList` carries the `len` guard, that of
`SkipListWithCmp` does not) and `lazyInit`, and `Next()` = `n.next[0]`. -/
theorem c02_facts :
    Golib.Gen.C02.extractorOK = true ∧ Golib.Gen.C02.maxLevel = maxLevel ∧
    Golib.Gen.C02.zoneMask = 2 ^ maxLevel - 1 ∧ Golib.Gen.C02.levelMask = maxLevel - 1 ∧
    Golib.Gen.C02.lenGuard = ["All", "Head", "Keys", "Range", "RangeWithStart", "Values"] ∧
    Golib.Gen.C02.lenGuardCmp = ["All", "Head", "Keys", "Range", "Values"] ∧
    Golib.Gen.C02.nilGuard = ["Clear"] ∧ Golib.Gen.C02.nilGuardCmp = [] ∧
    Golib.Gen.C02.lazyInit = ["set"] ∧ Golib.Gen.C02.lazyInitCmp = [] ∧
    Golib.Gen.C02.randomLevelBody =
      "{ k := r.Uint64() & zoneMask return ((maxLevel - bits.Len64(k)) & levelMask) + 1 }" ∧
    Golib.Gen.C02.nodeNextBody = "{ return n.next[0] }" := by
  decide

/-- `skip_cmp.go` is `skip.go` with the comparator in place of `<`/`==` — checked on the source
text on every run, not assumed: after rewriting `n := s.cmp(a, b); n > 0 / n == 0` to
`a > b / a == b`, `s.cmp(a, b) >= 0` to `a >= b` and mapping the type names, the body of every
search/update/read method of `SkipListWithCmp` and of every node method is IDENTICAL to that of
the `SkipList` method of the same name; `set`, `RangeWithStart` and `Clear` are identical up to
the first statement of the `SkipList` version (`s.lazyInit()`, the `len` guard, the `nil`
guard — exactly what `Cfg.lazy` switches in the model); no method exists on one side only.
(`Range` and `Init` are written differently; they are tied by the differential run only.)
`All` of both types (identical bodies, in the first list) is the body of `SkipListWithCmp.Range`
with `yield` for `f` — the model has one function for `Range` and `All`.
This is why one model with the flag `Cfg.lazy` stands for both files. -/
theorem c02_cmp_file_is_ord_file :
    (["All", "Get", "GetNode", "Head", "Keys", "Len", "RangeWithRange", "Remove", "Set", "SetNx", "SetX",
      "Values", "node.Key", "node.Next", "node.SetValue", "node.Value"].all
        (· ∈ Golib.Gen.C02.cmpSameBody)) = true ∧
    (["Clear", "RangeWithStart", "set"].all
        (· ∈ Golib.Gen.C02.cmpSameBody ++ Golib.Gen.C02.cmpSameModuloFirst)) = true ∧
    (Golib.Gen.C02.cmpDifferent.all (· ∈ ["Init", "Range"])) = true ∧
    Golib.Gen.C02.cmpUnpaired = [] ∧ Golib.Gen.C02.allEqRangeCmp = true := by
  decide

/-! ### non-vacuity -/

/-- The built-in order on `Int` as a comparator. -/
def cmpIntEx (a b : Int) : Int := if a < b then -1 else if a = b then 0 else 1

theorem cmpIntEx_total : TotalCmp cmpIntEx := by
  refine ⟨?_, ?_, ?_⟩ <;> intros <;> simp only [cmpIntEx] at * <;> (repeat' split) <;> omega

def cfgEx : Cfg Int Int := { cmp := cmpIntEx, lazy := true, zeroK := 0, zeroV := 0 }

/-- A run from the zero value that grows to level 3 (words `1<<<29`, `1<<<30` force heights
3 and 2, capped at `level+1`), removes the tallest tower (level shrinks) and enumerates. -/
example :
    (SL.run cfgEx SL.zero
      [.set 5 50 (1 <<< 30), .set 3 30 (1 <<< 29), .set 8 80 (1 <<< 29), .setNx 3 31 0, .remove 8,
       .rangeWithRange 4 9 0]).map
      (fun p => (p.1.lv.take 3, p.1.level, p.1.len, toMap p.1)) =
    some ([[3, 5], [3, 5], [3]], 3, 2, [(3, 30), (5, 50)]) := by
  decide

example : Good cfgEx (SL.zero : SL Int Int) ∧ TotalCmp cfgEx.cmp ∧ cfgEx.fixed = true :=
  ⟨Or.inr ⟨rfl, rfl⟩, cmpIntEx_total, rfl⟩

/-- `SkipListWithCmp[int,int]` with the comparator `k >> 1`: 4 and 5 are the same key. -/
def cfgHalf : Cfg Int Int := { cmp := cmpHalf, lazy := false, zeroK := 0, zeroV := 0 }

/-- `Set(4,40)`, `Set(5,50)`: one binding, stored key 4 kept, value replaced; `GetNode(5)` and
`Get(5)` answer node 4 / 50; `Set(2,20)`, `Remove(3)` removes the binding of 2. -/
example :
    ((SL.run cfgHalf SL.init [.set 4 40 (1 <<< 30), .set 5 50 0]).bind fun p =>
      (p.1.getNode cfgHalf 5).bind fun n => (p.1.get cfgHalf 5).map fun g =>
        (toMap p.1, p.1.len, n, g)) = some ([(4, 50)], 1, some 4, (50, true)) ∧
    (OMap.runW cfgHalf [] [.set 4 40 0, .set 5 50 0]).1 = [(4, 50)] ∧
    OMap.keyW cmpHalf [(4, 50)] 5 = some 4 ∧
    (SL.run cfgHalf SL.init [.set 4 40 0, .set 2 20 (1 <<< 30), .setNx 5 51 0, .remove 3, .setNodeValue 5 55]).map
      (fun p => (toMap p.1, p.1.lv.take 2)) = some ([(4, 55)], [[4], []]) := by
  decide

example : Good cfgHalf (SL.init : SL Int Int) ∧ WeakCmp cfgHalf.cmp ∧ cfgHalf.fixed = true ∧
    ¬ TotalCmp cfgHalf.cmp :=
  ⟨Or.inl (Inv.init _), cmpHalf_weak, rfl, cmpHalf_not_total⟩

/-- `c02_node_walk` on a concrete list with towers of heights 2, 3, 1: the `Head()` walk, the walk
from `GetNode(5)`, from the absent key 4, and the handle of node 5 after `Remove(3)` and `Set(9, …)`. -/
example :
    let res := SL.run cfgEx SL.zero [.set 5 50 (1 <<< 30), .set 3 30 (1 <<< 29), .set 8 80 0]
    res.map (·.1.walk) = some (some [(3, 30), (5, 50), (8, 80)]) ∧
    res.map (·.1.walkFrom cfgEx 5) = some (some [(5, 50), (8, 80)]) ∧
    res.map (·.1.walkFrom cfgEx 4) = some (some []) ∧
    (res.bind fun p => SL.run cfgEx p.1 [.remove 3, .set 9 90 (1 <<< 28)]).map
      (fun q => q.1.walkNodes (chain0 q.1).length (some 5)) = some (some [(5, 50), (8, 80), (9, 90)]) := by
  decide

/-- `c02_node_walk_weak` with the comparator `k >> 1` (4 ~ 5, 8 ~ 9): `Set(5,50)` replaces the value
under the stored key 4; `GetNode(5)` is node 4 and walks everything, `GetNode(8)` is node 9,
`GetNode(7)` is nil; the handle 4 still walks after `Remove(8)` (which unlinks node 9). -/
example :
    let res := SL.run cfgHalf SL.init [.set 4 40 (1 <<< 30), .set 9 90 0, .set 5 50 0]
    res.map (·.1.walk) = some (some [(4, 50), (9, 90)]) ∧
    res.map (·.1.walkFrom cfgHalf 5) = some (some [(4, 50), (9, 90)]) ∧
    res.map (·.1.walkFrom cfgHalf 8) = some (some [(9, 90)]) ∧
    res.map (·.1.walkFrom cfgHalf 7) = some (some []) ∧
    (res.bind fun p => SL.run cfgHalf p.1 [.remove 8, .set 6 60 (1 <<< 29)]).map
      (fun q => q.1.walkNodes (chain0 q.1).length (some 4)) = some (some [(4, 50), (6, 60)]) := by
  decide

/-- `c02_seq_reusable` on a concrete run: a Seq obtained on the zero value, then two Sets, a Clear
and two Sets: ranging twice with a break after 1, nested with 2 outer rounds, two Pull2 cursors. -/
example :
    ((SL.run cfgEx SL.zero [.set 5 50 (1 <<< 30), .set 3 30 0, .clear, .set 8 80 0, .set 2 20 0]).bind
      fun p => p.1.seqTwice cfgEx 1) = some ([(2, 20)], [(2, 20), (8, 80)]) ∧
    ((SL.run cfgEx SL.zero [.set 5 50 (1 <<< 30), .set 3 30 0, .clear, .set 8 80 0, .set 2 20 0]).bind
      fun p => p.1.seqNest cfgEx 2) = some ([(2, 20), (8, 80)], [2, 2]) ∧
    ((SL.run cfgEx SL.zero [.set 5 50 (1 <<< 30), .set 3 30 0, .clear, .set 8 80 0, .set 2 20 0]).bind
      fun p => p.1.pull2 cfgEx 1) = some ([(2, 20)], [(2, 20), (8, 80)]) := by
  refine ⟨by decide, by decide, by decide⟩

/-! ### the pointer-level model (`Golib/Model/C02Ptr.lean`) refines the levels-as-lists model

`PSL` is the heap as the code builds it (nodes with `next []*SkipNode` towers addressed by ids,
pointer reads and writes in the coded order, a Go panic = `none`, inner loops with fuel
`nodes.size + 1`).  `Abs p s` (`Golib/Proof/C02PtrAbs.lean`): there is a key-to-node map `f`
such that for every level `i` following `next[i]` from the head visits exactly the nodes
`f k`, `k ∈ s.lv[i]`, in this order, node `f k` carries key `k` and (on level 0) the value the
list model stores for `k`, and the chain ends with nil; `level`, `len`, `rand != nil`, and
"`head.next` is the nil slice" agree. -/

/-- The pointer model refines the levels-as-lists model, for every weak-order comparator:
(a) the zero value and `Init()` states are related; (b) one call from related, reachable
states: neither model panics, they give the same output, and the successors are related (in
particular whenever the list model answers the pointer model gives that answer);
(c) whole runs commute with the same outputs — hence, with `c02_refines_weak`, the pointer
model refines the sorted-map specification `OMap.runW`; (d) what `Abs` means for the computed
dump: `absLv` (keys along every level chain) is `lv`, the level-0 `(key, val)` pairs are the
abstract map, no level chain repeats a node (no cycle; so the fuel `nodes.size + 1` of the
loops suffices), and a node on the level-`i` chain has a tower higher than `i`. -/
theorem c02_pointer_refines_levels (cfg : Cfg K V) (hc : WeakCmp cfg.cmp) (hf : cfg.fixed = true) :
    (Abs (PSL.zero : PSL K V) (SL.zero : SL K V) ∧ Abs (PSL.init : PSL K V) (SL.init : SL K V)) ∧
    (∀ (p : PSL K V) (s : SL K V) (op : Op K V), Abs p s → Good cfg s →
      (p.step cfg op = none ↔ s.step cfg op = none) ∧
      (∀ s' out, s.step cfg op = some (s', out) → ∃ p', p.step cfg op = some (p', out) ∧ Abs p' s') ∧
      ∃ p' s' out, p.step cfg op = some (p', out) ∧ s.step cfg op = some (s', out) ∧ Abs p' s' ∧
        Good cfg s') ∧
    (∀ (p : PSL K V) (s : SL K V) (ops : List (Op K V)), Abs p s → Good cfg s →
      ∃ p' s' outs, PSL.run cfg p ops = some (p', outs) ∧ SL.run cfg s ops = some (s', outs) ∧
        Abs p' s' ∧ Good cfg s' ∧ OMap.runW cfg (toMap s) ops = (toMap s', outs)) ∧
    (∀ (p : PSL K V) (s : SL K V), Abs p s → Good cfg s →
      p.absLv = s.lv ∧ p.absVals = toMap s ∧ p.level = s.level ∧ p.len = s.len ∧
      (p.head = none ↔ s.lv = []) ∧
      ∀ i l, s.lv[i]? = some l →
        (p.chain i).Nodup ∧ (p.chain i).filterMap p.keyOf = l ∧ (p.chain i).length ≤ p.nodes.size ∧
        ∀ id ∈ p.chain i, ∃ nd, p.nodes[id]? = some nd ∧ i < nd.next.size) := by
  refine ⟨⟨abs_zero, abs_init⟩, ?_, ?_, ?_⟩
  · intro p s op hab hg
    obtain ⟨p', s', out, h1, h2, h3, h4⟩ := step_ptr_total cfg hc hf hab hg op
    refine ⟨by rw [h1, h2]; simp, fun s'' out' h => step_ptr cfg hc hf hab hg op h, p', s', out, h1, h2, h3, h4⟩
  · intro p s ops hab hg
    obtain ⟨p', s', outs, h1, h2, h3, h4⟩ := run_ptr cfg hc hf ops hab hg
    obtain ⟨s'', outs', g1, _, g3⟩ := run_sim_weak cfg hc hf ops hg
    rw [h2] at g1; cases g1
    exact ⟨p', s', outs, h1, h2, h3, h4, g3⟩
  · intro p s hab hg
    exact abs_content cfg hc hab hg

/-- The pointer model from its two starting points refines the weak-order sorted-map
specification directly: no call panics and the outputs are those of `OMap.runW` from the empty map. -/
theorem c02_pointer_refines_map (cfg : Cfg K V) (hc : WeakCmp cfg.cmp) (hf : cfg.fixed = true)
    (ops : List (Op K V)) :
    (∃ p' outs, PSL.run cfg (PSL.init : PSL K V) ops = some (p', outs) ∧
      (OMap.runW cfg [] ops).2 = outs ∧ (OMap.runW cfg [] ops).1 = p'.absVals) ∧
    (cfg.lazy = true → ∃ p' outs, PSL.run cfg (PSL.zero : PSL K V) ops = some (p', outs) ∧
      (OMap.runW cfg [] ops).2 = outs ∧ (OMap.runW cfg [] ops).1 = p'.absVals) := by
  constructor
  · have hg : Good cfg (SL.init : SL K V) := Or.inl (Inv.init cfg.cmp)
    obtain ⟨p', s', outs, h1, h2, h3, h4⟩ := run_ptr cfg hc hf ops abs_init hg
    obtain ⟨s'', outs', g1, _, g3⟩ := run_sim_weak cfg hc hf ops hg
    rw [h2] at g1; cases g1
    rw [toMap_init] at g3
    exact ⟨p', outs, h1, by rw [g3], by rw [g3, (abs_content cfg hc h3 h4).2.1]⟩
  · intro hl
    have hg : Good cfg (SL.zero : SL K V) := Or.inr ⟨hl, rfl⟩
    obtain ⟨p', s', outs, h1, h2, h3, h4⟩ := run_ptr cfg hc hf ops abs_zero hg
    obtain ⟨s'', outs', g1, _, g3⟩ := run_sim_weak cfg hc hf ops hg
    rw [h2] at g1; cases g1
    rw [toMap_zero] at g3
    exact ⟨p', outs, h1, by rw [g3], by rw [g3, (abs_content cfg hc h3 h4).2.1]⟩

/-- Tower heights on the heap: along every run from the zero value or an `Init()` state (and from
every state related by `AbsH`), the pointer model keeps `AbsH` = `Abs` plus "the node of a live
key has `len(next)` = the number of levels its key is linked in"; for the computed dump this
says: a node on the level-0 chain is on the level-`i` chain exactly for `i < len(next)`
(its tower is linked in exactly the levels `0 … len(next)-1`), and `len(next) ≤ 32`. -/
theorem c02_pointer_heights (cfg : Cfg K V) (hc : WeakCmp cfg.cmp) (hf : cfg.fixed = true) :
    AbsH (PSL.zero : PSL K V) (SL.zero : SL K V) ∧ AbsH (PSL.init : PSL K V) (SL.init : SL K V) ∧
    (∀ (p : PSL K V) (s : SL K V) (ops : List (Op K V)), AbsH p s → Good cfg s →
      ∃ p' s' outs, PSL.run cfg p ops = some (p', outs) ∧ SL.run cfg s ops = some (s', outs) ∧
        AbsH p' s' ∧ Good cfg s') ∧
    (∀ (p : PSL K V) (s : SL K V), AbsH p s → Good cfg s →
      Abs p s ∧ ∀ id ∈ p.chain 0, ∃ nd, p.nodes[id]? = some nd ∧ nd.next.size ≤ 32 ∧
        ∀ i, i < 32 → (id ∈ p.chain i ↔ i < nd.next.size)) := by
  refine ⟨absH_zero, absH_init, fun p s ops hab hg => run_ptr_h cfg hc hf ops hab hg, ?_⟩
  intro p s hab hg
  refine ⟨hab.abs, ?_⟩
  rcases hg with hi | ⟨_, rfl⟩
  · exact absH_content cfg hc hab hi
  · obtain ⟨f, ha, _⟩ := hab
    have hh : p.head = none := ha.headNone.mpr rfl
    intro id hid
    simp [PSL.chain, PSL.nextOf, hh, PSL.chainFrom] at hid

/-- The two loop forms of the enumerations agree: the `cur := &s.head; for cur.next[0] != nil`
loop of `SkipList.Range` and the `for e := s.head.next[0]; e != nil; e = e.next[0]` loop of
`SkipListWithCmp.Range` / both `All` give what the list model's `range` gives, on every reachable
state and for every stopping callback — namely the first `stop` bindings of the abstract map. -/
theorem c02_range_loop_forms (cfg : Cfg K V) (hc : WeakCmp cfg.cmp) (hf : cfg.fixed = true)
    (p : PSL K V) (s : SL K V) (hab : Abs p s) (hg : Good cfg s) (stop : Nat) :
    p.rangeCur cfg stop = s.range cfg stop ∧ p.rangeE cfg stop = s.range cfg stop ∧
    s.range cfg stop = some (stopAfter stop (toMap s)) := by
  have hr := range_eq_weak cfg hc hf hg stop
  obtain ⟨f, ha⟩ := hab
  obtain ⟨h1, h2⟩ := ha.range_sim (hg.rdOk hc) cfg stop hr
  exact ⟨by rw [h1, hr], by rw [h2, hr], hr⟩

/-- A small run on the heap: three inserts with towers 2, 3, 1, a replacing `Set`, the removal of
the tallest tower (the level shrinks, node 1 stays as garbage with `next = nil`), one more insert. -/
def opsPtrEx : List (Op Int Int) :=
  [.set 5 50 (1 <<< 30), .set 3 30 (1 <<< 29), .set 8 80 0, .set 5 51 0, .remove 3, .set 4 40 0]

/-- On that run the keys along the pointer chains are the levels of the list model, the
level-0 chain of node ids is `[3, 0, 2]`, and the removed node 1 has lost its tower. -/
example :
    ((PSL.run cfgEx PSL.zero opsPtrEx).map fun r => (r.1.absLv.take 3, r.1.chain 0, r.1.chain 1)) =
      some ([[4, 5, 8], [5], []], [3, 0, 2], [0]) ∧
    ((PSL.run cfgEx PSL.zero opsPtrEx).map fun r => (r.1.level, r.1.len, r.1.absVals)) =
      some (2, 3, [(4, 40), (5, 51), (8, 80)]) ∧
    ((PSL.run cfgEx PSL.zero opsPtrEx).map fun r => r.1.nodes.toList.map (·.next.size)) = some [2, 0, 1, 1] ∧
    ((SL.run cfgEx SL.zero opsPtrEx).map fun r => (r.1.lv.take 3, r.1.level, r.1.len, toMap r.1)) =
      some ([[4, 5, 8], [5], []], 2, 3, [(4, 40), (5, 51), (8, 80)]) := by
  refine ⟨by decide, by decide, by decide, by decide⟩

example : Abs (PSL.zero : PSL Int Int) (SL.zero : SL Int Int) ∧ AbsH (PSL.zero : PSL Int Int) (SL.zero : SL Int Int) ∧
    Good cfgEx (SL.zero : SL Int Int) ∧ WeakCmp cfgEx.cmp ∧ cfgEx.fixed = true :=
  ⟨abs_zero, absH_zero, Or.inr ⟨rfl, rfl⟩, cmpIntEx_total.toWeak, rfl⟩

/-! ### Regenerated tie (wave 8): `listz/skip.go: randomLevel` translated by `go2lean`

`Golib.Gen.Trans.C02.randomLevel` is regenerated from the tree under verification on every run
(`Golib/Gen/TransC02.lean`; the word `r.Uint64()` delivers is its parameter). -/

/-- TIE: the translated `randomLevel` equals the model's `randomLevel` (the tower height every
`set` theorem above quantifies over) for every 64-bit word; it cannot panic. -/
theorem c02_trans_randomLevel (k0 : BitVec 64) :
    Golib.Gen.Trans.C02.randomLevel k0 = .ok ((Golib.C02.randomLevel k0.toNat : Nat) : Int) :=
  trans_randomLevel_eq k0

/-- The clause the skip list relies on, directly on the generated definition: the level is in
`1 ..= maxLevel` (so `make([]*SkipNode, level)` and `update[i]`, `i < level`, stay in range). -/
theorem c02_trans_randomLevel_range (k0 : BitVec 64) :
    ∃ l : Int, Golib.Gen.Trans.C02.randomLevel k0 = .ok l ∧ 1 ≤ l ∧ l ≤ 32 := by
  refine ⟨_, c02_trans_randomLevel k0, by simp only [Golib.C02.randomLevel]; omega, ?_⟩
  have : (32 - len64 (k0.toNat &&& (2 ^ maxLevel - 1))) &&& (maxLevel - 1) ≤ maxLevel - 1 :=
    Nat.and_le_right
  simp only [Golib.C02.randomLevel, maxLevel] at this ⊢
  omega

/-- Non-vacuity: the word 0 gives level 1, the word 1 gives level 32, 2^31 gives level 1+… -/
example : Golib.Gen.Trans.C02.randomLevel 0#64 = .ok 1 ∧
    Golib.Gen.Trans.C02.randomLevel 1#64 = .ok 32 ∧
    Golib.Gen.Trans.C02.randomLevel 1073741824#64 = .ok 2 := by
  refine ⟨?_, ?_, ?_⟩ <;> decide +kernel


end Golib.C02
