/-
C09 — secret-based encryption (`cryptz/crypt.go`).  ONLY property theorems and non-vacuity
examples live here; helper lemmas are in `Golib/Proof/C09*.lean`.

Everything the code takes from the standard library is a parameter `P : Prims`
(`md5`, block cipher, AEAD, CTR keystream, base64, hex).  The theorems hold for EVERY such
`P` meeting the stated hypotheses (`|md5 x| = 16` and bytes, `D k (E k x) = x` on 16-BYTE
blocks under valid byte keys, `open (seal p) = some p` under valid keys, `decode (encode x) = x`
on BYTE strings): hypotheses, never axioms, and stated so that concrete codecs/ciphers on
bytes CAN meet them (nothing is asked about lists holding numbers ≥ 256 or invalid keys).
The `…_concrete` theorems at the end instantiate them with the executable Lean MD5 / AES /
GCM / base64 / hex that the oracle runs, using the facts proved about those instances in
`Proof/C08AesInv.lean`, `Proof/C08GcmInv.lean`, `Proof/C09EncInv.lean`.  The random
salt is an input: every statement is `∀ salt` (of 8 bytes).  The model mirrors the REPAIRED
`DecryptStreamTo` (`io.ReadFull`, defect F5); the refutation of the code as found is in
`Golib/Findings/C09.lean`.

Not theorems (labelled partial in the manifest): tamper evidence of the GCM envelope
(cryptographic) and interoperability with the `openssl` binary (external) — exercised on
the real code.
-/
import Golib.Proof.C09Top
import Golib.Proof.C09Trans
import Golib.Proof.C09EncInv
import Golib.Proof.C09Dec
import Golib.Proof.C09Arena
import Golib.Proof.C09CredLen
import Golib.Proof.C08AesInv
import Golib.Proof.C08GcmInv
import Golib.Proof.C08GcmSpec
import Golib.Model.C09
import Golib.Gen.FactsC09

namespace Golib.C09
open Golib.C08

/-- The 48 bytes of key material are OpenSSL's `EVP_BytesToKey(MD5, count 1)`:
`D1 = MD5(secret‖salt)`, `Di = MD5(D(i-1)‖secret‖salt)`, key = `D1‖D2`, IV = `D3` — and
`fillCred` never panics, whatever the lengths of secret and salt. -/
theorem c09_cred_is_evp (md5 : Bytes → Bytes) (hmd : ∀ x, (md5 x).length = 16) (salt secret : Bytes) :
    deriveCred md5 salt secret =
      some (md5 (secret ++ salt) ++ md5 (md5 (secret ++ salt) ++ secret ++ salt) ++
        md5 (md5 (md5 (secret ++ salt) ++ secret ++ salt) ++ secret ++ salt)) ∧
    (evpKey md5 secret salt).length = 32 ∧ (evpIV md5 secret salt).length = 16 ∧
    evpKey md5 secret salt ++ evpIV md5 secret salt = evp md5 secret salt :=
  ⟨deriveCred_eq md5 hmd salt secret, evpKey_length md5 hmd secret salt,
    evpIV_length md5 hmd secret salt, List.take_append_drop 32 _⟩

/-- Wire format, for every salt: `Encrypt` = base64 of `"Salted__" ‖ salt ‖
AES-256-CBC(EVP key, EVP IV, PKCS#7-padded plaintext)` (what `openssl enc -aes-256-cbc -md md5 -a`
writes); `GCMEncrypt` = hex of `"Salted__" ‖ salt ‖ Seal(EVP key, first 12 IV bytes, plaintext, AD)`;
`EncryptStreamTo` writes `"Salted__" ‖ salt ‖ CTR(plaintext)` whatever the chunking of its source. -/
theorem c09_wire_format (P : Prims) (hmd : ∀ x, (P.md5 x).length = 16)
    (hseal : ∀ k, keyOK k = true → ∀ n p a, (P.A.sealF k n p a).length = p.length + 16)
    (salt pt secret ad : Bytes) (hs : salt.length = 8) (src : Src) (hsrc : src.good) (hd : src.data = pt) :
    encrypt P salt pt secret = .ok (P.b64enc (fixedSaltHeader ++ salt ++
      cbcEncrypt (P.C.E (evpKey P.md5 secret salt)) (evpIV P.md5 secret salt)
        (pt ++ List.replicate (16 - pt.length % 16) (16 - pt.length % 16)))) ∧
    gcmEncrypt P salt pt secret ad = .ok (P.hexenc (fixedSaltHeader ++ salt ++
      P.A.sealF (evpKey P.md5 secret salt) ((evpIV P.md5 secret salt).take 12) pt ad)) ∧
    ∃ w, encryptStreamTo P salt secret src emptyWriter = .ok w ∧
      w.content = fixedSaltHeader ++ salt ++
        ctrXor (P.KS (evpKey P.md5 secret salt) (evpIV P.md5 secret salt)) 0 pt := by
  refine ⟨?_, ?_, ?_⟩
  · unfold encrypt; rw [saltBySecretCBCEncrypt_spec P hmd salt pt secret hs]; rfl
  · unfold gcmEncrypt; rw [saltBySecretGCMEncrypt_spec P hmd hseal salt pt secret ad hs]; rfl
  · rw [← hd]; exact encryptStreamTo_spec P hmd salt secret src hsrc

/-- `Decrypt(Encrypt(p, s), s) = p` for every plaintext, secret and salt; also through the
raw `SaltBySecretCBC*` pair with the ciphertext buffer reused or not. -/
theorem c09_cbc_envelope_roundtrip (P : Prims) (hmd : ∀ x, (P.md5 x).length = 16)
    (hmdb : ∀ x, IsBytes (P.md5 x))
    (hE : ∀ k, keyOK k = true → IsBytes k → ∀ x, x.length = 16 → IsBytes x →
      (P.C.E k x).length = 16 ∧ IsBytes (P.C.E k x))
    (hDE : ∀ k, keyOK k = true → IsBytes k → ∀ x, x.length = 16 → IsBytes x → P.C.D k (P.C.E k x) = x)
    (hb64 : ∀ x, IsBytes x → base64DecodeW P.b64raw (P.b64enc x) = .ok x)
    (salt pt secret : Bytes) (hs : salt.length = 8) (hsb : IsBytes salt) (hptb : IsBytes pt)
    (reuse : Bool) :
    (∃ m, encrypt P salt pt secret = .ok m ∧ decrypt P m secret = .ok pt) ∧
    (∃ c, saltBySecretCBCEncrypt P salt pt secret = .ok c ∧
      saltBySecretCBCDecrypt P c secret reuse = .ok pt) := by
  have henc := saltBySecretCBCEncrypt_spec P hmd salt pt secret hs
  have hkok := evpKey_ok P.md5 hmd secret salt
  have hkb := evpKey_isBytes P.md5 hmdb secret salt
  have hivb := evpIV_isBytes P.md5 hmdb secret salt
  have hbody := cbcEncrypt_lengthB _ (hE _ hkok hkb) _ _ _ (evpIV_length P.md5 hmd secret salt) hivb
    (padded_blocks pt) (padded_isBytes pt hptb)
  generalize hbodyeq : cbcEncrypt (P.C.E (evpKey P.md5 secret salt)) (evpIV P.md5 secret salt) (padded pt) = body at henc hbody
  have hbl : body.length = 16 * (pt.length / 16 + 1) := by rw [hbody.1, padded_blocks]
  have hbb : IsBytes body := hbody.2
  -- decrypting the envelope
  have hdec : ∀ reuse, saltBySecretCBCDecrypt P (fixedSaltHeader ++ salt ++ body) secret reuse = .ok pt := by
    intro reuse
    obtain ⟨p1, p2, p3⟩ := envelope_parts salt body hs
    have h8 := header_length
    have hlen : (fixedSaltHeader ++ salt ++ body).length = 16 + body.length := by
      simp [h8, hs]; omega
    unfold saltBySecretCBCDecrypt
    have hc : ¬ ((fixedSaltHeader ++ salt ++ body).length < 2 * aesBlockSize ∨
        (fixedSaltHeader ++ salt ++ body).length &&& blockSizeMask ≠ 0) := by
      rw [and15, hlen]; simp only [aesBlockSize]; omega
    rw [if_neg hc]
    obtain ⟨s1, s2, s3, s4⟩ := parse_slices (fixedSaltHeader ++ salt ++ body) (by omega)
    rw [s1, s2]
    simp only []
    have hm : ¬ (fixedSaltHeader ++ salt ++ body).take 8 ≠ fixedSaltHeader := fun h => h p1
    rw [if_neg hm, s3]
    simp only []
    rw [p2, deriveCred_eq P.md5 hmd]
    simp only []
    obtain ⟨hk, hiv⟩ := cred_slices P.md5 hmd secret salt
    rw [hk, hiv, s4, p3]
    simp only []
    generalize hlay : (if reuse = true then DecLayout.inplace
      else DecLayout.fresh (List.replicate body.length 0)) = lay
    have hlayl : ∀ d, lay = .fresh d → d.length = cbcEncryptLen pt.length := by
      intro d hd
      cases reuse <;> simp at hlay
      · rw [← hlay] at hd; injection hd with hd; rw [← hd, encLen_eq]; simp; omega
      · rw [← hlay] at hd; cases hd
    obtain ⟨ct, he, hct, _, _, d, hdd, htake⟩ := main_cbc_roundtrip P.C (evpKey P.md5 secret salt)
      (evpIV P.md5 secret salt) pt (List.replicate (cbcEncryptLen pt.length) 0) lay
      (hE _ hkok hkb) (hDE _ hkok hkb) hkok (evpIV_length P.md5 hmd secret salt) hivb hptb
      (by simp) hlayl
    have hcb : ct = body := by rw [hct, ← hbodyeq]; rfl
    rw [hcb] at hdd
    rw [hdd]
    simp only []
    have hle : pt.length ≤ d.length := by
      have := congrArg List.length htake
      simp only [List.length_take] at this; omega
    rw [sliceTo_nat d pt.length hle, htake]
  refine ⟨⟨_, by unfold encrypt; rw [henc], ?_⟩, ⟨_, henc, hdec reuse⟩⟩
  unfold decrypt
  have hallb : IsBytes (fixedSaltHeader ++ salt ++ body) :=
    isBytes_append.mpr ⟨isBytes_append.mpr ⟨header_isBytes, hsb⟩, hbb⟩
  rw [hb64 _ hallb]
  exact hdec true

/-- `GCMDecrypt(GCMEncrypt(p, s, a), s, a) = p` for every plaintext, secret, additional data
and salt (raw pair included, buffer reused or not), and whatever `Open` rejects is an error. -/
theorem c09_gcm_envelope_roundtrip (P : Prims) (hmd : ∀ x, (P.md5 x).length = 16)
    (hmdb : ∀ x, IsBytes (P.md5 x))
    (hseal : ∀ k, keyOK k = true → ∀ n p a, (P.A.sealF k n p a).length = p.length + 16)
    (hsealb : ∀ k, keyOK k = true → IsBytes k → ∀ n p a, IsBytes n → IsBytes p →
      IsBytes (P.A.sealF k n p a))
    (hopen : ∀ k, keyOK k = true → ∀ n p a, P.A.openF k n (P.A.sealF k n p a) a = some p)
    (hopenlen : ∀ k, keyOK k = true → ∀ n c a p, P.A.openF k n c a = some p → c.length = p.length + 16)
    (hhex : ∀ x, IsBytes x → hexDecodeW (P.hexenc x) = .ok x)
    (salt pt secret ad : Bytes) (hs : salt.length = 8) (hsb : IsBytes salt) (hptb : IsBytes pt)
    (reuse : Bool) :
    (∃ m, gcmEncrypt P salt pt secret ad = .ok m ∧ gcmDecrypt P m secret ad = .ok pt) ∧
    (∃ c, saltBySecretGCMEncrypt P salt pt secret ad = .ok c ∧
      saltBySecretGCMDecrypt P c secret ad reuse = .ok pt) := by
  have henc := saltBySecretGCMEncrypt_spec P hmd hseal salt pt secret ad hs
  have hkok := evpKey_ok P.md5 hmd secret salt
  have hbodyb : IsBytes (P.A.sealF (evpKey P.md5 secret salt) (evpNonce P.md5 secret salt) pt ad) :=
    hsealb _ hkok (evpKey_isBytes P.md5 hmdb secret salt) _ _ _
      (isBytes_take 12 (evpIV_isBytes P.md5 hmdb secret salt)) hptb
  generalize hbody : P.A.sealF (evpKey P.md5 secret salt) (evpNonce P.md5 secret salt) pt ad = body at henc hbodyb
  have hdec : ∀ reuse, saltBySecretGCMDecrypt P (fixedSaltHeader ++ salt ++ body) secret ad reuse = .ok pt := by
    intro reuse
    obtain ⟨p1, p2, p3⟩ := envelope_parts salt body hs
    have h8 := header_length
    rw [saltBySecretGCMDecrypt_eq P hmd hopenlen _ secret ad reuse (by simp [h8, hs]; omega) p1,
      p2, p3, ← hbody, hopen _ hkok]
  refine ⟨⟨_, by unfold gcmEncrypt; rw [henc], ?_⟩, ⟨_, henc, hdec reuse⟩⟩
  unfold gcmDecrypt
  have hallb : IsBytes (fixedSaltHeader ++ salt ++ body) :=
    isBytes_append.mpr ⟨isBytes_append.mpr ⟨header_isBytes, hsb⟩, hbodyb⟩
  rw [hhex _ hallb]
  exact hdec true

/-- Every decryption entry point returns a value or an `error` on ARBITRARY bytes — never a
panic: all slicing is guarded by the length / magic checks in the coded order.  (Stream mode:
for every reader and writer, failing ones included, in either header-read mode.) -/
theorem c09_decrypt_total (P : Prims) (hmd : ∀ x, (P.md5 x).length = 16)
    (hD : ∀ k, keyOK k = true → ∀ x, x.length = 16 → (P.C.D k x).length = 16)
    (hopenlen : ∀ k, keyOK k = true → ∀ n c a p, P.A.openF k n c a = some p → c.length = p.length + 16)
    (hb64len : ∀ s, (P.b64raw s).1.length ≤ s.length / 4 * 3)
    (input secret ad : Bytes) (reuse : Bool) (mode : HeaderRead) (r : Reader) (out : Writer) :
    decrypt P input secret ≠ .panic ∧
    saltBySecretCBCDecrypt P input secret reuse ≠ .panic ∧
    gcmDecrypt P input secret ad ≠ .panic ∧
    saltBySecretGCMDecrypt P input secret ad reuse ≠ .panic ∧
    decryptStreamTo P mode secret r out ≠ .panic := by
  refine ⟨?_, saltBySecretCBCDecrypt_total P hmd hD input secret reuse, ?_,
    saltBySecretGCMDecrypt_total P hmd hopenlen input secret ad reuse,
    decryptStreamTo_total P hmd mode secret r out⟩
  · unfold decrypt
    have := base64DecodeW_total P.b64raw hb64len input
    cases hb : base64DecodeW P.b64raw input with
    | panic => exact absurd hb this
    | err e => simp
    | ok src => exact saltBySecretCBCDecrypt_total P hmd hD src secret true
  · unfold gcmDecrypt
    have := hexDecodeW_total input
    cases hb : hexDecodeW input with
    | panic => exact absurd hb this
    | err e => simp
    | ok src => exact saltBySecretGCMDecrypt_total P hmd hopenlen src secret ad true

/-- CTR output does not depend on how the data is cut into chunks: processing `a ++ b` at
position `pos` is processing `a` at `pos` and `b` at `pos + |a|`; applying it twice is the
identity. -/
theorem c09_ctr_chunk_independent (ks : Nat → Nat) (a b : Bytes) (pos : Nat) :
    ctrXor ks pos (a ++ b) = ctrXor ks pos a ++ ctrXor ks (pos + a.length) b ∧
    ctrXor ks pos (ctrXor ks pos a) = a :=
  ⟨ctrXor_append ks a b pos, ctrXor_invol ks a pos⟩

/-- `DecryptStreamTo(EncryptStreamTo(p)) = p` for EVERY plaintext, secret and salt, EVERY
chunking of the source reader (`src`: any plan of per-call sizes incl. 1-byte and zero-length
reads, end reported with the data or separately, or a `*bytes.Reader`), and EVERY chunking by
which the encrypted bytes reach the decrypting side (`r`: any plan, both end styles) — in
particular a 16-byte header delivered one byte at a time, or together with `io.EOF`. -/
theorem c09_stream_roundtrip (P : Prims) (hmd : ∀ x, (P.md5 x).length = 16)
    (salt pt secret : Bytes) (hs : salt.length = 8)
    (src : Src) (hsrc : src.good) (hd : src.data = pt) :
    ∃ w, encryptStreamTo P salt secret src emptyWriter = .ok w ∧
      ∀ r : Reader, r.data = w.content → r.failAtEnd = false →
        ∃ w', decryptStreamTo P .readFull secret r emptyWriter = .ok w' ∧ w'.content = pt := by
  obtain ⟨w, he, hc⟩ := encryptStreamTo_spec P hmd salt secret src hsrc
  refine ⟨w, he, fun r hr hf => ?_⟩
  obtain ⟨w', hd', hc'⟩ := decryptStreamTo_spec P hmd secret salt
    (ctrXor (streamKS P secret salt) 0 src.data) hs r (by rw [hr, hc]) hf
  exact ⟨w', hd', by rw [hc', ctrXor_invol, hd]⟩

/-! ### The executable instance meets the hypotheses — so the statements above hold
UNCONDITIONALLY for the model the oracle runs (`primsFor …` of `Model/C09.lean`: Lean MD5, AES,
AES-GCM, base64 StdEncoding as Go decodes it, the hex codec of `strz/std_hex.go`).  That these
are the same FUNCTIONS as the Go standard library's is not proved: it is tested (RFC 1321 /
FIPS-197 / GCM-spec / RFC 4648 vectors at build time, every envelope of every run). -/

/-- every hypothesis of the parametric theorems, for the oracle's own primitives -/
theorem c09_instance_meets_hypotheses (s0 s1 : Bytes) (n : Nat) :
    let P := primsFor s0 s1 n
    (∀ x, (P.md5 x).length = 16) ∧ (∀ x, IsBytes (P.md5 x)) ∧
    (∀ k, keyOK k = true → IsBytes k → ∀ x, x.length = 16 → IsBytes x →
      (P.C.E k x).length = 16 ∧ IsBytes (P.C.E k x)) ∧
    (∀ k, keyOK k = true → IsBytes k → ∀ x, x.length = 16 → IsBytes x → P.C.D k (P.C.E k x) = x) ∧
    (∀ k, keyOK k = true → ∀ x, x.length = 16 → (P.C.D k x).length = 16) ∧
    (∀ k, keyOK k = true → ∀ n p a, (P.A.sealF k n p a).length = p.length + 16) ∧
    (∀ k, keyOK k = true → IsBytes k → ∀ n p a, IsBytes n → IsBytes p → IsBytes (P.A.sealF k n p a)) ∧
    (∀ k, keyOK k = true → ∀ n p a, P.A.openF k n (P.A.sealF k n p a) a = some p) ∧
    (∀ k, keyOK k = true → ∀ n c a p, P.A.openF k n c a = some p → c.length = p.length + 16) ∧
    (∀ x, IsBytes x → base64DecodeW P.b64raw (P.b64enc x) = .ok x) ∧
    (∀ x, IsBytes x → hexDecodeW (P.hexenc x) = .ok x) ∧
    (∀ s, (P.b64raw s).1.length ≤ s.length / 4 * 3) :=
  ⟨md5_length, md5_bytes,
   fun k hk hkb x hx hxb => aes_encrypt_block k x hk hkb hx hxb,
   fun k hk hkb x hx hxb => aes_decrypt_encrypt k x hk hkb hx hxb,
   fun k hk x _ => aes_decrypt_length k x hk,
   fun k hk n p a => gcm_seal_length k n p a hk,
   fun k hk hkb n p a hn hp => gcm_seal_bytes k n p a hk hkb hn hp,
   fun k hk n p a => gcm_open_seal k n p a hk,
   fun k hk n c a p h => gcm_open_length k n c a p hk h,
   base64DecodeW_encode, hexDecodeW_encode, b64DecodeRaw_len⟩

/-- `Decrypt(Encrypt(p, s), s) = p` and `GCMDecrypt(GCMEncrypt(p, s, a), s, a) = p` for the
oracle's own model, no hypothesis about any primitive left: every plaintext, secret, additional
data (byte strings) and every 8-byte salt; raw `SaltBySecret*` pairs with the buffer reused or not. -/
theorem c09_envelope_roundtrip_concrete (s0 s1 : Bytes) (n : Nat)
    (salt pt secret ad : Bytes) (hs : salt.length = 8) (hsb : IsBytes salt) (hptb : IsBytes pt)
    (reuse : Bool) :
    let P := primsFor s0 s1 n
    (∃ m, encrypt P salt pt secret = .ok m ∧ decrypt P m secret = .ok pt) ∧
    (∃ c, saltBySecretCBCEncrypt P salt pt secret = .ok c ∧
      saltBySecretCBCDecrypt P c secret reuse = .ok pt) ∧
    (∃ m, gcmEncrypt P salt pt secret ad = .ok m ∧ gcmDecrypt P m secret ad = .ok pt) ∧
    (∃ c, saltBySecretGCMEncrypt P salt pt secret ad = .ok c ∧
      saltBySecretGCMDecrypt P c secret ad reuse = .ok pt) := by
  intro P
  obtain ⟨h1, h2, h3, h4, _, h6, h7, h8, h9, h10, h11, _⟩ := c09_instance_meets_hypotheses s0 s1 n
  have hc := c09_cbc_envelope_roundtrip P h1 h2 h3 h4 h10 salt pt secret hs hsb hptb reuse
  have hg := c09_gcm_envelope_roundtrip P h1 h2 h6 h7 h8 h9 h11 salt pt secret ad hs hsb hptb reuse
  exact ⟨hc.1, hc.2, hg.1, hg.2⟩

/-- no decryption entry point of the oracle's own model panics, on ANY input (lists of
arbitrary numbers included) -/
theorem c09_decrypt_total_concrete (s0 s1 : Bytes) (n : Nat)
    (input secret ad : Bytes) (reuse : Bool) (mode : HeaderRead) (r : Reader) (out : Writer) :
    let P := primsFor s0 s1 n
    decrypt P input secret ≠ .panic ∧
    saltBySecretCBCDecrypt P input secret reuse ≠ .panic ∧
    gcmDecrypt P input secret ad ≠ .panic ∧
    saltBySecretGCMDecrypt P input secret ad reuse ≠ .panic ∧
    decryptStreamTo P mode secret r out ≠ .panic := by
  intro P
  obtain ⟨h1, _, _, _, h5, _, _, _, h9, _, _, h12⟩ := c09_instance_meets_hypotheses s0 s1 n
  exact c09_decrypt_total P h1 h5 h9 h12 input secret ad reuse mode r out

/-- What the HISTORY stream of the tie instantiates (header `hist`: the harness keeps the key /
secret, iv / nonce, additional data and dst of all calls of a case in the SAME backing arrays
and overwrites them in place between the calls): in the model a call has no memory — the
answer to each line is a function of that line alone, whatever was called before with whatever
was in those buffers — valid calls and FAILING ones alike (a failed call leaves nothing
behind: there is no state it could half-update) — and equals the answer in the ordinary mode.
(True by construction — the model's entry points are pure functions — and recorded here because it is exactly what the
call-by-call comparison then demands of the real code: no cipher, schedule, iv or credential
retained BY REFERENCE from an earlier call.) -/
theorem c09_history_is_memoryless (pre ops : List String) :
    runCase ["hist"] ops = "ok" :: ops.map (fun l => step (Golib.Proto.toks l)) ∧
    runCase ["hist"] ops = runCase ["x"] ops ∧
    (runCase ["hist"] (pre ++ ops)).drop (1 + pre.length) = (runCase ["hist"] ops).drop 1 := by
  refine ⟨rfl, rfl, ?_⟩
  simp only [runCase, List.map_append, List.drop_succ_cons, List.drop_zero]
  rw [Nat.add_comm, List.drop_succ_cons]
  have : pre.length = (pre.map fun l => step (Golib.Proto.toks l)).length := by simp
  rw [this, List.drop_left]

/-- What the ARENA stream and the results ledger of the tie instantiate (header `arena`: secret,
additional data and plaintext / message of a call are windows of one arena with live data and
canaries in their spare capacity; after the call the arena must be unchanged — except the
message window of `SaltBySecret*Decrypt` with `reuseCipherText` — and no slice returned earlier
may have changed).  In the model every entry point takes VALUES and returns a value: the answers
do not depend on the mode, on what was called before, or on where the arguments live; "the
caller's inputs are unchanged" and "earlier results are stable" have no counterpart to prove —
they are demanded of the real code by the arena / ledger checks of the harness, and the round-trip
theorems above presume them (they speak about the plaintext and secret the caller PASSED). -/
theorem c09_arena_value_semantics (pre ops : List String) :
    runCase ["arena"] ops = runCase ["x"] ops ∧
    runCase ["arena"] ops = "ok" :: ops.map (fun l => step (Golib.Proto.toks l)) ∧
    (runCase ["arena"] (pre ++ ops)).drop (1 + pre.length) = (runCase ["arena"] ops).drop 1 := by
  refine ⟨rfl, rfl, ?_⟩
  simp only [runCase, List.map_append, List.drop_succ_cons, List.drop_zero]
  rw [Nat.add_comm, List.drop_succ_cons]
  have : pre.length = (pre.map fun l => step (Golib.Proto.toks l)).length := by simp
  rw [this, List.drop_left]

open Golib.C08.Arena Golib.C09.Arena in
/-- INPUTS UNCHANGED (buffer level, `Model/C09Arena.lean`).  (1) Of all memory-writing statements
of all ten entry points — read off `crypt.go` into `footprint` — the only ones that target memory
of the caller are the final decryption of `SaltBySecretCBCDecrypt` / `SaltBySecretGCMDecrypt`
with `reuseCipherText = true`, and they target the ciphertext argument behind its 16-byte header;
every other destination is a `make`, a local array or a buffer of the standard library: secret,
additional data, plaintext, the encoded message of `Decrypt`/`GCMDecrypt` (decoded into a fresh
buffer, which is then the one reused) are never written.  (2) Those two, run over the caller's
arena with the C08 arena model (`dst = cipherText[16:]`, key and iv/nonce in the local `cred`
array): whatever the outcome, every logged write lies inside `cipherText[16:]` and every other
cell of the arena keeps its content.  This is what the harness's arena snapshot check tests on
the real code after every call. -/
theorem c09_inputs_unchanged (P : Prims) (hmd : ∀ x, (P.md5 x).length = 16)
    (hD : ∀ k, keyOK k = true → ∀ x, x.length = 16 → (P.C.D k x).length = 16)
    (hopenlen : ∀ k, keyOK k = true → ∀ n c a p, P.A.openF k n c a = some p → c.length = p.length + 16) :
    (∀ n e, ∀ t ∈ footprint n e, t.isFresh = true ∨
      (e = .saltCBCDecrypt true ∧ t = .input 16 (n - 16)) ∨
      (e = .saltGCMDecrypt true ∧ t = .input 16 (n - 16 - 16))) ∧
    (∀ (m : Mem) (ct : Win) (secret : Bytes), ct.wf m →
      WritesWithin m (saltBySecretCBCDecryptA P m ct secret).1 (ct.off + 16) (ct.off + ct.len)) ∧
    (∀ (m : Mem) (ct ad : Win) (secret : Bytes), ct.wf m →
      WritesWithin m (saltBySecretGCMDecryptA P m ct secret ad).1 (ct.off + 16) (ct.off + ct.len)) :=
  ⟨footprint_spec,
   fun m ct secret h => saltCBCDecryptA_writes_within P m ct secret hmd h hD,
   fun m ct ad secret h => saltGCMDecryptA_writes_within P m ct ad secret hmd h hopenlen⟩

open Golib.C08.Arena Golib.C09.Arena in
/-- `c09_inputs_unchanged`, part (2), for the oracle's own primitives: no hypothesis left. -/
theorem c09_inputs_unchanged_concrete (s0 s1 : Bytes) (n : Nat) (m : Mem) (ct ad : Win) (secret : Bytes)
    (h : ct.wf m) :
    WritesWithin m (saltBySecretCBCDecryptA (primsFor s0 s1 n) m ct secret).1 (ct.off + 16) (ct.off + ct.len) ∧
    WritesWithin m (saltBySecretGCMDecryptA (primsFor s0 s1 n) m ct secret ad).1 (ct.off + 16) (ct.off + ct.len) := by
  obtain ⟨h1, _, _, _, h5, _, _, _, h9, _, _, _⟩ := c09_instance_meets_hypotheses s0 s1 n
  have := c09_inputs_unchanged (primsFor s0 s1 n) h1 h5 h9
  exact ⟨this.2.1 m ct secret h, this.2.2 m ct ad secret h⟩

/-- The counter of the stream mode is a 128-bit big-endian counter: block `i` of the keystream
is `AES_key(iv + i mod 2^128)` with the addition carrying across ALL sixteen bytes
(`cipher.NewCTR`), not only the last four (that is GCM's `inc32`) — so the keystream of
`EncryptStreamTo` and of `DecryptStreamTo` agree also when the derived IV's last word wraps
inside the stream.  The tie exercises exactly this with salts found offline whose derived IV
is a few blocks below such a wrap (`adversarial` stream), and the model's keystream is compared
with crypto/cipher's on IVs about to wrap their last 4 / 8 / 12 / 16 bytes (`ctr` op). -/
theorem c09_ctr_counter_is_128bit (key iv : Bytes) (i n : Nat) :
    C08.GCM.toNatBE (Enc.ctrBlock iv i) = (C08.GCM.toNatBE iv + i) % 2 ^ 128 ∧
    (Enc.ctrBlock iv i).length = 16 ∧
    Enc.aesCtrStream key iv n =
      ((List.range ((n + 15) / 16)).flatMap fun j => C08.AES.encryptBlock key (Enc.ctrBlock iv j)).take n ∧
    -- the carry leaves the last four bytes: iv = …‖ffffffff, one block later the 12 leading bytes changed
    Enc.ctrBlock ([0,0,0,0,0,0,0,0,0,0,0,7] ++ [255,255,255,255]) 1 = [0,0,0,0,0,0,0,0,0,0,0,8] ++ [0,0,0,0] ∧
    Enc.ctrBlock (List.replicate 16 255) 1 = List.replicate 16 0 :=
  ⟨(ctrBlock_is_be128 iv i).1, (ctrBlock_is_be128 iv i).2, rfl, by decide +kernel, by decide +kernel⟩

/-- `fillCred(cred, salt, secret)` for a destination of ANY length (the code passes the 48-byte
local array; the function takes a slice): it panics EXACTLY when `len(cred) < 32` (`cred[16:]` /
`cred[32:]` out of range); otherwise it keeps `len(cred)`, its first 32 bytes are `D1‖D2`, and
from 48 bytes on its first 48 bytes are the EVP key material `D1‖D2‖D3` and the rest of `cred`
is untouched (for 32 ≤ len < 48, `copy` truncates the third digest) — for every secret and salt
length. -/
theorem c09_fillCred_any_length (md5 : Bytes → Bytes) (hmd : ∀ x, (md5 x).length = 16)
    (cred salt secret : Bytes) :
    (cred.length < 32 → fillCred md5 cred salt secret = none) ∧
    (32 ≤ cred.length → ∃ c, fillCred md5 cred salt secret = some c ∧ c.length = cred.length ∧
      c.take 32 = md5 (secret ++ salt) ++ md5 (md5 (secret ++ salt) ++ secret ++ salt) ∧
      (48 ≤ cred.length → c.take 48 = evp md5 secret salt ∧ c.drop 48 = cred.drop 48)) :=
  fillCred_any_length md5 hmd cred salt secret

/-- LENGTH ARITHMETIC.  The model computes lengths in `Nat`, the code in Go `int` (64 bits here).
Every length expression of `crypt.go`, `aes.go` and the two `strz` wrappers — the `fillCred`
buffer `16+len(secret)+len(salt)` and its per-round length `n+len(secret)+len(salt) ≤` that
capacity, `aes.BlockSize + AESCBCEncryptLen`, `aes.BlockSize + AESGCMEncryptLen`,
`base64.EncodedLen = (n+2)/3*4`, `hex.EncodedLen = 2n`, `DecodedLen = n/4*3`, `n/2` — stays below
2^63 for all operand lengths below 2^56 (an existing Go slice on a 64-bit platform is far
shorter: the address space is 2^47..2^57 bytes), so no `int` wraps and `Nat` arithmetic IS the
code's arithmetic; the int-overflow edge (`len(secret)` near `MaxInt`) cannot be reached by any
slice that exists.  The decoded lengths never exceed the input length; `fillCred`'s request is
the constant 48 = 3 × 16 (`c09_facts_match_model`), there is no caller-chosen output length. -/
theorem c09_length_arithmetic (s t n : Nat) (hs : s < 2 ^ 56) (ht : t < 2 ^ 56) (hn : n < 2 ^ 56) :
    16 + s + t < 2 ^ 63 ∧ (∀ k, k ≤ 16 → k + s + t ≤ 16 + s + t) ∧
    aesBlockSize + cbcEncryptLen n < 2 ^ 63 ∧ cbcEncryptLen n ≤ n + 16 ∧
    aesBlockSize + gcmEncryptLen n < 2 ^ 63 ∧
    (n + 2) / 3 * 4 < 2 ^ 63 ∧ 2 * n < 2 ^ 63 ∧ n / 4 * 3 ≤ n ∧ n / 2 ≤ n ∧
    credLen = 3 * 16 ∧ keyLen + aesBlockSize = credLen ∧ nonceSize ≤ credLen - keyLen := by
  have he := encLen_eq n
  refine ⟨by omega, fun k hk => by omega, ?_, ?_, ?_, by omega, by omega, by omega, by omega,
    by decide, by decide, by decide⟩
  · simp only [aesBlockSize]; omega
  · omega
  · simp only [aesBlockSize, gcmEncryptLen, gcmTagSize]; omega

/-- The facts the model hard-codes, against `Golib/Gen/FactsC09.lean`, which the go/ast
extractor regenerates from `cryptz/crypt.go` on every run — above all WHICH call fills the
16-byte header in `DecryptStreamTo`: the theorems above are about `io.ReadFull`
(`HeaderRead.readFull`); with the single `stream.Read` of the code as found this obligation
fails (defect F5, `Golib/Findings/C09.lean`). -/
theorem c09_facts_match_model :
    Gen.C09.extractorOK = true ∧ Gen.C09.headerRead = HeaderRead.readFull ∧
    Gen.C09.headerBufLen = aesBlockSize ∧ Gen.C09.saltLen = saltLen ∧ Gen.C09.keyLen = keyLen ∧
    Gen.C09.credLen = credLen ∧ Gen.C09.fixedSaltHeader = fixedSaltHeader ∧
    Gen.C09.credRounds = 3 ∧ Gen.C09.saltLen + Gen.C09.saltLen = aesBlockSize ∧
    Gen.C09.keyLen + aesBlockSize = Gen.C09.credLen ∧
    -- the decode wrappers that `base64DecodeW` / `hexDecodeW` mirror, statement by statement
    Gen.C09.base64DecodeBody = "dst := make([]byte, enc.DecodedLen(len(s))); n, err := enc.Decode(dst, UnsafeStrOrBytesToBytes(s)); return dst[:n], err" ∧
    Gen.C09.hexDecodeBody = "dst := make([]byte, hex.DecodedLen(len(s))); n, err := hexDecode(dst, s); return dst[:n], err" ∧
    Gen.C09.decryptDecodeCall = "strz.Base64Decode(cipherText, base64.StdEncoding)" ∧
    Gen.C09.gcmDecryptDecodeCall = "strz.HexDecode(cipherText)" := by
  decide +kernel

/-! ### Regenerated tie (wave 9): `fillCred` as `go2lean` translates it from the tree under
verification on every run (`Gen/TransC09.lean`)

`md5.Sum` is an extern FUNCTION parameter of the translation (pure; `[16]byte` = a list, so the
array type is the hypothesis `|md5 x| = 16`), the local `var prevSum [16]byte` is a list of 16
zeros, the local `buf` (`make([]byte, 0, cap)`, resliced by `buf = buf[:k]` only, no second name)
is the pair (visible part, rest of its array), `cred` is an in-out slice parameter, the generic
`secret E` a byte list.  Bytes are `BitVec 8` in the translation and `Nat` in the model
(`absBytes`/`concBytes`); the model-side `md5` that belongs to the Go-side one is `liftMd5 md5`. -/

/-- TIE: the regenerated `fillCred` computes the final `cred` of the hand-written model
`Golib.C09.fillCred` (the definition `c09_cred_is_evp` and `c09_fillCred_any_length` are about)
and panics exactly where the model does; the fuel (4) never runs out.  For every `cred`, `salt`,
`secret` and EVERY function `md5` (the equation does not depend on the digest length; the
hypothesis records what the Go type `[16]byte` guarantees and what the translation assumes). -/
theorem c09_trans_fillCred (md5 : List (BitVec 8) → List (BitVec 8)) (_hmd : ∀ x, (md5 x).length = 16)
    (cred salt secret : List (BitVec 8)) :
    Golib.Gen.Trans.C09.fillCred cred salt secret md5 =
      match Golib.C09.fillCred (liftMd5 md5) (absBytes cred) (absBytes salt) (absBytes secret) with
      | some c => .ok (concBytes c)
      | none => .panic :=
  trans_fillCred md5 cred salt secret

/-- the property clause restated on the regenerated definition: with the 48-byte `cred` the
library passes, the code as it is in the tree returns OpenSSL's `EVP_BytesToKey(MD5, count 1)`
key material `D1‖D2‖D3`, `D1 = MD5(secret‖salt)`, `Di = MD5(D(i-1)‖secret‖salt)`; for any other
length: a panic exactly below 32 bytes, the length of `cred` kept, from 48 bytes on the first 48
bytes are the key material and the rest is untouched. -/
theorem c09_trans_fillCred_evp (md5 : List (BitVec 8) → List (BitVec 8)) (hmd : ∀ x, (md5 x).length = 16)
    (cred salt secret : List (BitVec 8)) :
    (cred.length = 48 → Golib.Gen.Trans.C09.fillCred cred salt secret md5 =
      .ok (md5 (secret ++ salt) ++ md5 (md5 (secret ++ salt) ++ secret ++ salt) ++
        md5 (md5 (md5 (secret ++ salt) ++ secret ++ salt) ++ secret ++ salt))) ∧
    (cred.length < 32 → Golib.Gen.Trans.C09.fillCred cred salt secret md5 = .panic) ∧
    (32 ≤ cred.length → ∃ c, Golib.Gen.Trans.C09.fillCred cred salt secret md5 = .ok c ∧
      c.length = cred.length ∧
      (48 ≤ cred.length → c.take 48 = evpGo md5 secret salt ∧ c.drop 48 = cred.drop 48)) :=
  ⟨trans_fillCred_evp md5 hmd cred salt secret, trans_fillCred_short md5 hmd cred salt secret,
    trans_fillCred_long md5 hmd cred salt secret⟩

/-- non-vacuity: a 16-byte "digest" on Go bytes; the regenerated definition runs (48-byte `cred`:
a value; 31-byte `cred`: the panic of `cred[32:]`; 32 bytes: no panic) -/
def toyMd5Go : List (BitVec 8) → List (BitVec 8) := fun x => (x ++ List.replicate 16 7#8).take 16

example : ∀ x, (toyMd5Go x).length = 16 := by intro x; simp [toyMd5Go]

example :
    Golib.Gen.Trans.C09.fillCred (List.replicate 48 0#8) [9#8, 8#8] [1#8, 2#8, 3#8] toyMd5Go =
      .ok ([1, 2, 3, 9, 8, 7, 7, 7, 7, 7, 7, 7, 7, 7, 7, 7] ++
           [1, 2, 3, 9, 8, 7, 7, 7, 7, 7, 7, 7, 7, 7, 7, 7] ++
           [1, 2, 3, 9, 8, 7, 7, 7, 7, 7, 7, 7, 7, 7, 7, 7]) ∧
    Golib.Gen.Trans.C09.fillCred (List.replicate 31 0#8) [9#8] [1#8] toyMd5Go = .panic ∧
    Golib.Gen.Trans.C09.fillCred (List.replicate 32 5#8) [9#8] [1#8] toyMd5Go ≠ .panic := by
  refine ⟨?_, ?_, ?_⟩ <;> decide +kernel

/-! ### Non-vacuity -/

/-- toy primitives meeting every hypothesis above (the real ones are MD5/AES/GCM/CTR/base64/hex
of `Model/C09Md5.lean`, `C09Enc.lean`, `C08Aes.lean`, `C08Gcm.lean`) -/
def toyPrims : Prims :=
  { md5 := fun x => (x ++ List.replicate 16 7).take 16,
    C := { E := fun _ x => x.drop 1 ++ x.take 1, D := fun _ x => x.drop (x.length - 1) ++ x.take (x.length - 1) },
    A := { sealF := fun _ _ p _ => p ++ List.replicate 16 0,
           openF := fun _ _ c _ => if 16 ≤ c.length then some (c.take (c.length - 16)) else none },
    KS := fun k _ p => k.getD (p % 32) 0 + p,
    b64enc := id, b64raw := fun _ => ([], false), hexenc := id }

example : ∀ x, (toyPrims.md5 x).length = 16 := by intro x; simp [toyPrims]

/-- a one-byte-at-a-time reader with the end reported together with the last byte is a
legal `r` of `c09_stream_roundtrip`, and the repaired model decrypts through it. -/
example :
    (match decryptStreamTo toyPrims .readFull [1]
        { data := fixedSaltHeader ++ [1,2,3,4,5,6,7,8] ++
            ctrXor (streamKS toyPrims [1] [1,2,3,4,5,6,7,8]) 0 [10, 20, 30],
          plan := List.replicate 19 1, eofWithData := true, failAtEnd := false } emptyWriter with
      | .ok w => w.content | _ => []) = [10, 20, 30] := by decide +kernel

end Golib.C09
