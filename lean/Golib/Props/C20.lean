/-
C20 — randz identifiers and random strings have the documented shape.  ONLY property
theorems and non-vacuity examples live here; helper lemmas are in `Golib/Proof/C20*.lean`.

The decode table is built by the model of the two `init` loops with the loop bounds,
the alphabet and the marks taken from `Golib.Gen.C20` (regenerated from randz/id.go on
every run), so `c20_table` and everything resting on it is re-checked against the source.
-/
import Golib.Proof.C20Base32
import Golib.Proof.C20Layout
import Golib.Proof.C20Str
import Golib.Proof.C20Utf8
import Golib.Proof.C20Count
import Golib.Proof.C20Numeral
import Golib.Proof.C20Value
import Golib.Proof.C20StrFast
import Golib.Proof.C20Term
import Golib.Proof.C20Trans
import Golib.Proof.C20TransId

namespace Golib.C20
open Golib.Gen.C20

/-- The 256-entry decode table after package initialisation: every byte outside the
32-character alphabet maps to the mark `ParseBase32` rejects (0xFF), and the `i`-th
alphabet character maps to `i`.  (False for the code before the fix of F10: the first
init loop only covered indices < 32 — see `Golib/Findings/C20.lean`.) -/
theorem c20_table :
    ∃ t, decodeTable = some t ∧ t.length = 256 ∧
      (∀ b, b < 256 → (t[b]? = some 0xFF ↔ b ∉ alphabet)) ∧
      (∀ i, i < 32 → ∃ c, alphabet[i]? = some c ∧ t[c]? = some i) := by
  obtain ⟨t, ht, hs⟩ := decodeTable_spec
  refine ⟨t, ht, hs.len, ?_, hs.decode⟩
  intro b hb
  have := hs.reject b hb
  rw [hs.mark] at this
  exact this

/-- For every non-negative ID (all of `[0, 2^63)`), `ParseBase32(id.Base32()) = id`; the
numeral is non-empty and uses only alphabet characters; neither function panics. -/
theorem c20_base32_roundtrip (id : Int) (h0 : 0 ≤ id) (h1 : id < 2 ^ 63) :
    ∃ s, base32 id = some s ∧ s ≠ [] ∧ (∀ c ∈ s, c ∈ alphabet) ∧ parseBase32 s = .ok id := by
  obtain ⟨t, ht, hs⟩ := decodeTable_spec
  obtain ⟨s, h1', h2, h3, h4⟩ := roundtrip_with t hs id h0 h1
  exact ⟨s, h1', h2, h3, by rw [parseBase32_eq t ht]; exact h4⟩

/-- `ParseBase32` returns `ErrInvalidBase32` for EVERY input (any length, each of the 256
byte values in each position) that contains a byte outside the alphabet. -/
theorem c20_base32_rejects (bs : List Nat) (hbytes : ∀ b ∈ bs, b < 256)
    (hbad : ∃ b ∈ bs, b ∉ alphabet) : parseBase32 bs = .invalid := by
  obtain ⟨t, ht, hs⟩ := decodeTable_spec
  rw [parseBase32_eq t ht, parseBase32With]
  apply parseLoop_rejects t bs 0 (fun c hc => by rw [hs.len]; exact hbytes c hc)
  obtain ⟨b, hb, hnb⟩ := hbad
  exact ⟨b, hb, (hs.reject b (hbytes b hb)).mpr hnb⟩

/-- ... and accepts every string over the alphabet (so rejection is exact). -/
theorem c20_base32_accepts (bs : List Nat) (hall : ∀ b ∈ bs, b ∈ alphabet) :
    ∃ id, parseBase32 bs = .ok id := by
  obtain ⟨t, ht, hs⟩ := decodeTable_spec
  have hlt : ∀ b ∈ alphabet, b < 256 := by decide
  rw [parseBase32_eq t ht, parseBase32With]
  refine ⟨_, parseLoop_accepts t bs 0 ?_⟩
  intro c hc
  have hc256 : c < t.length := by rw [hs.len]; exact hlt c (hall c hc)
  refine ⟨t[c], List.getElem?_eq_getElem hc256, ?_⟩
  intro hm
  have := (hs.reject c (hlt c (hall c hc))).mp (by rw [List.getElem?_eq_getElem hc256, hm])
  exact this (hall c hc)

/-- The VALUE returned for a string over the alphabet, of any length: Horner's rule over
the positions of its characters in the alphabet (`numeralValue`, unbounded), wrapped to
`int64` exactly as the accumulator `id*32 + d` wraps in Go.  It is the exact value whenever
that is below 2^63 — in particular for every string of at most 12 characters — so strings
of 13 or more characters can silently overflow (no error is returned; such inputs are not
numerals of any ID unless the value is below 2^63, see `c20_base32_roundtrip`). -/
theorem c20_base32_value (bs : List Nat) (hall : ∀ b ∈ bs, b ∈ alphabet) :
    parseBase32 bs = .ok (toInt64 (numeralValue bs)) ∧
    (numeralValue bs < 2 ^ 63 → parseBase32 bs = .ok (numeralValue bs)) ∧
    (bs.length ≤ 12 → numeralValue bs < 2 ^ 63) := by
  obtain ⟨t, ht, hs⟩ := decodeTable_spec
  have hv : parseBase32 bs = .ok (toInt64 (numeralValue bs)) := by
    rw [parseBase32_eq t ht]; exact parse_value_with t hs bs hall
  refine ⟨hv, fun h => by rw [hv, toInt64_small _ h], fun hl => ?_⟩
  have h1 := numeralValue_lt bs hall
  have h2 : 32 ^ bs.length ≤ 32 ^ 12 := Nat.pow_le_pow_right (by decide) hl
  have h3 : 32 ^ 12 < 2 ^ 63 := by decide
  omega

/-- Non-vacuity: 13 characters that overflow (`"8000000000000"` = 2^63 wraps to −2^63) and
14 that wrap to a small positive value (`"g0000000000001"` = 2^69 + 1 ↦ 1). -/
example : parseBase32 [56, 48, 48, 48, 48, 48, 48, 48, 48, 48, 48, 48, 48] = .ok (-(2 ^ 63)) ∧
    parseBase32 [103, 48, 48, 48, 48, 48, 48, 48, 48, 48, 48, 48, 48, 49] = .ok 1 := by
  constructor <;> decide +kernel

/-- Non-vacuity: a concrete ID, its numeral, and a rejected input (`"1!"`). -/
example : base32 1234567 = some [49, 53, 110, 109, 55] ∧ parseBase32 [49, 33] = .invalid := by
  constructor <;> decide +kernel

/-- `NewIdGenerator`: between 2 and 22 random bits (the requested number when it is in
range, 16 below, 22 above), `randMax = 2^randBit`, a 41-bit time mask, shift = randBit. -/
theorem c20_idgen_fields (req : Int) :
    let g := newIdGen req
    2 ≤ g.randBit ∧ g.randBit ≤ 22 ∧ g.randMax = 2 ^ g.randBit.toNat ∧ g.timeMask = 2 ^ 41 - 1 ∧
    g.timeShift = g.randBit ∧ (2 ≤ req → req ≤ 22 → g.randBit = req) ∧
    (req ≤ 1 → g.randBit = 16) ∧ (22 < req → g.randBit = 22) :=
  newIdGen_fields req

/-- Bit layout of a generated ID, for every requested `randBit`, every elapsed time `ms`
(any `int64`, negative included) and every random part `r < randMax`: the ID is
non-negative, carries `ms mod 2^41` above its `randBit` random bits and `r` in them;
hence IDs are strictly increasing in the (41-bit) millisecond count whatever the random
parts are. -/
theorem c20_id_layout (req ms r : Int) (hr0 : 0 ≤ r) (hr1 : r < (newIdGen req).randMax) :
    let g := newIdGen req
    let id := compose g ms r
    0 ≤ id ∧ id < 2 ^ 63 ∧ id / 2 ^ g.randBit.toNat = ms % 2 ^ 41 ∧ id % 2 ^ g.randBit.toNat = r ∧
    (∀ ms' r', 0 ≤ r' → r' < g.randMax → ms % 2 ^ 41 < ms' % 2 ^ 41 → id < compose g ms' r') := by
  intro g id
  obtain ⟨hb0, hb1, hmax, hmask, hshift, _⟩ := newIdGen_fields req
  obtain ⟨rb, hrb⟩ := Int.eq_ofNat_of_zero_le (by omega : 0 ≤ (newIdGen req).randBit)
  have h := layout_of_fields (newIdGen req) rb hrb (by omega) (by rw [hmax, hrb]; simp) hmask
    (by rw [hshift, hrb]) ms r hr0 hr1
  show 0 ≤ compose (newIdGen req) ms r ∧ compose (newIdGen req) ms r < 2 ^ 63 ∧
    compose (newIdGen req) ms r / 2 ^ (newIdGen req).randBit.toNat = ms % 2 ^ 41 ∧
    compose (newIdGen req) ms r % 2 ^ (newIdGen req).randBit.toNat = r ∧ _
  rw [hrb]
  simp only [Int.toNat_natCast]
  exact h

/-- "IDs taken at least a millisecond apart are increasing": `Generate()` reads
`time.Since(startTime).Milliseconds()` (truncated division of the nanosecond count by 10^6);
if two calls see elapsed times `d1 ≥ 0` and `d2 ≥ d1 + 1 ms` (nanoseconds, both before the
41-bit millisecond field is exhausted: 2^41 ms ≈ 69.7 years after the start time), the
second ID is strictly larger, whatever the two random parts and the requested `randBit`. -/
theorem c20_id_increasing (req d1 d2 r1 r2 : Int) (h0 : 0 ≤ d1) (hstep : d1 + 1000000 ≤ d2)
    (hlim : millis d2 < 2 ^ 41)
    (hr1 : 0 ≤ r1 ∧ r1 < (newIdGen req).randMax) (hr2 : 0 ≤ r2 ∧ r2 < (newIdGen req).randMax) :
    idGenerate (newIdGen req) d1 r1 < idGenerate (newIdGen req) d2 r2 := by
  obtain ⟨hm0, hm1⟩ := millis_step d1 d2 h0 hstep
  have e1 : millis d1 % 2 ^ 41 = millis d1 := Int.emod_eq_of_lt hm0 (by omega)
  have e2 : millis d2 % 2 ^ 41 = millis d2 := Int.emod_eq_of_lt (by omega) hlim
  exact (c20_id_layout req (millis d1) r1 hr1.1 hr1.2).2.2.2.2 (millis d2) r2 hr2.1 hr2.2
    (by rw [e1, e2]; omega)

/-- `Milliseconds()` truncates toward zero (tied to `time.Duration.Milliseconds` on every
run by the `millis` lines): boundary values incl. negatives and the ends of int64. -/
example : millis 999999 = 0 ∧ millis 1000000 = 1 ∧ millis (-999999) = 0 ∧ millis (-1000000) = -1 ∧
    millis (-1000001) = -1 ∧ millis (2 ^ 63 - 1) = 9223372036854 ∧ millis (-(2 ^ 63)) = -9223372036854 := by
  refine ⟨by decide +kernel, by decide +kernel, by decide +kernel, by decide +kernel, by decide +kernel,
    by decide +kernel, by decide +kernel⟩

/-- Non-vacuity: 0.9999 ms and 1.9999 ms after the start (exactly 1 ms apart), largest
random part first. -/
example : idGenerate (newIdGen 2) 999900 3 = 3 ∧ idGenerate (newIdGen 2) 1999900 0 = 4 := by
  constructor <;> decide +kernel

/-- Non-vacuity: the default generator (18 random bits) at the last millisecond before
the 41-bit time field wraps, with the largest random part. -/
example : compose (newIdGen 18) (2 ^ 41 - 1) (2 ^ 18 - 1) = 2 ^ 59 - 1 := by decide +kernel

/-- `String` / `Base2` / `Base36` are `strconv.FormatInt(int64(f), b)` with `b` = 10, 2, 36
(bases regenerated from the source), and the model of `FormatInt` writes the standard
numeral: for every base 2..36 the digits (each below the base, alphabet `0-9a-z`)
evaluate back to the value by Horner's rule, with a leading `-` exactly for negatives. -/
theorem c20_numerals :
    baseOfString = 10 ∧ baseOfBase2 = 2 ∧ baseOfBase36 = 36 ∧
    ∀ (b : Nat) (v : Int), 2 ≤ b → b ≤ 36 →
      ∃ ds, (formatInt v b).toList = (if v < 0 then '-' :: ds else ds) ∧
        ((evalDigits b ds : Nat) : Int) = (if v < 0 then -v else v) ∧ ∀ c ∈ ds, digitVal c < b := by
  refine ⟨by decide, by decide, by decide, ?_⟩
  intro b v hb2 hb36
  by_cases hv : v < 0
  · obtain ⟨h1, h2⟩ := evalDigits_natDigits b hb2 hb36 v.natAbs
    refine ⟨natDigits b v.natAbs [], by simp [formatInt, hv], ?_, h2⟩
    rw [h1]; simp only [hv, if_true]; omega
  · obtain ⟨h1, h2⟩ := evalDigits_natDigits b hb2 hb36 v.toNat
    refine ⟨natDigits b v.toNat [], by simp [formatInt, hv], ?_, h2⟩
    rw [h1]; simp only [hv, if_false]; omega

/-- Non-vacuity: `2^63 − 1` in base 36 and a negative value in base 2. -/
example : formatInt (2 ^ 63 - 1) 36 = "1y2p0ij32e8e7" ∧ formatInt (-5) 2 = "-101" := by
  constructor <;> decide +kernel

/-! ## StrGenerator (the random source is an arbitrary word stream `ws`) -/

/-- `NewStrGenerator` on a non-empty character set: `bits` is the bit length of the set
size `len`, `mask = 2^bits − 1`, so `2^(bits−1) ≤ len < 2^bits` (at least half of the index
values cut from a random word are acceptable) and at least one index fits in a word. -/
theorem c20_strgen_fields (cs : List Nat) (hne : Utf8.runes cs ≠ [])
    (hlt : (Utf8.runes cs).length < 2 ^ 63) :
    ∃ g, newStrGen cs = some g ∧ g.charSet = Utf8.runes cs ∧ 1 ≤ g.charIdxBits ∧
      g.charIdxMask = 2 ^ g.charIdxBits - 1 ∧ 2 ^ (g.charIdxBits - 1) ≤ g.charSet.length ∧
      g.charSet.length < 2 ^ g.charIdxBits ∧ g.charIdxMax = 63 / g.charIdxBits ∧ 1 ≤ g.charIdxMax :=
  newStrGen_spec cs hne hlt

/-- Whenever `Generate(n)` (`n ≥ 0`) returns, it returns exactly `n` runes, all drawn from
the character set; it never panics, whatever the random words are.  (Any generator
state, any set incl. multi-byte runes.) -/
theorem c20_str_when_returns (g : StrGen) (n : Nat) (ws : List Nat) :
    generate g n ws ≠ .panic ∧
    ∀ out rest, generate g n ws = .done out rest →
      out.length = n ∧ (∀ r ∈ out, r ∈ g.charSet) ∧ rest.length < ws.length := by
  rcases generate_spec g n ws with ⟨he, _⟩ | ⟨out, rest, hd, h1, h2, h3⟩
  · rw [he]; exact ⟨by simp, by intro out rest h; cases h⟩
  · rw [hd]
    refine ⟨by simp, ?_⟩
    intro out' rest' h
    cases h
    exact ⟨h1, h2, h3⟩

/-- Totality: if the words offered contain `n` acceptable indices (counting `charIdxMax`
indices per word), `Generate(n)` returns without asking for more words. -/
theorem c20_str_total (g : StrGen) (n : Nat) (ws : List Nat) (hne : ws ≠ [])
    (hoff : n ≤ offered g ws) : ∃ out rest, generate g n ws = .done out rest := by
  rcases generate_spec g n ws with ⟨_, h | h⟩ | ⟨out, rest, hd, _⟩
  · exact absurd h hne
  · omega
  · exact ⟨out, rest, hd⟩

/-- Termination, as a fuel bound in WORDS read from the random source, for every generator
state, every `n ≥ 0` and every word stream: if the first `k ≥ 1` words offer at least `n`
acceptable indices, `Generate(n)` returns exactly `n` runes having read at most `k` words;
in particular if every word offers at least `a` acceptable indices, `⌈n/a⌉` words (at least
one) suffice.  (`NewStrGenerator` guarantees that at least half of the `2^bits` index values
are acceptable, `c20_strgen_fields`; how many a WORD offers is up to the source.) -/
theorem c20_str_fuel_bound (g : StrGen) (n k : Nat) (ws : List Nat) (hk : 1 ≤ k) (hne : ws ≠ []) :
    (n ≤ offered g (ws.take k) →
      ∃ out rest, generate g n ws = .done out rest ∧ out.length = n ∧ ws.length - k ≤ rest.length) ∧
    (∀ a, (∀ w ∈ ws, a ≤ accepted g w g.charIdxMax) → k ≤ ws.length → n ≤ a * k →
      ∃ out rest, generate g n ws = .done out rest ∧ out.length = n ∧ ws.length - k ≤ rest.length) :=
  ⟨fun h => generate_within g n k ws hk hne h,
   fun a hall hkl hn => generate_within g n k ws hk hne
     (Nat.le_trans hn (offered_ge g a ws k hkl hall))⟩

/-- ... and the converse, which is a NON-TERMINATION witness for an accepted input: for every
non-empty character set, a `rand.Source` whose `Int63()` keeps returning `2^63 − 1` (all
index fields equal to the mask, which is never a valid index because `len < 2^bits`) makes
`Generate(n)`, `n ≥ 1`, read words forever — no number `k` of such words lets it return.
The property's "returns exactly n runes" presupposes a source that offers acceptable
indices infinitely often; with the package's own sources this has probability 1, it is not
a theorem about arbitrary `rand.Source` values (recorded in `Findings/C20Str.lean`). -/
theorem c20_str_never_returns (cs : List Nat) (hne : Utf8.runes cs ≠ [])
    (hlt : (Utf8.runes cs).length < 2 ^ 63) (n k : Nat) (hn : 1 ≤ n) :
    ∃ g, newStrGen cs = some g ∧ generate g n (List.replicate k (2 ^ 63 - 1)) = .exhausted := by
  obtain ⟨g, hg, _, _, hmask, _, hlen, hmax, _⟩ := c20_strgen_fields cs hne hlt
  refine ⟨g, hg, generate_never g n _ hn ?_⟩
  intro w hw
  rw [List.eq_of_mem_replicate hw]
  apply accepted_ones g hmask hlen
  rw [hmax]
  exact Nat.mul_div_le 63 _

/-- Non-vacuity of the bound: the set "abc" (2 index bits, 31 per word); words `0x1B`
(fields 3, 2, 1, 0, 0 …) offer 30 acceptable indices each: 31 runes need two words. -/
example : (newStrGen [97, 98, 99]).map (fun g => (accepted g 27 g.charIdxMax,
      match generate g 31 [27, 27, 27] with | .done out rest => (out.length, rest.length) | _ => (0, 0)))
    = some (30, (31, 1)) := by decide +kernel

/-- `Generate(0)` returns the empty string; the loop initialiser still reads one random
word (and only one). -/
theorem c20_str_zero (g : StrGen) (w : Nat) (ws : List Nat) :
    generate g 0 (w :: ws) = .done [] ws :=
  generate_zero g w ws

/-- `c20_str_fast_eq`: the linear-time generator the oracle executes (reversed
accumulator, one `reverse` at the end) is the statement-by-statement model `generate`, for
every generator state, every `n` and every word stream — so all theorems about `generate`
are about what the oracle answers, for `n` in the thousands too. -/
theorem c20_str_fast_eq (g : StrGen) (n : Int) (ws : List Nat) :
    generateFast g n ws = generate g n ws :=
  generateFast_eq g n ws

/-- The returned Go string (`string` of the runes written) decodes back to exactly the
`n` runes written, for a generator built by `NewStrGenerator` from ANY byte string as
character set (multi-byte runes; invalid bytes count as U+FFFD). -/
theorem c20_str_runes (cs : List Nat) (g : StrGen) (hg : newStrGen cs = some g) (n : Nat)
    (ws : List Nat) (out : List Int) (rest : List Nat) (h : generate g n ws = .done out rest) :
    Utf8.runes (Utf8.encode out) = out ∧ Utf8.runeCount (Utf8.encode out) = n ∧
      ∀ r ∈ out, r ∈ Utf8.runes cs := by
  have hcs : g.charSet = Utf8.runes cs := by
    simp only [newStrGen] at hg
    split at hg
    · cases hg
    · cases hg; rfl
  obtain ⟨hlen, hmem, _⟩ := (c20_str_when_returns g n ws).2 out rest h
  have hvalid : ∀ r ∈ out, Utf8.validRune r = true :=
    fun r hr => Utf8.runes_validRune cs r (hcs ▸ hmem r hr)
  exact ⟨Utf8.runes_encode out hvalid, by rw [Utf8.runeCount_encode out hvalid, hlen],
    fun r hr => hcs ▸ hmem r hr⟩

/-- Non-vacuity: the set "你好é" (3 runes, 2 index bits), a word whose indices are
3 (rejected), 0, 1, 2: three runes come out of one word. -/
example : (newStrGen [0xe4, 0xbd, 0xa0, 0xe5, 0xa5, 0xbd, 0xc3, 0xa9]).map
    (fun g => generate g 3 [0b10010011]) = some (.done [0x4f60, 0x597d, 0xe9] []) := by
  decide +kernel

/-! ## CountGenerator -/

/-- `AddRule` keeps the rules sorted by period and all parameters positive, from the empty
generator and for any order of insertion. -/
theorem c20_addrule_sorted (xs : List Rule) (hx : ∀ v ∈ xs, v.OK) :
    Sorted 0 (xs.foldl addRule []) ∧ ∀ v ∈ xs.foldl addRule [], v.OK :=
  foldl_addRule_ok xs hx [] trivial (by simp)

/-- `AddRule` stores exactly the rules it was given (a permutation), whatever the order of
the calls. -/
theorem c20_addrule_perm (xs : List Rule) : (xs.foldl addRule []).Perm xs := by
  have := foldl_addRule_perm xs []
  simp only [List.append_nil] at this
  exact this.trans (List.reverse_perm xs)

/-- `Min(diff) ≤ Generate(id, diff) ≤ Max(diff)`, and none of the three panics, for every
rule list sorted by period with positive parameters (each fitting a Go `int`: `Rule.OK`), every\nhash value and every `diff`.  (Before the repair of F14 `getRand` used `uint32(max)` and a\nparameter that is a multiple of 2^32 divided by zero: `Golib/Findings/C20Count.lean`.) -/
theorem c20_count_bounds (rs : List Rule) (hs : Sorted 0 rs) (hok : ∀ v ∈ rs, v.OK)
    (hn : Nat) (diff : Int) :
    ∃ g mn mx, countGenerate rs hn diff = some g ∧ countMin rs diff = some mn ∧
      countMax rs diff = some mx ∧ mn ≤ g ∧ g ≤ mx ∧ 0 ≤ g := by
  by_cases hd : diff ≤ 0
  · exact ⟨0, 0, 0, by simp [countGenerate, hd], by simp [countMin, hd], by simp [countMax, hd],
      by omega, by omega, by omega⟩
  · obtain ⟨g, mn, mx, h1, h2, h3, b1, b2, b3⟩ :=
      loops_bounds hn diff rs 0 0 0 0 hs hok (by omega) (Int.le_refl _) (Int.le_refl _)
    exact ⟨g, mn, mx, by simp only [countGenerate, hd, if_false]; exact h1,
      by simp only [countMin, hd, if_false]; exact h2,
      by simp only [countMax, hd, if_false]; exact h3, b1, b2, b3⟩

/-- `Generate(id, ·)` is non-decreasing in the elapsed time. -/
theorem c20_count_mono (rs : List Rule) (hs : Sorted 0 rs) (hok : ∀ v ∈ rs, v.OK)
    (hn : Nat) (d1 d2 : Int) (hd : d1 ≤ d2) :
    ∃ g1 g2, countGenerate rs hn d1 = some g1 ∧ countGenerate rs hn d2 = some g2 ∧ g1 ≤ g2 := by
  by_cases h2 : d2 ≤ 0
  · have h1 : d1 ≤ 0 := by omega
    exact ⟨0, 0, by simp [countGenerate, h1], by simp [countGenerate, h2], Int.le_refl _⟩
  · by_cases h1 : d1 ≤ 0
    · obtain ⟨g, _, _, hg, _, _, _, _, b3⟩ :=
        loops_bounds hn d2 rs 0 0 0 0 hs hok (by omega) (Int.le_refl _) (Int.le_refl _)
      exact ⟨0, g, by simp [countGenerate, h1], by simp only [countGenerate, h2, if_false]; exact hg, b3⟩
    · obtain ⟨g1, g2, e1, e2, hle⟩ := genLoop_mono hn d1 d2 hd rs 0 0 hs hok (by omega)
      exact ⟨g1, g2, by simp only [countGenerate, h1, if_false]; exact e1,
        by simp only [countGenerate, h2, if_false]; exact e2, hle⟩

/-- Order-independence among equal periods: `sort.Slice` is not stable, so the model's
insertion order (`c20_addrule_sorted`) is only one of the orders `AddRule` may leave.  The
property does not depend on it: for EVERY arrangement `rs` of the given rules that is sorted
by period (rules of equal period in any relative order), bounds and monotonicity hold.
(`Generate` itself does depend on that order — of two rules with the same period only the
first contributes its slope — but `Min`/`Max` read the same slice.) -/
theorem c20_count_any_order (xs rs : List Rule) (hp : rs.Perm xs) (hs : Sorted 0 rs)
    (hx : ∀ v ∈ xs, v.OK) (hn : Nat) (d1 d2 : Int) (hd : d1 ≤ d2) :
    ∃ g1 g2 mn mx, countGenerate rs hn d1 = some g1 ∧ countGenerate rs hn d2 = some g2 ∧
      countMin rs d2 = some mn ∧ countMax rs d2 = some mx ∧ g1 ≤ g2 ∧ mn ≤ g2 ∧ g2 ≤ mx := by
  have hok : ∀ v ∈ rs, v.OK := fun v hv => hx v (hp.mem_iff.mp hv)
  obtain ⟨g1, g2, e1, e2, hle⟩ := c20_count_mono rs hs hok hn d1 d2 hd
  obtain ⟨g, mn, mx, e3, e4, e5, b1, b2, _⟩ := c20_count_bounds rs hs hok hn d2
  rw [e2] at e3
  cases e3
  exact ⟨g1, g2, mn, mx, e1, e2, e4, e5, hle, b1, b2⟩

/-- Non-vacuity: two rules with the same period in both orders: both arrangements are
sorted, `Generate` differs between them (only the first rule's slope counts), and each
stays within its own `Min`/`Max`. -/
example : Sorted 0 [⟨10, 5, 1, 4⟩, ⟨10, 7, 2, 3⟩] ∧ Sorted 0 [⟨10, 7, 2, 3⟩, ⟨10, 5, 1, 4⟩] ∧
    countGenerate [⟨10, 5, 1, 4⟩, ⟨10, 7, 2, 3⟩] 2 9 = some 27 ∧
    countGenerate [⟨10, 7, 2, 3⟩, ⟨10, 5, 1, 4⟩] 2 9 = some 12 ∧
    countMax [⟨10, 7, 2, 3⟩, ⟨10, 5, 1, 4⟩] 9 = some 12 := by
  refine ⟨⟨by decide, by decide, trivial⟩, ⟨by decide, by decide, trivial⟩, by decide +kernel,
    by decide +kernel, by decide +kernel⟩

/-- Value copies of `CountGenerator` (`b := *a`; outside the property: every method has a
pointer receiver and the property speaks of one generator).  What the model says, so that
the judgement is explicit — `AddRule` through the original
* with NO spare capacity (`len = cap`) allocates: the copy still shows exactly its rules;
* with spare capacity (`len < cap`) sorts the SHARED array in place: the copy shows the
  first `len` elements of the sorted `len+1` rules — still sorted by period, but if the new
  rule is not the largest the copy has silently lost its last rule and gained the new one.
Either way the copy's view is sorted with positive parameters, so `c20_count_bounds` and
`c20_count_mono` keep holding for the copy AS A FUNCTION OF ITS CURRENT VIEW; what is lost is
that the view is the rule set the copy was given.  (Extra `count-copy-aliasing` observes
both cases on the real code, reading `cap` through reflection.) -/
theorem c20_count_copy_aliasing (s : RuleSlice) (x : Rule) (newCap : Nat) :
    (s.len = s.arr.length → s.copyViewAfter x newCap = s.view) ∧
    (s.len < s.arr.length →
      s.copyViewAfter x newCap = ((s.view ++ [x]).foldl addRule []).take s.len) := by
  constructor
  · intro h
    have : ¬ (s.len < s.arr.length) := by omega
    simp only [RuleSlice.copyViewAfter, RuleSlice.add, this, if_false, if_true]
  · intro h
    have hlen : ((s.view ++ [x]).foldl addRule []).length = s.len + 1 := by
      have := (c20_addrule_perm (s.view ++ [x])).length_eq
      rw [this]
      simp only [RuleSlice.view, List.length_append, List.length_take, List.length_singleton]
      omega
    simp only [RuleSlice.copyViewAfter, RuleSlice.add, h, if_true, Bool.false_eq_true, if_false]
    rw [List.take_append_of_le_length (by omega)]

/-- Non-vacuity: capacity 4 holding periods 10, 20, 30; `AddRule(5, …)` through the
original: the copy now shows 5, 10, 20 (30 is gone); with capacity 3 it still shows
10, 20, 30. -/
example :
    (RuleSlice.copyViewAfter ⟨[⟨10,1,1,1⟩, ⟨20,1,1,1⟩, ⟨30,1,1,1⟩, ⟨0,0,0,0⟩], 3⟩ ⟨5,1,1,1⟩ 8).map (·.period)
      = [5, 10, 20] ∧
    (RuleSlice.copyViewAfter ⟨[⟨10,1,1,1⟩, ⟨20,1,1,1⟩, ⟨30,1,1,1⟩], 3⟩ ⟨5,1,1,1⟩ 6).map (·.period)
      = [10, 20, 30] := by
  constructor <;> decide +kernel

/-- Non-vacuity: the rule set of the package's own test (with its zero parameters made
positive) is sorted and positive; a value across two period boundaries. -/
example : Sorted 0 [⟨1800, 100, 3, 2⟩, ⟨86400, 300, 15, 3⟩] ∧
    (⟨1800, 100, 3, 2⟩ : Rule).OK ∧ countGenerate [⟨1800, 100, 3, 2⟩, ⟨86400, 300, 15, 3⟩] 7 90000 = some 12496 := by
  refine ⟨⟨by decide, by decide, trivial⟩, ⟨by decide, by decide, by decide, by decide, by decide, by decide⟩, by decide +kernel⟩

/-! ## Regenerated tie (wave 9): `randz/count.go` and `hashz.BKDRHash` translated by `go2lean`

`Golib/Gen/TransC20.lean` is regenerated from the tree under verification on every run.  The
theorems below say that what the code says NOW is the hand-written model the theorems above are
about.  Abstraction (`Proof/C20Trans.lean`): the generated `rule` has all five Go fields, the
model's `Rule` the four that are read (`absRule`, `absRules`); a model-side `none` (Go panic) is
`Res.panic` (`resOfOption`); the hash is `BitVec 32` in the generated code and `Nat` in the model;
a string is its list of bytes.  `int` is the unbounded `Int` on both sides (the generated file's
header lists the expressions).  `AddRule` is outside the subset (`sort.Slice`: GoSem gives no
semantics to an unstable sort; `c20_count_any_order` covers every order it may leave). -/

/-- TIE: the translated `getRand` equals the model's `getRand` for every hash word and every `max`
(panic exactly where `uint64(max)` is 0 for a non-zero unbounded `max`, which no Go `int` is). -/
theorem c20_trans_CountGenerator_getRand (r : GCount) (n : BitVec 32) (max : Int) :
    Golib.Gen.Trans.C20.CountGenerator_getRand r n max = resOfOption (getRand n.toNat max) :=
  trans_getRand r n max

/-- TIE: the translated `Max` (a `range` loop with an early `return`) equals the model's
`countMax` on every rule list and `diff`; panic exactly where the model panics (division by a zero
`interval`); fuel `len(rules) + 1` suffices. -/
theorem c20_trans_CountGenerator_Max (r : GCount) (diff : Int) :
    Golib.Gen.Trans.C20.CountGenerator_Max r diff = resOfOption (countMax (absRules r) diff) :=
  trans_max r diff

/-- TIE: the translated `Min` equals the model's `countMin`. -/
theorem c20_trans_CountGenerator_Min (r : GCount) (diff : Int) :
    Golib.Gen.Trans.C20.CountGenerator_Min r diff = resOfOption (countMin (absRules r) diff) :=
  trans_min r diff

/-- TIE: the translated `hashz.BKDRHash` (on the bytes of a string) is the model's `bkdrHash`
(a 31-bit value, so reading it back as a number loses nothing); no panic, fuel `len(s) + 1`. -/
theorem c20_trans_BKDRHash (s : List (BitVec 8)) :
    Golib.Gen.Trans.C20.BKDRHash s = .ok (BitVec.ofNat 32 (bkdrHash (s.map BitVec.toNat))) ∧
    (BitVec.ofNat 32 (bkdrHash (s.map BitVec.toNat))).toNat = bkdrHash (s.map BitVec.toNat) :=
  ⟨trans_bkdr s, trans_bkdr_toNat s⟩

/-- TIE: the translated `Generate` (hash of the id, then the `range` loop calling `getRand` twice
per rule) equals the model's `countGenerate` at the model's hash of the id's bytes. -/
theorem c20_trans_CountGenerator_Generate (r : GCount) (id : List (BitVec 8)) (diff : Int) :
    Golib.Gen.Trans.C20.CountGenerator_Generate r id diff
      = resOfOption (countGenerate (absRules r) (bkdrHash (id.map BitVec.toNat)) diff) :=
  trans_generate r id diff

/-- The property clause on the GENERATED definitions: for a receiver whose rules are sorted by
period with positive parameters, `Min`, `Generate`, `Max` return (no panic, no fuel) and
`Min(diff) ≤ Generate(id, diff) ≤ Max(diff)`, `0 ≤ Generate`, for every id and `diff`. -/
theorem c20_trans_count_bounds (r : GCount) (hs : Sorted 0 (absRules r))
    (hok : ∀ v ∈ absRules r, v.OK) (id : List (BitVec 8)) (diff : Int) :
    ∃ g mn mx, Golib.Gen.Trans.C20.CountGenerator_Generate r id diff = .ok g ∧
      Golib.Gen.Trans.C20.CountGenerator_Min r diff = .ok mn ∧
      Golib.Gen.Trans.C20.CountGenerator_Max r diff = .ok mx ∧ mn ≤ g ∧ g ≤ mx ∧ 0 ≤ g := by
  obtain ⟨g, mn, mx, e1, e2, e3, b⟩ :=
    c20_count_bounds (absRules r) hs hok (bkdrHash (id.map BitVec.toNat)) diff
  exact ⟨g, mn, mx, by rw [trans_generate, e1]; rfl, by rw [trans_min, e2]; rfl,
    by rw [trans_max, e3]; rfl, b⟩

/-- The monotonicity clause on the GENERATED `Generate`: non-decreasing in `diff`. -/
theorem c20_trans_count_mono (r : GCount) (hs : Sorted 0 (absRules r))
    (hok : ∀ v ∈ absRules r, v.OK) (id : List (BitVec 8)) (d1 d2 : Int) (hd : d1 ≤ d2) :
    ∃ g1 g2, Golib.Gen.Trans.C20.CountGenerator_Generate r id d1 = .ok g1 ∧
      Golib.Gen.Trans.C20.CountGenerator_Generate r id d2 = .ok g2 ∧ g1 ≤ g2 := by
  obtain ⟨g1, g2, e1, e2, h⟩ :=
    c20_count_mono (absRules r) hs hok (bkdrHash (id.map BitVec.toNat)) d1 d2 hd
  exact ⟨g1, g2, by rw [trans_generate, e1]; rfl, by rw [trans_generate, e2]; rfl, h⟩

/-- Non-vacuity: two rules (the doc comment's shape), id "ab": the generated functions run, the
value lies between `Min` and `Max`; a zero `interval` panics; `quickNum` is not read. -/
example :
    Golib.Gen.Trans.C20.CountGenerator_Generate ⟨[⟨60, 5, 10, 2, 0⟩, ⟨3600, 100, 60, 7, 9⟩]⟩ [0x61, 0x62] 200 = .ok 19 ∧
    Golib.Gen.Trans.C20.CountGenerator_Min ⟨[⟨60, 5, 10, 2, 0⟩, ⟨3600, 100, 60, 7, 9⟩]⟩ 200 = .ok 9 ∧
    Golib.Gen.Trans.C20.CountGenerator_Max ⟨[⟨60, 5, 10, 2, 0⟩, ⟨3600, 100, 60, 7, 9⟩]⟩ 200 = .ok 31 ∧
    Golib.Gen.Trans.C20.CountGenerator_Max ⟨[⟨60, 5, 0, 2, 0⟩]⟩ 200 = .panic ∧
    Golib.Gen.Trans.C20.BKDRHash [0x61, 0x62] = .ok 12805#32 ∧
    Golib.Gen.Trans.C20.CountGenerator_getRand ⟨[]⟩ 12805#32 7 = .ok 3 ∧
    Sorted 0 (absRules ⟨[⟨60, 5, 10, 2, 0⟩, ⟨3600, 100, 60, 7, 9⟩]⟩) := by
  refine ⟨by decide +kernel, by decide +kernel, by decide +kernel, by decide +kernel,
    by decide +kernel, by decide +kernel, ⟨by decide, by decide, trivial⟩⟩

/-! ## Regenerated tie (wave 9), continued: `randz/id.go`

The package-level array `decodeBase32Map` is explicit state of the translation (target option
"globals"): a parameter of the translated `ParseBase32`, in-out for the translated `init`. -/

/-- TIE (table): the translated first `init()` of `randz/id.go`, started on the zero array (what Go
hands it), returns — no panic, fuel 257 per loop suffices — a 256-entry table that is the
model's `decodeTable`, the table `c20_table` and all base-32 theorems are about. -/
theorem c20_trans_init_table :
    Golib.Gen.Trans.C20.init_0 (List.replicate 256 0#8) = .ok transTable ∧
    decodeTable = some (transTable.map BitVec.toNat) ∧ transTable.length = 256 :=
  trans_init_table

/-- TIE: the translated `ParseBase32` at the table the translated `init` builds is the model's
`parseBase32` (value modulo 2^64 as Go's `int64`, `(-1, ErrInvalidBase32)` at the first byte
outside the alphabet, never a panic: `c20_base32_rejects`/`accepts` speak about this function).
For an arbitrary table `tab` it is `parseBase32With tab` (`trans_parse`). -/
theorem c20_trans_ParseBase32 (b : List (BitVec 8)) :
    Golib.Gen.Trans.C20.ParseBase32 b transTable = resOfParse (parseBase32 (b.map BitVec.toNat)) := by
  rw [trans_parse]
  unfold parseBase32
  rw [trans_init_table.2.1]

/-- Non-vacuity: "1z" parses to 63, "1i" is rejected (`i` is not in the alphabet), entries of the
table. -/
example :
    Golib.Gen.Trans.C20.ParseBase32 [0x31, 0x7a] transTable = .ok (63#64, GoSem.Err.nil) ∧
    Golib.Gen.Trans.C20.ParseBase32 [0x31, 0x69] transTable
      = .ok (BitVec.ofInt 64 (-1), GoSem.Err.mk "github.com/welllog/golib/randz.ErrInvalidBase32" []) ∧
    transTable[0x7a]? = some 31#8 ∧ transTable[0x69]? = some 255#8 := by
  decide +kernel

end Golib.C20
