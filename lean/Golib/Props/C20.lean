/-
C20 — randz identifiers and random strings have the documented shape.  ONLY property
theorems and non-vacuity examples live here; helper lemmas are in `Golib/Proof/C20*.lean`.

The decode table is built by the model of the two `init` loops with the loop bounds,
the alphabet and the marks taken from `Golib.Gen.C20` (regenerated from randz/id.go on
every run), so `c20_table` and everything resting on it is re-checked against the source.
-/
import Golib.Proof.C20Base32
import Golib.Proof.C20Layout
import Golib.Proof.C20Str
import Golib.Proof.C20Utf8
import Golib.Proof.C20Count
import Golib.Proof.C20Numeral

namespace Golib.C20
open Golib.Gen.C20

/-- The 256-entry decode table after package initialisation: every byte outside the
32-character alphabet maps to the mark `ParseBase32` rejects (0xFF), and the `i`-th
alphabet character maps to `i`.  (False for the code before the fix of F10: the first
init loop only covered indices < 32 — see `Golib/Findings/C20.lean`.) -/
theorem c20_table :
    ∃ t, decodeTable = some t ∧ t.length = 256 ∧
      (∀ b, b < 256 → (t[b]? = some 0xFF ↔ b ∉ alphabet)) ∧
      (∀ i, i < 32 → ∃ c, alphabet[i]? = some c ∧ t[c]? = some i) := by
  obtain ⟨t, ht, hs⟩ := decodeTable_spec
  refine ⟨t, ht, hs.len, ?_, hs.decode⟩
  intro b hb
  have := hs.reject b hb
  rw [hs.mark] at this
  exact this

/-- For every non-negative ID (all of `[0, 2^63)`), `ParseBase32(id.Base32()) = id`; the
numeral is non-empty and uses only alphabet characters; neither function panics. -/
theorem c20_base32_roundtrip (id : Int) (h0 : 0 ≤ id) (h1 : id < 2 ^ 63) :
    ∃ s, base32 id = some s ∧ s ≠ [] ∧ (∀ c ∈ s, c ∈ alphabet) ∧ parseBase32 s = .ok id := by
  obtain ⟨t, ht, hs⟩ := decodeTable_spec
  obtain ⟨s, h1', h2, h3, h4⟩ := roundtrip_with t hs id h0 h1
  exact ⟨s, h1', h2, h3, by rw [parseBase32_eq t ht]; exact h4⟩

/-- `ParseBase32` returns `ErrInvalidBase32` for EVERY input (any length, each of the 256
byte values in each position) that contains a byte outside the alphabet. -/
theorem c20_base32_rejects (bs : List Nat) (hbytes : ∀ b ∈ bs, b < 256)
    (hbad : ∃ b ∈ bs, b ∉ alphabet) : parseBase32 bs = .invalid := by
  obtain ⟨t, ht, hs⟩ := decodeTable_spec
  rw [parseBase32_eq t ht, parseBase32With]
  apply parseLoop_rejects t bs 0 (fun c hc => by rw [hs.len]; exact hbytes c hc)
  obtain ⟨b, hb, hnb⟩ := hbad
  exact ⟨b, hb, (hs.reject b (hbytes b hb)).mpr hnb⟩

/-- ... and accepts every string over the alphabet (so rejection is exact). -/
theorem c20_base32_accepts (bs : List Nat) (hall : ∀ b ∈ bs, b ∈ alphabet) :
    ∃ id, parseBase32 bs = .ok id := by
  obtain ⟨t, ht, hs⟩ := decodeTable_spec
  have hlt : ∀ b ∈ alphabet, b < 256 := by decide
  rw [parseBase32_eq t ht, parseBase32With]
  refine ⟨_, parseLoop_accepts t bs 0 ?_⟩
  intro c hc
  have hc256 : c < t.length := by rw [hs.len]; exact hlt c (hall c hc)
  refine ⟨t[c], List.getElem?_eq_getElem hc256, ?_⟩
  intro hm
  have := (hs.reject c (hlt c (hall c hc))).mp (by rw [List.getElem?_eq_getElem hc256, hm])
  exact this (hall c hc)

/-- Non-vacuity: a concrete ID, its numeral, and a rejected input (`"1!"`). -/
example : base32 1234567 = some [49, 53, 110, 109, 55] ∧ parseBase32 [49, 33] = .invalid := by
  constructor <;> decide +kernel

/-- `NewIdGenerator`: between 2 and 22 random bits (the requested number when it is in
range, 16 below, 22 above), `randMax = 2^randBit`, a 41-bit time mask, shift = randBit. -/
theorem c20_idgen_fields (req : Int) :
    let g := newIdGen req
    2 ≤ g.randBit ∧ g.randBit ≤ 22 ∧ g.randMax = 2 ^ g.randBit.toNat ∧ g.timeMask = 2 ^ 41 - 1 ∧
    g.timeShift = g.randBit ∧ (2 ≤ req → req ≤ 22 → g.randBit = req) ∧
    (req ≤ 1 → g.randBit = 16) ∧ (22 < req → g.randBit = 22) :=
  newIdGen_fields req

/-- Bit layout of a generated ID, for every requested `randBit`, every elapsed time `ms`
(any `int64`, negative included) and every random part `r < randMax`: the ID is
non-negative, carries `ms mod 2^41` above its `randBit` random bits and `r` in them;
hence IDs are strictly increasing in the (41-bit) millisecond count whatever the random
parts are. -/
theorem c20_id_layout (req ms r : Int) (hr0 : 0 ≤ r) (hr1 : r < (newIdGen req).randMax) :
    let g := newIdGen req
    let id := compose g ms r
    0 ≤ id ∧ id < 2 ^ 63 ∧ id / 2 ^ g.randBit.toNat = ms % 2 ^ 41 ∧ id % 2 ^ g.randBit.toNat = r ∧
    (∀ ms' r', 0 ≤ r' → r' < g.randMax → ms % 2 ^ 41 < ms' % 2 ^ 41 → id < compose g ms' r') := by
  intro g id
  obtain ⟨hb0, hb1, hmax, hmask, hshift, _⟩ := newIdGen_fields req
  obtain ⟨rb, hrb⟩ := Int.eq_ofNat_of_zero_le (by omega : 0 ≤ (newIdGen req).randBit)
  have h := layout_of_fields (newIdGen req) rb hrb (by omega) (by rw [hmax, hrb]; simp) hmask
    (by rw [hshift, hrb]) ms r hr0 hr1
  show 0 ≤ compose (newIdGen req) ms r ∧ compose (newIdGen req) ms r < 2 ^ 63 ∧
    compose (newIdGen req) ms r / 2 ^ (newIdGen req).randBit.toNat = ms % 2 ^ 41 ∧
    compose (newIdGen req) ms r % 2 ^ (newIdGen req).randBit.toNat = r ∧ _
  rw [hrb]
  simp only [Int.toNat_natCast]
  exact h

/-- Non-vacuity: the default generator (18 random bits) at the last millisecond before
the 41-bit time field wraps, with the largest random part. -/
example : compose (newIdGen 18) (2 ^ 41 - 1) (2 ^ 18 - 1) = 2 ^ 59 - 1 := by decide +kernel

/-- `String` / `Base2` / `Base36` are `strconv.FormatInt(int64(f), b)` with `b` = 10, 2, 36
(bases regenerated from the source), and the model of `FormatInt` writes the standard
numeral: for every base 2..36 the digits (each below the base, alphabet `0-9a-z`)
evaluate back to the value by Horner's rule, with a leading `-` exactly for negatives. -/
theorem c20_numerals :
    baseOfString = 10 ∧ baseOfBase2 = 2 ∧ baseOfBase36 = 36 ∧
    ∀ (b : Nat) (v : Int), 2 ≤ b → b ≤ 36 →
      ∃ ds, (formatInt v b).toList = (if v < 0 then '-' :: ds else ds) ∧
        ((evalDigits b ds : Nat) : Int) = (if v < 0 then -v else v) ∧ ∀ c ∈ ds, digitVal c < b := by
  refine ⟨by decide, by decide, by decide, ?_⟩
  intro b v hb2 hb36
  by_cases hv : v < 0
  · obtain ⟨h1, h2⟩ := evalDigits_natDigits b hb2 hb36 v.natAbs
    refine ⟨natDigits b v.natAbs [], by simp [formatInt, hv], ?_, h2⟩
    rw [h1]; simp only [hv, if_true]; omega
  · obtain ⟨h1, h2⟩ := evalDigits_natDigits b hb2 hb36 v.toNat
    refine ⟨natDigits b v.toNat [], by simp [formatInt, hv], ?_, h2⟩
    rw [h1]; simp only [hv, if_false]; omega

/-- Non-vacuity: `2^63 − 1` in base 36 and a negative value in base 2. -/
example : formatInt (2 ^ 63 - 1) 36 = "1y2p0ij32e8e7" ∧ formatInt (-5) 2 = "-101" := by
  constructor <;> decide +kernel

/-! ## StrGenerator (the random source is an arbitrary word stream `ws`) -/

/-- `NewStrGenerator` on a non-empty character set: `bits` is the bit length of the set
size `len`, `mask = 2^bits − 1`, so `2^(bits−1) ≤ len < 2^bits` (at least half of the index
values cut from a random word are acceptable) and at least one index fits in a word. -/
theorem c20_strgen_fields (cs : List Nat) (hne : Utf8.runes cs ≠ [])
    (hlt : (Utf8.runes cs).length < 2 ^ 63) :
    ∃ g, newStrGen cs = some g ∧ g.charSet = Utf8.runes cs ∧ 1 ≤ g.charIdxBits ∧
      g.charIdxMask = 2 ^ g.charIdxBits - 1 ∧ 2 ^ (g.charIdxBits - 1) ≤ g.charSet.length ∧
      g.charSet.length < 2 ^ g.charIdxBits ∧ g.charIdxMax = 63 / g.charIdxBits ∧ 1 ≤ g.charIdxMax :=
  newStrGen_spec cs hne hlt

/-- Whenever `Generate(n)` (`n ≥ 0`) returns, it returns exactly `n` runes, all drawn from
the character set; it never panics, whatever the random words are.  (Any generator
state, any set incl. multi-byte runes.) -/
theorem c20_str_partial (g : StrGen) (n : Nat) (ws : List Nat) :
    generate g n ws ≠ .panic ∧
    ∀ out rest, generate g n ws = .done out rest →
      out.length = n ∧ (∀ r ∈ out, r ∈ g.charSet) ∧ rest.length < ws.length := by
  rcases generate_spec g n ws with ⟨he, _⟩ | ⟨out, rest, hd, h1, h2, h3⟩
  · rw [he]; exact ⟨by simp, by intro out rest h; cases h⟩
  · rw [hd]
    refine ⟨by simp, ?_⟩
    intro out' rest' h
    cases h
    exact ⟨h1, h2, h3⟩

/-- Totality: if the words offered contain `n` acceptable indices (counting `charIdxMax`
indices per word), `Generate(n)` returns without asking for more words. -/
theorem c20_str_total (g : StrGen) (n : Nat) (ws : List Nat) (hne : ws ≠ [])
    (hoff : n ≤ offered g ws) : ∃ out rest, generate g n ws = .done out rest := by
  rcases generate_spec g n ws with ⟨_, h | h⟩ | ⟨out, rest, hd, _⟩
  · exact absurd h hne
  · omega
  · exact ⟨out, rest, hd⟩

/-- The returned Go string (`string` of the runes written) decodes back to exactly the
`n` runes written, for a generator built by `NewStrGenerator` from ANY byte string as
character set (multi-byte runes; invalid bytes count as U+FFFD). -/
theorem c20_str_runes (cs : List Nat) (g : StrGen) (hg : newStrGen cs = some g) (n : Nat)
    (ws : List Nat) (out : List Int) (rest : List Nat) (h : generate g n ws = .done out rest) :
    Utf8.runes (Utf8.encode out) = out ∧ Utf8.runeCount (Utf8.encode out) = n ∧
      ∀ r ∈ out, r ∈ Utf8.runes cs := by
  have hcs : g.charSet = Utf8.runes cs := by
    simp only [newStrGen] at hg
    split at hg
    · cases hg
    · cases hg; rfl
  obtain ⟨hlen, hmem, _⟩ := (c20_str_partial g n ws).2 out rest h
  have hvalid : ∀ r ∈ out, Utf8.validRune r = true :=
    fun r hr => Utf8.runes_validRune cs r (hcs ▸ hmem r hr)
  exact ⟨Utf8.runes_encode out hvalid, by rw [Utf8.runeCount_encode out hvalid, hlen],
    fun r hr => hcs ▸ hmem r hr⟩

/-- Non-vacuity: the set "你好é" (3 runes, 2 index bits), a word whose indices are
3 (rejected), 0, 1, 2: three runes come out of one word. -/
example : (newStrGen [0xe4, 0xbd, 0xa0, 0xe5, 0xa5, 0xbd, 0xc3, 0xa9]).map
    (fun g => generate g 3 [0b10010011]) = some (.done [0x4f60, 0x597d, 0xe9] []) := by
  decide +kernel

/-! ## CountGenerator -/

/-- `AddRule` keeps the rules sorted by period and all parameters positive, from the empty
generator and for any order of insertion. -/
theorem c20_addrule_sorted (xs : List Rule) (hx : ∀ v ∈ xs, v.OK) :
    Sorted 0 (xs.foldl addRule []) ∧ ∀ v ∈ xs.foldl addRule [], v.OK :=
  foldl_addRule_ok xs hx [] trivial (by simp)

/-- `Min(diff) ≤ Generate(id, diff) ≤ Max(diff)`, and none of the three panics, for every
rule list sorted by period with positive parameters (each fitting a Go `int`: `Rule.OK`), every\nhash value and every `diff`.  (Before the repair of F14 `getRand` used `uint32(max)` and a\nparameter that is a multiple of 2^32 divided by zero: `Golib/Findings/C20Count.lean`.) -/
theorem c20_count_bounds (rs : List Rule) (hs : Sorted 0 rs) (hok : ∀ v ∈ rs, v.OK)
    (hn : Nat) (diff : Int) :
    ∃ g mn mx, countGenerate rs hn diff = some g ∧ countMin rs diff = some mn ∧
      countMax rs diff = some mx ∧ mn ≤ g ∧ g ≤ mx ∧ 0 ≤ g := by
  by_cases hd : diff ≤ 0
  · exact ⟨0, 0, 0, by simp [countGenerate, hd], by simp [countMin, hd], by simp [countMax, hd],
      by omega, by omega, by omega⟩
  · obtain ⟨g, mn, mx, h1, h2, h3, b1, b2, b3⟩ :=
      loops_bounds hn diff rs 0 0 0 0 hs hok (by omega) (Int.le_refl _) (Int.le_refl _)
    exact ⟨g, mn, mx, by simp only [countGenerate, hd, if_false]; exact h1,
      by simp only [countMin, hd, if_false]; exact h2,
      by simp only [countMax, hd, if_false]; exact h3, b1, b2, b3⟩

/-- `Generate(id, ·)` is non-decreasing in the elapsed time. -/
theorem c20_count_mono (rs : List Rule) (hs : Sorted 0 rs) (hok : ∀ v ∈ rs, v.OK)
    (hn : Nat) (d1 d2 : Int) (hd : d1 ≤ d2) :
    ∃ g1 g2, countGenerate rs hn d1 = some g1 ∧ countGenerate rs hn d2 = some g2 ∧ g1 ≤ g2 := by
  by_cases h2 : d2 ≤ 0
  · have h1 : d1 ≤ 0 := by omega
    exact ⟨0, 0, by simp [countGenerate, h1], by simp [countGenerate, h2], Int.le_refl _⟩
  · by_cases h1 : d1 ≤ 0
    · obtain ⟨g, _, _, hg, _, _, _, _, b3⟩ :=
        loops_bounds hn d2 rs 0 0 0 0 hs hok (by omega) (Int.le_refl _) (Int.le_refl _)
      exact ⟨0, g, by simp [countGenerate, h1], by simp only [countGenerate, h2, if_false]; exact hg, b3⟩
    · obtain ⟨g1, g2, e1, e2, hle⟩ := genLoop_mono hn d1 d2 hd rs 0 0 hs hok (by omega)
      exact ⟨g1, g2, by simp only [countGenerate, h1, if_false]; exact e1,
        by simp only [countGenerate, h2, if_false]; exact e2, hle⟩

/-- Non-vacuity: the rule set of the package's own test (with its zero parameters made
positive) is sorted and positive; a value across two period boundaries. -/
example : Sorted 0 [⟨1800, 100, 3, 2⟩, ⟨86400, 300, 15, 3⟩] ∧
    (⟨1800, 100, 3, 2⟩ : Rule).OK ∧ countGenerate [⟨1800, 100, 3, 2⟩, ⟨86400, 300, 15, 3⟩] 7 90000 = some 12496 := by
  refine ⟨⟨by decide, by decide, trivial⟩, ⟨by decide, by decide, by decide, by decide, by decide, by decide⟩, by decide +kernel⟩

end Golib.C20
