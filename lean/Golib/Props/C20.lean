/-
C20 — randz identifiers and random strings have the documented shape.  ONLY property
theorems and non-vacuity examples live here; helper lemmas are in `Golib/Proof/C20*.lean`.

The decode table is built by the model of the two `init` loops with the loop bounds,
the alphabet and the marks taken from `Golib.Gen.C20` (regenerated from randz/id.go on
every run), so `c20_table` and everything resting on it is re-checked against the source.
-/
import Golib.Proof.C20Base32
import Golib.Proof.C20Layout

namespace Golib.C20
open Golib.Gen.C20

/-- The 256-entry decode table after package initialisation: every byte outside the
32-character alphabet maps to the mark `ParseBase32` rejects (0xFF), and the `i`-th
alphabet character maps to `i`.  (False for the code before the fix of F10: the first
init loop only covered indices < 32 — see `Golib/Findings/C20.lean`.) -/
theorem c20_table :
    ∃ t, decodeTable = some t ∧ t.length = 256 ∧
      (∀ b, b < 256 → (t[b]? = some 0xFF ↔ b ∉ alphabet)) ∧
      (∀ i, i < 32 → ∃ c, alphabet[i]? = some c ∧ t[c]? = some i) := by
  obtain ⟨t, ht, hs⟩ := decodeTable_spec
  refine ⟨t, ht, hs.len, ?_, hs.decode⟩
  intro b hb
  have := hs.reject b hb
  rw [hs.mark] at this
  exact this

/-- For every non-negative ID (all of `[0, 2^63)`), `ParseBase32(id.Base32()) = id`; the
numeral is non-empty and uses only alphabet characters; neither function panics. -/
theorem c20_base32_roundtrip (id : Int) (h0 : 0 ≤ id) (h1 : id < 2 ^ 63) :
    ∃ s, base32 id = some s ∧ s ≠ [] ∧ (∀ c ∈ s, c ∈ alphabet) ∧ parseBase32 s = .ok id := by
  obtain ⟨t, ht, hs⟩ := decodeTable_spec
  obtain ⟨s, h1', h2, h3, h4⟩ := roundtrip_with t hs id h0 h1
  exact ⟨s, h1', h2, h3, by rw [parseBase32_eq t ht]; exact h4⟩

/-- `ParseBase32` returns `ErrInvalidBase32` for EVERY input (any length, each of the 256
byte values in each position) that contains a byte outside the alphabet. -/
theorem c20_base32_rejects (bs : List Nat) (hbytes : ∀ b ∈ bs, b < 256)
    (hbad : ∃ b ∈ bs, b ∉ alphabet) : parseBase32 bs = .invalid := by
  obtain ⟨t, ht, hs⟩ := decodeTable_spec
  rw [parseBase32_eq t ht, parseBase32With]
  apply parseLoop_rejects t bs 0 (fun c hc => by rw [hs.len]; exact hbytes c hc)
  obtain ⟨b, hb, hnb⟩ := hbad
  exact ⟨b, hb, (hs.reject b (hbytes b hb)).mpr hnb⟩

/-- ... and accepts every string over the alphabet (so rejection is exact). -/
theorem c20_base32_accepts (bs : List Nat) (hall : ∀ b ∈ bs, b ∈ alphabet) :
    ∃ id, parseBase32 bs = .ok id := by
  obtain ⟨t, ht, hs⟩ := decodeTable_spec
  have hlt : ∀ b ∈ alphabet, b < 256 := by decide
  rw [parseBase32_eq t ht, parseBase32With]
  refine ⟨_, parseLoop_accepts t bs 0 ?_⟩
  intro c hc
  have hc256 : c < t.length := by rw [hs.len]; exact hlt c (hall c hc)
  refine ⟨t[c], List.getElem?_eq_getElem hc256, ?_⟩
  intro hm
  have := (hs.reject c (hlt c (hall c hc))).mp (by rw [List.getElem?_eq_getElem hc256, hm])
  exact this (hall c hc)

/-- Non-vacuity: a concrete ID, its numeral, and a rejected input (`"1!"`). -/
example : base32 1234567 = some [49, 53, 110, 109, 55] ∧ parseBase32 [49, 33] = .invalid := by
  constructor <;> decide +kernel

/-- `NewIdGenerator`: between 2 and 22 random bits (the requested number when it is in
range, 16 below, 22 above), `randMax = 2^randBit`, a 41-bit time mask, shift = randBit. -/
theorem c20_idgen_fields (req : Int) :
    let g := newIdGen req
    2 ≤ g.randBit ∧ g.randBit ≤ 22 ∧ g.randMax = 2 ^ g.randBit.toNat ∧ g.timeMask = 2 ^ 41 - 1 ∧
    g.timeShift = g.randBit ∧ (2 ≤ req → req ≤ 22 → g.randBit = req) ∧
    (req ≤ 1 → g.randBit = 16) ∧ (22 < req → g.randBit = 22) :=
  newIdGen_fields req

/-- Bit layout of a generated ID, for every requested `randBit`, every elapsed time `ms`
(any `int64`, negative included) and every random part `r < randMax`: the ID is
non-negative, carries `ms mod 2^41` above its `randBit` random bits and `r` in them;
hence IDs are strictly increasing in the (41-bit) millisecond count whatever the random
parts are. -/
theorem c20_id_layout (req ms r : Int) (hr0 : 0 ≤ r) (hr1 : r < (newIdGen req).randMax) :
    let g := newIdGen req
    let id := compose g ms r
    0 ≤ id ∧ id < 2 ^ 63 ∧ id / 2 ^ g.randBit.toNat = ms % 2 ^ 41 ∧ id % 2 ^ g.randBit.toNat = r ∧
    (∀ ms' r', 0 ≤ r' → r' < g.randMax → ms % 2 ^ 41 < ms' % 2 ^ 41 → id < compose g ms' r') := by
  intro g id
  obtain ⟨hb0, hb1, hmax, hmask, hshift, _⟩ := newIdGen_fields req
  obtain ⟨rb, hrb⟩ := Int.eq_ofNat_of_zero_le (by omega : 0 ≤ (newIdGen req).randBit)
  have h := layout_of_fields (newIdGen req) rb hrb (by omega) (by rw [hmax, hrb]; simp) hmask
    (by rw [hshift, hrb]) ms r hr0 hr1
  show 0 ≤ compose (newIdGen req) ms r ∧ compose (newIdGen req) ms r < 2 ^ 63 ∧
    compose (newIdGen req) ms r / 2 ^ (newIdGen req).randBit.toNat = ms % 2 ^ 41 ∧
    compose (newIdGen req) ms r % 2 ^ (newIdGen req).randBit.toNat = r ∧ _
  rw [hrb]
  simp only [Int.toNat_natCast]
  exact h

/-- Non-vacuity: the default generator (18 random bits) at the last millisecond before
the 41-bit time field wraps, with the largest random part. -/
example : compose (newIdGen 18) (2 ^ 41 - 1) (2 ^ 18 - 1) = 2 ^ 59 - 1 := by decide +kernel

end Golib.C20
