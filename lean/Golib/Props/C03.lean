/-
C03 — RoaringBitmap is a set of uint32 with complete ascending enumeration.
ONLY property theorems and non-vacuity examples; helper lemmas are in `Golib/Proof/C03*.lean`.

Abstraction: `RB.toList r` = all members bucket by bucket (`Golib/Proof/C03Spec.lean`); it is
strictly ascending (`c03_toList_sorted`), hence determined by its membership predicate: the
theorems about `Add/Remove/Contains` say the bitmap is observationally a finite set of uint32,
the theorems about `Range/All/Iter` say every enumeration is that ascending list, in every
state satisfying the representation invariant `RB.Inv` (all reachable states: `c03_rep_inv`).
-/
import Golib.Proof.C03RB
import Golib.Proof.C03Enum
import Golib.Proof.C03Iter
import Golib.Proof.C03Bridge
import Golib.Proof.C03OverSkip
import Golib.Proof.C03OverPtr
import Golib.Proof.C03Run
import Golib.Proof.C03Seq
import Golib.Proof.C03Fresh
import Golib.Proof.C03Multi
import Golib.Gen.FactsC03
import Golib.Proof.C03Trans
import Golib.Proof.C03TransBits
import Golib.Proof.C03Words

namespace Golib.C03

/-- `search` (the binary search of the array container, as coded) never indexes out of
range on a strictly ascending array and returns the lower bound of `x`. -/
theorem c03_search_spec (a : Array Nat) (x : Nat) (hs : Sorted a) :
    ∃ p, search a x = some p ∧ LowerBound a x p :=
  search_spec a x hs

example : Sorted #[1, 5, 9] ∧ search #[1, 5, 9] 6 = some 2 := ⟨by unfold Sorted; decide, by decide⟩

/-- The representation invariant (keys ascending and < 2^16; arrays strictly ascending, 1..4096
long; cached bitmap cardinality = number of set bits, 1024 words, not empty; `len` = number of
members) holds initially and is preserved by `Add` and `Remove`, which never panic. -/
theorem c03_rep_inv :
    RB.empty.Inv ∧
    ∀ (r : RB) (x : Nat), r.Inv → x < 4294967296 →
      (∃ r' ok, r.add x = some (r', ok) ∧ r'.Inv) ∧
      (∃ r' ok, r.remove x = some (r', ok) ∧ r'.Inv) := by
  refine ⟨RB.empty_inv, ?_⟩
  intro r x h hx
  obtain ⟨r1, ok1, h1, hi1, _⟩ := RB.add_spec r h x hx
  obtain ⟨r2, ok2, h2, hi2, _⟩ := RB.remove_spec r h x hx
  exact ⟨⟨r1, ok1, h1, hi1⟩, ⟨r2, ok2, h2, hi2⟩⟩

/-- Non-vacuity: two buckets (an array container under key 0, one under key 3) meet the invariant. -/
example : (⟨[(0, .arr #[1, 5]), (3, .arr #[7])], 3⟩ : RB).Inv ∧
    (⟨[(0, .arr #[1, 5]), (3, .arr #[7])], 3⟩ : RB).toList = [1, 5, 196615] := by
  refine ⟨⟨by decide, by decide, ?_, by decide⟩, by decide⟩
  intro p hp
  simp only [List.mem_cons, List.not_mem_nil, or_false] at hp
  rcases hp with rfl | rfl
  · exact ⟨by unfold Sorted; decide, by decide, by decide, by decide⟩
  · exact ⟨by unfold Sorted; decide, by decide, by decide, by decide⟩

/-- The abstraction is a strictly ascending list, i.e. a finite set. -/
theorem c03_toList_sorted (r : RB) (h : r.Inv) : r.toList.Pairwise (· < ·) :=
  h.sorted

example : (⟨[(0, .arr #[1, 5]), (3, .arr #[7])], 3⟩ : RB).toList.Pairwise (· < ·) := by decide

/-- `Contains` is membership. -/
theorem c03_contains (r : RB) (x : Nat) (h : r.Inv) (_hx : x < 4294967296) :
    r.contains x = some (decide (x ∈ r.toList)) :=
  RB.contains_spec r h x

example : (⟨[(0, .arr #[1, 5]), (3, .arr #[7])], 3⟩ : RB).contains 196615 = some true := by decide

/-- `Add` never panics, keeps the invariant, answers "newly added", and inserts exactly `x`. -/
theorem c03_add (r : RB) (x : Nat) (h : r.Inv) (hx : x < 4294967296) :
    ∃ r' ok, r.add x = some (r', ok) ∧ r'.Inv ∧ ok = !decide (x ∈ r.toList) ∧
      ∀ y, y ∈ r'.toList ↔ (y = x ∨ y ∈ r.toList) :=
  RB.add_spec r h x hx

example : ((⟨[(0, .arr #[1, 5]), (3, .arr #[7])], 3⟩ : RB).add 65536).map
    (fun p => (p.1.toList, p.1.len, p.2)) = some ([1, 5, 65536, 196615], 4, true) := by decide

/-- `Remove` never panics, keeps the invariant, answers "was present", and deletes exactly `x`. -/
theorem c03_remove (r : RB) (x : Nat) (h : r.Inv) (hx : x < 4294967296) :
    ∃ r' ok, r.remove x = some (r', ok) ∧ r'.Inv ∧ ok = decide (x ∈ r.toList) ∧
      ∀ y, y ∈ r'.toList ↔ (y ≠ x ∧ y ∈ r.toList) :=
  RB.remove_spec r h x hx

/-- Non-vacuity: removing the only member of a bucket makes the bucket vanish. -/
example : ((⟨[(0, .arr #[1, 5]), (3, .arr #[7])], 3⟩ : RB).remove 196615).map
    (fun p => (p.1.toList, p.1.cs.length, p.1.len, p.2)) = some ([1, 5], 1, 2, true) := by decide

/-- `Len` is the cardinality. -/
theorem c03_len (r : RB) (h : r.Inv) : r.len = (r.toList.length : Int) :=
  h.len

/-- `Range` with a callback that never stops enumerates exactly the ascending member list. -/
theorem c03_range_eq (r : RB) (h : r.Inv) : r.range 0 = r.toList := by
  rw [toList_eq_enumAll]; exact range_zero_eq r h.inv0

/-- `All` likewise. -/
theorem c03_all_eq (r : RB) (h : r.Inv) : r.all 0 = r.toList := by
  rw [toList_eq_enumAll]; exact all_zero_eq r h.inv0

/-- A callback / `yield` that answers `false` at its `k`-th call has seen exactly the first `k`
members (early termination of `Range` and `All`). -/
theorem c03_range_take (r : RB) (h : r.Inv) (k : Nat) (hk : 0 < k) :
    r.range k = r.toList.take k ∧ r.all k = r.toList.take k := by
  rw [toList_eq_enumAll]; exact ⟨range_take r h.inv0 k hk, all_take r h.inv0 k hk⟩

example : (⟨[(0, .arr #[1, 5]), (3, .arr #[7])], 3⟩ : RB).range 0 = [1, 5, 196615] ∧
    (⟨[(0, .arr #[1, 5]), (3, .arr #[7])], 3⟩ : RB).all 2 = [1, 5] := ⟨by decide, by decide⟩

/-- The `Next/Value` state machine of the repaired code (`reset = true`: the inner iterator is
dropped when the outer one moves to the next bucket) enumerates exactly the ascending member
list within `Len()+1` calls of `Next`, `Value` never panics, and the iterator stays exhausted. -/
theorem c03_iter_eq (r : RB) (h : r.Inv) :
    ∃ it, r.iterAll true = some (r.toList, it) ∧ (it.next true).2 = false := by
  rw [toList_eq_enumAll]
  exact iterAll_true_spec r h.inv0 (by rw [← toList_eq_enumAll]; exact h.len)

example : ((⟨[(0, .arr #[1, 5]), (3, .arr #[7])], 3⟩ : RB).iterAll true).map Prod.fst
    = some [1, 5, 196615] := by decide

/-- The array→bitmap conversion: adding a 4097-th value to a full array container returns a
bitmap container whose hand-set cached cardinality 4097 is exactly its number of set bits and
whose members are the old ones plus `x`; the receiver is left untouched. -/
theorem c03_conversion_card (v : Array Nat) (x : Nat) (hv : (Container.arr v).Inv)
    (hsz : v.size = 4096) (hx : x < 65536) (hxn : x ∉ v.toList) :
    ∃ w, arrAdd v x = some (v, .bmp 4097 w, true) ∧ (Container.bmp 4097 w).Inv ∧
      ∀ y, y ∈ (Container.bmp 4097 w).members ↔ (y = x ∨ y ∈ v.toList) := by
  obtain ⟨hs, hb, _, _⟩ := hv
  obtain ⟨w, hadd, hwsz, hbits⟩ := arrAdd_convert v x hs hb hsz hx hxn
  have hm : ∀ y, y ∈ (Container.bmp 4097 w).members ↔ (y = x ∨ y ∈ v.toList) := by
    intro y; rw [mem_members_bmp, hbits]; simp
  refine ⟨w, hadd, ?_, hm⟩
  have hlen := length_insert (nodup_of_lt hs) (nodup_of_lt (members_bmp_sorted 4097 w)) hxn hm
  have hvl : v.toList.length = 4096 := by simpa using hsz
  refine ⟨hwsz, ?_, by decide⟩
  show (4097 : Int) = ((Container.bmp 4097 w).members.length : Int)
  omega

/-- Non-vacuity: the full array container `0, 1, …, 4095` meets the hypotheses with `x = 5000`. -/
example : (Container.arr (Array.range 4096)).Inv ∧ (Array.range 4096).size = 4096 ∧
    5000 ∉ (Array.range 4096).toList := by
  refine ⟨⟨?_, ?_, by simp, by simp⟩, by simp, by simp⟩
  · unfold Sorted; rw [Array.toList_range]; exact List.pairwise_lt_range
  · intro y hy; rw [Array.toList_range, List.mem_range] at hy; omega

/-- Hence a bitmap container satisfying the invariant exists (the state right after a conversion). -/
example : ∃ w, (Container.bmp 4097 w).Inv := by
  have hv : (Container.arr (Array.range 4096)).Inv := by
    refine ⟨?_, ?_, by simp, by simp⟩
    · unfold Sorted; rw [Array.toList_range]; exact List.pairwise_lt_range
    · intro y hy; rw [Array.toList_range, List.mem_range] at hy; omega
  obtain ⟨w, _, hi, _⟩ := c03_conversion_card (Array.range 4096) 5000 hv (by simp) (by decide) (by simp)
  exact ⟨w, hi⟩

/-- Representation changes happen in one direction only and exactly at the threshold:
(1) `Add` on an array container returns a bitmap container only when the array already holds
`threshold` (4096) values and `x` is new; (2) below the threshold, or for a duplicate, it stays
an array; (3) a bitmap container stays a bitmap container under `Add` and `Remove` whatever its
fill level — there is no conversion back (an emptied bucket is removed from the skip list by
`RoaringBitmap.Remove`, `c03_remove`; a bucket created later starts as an array again:
`RB.add` on an absent key stores `arrAdd #[] low`). -/
theorem c03_representation :
    (∀ (v v' : Array Nat) (x : Nat) (n : Int) (w : Array Word) (ok : Bool),
      arrAdd v x = some (v', .bmp n w, ok) → threshold ≤ v.size ∧ ok = true ∧ n = 4097 ∧ v' = v) ∧
    (∀ (v v' a : Array Nat) (x : Nat) (ok : Bool),
      arrAdd v x = some (v', .arr a, ok) → a = v' ∧ (ok = false ∨ v.size < threshold)) ∧
    (∀ (n : Int) (w : Array Word) (x : Nat) (c c' : Container) (ok : Bool),
      (Container.bmp n w).add x = some (c, c', ok) → ∃ n' w', c = .bmp n' w' ∧ c' = .bmp n' w') ∧
    (∀ (n : Int) (w : Array Word) (x : Nat) (c : Container) (ok : Bool),
      (Container.bmp n w).remove x = some (c, ok) → ∃ n' w', c = .bmp n' w') := by
  refine ⟨?_, ?_, ?_, ?_⟩
  · intro v v' x n w ok h
    unfold arrAdd at h
    split at h
    · cases h
    · split at h
      · cases h
      · split at h
        · split at h <;> cases h
        · simp only [] at h
          split at h
          · cases h
          · split at h
            · cases h
            · simp only [Option.some.injEq, Prod.mk.injEq, Container.bmp.injEq] at h
              obtain ⟨h1, ⟨h2, _⟩, h3⟩ := h
              refine ⟨by omega, h3.symm, h2.symm, h1.symm⟩
  · intro v v' a x ok h
    unfold arrAdd at h
    split at h
    · cases h
    · split at h
      · simp only [Option.some.injEq, Prod.mk.injEq, Container.arr.injEq] at h
        obtain ⟨h1, h2, h3⟩ := h
        exact ⟨by rw [← h1, ← h2], Or.inl h3.symm⟩
      · split at h
        · rename_i hlt
          split at h
          · cases h
          · simp only [Option.some.injEq, Prod.mk.injEq, Container.arr.injEq] at h
            obtain ⟨h1, h2, _⟩ := h
            exact ⟨by rw [← h1, ← h2], Or.inr hlt⟩
        · simp only [] at h
          split at h
          · cases h
          · split at h <;> cases h
  · intro n w x c c' ok h
    simp only [Container.add] at h
    split at h
    · cases h
    · simp only [Option.some.injEq, Prod.mk.injEq] at h
      obtain ⟨h1, h2, _⟩ := h
      exact ⟨_, _, h1.symm, h2.symm⟩
  · intro n w x c ok h
    simp only [Container.remove, Option.some.injEq, Prod.mk.injEq] at h
    exact ⟨_, _, h.1.symm⟩

/-- Non-vacuity of clause (1): the conversion of `c03_conversion_card` is such an `arrAdd`. -/
example : ∃ w, arrAdd (Array.range 4096) 5000 = some (Array.range 4096, .bmp 4097 w, true) := by
  have hv : (Container.arr (Array.range 4096)).Inv := by
    refine ⟨?_, ?_, by simp, by simp⟩
    · unfold Sorted; rw [Array.toList_range]; exact List.pairwise_lt_range
    · intro y hy; rw [Array.toList_range, List.mem_range] at hy; omega
  obtain ⟨w, h, _, _⟩ := c03_conversion_card (Array.range 4096) 5000 hv (by simp) (by decide) (by simp)
  exact ⟨w, h⟩

/-- The skip list under the bitmap is used only through `GetNode/Get/Set/Remove/Head/Next/
SetValue`; the association-list functions the model uses for them are exactly the sorted-map
specification that property C02 proves the real skip list refines (`c02_refines`), for the
built-in order of the `uint16` bucket keys. -/
theorem c03_skiplist_interface (r : RB) (h : r.Inv) (k : Nat) (c : Container) :
    Golib.C02.TotalCmp cmpNat ∧
    omGet r.cs k = Golib.C02.OMap.get r.cs k ∧
    omSet r.cs k c = Golib.C02.OMap.set cmpNat r.cs k c ∧
    omRemove r.cs k = Golib.C02.OMap.erase cmpNat r.cs k ∧
    ((omGet r.cs k).isSome = true → omSetValue r.cs k c = Golib.C02.OMap.set cmpNat r.cs k c) :=
  ⟨cmpNat_total, omGet_eq r.cs k, omSet_eq h.keys k c, omRemove_eq h.keys k,
    fun hk => (omSetValue_eq h.keys k c hk).trans (omSet_eq h.keys k c)⟩

example : omSet [(0, .arr #[1]), (3, .arr #[7])] 1 (.arr #[2]) = [(0, .arr #[1]), (1, .arr #[2]), (3, .arr #[7])] ∧
    KeySorted [(0, .arr #[1]), (3, .arr #[7])] := by
  refine ⟨by simp [omSet], by unfold KeySorted; decide⟩

/-- The composition C03 ∘ C02.  `RBS` is the RoaringBitmap code (`Add/Remove/Contains` and the
`Head()/Next()/Key()/Value()` bucket walk of `Range/All/Iter`) run on the skip-list MODEL of
property C02 (`Model/C02Skip.lean`: the towers, `GetNode/Get/Set/Remove/Head/node.Next/
node.Value/node.SetValue` as `listz/skip.go` walks, lazily initialised from the zero value,
tower heights from arbitrary random words `w`); `RB` is the model all the theorems above are
about, run on a key-ascending association list.  For every sequence of calls with `uint32`
arguments, started from the zero value on both sides: no call panics on either side, the answers
are equal, and at the end the association list IS the abstraction (`toMap`) of the skip list,
which is in a reachable state of C02 (`Good`), the two `len` fields agree, `Contains` agrees
everywhere, and the node chain `Head(), Next(), …` of the skip list carries exactly the
buckets `r.cs` over which `RB.range / RB.all / RB.iter` are defined. -/
theorem c03_over_skiplist (ops : List SOp) (hx : ∀ op ∈ ops, op.arg < 4294967296) :
    ∃ r rs outs, RB.runS RB.empty ops = some (r, outs) ∧ RBS.run RBS.zero ops = some (rs, outs) ∧
      (r.cs = Golib.C02.toMap rs.sl ∧ r.len = rs.len ∧ Golib.C02.Good cfgRB rs.sl) ∧ r.Inv ∧
      (∀ x, rs.contains x = r.contains x) ∧ rs.nodes = some r.cs := by
  obtain ⟨r, rs, outs, h1, h2, h3, h4⟩ := run_over_skip ops rel_zero RB.empty_inv hx
  exact ⟨r, rs, outs, h1, h2, h3, h4, contains_sim h3, nodes_sim h3⟩

/-- `RBS` really runs: two buckets (keys 0 and 1; the second `Set` draws tower height 3, so the
list grows to level 2), then the first bucket is emptied and its node unlinked from both levels. -/
example :
    let res := RBS.run RBS.zero [.add 1 0, .add 70000 (2 ^ 29), .contains 70000, .remove 1, .contains 1]
    res.map (·.2) = some [true, true, true, true, false] ∧
    res.map (·.1.len) = some 1 ∧
    res.map (·.1.sl.lv.take 3) = some [[1], [1], []] ∧
    res.map (fun p => p.1.nodes.map omToList) = some (some [70000]) ∧
    ((RBS.zero.add 1 0).bind fun p => p.1.add 70000 (2 ^ 29)).map (·.1.sl.lv.take 3)
      = some [[0, 1], [1], []] := by decide

/-- Whole histories.  For every sequence of `Add / Remove / Contains / Len / Range / All / Iter`
calls with `uint32` arguments on the zero value, the model never panics and every output is
the output of the specification "strictly ascending list of naturals" (`specStep`: insert,
erase, membership, length, the list itself or its first `k` elements when the callback stops
at its `k`-th call, the whole list through `Iter` with `Next` answering false afterwards);
the final state satisfies the representation invariant and its member list is the
specification's set. -/
theorem c03_run_refines (ops : List ROp) (hx : ∀ op ∈ ops, op.ArgOk) :
    ∃ r outs, RB.runOps RB.empty ops = some (r, outs) ∧ r.Inv ∧
      specRun [] ops = (r.toList, outs) ∧ r.toList.Pairwise (· < ·) := by
  obtain ⟨r, outs, h1, h2, h3⟩ := runOps_spec ops RB.empty RB.empty_inv hx
  exact ⟨r, outs, h1, h2, h3, h2.sorted⟩

example :
    (RB.runOps RB.empty [.add 5, .add 70000, .add 5, .contains 5, .remove 5, .len, .add 3, .range 0,
      .all 1, .iter]).map (·.2) =
      some [.bool true, .bool true, .bool false, .bool true, .bool true, .int 1, .bool true,
        .list [3, 70000], .list [3], .iter [3, 70000] false] ∧
    specRun [] [.add 5, .add 70000, .add 5, .contains 5, .remove 5, .len, .add 3, .range 0, .all 1, .iter] =
      ([3, 70000], [.bool true, .bool true, .bool false, .bool true, .bool true, .int 1, .bool true,
        .list [3, 70000], .list [3], .iter [3, 70000] false]) := by decide

/-- A held `iter.Seq` (the value `All()` returned at some earlier moment) is reusable.  In the
model it carries no data: it is `All`'s body closed over the object.  Obtain it after any history
`ops1`, run ANY further history `ops2` (conversions, vanishing buckets, …): in the state `r2`
reached, every way of ranging it — fully, with an early break, twice, nested inside itself,
through two alternating `iter.Pull` cursors — is a function of the CURRENT member list only
(and, being a function of `r2`, leaves the state as it is). -/
theorem c03_seq_reusable (ops1 ops2 : List ROp) (h1 : ∀ op ∈ ops1, op.ArgOk)
    (h2 : ∀ op ∈ ops2, op.ArgOk) :
    ∃ r1 outs1 r2 outs2, RB.runOps RB.empty ops1 = some (r1, outs1) ∧
      RB.runOps r1 ops2 = some (r2, outs2) ∧ r2.Inv ∧
      r2.seqRange 0 = r2.toList ∧
      (∀ k, 0 < k → r2.seqRange k = r2.toList.take k) ∧
      (∀ j, 0 < j → r2.seqTwice j = (r2.toList.take j, r2.toList)) ∧
      (∀ j, 0 < j → r2.seqNest j =
        (r2.toList.take j, List.replicate (min j r2.toList.length) r2.toList.length)) ∧
      (∀ a, r2.pull2 a = (if a = 0 then r2.toList else r2.toList.take a, r2.toList)) := by
  obtain ⟨r1, outs1, e1, i1, _⟩ := runOps_spec ops1 RB.empty RB.empty_inv h1
  obtain ⟨r2, outs2, e2, i2, _⟩ := runOps_spec ops2 r1 i1 h2
  exact ⟨r1, outs1, r2, outs2, e1, e2, i2, seq_spec r2 i2⟩

example :
    ((RB.runOps RB.empty [.add 5, .add 70000]).bind fun p => RB.runOps p.1 [.remove 5, .add 3, .add 9]).map
      (fun q => (q.1.seqTwice 2, q.1.seqNest 2, q.1.pull2 1)) =
    some (([3, 9], [3, 9, 70000]), ([3, 9], [3, 3]), ([3], [3, 9, 70000])) := by decide

/-- Iterators are independent.  In every state satisfying the invariant: (1) `n` rounds of
`Next/Value` on a fresh `Iter()` deliver exactly the first `n` members (all of them when there
are fewer) and report whether every `Next` answered true; (2) continuing an iterator that has
delivered `m` values delivers the following `n`; (3) for ANY interleaving schedule of step
requests on four iterators created in this state, each iterator answers its own requests
exactly as it would alone (`specOne`: consecutive slices of the member list) — the other
iterators' requests have no influence; (4) an outer iteration that creates and exhausts a
second iterator at each of its first `j` elements sees the first `j` members, and every inner
count is the cardinality.  `Value` never panics in any of these. -/
theorem c03_iters_independent (r : RB) (h : r.Inv) :
    (∀ n, ∃ it', It.steps n r.iter [] = some (r.toList.take n, it', decide (n ≤ r.toList.length))) ∧
    (∀ m n, ∃ it1 it2 b, It.steps m r.iter [] = some (r.toList.take m, it1, b) ∧
      It.steps n it1 [] =
        some ((r.toList.drop m).take n, it2, decide (n ≤ (r.toList.drop m).length))) ∧
    (∀ sched : List (Fin 4 × Nat), ∃ outs, runSched (fun _ => r.iter) sched = some outs ∧
      outs.length = sched.length ∧
      ∀ i, ownAnswers i sched outs = specOne r.toList (ownReqs i sched)) ∧
    (∀ j, r.itPairs j =
      some (r.toList.take j, List.replicate (min j r.toList.length) r.toList.length)) := by
  obtain ⟨hg, hrem⟩ := iter_good r h
  refine ⟨?_, ?_, ?_, itPairs_spec r h⟩
  · intro n
    obtain ⟨it', e, _, _⟩ := steps_spec n r.iter [] hg
    rw [hrem] at e
    exact ⟨it', by simpa using e⟩
  · intro m n
    obtain ⟨it1, e1, g1, r1⟩ := steps_spec m r.iter [] hg
    obtain ⟨it2, e2, _, _⟩ := steps_spec n it1 [] g1
    rw [hrem] at e1 r1
    rw [r1] at e2
    exact ⟨it1, it2, _, by simpa using e1, by simpa using e2⟩
  · intro sched
    obtain ⟨outs, e1, e2, e3⟩ := sched_spec sched (fun _ => r.iter) (fun _ => hg)
    refine ⟨outs, e1, e2, fun i => ?_⟩
    rw [e3 i, hrem]

/-- Two iterators in the same bucket and one standing in the next, interleaved; and `itPairs`. -/
example :
    runSched (fun _ => (⟨[(0, .arr #[1, 5]), (3, .arr #[7])], 3⟩ : RB).iter)
      [(0, 1), (1, 2), (0, 1), (2, 5), (1, 3), (0, 2)] =
      some [([1], true), ([1, 5], true), ([5], true), ([1, 5, 196615], false), ([196615], false),
        ([196615], false)] ∧
    (⟨[(0, .arr #[1, 5]), (3, .arr #[7])], 3⟩ : RB).itPairs 2 = some ([1, 5], [3, 3]) := by decide

/-- The array→bitmap conversion starts from FRESH zero words.  The Go code reinterprets the
array's backing memory as `[1024]uint64` (a by-value copy), calls `setZero`, then adds the 4096
buffered values and `x`; the model builds the words from `Array.replicate 1024 0`.  For a full
array container `v` and a new `x`: the receiver is returned unchanged, the result has 1024 words
which are, by definition, `bitmapAddRaw (addAllRaw v (zero words)) x`, and EVERY bit position `y`
of the result is accounted for: it is set iff `y = x` or `y` was a value of `v` — no bit of
whatever the reinterpreted memory held survives. -/
theorem c03_conversion_fresh (v : Array Nat) (x : Nat) (hv : (Container.arr v).Inv)
    (hsz : v.size = 4096) (hx : x < 65536) (hxn : x ∉ v.toList) :
    ∃ w1 w, addAllRaw v.toList (Array.replicate 1024 0#64) = some w1 ∧ bitmapAddRaw w1 x = some w ∧
      arrAdd v x = some (v, .bmp 4097 w, true) ∧ w.size = 1024 ∧
      ∀ y, bitmapContains w y = (decide (y = x) || decide (y ∈ v.toList)) := by
  obtain ⟨hs, hb, _, _⟩ := hv
  exact arrAdd_convert_fresh v x hs hb hsz hx hxn

/-- Non-vacuity: the full container `0 … 4095` and `x = 5000` (see the examples of
`c03_conversion_card`); the all-zero start is what the model's `arrAdd` literally uses. -/
example : (Container.arr (Array.range 4096)).Inv ∧ (Array.range 4096).size = 4096 ∧
    5000 ∉ (Array.range 4096).toList ∧
    bitmapAddRaw (Array.replicate 1024 0#64) 70 =
      some ((Array.replicate 1024 (0#64 : Word)).setIfInBounds 1 (1#64 <<< 6)) := by
  refine ⟨⟨?_, ?_, by simp, by simp⟩, by simp, by simp, by simp [bitmapAddRaw]⟩
  · unfold Sorted; rw [Array.toList_range]; exact List.pairwise_lt_range
  · intro y hy; rw [Array.toList_range, List.mem_range] at hy; omega

/-- Several bitmaps used alternately are independent (the multi-object layer of the driver,
`Golib/Model/C03.lean`: four objects, `obj k` switches the current one).  For every sequence of
parsed lines `ts` and every object `k`: running ONLY the lines addressed to `k` (`ownOps`: the
non-`obj` lines issued while `k` is current) on a single fresh object gives exactly the final
state object `k` has after the interleaved run and exactly the answers it gave there (`ownOuts`)
— whatever is done to the other objects in between has no influence.  The same holds from any
multi-object state `m` (second clause), and the raw-line entry points of the driver are these
functions on `toks` of the lines (third and fourth clause). -/
theorem c03_objects_independent (ts : List (List String)) (k : Nat) :
    runToks (some St.init) (ownOps k 0 ts) =
      ((runToksM MSt.init ts).1.objs k, ownOuts k 0 ts (runToksM MSt.init ts).2) ∧
    (∀ m : MSt, runToks (m.objs k) (ownOps k m.cur ts) =
      ((runToksM m ts).1.objs k, ownOuts k m.cur ts (runToksM m ts).2)) ∧
    (∀ ls, runOpsM MSt.init ls = (runToksM MSt.init (ls.map Golib.Proto.toks)).2) ∧
    (∀ o ls, runOps o ls = (runToks o (ls.map Golib.Proto.toks)).2) :=
  ⟨runToksM_proj ts MSt.init k, fun m => runToksM_proj ts m k, fun _ => rfl,
    fun o ls => runOps_eq_runToks ls o⟩

/-- Two objects, `add` into both alternately, `len` on each.  (The driver parses decimal strings
with `String.toNat?`, which the kernel cannot evaluate, so the concrete run is checked by
`#guard` — evaluation by the compiler at build time — and the `example` instantiates the
theorem on it.) -/
def exObjs : List (List String) :=
  [["add", "1"], ["obj", "1"], ["add", "70000"], ["add", "5"], ["len"], ["obj", "0"], ["len"],
   ["add", "2"], ["obj", "1"], ["len"], ["it", "0"], ["obj", "0"], ["add", "3"], ["len"], ["obj", "1"],
   ["itnext", "0", "1"]]

#guard (runToksM MSt.init exObjs).2 ==
  ["true", "ok", "true", "true", "2", "ok", "1", "true", "ok", "2", "ok", "ok", "true", "3", "ok",
   "[5] more=true"]
#guard ownOps 1 0 exObjs == [["add", "70000"], ["add", "5"], ["len"], ["len"], ["it", "0"], ["itnext", "0", "1"]]
#guard ownOuts 1 0 exObjs (runToksM MSt.init exObjs).2 == ["true", "true", "2", "2", "ok", "[5] more=true"]
#guard (runToks (some St.init) (ownOps 1 0 exObjs)).2 == ["true", "true", "2", "2", "ok", "[5] more=true"]
#guard (runToks (some St.init) (ownOps 0 0 exObjs)).2 == ["true", "1", "true", "true", "3"]

example : (runToks (some St.init) (ownOps 1 0 exObjs)).2 = ownOuts 1 0 exObjs (runToksM MSt.init exObjs).2 := by
  rw [(c03_objects_independent exObjs 1).1]

/-- Composition down to the heap: the RoaringBitmap code run over the POINTER-level skip list of
C02 (`RBP`, `Proof/C03OverPtr.lean`: `GetNode` answers a node id, `node.Value()/SetValue()` read
and write that node, `Set/Remove` splice real `next` pointers, `Head()/Next()` follow `next[0]`)
goes in lockstep with the same code over the list-level skip-list model (`RBS`) and with the
association-list model (`RB`).  For every sequence of `Add / Remove / Contains` calls with
`uint32` arguments on the zero value, and for every choice of tower heights: no call panics on
any of the three levels, the answers are equal, at the end `Rel r rs` (C03 over the list-level
skip list) and `RelP rs rp` (`Abs` of `c02_pointer_refines_levels` between the two skip lists,
equal `len`) hold, `Contains` agrees everywhere, and the bucket chain read through real
pointers (`Head()`, then `node.Next()`, `node.Key()`, `node.Value()`) is the model's
association list `r.cs`. -/
theorem c03_over_pointer_skiplist (ops : List SOp) (hx : ∀ op ∈ ops, op.arg < 4294967296) :
    ∃ r rs rp outs, RB.runS RB.empty ops = some (r, outs) ∧ RBS.run RBS.zero ops = some (rs, outs) ∧
      RBP.run RBP.zero ops = some (rp, outs) ∧
      (r.cs = Golib.C02.toMap rs.sl ∧ r.len = rs.len ∧ Golib.C02.Good cfgRB rs.sl) ∧
      (Golib.C02.Abs rp.sl rs.sl ∧ rp.len = rs.len) ∧ r.Inv ∧
      (∀ x, rp.contains x = r.contains x) ∧ rp.nodes = some r.cs := by
  obtain ⟨r, rs, rp, outs, h1, h2, h3, h4, h5, h6⟩ := run_over_ptr ops rel_zero relP_zero RB.empty_inv hx
  exact ⟨r, rs, rp, outs, h1, h2, h3, h4, h5, h6,
    fun x => (contains_simP h5 h4.2.2 x).trans (contains_sim h4 x), nodes_simP h5 (nodes_sim h4)⟩

/-- `RBP` really runs on the heap: two buckets (keys 0 and 1 = node ids 0 and 1; the second `Set`
draws tower height 3, so the list grows to level 2), then bucket 0 is emptied and its node
unlinked from both levels and left as garbage with an empty tower. -/
example :
    let res := RBP.run RBP.zero [.add 1 0, .add 70000 (2 ^ 29), .contains 70000, .remove 1, .contains 1]
    res.map (·.2) = some [true, true, true, true, false] ∧
    res.map (·.1.len) = some 1 ∧
    res.map (fun p => (p.1.sl.chain 0, p.1.sl.chain 1, p.1.sl.level)) = some ([1], [1], 2) ∧
    res.map (fun p => p.1.sl.nodes.toList.map (·.next.size)) = some [0, 2] ∧
    res.map (fun p => p.1.nodes.map omToList) = some (some [70000]) := by decide

/-- What the hand-written model takes from the source text, re-extracted from /repo by go/ast
on every run (`Golib/Gen/FactsC03.lean`; a shape that is not found is emitted as `false`/`0`, so
this theorem then fails to `decide`):
* the conversion threshold, the sizes of the scratch buffer and of the word array, the cardinality
  written by hand after a conversion (= threshold + 1), `setZero` clearing all the words;
* `Next` drops the inner iterator when it moves to the next bucket (the F2 repair — `itNext true`
  is the model of exactly that code);
* the function returned by `All` (setz/iter.go) is the body of `Range` modulo the callback's name
  (`RB.all` is defined as `RB.range`);
* `Remove` calls `containers.Remove(high)` exactly under `c.Len() == 0` inside `if ok`, after `len--`;
* `arrayContainer.Add` tests the duplicate before `len(values) < threshold` (that `search` is the
  loop of `searchLoop` is no longer a text fact `searchShape`: since wave 8 it is the theorem
  `c03_trans_search` below, proved about the definition regenerated from the source);
* the word loops: `for j := 0; j < 64`, value `high<<16 | (i<<6+j)`, `Type() == 1` = array container;
  `num>>16` / `uint16(num)` (the word split `num>>6` / `num&63` of `Bitmap.Add/Remove/Contains/add` is no longer a
  text fact: since wave 9 it is the theorems `c03_trans_Bitmap_*` about the regenerated definitions); the cached
  length moves with `Bits.Add/Remove`;
* the iterators: `arrayContainerIter` starts at `-1` (`Container.iter`), `BitmapIter.Next` resets
  `j` to 0 when it moves to the next word, `Value` = `key<<16 | inner value`. -/
theorem c03_facts :
    Golib.Gen.C03.extractorOK = true ∧ Golib.Gen.C03.threshold = threshold ∧
    Golib.Gen.C03.bufLen = threshold ∧ Golib.Gen.C03.words = 1024 ∧ Golib.Gen.C03.words * 64 = 65536 ∧
    Golib.Gen.C03.convertedLen = threshold + 1 ∧ Golib.Gen.C03.iterReset = true ∧
    Golib.Gen.C03.setZeroWords = Golib.Gen.C03.words ∧
    Golib.Gen.C03.allBodyEqRange = true ∧ Golib.Gen.C03.removeGuard = true ∧
    Golib.Gen.C03.addDupBeforeThreshold = true ∧
    Golib.Gen.C03.rangeInnerBound = 64 ∧ Golib.Gen.C03.rangeShape = true ∧
    Golib.Gen.C03.splitShape = true ∧
    Golib.Gen.C03.cachedLenShape = true ∧
    Golib.Gen.C03.arrIterStart = -1 ∧ Golib.Gen.C03.arrIterShape = true ∧
    Golib.Gen.C03.bitmapIterShape = true ∧ Golib.Gen.C03.iterValueShape = true := by
  decide

/-! ### Regenerated tie (wave 8)

`Golib.Gen.Trans.C03.search` / `arrayContainer_Contains` / `arrayContainer_Remove` are regenerated by `go2lean` from
`setz/roaring_bitmap.go` of the tree under verification on every run (`Gen/TransC03.lean`); the
theorems below are re-checked against that text.  Abstraction: `absVals` (a `[]uint16` as the
model's `Array Nat`, element-wise `toNat`), `x ↦ x.toNat`, a model index `p : Nat` is the Go `int`
`(p : Int)`; `optRes` maps the model's `none` (Go panic) to `.panic`.  Well-formedness:
`values.length < 2^63` (a Go slice length is an `int`) — under it `int(uint(low+high) >> 1)` is the
midpoint.  No sortedness is needed for the tie (it is a hypothesis of the property clause only).
A pointer-receiver method returns the receiver after the call next to its result (state passing).
`arrayContainer.Add` is outside the translator's subset (interface result, `unsafe`): it stays tied
by correspondence, facts and the drift hash. -/

/-- The regenerated `search` IS the hand-written `search` on every slice: same result, and it
panics exactly where the model does (nowhere: `search_total`), never out of fuel. -/
theorem c03_trans_search (vals : List (BitVec 16)) (x : BitVec 16) (hlen : vals.length < 2 ^ 63) :
    Golib.Gen.Trans.C03.search vals x
      = optRes (fun p : Nat => (p : Int)) (search (absVals vals) x.toNat) :=
  trans_search_eq vals x hlen

/-- `c03_search_spec` directly on the generated definition: on a strictly ascending slice the code
returns the lower bound of `x` (and does not panic). -/
theorem c03_trans_search_lower_bound (vals : List (BitVec 16)) (x : BitVec 16)
    (hlen : vals.length < 2 ^ 63) (hs : Sorted (absVals vals)) :
    ∃ p : Nat, Golib.Gen.Trans.C03.search vals x = .ok (p : Int) ∧ LowerBound (absVals vals) x.toNat p := by
  obtain ⟨p, hp, hlb⟩ := c03_search_spec (absVals vals) x.toNat hs
  exact ⟨p, by rw [c03_trans_search vals x hlen, hp]; rfl, hlb⟩

/-- The regenerated `(*arrayContainer).Contains` IS `arrContains`. -/
theorem c03_trans_arrayContainer_Contains (vals : List (BitVec 16)) (x : BitVec 16)
    (hlen : vals.length < 2 ^ 63) :
    Golib.Gen.Trans.C03.arrayContainer_Contains { values := vals } x
      = optRes id (arrContains (absVals vals) x.toNat) :=
  trans_contains_eq vals x hlen

/-- The property clause directly on the generated definition: on a strictly ascending array
container, `Contains(x)` is membership of `x`. -/
theorem c03_trans_contains_mem (vals : List (BitVec 16)) (x : BitVec 16)
    (hlen : vals.length < 2 ^ 63) (hs : Sorted (absVals vals)) :
    Golib.Gen.Trans.C03.arrayContainer_Contains { values := vals } x = .ok (decide (x ∈ vals)) := by
  obtain ⟨p, hp, hlb⟩ := c03_search_spec (absVals vals) x.toNat hs
  have hmem := mem_absVals vals x
  have hhit := lowerBound_hit_iff hs hlb
  rw [c03_trans_arrayContainer_Contains vals x hlen]
  simp only [arrContains, hp, optRes_some, id]
  congr 1
  rw [Bool.eq_iff_iff, hhit, hmem, decide_eq_true_iff]

/-- The regenerated `(*arrayContainer).Remove` IS `arrRemove`: same answer `ok`, and the receiver
after the call (`ac.values = append(ac.values[:pos], ac.values[pos+1:]...)`, both slice
expressions in bounds) is, through `absVals`, the array the model returns. -/
theorem c03_trans_arrayContainer_Remove (vals : List (BitVec 16)) (x : BitVec 16)
    (hlen : vals.length < 2 ^ 63) :
    ∃ (ok : Bool) (vals' : List (BitVec 16)),
      Golib.Gen.Trans.C03.arrayContainer_Remove { values := vals } x = .ok (ok, { values := vals' }) ∧
      arrRemove (absVals vals) x.toNat = some (absVals vals', ok) :=
  trans_remove_eq vals x hlen

/-- The property clause directly on the generated definition: on a strictly ascending array
container `Remove(x)` answers whether `x` was a member, and afterwards the container is strictly
ascending and holds exactly the other members. -/
theorem c03_trans_remove_set (vals : List (BitVec 16)) (x : BitVec 16)
    (hlen : vals.length < 2 ^ 63) (hs : Sorted (absVals vals)) :
    ∃ vals' : List (BitVec 16),
      Golib.Gen.Trans.C03.arrayContainer_Remove { values := vals } x
        = .ok (decide (x ∈ vals), { values := vals' }) ∧
      Sorted (absVals vals') ∧ ∀ y, y ∈ vals' ↔ (y ≠ x ∧ y ∈ vals) :=
  trans_remove_set vals x hlen hs

/-- Non-vacuity of the `Remove` tie: removing 5 from `{1, 5, 9}` answers true and leaves `{1, 9}`;
removing 6 answers false and leaves the container as it was. -/
example :
    Golib.Gen.Trans.C03.arrayContainer_Remove { values := [1#16, 5#16, 9#16] } 5#16
      = .ok (true, { values := [1#16, 9#16] }) ∧
    Golib.Gen.Trans.C03.arrayContainer_Remove { values := [1#16, 5#16, 9#16] } 6#16
      = .ok (false, { values := [1#16, 5#16, 9#16] }) := by
  constructor <;> decide +kernel

/-- Non-vacuity: a sorted `[]uint16{1, 5, 9}`: the lower bound of 6 is 2, of 10 is 3 = len;
5 is a member, 6 is not. -/
example : Sorted (absVals [1#16, 5#16, 9#16]) ∧
    Golib.Gen.Trans.C03.search [1#16, 5#16, 9#16] 6#16 = .ok 2 ∧
    Golib.Gen.Trans.C03.search [1#16, 5#16, 9#16] 10#16 = .ok 3 ∧
    Golib.Gen.Trans.C03.arrayContainer_Contains { values := [1#16, 5#16, 9#16] } 5#16 = .ok true ∧
    Golib.Gen.Trans.C03.arrayContainer_Contains { values := [1#16, 5#16, 9#16] } 6#16 = .ok false := by
  refine ⟨by unfold Sorted; decide, ?_, ?_, ?_, ?_⟩ <;> decide +kernel

/-! ### Wave 9: more of `roaring_bitmap.go` / `bits.go` regenerated from source

`(*arrayContainer).Len`/`Type` and the four `Bitmap` methods every operation of the bitmap container
bottoms out in (`bitmapContainer.Contains` = `b.Bitmap.Contains(uint(x))`; `Add`/`Remove` =
`(*Bits).Add/Remove` = `Bitmap.Add/Remove` plus the cached `length`; the conversion loop of
`(*arrayContainer).Add` = `Bitmap.add`).  The model side is C03's OWN word-level model
(`Model/C03Roaring.lean`), the definitions `Container.add/remove/contains` and `arrAdd` are made of;
C16 ties the same source functions to ITS model.  Outside the subset (reported, not tied):
`(*arrayContainer).Add` (returns the interface `container`; `unsafe.Pointer` cast of the backing
array), the `bitmapContainer`/`Bits` wrappers (embedded struct, `(*Bits)(b)` pointer conversion,
interface result), `setZero`, the iterators (pointer fields), `RoaringBitmap` (skip list of
interfaces). -/

/-- The regenerated `(*arrayContainer).Len` is the number of stored values (`Container.len (.arr …)`). -/
theorem c03_trans_arrayContainer_Len (vals : List (BitVec 16)) :
    Golib.Gen.Trans.C03.arrayContainer_Len { values := vals } = .ok (Container.len (.arr (absVals vals))) := by
  simp [Golib.Gen.Trans.C03.arrayContainer_Len, Container.len, absVals]

/-- The regenerated `(*arrayContainer).Type` is the tag 1 that `Range` dispatches on. -/
theorem c03_trans_arrayContainer_Type (vals : List (BitVec 16)) :
    Golib.Gen.Trans.C03.arrayContainer_Type { values := vals } = .ok 1 := rfl

/-- The regenerated `Bitmap.Contains` IS `bitmapContains` (never panics: the index test short-circuits). -/
theorem c03_trans_Bitmap_Contains (b : GBitmap) (num : BitVec 64) :
    Golib.Gen.Trans.C03.Bitmap_Contains b num = .ok (bitmapContains b.set.toArray num.toNat) :=
  trans_bitmap_contains b num

/-- The regenerated `Bitmap.Remove` IS `bitmapRemove` (result first, then the receiver's words). -/
theorem c03_trans_Bitmap_Remove (b : GBitmap) (num : BitVec 64) :
    Golib.Gen.Trans.C03.Bitmap_Remove b num = .ok (bmOut (bitmapRemove b.set.toArray num.toNat)) :=
  trans_bitmap_remove b num

/-- The regenerated `Bitmap.Add` IS `bitmapAdd` (grows by whole words when the index is beyond the end). -/
theorem c03_trans_Bitmap_Add (b : GBitmap) (num : BitVec 64) :
    Golib.Gen.Trans.C03.Bitmap_Add b num = optRes bmOut (bitmapAdd b.set.toArray num.toNat) :=
  trans_bitmap_add b num

/-- The regenerated raw `Bitmap.add` IS `bitmapAddRaw`: it panics exactly when the word index is
out of range (which the 1024-word array of the conversion excludes). -/
theorem c03_trans_Bitmap_add (b : GBitmap) (num : BitVec 64) :
    Golib.Gen.Trans.C03.Bitmap_add b num
      = optRes (fun w => (⟨w.toList⟩ : GBitmap)) (bitmapAddRaw b.set.toArray num.toNat) :=
  trans_bitmap_addRaw b num

/-- The set clause directly on the generated definitions: `Remove(num)` answers whether `num` was a
member, keeps the number of words, and afterwards `Contains(n)` is the old membership of `n`
except for `num` itself, which is gone. -/
theorem c03_trans_bitmap_remove_contains (b : GBitmap) (num : BitVec 64) :
    ∃ b' : GBitmap,
      Golib.Gen.Trans.C03.Bitmap_Remove b num = .ok (wordsBit b.set.toArray num.toNat, b') ∧
      b'.set.length = b.set.length ∧
      ∀ n : BitVec 64, Golib.Gen.Trans.C03.Bitmap_Contains b' n
        = .ok (!decide (n = num) && wordsBit b.set.toArray n.toNat) := by
  obtain ⟨w', h1, h2, h3⟩ := bitmapRemove_spec b.set.toArray num.toNat
  refine ⟨⟨w'.toList⟩, by rw [c03_trans_Bitmap_Remove, h1]; rfl, by simpa using h2, fun n => ?_⟩
  rw [c03_trans_Bitmap_Contains, bitmapContains_eq]
  simp only [Array.toArray_toList, h3]
  have hd : decide (n.toNat = num.toNat) = decide (n = num) :=
    decide_eq_decide.2 ⟨fun h => BitVec.eq_of_toNat_eq h, fun h => by rw [h]⟩
  rw [hd]

/-- Non-vacuity: the generated methods on two words: bit 65 is bit 1 of word 1; `Add(130)` grows by
one word; the raw `add` beyond the end panics. -/
example :
    Golib.Gen.Trans.C03.Bitmap_Contains ⟨[0#64, 2#64]⟩ 65#64 = .ok true ∧
    Golib.Gen.Trans.C03.Bitmap_Contains ⟨[0#64, 2#64]⟩ 200#64 = .ok false ∧
    Golib.Gen.Trans.C03.Bitmap_Remove ⟨[0#64, 2#64]⟩ 65#64 = .ok (true, ⟨[0#64, 0#64]⟩) ∧
    Golib.Gen.Trans.C03.Bitmap_Add ⟨[0#64, 2#64]⟩ 130#64 = .ok (true, ⟨[0#64, 2#64, 4#64]⟩) ∧
    Golib.Gen.Trans.C03.Bitmap_Add ⟨[0#64, 2#64]⟩ 65#64 = .ok (false, ⟨[0#64, 2#64]⟩) ∧
    Golib.Gen.Trans.C03.Bitmap_add ⟨[0#64, 2#64]⟩ 3#64 = .ok ⟨[8#64, 2#64]⟩ ∧
    Golib.Gen.Trans.C03.Bitmap_add ⟨[0#64, 2#64]⟩ 130#64 = .panic ∧
    Golib.Gen.Trans.C03.arrayContainer_Len { values := [1#16, 5#16] } = .ok 2 := by
  refine ⟨?_, ?_, ?_, ?_, ?_, ?_, ?_, ?_⟩ <;> decide +kernel

end Golib.C03
