/-
C03 — RoaringBitmap is a set of uint32 with complete ascending enumeration.
ONLY property theorems and non-vacuity examples; helper lemmas are in `Golib/Proof/C03*.lean`.
-/
import Golib.Proof.C03Search

namespace Golib.C03

/-- `search` (the binary search of the array container, as coded) never indexes out of
range on a strictly ascending array and returns the lower bound of `x`. -/
theorem c03_search_spec (a : Array Nat) (x : Nat) (hs : Sorted a) :
    ∃ p, search a x = some p ∧ LowerBound a x p :=
  search_spec a x hs

example : Sorted #[1, 5, 9] ∧ search #[1, 5, 9] 6 = some 2 := ⟨by unfold Sorted; decide, by decide⟩

end Golib.C03
