/-
C01 — SyncRing is a linearizable bounded MPMC FIFO queue.
ONLY property theorems and non-vacuity examples live here; helper lemmas are in
`Golib/Proof/C01*.lean`, the model in `Golib/Model/C01Ring.lean`.

`Ghost c` = the machine `Conc` of DESIGN §5: unbounded (ghost) tickets (`c.M = 0`),
capacity a power of two ≥ 2 (`ghost_pow`).  Every theorem quantifies over EVERY schedule
`σ : List Nat` (thread ids), every number of threads, every program assignment `progs`,
every capacity `2^k` (k ≥ 1) and every initial rotation `r` of the ring (`initAt c r` = the
empty ring after `r` push/pop pairs; an initial fill is a sequential prefix of `σ`).
The 32-bit machine `Conc32` (`c.M = 2^32`) is what the compiled driver runs against the
real code; F12 (Findings/C01_ABA.lean) shows the theorems need BoundedLag there, and
`c01_u32_refines_boundedLag` / `c01_u32_refines_single_thread` / `c01_u32_transfer` /
`c01_u32_linearizable` prove
that under BoundedLag (always, for a single thread) `Conc32` IS `Conc` reduced mod 2^32.
Wave 5: `c01_linearizable_classical` (explicit total order with timestamps), `c01_false_interval`
(false returns over the call's interval), `c01_aba_reachable` (F12 for every ticket width, capacity
2; general capacity not proved, see its comment), `c01_u32_lag_tight` (BoundedLag's bounds are tight).
Nothing is `_partial`: `c01_lin_points_legal`, `c01_quiescent_slots`, `c01_u32_arith` are the
former partial theorems, kept as the corollaries / lemmas they now are.
-/
import Golib.Proof.C01Facts
import Golib.Proof.C01Inv
import Golib.Proof.C01Lin
import Golib.Proof.C01LinStep
import Golib.Proof.C01Hist
import Golib.Proof.C01Classic
import Golib.Proof.C01Interval
import Golib.Proof.C01Progress
import Golib.Proof.C01U32Run
import Golib.Proof.C01U32Lin
import Golib.Proof.C01ABA
import Golib.Proof.C01ABA4
import Golib.Proof.C01Wait
import Golib.Proof.C01Heap
import Golib.Proof.C01Trans

namespace Golib.C01

/-- The model's access order is the source order; the waiting forms `PushWait`/`PopWait` have
the control shape `waitCall` mirrors (attempt tested before the deadline) and `Init`
unconditionally allocates its slot array (regenerated facts, see Proof/C01Facts). -/
theorem c01_source_order :
    soloSrc cfg32x2 (init cfg32x2 [[.push 5]]) 8 = Gen.C01.pushOps ∧
    soloSrc cfg32x2 oneElem 9 = Gen.C01.popOps ∧
    soloSrc cfg32x2 (init cfg32x2 [[.len]]) 4 = Gen.C01.lenOps ∧
    soloSrc cfg32x2 (init cfg32x2 [[.isEmpty]]) 4 = Gen.C01.isEmptyOps ∧
    soloSrc cfg32x2 (init cfg32x2 [[.isFull]]) 4 = Gen.C01.isFullOps ∧
    (Gen.C01.pushWaitShape = waitShape ∧ Gen.C01.popWaitShape = waitShape) ∧
    Gen.C01.initValues = initValuesShape :=
  ⟨facts_push, facts_pop, facts_len, facts_isEmpty, facts_isFull, facts_wait_shape,
   facts_init_allocates⟩

/-- `c01_inv`: in every reachable state every slot is in exactly one of the phases
free / being written / stored / being read for one position of its residue class, with
its sequence number determined by that phase (`Inv.phases`); `head ≤ tail ≤ head + cap`;
a thread between its CAS and its store owns its position exclusively (the counts in
`Phase`); every thread's stale observations are lower bounds (`Inv.locals`); no thread
ever indexed outside the slot array. -/
theorem c01_inv (k : Nat) (hk : 1 ≤ k) (r : Nat) (progs : List (List Call)) (σ : List Nat) :
    let c : Cfg := { M := 0, cap := 2 ^ k }
    let s := (run c (initAt c r progs) σ).1
    Inv c s ∧ s.head ≤ s.tail ∧ s.tail ≤ s.head + c.cap ∧ s.crashed = false := by
  have g := ghost_pow k hk
  have hI := inv_run g (inv_initAt g r progs) σ
  exact ⟨hI, hI.head_le_tail, hI.tail_le, hI.not_crashed⟩

/-- (The same criterion is searched exhaustively on the access order EXTRACTED from the
source on every run — Model/C01Races.lean, Extra `modelRaceExtra` of go/props/c01 — so that a
source whose order differs from the model's (`c01_source_order` then fails) also yields a
concrete racing schedule.)
`c01_race_free`: in no reachable state are two different threads both about to make
a plain (non-atomic) access to the `value` field of the same slot — reads included. -/
theorem c01_race_free (k : Nat) (hk : 1 ≤ k) (r : Nat) (progs : List (List Call)) (σ : List Nat)
    (i j : Nat) (a b : Thread) (slot : Nat) :
    let c : Cfg := { M := 0, cap := 2 ^ k }
    let s := (run c (initAt c r progs) σ).1
    i ≠ j → s.threads[i]? = some a → s.threads[j]? = some b →
      ¬ (plainSlot c a.pc = some slot ∧ plainSlot c b.pc = some slot) := by
  intro c s hij hi hj ⟨ha, hb⟩
  have g := ghost_pow k hk
  exact no_conflict g (inv_run g (inv_initAt g r progs) σ) hij hi hj ha hb

/-- `c01_len_range`: whatever two counter values `Len()` happened to load — on the ghost
machine and on the 32-bit machine alike — its result lies in `[0, Cap()]`. -/
theorem c01_len_range (c : Cfg) (t h : Nat) : 0 ≤ c.lenOf t h ∧ c.lenOf t h ≤ c.cap :=
  ⟨Nat.zero_le _, lenOf_le_cap c t h⟩

/-- `c01_len_exact_quiescent`: in every reachable state the counters differ by the number
of stored elements `tail − head ≤ cap`, and `Len/IsEmpty/IsFull` evaluated on the current
counters (which is what they load when no other thread moves) are exact. -/
theorem c01_len_exact_quiescent (k : Nat) (hk : 1 ≤ k) (r : Nat) (progs : List (List Call))
    (σ : List Nat) :
    let c : Cfg := { M := 0, cap := 2 ^ k }
    let s := (run c (initAt c r progs) σ).1
    c.lenOf s.tail s.head = s.tail - s.head ∧
      ((s.head == s.tail) = true ↔ s.tail - s.head = 0) ∧
      ((c.sub s.tail s.head == c.cap) = true ↔ s.tail - s.head = c.cap) := by
  have g := ghost_pow k hk
  exact len_exact g (inv_run g (inv_initAt g r progs) σ)

/-- `c01_lin_points_legal` (the former `c01_linearizable_partial`, now a corollary of
`c01_linearizable`, kept): in every reachable state `tail − head ∈ [0, cap]`; a tail-CAS
that succeeds now does so only while `tail − head < cap`, a head-CAS only while
`tail − head > 0`. -/
theorem c01_lin_points_legal (k : Nat) (hk : 1 ≤ k) (r : Nat) (progs : List (List Call))
    (σ : List Nat) (th : Thread) :
    let c : Cfg := { M := 0, cap := 2 ^ k }
    let s := (run c (initAt c r progs) σ).1
    s.tail - s.head ≤ c.cap ∧ s.head ≤ s.tail ∧
    (th ∈ s.threads →
      (∀ v pos seq, th.pc = .pushCAS v pos seq → s.tail = pos → s.tail - s.head < c.cap) ∧
      (∀ pos seq, th.pc = .popCAS pos seq → s.head = pos → 0 < s.tail - s.head)) := by
  have g := ghost_pow k hk
  have hI := inv_run g (inv_initAt g r progs) σ
  have h1 := hI.tail_le
  exact ⟨by omega, hI.head_le_tail, fun hth => cas_legal g hI hth⟩

/-- `c01_linearizable`.  The run is instrumented (`lrun`) with ghost state that `step`
never reads: the abstract bounded FIFO `q : List Int` (`BQ cap` of DESIGN §5; `bqPush`
succeeds iff `|q| < cap`, `bqPop` iff `q ≠ []`) and, per thread, `pend` = what its CURRENT
call did at its linearization point (`none` = not linearized; reset at the call's first
step).  The ghost is updated (`gstep`) ONLY at the linearization points — the successful
`CAS(&r.tail, pos, pos+1)` of `Push(v)` appends `v`, the successful `CAS(&r.head, pos, pos+1)`
of `Pop` removes the head — which are steps of the operation itself, hence inside its
interval (real-time order).  After EVERY schedule `σ` (so: in every state of every run),
for every thread `i` that takes the next step, with `gh'` the ghost after that step:
 0. the ghost is an observer: the instrumented run is the run;
 1. `|q| = tail − head ≤ cap`: the abstract queue never exceeds the capacity;
 2. the step leaves `q` alone (and, if it is a CAS, the CAS fails), or it is a successful
    tail-CAS of `Push(v)` and `bqPush cap q v = some q'` (legal: the queue was not full; `v`
    is the call's argument, carried in the program counter since `start (.push v)`), or a
    successful head-CAS and `bqPop q = some (x, q')` (legal: not empty, `x` is the HEAD of
    the abstract queue); the thread records `v` / `x`; no other thread's record changes;
 3. every return agrees with the call's linearization event (`RetOk`): a step that returns
    `Pop = (v, true)` belongs to a call whose linearization point removed exactly `v` from
    `q` (value transport through the slot: the pusher owning position `p` wrote the `p`-th
    pushed value and it is still there when `p` is popped — `GInv.stored`, `GOk`); a step
    that returns `Push = true` belongs to a call that appended its value; a step that returns
    false belongs to a call that has NOT linearized (and does not do so in this step), so
    failed calls leave no trace in the abstract history (their legitimacy is
    `c01_false_justified`);
 4. the elements of `q` are in the ring: the `j`-th element of `q` is the value stored in
    the slot of position `head + j` whenever that position is published
    (⇒ no loss, no duplication, FIFO);
 5. no value is invented: the ghost also keeps, per thread, the call in flight `cur` (set at
    the call's first step from the program counter `start call` the thread got from its
    program — `start_push`: `start call = pushLoadTail v` iff `call = push v` —, cleared by
    `lrun` when the call returns) and the histories `pushed` / `popped` of all values
    appended to / removed from `q`.  `CurOk`: a thread inside `Push(v)` has `cur = push v`
    (after its tail-CAS: its linearization record `pend = some v` is the argument of the
    call in flight), a thread with no call in flight has `cur = none`.  The step of `i`
    changes no history, or it is the tail-CAS of a thread whose call in flight is `Push(v)`
    and appends exactly that `v` to `pushed` and `q`, or a head-CAS and moves the head of
    `q` to `popped`.  A step that returns `Push = true` belongs to the call `Push(v)` whose
    linearization point appended `v`.  Always `pushed = popped ++ q`
    (corollary `c01_no_invention`). -/
theorem c01_linearizable (k : Nat) (hk : 1 ≤ k) (r : Nat) (progs : List (List Call))
    (σ : List Nat) (i : Nat) :
    let c : Cfg := { M := 0, cap := 2 ^ k }
    let sg := lrun c (initAt c r progs) (ginit progs) σ
    let s := sg.1
    let gh := sg.2
    let gh' := gstep s gh i
    s = (run c (initAt c r progs) σ).1 ∧
    (gh.q.length = s.tail - s.head ∧ gh.q.length ≤ c.cap) ∧
    ((gh'.q = gh.q ∧
        ∀ th, s.threads[i]? = some th →
          (∀ v pos seq, th.pc = .pushCAS v pos seq → s.tail ≠ pos) ∧
          (∀ pos seq, th.pc = .popCAS pos seq → s.head ≠ pos)) ∨
      (∃ th v pos seq, s.threads[i]? = some th ∧ th.pc = .pushCAS v pos seq ∧ s.tail = pos ∧
        bqPush c.cap gh.q v = some gh'.q ∧ gh'.pend[i]? = some (some v)) ∨
      (∃ th pos seq x, s.threads[i]? = some th ∧ th.pc = .popCAS pos seq ∧ s.head = pos ∧
        bqPop gh.q = some (x, gh'.q) ∧ gh'.pend[i]? = some (some x))) ∧
    (∀ j, j ≠ i → gh'.pend[j]? = gh.pend[j]?) ∧
    (∀ ret, (step c s i).2.ret = some ret → RetOk gh gh' i ret) ∧
    (∀ p, s.head ≤ p → p < s.tail → sq s.slots (p % c.cap) = some (p + 1) →
      gh.q[p - s.head]? = vl s.slots (p % c.cap)) ∧
    ((∀ th, s.threads[i]? = some th → CurOk gh.pend gh.cur i th.pc) ∧
     ((gh'.pushed = gh.pushed ∧ gh'.popped = gh.popped ∧ gh'.q = gh.q) ∨
      (∃ v, gh.cur[i]? = some (some (.push v)) ∧ gh'.pushed = gh.pushed ++ [v] ∧
        gh'.q = gh.q ++ [v] ∧ gh'.popped = gh.popped) ∨
      (∃ x, gh.cur[i]? = some (some .pop) ∧ gh'.popped = gh.popped ++ [x] ∧
        gh.q = x :: gh'.q ∧ gh'.pushed = gh.pushed)) ∧
     ((step c s i).2.ret = some (.push true) →
        ∃ v, gh.pend[i]? = some (some v) ∧ gh.cur[i]? = some (some (.push v))) ∧
     gh.pushed = gh.popped ++ gh.q) := by
  intro c sg s gh gh'
  have g := ghost_pow k hk
  have hG : GInv c s gh := ginv_lrun g (ginv_initAt g r progs) σ
  have hH : HInv s gh := hinv_lrun g (ginv_initAt g r progs) (hinv_initAt c r progs) σ
  have hI := hG.inv
  have h1 := hI.tail_le
  have h2 := hG.qlen
  exact ⟨lrun_fst _ _ _ σ, ⟨h2, by omega⟩, gstep_lin g hG i, fun j hj => gstep_pend_other s gh hj,
    fun ret hr => returns_match g hG i ret hr, hG.stored,
    fun th hth => hH.curs i th hth, gstep_hist hG hH i, fun hr => push_true_arg hH hr, hH.hist⟩

/-- `c01_no_invention` (explicit corollary of clause 5 of `c01_linearizable`).  After every
schedule, with `pushed` = the arguments of the `Push` calls that linearized, in
linearization order (each appended at the tail-CAS of a thread whose call in flight is that
`Push(v)`), `popped` = the values removed by the `Pop`s that linearized, in order (each is
what that `Pop` returns: `RetOk`), and `q` = the abstract queue: `pushed = popped ++ q`.
Hence the popped values are a PREFIX of the pushed arguments (FIFO, each pushed value
popped at most once and in order, nothing lost: what is not popped is still in `q`, i.e. in
the ring), every popped value is the argument of a `Push` that linearized earlier, and the
multiset of popped values is contained in the multiset of pushed arguments. -/
theorem c01_no_invention (k : Nat) (hk : 1 ≤ k) (r : Nat) (progs : List (List Call))
    (σ : List Nat) :
    let c : Cfg := { M := 0, cap := 2 ^ k }
    let gh := (lrun c (initAt c r progs) (ginit progs) σ).2
    gh.pushed = gh.popped ++ gh.q ∧
    gh.popped <+: gh.pushed ∧
    (∀ x ∈ gh.popped, x ∈ gh.pushed) ∧
    (∀ x, gh.popped.count x ≤ gh.pushed.count x) ∧
    (∀ x, gh.pushed.count x = gh.popped.count x + gh.q.count x) ∧
    (∀ call v, start call = .pushLoadTail v → call = .push v) := by
  intro c gh
  have g := ghost_pow k hk
  have hH : HInv _ gh := hinv_lrun g (ginv_initAt g r progs) (hinv_initAt c r progs) σ
  have h := hH.hist
  refine ⟨h, ⟨gh.q, h.symm⟩, ?_, count_popped_le h, ?_, fun _ _ e => start_push e⟩
  · intro x hx; rw [h]; exact List.mem_append_left _ hx
  · intro x; rw [h, List.count_append]

/-- Non-vacuity of `c01_linearizable`: capacity 2 at rotation 7, two pushers and a popper
interleaved; the popper's head-CAS removes 6 (pushed first) from `q = [6, 5]`, and its
last step returns `(6, true)` = its record. -/
example :
    let c : Cfg := { M := 0, cap := 2 }
    let σ := [1, 1, 1, 0, 0, 0, 1, 1, 2, 2]
    let sg := lrun c (initAt c 7 [[.push 5], [.push 6], [.pop]]) (ginit [[], [], []]) σ
    sg.2.q = [6, 5] ∧ (gstep sg.1 sg.2 2).q = [5] ∧ (gstep sg.1 sg.2 2).pend[2]? = some (some 6) ∧
    sg.2.cur = [some (.push 5), none, some .pop] ∧ sg.2.pushed = [6, 5] ∧
    (let sg' := lrun c sg.1 sg.2 [2, 2, 2]
     (step c sg'.1 2).2.ret = some (.pop 6 true) ∧ sg'.2.pend[2]? = some (some 6) ∧
     sg'.2.popped = [6] ∧ sg'.2.q = [5]) := by decide

/-- `c01_linearizable_classical` (ghost machine, unconditionally).  The classical form: an
explicit TOTAL ORDER.  The instrumented run `trun` also keeps a clock (steps so far), the
invocation time `invT` of every call in flight and the LOG of linearization points
`(t, tid, inv, ev)`; an operation is identified by `(tid, inv)`.  After every schedule `σ`,
with `i` the thread taking the next step:
 1. order = the log, sorted by time (`Pairwise (t < t')`), containing the operations that
    passed their CAS: the completed successful ones and the pending ones past their CAS;
 2. legal sequential history: replaying `log.map ev` on the bounded FIFO of capacity `cap`
    from the empty queue succeeds (`bqRun`: a `push` needs `|q| < cap`, a `pop v` needs
    `v` at the head) and yields the current abstract queue;
 3. real-time precedence: every entry lies inside the interval of its operation —
    `inv ≤ t < clock` now, and a response of that operation happens at a later step; the
    log only grows at its end and the clock counts the steps (`trun_log_prefix`, clause 5),
    so if operation A responded (time `≥ t_A`) before operation B was invoked (`inv_B ≤ t_B`)
    then A's entry precedes B's;
 4. exactly the observed return values: if the next step of `i` returns, the operation
    `(i, invT i)` that returns `Push = true` has an entry `push v` with `v` its recorded
    value — the call's argument by `c01_linearizable` clause 5 —, `Pop = (v, true)` has the
    entry `pop v`, and a call that returns FALSE has NO entry: false returns are not part of
    the total order.  Which false returns the property admits is `c01_false_interval`:
    "only if the ring was full (empty) at some instant during the call OR another operation
    overlapped it" — a false return that was overlapped is allowed by that wording although
    no instant with a full (empty) queue need exist, so it cannot always be placed in the
    order as a failing operation of the sequential specification;
 5. stability: the log of a longer run extends the log of every prefix. -/
theorem c01_linearizable_classical (k : Nat) (hk : 1 ≤ k) (r : Nat) (progs : List (List Call))
    (σ σ' : List Nat) (i : Nat) :
    let c : Cfg := { M := 0, cap := 2 ^ k }
    let x := trun c (initAt c r progs) (ginit progs) (tinit progs) σ
    let s := x.1
    let gh := x.2.1
    let tg := x.2.2
    (s, gh) = lrun c (initAt c r progs) (ginit progs) σ ∧
    tg.log.Pairwise (fun a b => a.t < b.t) ∧
    bqRun c.cap [] (tg.log.map (·.ev)) = some gh.q ∧
    (tg.clock = σ.length ∧ ∀ e ∈ tg.log, e.inv ≤ e.t ∧ e.t < tg.clock) ∧
    (∀ ret, (step c s i).2.ret = some ret → RetEntry gh tg i ret) ∧
    tg.log <+: (trun c (initAt c r progs) (ginit progs) (tinit progs) (σ ++ σ')).2.2.log := by
  intro c x s gh tg
  have g := ghost_pow k hk
  have hx := tinv_trun g (ginv_initAt g r progs) (tinv_initAt (c := c) r progs) σ
  obtain ⟨hG, hT⟩ := hx
  have hpre := trun_log_prefix c (initAt c r progs) (ginit progs) (tinit progs) σ
  refine ⟨trun_fst c _ _ _ σ, hT.sorted, hT.legal, ⟨?_, hT.times⟩,
    fun ret hr => ret_entry g hG hT i ret hr, ?_⟩
  · have h2 : tg.clock = (tinit progs).clock + σ.length := hpre.2
    rw [h2]
    simp [tinit]
  · have happ : ∀ (s0 : State) (g0 : LGhost) (t0 : TGhost) (a b : List Nat),
        trun c s0 g0 t0 (a ++ b) =
          trun c (trun c s0 g0 t0 a).1 (trun c s0 g0 t0 a).2.1 (trun c s0 g0 t0 a).2.2 b := by
      intro s0 g0 t0 a b
      induction a generalizing s0 g0 t0 with
      | nil => rfl
      | cons j a ih => simp only [List.cons_append, trun]; exact ih _ _ _
    rw [happ]
    exact (trun_log_prefix c _ _ _ σ').1

/-- `c01_false_interval`: false returns as a statement about the call's INTERVAL (the
wording "returns false only if the ring was full (empty) at some instant during the call or
another operation overlapped it").  Let `s` be any reachable state in which thread `i` is
about to execute the first access of a `Push` (`Pop`) — the invocation — and `σ` a schedule
from `s` such that in every state of the run over every prefix of `σ` no OTHER thread has a
call in flight (`NoOverlap`: nothing overlaps the call).  If the ring is not full (not
empty) at the invocation instant, then the first return of thread `i` in that run is not
`false`.  Contrapositive: a `Push` (`Pop`) returns false only if the ring held `cap` (0)
elements at the instant of its invocation — an instant during the call — or some other
operation was in flight at some instant of its interval.  (The instant-of-the-failing-step
form with the precise overlapping party is `c01_false_justified`.) -/
theorem c01_false_interval (k : Nat) (hk : 1 ≤ k) (r : Nat) (progs : List (List Call))
    (σ0 σ1 σ2 : List Nat) (i : Nat) (th : Thread) :
    let c : Cfg := { M := 0, cap := 2 ^ k }
    let s := (run c (initAt c r progs) σ0).1
    s.threads[i]? = some th → NoOverlap c s i (σ1 ++ i :: σ2) →
    (∀ e ∈ (run c s σ1).2, e.tid = i → e.ret = none) →
    ((∃ v, th.pc = .pushLoadTail v) → s.tail - s.head < c.cap →
      (step c (run c s σ1).1 i).2.ret ≠ some (.push false)) ∧
    (th.pc = .popLoadHead → 0 < s.tail - s.head →
      ∀ w, (step c (run c s σ1).1 i).2.ret ≠ some (.pop w false)) := by
  intro c s hth hno hret
  have g := ghost_pow k hk
  have hI : Inv c s := inv_run g (inv_initAt g r progs) σ0
  have hq : atStart th.pc = true → Quiescent s := by
    intro hst b hb
    obtain ⟨j, hj⟩ := List.getElem?_of_mem hb
    by_cases e : j = i
    · subst e
      rw [hth] at hj
      obtain rfl := Option.some.inj hj
      exact hst
    · exact hno.here j b e hj
  refine ⟨fun ⟨v, hpc⟩ hfree => ?_, fun hpc hst w => ?_⟩
  · have hpre := preP_of_quiescent g hI (hq (by simp [hpc, atStart])) hfree (· = i)
      (fun j b hj hb => by
        subst hj
        rw [hth] at hb
        obtain rfl := Option.some.inj hb
        exact Or.inr ⟨v, hpc⟩)
    exact push_alone_not_false g hI (Or.inl hpre) σ1 σ2 hno hret
  · have hpre := preQ_of_quiescent g hI (hq (by simp [hpc, atStart])) hst (· = i)
      (fun j b hj hb => by
        subst hj
        rw [hth] at hb
        obtain rfl := Option.some.inj hb
        exact Or.inr hpc)
    exact pop_alone_not_false g hI (Or.inl hpre) σ1 σ2 hno hret w
/-- `c01_false_justified`: whenever a `Push` is about to return false — at its sequence
check or at its CAS — the tail moved since the call loaded it (another `Push` overlapped),
or the ring holds `cap` elements at that instant, or a `Pop` that has claimed position
`tail − cap` is still in flight; whenever a `Pop` is about to return false the head moved
(another `Pop` overlapped), or the ring is empty at that instant, or a `Push` that has
claimed position `head` is still in flight. -/
theorem c01_false_justified (k : Nat) (hk : 1 ≤ k) (r : Nat) (progs : List (List Call))
    (σ : List Nat) (th : Thread) :
    let c : Cfg := { M := 0, cap := 2 ^ k }
    let s := (run c (initAt c r progs) σ).1
    th ∈ s.threads →
    ((∀ v pos q, th.pc = .pushLoadSeq v pos → sq s.slots (pos % c.cap) = some q → pos ≠ q →
        pos < s.tail ∨ s.tail - s.head = c.cap ∨
          (c.cap ≤ s.tail ∧ cR s.threads (s.tail - c.cap) = 1)) ∧
     (∀ v pos seq, th.pc = .pushCAS v pos seq → s.tail ≠ pos → pos < s.tail)) ∧
    ((∀ pos q, th.pc = .popLoadSeq pos → sq s.slots (pos % c.cap) = some q → pos + 1 ≠ q →
        pos < s.head ∨ s.tail = s.head ∨ cW s.threads s.head = 1) ∧
     (∀ pos seq, th.pc = .popCAS pos seq → s.head ≠ pos → pos < s.head)) := by
  intro c s hth
  have g := ghost_pow k hk
  have hI := inv_run g (inv_initAt g r progs) σ
  exact ⟨push_false_reason g hI hth, pop_false_reason g hI hth⟩

/-- `c01_quiescent_slots` (the former `c01_progress_partial`, kept; the key fact behind
`c01_progress_push/_pop`): in every reachable state in which no thread is between its CAS
and its store, the slot at the tail is free for exactly the tail position unless the ring
is full, and the slot at the head is published for exactly the head position unless the
ring is empty. -/
theorem c01_quiescent_slots (k : Nat) (hk : 1 ≤ k) (r : Nat) (progs : List (List Call))
    (σ : List Nat) :
    let c : Cfg := { M := 0, cap := 2 ^ k }
    let s := (run c (initAt c r progs) σ).1
    (∀ p, cW s.threads p = 0 ∧ cR s.threads p = 0) →
      (s.tail - s.head < c.cap → sq s.slots (s.tail % c.cap) = some s.tail) ∧
      (0 < s.tail - s.head → sq s.slots (s.head % c.cap) = some (s.head + 1)) := by
  intro c s hq
  have g := ghost_pow k hk
  exact quiescent_slots g (inv_run g (inv_initAt g r progs) σ) hq

/-- `c01_progress_push`.  From every reachable QUIESCENT state `s` (no call in flight:
every thread is idle or about to execute the first access of its next call) with at least
one free slot (`tail − head < cap`), along every schedule `σ` in which only pushers take
steps (every scheduled thread is idle or at the first step of a `Push`; what their programs
contain after that call is arbitrary):
 (a) as long as no tail-CAS has been executed nobody has returned (in particular nobody
     returned false), and the FIRST `CAS(&r.tail, …)` executed succeeds;
 (b) hence in every complete run — one that ends quiescent and in which some call returned
     at all — at least one `Push` returned true. -/
theorem c01_progress_push (k : Nat) (hk : 1 ≤ k) (r : Nat) (progs : List (List Call))
    (σ0 σ : List Nat) :
    let c : Cfg := { M := 0, cap := 2 ^ k }
    let s := (run c (initAt c r progs) σ0).1
    Quiescent s → s.tail - s.head < c.cap →
    (∀ i ∈ σ, ∀ th, s.threads[i]? = some th → th.pc = .idle ∨ ∃ v, th.pc = .pushLoadTail v) →
    (∀ σ1 i σ2, σ = σ1 ++ i :: σ2 →
      (∀ e ∈ (run c s σ1).2, ∀ o n ok, e.acc ≠ .casTail o n ok) →
      (∀ e ∈ (run c s σ1).2, e.ret = none) ∧
      ∀ o n ok, (step c (run c s σ1).1 i).2.acc = .casTail o n ok → ok = true) ∧
    (Quiescent (run c s σ).1 → (∃ e ∈ (run c s σ).2, e.ret ≠ none) →
      ∃ e ∈ (run c s σ).2, e.ret = some (.push true)) := by
  intro c s hq hfree hP
  have g := ghost_pow k hk
  have hI : Inv c s := inv_run g (inv_initAt g r progs) σ0
  have hpre := preP_of_quiescent g hI hq hfree (· ∈ σ) (fun i th hi hth => hP i hi th hth)
  refine ⟨?_, ?_⟩
  · intro σ1 i σ2 hσ hno
    have hsub : ∀ j ∈ σ1, j ∈ σ := fun j hj => by rw [hσ]; simp [hj]
    have hi : i ∈ σ := by rw [hσ]; simp
    obtain ⟨h1, hr⟩ := preP_run g hpre σ1 hsub hno
    refine ⟨hr, ?_⟩
    intro o n ok hacc
    rcases prePush_step g h1 (P := (· ∈ σ)) hi with ⟨_, _, _, _, _, hev, _⟩ | ⟨_, _, hne⟩
    · rw [hev] at hacc
      simp only [Acc.casTail.injEq] at hacc
      exact hacc.2.2.symm
    · exact absurd hacc (hne o n ok)
  · intro hq' hret
    exact pushers_some_true g hI hpre σ (fun i hi => hi) (fun p => (quiescent_counts hq' p).1) hret

/-- `c01_progress_pop`: the same for poppers on a ring with at least one stored element
(`tail − head > 0`): before the first head-CAS is executed nobody has returned, the first
`CAS(&r.head, …)` executed succeeds, and in every complete run at least one `Pop` returned
`(v, true)`. -/
theorem c01_progress_pop (k : Nat) (hk : 1 ≤ k) (r : Nat) (progs : List (List Call))
    (σ0 σ : List Nat) :
    let c : Cfg := { M := 0, cap := 2 ^ k }
    let s := (run c (initAt c r progs) σ0).1
    Quiescent s → 0 < s.tail - s.head →
    (∀ i ∈ σ, ∀ th, s.threads[i]? = some th → th.pc = .idle ∨ th.pc = .popLoadHead) →
    (∀ σ1 i σ2, σ = σ1 ++ i :: σ2 →
      (∀ e ∈ (run c s σ1).2, ∀ o n ok, e.acc ≠ .casHead o n ok) →
      (∀ e ∈ (run c s σ1).2, e.ret = none) ∧
      ∀ o n ok, (step c (run c s σ1).1 i).2.acc = .casHead o n ok → ok = true) ∧
    (Quiescent (run c s σ).1 → (∃ e ∈ (run c s σ).2, e.ret ≠ none) →
      ∃ e ∈ (run c s σ).2, ∃ v, e.ret = some (.pop v true)) := by
  intro c s hq hstored hP
  have g := ghost_pow k hk
  have hI : Inv c s := inv_run g (inv_initAt g r progs) σ0
  have hpre := preQ_of_quiescent g hI hq hstored (· ∈ σ) (fun i th hi hth => hP i hi th hth)
  refine ⟨?_, ?_⟩
  · intro σ1 i σ2 hσ hno
    have hsub : ∀ j ∈ σ1, j ∈ σ := fun j hj => by rw [hσ]; simp [hj]
    have hi : i ∈ σ := by rw [hσ]; simp
    obtain ⟨h1, hr⟩ := preQ_run g hpre σ1 hsub hno
    refine ⟨hr, ?_⟩
    intro o n ok hacc
    rcases prePop_step g h1 (P := (· ∈ σ)) hi with ⟨_, _, _, _, hev, _⟩ | ⟨_, _, hne⟩
    · rw [hev] at hacc
      simp only [Acc.casHead.injEq] at hacc
      exact hacc.2.2.symm
    · exact absurd hacc (hne o n ok)
  · intro hq' hret
    exact poppers_some_true g hI hpre σ (fun i hi => hi) (fun p => (quiescent_counts hq' p).2) hret

/-- Non-vacuity of `c01_progress_push/_pop`: capacity 2 at rotation 7 holding one element
(thread 0 pushed 5: five steps), quiescent; two pushers interleaved: the first tail-CAS
(thread 2) succeeds, the other pusher's CAS fails, the run ends quiescent with one
`Push = true`; and a popper alone gets `(5, true)`. -/
example :
    let c : Cfg := { M := 0, cap := 2 }
    let s := (run c (initAt c 7 [[.push 5], [.push 6], [.push 8], [.pop]]) [0, 0, 0, 0, 0]).1
    (∀ th ∈ s.threads, atStart th.pc = true) ∧ s.tail - s.head = 1 ∧
    ((run c s [1, 2, 1, 2, 2, 1, 2, 2]).2.filterMap (·.ret) = [.push false, .push true]) ∧
    (∀ th ∈ (run c s [1, 2, 1, 2, 2, 1, 2, 2]).1.threads, atStart th.pc = true) ∧
    ((run c s [3, 3, 3, 3, 3, 3]).2.filterMap (·.ret) = [.pop 5 true]) := by decide

/-- `c01_timed_wait` (WAVE4 class 5).  `PushWait` / `PopWait` in all three forms
(`maxWait < 0`: Gosched loop; `= 0`: one attempt; `> 0`: one attempt, then one attempt per
tick of the ticker, the deadline test coming AFTER the attempt's result), with the outcome
of every attempt and the deadline flag of every tick as environment input
(Model/C01Wait.lean): the call consumes a prefix of `n` attempts; every attempt but the
last one failed; if the call returns `some v` (true) the last attempt returned `v` — a
success on the deadline tick is not dropped —; if it returns `none` (false, or still waiting)
EVERY attempt it made returned false.  With `c01_linearizable` clause 3 (`RetOk`: a
`Push`/`Pop` that returns false did not linearize) a waiting call that returns false
performed no successful CAS: it stored / consumed nothing; one that returns true performed
exactly one, in its last attempt. -/
theorem c01_timed_wait {α : Type} (maxWait : Int) (env : List (Option α × Bool)) :
    let outs := env.map (·.1)
    let r := (waitCall maxWait env).1
    let n := (waitCall maxWait env).2
    n ≤ outs.length ∧
    (∀ k, k + 1 < n → outs[k]? = some none) ∧
    (∀ v, r = some v → 0 < n ∧ outs[n - 1]? = some (some v)) ∧
    (r = none → ∀ k, k < n → outs[k]? = some none) := by
  intro outs r n
  obtain ⟨h1, h2, h3⟩ := waitCall_last maxWait env
  refine ⟨h1, h2, ?_, ?_⟩
  · intro v hv
    have : (waitCall maxWait env).1 = some v := hv
    rw [this] at h3
    exact h3
  · intro hn
    have : (waitCall maxWait env).1 = none := hn
    rw [this] at h3
    exact h3

/-- Non-vacuity of `c01_timed_wait`: `PopWait(15ms)`, the ring stays empty on the first
tick, the element arrives before the second tick on which the deadline is also reached —
the value is returned (the seeded loop `switch {case deadline: return false; case ok: …}`
would drop it); and a wait whose deadline tick finds nothing makes no further attempt. -/
example :
    waitCall (15 : Int) [(none, false), (none, false), (some (7 : Int), true)] = (some 7, 3) ∧
    waitCall (15 : Int) [(none, false), (none, true), (some (7 : Int), false)] = (none, 2) ∧
    waitCall (0 : Int) [(none, false), (some (7 : Int), false)] = (none, 1) ∧
    waitCall (-1 : Int) [(none, true), (none, true), (some (7 : Int), true)] = (some 7, 3) := by decide

/-- `c01_reinit_independent` (WAVE4 class 4).  SyncRing VALUES with their slot arrays as
heap objects with identity (Model/C01Heap.lean: a struct copy shares the array, `Init`
allocates).  In every well-formed world:
 1. `x.Init(cap)` makes `x` a fresh empty ring on a NEW array; every other ring value —
    copies of `x` taken before, the value `x` was copied from — keeps its fields and its
    array content, and none of them refers to the new array;
 2. a call on `x` changes nothing of any ring value that refers to a different array, and
    (by definition of `World.call`) its result and `x`'s new state are a function of `x`'s
    own fields and array only: each ring is the machine of `c01_linearizable` on its own
    state;
 3. a struct copy has the same view as its source (sharing is visible in the model). -/
theorem c01_reinit_independent (M : Nat) (w : World) (h : w.WF) (x : Nat) :
    (∀ cap, x < w.vars.length →
      (w.init x cap).WF ∧
      (w.init x cap).view x =
        some ({ head := 0, tail := 0, cap := cap, arr := w.heap.length }, freshSlots cap) ∧
      ∀ y r, y ≠ x → w.vars[y]? = some r →
        (w.init x cap).vars[y]? = some r ∧ (w.init x cap).view y = w.view y ∧ r.arr ≠ w.heap.length) ∧
    (∀ call, (w.call M x call).1.WF ∧
      ∀ y r rx, y ≠ x → w.vars[y]? = some r → w.vars[x]? = some rx → r.arr ≠ rx.arr →
        (w.call M x call).1.vars[y]? = some r ∧ (w.call M x call).1.view y = w.view y) ∧
    (∀ y r, w.vars[x]? = some r → y < w.vars.length →
      (w.copy x y).view y = w.view x ∧ (w.copy x y).heap = w.heap) :=
  ⟨fun cap hx => init_fresh h hx cap, fun call => call_frame M h x call,
   fun _ _ hx hy => copy_view hx hy⟩

/-- Non-vacuity of `c01_reinit_independent` (the "swap the queue out and drain it" history):
ring 0 of capacity 4 holds 1 2; `backlog := live` (ring 1); `live.Init(2)`; new traffic on
the fresh ring and draining the backlog do not interfere. -/
example :
    let w0 : World := (World.mk [] [⟨0, 0, 0, 0⟩, ⟨0, 0, 0, 0⟩]).init 0 4
    let w1 := ((w0.call (2 ^ 32) 0 (.push 1)).1.call (2 ^ 32) 0 (.push 2)).1
    let w2 := (w1.copy 0 1).init 0 2
    let w3 := (w2.call (2 ^ 32) 0 (.push 100)).1
    (w3.call (2 ^ 32) 1 .pop).2 = some (.pop 1 true) ∧
    ((w3.call (2 ^ 32) 1 .pop).1.call (2 ^ 32) 0 .pop).2 = some (.pop 100 true) ∧
    (w2.call (2 ^ 32) 0 .pop).2 = some (.pop 0 false) := by decide +kernel

/-- `c01_u32_arith` (the former `c01_u32_refines_partial`, kept; the arithmetic core of the
refinement): as long as the two compared counter / sequence values are less than `2^32`
apart, every comparison the code makes on the wrapped values decides exactly as on the
unbounded values, and the 32-bit difference used by `Len/IsFull` is the true difference. -/
theorem c01_u32_arith (cap a b : Nat) (h : a ≤ b) (hlag : b - a < 2 ^ 32) :
    (a % 2 ^ 32 = b % 2 ^ 32 ↔ a = b) ∧
    ((a + 1) % 2 ^ 32 = (b + 1) % 2 ^ 32 ↔ a = b) ∧
    (Cfg.mk (2 ^ 32) cap).sub (b % 2 ^ 32) (a % 2 ^ 32) = b - a :=
  ⟨wrap_eq_iff h hlag, by
    have := wrap_eq_iff (a := a + 1) (b := b + 1) (by omega) (by omega)
    constructor
    · intro e; have := this.1 e; omega
    · intro e; rw [e],
   sub32_exact cap h hlag⟩

/-- `c01_u32_refines_boundedLag`.  `Conc32` (`M = 2^32`, what the code does) against the
ghost machine `Conc` (`M = 0`), for every capacity `2^k`, `1 ≤ k ≤ 31` (all that `Init`
produces), every rotation, thread count, program assignment and schedule `σ`:
if BoundedLag holds along the GHOST run (`LagRun`: whenever a thread takes a step, the
ticket it loaded earlier in its call — `pos` of `Push`/`Pop`, the first counter read by
`Len/IsEmpty/IsFull` — is at most `2^32 − cap` behind the current value of that counter
(`Push`, `Pop`, `Len`) resp. less than `2^32 − cap` behind (`IsEmpty`, `IsFull`), i.e. at most
that many operations of that kind succeeded since the load; these bounds are TIGHT, see
`c01_u32_lag_tight` — the often quoted `2^32` is not sufficient), then the
32-bit machine started in the same initial state passes through exactly the ghost states
with every counter, sequence number and local reduced mod `2^32` (`wrapState`) and emits
the same events — same thread, same RETURN VALUE, accesses equal up to reduction mod `2^32`
(`wrapEvent`): the two machines take the same branch at every step.  Proof: `step32`
(one step, from `Inv` and `seq_window`) and induction over the schedule (`run32`).
Without BoundedLag this is false: `Findings/C01_ABA.lean` (F12). -/
theorem c01_u32_refines_boundedLag (k : Nat) (hk1 : 1 ≤ k) (hk : k ≤ 31) (r : Nat)
    (progs : List (List Call)) (σ : List Nat) :
    let c0 : Cfg := { M := 0, cap := 2 ^ k }
    let c32 : Cfg := { M := 2 ^ 32, cap := 2 ^ k }
    LagRun c0 (initAt c0 r progs) σ →
    run c32 (initAt c32 r progs) σ =
      (wrapState (run c0 (initAt c0 r progs) σ).1, (run c0 (initAt c0 r progs) σ).2.map wrapEvent) := by
  intro c0 c32 hl
  have g := ghost_pow k hk1
  have h := run32 hk1 hk (inv_initAt g r progs) σ hl
  rw [wrap_initAt] at h
  exact h

/-- `c01_u32_refines_single_thread`: when a single thread runs (the C10 clause) BoundedLag
always holds — the thread's ticket IS the current counter (`Solo`) — so the 32-bit machine
refines the ghost machine along every schedule with no hypothesis at all, for counters
started anywhere (`r` arbitrary: also just below `2^32` and beyond). -/
theorem c01_u32_refines_single_thread (k : Nat) (hk1 : 1 ≤ k) (hk : k ≤ 31) (r : Nat)
    (prog : List Call) (σ : List Nat) :
    let c0 : Cfg := { M := 0, cap := 2 ^ k }
    let c32 : Cfg := { M := 2 ^ 32, cap := 2 ^ k }
    LagRun c0 (initAt c0 r [prog]) σ ∧
    run c32 (initAt c32 r [prog]) σ =
      (wrapState (run c0 (initAt c0 r [prog]) σ).1, (run c0 (initAt c0 r [prog]) σ).2.map wrapEvent) := by
  intro c0 c32
  have hcap : c0.cap < 4294967296 := by
    have : (2:Nat) ^ k ≤ 2 ^ 31 := Nat.pow_le_pow_right (by omega) hk
    have : (2:Nat) ^ 31 = 2147483648 := by decide
    show 2 ^ k < 4294967296
    omega
  have hl := solo_lagRun c0 hcap (solo_initAt c0 r prog) σ
  exact ⟨hl, c01_u32_refines_boundedLag k hk1 hk r [prog] σ hl⟩

/-- the ghost state "empty ring at rotation `r`, one thread parked in front of `pc`": it
satisfies the invariant when `pc` only carries a lower bound of a counter -/
def parkedAt (c : Cfg) (r : Nat) (pc : Pc) : State :=
  { initAt c r [[]] with threads := (initAt c r [[]]).threads.set 0 { pc := pc, prog := [] } }

/-- `c01_u32_lag_tight`: the bounds of BoundedLag cannot be relaxed (capacity 2, states that
satisfy the invariant `Inv`: a thread parked with the stale ticket 0 while the counters
moved on).
 1. `Push` parked between its two loads with lag `2^32 − cap + 1`: the ghost machine sees
    the slot's sequence number `2^32 ≠ 0` and returns false, the 32-bit machine sees
    `0 = 0`, passes the check and goes on to its CAS — different branches; with lag exactly
    `2^32 − cap` the two steps agree (instance of `step32`).
 2. `IsFull` parked between its two loads with lag exactly `2^32 − cap` on an EMPTY ring: the
    32-bit difference of the counters is `cap`, `IsFull` returns true; the ghost machine
    returns false. -/
theorem c01_u32_lag_tight :
    let c0 : Cfg := { M := 0, cap := 2 }
    let c32 : Cfg := { M := 2 ^ 32, cap := 2 }
    let s1 := parkedAt c0 (2 ^ 32 - 1) (.pushLoadSeq 7 0)
    let s2 := parkedAt c0 (2 ^ 32 - 2) (.fullLoadHead 0)
    let s3 := parkedAt c0 (2 ^ 32 - 2) (.pushLoadSeq 7 0)
    (Inv c0 s1 ∧ s1.tail - 0 = 2 ^ 32 - 2 + 1 ∧
      (step c0 s1 0).2.ret = some (.push false) ∧ (step c32 (wrapState s1) 0).2.ret = none) ∧
    (Inv c0 s2 ∧ s2.tail - 0 = 2 ^ 32 - 2 ∧
      (step c0 s2 0).2.ret = some (.isFull false) ∧
      (step c32 (wrapState s2) 0).2.ret = some (.isFull true)) ∧
    (s3.tail - 0 = 2 ^ 32 - 2 ∧ step c32 (wrapState s3) 0 = wrapRes (step c0 s3 0)) := by
  intro c0 c32 s1 s2 s3
  have g : Ghost c0 := ghost_pow 1 (Nat.le_refl 1)
  have hinv : ∀ r pc, PcOk c0.cap (initAt c0 r [[]]).head (initAt c0 r [[]]).tail
      (sq (initAt c0 r [[]]).slots) pc → (∀ p, pushAt p pc = false ∧ popAt p pc = false) →
      Inv c0 (parkedAt c0 r pc) := by
    intro r pc hok hat
    have hI := inv_initAt g r [[]]
    have hth : (initAt c0 r [[]]).threads[0]? = some (mkThread []) := rfl
    exact inv_local hI hth (fun _ => rfl) rfl
      (fun p => by rw [(hat p).1, (hat p).2]; exact ⟨rfl, rfl⟩) hok
  refine ⟨⟨hinv _ _ ?_ ?_, by decide +kernel, by decide +kernel, by decide +kernel⟩,
          ⟨hinv _ _ ?_ ?_, by decide +kernel, by decide +kernel, by decide +kernel⟩,
          by decide +kernel, by decide +kernel⟩
  · simp [PcOk]
  · intro p; simp [pushAt, popAt]
  · simp [PcOk]
  · intro p; simp [pushAt, popAt]

/-- `c01_u32_transfer`: what the C01 theorems say about the 32-bit machine under BoundedLag.
Along every schedule on which `LagRun` holds:
 1. the history of the 32-bit machine — which thread returned what, in which order — is
    the history of the ghost machine on the same schedule, so `c01_linearizable`,
    `c01_false_justified` and `c01_progress_push/_pop` (statements about the ghost run's
    states and returns) are statements about the 32-bit run;
 2. the 32-bit machine never indexed outside the slot array;
 3. `c01_race_free` holds of the 32-bit state;
 4. `Len/IsEmpty/IsFull` evaluated on the 32-bit counters are exact (`tail − head` of the
    ghost state, which is the length of the abstract queue) and at most `cap`
    (`c01_len_exact_quiescent`, `c01_len_range`). -/
theorem c01_u32_transfer (k : Nat) (hk1 : 1 ≤ k) (hk : k ≤ 31) (r : Nat)
    (progs : List (List Call)) (σ : List Nat) :
    let c0 : Cfg := { M := 0, cap := 2 ^ k }
    let c32 : Cfg := { M := 2 ^ 32, cap := 2 ^ k }
    let s := (run c0 (initAt c0 r progs) σ).1
    let s32 := (run c32 (initAt c32 r progs) σ).1
    LagRun c0 (initAt c0 r progs) σ →
    (run c32 (initAt c32 r progs) σ).2.map (fun e => (e.tid, e.ret)) =
      (run c0 (initAt c0 r progs) σ).2.map (fun e => (e.tid, e.ret)) ∧
    s32.crashed = false ∧
    (∀ (i j : Nat) (a b : Thread) (slot : Nat), i ≠ j → s32.threads[i]? = some a → s32.threads[j]? = some b →
      ¬ (plainSlot c32 a.pc = some slot ∧ plainSlot c32 b.pc = some slot)) ∧
    (c32.lenOf s32.tail s32.head = s.tail - s.head ∧ s.tail - s.head ≤ c32.cap ∧
      ((s32.head == s32.tail) = true ↔ s.tail - s.head = 0) ∧
      ((c32.sub s32.tail s32.head == c32.cap) = true ↔ s.tail - s.head = c32.cap)) := by
  intro c0 c32 s s32 hl
  have g := ghost_pow k hk1
  have hI : Inv c0 s := inv_run g (inv_initAt g r progs) σ
  have href := c01_u32_refines_boundedLag k hk1 hk r progs σ hl
  have hs32 : s32 = wrapState s := congrArg Prod.fst href
  have hHT := hI.head_le_tail
  have hTc : s.tail ≤ s.head + 2 ^ k := hI.tail_le
  have hcap : (2:Nat) ^ k ≤ 2147483648 := by
    have : (2:Nat) ^ k ≤ 2 ^ 31 := Nat.pow_le_pow_right (by omega) hk
    have : (2:Nat) ^ 31 = 2147483648 := by decide
    omega
  refine ⟨?_, ?_, ?_, ?_⟩
  · rw [congrArg Prod.snd href]
    simp only [List.map_map]
    rfl
  · rw [hs32]; exact hI.not_crashed
  · intro i j a b slot hij ha hb ⟨h1, h2⟩
    rw [hs32, wrap_threads_get] at ha hb
    cases ha0 : s.threads[i]? with
    | none => rw [ha0] at ha; simp at ha
    | some a0 =>
      cases hb0 : s.threads[j]? with
      | none => rw [hb0] at hb; simp at hb
      | some b0 =>
        rw [ha0] at ha; rw [hb0] at hb
        obtain rfl := Option.some.inj ha
        obtain rfl := Option.some.inj hb
        have e1 := plainSlot_wrap (k := k) (by omega) a0.pc
        have e2 := plainSlot_wrap (k := k) (by omega) b0.pc
        exact no_conflict g hI hij ha0 hb0 (e1 ▸ h1) (e2 ▸ h2)
  · have hsub : c32.sub s32.tail s32.head = s.tail - s.head := by
      rw [hs32]
      exact sub32_exact (2 ^ k) hHT (by have : (2:Nat) ^ 32 = 4294967296 := by decide
                                        omega)
    have hh : s32.head = s.head % 4294967296 := by rw [hs32]; rfl
    have ht : s32.tail = s.tail % 4294967296 := by rw [hs32]; rfl
    refine ⟨?_, by show s.tail - s.head ≤ 2 ^ k; omega, ?_, ?_⟩
    · simp only [Cfg.lenOf, hsub]
      rw [if_neg (by show ¬ s.tail - s.head > 2 ^ k; omega)]
    · rw [hh, ht]
      simp only [beq_iff_eq]
      omega
    · rw [hsub]
      simp only [beq_iff_eq]

/-- `c01_u32_linearizable`: `c01_linearizable` stated OF THE 32-BIT MACHINE.  The same ghost
instrumentation (`lrun`, `gstep`: the abstract queue is updated exactly when a CAS on the
32-bit counters succeeds) is run on `Conc32`.  Along every schedule `σ` followed by a step of
thread `i` on which BoundedLag holds (`LagRun` of the ghost run): the abstract queue has at
most `cap` elements; the step of `i` leaves it alone or is a legal `bqPush` / `bqPop` whose
value the thread records; no other thread's record changes; and every value the 32-bit
machine returns in that step agrees with the call's linearization event (`RetOk`: a
successful `Pop` returns exactly what its head-CAS removed from the head of the abstract
queue, a false return belongs to a call that did not linearize). -/
theorem c01_u32_linearizable (k : Nat) (hk1 : 1 ≤ k) (hk : k ≤ 31) (r : Nat)
    (progs : List (List Call)) (σ : List Nat) (i : Nat) :
    let c0 : Cfg := { M := 0, cap := 2 ^ k }
    let c32 : Cfg := { M := 2 ^ 32, cap := 2 ^ k }
    let sg := lrun c32 (initAt c32 r progs) (ginit progs) σ
    let s32 := sg.1
    let gh := sg.2
    let gh' := gstep s32 gh i
    LagRun c0 (initAt c0 r progs) (σ ++ [i]) →
    s32 = (run c32 (initAt c32 r progs) σ).1 ∧
    gh.q.length ≤ c32.cap ∧
    (gh'.q = gh.q ∨
      (∃ v, bqPush c32.cap gh.q v = some gh'.q ∧ gh'.pend[i]? = some (some v)) ∨
      (∃ x, bqPop gh.q = some (x, gh'.q) ∧ gh'.pend[i]? = some (some x))) ∧
    (∀ j, j ≠ i → gh'.pend[j]? = gh.pend[j]?) ∧
    (∀ ret, (step c32 s32 i).2.ret = some ret → RetOk gh gh' i ret) := by
  intro c0 c32 sg s32 gh gh' hl
  have g := ghost_pow k hk1
  rw [lagRun_append] at hl
  obtain ⟨hl1, hl2, _⟩ := hl
  have hI0 := inv_initAt g r progs
  have hrun := lrun32 hk1 hk hI0 (ginit progs) σ hl1
  rw [wrap_initAt] at hrun
  have hG : GInv c0 (lrun c0 (initAt c0 r progs) (ginit progs) σ).1
      (lrun c0 (initAt c0 r progs) (ginit progs) σ).2 := ginv_lrun g (ginv_initAt g r progs) σ
  have hs32 : s32 = wrapState (lrun c0 (initAt c0 r progs) (ginit progs) σ).1 := by
    have := congrArg Prod.fst hrun; exact this
  have hgh : gh = (lrun c0 (initAt c0 r progs) (ginit progs) σ).2 := by
    have := congrArg Prod.snd hrun; exact this
  have hlag : ∀ th, (lrun c0 (initAt c0 r progs) (ginit progs) σ).1.threads[i]? = some th →
      Lag (2 ^ k) (lrun c0 (initAt c0 r progs) (ginit progs) σ).1 th.pc := by
    rw [lrun_fst]; exact hl2
  have hgs : gh' = gstep (lrun c0 (initAt c0 r progs) (ginit progs) σ).1
      (lrun c0 (initAt c0 r progs) (ginit progs) σ).2 i := by
    show gstep s32 gh i = _
    rw [hs32, hgh]
    exact gstep32 hk hG.inv _ i hlag
  have hstep := step32 hk1 hk hG.inv i hlag
  refine ⟨lrun_fst _ _ _ σ, ?_, ?_, ?_, ?_⟩
  · rw [hgh]
    have := hG.qlen
    have h2 : (lrun c0 (initAt c0 r progs) (ginit progs) σ).1.tail ≤
        (lrun c0 (initAt c0 r progs) (ginit progs) σ).1.head + 2 ^ k := hG.inv.tail_le
    have hpos : 0 < 2 ^ k := Nat.pow_pos (by omega)
    show _ ≤ 2 ^ k
    omega
  · rw [hgs, hgh]
    rcases gstep_lin g hG i with ⟨h, _⟩ | ⟨_, v, _, _, _, _, _, h1, h2⟩ | ⟨_, _, _, x, _, _, _, h1, h2⟩
    · exact Or.inl h
    · exact Or.inr (Or.inl ⟨v, h1, h2⟩)
    · exact Or.inr (Or.inr ⟨x, h1, h2⟩)
  · intro j hj
    rw [hgs, hgh]
    exact gstep_pend_other _ _ hj
  · intro ret hr
    rw [hgs, hgh]
    refine returns_match g hG i ret ?_
    have : (step c32 s32 i).2.ret = (step c0 (lrun c0 (initAt c0 r progs) (ginit progs) σ).1 i).2.ret := by
      rw [hs32]
      show (step { M := 4294967296, cap := 2 ^ k } _ i).2.ret = _
      rw [hstep]
      rfl
    rw [← this]; exact hr

/-- `c01_u32_linearizable_classical`: the classical form for the 32-BIT machine under
BoundedLag.  Along every schedule on which `LagRun` holds, the clock / log instrumentation run
on `Conc32` produces exactly the ghost state (abstract queue, records, clock, log) of the
ghost machine on the same schedule, and the 32-bit state is the ghost state mod `2^32`;
so the log of the 32-bit run is sorted, replays as a legal sequential bounded-FIFO history
to the current abstract queue and every entry lies in its operation's interval — clauses
1–3 and 5 of `c01_linearizable_classical` verbatim; and clause 4 directly: whatever the
32-BIT machine returns in the next step of thread `i` (BoundedLag also for that step) agrees
with the log entry of the returning operation (`RetEntry`: exactly its entry with the
returned value for a true return, no entry for a false one). -/
theorem c01_u32_linearizable_classical (k : Nat) (hk1 : 1 ≤ k) (hk : k ≤ 31) (r : Nat)
    (progs : List (List Call)) (σ : List Nat) (i : Nat) :
    let c0 : Cfg := { M := 0, cap := 2 ^ k }
    let c32 : Cfg := { M := 2 ^ 32, cap := 2 ^ k }
    let x := trun c0 (initAt c0 r progs) (ginit progs) (tinit progs) σ
    let x32 := trun c32 (initAt c32 r progs) (ginit progs) (tinit progs) σ
    LagRun c0 (initAt c0 r progs) (σ ++ [i]) →
    x32 = (wrapState x.1, x.2) ∧
    x32.2.2.log.Pairwise (fun a b => a.t < b.t) ∧
    bqRun c32.cap [] (x32.2.2.log.map (·.ev)) = some x32.2.1.q ∧
    (∀ e ∈ x32.2.2.log, e.inv ≤ e.t ∧ e.t < x32.2.2.clock) ∧
    (∀ ret, (step c32 x32.1 i).2.ret = some ret → RetEntry x32.2.1 x32.2.2 i ret) := by
  intro c0 c32 x x32 hl
  have g := ghost_pow k hk1
  rw [lagRun_append] at hl
  obtain ⟨hl1, hl2, _⟩ := hl
  have h := trun32 hk1 hk (inv_initAt g r progs) (ginit progs) (tinit progs) σ hl1
  rw [wrap_initAt] at h
  have hx : x32 = (wrapState x.1, x.2) := h
  obtain ⟨hG, hT⟩ := tinv_trun g (ginv_initAt g r progs) (tinv_initAt (c := c0) r progs) σ
  have hrun : x.1 = (run c0 (initAt c0 r progs) σ).1 := by
    have h1 := congrArg Prod.fst (trun_fst c0 (initAt c0 r progs) (ginit progs) (tinit progs) σ)
    rw [lrun_fst] at h1
    exact h1
  have hlag : ∀ th, x.1.threads[i]? = some th → Lag (2 ^ k) x.1 th.pc := by
    rw [hrun]; exact hl2
  have hstep := step32 hk1 hk hG.inv i hlag
  rw [hx]
  refine ⟨rfl, hT.sorted, hT.legal, hT.times, ?_⟩
  intro ret hr
  refine ret_entry g hG hT i ret ?_
  have e : (step c32 (wrapState x.1) i).2.ret = (step c0 x.1 i).2.ret := by
    show (step { M := 4294967296, cap := 2 ^ k } _ i).2.ret = _
    rw [hstep]
    rfl
  rw [← e]; exact hr

/-- `c01_aba_reachable` (F12 as a theorem for EVERY ticket width, capacity 2).  For every
width `w ≥ 2` the machine with `w`-bit tickets (`M = 2^w`) and capacity 2 has a run of
honest steps — thread 0 loads the tail 0 and the free slot's sequence number and is parked;
thread 2 fills the ring; then `2^w − 2` pop/push pairs by threads 1 and 2 (lemma `rounds`, by
induction over the number of pairs: the "warp" lemma, not an evaluation) — after which the
ring is FULL (`head = 2^w − 2`, `tail` wrapped to 0, slot 0 holds the oldest unpopped
element), thread 0's stale `CAS(&tail, 0, 1)` succeeds, its `Push` overwrites that element
with 7 and returns true: successful pushes minus successful pops = 3 > capacity.
For `w = 32` this is the known finding F12 (ticket-aba): it is an instance, not an
extrapolation from the width-2 witness of `Findings/C01_ABA.lean`.
GENERAL CAPACITY `2^k < 2^w` (the full `c01_aba_reachable (w) (k)` of the plan): not proved —
the round lemma is proved for the two-slot ring, where the slot list is explicit; for `2^k`
slots the same induction needs the closed form of the full ring at rotation `n`
(`slotSeq`) and a `List.set`/`List.range` calculation that is not done. -/
theorem c01_aba_reachable (w : Nat) (hw : 2 ≤ w) :
    let c : Cfg := { M := 2 ^ w, cap := 2 }
    let K := 2 ^ w - 2
    let σ := ABA.abaPrefix ++ ABA.roundSched K
    ((run c (init c (ABA.abaProgs K)) σ).1 = ABA.R (2 ^ w) K 0 ∧
      (ABA.R (2 ^ w) K 0).tail = 0 ∧ (ABA.R (2 ^ w) K 0).head = 2 ^ w - 2 ∧
      (ABA.R (2 ^ w) K 0).slots[0]? = some ⟨2 ^ w - 2 + 1, 9⟩) ∧
    (run c (ABA.R (2 ^ w) K 0) [0]).2 = [⟨0, .casTail 0 1 true, none⟩] ∧
    ((run c (init c (ABA.abaProgs K)) (σ ++ [0, 0, 0])).1.slots[0]?).map (·.val) = some 7 ∧
    ABA.net (ABA.rets (run c (init c (ABA.abaProgs K)) (σ ++ [0, 0, 0])).2) = 3 :=
  ABA.aba_all_widths w hw

/-- `c01_aba_reachable_cap4`: the same theorem at capacity 4 for every width `w ≥ 3`
(second instance; `Proof/C01ABA4.lean`): after `2^w − 4` pop/push pairs the parked `Push`
succeeds on the full four-slot ring and overwrites the oldest unpopped element; successful
pushes minus successful pops = 5 > 4.
What is missing for EVERY capacity `2^k < 2^w`: the round lemma is proved by writing the
slot list out per residue of the rotation (2 resp. 4 cases, closed by `simp`); for `2^k`
slots it needs the closed form `(List.range cap).map fun i => ⟨(slotSeq cap n i + 1) % M, 9⟩`,
the facts `slotSeq cap (n+1) (n % cap) = n + cap` and `slotSeq cap (n+1) i = slotSeq cap n i`
otherwise, and the `List.set`/`getElem?` calculation through the eleven steps of a round —
the induction over rounds, the prefix and the final steps are then as here. -/
theorem c01_aba_reachable_cap4 (w : Nat) (hw : 3 ≤ w) :
    let c : Cfg := { M := 2 ^ w, cap := 4 }
    let K := 2 ^ w - 4
    let σ := ABA4.prefix4 ++ ABA.roundSched K
    ((run c (init c (ABA4.progs4 K)) σ).1 = ABA4.R (2 ^ w) K 0 ∧
      (ABA4.R (2 ^ w) K 0).tail = 0 ∧ (ABA4.R (2 ^ w) K 0).head = 2 ^ w - 4 ∧
      (ABA4.R (2 ^ w) K 0).slots[0]? = some ⟨2 ^ w - 4 + 1, 9⟩) ∧
    (run c (ABA4.R (2 ^ w) K 0) [0]).2 = [⟨0, .casTail 0 1 true, none⟩] ∧
    ((run c (init c (ABA4.progs4 K)) (σ ++ [0, 0, 0])).1.slots[0]?).map (·.val) = some 7 ∧
    ABA.net (ABA.rets (run c (init c (ABA4.progs4 K)) (σ ++ [0, 0, 0])).2) = 5 :=
  ABA4.aba_all_widths w hw

/-- Non-vacuity of the refinement theorems: a two-thread schedule at rotation `2^32 − 1`
(the counters wrap in the middle of the run) satisfies `LagRun`, and the 32-bit machine
returns what the ghost machine returns. -/
example :
    let c0 : Cfg := { M := 0, cap := 2 }
    let c32 : Cfg := { M := 2 ^ 32, cap := 2 }
    let progs : List (List Call) := [[.push 5, .len], [.push 6, .pop]]
    let σ := [0, 1, 0, 1, 0, 0, 0, 1, 1, 1, 1, 1, 1, 1, 0, 0]
    LagRun c0 (initAt c0 4294967295 progs) σ ∧
    ((run c32 (initAt c32 4294967295 progs) σ).2.filterMap (·.ret) =
        [.push true, .push false, .pop 5 true, .len 0]) ∧
    (run c32 (initAt c32 4294967295 progs) σ).1.tail = 0 ∧
    (run c0 (initAt c0 4294967295 progs) σ).1.tail = 4294967296 :=
  ⟨lagRun_of_lagRunB _ _ _ (by decide +kernel), by decide +kernel⟩

/-- Non-vacuity: a reachable state of the capacity-2 ring started at rotation 7 with one
slot being written (thread 0 past its CAS) and one stored element being read. -/
example :
    let c : Cfg := { M := 0, cap := 2 }
    let s := (run c (initAt c 7 [[.push 5], [.push 6], [.pop]]) [1, 1, 1, 1, 1, 0, 0, 0, 2, 2, 2]).1
    s.head = 8 ∧ s.tail = 9 ∧ s.slots.map (·.seq) = [8, 8] ∧
      cW s.threads 8 = 1 ∧ cR s.threads 7 = 1 := by decide

/-! ### Regenerated tie (wave 8): `ringz/sync.go: roundupPowOfTwo` translated by `go2lean`

Every theorem above is about a ring whose capacity is `2^k`, `1 ≤ k`.  `SyncRing.Init` obtains
that capacity from `roundupPowOfTwo` whenever the request is not a power of two already;
`Golib.Gen.Trans.C01.roundupPowOfTwo` is regenerated from the tree under verification on every
run (`Golib/Gen/TransC01.lean`) and this theorem is re-checked against what the code says now. -/

/-- TIE: for every request `1 ≤ x < 2^31` the translated `roundupPowOfTwo` returns — without a
panic and within the fuel — a power of two `2^k` with `1 ≤ k ≤ 31` and `x < 2^k ≤ 2·x`: the
capacity hypothesis (`cap = 2^k`, `1 ≤ k`) of the C01 theorems. -/
theorem c01_trans_roundupPowOfTwo (x : BitVec 32) (h1 : 1 ≤ x.toNat) (h2 : x.toNat < 2 ^ 31) :
    ∃ k, 1 ≤ k ∧ k ≤ 31 ∧
      Golib.Gen.Trans.C01.roundupPowOfTwo x = .ok (BitVec.ofNat 32 (2 ^ k)) ∧
      x.toNat < 2 ^ k ∧ 2 ^ k ≤ 2 * x.toNat := by
  have hx0 : x.toNat ≠ 0 := by omega
  have hlo := Nat.log2_self_le hx0
  have hhi := @Nat.lt_log2_self x.toNat
  generalize x.toNat.log2 = L at hlo hhi
  have hL : L + 1 ≤ 31 := by
    false_or_by_contra
    have : 2 ^ 31 ≤ 2 ^ L := Nat.pow_le_pow_right (by decide) (by omega)
    omega
  exact ⟨L + 1, by omega, hL, trans_roundup_pow x L hlo hhi hL, hhi, by rw [Nat.pow_succ]; omega⟩

/-- Non-vacuity: the request 5 is rounded to the capacity 8 = 2^3. -/
example : Golib.Gen.Trans.C01.roundupPowOfTwo 5#32 = .ok 8#32 := by decide +kernel

end Golib.C01
