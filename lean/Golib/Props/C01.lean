/-
C01 — SyncRing is a linearizable bounded MPMC FIFO queue.
ONLY property theorems and non-vacuity examples live here.
-/
import Golib.Proof.C01Facts

namespace Golib.C01

/-- The model's access order is the source order (regenerated facts, see Proof/C01Facts). -/
theorem c01_source_order :
    soloSrc cfg32x2 (init cfg32x2 [[.push 5]]) 8 = Gen.C01.pushOps ∧
    soloSrc cfg32x2 oneElem 9 = Gen.C01.popOps ∧
    soloSrc cfg32x2 (init cfg32x2 [[.len]]) 4 = Gen.C01.lenOps ∧
    soloSrc cfg32x2 (init cfg32x2 [[.isEmpty]]) 4 = Gen.C01.isEmptyOps ∧
    soloSrc cfg32x2 (init cfg32x2 [[.isFull]]) 4 = Gen.C01.isFullOps :=
  ⟨facts_push, facts_pop, facts_len, facts_isEmpty, facts_isFull⟩

end Golib.C01
