/-
C01 — SyncRing is a linearizable bounded MPMC FIFO queue.
ONLY property theorems and non-vacuity examples live here; helper lemmas are in
`Golib/Proof/C01*.lean`, the model in `Golib/Model/C01Ring.lean`.

`Ghost c` = the machine `Conc` of DESIGN §5: unbounded (ghost) tickets (`c.M = 0`),
capacity a power of two ≥ 2 (`ghost_pow`).  Every theorem quantifies over EVERY schedule
`σ : List Nat` (thread ids), every number of threads, every program assignment `progs`,
every capacity `2^k` (k ≥ 1) and every initial rotation `r` of the ring (`initAt c r` = the
empty ring after `r` push/pop pairs; an initial fill is a sequential prefix of `σ`).
The 32-bit machine `Conc32` (`c.M = 2^32`) is what the compiled driver runs against the
real code; F12 (Findings/C01_ABA.lean) shows the theorems need BoundedLag there.
-/
import Golib.Proof.C01Facts
import Golib.Proof.C01Inv

namespace Golib.C01

/-- The model's access order is the source order (regenerated facts, see Proof/C01Facts). -/
theorem c01_source_order :
    soloSrc cfg32x2 (init cfg32x2 [[.push 5]]) 8 = Gen.C01.pushOps ∧
    soloSrc cfg32x2 oneElem 9 = Gen.C01.popOps ∧
    soloSrc cfg32x2 (init cfg32x2 [[.len]]) 4 = Gen.C01.lenOps ∧
    soloSrc cfg32x2 (init cfg32x2 [[.isEmpty]]) 4 = Gen.C01.isEmptyOps ∧
    soloSrc cfg32x2 (init cfg32x2 [[.isFull]]) 4 = Gen.C01.isFullOps :=
  ⟨facts_push, facts_pop, facts_len, facts_isEmpty, facts_isFull⟩

/-- `c01_inv`: in every reachable state every slot is in exactly one of the phases
free / being written / stored / being read for one position of its residue class, with
its sequence number determined by that phase (`Inv.phases`); `head ≤ tail ≤ head + cap`;
a thread between its CAS and its store owns its position exclusively (the counts in
`Phase`); every thread's stale observations are lower bounds (`Inv.locals`); no thread
ever indexed outside the slot array. -/
theorem c01_inv (k : Nat) (hk : 1 ≤ k) (r : Nat) (progs : List (List Call)) (σ : List Nat) :
    let c : Cfg := { M := 0, cap := 2 ^ k }
    let s := (run c (initAt c r progs) σ).1
    Inv c s ∧ s.head ≤ s.tail ∧ s.tail ≤ s.head + c.cap ∧ s.crashed = false := by
  have g := ghost_pow k hk
  have hI := inv_run g (inv_initAt g r progs) σ
  exact ⟨hI, hI.head_le_tail, hI.tail_le, hI.not_crashed⟩

/-- `c01_race_free`: in no reachable state are two different threads both about to make
a plain (non-atomic) access to the `value` field of the same slot — reads included. -/
theorem c01_race_free (k : Nat) (hk : 1 ≤ k) (r : Nat) (progs : List (List Call)) (σ : List Nat)
    (i j : Nat) (a b : Thread) (slot : Nat) :
    let c : Cfg := { M := 0, cap := 2 ^ k }
    let s := (run c (initAt c r progs) σ).1
    i ≠ j → s.threads[i]? = some a → s.threads[j]? = some b →
      ¬ (plainSlot c a.pc = some slot ∧ plainSlot c b.pc = some slot) := by
  intro c s hij hi hj ⟨ha, hb⟩
  have g := ghost_pow k hk
  exact no_conflict g (inv_run g (inv_initAt g r progs) σ) hij hi hj ha hb

/-- `c01_len_range`: whatever two counter values `Len()` happened to load — on the ghost
machine and on the 32-bit machine alike — its result lies in `[0, Cap()]`. -/
theorem c01_len_range (c : Cfg) (t h : Nat) : 0 ≤ c.lenOf t h ∧ c.lenOf t h ≤ c.cap :=
  ⟨Nat.zero_le _, lenOf_le_cap c t h⟩

/-- `c01_len_exact_quiescent`: in every reachable state the counters differ by the number
of stored elements `tail − head ≤ cap`, and `Len/IsEmpty/IsFull` evaluated on the current
counters (which is what they load when no other thread moves) are exact. -/
theorem c01_len_exact_quiescent (k : Nat) (hk : 1 ≤ k) (r : Nat) (progs : List (List Call))
    (σ : List Nat) :
    let c : Cfg := { M := 0, cap := 2 ^ k }
    let s := (run c (initAt c r progs) σ).1
    c.lenOf s.tail s.head = s.tail - s.head ∧
      ((s.head == s.tail) = true ↔ s.tail - s.head = 0) ∧
      ((c.sub s.tail s.head == c.cap) = true ↔ s.tail - s.head = c.cap) := by
  have g := ghost_pow k hk
  exact len_exact g (inv_run g (inv_initAt g r progs) σ)

/-- Non-vacuity: a reachable state of the capacity-2 ring started at rotation 7 with one
slot being written (thread 0 past its CAS) and one stored element being read. -/
example :
    let c : Cfg := { M := 0, cap := 2 }
    let s := (run c (initAt c 7 [[.push 5], [.push 6], [.pop]]) [1, 1, 1, 1, 1, 0, 0, 0, 2, 2, 2]).1
    s.head = 8 ∧ s.tail = 9 ∧ s.slots.map (·.seq) = [8, 8] ∧
      cW s.threads 8 = 1 ∧ cR s.threads 7 = 1 := by decide

end Golib.C01
