/-
C01 — SyncRing is a linearizable bounded MPMC FIFO queue.
ONLY property theorems and non-vacuity examples live here; helper lemmas are in
`Golib/Proof/C01*.lean`, the model in `Golib/Model/C01Ring.lean`.

`Ghost c` = the machine `Conc` of DESIGN §5: unbounded (ghost) tickets (`c.M = 0`),
capacity a power of two ≥ 2 (`ghost_pow`).  Every theorem quantifies over EVERY schedule
`σ : List Nat` (thread ids), every number of threads, every program assignment `progs`,
every capacity `2^k` (k ≥ 1) and every initial rotation `r` of the ring (`initAt c r` = the
empty ring after `r` push/pop pairs; an initial fill is a sequential prefix of `σ`).
The 32-bit machine `Conc32` (`c.M = 2^32`) is what the compiled driver runs against the
real code; F12 (Findings/C01_ABA.lean) shows the theorems need BoundedLag there.
-/
import Golib.Proof.C01Facts
import Golib.Proof.C01Inv
import Golib.Proof.C01Lin

namespace Golib.C01

/-- The model's access order is the source order (regenerated facts, see Proof/C01Facts). -/
theorem c01_source_order :
    soloSrc cfg32x2 (init cfg32x2 [[.push 5]]) 8 = Gen.C01.pushOps ∧
    soloSrc cfg32x2 oneElem 9 = Gen.C01.popOps ∧
    soloSrc cfg32x2 (init cfg32x2 [[.len]]) 4 = Gen.C01.lenOps ∧
    soloSrc cfg32x2 (init cfg32x2 [[.isEmpty]]) 4 = Gen.C01.isEmptyOps ∧
    soloSrc cfg32x2 (init cfg32x2 [[.isFull]]) 4 = Gen.C01.isFullOps :=
  ⟨facts_push, facts_pop, facts_len, facts_isEmpty, facts_isFull⟩

/-- `c01_inv`: in every reachable state every slot is in exactly one of the phases
free / being written / stored / being read for one position of its residue class, with
its sequence number determined by that phase (`Inv.phases`); `head ≤ tail ≤ head + cap`;
a thread between its CAS and its store owns its position exclusively (the counts in
`Phase`); every thread's stale observations are lower bounds (`Inv.locals`); no thread
ever indexed outside the slot array. -/
theorem c01_inv (k : Nat) (hk : 1 ≤ k) (r : Nat) (progs : List (List Call)) (σ : List Nat) :
    let c : Cfg := { M := 0, cap := 2 ^ k }
    let s := (run c (initAt c r progs) σ).1
    Inv c s ∧ s.head ≤ s.tail ∧ s.tail ≤ s.head + c.cap ∧ s.crashed = false := by
  have g := ghost_pow k hk
  have hI := inv_run g (inv_initAt g r progs) σ
  exact ⟨hI, hI.head_le_tail, hI.tail_le, hI.not_crashed⟩

/-- `c01_race_free`: in no reachable state are two different threads both about to make
a plain (non-atomic) access to the `value` field of the same slot — reads included. -/
theorem c01_race_free (k : Nat) (hk : 1 ≤ k) (r : Nat) (progs : List (List Call)) (σ : List Nat)
    (i j : Nat) (a b : Thread) (slot : Nat) :
    let c : Cfg := { M := 0, cap := 2 ^ k }
    let s := (run c (initAt c r progs) σ).1
    i ≠ j → s.threads[i]? = some a → s.threads[j]? = some b →
      ¬ (plainSlot c a.pc = some slot ∧ plainSlot c b.pc = some slot) := by
  intro c s hij hi hj ⟨ha, hb⟩
  have g := ghost_pow k hk
  exact no_conflict g (inv_run g (inv_initAt g r progs) σ) hij hi hj ha hb

/-- `c01_len_range`: whatever two counter values `Len()` happened to load — on the ghost
machine and on the 32-bit machine alike — its result lies in `[0, Cap()]`. -/
theorem c01_len_range (c : Cfg) (t h : Nat) : 0 ≤ c.lenOf t h ∧ c.lenOf t h ≤ c.cap :=
  ⟨Nat.zero_le _, lenOf_le_cap c t h⟩

/-- `c01_len_exact_quiescent`: in every reachable state the counters differ by the number
of stored elements `tail − head ≤ cap`, and `Len/IsEmpty/IsFull` evaluated on the current
counters (which is what they load when no other thread moves) are exact. -/
theorem c01_len_exact_quiescent (k : Nat) (hk : 1 ≤ k) (r : Nat) (progs : List (List Call))
    (σ : List Nat) :
    let c : Cfg := { M := 0, cap := 2 ^ k }
    let s := (run c (initAt c r progs) σ).1
    c.lenOf s.tail s.head = s.tail - s.head ∧
      ((s.head == s.tail) = true ↔ s.tail - s.head = 0) ∧
      ((c.sub s.tail s.head == c.cap) = true ↔ s.tail - s.head = c.cap) := by
  have g := ghost_pow k hk
  exact len_exact g (inv_run g (inv_initAt g r progs) σ)

/-- `c01_linearizable_partial`.  Linearization points: the successful `CAS(&r.tail,…)`
of `Push`, the successful `CAS(&r.head,…)` of `Pop`.  PROVED, for every reachable state:
the number of elements `tail − head` stays in `[0, cap]`; a tail-CAS that succeeds does so
only while `tail − head < cap` and a head-CAS only while `tail − head > 0` (the sizes along
the sequence of linearization points are those of a legal run of a bounded queue of
capacity `cap`: never more than `cap` elements, never a pop from an empty queue); each
successful CAS hands out the next position in order (`tail`/`head` advance by exactly one:
see `inv_pushCAS`/`inv_popCAS`), and the position is owned exclusively until its slot is
published/released (`Inv.phases`, `c01_race_free`), so every position is written by exactly
one `Push` and read by exactly one `Pop`, in position order (FIFO).
FULL statement (DESIGN §5 `c01_linearizable`): additionally, the value returned by the `Pop`
that claims position `p` equals the argument of the `Push` that claimed `p` (value transport
through the slot: needs the ghost history of pushed values, as done for C11 in
Proof/C11Lin.lean) — NOT proved here; it is checked on every explored schedule of the real
code by the independent linearizability oracle (go/props/c01, package lin). -/
theorem c01_linearizable_partial (k : Nat) (hk : 1 ≤ k) (r : Nat) (progs : List (List Call))
    (σ : List Nat) (th : Thread) :
    let c : Cfg := { M := 0, cap := 2 ^ k }
    let s := (run c (initAt c r progs) σ).1
    s.tail - s.head ≤ c.cap ∧ s.head ≤ s.tail ∧
    (th ∈ s.threads →
      (∀ v pos seq, th.pc = .pushCAS v pos seq → s.tail = pos → s.tail - s.head < c.cap) ∧
      (∀ pos seq, th.pc = .popCAS pos seq → s.head = pos → 0 < s.tail - s.head)) := by
  have g := ghost_pow k hk
  have hI := inv_run g (inv_initAt g r progs) σ
  have h1 := hI.tail_le
  exact ⟨by omega, hI.head_le_tail, fun hth => cas_legal g hI hth⟩

/-- `c01_false_justified`: whenever a `Push` is about to return false — at its sequence
check or at its CAS — the tail moved since the call loaded it (another `Push` overlapped),
or the ring holds `cap` elements at that instant, or a `Pop` that has claimed position
`tail − cap` is still in flight; whenever a `Pop` is about to return false the head moved
(another `Pop` overlapped), or the ring is empty at that instant, or a `Push` that has
claimed position `head` is still in flight. -/
theorem c01_false_justified (k : Nat) (hk : 1 ≤ k) (r : Nat) (progs : List (List Call))
    (σ : List Nat) (th : Thread) :
    let c : Cfg := { M := 0, cap := 2 ^ k }
    let s := (run c (initAt c r progs) σ).1
    th ∈ s.threads →
    ((∀ v pos q, th.pc = .pushLoadSeq v pos → sq s.slots (pos % c.cap) = some q → pos ≠ q →
        pos < s.tail ∨ s.tail - s.head = c.cap ∨
          (c.cap ≤ s.tail ∧ cR s.threads (s.tail - c.cap) = 1)) ∧
     (∀ v pos seq, th.pc = .pushCAS v pos seq → s.tail ≠ pos → pos < s.tail)) ∧
    ((∀ pos q, th.pc = .popLoadSeq pos → sq s.slots (pos % c.cap) = some q → pos + 1 ≠ q →
        pos < s.head ∨ s.tail = s.head ∨ cW s.threads s.head = 1) ∧
     (∀ pos seq, th.pc = .popCAS pos seq → s.head ≠ pos → pos < s.head)) := by
  intro c s hth
  have g := ghost_pow k hk
  have hI := inv_run g (inv_initAt g r progs) σ
  exact ⟨push_false_reason g hI hth, pop_false_reason g hI hth⟩

/-- `c01_progress_partial`.  PROVED: in every reachable state in which no thread is
between its CAS and its store, the slot at the tail is free for exactly the tail position
unless the ring is full, and the slot at the head is published for exactly the head
position unless the ring is empty — so a `Push` (`Pop`) that loads the counter and the
sequence number now passes its check, and (by definition of `step`) its CAS fails only if
the counter moved, i.e. only if ANOTHER push (pop) succeeded in between.
FULL statement (DESIGN §5 `c01_progress_push/_pop`): hence from such a state with a free
slot (stored element), if only pushers (poppers) take steps, the first CAS executed
succeeds and at least one call returns true — the scheduling argument is not formalised. -/
theorem c01_progress_partial (k : Nat) (hk : 1 ≤ k) (r : Nat) (progs : List (List Call))
    (σ : List Nat) :
    let c : Cfg := { M := 0, cap := 2 ^ k }
    let s := (run c (initAt c r progs) σ).1
    (∀ p, cW s.threads p = 0 ∧ cR s.threads p = 0) →
      (s.tail - s.head < c.cap → sq s.slots (s.tail % c.cap) = some s.tail) ∧
      (0 < s.tail - s.head → sq s.slots (s.head % c.cap) = some (s.head + 1)) := by
  intro c s hq
  have g := ghost_pow k hk
  exact quiescent_slots g (inv_run g (inv_initAt g r progs) σ) hq

/-- `c01_u32_refines_partial`.  PROVED: the arithmetic core of the refinement of the
32-bit machine `Conc32` by the ghost machine `Conc`: as long as the two compared counter /
sequence values are less than `2^32` apart (BoundedLag), every comparison the code makes
on the wrapped values (`pos == seq`, `pos+1 == seq`, the CAS comparisons `tail == pos`,
`head == pos`) decides exactly as on the unbounded values, and the 32-bit difference used
by `Len/IsFull` is the true difference.
FULL statement (DESIGN §5 `c01_u32_refines_boundedLag`): hence `Conc32` and `Conc` take the
same branches along every schedule on which fewer than `2^32 − cap` operations of the same
kind succeed while any single call is in flight (simulation by induction over the
schedule) — NOT proved; without BoundedLag it is false (`Findings/C01_ABA.lean`, F12), and
the correspondence check runs the 32-bit model against the real code on every run,
including starts just below `2^32`. -/
theorem c01_u32_refines_partial (cap a b : Nat) (h : a ≤ b) (hlag : b - a < 2 ^ 32) :
    (a % 2 ^ 32 = b % 2 ^ 32 ↔ a = b) ∧
    ((a + 1) % 2 ^ 32 = (b + 1) % 2 ^ 32 ↔ a = b) ∧
    (Cfg.mk (2 ^ 32) cap).sub (b % 2 ^ 32) (a % 2 ^ 32) = b - a :=
  ⟨wrap_eq_iff h hlag, by
    have := wrap_eq_iff (a := a + 1) (b := b + 1) (by omega) (by omega)
    constructor
    · intro e; have := this.1 e; omega
    · intro e; rw [e],
   sub32_exact cap h hlag⟩

/-- Non-vacuity: a reachable state of the capacity-2 ring started at rotation 7 with one
slot being written (thread 0 past its CAS) and one stored element being read. -/
example :
    let c : Cfg := { M := 0, cap := 2 }
    let s := (run c (initAt c 7 [[.push 5], [.push 6], [.pop]]) [1, 1, 1, 1, 1, 0, 0, 0, 2, 2, 2]).1
    s.head = 8 ∧ s.tail = 9 ∧ s.slots.map (·.seq) = [8, 8] ∧
      cW s.threads 8 = 1 ∧ cR s.threads 7 = 1 := by decide

end Golib.C01
