/-
C08 — AES-CBC/GCM helpers and PKCS#7 padding (`cryptz/aes.go`).  ONLY property theorems and
non-vacuity examples live here; helper lemmas are in `Golib/Proof/C08*.lean`.

The block cipher and the AEAD are parameters: the theorems hold for EVERY `(E, D)` with
`D k (E k x) = x` on blocks and every `(seal, open)` with `open (seal p) = some p` — these
are hypotheses (never axioms).  The executable AES/GCM instances used by the correspondence
check are in `Model/C08Aes.lean`, `Model/C08Gcm.lean` (validated by test vectors, not proved).

Not a theorem (cryptographic, labelled partial in the manifest): "any change to ciphertext,
tag, nonce or additional data makes GCM decryption fail" — exercised on the real code by
all single-bit flips.
-/
import Golib.Proof.C08Wrap

namespace Golib.C08

/-- `AESCBCEncryptLen`: `len + 16 − (len & 15)` is the next multiple of 16 strictly above
`len`, for every `len` (so a block-aligned plaintext gets a full padding block). -/
theorem c08_encLen (n : Nat) :
    cbcEncryptLen n = (n / 16 + 1) * 16 ∧ n < cbcEncryptLen n ∧ cbcEncryptLen n ≤ n + 16 ∧
      cbcEncryptLen n % 16 = 0 ∧ cbcDecryptLen n = n := by
  rw [encLen_eq]; unfold cbcDecryptLen; omega

/-- The table built by `init()`: 17 entries, entry `n` is `n` bytes of value `n`. -/
theorem c08_table :
    prePadPatterns.length = 17 ∧ ∀ n, n ≤ 16 → prePadPatterns[n]? = some (List.replicate n n) :=
  ⟨table_length, table_get⟩

/-- `PKCS7UnPadding(PKCS7Padding(d, b), b) = d` for every non-empty `d` and block size
`1..255`; the padded length is the next multiple of `b` strictly above `|d|`. -/
theorem c08_pad_unpad (d : Bytes) (b : Nat) (hd : d ≠ []) (hb1 : 1 ≤ b) (hb : b ≤ 255) :
    ∃ x, pkcs7Padding d b = .ok x ∧ pkcs7UnPaddingPub x b = .ok d ∧
      x.length = (d.length / b + 1) * b := by
  have hlt : d.length % b < b := Nat.mod_lt _ (by omega)
  have hp256 : b - d.length % b < 256 := by omega
  refine ⟨_, pad_spec d b hd hb1, ?_, ?_⟩
  · rw [show toByte (b - d.length % b) = b - d.length % b from Nat.mod_eq_of_lt hp256]
    apply unpad_complete d (b - d.length % b) b (by omega) (by omega) hp256
    rw [Int.tmod_eq_emod_of_nonneg (by omega)]
    have : (d ++ List.replicate (b - d.length % b) (b - d.length % b)).length
        = (d.length / b + 1) * b := by
      simp only [List.length_append, List.length_replicate]
      have := Nat.div_add_mod d.length b
      rw [Nat.add_mul, Nat.one_mul, Nat.mul_comm]; omega
    rw [this, Int.natCast_mul]
    exact Int.mul_emod_left _ _
  · simp only [List.length_append, List.length_replicate]
    have := Nat.div_add_mod d.length b
    rw [Nat.add_mul, Nat.one_mul, Nat.mul_comm]; omega

/-- The public un-padding succeeds EXACTLY on correctly padded multiples of the block size
and then returns the data; every other input (any bytes, any block size, also `≤ 0`) is an
`error` — never a panic, never a wrong length. -/
theorem c08_unpad_sound_complete (x : Bytes) (b : Int) (hx : IsBytes x) :
    pkcs7UnPaddingPub x b ≠ .panic ∧
    ∀ d, pkcs7UnPaddingPub x b = .ok d ↔
      ∃ n : Nat, x = d ++ List.replicate n n ∧ 1 ≤ n ∧ (n : Int) ≤ b ∧
        Int.tmod (x.length : Int) b = 0 := by
  refine ⟨(unpad_sound x b).1, fun d => ⟨fun h => ?_, ?_⟩⟩
  · obtain ⟨n, h1, h2, h3, _, h5⟩ := (unpad_sound x b).2 d h
    exact ⟨n, h1, h2, h3, h5⟩
  · rintro ⟨n, rfl, h2, h3, h5⟩
    have hn : n < 256 := by
      apply hx n
      rw [List.mem_append, List.mem_replicate]
      exact Or.inr ⟨by omega, rfl⟩
    exact unpad_complete d n b h2 h3 hn h5

/-- The private table-based un-padding used inside CBC decryption, on any buffer of at
least one block: never panics; succeeds exactly on `d ++ n × n` with `1 ≤ n ≤ 16`, returning `|d|`. -/
theorem c08_unpad_private (x : Bytes) (h16 : 16 ≤ x.length) :
    pkcs7UnPadding x ≠ .panic ∧
    ∀ m : Int, pkcs7UnPadding x = .ok m ↔
      ∃ n : Nat, 1 ≤ n ∧ n ≤ 16 ∧ m = (x.length : Int) - n ∧
        x = x.take (x.length - n) ++ List.replicate n n := by
  obtain ⟨h1, h2, h3⟩ := unpadPriv_spec x h16
  refine ⟨h1, fun m => ⟨h2 m, ?_⟩⟩
  rintro ⟨n, hn1, hn16, rfl, hx⟩
  have := h3 _ n hn1 hn16 hx
  rw [this]; congr 1
  simp only [List.length_take]; omega

/-- `AESCBCEncrypt` writes exactly `AESCBCEncryptLen` bytes — standard CBC over the
PKCS#7-padded plaintext — and `AESCBCDecrypt` recovers exactly the plaintext, for every
plaintext length (empty and block-aligned included), in every documented layout:
`dst` any buffer of the helper's size (fresh, or the plaintext's own memory), and for
decryption a separate `dst` of the ciphertext's size or the ciphertext's own memory
(the in-place case runs the standard library's backward loop on the one shared buffer). -/
theorem c08_cbc_roundtrip (C : Cipher) (key iv pt dst : Bytes) (lay : DecLayout)
    (hE : ∀ k x, x.length = 16 → (C.E k x).length = 16)
    (hDE : ∀ k x, x.length = 16 → C.D k (C.E k x) = x)
    (hk : keyOK key = true) (hiv : iv.length = 16)
    (hdst : dst.length = cbcEncryptLen pt.length)
    (hlay : ∀ d, lay = .fresh d → d.length = cbcEncryptLen pt.length) :
    ∃ ct, aesCBCEncrypt C dst pt key iv = .ok ct ∧
      ct = cbcEncrypt (C.E key) iv (pt ++ List.replicate (16 - pt.length % 16) (16 - pt.length % 16)) ∧
      ct.length = cbcEncryptLen pt.length ∧
      ∃ d, aesCBCDecrypt C lay ct key iv = .ok ((pt.length : Int), d) ∧ d.take pt.length = pt := by
  refine ⟨_, aesCBCEncrypt_spec C dst pt key iv hk hiv hdst, rfl, ?_, ?_⟩
  · have := cbcEncrypt_length (C.E key) (hE key) _ iv (padded pt) hiv (padded_blocks pt)
    rw [padded_length] at this; exact this
  · have hl := cbcEncrypt_length (C.E key) (hE key) _ iv (padded pt) hiv (padded_blocks pt)
    have hl' : (cbcEncrypt (C.E key) iv (padded pt)).length = 16 * (pt.length / 16 + 1) := by
      rw [hl, padded_blocks]
    change ∃ d, aesCBCDecrypt C lay (cbcEncrypt (C.E key) iv (padded pt)) key iv = _ ∧ _
    rw [aesCBCDecrypt_eq C lay _ key iv hk hiv (by omega) (by omega)
      (by intro d hd; rw [hlay d hd, hl, padded_length])]
    rw [cbc_roundtrip (C.E key) (C.D key) (hE key) (hDE key) _ iv (padded pt) hiv (padded_blocks pt)]
    have hpr := padLen_range pt.length
    have := (unpadPriv_spec (padded pt) (by rw [padded_blocks]; omega)).2.2 pt (padLen pt.length)
      hpr.1 hpr.2 rfl
    rw [this]
    exact ⟨padded pt, rfl, by simp [padded]⟩

/-- `AESCBCDecrypt` on ANY ciphertext: a length that is not a positive multiple of 16 is
rejected before anything is sliced; otherwise (valid key, 16-byte IV, documented layouts) it
never panics and returns `(n, dst)` exactly when the CBC decryption `P` of the input ends in
a correct padding `p × p`, `1 ≤ p ≤ 16`, with `n = |P| − p`; every other input is an error. -/
theorem c08_cbc_decrypt_rejects (C : Cipher) (lay : DecLayout) (ct key iv : Bytes) :
    ((ct.length < 16 ∨ ct.length % 16 ≠ 0) → aesCBCDecrypt C lay ct key iv = .err "len") ∧
    (keyOK key = false → aesCBCDecrypt C lay ct key iv = .err "len" ∨
        aesCBCDecrypt C lay ct key iv = .err "key") ∧
    (keyOK key = true → iv.length = 16 → 16 ≤ ct.length → ct.length % 16 = 0 →
      (∀ d, lay = .fresh d → d.length = ct.length) →
      (∀ x, x.length = 16 → (C.D key x).length = 16) →
      aesCBCDecrypt C lay ct key iv ≠ .panic ∧
      ∀ n d, aesCBCDecrypt C lay ct key iv = .ok (n, d) ↔
        d = cbcDecrypt (C.D key) iv ct ∧
        ∃ p : Nat, 1 ≤ p ∧ p ≤ 16 ∧ n = (ct.length : Int) - p ∧
          d = d.take (ct.length - p) ++ List.replicate p p) := by
  refine ⟨aesCBCDecrypt_badlen C lay ct key iv, ?_, ?_⟩
  · intro hk
    by_cases h : ct.length < 16 ∨ ct.length % 16 ≠ 0
    · exact Or.inl (aesCBCDecrypt_badlen C lay ct key iv h)
    · right
      unfold aesCBCDecrypt
      have h1 : ¬ (ct.length < aesBlockSize ∨ ct.length &&& blockSizeMask ≠ 0) := by
        rw [and15]; simpa only [aesBlockSize] using h
      have hk' : ¬ keyOK key = true := by simp [hk]
      rw [if_neg h1, if_pos hk']
  · intro hk hiv h16 hmul hlay hD
    rw [aesCBCDecrypt_eq C lay ct key iv hk hiv h16 hmul hlay]
    have hlen := cbcDecrypt_length (C.D key) hD (ct.length / 16) iv ct hiv (by omega)
    generalize cbcDecrypt (C.D key) iv ct = P at hlen ⊢
    obtain ⟨hnp, hok⟩ := c08_unpad_private P (by omega)
    cases hr : pkcs7UnPadding P with
    | panic => exact absurd hr hnp
    | err e =>
      refine ⟨by simp, fun n d => ⟨by simp, ?_⟩⟩
      rintro ⟨rfl, p, hp1, hp16, rfl, hd⟩
      have := (hok _).2 ⟨p, hp1, hp16, rfl, by rw [hlen]; exact hd⟩
      rw [hr] at this; cases this
    | ok m =>
      refine ⟨by simp, fun n d => ⟨?_, ?_⟩⟩
      · intro h
        injection h with h; injection h with h1 h2
        subst h1 h2
        obtain ⟨p, hp1, hp16, hm, hx⟩ := (hok _).1 hr
        exact ⟨rfl, p, hp1, hp16, by rw [hm, hlen], by rw [← hlen]; exact hx⟩
      · rintro ⟨rfl, p, hp1, hp16, rfl, hd⟩
        have := (hok _).2 ⟨p, hp1, hp16, rfl, by rw [hlen]; exact hd⟩
        rw [hr] at this
        injection this with this
        rw [this, hlen]

/-- The GCM length helpers are exact: with `dst` sized by `AESGCMEncryptLen`, `AESGCMEncrypt`
leaves exactly `Seal`'s output (ciphertext ‖ 16-byte tag) in `dst`; `AESGCMDecryptLen`
inverts `AESGCMEncryptLen`. -/
theorem c08_gcm_lens (A : AEAD) (dst pt key nonce ad : Bytes)
    (hseal : ∀ k n p a, (A.sealF k n p a).length = p.length + 16)
    (hk : keyOK key = true) (hn : nonce ≠ [])
    (hdst : dst.length = gcmEncryptLen pt.length) :
    gcmEncryptLen pt.length = pt.length + 16 ∧
    gcmDecryptLen (gcmEncryptLen pt.length) = pt.length ∧
    aesGCMEncrypt A dst pt key nonce ad = .ok (A.sealF key nonce pt ad) := by
  refine ⟨rfl, by simp only [gcmDecryptLen, gcmEncryptLen, gcmTagSize]; omega, ?_⟩
  unfold aesGCMEncrypt
  have hk' : ¬ (¬ keyOK key = true) := by simp [hk]
  have hn' : ¬ nonce.length = 0 := fun h => hn (List.length_eq_zero_iff.mp h)
  rw [if_neg hk', if_neg hn', appendInto_exact _ _ (by rw [hdst, hseal]; rfl)]

/-- `AESGCMDecrypt(AESGCMEncrypt(p)) = p` for every plaintext, nonce, additional data and
valid key, with `dst` sized by the helpers (fresh, or the input's own memory — the content
`dst` had before does not matter); an input `Open` rejects is an error. -/
theorem c08_gcm_roundtrip (A : AEAD) (dst dst' pt key nonce ad : Bytes)
    (hseal : ∀ k n p a, (A.sealF k n p a).length = p.length + 16)
    (hopen : ∀ k n p a, A.openF k n (A.sealF k n p a) a = some p)
    (hk : keyOK key = true) (hn : nonce ≠ [])
    (hdst : dst.length = gcmEncryptLen pt.length)
    (hdst' : (dst'.length : Int) = gcmDecryptLen (gcmEncryptLen pt.length)) :
    ∃ ct, aesGCMEncrypt A dst pt key nonce ad = .ok ct ∧
      aesGCMDecrypt A dst' ct key nonce ad = .ok pt ∧
      (∀ ct' ad', A.openF key nonce ct' ad' = none →
        aesGCMDecrypt A dst' ct' key nonce ad' = .err "open") := by
  obtain ⟨_, hl, henc⟩ := c08_gcm_lens A dst pt key nonce ad hseal hk hn hdst
  have hk' : ¬ (¬ keyOK key = true) := by simp [hk]
  have hn' : ¬ nonce.length = 0 := fun h => hn (List.length_eq_zero_iff.mp h)
  refine ⟨_, henc, ?_, ?_⟩
  · unfold aesGCMDecrypt
    rw [if_neg hk', if_neg hn', hopen]
    simp only []
    rw [appendInto_exact _ _ (by rw [hl] at hdst'; exact_mod_cast hdst')]
  · intro ct' ad' h
    unfold aesGCMDecrypt
    rw [if_neg hk', if_neg hn', h]

/-- Invalid key sizes (anything but 16, 24, 32 bytes) yield errors from all four entry
points, whatever the other arguments are (for CBC decryption after the length check). -/
theorem c08_bad_key (C : Cipher) (A : AEAD) (dst data key iv ad : Bytes) (lay : DecLayout)
    (hk : keyOK key = false) :
    aesCBCEncrypt C dst data key iv = .err "key" ∧
    aesGCMEncrypt A dst data key iv ad = .err "key" ∧
    aesGCMDecrypt A dst data key iv ad = .err "key" ∧
    (aesCBCDecrypt C lay data key iv = .err "len" ∨ aesCBCDecrypt C lay data key iv = .err "key") := by
  have hk' : ¬ keyOK key = true := by simp [hk]
  refine ⟨?_, ?_, ?_, (c08_cbc_decrypt_rejects C lay data key iv).2.1 hk⟩
  · unfold aesCBCEncrypt; rw [if_pos hk']
  · unfold aesGCMEncrypt; rw [if_pos hk']
  · unfold aesGCMDecrypt; rw [if_pos hk']

/-! ### Non-vacuity: the hypotheses are satisfiable and the statements bite -/

/-- a toy block cipher (rotate the block by one byte / back) meeting the hypotheses of
`c08_cbc_roundtrip`; the real instance is AES (`Model/C08Aes.lean`). -/
def toyCipher : Cipher :=
  { E := fun _ x => x.drop 1 ++ x.take 1, D := fun _ x => x.drop (x.length - 1) ++ x.take (x.length - 1) }

example : ∀ k x, x.length = 16 → (toyCipher.E k x).length = 16 := by
  intro k x h; simp [toyCipher]; omega

example : ∀ k x, x.length = 16 → toyCipher.D k (toyCipher.E k x) = x := by
  intro k x h
  match x, h with
  | [a0,a1,a2,a3,a4,a5,a6,a7,a8,a9,a10,a11,a12,a13,a14,a15], _ => simp [toyCipher]

/-- a toy AEAD (tag = 16 zero bytes) meeting the hypotheses of the GCM theorems. -/
def toyAEAD : AEAD :=
  { sealF := fun _ _ p _ => p ++ List.replicate 16 0,
    openF := fun _ _ c _ => if c.drop (c.length - 16) = List.replicate 16 0 ∧ 16 ≤ c.length
      then some (c.take (c.length - 16)) else none }

example : ∀ k n p a, toyAEAD.openF k n (toyAEAD.sealF k n p a) a = some p := by
  intro k n p a; simp [toyAEAD]

/-- block-aligned plaintext: a full padding block is added (16 → 32), and a concrete
in-place round trip through the model with the toy cipher. -/
example : cbcEncryptLen 16 = 32 ∧ cbcEncryptLen 0 = 16 ∧ cbcEncryptLen 17 = 32 := by decide

example :
    aesCBCDecrypt toyCipher .inplace
      (match aesCBCEncrypt toyCipher (List.replicate 16 0) [] (List.replicate 16 7) (List.range 16) with
        | .ok ct => ct | _ => []) (List.replicate 16 7) (List.range 16)
      = .ok (0, List.replicate 16 16) := by decide +kernel

/-- near-valid paddings are rejected, the valid one accepted: `[1,2,2]` with `b = 3`. -/
example : pkcs7UnPaddingPub [1, 2, 2] 3 = .ok [1] ∧ pkcs7UnPaddingPub [1, 3, 2] 3 = .err "padbytes" ∧
    pkcs7UnPaddingPub [1, 2, 4] 3 = .err "padlen" ∧ pkcs7UnPaddingPub [1, 2, 2] 2 = .err "multiple" ∧
    pkcs7UnPaddingPub [2, 2] 2 = .ok [] := by decide

end Golib.C08
