/-
C08 — AES-CBC/GCM helpers and PKCS#7 padding (`cryptz/aes.go`).  ONLY property theorems and
non-vacuity examples live here; helper lemmas are in `Golib/Proof/C08*.lean`.

The block cipher and the AEAD are parameters: the theorems hold for EVERY `(E, D)` with
`D k (E k x) = x` on blocks and every `(seal, open)` with `open (seal p) = some p` — these
are hypotheses (never axioms).  The executable AES/GCM instances used by the correspondence
check are in `Model/C08Aes.lean`, `Model/C08Gcm.lean` (validated by test vectors, not proved).

Not a theorem (cryptographic, labelled partial in the manifest): "any change to ciphertext,
tag, nonce or additional data makes GCM decryption fail" — exercised on the real code by
all single-bit flips.
-/
import Golib.Proof.C08Main
import Golib.Gen.FactsC08

namespace Golib.C08

/-- `AESCBCEncryptLen`: `len + 16 − (len & 15)` is the next multiple of 16 strictly above
`len`, for every `len` (so a block-aligned plaintext gets a full padding block). -/
theorem c08_encLen (n : Nat) :
    cbcEncryptLen n = (n / 16 + 1) * 16 ∧ n < cbcEncryptLen n ∧ cbcEncryptLen n ≤ n + 16 ∧
      cbcEncryptLen n % 16 = 0 ∧ cbcDecryptLen n = n := by
  apply main_encLen <;> assumption

/-- The table built by `init()`: 17 entries, entry `n` is `n` bytes of value `n`. -/
theorem c08_table :
    prePadPatterns.length = 17 ∧ ∀ n, n ≤ 16 → prePadPatterns[n]? = some (List.replicate n n) := by
  apply main_table <;> assumption

/-- `PKCS7UnPadding(PKCS7Padding(d, b), b) = d` for every non-empty `d` and block size
`1..255`; the padded length is the next multiple of `b` strictly above `|d|`. -/
theorem c08_pad_unpad (d : Bytes) (b : Nat) (hd : d ≠ []) (hb1 : 1 ≤ b) (hb : b ≤ 255) :
    ∃ x, pkcs7Padding d b = .ok x ∧ pkcs7UnPaddingPub x b = .ok d ∧
      x.length = (d.length / b + 1) * b := by
  apply main_pad_unpad <;> assumption

/-- The public un-padding succeeds EXACTLY on correctly padded multiples of the block size
and then returns the data; every other input (any bytes, any block size, also `≤ 0`) is an
`error` — never a panic, never a wrong length. -/
theorem c08_unpad_sound_complete (x : Bytes) (b : Int) (hx : IsBytes x) :
    pkcs7UnPaddingPub x b ≠ .panic ∧
    ∀ d, pkcs7UnPaddingPub x b = .ok d ↔
      ∃ n : Nat, x = d ++ List.replicate n n ∧ 1 ≤ n ∧ (n : Int) ≤ b ∧
        Int.tmod (x.length : Int) b = 0 := by
  apply main_unpad_sound_complete <;> assumption

/-- The private table-based un-padding used inside CBC decryption, on any buffer of at
least one block: never panics; succeeds exactly on `d ++ n × n` with `1 ≤ n ≤ 16`, returning `|d|`. -/
theorem c08_unpad_private (x : Bytes) (h16 : 16 ≤ x.length) :
    pkcs7UnPadding x ≠ .panic ∧
    ∀ m : Int, pkcs7UnPadding x = .ok m ↔
      ∃ n : Nat, 1 ≤ n ∧ n ≤ 16 ∧ m = (x.length : Int) - n ∧
        x = x.take (x.length - n) ++ List.replicate n n := by
  apply main_unpad_private <;> assumption

/-- `AESCBCEncrypt` writes exactly `AESCBCEncryptLen` bytes — standard CBC over the
PKCS#7-padded plaintext — and `AESCBCDecrypt` recovers exactly the plaintext, for every
plaintext length (empty and block-aligned included), in every documented layout:
`dst` any buffer of the helper's size (fresh, or the plaintext's own memory), and for
decryption a separate `dst` of the ciphertext's size or the ciphertext's own memory
(the in-place case runs the standard library's backward loop on the one shared buffer). -/
theorem c08_cbc_roundtrip (C : Cipher) (key iv pt dst : Bytes) (lay : DecLayout)
    (hE : ∀ k x, x.length = 16 → (C.E k x).length = 16)
    (hDE : ∀ k x, x.length = 16 → C.D k (C.E k x) = x)
    (hk : keyOK key = true) (hiv : iv.length = 16)
    (hdst : dst.length = cbcEncryptLen pt.length)
    (hlay : ∀ d, lay = .fresh d → d.length = cbcEncryptLen pt.length) :
    ∃ ct, aesCBCEncrypt C dst pt key iv = .ok ct ∧
      ct = cbcEncrypt (C.E key) iv (pt ++ List.replicate (16 - pt.length % 16) (16 - pt.length % 16)) ∧
      ct.length = cbcEncryptLen pt.length ∧
      ∃ d, aesCBCDecrypt C lay ct key iv = .ok ((pt.length : Int), d) ∧ d.take pt.length = pt := by
  apply main_cbc_roundtrip <;> assumption

/-- `AESCBCDecrypt` on ANY ciphertext: a length that is not a positive multiple of 16 is
rejected before anything is sliced; otherwise (valid key, 16-byte IV, documented layouts) it
never panics and returns `(n, dst)` exactly when the CBC decryption `P` of the input ends in
a correct padding `p × p`, `1 ≤ p ≤ 16`, with `n = |P| − p`; every other input is an error. -/
theorem c08_cbc_decrypt_rejects (C : Cipher) (lay : DecLayout) (ct key iv : Bytes) :
    ((ct.length < 16 ∨ ct.length % 16 ≠ 0) → aesCBCDecrypt C lay ct key iv = .err "len") ∧
    (keyOK key = false → aesCBCDecrypt C lay ct key iv = .err "len" ∨
        aesCBCDecrypt C lay ct key iv = .err "key") ∧
    (keyOK key = true → iv.length = 16 → 16 ≤ ct.length → ct.length % 16 = 0 →
      (∀ d, lay = .fresh d → d.length = ct.length) →
      (∀ x, x.length = 16 → (C.D key x).length = 16) →
      aesCBCDecrypt C lay ct key iv ≠ .panic ∧
      ∀ n d, aesCBCDecrypt C lay ct key iv = .ok (n, d) ↔
        d = cbcDecrypt (C.D key) iv ct ∧
        ∃ p : Nat, 1 ≤ p ∧ p ≤ 16 ∧ n = (ct.length : Int) - p ∧
          d = d.take (ct.length - p) ++ List.replicate p p) := by
  apply main_cbc_decrypt_rejects <;> assumption

/-- The GCM length helpers are exact: with `dst` sized by `AESGCMEncryptLen`, `AESGCMEncrypt`
leaves exactly `Seal`'s output (ciphertext ‖ 16-byte tag) in `dst`; `AESGCMDecryptLen`
inverts `AESGCMEncryptLen`. -/
theorem c08_gcm_lens (A : AEAD) (dst pt key nonce ad : Bytes)
    (hseal : ∀ k n p a, (A.sealF k n p a).length = p.length + 16)
    (hk : keyOK key = true) (hn : nonce ≠ [])
    (hdst : dst.length = gcmEncryptLen pt.length) :
    gcmEncryptLen pt.length = pt.length + 16 ∧
    gcmDecryptLen (gcmEncryptLen pt.length) = pt.length ∧
    aesGCMEncrypt A dst pt key nonce ad = .ok (A.sealF key nonce pt ad) := by
  apply main_gcm_lens <;> assumption

/-- `AESGCMDecrypt(AESGCMEncrypt(p)) = p` for every plaintext, nonce, additional data and
valid key, with `dst` sized by the helpers (fresh, or the input's own memory — the content
`dst` had before does not matter); an input `Open` rejects is an error. -/
theorem c08_gcm_roundtrip (A : AEAD) (dst dst' pt key nonce ad : Bytes)
    (hseal : ∀ k n p a, (A.sealF k n p a).length = p.length + 16)
    (hopen : ∀ k n p a, A.openF k n (A.sealF k n p a) a = some p)
    (hk : keyOK key = true) (hn : nonce ≠ [])
    (hdst : dst.length = gcmEncryptLen pt.length)
    (hdst' : (dst'.length : Int) = gcmDecryptLen (gcmEncryptLen pt.length)) :
    ∃ ct, aesGCMEncrypt A dst pt key nonce ad = .ok ct ∧
      aesGCMDecrypt A dst' ct key nonce ad = .ok pt ∧
      (∀ ct' ad', A.openF key nonce ct' ad' = none →
        aesGCMDecrypt A dst' ct' key nonce ad' = .err "open") := by
  apply main_gcm_roundtrip <;> assumption

/-- Invalid key sizes (anything but 16, 24, 32 bytes) yield errors from all four entry
points, whatever the other arguments are (for CBC decryption after the length check). -/
theorem c08_bad_key (C : Cipher) (A : AEAD) (dst data key iv ad : Bytes) (lay : DecLayout)
    (hk : keyOK key = false) :
    aesCBCEncrypt C dst data key iv = .err "key" ∧
    aesGCMEncrypt A dst data key iv ad = .err "key" ∧
    aesGCMDecrypt A dst data key iv ad = .err "key" ∧
    (aesCBCDecrypt C lay data key iv = .err "len" ∨ aesCBCDecrypt C lay data key iv = .err "key") := by
  apply main_bad_key <;> assumption

/-- The facts the model hard-codes, against `Golib/Gen/FactsC08.lean`, which the go/ast
extractor regenerates from `cryptz/aes.go` on every run: the constants, the size of the
padding table, the bound of the `init()` loop, and that the model's table is what that loop
computes entry by entry. -/
theorem c08_facts_match_model :
    Gen.C08.extractorOK = true ∧ Gen.C08.blockSizeMask = blockSizeMask ∧
    Gen.C08.gcmTagSize = gcmTagSize ∧ Gen.C08.nonceSize = nonceSize ∧
    Gen.C08.padTableSize = aesBlockSize + 1 ∧ Gen.C08.padTableLoopBound = Gen.C08.padTableSize ∧
    prePadPatterns = (List.range Gen.C08.padTableSize).map Gen.C08.padTableEntry := by
  decide +kernel

/-! ### Non-vacuity: the hypotheses are satisfiable and the statements bite -/

/-- a toy block cipher (rotate the block by one byte / back) meeting the hypotheses of
`c08_cbc_roundtrip`; the real instance is AES (`Model/C08Aes.lean`). -/
def toyCipher : Cipher :=
  { E := fun _ x => x.drop 1 ++ x.take 1, D := fun _ x => x.drop (x.length - 1) ++ x.take (x.length - 1) }

example : ∀ k x, x.length = 16 → (toyCipher.E k x).length = 16 := by
  intro k x h; simp [toyCipher]; omega

example : ∀ k x, x.length = 16 → toyCipher.D k (toyCipher.E k x) = x := by
  intro k x h
  match x, h with
  | [a0,a1,a2,a3,a4,a5,a6,a7,a8,a9,a10,a11,a12,a13,a14,a15], _ => simp [toyCipher]

/-- a toy AEAD (tag = 16 zero bytes) meeting the hypotheses of the GCM theorems. -/
def toyAEAD : AEAD :=
  { sealF := fun _ _ p _ => p ++ List.replicate 16 0,
    openF := fun _ _ c _ => if c.drop (c.length - 16) = List.replicate 16 0 ∧ 16 ≤ c.length
      then some (c.take (c.length - 16)) else none }

example : ∀ k n p a, toyAEAD.openF k n (toyAEAD.sealF k n p a) a = some p := by
  intro k n p a; simp [toyAEAD]

/-- block-aligned plaintext: a full padding block is added (16 → 32), and a concrete
in-place round trip through the model with the toy cipher. -/
example : cbcEncryptLen 16 = 32 ∧ cbcEncryptLen 0 = 16 ∧ cbcEncryptLen 17 = 32 := by decide

example :
    aesCBCDecrypt toyCipher .inplace
      (match aesCBCEncrypt toyCipher (List.replicate 16 0) [] (List.replicate 16 7) (List.range 16) with
        | .ok ct => ct | _ => []) (List.replicate 16 7) (List.range 16)
      = .ok (0, List.replicate 16 16) := by decide +kernel

/-- near-valid paddings are rejected, the valid one accepted: `[1,2,2]` with `b = 3`. -/
example : pkcs7UnPaddingPub [1, 2, 2] 3 = .ok [1] ∧ pkcs7UnPaddingPub [1, 3, 2] 3 = .err "padbytes" ∧
    pkcs7UnPaddingPub [1, 2, 4] 3 = .err "padlen" ∧ pkcs7UnPaddingPub [1, 2, 2] 2 = .err "multiple" ∧
    pkcs7UnPaddingPub [2, 2] 2 = .ok [] := by decide

end Golib.C08
