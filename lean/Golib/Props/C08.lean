/-
C08 — AES-CBC/GCM helpers and PKCS#7 padding (`cryptz/aes.go`).  ONLY property theorems and
non-vacuity examples live here; helper lemmas are in `Golib/Proof/C08*.lean`.

The block cipher and the AEAD are parameters: the theorems hold for EVERY `(E, D)` with
`D key (E key x) = x` on 16-BYTE blocks (`IsBytes`: all entries < 256) under the key at hand
and every `(seal, open)` with `open (seal p) = some p` under that key — hypotheses, never
axioms, and stated so that a concrete cipher on bytes CAN meet them (nothing is asked about
lists holding numbers ≥ 256 or about invalid keys).  The executable AES/GCM instances used by
the correspondence check are in `Model/C08Aes.lean`, `Model/C08Gcm.lean`; the `…_aes`
theorems at the end instantiate the parametric ones with them, using the facts proved about
those instances in `Proof/C08AesInv.lean` / `Proof/C08GcmInv.lean`.

Not a theorem (cryptographic, labelled partial in the manifest): "any change to ciphertext,
tag, nonce or additional data makes GCM decryption fail" — exercised on the real code by
all single-bit flips.
-/
import Golib.Proof.C08Main
import Golib.Proof.C08Off
import Golib.Proof.C08AesInv
import Golib.Proof.C08Trans
import Golib.Proof.C08GcmInv
import Golib.Proof.C08AesSpec
import Golib.Proof.C08GcmSpec
import Golib.Proof.C08Arena
import Golib.Proof.C08Memo
import Golib.Model.C08
import Golib.Gen.FactsC08

namespace Golib.C08

/-- `AESCBCEncryptLen`: `len + 16 − (len & 15)` is the next multiple of 16 strictly above
`len`, for every `len` (so a block-aligned plaintext gets a full padding block). -/
theorem c08_encLen (n : Nat) :
    cbcEncryptLen n = (n / 16 + 1) * 16 ∧ n < cbcEncryptLen n ∧ cbcEncryptLen n ≤ n + 16 ∧
      cbcEncryptLen n % 16 = 0 ∧ cbcDecryptLen n = n := by
  apply main_encLen <;> assumption

/-- The table built by `init()`: 17 entries, entry `n` is `n` bytes of value `n`. -/
theorem c08_table :
    prePadPatterns.length = 17 ∧ ∀ n, n ≤ 16 → prePadPatterns[n]? = some (List.replicate n n) := by
  apply main_table <;> assumption

/-- `PKCS7UnPadding(PKCS7Padding(d, b), b) = d` for every non-empty `d` and block size
`1..255`; the padded length is the next multiple of `b` strictly above `|d|`. -/
theorem c08_pad_unpad (d : Bytes) (b : Nat) (hd : d ≠ []) (hb1 : 1 ≤ b) (hb : b ≤ 255) :
    ∃ x, pkcs7Padding d b = .ok x ∧ pkcs7UnPaddingPub x b = .ok d ∧
      x.length = (d.length / b + 1) * b := by
  apply main_pad_unpad <;> assumption

/-- The public un-padding succeeds EXACTLY on correctly padded multiples of the block size
and then returns the data; every other input (any bytes, any block size, also `≤ 0`) is an
`error` — never a panic, never a wrong length. -/
theorem c08_unpad_sound_complete (x : Bytes) (b : Int) (hx : IsBytes x) :
    pkcs7UnPaddingPub x b ≠ .panic ∧
    ∀ d, pkcs7UnPaddingPub x b = .ok d ↔
      ∃ n : Nat, x = d ++ List.replicate n n ∧ 1 ≤ n ∧ (n : Int) ≤ b ∧
        Int.tmod (x.length : Int) b = 0 := by
  apply main_unpad_sound_complete <;> assumption

/-- The private table-based un-padding used inside CBC decryption, on any buffer of at
least one block: never panics; succeeds exactly on `d ++ n × n` with `1 ≤ n ≤ 16`, returning `|d|`. -/
theorem c08_unpad_private (x : Bytes) (h16 : 16 ≤ x.length) :
    pkcs7UnPadding x ≠ .panic ∧
    ∀ m : Int, pkcs7UnPadding x = .ok m ↔
      ∃ n : Nat, 1 ≤ n ∧ n ≤ 16 ∧ m = (x.length : Int) - n ∧
        x = x.take (x.length - n) ++ List.replicate n n := by
  apply main_unpad_private <;> assumption

/-- `AESCBCEncrypt` writes exactly `AESCBCEncryptLen` bytes — standard CBC over the
PKCS#7-padded plaintext — and `AESCBCDecrypt` recovers exactly the plaintext, for every
plaintext length (empty and block-aligned included), in every documented layout:
`dst` any buffer of the helper's size (fresh, or the plaintext's own memory), and for
decryption a separate `dst` of the ciphertext's size or the ciphertext's own memory
(the in-place case runs the standard library's backward loop on the one shared buffer). -/
theorem c08_cbc_roundtrip (C : Cipher) (key iv pt dst : Bytes) (lay : DecLayout)
    (hE : ∀ x, x.length = 16 → IsBytes x → (C.E key x).length = 16 ∧ IsBytes (C.E key x))
    (hDE : ∀ x, x.length = 16 → IsBytes x → C.D key (C.E key x) = x)
    (hk : keyOK key = true) (hiv : iv.length = 16) (hivb : IsBytes iv) (hptb : IsBytes pt)
    (hdst : dst.length = cbcEncryptLen pt.length)
    (hlay : ∀ d, lay = .fresh d → d.length = cbcEncryptLen pt.length) :
    ∃ ct, aesCBCEncrypt C dst pt key iv = .ok ct ∧
      ct = cbcEncrypt (C.E key) iv (pt ++ List.replicate (16 - pt.length % 16) (16 - pt.length % 16)) ∧
      ct.length = cbcEncryptLen pt.length ∧ IsBytes ct ∧
      ∃ d, aesCBCDecrypt C lay ct key iv = .ok ((pt.length : Int), d) ∧ d.take pt.length = pt := by
  apply main_cbc_roundtrip <;> assumption

/-- `AESCBCDecrypt` on ANY ciphertext: a length that is not a positive multiple of 16 is
rejected before anything is sliced; otherwise (valid key, 16-byte IV, documented layouts) it
never panics and returns `(n, dst)` exactly when the CBC decryption `P` of the input ends in
a correct padding `p × p`, `1 ≤ p ≤ 16`, with `n = |P| − p`; every other input is an error. -/
theorem c08_cbc_decrypt_rejects (C : Cipher) (lay : DecLayout) (ct key iv : Bytes) :
    ((ct.length < 16 ∨ ct.length % 16 ≠ 0) → aesCBCDecrypt C lay ct key iv = .err "len") ∧
    (keyOK key = false → aesCBCDecrypt C lay ct key iv = .err "len" ∨
        aesCBCDecrypt C lay ct key iv = .err "key") ∧
    (keyOK key = true → iv.length = 16 → 16 ≤ ct.length → ct.length % 16 = 0 →
      (∀ d, lay = .fresh d → d.length = ct.length) →
      (∀ x, x.length = 16 → (C.D key x).length = 16) →
      aesCBCDecrypt C lay ct key iv ≠ .panic ∧
      ∀ n d, aesCBCDecrypt C lay ct key iv = .ok (n, d) ↔
        d = cbcDecrypt (C.D key) iv ct ∧
        ∃ p : Nat, 1 ≤ p ∧ p ≤ 16 ∧ n = (ct.length : Int) - p ∧
          d = d.take (ct.length - p) ++ List.replicate p p) := by
  apply main_cbc_decrypt_rejects <;> assumption

/-- The GCM length helpers are exact: with `dst` sized by `AESGCMEncryptLen`, `AESGCMEncrypt`
leaves exactly `Seal`'s output (ciphertext ‖ 16-byte tag) in `dst`; `AESGCMDecryptLen`
inverts `AESGCMEncryptLen`. -/
theorem c08_gcm_lens (A : AEAD) (dst pt key nonce ad : Bytes)
    (hseal : ∀ n p a, (A.sealF key n p a).length = p.length + 16)
    (hk : keyOK key = true) (hn : nonce ≠ [])
    (hdst : dst.length = gcmEncryptLen pt.length) :
    gcmEncryptLen pt.length = pt.length + 16 ∧
    gcmDecryptLen (gcmEncryptLen pt.length) = pt.length ∧
    aesGCMEncrypt A dst pt key nonce ad = .ok (A.sealF key nonce pt ad) := by
  apply main_gcm_lens <;> assumption

/-- `AESGCMDecrypt(AESGCMEncrypt(p)) = p` for every plaintext, nonce, additional data and
valid key, with `dst` sized by the helpers (fresh, or the input's own memory — the content
`dst` had before does not matter); an input `Open` rejects is an error. -/
theorem c08_gcm_roundtrip (A : AEAD) (dst dst' pt key nonce ad : Bytes)
    (hseal : ∀ n p a, (A.sealF key n p a).length = p.length + 16)
    (hopen : ∀ n p a, A.openF key n (A.sealF key n p a) a = some p)
    (hk : keyOK key = true) (hn : nonce ≠ [])
    (hdst : dst.length = gcmEncryptLen pt.length)
    (hdst' : (dst'.length : Int) = gcmDecryptLen (gcmEncryptLen pt.length)) :
    ∃ ct, aesGCMEncrypt A dst pt key nonce ad = .ok ct ∧
      aesGCMDecrypt A dst' ct key nonce ad = .ok pt ∧
      (∀ ct' ad', A.openF key nonce ct' ad' = none →
        aesGCMDecrypt A dst' ct' key nonce ad' = .err "open") := by
  apply main_gcm_roundtrip <;> assumption

/-- Invalid key sizes (anything but 16, 24, 32 bytes) yield errors from all four entry
points, whatever the other arguments are (for CBC decryption after the length check). -/
theorem c08_bad_key (C : Cipher) (A : AEAD) (dst data key iv ad : Bytes) (lay : DecLayout)
    (hk : keyOK key = false) :
    aesCBCEncrypt C dst data key iv = .err "key" ∧
    aesGCMEncrypt A dst data key iv ad = .err "key" ∧
    aesGCMDecrypt A dst data key iv ad = .err "key" ∧
    (aesCBCDecrypt C lay data key iv = .err "len" ∨ aesCBCDecrypt C lay data key iv = .err "key") := by
  apply main_bad_key <;> assumption

/-- OFF the documented contract (`dst` not sized by the length helper) — not demanded by the
property, stated so that the hazards are on record and the model's behaviour there (which the
correspondence check compares with the real code on the `fresh±K` / `inplace±K` layouts) is
pinned down: (1) `dst` shorter than the plaintext, or not a multiple of 16: panic;
(2) THE SILENT ONE: block-aligned plaintext and `dst` of the plaintext's own length — the
ciphertext of the UNPADDED plaintext, no error; (3) `AESCBCDecrypt` into a longer separate
`dst`: the padding is looked for at the end of `dst`, not of the text; into a shorter one: panic;
(4) GCM with a `dst` too short: `Seal`/`Open` allocate, `dst` is left as it was, no error. -/
theorem c08_dst_offcontract (C : Cipher) (A : AEAD) (dst pt ct key iv nonce ad p : Bytes)
    (hk : keyOK key = true) (hiv : iv.length = 16) (hn : nonce ≠ []) :
    (dst.length < pt.length → aesCBCEncrypt C dst pt key iv = .panic) ∧
    (pt.length ≤ dst.length → dst.length % 16 ≠ 0 → aesCBCEncrypt C dst pt key iv = .panic) ∧
    (pt.length % 16 = 0 → dst.length = pt.length →
      aesCBCEncrypt C dst pt key iv = .ok (cbcEncrypt (C.E key) iv pt)) ∧
    (16 ≤ ct.length → ct.length % 16 = 0 →
      (ct.length ≤ dst.length → aesCBCDecrypt C (.fresh dst) ct key iv =
        match pkcs7UnPadding (cbcDecrypt (C.D key) iv ct ++ dst.drop ct.length) with
        | .ok n => .ok (n, cbcDecrypt (C.D key) iv ct ++ dst.drop ct.length)
        | .err e => .err e
        | .panic => .panic) ∧
      (dst.length < ct.length → aesCBCDecrypt C (.fresh dst) ct key iv = .panic)) ∧
    (dst.length < (A.sealF key nonce pt ad).length → aesGCMEncrypt A dst pt key nonce ad = .ok dst) ∧
    (A.openF key nonce ct ad = some p → dst.length < p.length →
      aesGCMDecrypt A dst ct key nonce ad = .ok dst) :=
  ⟨aesCBCEncrypt_short_dst C dst pt key iv hk,
   aesCBCEncrypt_unaligned_dst C dst pt key iv hk,
   aesCBCEncrypt_no_room_for_padding C dst pt key iv hk hiv,
   fun h16 hmul => ⟨aesCBCDecrypt_long_dst C dst ct key iv hk hiv h16 hmul,
     aesCBCDecrypt_short_dst C dst ct key iv hk h16 hmul⟩,
   (aesGCM_short_dst A dst pt ct key nonce ad p hk hn).1,
   (aesGCM_short_dst A dst pt ct key nonce ad p hk hn).2⟩

/-! ### The executable instances meet the hypotheses — so the statements above hold
UNCONDITIONALLY for the model the oracle runs (`aesCipher`, `aesGCM` of `Model/C08.lean`).
That the Lean AES/GCM are the same FUNCTIONS as `crypto/aes` / `crypto/cipher` is not proved:
it is tested (FIPS-197 / GCM-spec vectors at build time, every ciphertext of every run). -/

/-- For every valid key of bytes: the Lean AES (FIPS-197 `Cipher` / `InvCipher` with the
coded key expansion for 128/192/256-bit keys) maps byte blocks to byte blocks, `InvCipher`
inverts `Cipher` on EVERY 16-byte block, and the Lean AES-GCM satisfies
`|Seal(p)| = |p| + 16`, `Open(Seal(p)) = p`, and `Open c = p → |c| = |p| + 16`. -/
theorem c08_instances_meet_hypotheses (key : Bytes) (hk : keyOK key = true) (hkb : IsBytes key) :
    (∀ x, x.length = 16 → IsBytes x → (aesCipher.E key x).length = 16 ∧ IsBytes (aesCipher.E key x)) ∧
    (∀ x, x.length = 16 → IsBytes x → aesCipher.D key (aesCipher.E key x) = x) ∧
    (∀ x, x.length = 16 → (aesCipher.D key x).length = 16) ∧
    (∀ n p a, (aesGCM.sealF key n p a).length = p.length + 16) ∧
    (∀ n p a, aesGCM.openF key n (aesGCM.sealF key n p a) a = some p) ∧
    (∀ n c a p, aesGCM.openF key n c a = some p → c.length = p.length + 16) :=
  ⟨fun x hx hxb => aes_encrypt_block key x hk hkb hx hxb,
   fun x hx hxb => aes_decrypt_encrypt key x hk hkb hx hxb,
   fun x _ => aes_decrypt_length key x hk,
   fun n p a => gcm_seal_length key n p a hk,
   fun n p a => gcm_open_seal key n p a hk,
   fun n c a p h => gcm_open_length key n c a p hk h⟩

/-- `c08_cbc_roundtrip` for the Lean AES, no hypothesis about the cipher left: for every key of
16/24/32 bytes, 16-byte IV and byte string `pt` (any length), in every documented layout,
`AESCBCEncrypt` leaves exactly `AESCBCEncryptLen` bytes = CBC_AES(PKCS#7-pad(pt)) and
`AESCBCDecrypt` of them returns `|pt|` and `pt`. -/
theorem c08_cbc_roundtrip_aes (key iv pt dst : Bytes) (lay : DecLayout)
    (hk : keyOK key = true) (hkb : IsBytes key) (hiv : iv.length = 16) (hivb : IsBytes iv)
    (hptb : IsBytes pt) (hdst : dst.length = cbcEncryptLen pt.length)
    (hlay : ∀ d, lay = .fresh d → d.length = cbcEncryptLen pt.length) :
    ∃ ct, aesCBCEncrypt aesCipher dst pt key iv = .ok ct ∧
      ct = cbcEncrypt (AES.encryptBlock key) iv
        (pt ++ List.replicate (16 - pt.length % 16) (16 - pt.length % 16)) ∧
      ct.length = cbcEncryptLen pt.length ∧ IsBytes ct ∧
      ∃ d, aesCBCDecrypt aesCipher lay ct key iv = .ok ((pt.length : Int), d) ∧ d.take pt.length = pt :=
  c08_cbc_roundtrip aesCipher key iv pt dst lay (c08_instances_meet_hypotheses key hk hkb).1
    (c08_instances_meet_hypotheses key hk hkb).2.1 hk hiv hivb hptb hdst hlay

/-- `c08_gcm_roundtrip` for the Lean AES-GCM, no hypothesis about the AEAD left. -/
theorem c08_gcm_roundtrip_aes (dst dst' pt key nonce ad : Bytes)
    (hk : keyOK key = true) (hn : nonce ≠ [])
    (hdst : dst.length = gcmEncryptLen pt.length)
    (hdst' : (dst'.length : Int) = gcmDecryptLen (gcmEncryptLen pt.length)) :
    ∃ ct, aesGCMEncrypt aesGCM dst pt key nonce ad = .ok ct ∧
      ct = GCM.gcmSeal key nonce pt ad ∧ ct.length = gcmEncryptLen pt.length ∧
      aesGCMDecrypt aesGCM dst' ct key nonce ad = .ok pt := by
  obtain ⟨ct, h1, h2, _⟩ := c08_gcm_roundtrip aesGCM dst dst' pt key nonce ad
    (fun n p a => gcm_seal_length key n p a hk) (fun n p a => gcm_open_seal key n p a hk) hk hn hdst hdst'
  have h3 := (c08_gcm_lens aesGCM dst pt key nonce ad (fun n p a => gcm_seal_length key n p a hk) hk hn hdst).2.2
  have hct : ct = GCM.gcmSeal key nonce pt ad := by
    rw [h1] at h3; injection h3
  exact ⟨ct, h1, hct, by rw [hct, gcm_seal_length key nonce pt ad hk]; rfl, h2⟩

/-- What the HISTORY stream of the tie instantiates (header `hist`: the harness keeps the key /
secret, iv / nonce, additional data and dst of all calls of a case in the SAME backing arrays
and overwrites them in place between the calls): in the model a call has no memory — the
answer to each line is a function of that line alone, whatever was called before with whatever
was in those buffers — valid calls and REJECTED ones alike (a failed call leaves nothing
behind: there is no state it could half-update) — and equals the answer in the ordinary mode.
(True by construction — the model's entry points are pure functions — and recorded here because it is exactly what the
call-by-call comparison then demands of the real code: no cipher, schedule, iv or credential
retained BY REFERENCE from an earlier call.) -/
theorem c08_history_is_memoryless (pre ops : List String) :
    runCase ["hist"] ops = "ok" :: ops.map (fun l => step (Golib.Proto.toks l)) ∧
    runCase ["hist"] ops = runCase ["x"] ops ∧
    (runCase ["hist"] (pre ++ ops)).drop (1 + pre.length) = (runCase ["hist"] ops).drop 1 := by
  refine ⟨rfl, rfl, ?_⟩
  simp only [runCase, List.map_append, List.drop_succ_cons, List.drop_zero]
  rw [Nat.add_comm, List.drop_succ_cons]
  have : pre.length = (pre.map fun l => step (Golib.Proto.toks l)).length := by simp
  rw [this, List.drop_left]

/-- What the ARENA stream of the tie instantiates (header `arena`: dst, plaintext/ciphertext,
key, iv/nonce and additional data of a call are windows of one arena — both orders, adjacent or
apart, with or without spare capacity — and everything outside the dst window must be unchanged
after the call).  (1) The model's answers do not depend on the mode: an entry point is a
function of the VALUES of its arguments; where they live is not an input, and the only output is
the new content of dst.  (2) In the documented layouts the result does not depend on what `dst`
held before the call either — for `AESCBCEncrypt` this is the clause a library violates when it
skips `copy(dst, plainText)` for a `dst` that merely shares an arena with the plaintext: the
stale content of `dst` would be encrypted. -/
theorem c08_arena_value_semantics (C : Cipher) (A : AEAD) (ops : List String)
    (dst dst' pt ct key iv nonce ad : Bytes)
    (hk : keyOK key = true) (hiv : iv.length = 16) (hn : nonce ≠ [])
    (hseal : ∀ n p a, (A.sealF key n p a).length = p.length + 16) :
    runCase ["arena"] ops = runCase ["x"] ops ∧
    (dst.length = cbcEncryptLen pt.length → dst'.length = cbcEncryptLen pt.length →
      aesCBCEncrypt C dst pt key iv = aesCBCEncrypt C dst' pt key iv) ∧
    (16 ≤ ct.length → ct.length % 16 = 0 → dst.length = ct.length → dst'.length = ct.length →
      aesCBCDecrypt C (.fresh dst) ct key iv = aesCBCDecrypt C (.fresh dst') ct key iv ∧
      aesCBCDecrypt C (.fresh dst) ct key iv = aesCBCDecrypt C .inplace ct key iv) ∧
    (dst.length = gcmEncryptLen pt.length → dst'.length = gcmEncryptLen pt.length →
      aesGCMEncrypt A dst pt key nonce ad = aesGCMEncrypt A dst' pt key nonce ad) := by
  refine ⟨rfl, ?_, ?_, ?_⟩
  · intro h1 h2
    rw [aesCBCEncrypt_spec C dst pt key iv hk hiv h1, aesCBCEncrypt_spec C dst' pt key iv hk hiv h2]
  · intro h16 hm h1 h2
    rw [aesCBCDecrypt_eq C (.fresh dst) ct key iv hk hiv h16 hm (by intro d hd; injection hd with hd; rw [← hd, h1]),
      aesCBCDecrypt_eq C (.fresh dst') ct key iv hk hiv h16 hm (by intro d hd; injection hd with hd; rw [← hd, h2]),
      aesCBCDecrypt_eq C .inplace ct key iv hk hiv h16 hm (by intro d hd; cases hd)]
    exact ⟨rfl, rfl⟩
  · intro h1 h2
    rw [(c08_gcm_lens A dst pt key nonce ad hseal hk hn h1).2.2,
      (c08_gcm_lens A dst' pt key nonce ad hseal hk hn h2).2.2]

/-! ### Process-wide state keyed by PART of the input (`Model/C08Memo.lean`)

`c08_history_is_memoryless` says what the specification is: every call a function of its own
arguments.  The next two theorems are about the CLASS of rewrites that breaks it — a process-wide
memo of expanded keys / `cipher.Block` / `cipher.AEAD` objects keyed by some identity of the
configuration — for ANY identity, ANY eviction policy, ANY earlier history of the process. -/

open Golib.C08.Memo in
/-- (1) INVISIBLE: if the identity separates every two configurations whose objects differ, then
for every eviction policy that only drops entries, from every sound table (the empty one in
particular) and for EVERY history, each call gets exactly the object built from its own
configuration: the memoised program is the memoryless one.
(2) VISIBLE ON TWO CALLS: if two configurations `c1`, `c2` share the identity but their objects
differ, then the history `[c1, c2]` gets the SAME object twice from EVERY state of the table —
whatever the process called before, whatever was evicted — so at least one of the two calls is
answered with the wrong object; from the empty table it is the second, answered with the first
call's object.  These two-call histories, for the pairs a partial identity conflates, are what
the `hist` stream generates (`relatedKeys`, the enumerated grid) and judges call by call. -/
theorem c08_memo_invisible_iff_identity_separates {Cfg κ Obj : Type} [DecidableEq κ]
    (ident : Cfg → κ) (build : Cfg → Obj) (evict : Table κ Obj → Table κ Obj) :
    ((∀ c c', ident c = ident c' → build c = build c') → (∀ t e, e ∈ evict t → e ∈ t) →
      ∀ cs t, Sound ident build t → run ident build evict t cs = cs.map build) ∧
    (∀ c1 c2, ident c1 = ident c2 → build c1 ≠ build c2 →
      (∀ t, run ident build evict t [c1, c2] ≠ [c1, c2].map build) ∧
      run ident build evict [] [c1, c2] = [build c1, build c1]) := by
  refine ⟨fun hsep hev cs t ht => run_transparent ident build evict hsep hev cs t ht, ?_⟩
  intro c1 c2 hid hne
  refine ⟨fun t => ?_, run_two_calls_fresh ident build evict c1 c2 hid⟩
  obtain ⟨o, ho⟩ := run_two_calls_same_object ident build evict t c1 c2 hid
  rw [ho]
  intro h
  simp only [List.map_cons, List.map_nil, List.cons.injEq, and_true] at h
  exact hne (h.1.symm.trans h.2)

open Golib.C08.Memo in
/-- The GCM helpers through a memo of AEADs (`aesGCMEncryptMemo` / `aesGCMDecryptMemo`: argument
checks, then the AEAD from the memo, then `Seal` / `Open` on it — which panic when the nonce is
not of the size the stored AEAD was built for), and the CBC helper through a memo of
(key schedule, iv).
(1) Keyed by the WHOLE configuration — key bytes, hence the key length, and nonce size
(`identFull`; any injective identity) — the memo is invisible: each call, from every sound table,
answers exactly as the stateless `AESGCMEncrypt` / `AESGCMDecrypt`, and leaves a sound table.
(2) The partial identities collide on the key families the generator builds: the key without its
length (C08-J: `k` and `k‖00…00`), the first 16 / first 24 / last 16 bytes (two keys of one
length that agree there), the key without the nonce size, the key without the iv.
(3) For an identity that conflates the configurations of two valid calls, made one after the
other from the empty table: the first call is answered correctly, the second with the FIRST
call's key and nonce size (CBC: the first call's key and iv) — under C08-J's identity `k‖00…00`
is sealed under AES-128 with `k`; with the nonce size dropped the second call panics. -/
theorem c08_memo_keyed_on_part_of_the_input {κ κ' : Type} [DecidableEq κ] [DecidableEq κ']
    (A : AEAD) (C : Cipher) (ident : GcmCfg → κ) (evict : Table κ GcmCfg → Table κ GcmCfg)
    (identC : CbcCfg → κ') (evictC : Table κ' CbcCfg → Table κ' CbcCfg) :
    ((∀ c c', ident c = ident c' → c = c') → (∀ t e, e ∈ evict t → e ∈ t) →
      ∀ t, Sound ident id t → ∀ dst data key nonce ad,
        (aesGCMEncryptMemo A ident evict t dst data key nonce ad).1 = aesGCMEncrypt A dst data key nonce ad ∧
        (aesGCMDecryptMemo A ident evict t dst data key nonce ad).1 = aesGCMDecrypt A dst data key nonce ad ∧
        Sound ident id (aesGCMEncryptMemo A ident evict t dst data key nonce ad).2 ∧
        Sound ident id (aesGCMDecryptMemo A ident evict t dst data key nonce ad).2) ∧
    (∀ c c', identFull c = identFull c' → c = c') ∧
    ((∀ k j n, k.length + j ≤ 32 → identNoLen ⟨k ++ List.replicate j 0, n⟩ = identNoLen ⟨k, n⟩) ∧
      (∀ p x y n, p.length = 16 → x.length = y.length → identFirst16 ⟨p ++ x, n⟩ = identFirst16 ⟨p ++ y, n⟩) ∧
      (∀ p x y n, p.length = 24 → x.length = y.length → identFirst24 ⟨p ++ x, n⟩ = identFirst24 ⟨p ++ y, n⟩) ∧
      (∀ x y s n, s.length = 16 → x.length = y.length → identLast16 ⟨x ++ s, n⟩ = identLast16 ⟨y ++ s, n⟩) ∧
      (∀ k n n', identNoNonceLen ⟨k, n⟩ = identNoNonceLen ⟨k, n'⟩) ∧
      (∀ k iv iv', identNoIV ⟨k, iv⟩ = identNoIV ⟨k, iv'⟩)) ∧
    (∀ dst1 d1 key1 nonce1 ad1 dst2 d2 key2 nonce2 ad2,
      keyOK key1 = true → nonce1.length ≠ 0 → keyOK key2 = true → nonce2.length ≠ 0 →
      ident ⟨key1, nonce1.length⟩ = ident ⟨key2, nonce2.length⟩ →
      (aesGCMEncryptMemo A ident evict [] dst1 d1 key1 nonce1 ad1).1 = aesGCMEncrypt A dst1 d1 key1 nonce1 ad1 ∧
      (aesGCMEncryptMemo A ident evict (aesGCMEncryptMemo A ident evict [] dst1 d1 key1 nonce1 ad1).2
          dst2 d2 key2 nonce2 ad2).1 =
        (if nonce2.length ≠ nonce1.length then .panic
         else .ok (appendInto dst2 (A.sealF key1 nonce2 d2 ad2))) ∧
      (aesGCMDecryptMemo A ident evict (aesGCMEncryptMemo A ident evict [] dst1 d1 key1 nonce1 ad1).2
          dst2 d2 key2 nonce2 ad2).1 = openWith A ⟨key1, nonce1.length⟩ dst2 d2 nonce2 ad2) ∧
    (∀ dst1 p1 key1 iv1 dst2 p2 key2 iv2, keyOK key1 = true → keyOK key2 = true →
      identC ⟨key1, iv1⟩ = identC ⟨key2, iv2⟩ →
      (aesCBCEncryptMemo C identC evictC [] dst1 p1 key1 iv1).1 = aesCBCEncrypt C dst1 p1 key1 iv1 ∧
      (aesCBCEncryptMemo C identC evictC (aesCBCEncryptMemo C identC evictC [] dst1 p1 key1 iv1).2
          dst2 p2 key2 iv2).1 = aesCBCEncrypt C dst2 p2 key1 iv1) := by
  refine ⟨fun hinj hev t ht dst data key nonce ad =>
      gcm_memo_transparent A ident evict hinj hev t ht dst data key nonce ad,
    identFull_injective,
    ⟨identNoLen_collides, identFirst16_collides, identFirst24_collides, identLast16_collides,
      identNoNonceLen_collides, identNoIV_collides⟩, ?_, ?_⟩
  · intro dst1 d1 key1 nonce1 ad1 dst2 d2 key2 nonce2 ad2 hk1 hn1 hk2 hn2 hid
    exact gcm_memo_second_call_uses_first A ident evict dst1 d1 key1 nonce1 ad1 dst2 d2 key2 nonce2 ad2
      hk1 hn1 hk2 hn2 hid
  · intro dst1 p1 key1 iv1 dst2 p2 key2 iv2 hk1 hk2 hid
    exact cbc_memo_second_call_uses_first C identC evictC dst1 p1 key1 iv1 dst2 p2 key2 iv2 hk1 hk2 hid

/-! ### The executable primitives are SPECIFIED, not only invertible.
"Lean AES/GCM compute the same function as crypto/aes, crypto/cipher" stays a TEST (vectors,
every ciphertext of every run).  What is proved is that the Lean primitives are the textbook
objects: -/

/-- AES: the S-box table is the affine map of the GF(2^8) inverse (FIPS-197 §5.1.1), where the
field product `gmul` is the carry-less product reduced modulo x^8+x^4+x^3+x+1 (`pmod8_spec` pins
`pmod8` down as the remainder map) and `gfInv` is a true inverse; the InvMixColumns matrix times
the MixColumns matrix is the identity over GF(2^8).  GCM: the GHASH bit loop is the carry-less
product reduced modulo x^128+x^7+x^2+x+1 in GCM's reflected bit order (`pmod_spec`); `inc32`
increments the last 32 bits modulo 2^32 and leaves the first 96 alone; the CTR counter of the
stream mode is a 128-bit big-endian counter. -/
theorem c08_primitives_are_specified :
    (∀ b, b < 256 → AES.subByte b = sboxAffine (gfInv b)) ∧
    (∀ b, 0 < b → b < 256 → AES.gmul b (gfInv b) = 1) ∧
    (∀ a b, a < 256 → b < 256 → AES.gmul a b = pmod8 (clmulN 8 b a)) ∧
    (∀ k i, k < 4 → i < 4 →
      (List.range 4).foldl (fun z j => z ^^^ AES.gmul (mcM'.getD ((j + 4 - k) % 4) 0)
        (mcM.getD ((i + 4 - j) % 4) 0)) 0 = if k = i then 1 else 0) ∧
    (∀ x y, x < 2 ^ 128 → y < 2 ^ 128 → GCM.gfMul x y = rev128 (pmod (clmul (rev128 x) (rev128 y)))) ∧
    (∀ cb : Bytes, cb.length = 16 → (GCM.inc32 cb).length = 16 ∧ (GCM.inc32 cb).take 12 = cb.take 12 ∧
      GCM.toNatBE ((GCM.inc32 cb).drop 12) = (GCM.toNatBE (cb.drop 12) + 1) % 2 ^ 32) ∧
    (∀ iv i, GCM.toNatBE (Golib.C09.Enc.ctrBlock iv i) = (GCM.toNatBE iv + i) % 2 ^ 128 ∧
      (Golib.C09.Enc.ctrBlock iv i).length = 16) :=
  ⟨sbox_is_algebraic, gfInv_is_inverse, fun a b ha hb => gmul_is_clmul_mod a b ha hb,
   mix_invmix_matrix_identity, gfMul_is_clmul_mod, inc32_wraps_low32, ctrBlock_is_be128⟩

/-! ### Buffer level (`Model/C08Arena.lean`): the four entry points over ONE arena with a write log -/

open Golib.C08.Arena in
/-- WRITE SETS.  With all arguments windows of one arena — ANY placement, overlapping or not — and
for EVERY outcome (nil, error, panic): every write `AESCBCEncrypt` / `AESCBCDecrypt` /
`AESGCMEncrypt` / `AESGCMDecrypt` logs lies inside the `dst` window, the arena keeps its length,
and every cell outside `dst` keeps its content.  (CBC: for any `dst`; GCM: `dst` sized by the
helper — `Seal`/`Open` append into `dst[:0]`, which lands in `dst`'s array iff it fits its capacity,
and `Open` clears the output on a failed authentication.)  This is what the harness's canary
check of the `arena` stream tests on the real code. -/
theorem c08_writes_within_dst (C : Cipher) (A : AEAD) (m : Mem) (dst src key iv ad : Win)
    (hd : dst.wf m) (hs : src.off + src.len ≤ m.cells.length)
    (hE : keyOK (m.rd key) = true → ∀ x, x.length = 16 → (C.E (m.rd key) x).length = 16)
    (hD : keyOK (m.rd key) = true → ∀ x, x.length = 16 → (C.D (m.rd key) x).length = 16)
    (hseal : ∀ k n p a, (A.sealF k n p a).length = p.length + 16)
    (hopenlen : ∀ k n c a p, A.openF k n c a = some p → c.length = p.length + 16) :
    WritesWithin m (aesCBCEncryptA C m dst src key iv).1 dst.off (dst.off + dst.len) ∧
    WritesWithin m (aesCBCDecryptA C m dst src key iv).1 dst.off (dst.off + dst.len) ∧
    (dst.len = src.len + gcmTagSize →
      WritesWithin m (aesGCMEncryptA A m dst src key iv ad).1 dst.off (dst.off + dst.len)) ∧
    (dst.len + gcmTagSize = src.len ∨ src.len < gcmTagSize →
      WritesWithin m (aesGCMDecryptA A m dst src key iv ad).1 dst.off (dst.off + dst.len)) :=
  ⟨cbcEncryptA_writes_within_dst C m dst src key iv hd hE,
   cbcDecryptA_writes_within_dst C m dst src key iv hd hs hD,
   gcmEncryptA_writes_within_dst A m dst src key iv ad hd hs hseal,
   gcmDecryptA_writes_within_dst A m dst src key iv ad hd hs (fun _ => hopenlen _)⟩

open Golib.C08.Arena in
/-- REFINEMENT.  In the layouts `aes.go` documents — plaintext / ciphertext outside `dst`, or
starting at `dst`'s first cell (in place); the iv outside `dst` for encryption — the arena run
returns what the value-level model returns on the window CONTENTS and leaves that result in
`dst`, whatever `dst` held before: so every value-level theorem above (standard CBC over the
padded plaintext, round trips, rejection of bad paddings, Seal/Open) transfers to the arena. -/
theorem c08_arena_refines_value_model (C : Cipher) (A : AEAD) (m : Mem) (dst src key iv ad : Win)
    (hd : dst.wf m) (hs : src.off + src.len ≤ m.cells.length) (hi : iv.off + iv.len ≤ m.cells.length)
    (hk : keyOK (m.rd key) = true)
    (hE : ∀ x, x.length = 16 → (C.E (m.rd key) x).length = 16)
    (hD : ∀ x, x.length = 16 → (C.D (m.rd key) x).length = 16)
    (hseal : ∀ k n p a, (A.sealF k n p a).length = p.length + 16)
    (hopenlen : ∀ k n c a p, A.openF k n c a = some p → c.length = p.length + 16)
    (hsrc : disjoint dst src ∨ src.off = dst.off) :
    (iv.len = 16 → dst.len = cbcEncryptLen src.len → disjoint dst iv →
      (aesCBCEncryptA C m dst src key iv).2 = .ok () ∧
      aesCBCEncrypt C (m.rd dst) (m.rd src) (m.rd key) (m.rd iv) =
        .ok ((aesCBCEncryptA C m dst src key iv).1.rd dst)) ∧
    (iv.len = 16 → 16 ≤ src.len → src.len % 16 = 0 → dst.len = src.len →
      ∀ lay, lay = .fresh (m.rd dst) ∨ lay = .inplace →
      aesCBCDecrypt C lay (m.rd src) (m.rd key) (m.rd iv) =
        match (aesCBCDecryptA C m dst src key iv).2 with
        | .ok n => .ok (n, (aesCBCDecryptA C m dst src key iv).1.rd dst)
        | .err e => .err e
        | .panic => .panic) ∧
    (0 < iv.len → dst.len = src.len + gcmTagSize →
      (aesGCMEncryptA A m dst src key iv ad).2 = .ok () ∧
      aesGCMEncrypt A (m.rd dst) (m.rd src) (m.rd key) (m.rd iv) (m.rd ad) =
        .ok ((aesGCMEncryptA A m dst src key iv ad).1.rd dst)) ∧
    (0 < iv.len → dst.len + gcmTagSize = src.len →
      (∀ p, A.openF (m.rd key) (m.rd iv) (m.rd src) (m.rd ad) = some p →
        (aesGCMDecryptA A m dst src key iv ad).2 = .ok () ∧
        (aesGCMDecryptA A m dst src key iv ad).1.rd dst = p) ∧
      (A.openF (m.rd key) (m.rd iv) (m.rd src) (m.rd ad) = none →
        (aesGCMDecryptA A m dst src key iv ad).2 = .err "open")) := by
  refine ⟨?_, ?_, ?_, ?_⟩
  · intro h16 hsz hdiv
    have := cbcEncryptA_refines C m dst src key iv hd hs hi hE hk h16 hsz hdiv hsrc
    exact ⟨this.1, this.2.2⟩
  · intro h16 hge hmul hsz lay hlay
    exact (cbcDecryptA_refines C m dst src key iv lay hd hs hi hD hk h16 hge hmul hsz hsrc hlay).2
  · intro hn hsz
    have := gcmEncryptA_refines A m dst src key iv ad hd hs hseal hk hn hi hsz hsrc
    exact ⟨this.1, this.2.2⟩
  · intro hn hsz
    have := gcmDecryptA_refines A m dst src key iv ad hd hs hopenlen hk hn hi hsz hsrc
    exact ⟨fun p hp => ⟨(this.1 p hp).1, (this.1 p hp).2.1⟩, fun h => (this.2 h).1⟩

open Golib.C08.Arena in
/-- BUFFER LEVEL, the PKCS#7 helpers, for EVERY block size (any `int`, so 1..255 in particular) and
every outcome: `PKCS7Padding` can write only into the spare capacity of `data` —
`[off+len, off+cap)`: the data itself and everything outside the slice's capacity keep their
content — and the slice it returns (in place when the padding fits the capacity, a new array
otherwise) holds exactly the value-level result; `PKCS7UnPadding` writes nothing and returns a
prefix window of `data` holding the value-level result.  Tied through the driver: op `padcap`
(answered by THIS model) for every block size 1..255 with the padding fitting exactly / one byte
short / no spare / plenty. -/
theorem c08_pkcs7_buffer_level (m : Mem) (data : Win) (b : Int) (hd : data.wf m) :
    WritesWithin m (pkcs7PaddingA m data b).1 (data.off + data.len) (data.off + data.cap) ∧
    (pkcs7PaddingA m data b).1.rd data = m.rd data ∧
    (match (pkcs7PaddingA m data b).2, pkcs7Padding (m.rd data) b with
      | .ok sl, .ok x => sl.content (pkcs7PaddingA m data b).1 = x
      | .err e, .err e' => e = e'
      | .panic, .panic => True
      | _, _ => False) ∧
    (pkcs7UnPaddingPubA m data b).1 = m ∧
    (∀ w, (pkcs7UnPaddingPubA m data b).2 = .ok w →
      w.off = data.off ∧ w.len ≤ data.len ∧ pkcs7UnPaddingPub (m.rd data) b = .ok (m.rd w)) := by
  have h1 := pkcs7PaddingA_spec m data b hd
  have h2 := pkcs7UnPaddingPubA_spec m data b (by obtain ⟨a, c⟩ := hd; omega)
  exact ⟨h1.1, h1.2.1, h1.2.2, h2.1, h2.2⟩

open Golib.C08.Arena in
/-- ERROR PATHS at buffer level.  (1) A call rejected for its arguments (bad key size, bad
ciphertext length, empty nonce, input shorter than the tag) writes NOTHING.  (2) `AESCBCDecrypt`
in the documented layouts leaves in `dst` the full CBC decryption of the ciphertext WHATEVER the
outcome — in particular after "invalid padding" the decrypted text, bad padding included, stays
in `dst` (and nothing outside `dst` changed: `c08_writes_within_dst`).  (3) `AESGCMDecrypt` whose
authentication fails leaves ZEROS in `dst`: neither its old content nor unauthenticated
plaintext.  Tied through the driver: ops `cbcdecleft` / `gcmdecleft` (answered by the arena model)
print what `dst` holds after every outcome. -/
theorem c08_failed_decrypt_leaves (C : Cipher) (A : AEAD) (m : Mem) (dst src key iv ad : Win)
    (hd : dst.wf m) (hs : src.off + src.len ≤ m.cells.length) (hi : iv.off + iv.len ≤ m.cells.length)
    (hsrc : disjoint dst src ∨ src.off = dst.off) :
    (((src.len < 16 ∨ src.len % 16 ≠ 0 ∨ keyOK (m.rd key) = false) →
        (aesCBCDecryptA C m dst src key iv).1 = m) ∧
      ((keyOK (m.rd key) = false ∨ iv.len = 0 ∨ src.len < 16) →
        (aesGCMDecryptA A m dst src key iv ad).1 = m)) ∧
    (keyOK (m.rd key) = true → (∀ x, x.length = 16 → (C.D (m.rd key) x).length = 16) → iv.len = 16 →
      16 ≤ src.len → src.len % 16 = 0 → dst.len = src.len →
      (aesCBCDecryptA C m dst src key iv).1.rd dst = cbcDecrypt (C.D (m.rd key)) (m.rd iv) (m.rd src)) ∧
    (keyOK (m.rd key) = true → 0 < iv.len → dst.len + gcmTagSize = src.len →
      A.openF (m.rd key) (m.rd iv) (m.rd src) (m.rd ad) = none →
      (aesGCMDecryptA A m dst src key iv ad).2 = .err "open" ∧
      (aesGCMDecryptA A m dst src key iv ad).1.rd dst = List.replicate dst.len 0) := by
  have hr := rejected_calls_write_nothing C A m dst src key iv ad
  refine ⟨⟨fun h => (hr.1 h).1, fun h => (hr.2.2.2 h).1⟩, ?_, ?_⟩
  · intro hk hD h16 hge hmul hsz
    exact (cbcDecryptA_refines C m dst src key iv .inplace hd hs hi hD hk h16 hge hmul hsz hsrc (Or.inr rfl)).1
  · intro hk hn hsz ho
    exact gcmDecryptA_failed_leaves_zeros A m dst src key iv ad hd hk hn hsz hsrc ho

/-- The facts the model hard-codes, against `Golib/Gen/FactsC08.lean`, which the go/ast
extractor regenerates from `cryptz/aes.go` on every run: the constants, the size of the
padding table, the bound of the `init()` loop, and that the model's table is what that loop
computes entry by entry. -/
theorem c08_facts_match_model :
    Gen.C08.extractorOK = true ∧ Gen.C08.blockSizeMask = blockSizeMask ∧
    Gen.C08.gcmTagSize = gcmTagSize ∧ Gen.C08.nonceSize = nonceSize ∧
    Gen.C08.padTableSize = aesBlockSize + 1 ∧ Gen.C08.padTableLoopBound = Gen.C08.padTableSize ∧
    prePadPatterns = (List.range Gen.C08.padTableSize).map Gen.C08.padTableEntry := by
  decide +kernel

/-! ### Non-vacuity: the hypotheses are satisfiable and the statements bite -/

/-- a toy block cipher (rotate the block by one byte / back) meeting the hypotheses of
`c08_cbc_roundtrip`; the real instance is AES (`Model/C08Aes.lean`). -/
def toyCipher : Cipher :=
  { E := fun _ x => x.drop 1 ++ x.take 1, D := fun _ x => x.drop (x.length - 1) ++ x.take (x.length - 1) }

example : ∀ k x, x.length = 16 → IsBytes x → (toyCipher.E k x).length = 16 ∧ IsBytes (toyCipher.E k x) := by
  intro k x h hb
  refine ⟨by simp [toyCipher]; omega, ?_⟩
  intro y hy
  simp only [toyCipher, List.mem_append] at hy
  rcases hy with hy | hy
  · exact hb y (List.mem_of_mem_drop hy)
  · exact hb y (List.mem_of_mem_take hy)

example : ∀ k x, x.length = 16 → IsBytes x → toyCipher.D k (toyCipher.E k x) = x := by
  intro k x h _
  match x, h with
  | [a0,a1,a2,a3,a4,a5,a6,a7,a8,a9,a10,a11,a12,a13,a14,a15], _ => simp [toyCipher]

/-- a toy AEAD (tag = 16 zero bytes) meeting the hypotheses of the GCM theorems. -/
def toyAEAD : AEAD :=
  { sealF := fun _ _ p _ => p ++ List.replicate 16 0,
    openF := fun _ _ c _ => if c.drop (c.length - 16) = List.replicate 16 0 ∧ 16 ≤ c.length
      then some (c.take (c.length - 16)) else none }

example : ∀ k n p a, toyAEAD.openF k n (toyAEAD.sealF k n p a) a = some p := by
  intro k n p a; simp [toyAEAD]

/-- block-aligned plaintext: a full padding block is added (16 → 32), and a concrete
in-place round trip through the model with the toy cipher. -/
example : cbcEncryptLen 16 = 32 ∧ cbcEncryptLen 0 = 16 ∧ cbcEncryptLen 17 = 32 := by decide

example :
    aesCBCDecrypt toyCipher .inplace
      (match aesCBCEncrypt toyCipher (List.replicate 16 0) [] (List.replicate 16 7) (List.range 16) with
        | .ok ct => ct | _ => []) (List.replicate 16 7) (List.range 16)
      = .ok (0, List.replicate 16 16) := by decide +kernel

/-- the silent hazard is real: 16 bytes into a 16-byte `dst` come back as ONE block, unpadded. -/
example : aesCBCEncrypt toyCipher (List.replicate 16 0) (List.range 16) (List.replicate 16 7) (List.replicate 16 0)
    = .ok ((List.range 16).drop 1 ++ [0]) := by decide +kernel

/-- near-valid paddings are rejected, the valid one accepted: `[1,2,2]` with `b = 3`. -/
example : pkcs7UnPaddingPub [1, 2, 2] 3 = .ok [1] ∧ pkcs7UnPaddingPub [1, 3, 2] 3 = .err "padbytes" ∧
    pkcs7UnPaddingPub [1, 2, 4] 3 = .err "padlen" ∧ pkcs7UnPaddingPub [1, 2, 2] 2 = .err "multiple" ∧
    pkcs7UnPaddingPub [2, 2] 2 = .ok [] := by decide

/-- the memo theorems bite on the model the oracle runs: C08-J's identity conflates a 16-byte
key with its zero extension to 24 bytes, both are valid keys, and the Lean AES-GCM seals the
same message DIFFERENTLY under them (AES-128 vs AES-192) — so by
`c08_memo_keyed_on_part_of_the_input` (3) the second call of the two-call history is answered
with a ciphertext that is not `AESGCMEncrypt`'s; likewise the memo without the nonce size
panics where `AESGCMEncrypt` succeeds. -/
example :
    Memo.identNoLen ⟨List.range 16, 12⟩ = Memo.identNoLen ⟨List.range 16 ++ List.replicate 8 0, 12⟩ ∧
    keyOK (List.range 16) = true ∧ keyOK (List.range 16 ++ List.replicate 8 0) = true ∧
    (Memo.aesGCMEncryptMemo aesGCM Memo.identNoLen id
        (Memo.aesGCMEncryptMemo aesGCM Memo.identNoLen id [] (fill 19) [1, 2, 3] (List.range 16)
          (List.replicate 12 1) [4]).2
        (fill 19) [1, 2, 3] (List.range 16 ++ List.replicate 8 0) (List.replicate 12 1) [4]).1
      ≠ aesGCMEncrypt aesGCM (fill 19) [1, 2, 3] (List.range 16 ++ List.replicate 8 0) (List.replicate 12 1) [4] := by
  decide +kernel

example :
    (Memo.aesGCMEncryptMemo toyAEAD Memo.identNoNonceLen id
        (Memo.aesGCMEncryptMemo toyAEAD Memo.identNoNonceLen id [] (fill 17) [9] (List.range 16)
          (List.replicate 12 1) []).2
        (fill 17) [9] (List.range 16) (List.replicate 8 1) []).1 = .panic ∧
    aesGCMEncrypt toyAEAD (fill 17) [9] (List.range 16) (List.replicate 8 1) [] = .ok ([9] ++ List.replicate 16 0) := by
  decide +kernel

/-- and the whole-configuration identity is a sound start: the empty table is `Sound`. -/
example : Memo.Sound Memo.identFull id ([] : Memo.Table (Bytes × Nat) Memo.GcmCfg) := by
  intro k o h; cases h

/-! ### Regenerated tie (wave 8): the length helpers of `cryptz/aes.go` translated by `go2lean`

`Golib.Gen.Trans.C08.*` are regenerated from the tree under verification on every run
(`Golib/Gen/TransC08.lean`).  The translated code works on `List (BitVec 8)` (the one Lean type
of `typez.StrOrBytes`), the model on `Bytes = List Nat`; `absBytes = List.map BitVec.toNat` is
the abstraction function.  `int` is the unbounded `Int` of the translation; `len & 15` goes
through the 64-bit two's complement `GoSem.intAnd`, and the ties hold for EVERY length (no
`len < 2^63` hypothesis: the mask keeps the low 4 bits).

NOT translated (translator frozen; the generated file would hold `<f>_untranslatable`):
`PKCS7Padding`, `PKCS7UnPadding` (`return nil, err` with a nil SLICE is outside the subset;
`bytes.Repeat`, `bytes.Equal` have no GoSem semantics) — their tie stays the sampled
correspondence + drift hash.  The private `pkcs7UnPadding` IS translated, with its one
`bytes.Equal(table entry, tail)` test as an extern `Bool` (below). -/

/-- TIE: `AESCBCEncryptLen` = the model's `cbcEncryptLen` of the length, never panics. -/
theorem c08_trans_AESCBCEncryptLen (plainText : List (BitVec 8)) :
    Golib.Gen.Trans.C08.AESCBCEncryptLen plainText
      = .ok ((cbcEncryptLen (absBytes plainText).length : Nat) : Int) :=
  trans_AESCBCEncryptLen plainText

/-- the property clause restated on the regenerated definition: the reported length is a
multiple of the block size, STRICTLY larger than `len` (PKCS#7 always pads) and larger by at
most one block. -/
theorem c08_trans_AESCBCEncryptLen_spec (plainText : List (BitVec 8)) :
    ∃ n : Nat, Golib.Gen.Trans.C08.AESCBCEncryptLen plainText = .ok (n : Int) ∧
      n % 16 = 0 ∧ plainText.length < n ∧ n ≤ plainText.length + 16 := by
  refine ⟨cbcEncryptLen (absBytes plainText).length, c08_trans_AESCBCEncryptLen plainText, ?_⟩
  rw [cbcEncryptLen_eq, absBytes_length]
  omega

/-- TIE: `AESCBCDecryptLen` = `cbcDecryptLen` (= the length). -/
theorem c08_trans_AESCBCDecryptLen (cipherText : List (BitVec 8)) :
    Golib.Gen.Trans.C08.AESCBCDecryptLen cipherText
      = .ok ((cbcDecryptLen (absBytes cipherText).length : Nat) : Int) :=
  trans_AESCBCDecryptLen cipherText

/-- TIE: `AESGCMEncryptLen` = `gcmEncryptLen` (length + tag size). -/
theorem c08_trans_AESGCMEncryptLen (plainText : List (BitVec 8)) :
    Golib.Gen.Trans.C08.AESGCMEncryptLen plainText
      = .ok ((gcmEncryptLen (absBytes plainText).length : Nat) : Int) :=
  trans_AESGCMEncryptLen plainText

/-- TIE: `AESGCMDecryptLen` = `gcmDecryptLen` (an `int`: NEGATIVE for inputs shorter than the tag). -/
theorem c08_trans_AESGCMDecryptLen (cipherText : List (BitVec 8)) :
    Golib.Gen.Trans.C08.AESGCMDecryptLen cipherText
      = .ok (gcmDecryptLen (absBytes cipherText).length) :=
  trans_AESGCMDecryptLen cipherText

/-- Non-vacuity: block boundary (16 ↦ 32, a whole extra block), 17 ↦ 32, empty ↦ 16; the GCM
decrypt length of a 3-byte input is −13. -/
example :
    Golib.Gen.Trans.C08.AESCBCEncryptLen (List.replicate 16 0#8) = .ok 32 ∧
    Golib.Gen.Trans.C08.AESCBCEncryptLen (List.replicate 17 0#8) = .ok 32 ∧
    Golib.Gen.Trans.C08.AESCBCEncryptLen [] = .ok 16 ∧
    Golib.Gen.Trans.C08.AESCBCDecryptLen [1#8, 2#8] = .ok 2 ∧
    Golib.Gen.Trans.C08.AESGCMEncryptLen [1#8, 2#8] = .ok 18 ∧
    Golib.Gen.Trans.C08.AESGCMDecryptLen [1#8, 2#8, 3#8] = .ok (-13) := by
  refine ⟨?_, ?_, ?_, ?_, ?_, ?_⟩ <;> decide +kernel

/-- TIE (private, table-based `pkcs7UnPadding` used by `AESCBCDecrypt`): the regenerated
function — reading the last byte (PANIC on empty input, on both sides), the range test
`paddingLen > 16 || paddingLen <= 0`, the two error classes, the returned `len - paddingLen` —
equals the model's `pkcs7UnPadding` on `absBytes data`, seen through `embedUnpad`
(`.ok n ↦ (n, nil)`, `.err c ↦ (0, errors.New(<text of class c>))`, `.panic ↦ panic`).

The ONE expression not regenerated is `bytes.Equal(prePadPatterns[paddingLen], data[len(data)-paddingLen:])`:
it is the extern parameter `eq`, and the hypotheses say what it stands for — `heq`: for a last
byte `p ∈ 1..16`, `eq` = "table entry `p` equals the last `p` bytes" (`padEq`, model terms);
`hnp`: evaluating that expression does not panic (`p ≤ len(data)`; the model panics there, the
generated definition cannot see a panic inside an extern).  Both hold in every call from
`AESCBCDecrypt` (its input has ≥ 16 bytes). -/
theorem c08_trans_pkcs7UnPadding (data : List (BitVec 8)) (eq : Bool)
    (hnp : ∀ b, data.getLast? = some b → 1 ≤ b.toNat → b.toNat ≤ 16 → b.toNat ≤ data.length)
    (heq : ∀ b, data.getLast? = some b → 1 ≤ b.toNat → b.toNat ≤ 16 →
      eq = padEq (absBytes data) b.toNat) :
    Golib.Gen.Trans.C08.pkcs7UnPadding data eq = embedUnpad (pkcs7UnPadding (absBytes data)) :=
  trans_pkcs7UnPadding data eq hnp heq

/-- the property clause on the regenerated definition: whatever the comparison says, a last
byte outside `1..16` is rejected with the padding-length error and NO input makes the
function report a length outside `0 ≤ n < len(data)` without an error … for inputs of at
least 16 bytes (the only ones `AESCBCDecrypt` passes). -/
theorem c08_trans_pkcs7UnPadding_range (data : List (BitVec 8)) (eq : Bool) (n : Int)
    (hlen : 16 ≤ data.length)
    (h : Golib.Gen.Trans.C08.pkcs7UnPadding data eq = .ok (n, GoSem.Err.nil)) :
    0 ≤ n ∧ n < data.length ∧ (data.length : Int) - n ≤ 16 :=
  trans_pkcs7UnPadding_range data eq n hlen h

/-- Non-vacuity: `A 02 02` un-pads to length 1 (the hypotheses of the tie hold with
`eq = padEq … = true`); a wrong tail gives the padding-bytes error; last byte 17 and 0 give the
padding-length error whatever `eq` is; the empty input panics. -/
example :
    padEq (absBytes [0x41#8, 2#8, 2#8]) 2 = true ∧
    Golib.Gen.Trans.C08.pkcs7UnPadding [0x41#8, 2#8, 2#8] true = .ok (1, GoSem.Err.nil) ∧
    embedUnpad (pkcs7UnPadding (absBytes [0x41#8, 2#8, 2#8])) = .ok (1, GoSem.Err.nil) := by
  refine ⟨?_, ?_, ?_⟩ <;> decide +kernel

example :
    padEq (absBytes [0x41#8, 3#8, 2#8]) 2 = false ∧
    Golib.Gen.Trans.C08.pkcs7UnPadding [0x41#8, 3#8, 2#8] false
      = .ok (0, GoSem.Err.mk "invalid padding bytes" []) ∧
    Golib.Gen.Trans.C08.pkcs7UnPadding [0x41#8, 17#8] true
      = .ok (0, GoSem.Err.mk "invalid padding length" []) ∧
    Golib.Gen.Trans.C08.pkcs7UnPadding [0x41#8, 0#8] true
      = .ok (0, GoSem.Err.mk "invalid padding length" []) ∧
    Golib.Gen.Trans.C08.pkcs7UnPadding [] true = .panic ∧
    embedUnpad (pkcs7UnPadding (absBytes [])) = .panic := by
  refine ⟨?_, ?_, ?_, ?_, ?_, ?_⟩ <;> decide +kernel

end Golib.C08
