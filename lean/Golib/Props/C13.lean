/-
C13 — DList and SList keep exact sequence semantics with stable node handles.
ONLY property theorems and non-vacuity examples live here; helper lemmas are in
`Golib/Proof/C13*.lean`.

Abstraction: `GInv s A` — in memory `s` list `l` (identified with its sentinel) holds exactly
the node sequence `A l`, front to back (ring through the sentinel, `prev` inverse of `next`,
owner pointers, `len`, cleared links of detached nodes).
-/
import Golib.Proof.C13DInv

namespace Golib.C13

/-- Zero-value lists are ready to use: the memory holding `nl` zero-value `DList`s and no node
satisfies the invariant, every list being empty. -/
theorem c13_zero_value (nl : Nat) : GInv (DSt.zero nl) (fun _ => []) := by
  refine ⟨fun l hl => ⟨Or.inl ⟨PM.get_empty _, PM.get_empty _, rfl⟩, by simp, ?_, ?_⟩,
    fun l hl x hx => by simp at hx, Nat.le_refl _, fun n _ _ => ⟨PM.get_empty _, PM.get_empty _⟩,
    fun l _ => PM.get_empty _, fun n r h => ?_, fun n _ => PM.get_empty _⟩
  · intro n; simp [DSt.zero, PM.get_empty]
  · simp [DSt.zero, IM.get_empty]
  · simp [DSt.zero, PM.get_empty] at h

/-- `l.insert(e, at)` — the primitive behind every Push/Insert form — splices the detached node
`e` in right after `at` (the sentinel or a node of `l`), touches no other list, never panics. -/
theorem c13_dlist_prim_insert {s : DSt} {A : Nat → List Nat} {l e a : Nat} {pre post L' : List Nat}
    (h : GInv s A) (hl : l < s.nl) (hr : Ring s.next s.prev (l :: A l))
    (hsplit : l :: A l = pre ++ a :: post) (hL' : l :: L' = pre ++ a :: e :: post)
    (he : Detached s e) :
    ∃ s', s.insert l e (some a) = some s' ∧ GInv s' (upd A l L') ∧
      s'.val = s.val ∧ s'.fresh = s.fresh ∧ s'.nl = s.nl ∧ Ring s'.next s'.prev (l :: L') :=
  insert_spec h hl hr hsplit hL' he

/-- `l.remove(e)` cuts exactly `e` out, leaves it detached with cleared links. -/
theorem c13_dlist_prim_remove {s : DSt} {A : Nat → List Nat} {l e p : Nat} {pre post L' : List Nat}
    (h : GInv s A) (hl : l < s.nl) (hr : Ring s.next s.prev (l :: A l))
    (hsplit : l :: A l = pre ++ p :: e :: post) (hL' : l :: L' = pre ++ p :: post) :
    ∃ s', s.remove l e = some s' ∧ GInv s' (upd A l L') ∧
      s'.val = s.val ∧ s'.fresh = s.fresh ∧ s'.nl = s.nl ∧ Ring s'.next s'.prev (l :: L') ∧
      Detached s' e :=
  remove_spec h hl hr hsplit hL'

/-- `l.move(e, at)` moves `e` right after `at`, keeping every other node in place. -/
theorem c13_dlist_prim_move {s : DSt} {A : Nat → List Nat} {l e p a : Nat}
    {pre post pre2 post2 L' : List Nat}
    (h : GInv s A) (hl : l < s.nl) (hr : Ring s.next s.prev (l :: A l))
    (hsplit : l :: A l = pre ++ p :: e :: post)
    (hsplit2 : pre ++ p :: post = pre2 ++ a :: post2)
    (hL' : l :: L' = pre2 ++ a :: e :: post2) :
    ∃ s', s.move e (some a) = some s' ∧ GInv s' (upd A l L') ∧
      s'.val = s.val ∧ s'.fresh = s.fresh ∧ s'.nl = s.nl ∧ Ring s'.next s'.prev (l :: L') :=
  move_spec h hl hr hsplit hsplit2 hL'

end Golib.C13
