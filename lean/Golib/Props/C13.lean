/-
C13 — DList and SList keep exact sequence semantics with stable node handles.
ONLY property theorems and non-vacuity examples live here; helper lemmas are in
`Golib/Proof/C13*.lean`.

Abstraction: `GInv s A` — in memory `s` (any number of `DList`s sharing one node space) list `l`
(identified with its sentinel) holds exactly the node sequence `A l`, front to back: the
`next`-orbit of the sentinel is `A l` and returns to the sentinel, `prev` is its inverse,
`e.list == l ↔ e ∈ A l`, `l.len = |A l|`, nodes in no list have all links cleared.
Specification = `container/list` written out on `List Nat` (`insBefore`, `insAfter`,
`List.erase`, `::`, `++`).  `upd A l L` replaces the sequence of list `l` only: every theorem
below therefore also says that *all other lists are untouched*.
-/
import Golib.Proof.C13DRefine
import Golib.Proof.C13SRefine
import Golib.Proof.C13SFamily
import Golib.Proof.C13Misuse

namespace Golib.C13

/-- Zero-value lists are ready to use: the memory holding `nl` zero-value `DList`s and no node
satisfies the invariant, every list being empty (and every theorem below applies to it). -/
theorem c13_zero_value (nl : Nat) : GInv (DSt.zero nl) (fun _ => []) := by
  refine ⟨fun l hl => ⟨Or.inl ⟨PM.get_empty _, PM.get_empty _, rfl⟩, by simp, ?_, ?_⟩,
    fun l hl x hx => by simp at hx, Nat.le_refl _, fun n _ _ => ⟨PM.get_empty _, PM.get_empty _⟩,
    fun l _ => PM.get_empty _, fun n r h => ?_, fun n _ => PM.get_empty _⟩
  · intro n; simp [DSt.zero, PM.get_empty]
  · simp [DSt.zero, IM.get_empty]
  · simp [DSt.zero, PM.get_empty] at h

/-- The three splice primitives (`insert`, `remove`, `move`: the coded pointer writes in the
coded order) preserve the invariant and act on the ring as the list-level splice says, wherever
in the ring they are applied; they never dereference nil. -/
theorem c13_dlist_inv {s : DSt} {A : Nat → List Nat} {l : Nat} (h : GInv s A) (hl : l < s.nl)
    (hr : Ring s.next s.prev (l :: A l)) :
    (∀ e a pre post L', l :: A l = pre ++ a :: post → l :: L' = pre ++ a :: e :: post → Detached s e →
      ∃ s', s.insert l e (some a) = some s' ∧ GInv s' (upd A l L')) ∧
    (∀ e p pre post L', l :: A l = pre ++ p :: e :: post → l :: L' = pre ++ p :: post →
      ∃ s', s.remove l e = some s' ∧ GInv s' (upd A l L') ∧ Detached s' e) ∧
    (∀ e p a pre post pre2 post2 L', l :: A l = pre ++ p :: e :: post →
      pre ++ p :: post = pre2 ++ a :: post2 → l :: L' = pre2 ++ a :: e :: post2 →
      ∃ s', s.move e (some a) = some s' ∧ GInv s' (upd A l L')) := by
  refine ⟨fun e a pre post L' h1 h2 he => ?_, fun e p pre post L' h1 h2 => ?_,
    fun e p a pre post pre2 post2 L' h1 h2 h3 => ?_⟩
  · obtain ⟨s', r1, r2, _⟩ := insert_spec h hl hr h1 h2 he; exact ⟨s', r1, r2⟩
  · obtain ⟨s', r1, r2, _, _, _, _, r7⟩ := remove_spec h hl hr h1 h2; exact ⟨s', r1, r2, r7⟩
  · obtain ⟨s', r1, r2, _⟩ := move_spec h hl hr h1 h2 h3; exact ⟨s', r1, r2⟩

/-- Value-inserting methods (zero-value receiver included, via `lazyInit`): the new node gets
the next id, `PushFront`/`PushBack` put it first/last, `InsertBefore`/`InsertAfter` put it next
to `mark` — or return nil and change nothing when `mark` is not (or no longer) a node of `l`. -/
theorem c13_dlist_refines_insert {s : DSt} {A : Nat → List Nat} {l : Nat} (v : Int)
    (h : GInv s A) (hl : l < s.nl) :
    (∃ s', s.pushFront l v = some (s', s.fresh) ∧ GInv s' (upd A l (s.fresh :: A l)) ∧
      s'.val.get s.fresh = v) ∧
    (∃ s', s.pushBack l v = some (s', s.fresh) ∧ GInv s' (upd A l (A l ++ [s.fresh])) ∧
      s'.val.get s.fresh = v) ∧
    (∀ mark, (mark ∉ A l → s.insertBefore l v mark = some (s, none)) ∧
      (mark ∈ A l → ∃ s', s.insertBefore l v mark = some (s', some s.fresh) ∧
        GInv s' (upd A l (insBefore s.fresh mark (A l))) ∧ s'.val.get s.fresh = v)) ∧
    (∀ mark, (mark ∉ A l → s.insertAfter l v mark = some (s, none)) ∧
      (mark ∈ A l → ∃ s', s.insertAfter l v mark = some (s', some s.fresh) ∧
        GInv s' (upd A l (insAfter s.fresh mark (A l))) ∧ s'.val.get s.fresh = v)) := by
  refine ⟨?_, ?_, fun mark => ⟨(insertBefore_spec v mark h hl).1, fun hm => ?_⟩,
    fun mark => ⟨(insertAfter_spec v mark h hl).1, fun hm => ?_⟩⟩
  · obtain ⟨s', r1, r2, _, _, r5⟩ := pushFront_spec v h hl
    exact ⟨s', r1, r2, by rw [r5]; simp [IM.get_set]⟩
  · obtain ⟨s', r1, r2, _, _, r5⟩ := pushBack_spec v h hl
    exact ⟨s', r1, r2, by rw [r5]; simp [IM.get_set]⟩
  · obtain ⟨s', r1, r2, _, _, r5⟩ := (insertBefore_spec v mark h hl).2 hm
    exact ⟨s', r1, r2, by rw [r5]; simp [IM.get_set]⟩
  · obtain ⟨s', r1, r2, _, _, r5⟩ := (insertAfter_spec v mark h hl).2 hm
    exact ⟨s', r1, r2, by rw [r5]; simp [IM.get_set]⟩

/-- Node-inserting forms, given a detached node (fresh, or removed earlier from any list). -/
theorem c13_dlist_refines_insert_node {s : DSt} {A : Nat → List Nat} {l e : Nat}
    (h : GInv s A) (hl : l < s.nl) (he : Detached s e) :
    (∃ s', s.pushFrontNode l e = some s' ∧ GInv s' (upd A l (e :: A l)) ∧ s'.val = s.val) ∧
    (∃ s', s.pushBackNode l e = some s' ∧ GInv s' (upd A l (A l ++ [e])) ∧ s'.val = s.val) ∧
    (∀ mark, (mark ∉ A l → s.insertNodeBefore l e mark = some s) ∧
      (mark ∈ A l → ∃ s', s.insertNodeBefore l e mark = some s' ∧
        GInv s' (upd A l (insBefore e mark (A l))) ∧ s'.val = s.val)) ∧
    (∀ mark, (mark ∉ A l → s.insertNodeAfter l e mark = some s) ∧
      (mark ∈ A l → ∃ s', s.insertNodeAfter l e mark = some s' ∧
        GInv s' (upd A l (insAfter e mark (A l))) ∧ s'.val = s.val)) := by
  refine ⟨?_, ?_, fun mark => ⟨(insertNodeBefore_spec mark h hl he).1, fun hm => ?_⟩,
    fun mark => ⟨(insertNodeAfter_spec mark h hl he).1, fun hm => ?_⟩⟩
  · obtain ⟨s', r1, r2, r3, _⟩ := pushFrontNode_spec h hl he; exact ⟨s', r1, r2, r3⟩
  · obtain ⟨s', r1, r2, r3, _⟩ := pushBackNode_spec h hl he; exact ⟨s', r1, r2, r3⟩
  · obtain ⟨s', r1, r2, r3, _⟩ := (insertNodeBefore_spec mark h hl he).2 hm; exact ⟨s', r1, r2, r3⟩
  · obtain ⟨s', r1, r2, r3, _⟩ := (insertNodeAfter_spec mark h hl he).2 hm; exact ⟨s', r1, r2, r3⟩

/-- `Remove(e)`: removes exactly `e` if it is a node of `l` (leaving it detached, links cleared),
is a no-op for a node that is not (or no longer) in `l` — e.g. a second `Remove`, or a node of
another list; always returns `e.Value`. -/
theorem c13_dlist_refines_remove {s : DSt} {A : Nat → List Nat} {l : Nat} (e : Nat)
    (h : GInv s A) (hl : l < s.nl) :
    (e ∉ A l → s.removeNode l e = some (s, s.val.get e)) ∧
    (e ∈ A l → ∃ s', s.removeNode l e = some (s', s.val.get e) ∧
      GInv s' (upd A l ((A l).erase e)) ∧ s'.val = s.val ∧ Detached s' e ∧
      s'.removeNode l e = some (s', s.val.get e)) := by
  refine ⟨(removeNode_spec e h hl).1, fun hm => ?_⟩
  obtain ⟨s', r1, r2, r3, r4, r5, r6⟩ := (removeNode_spec e h hl).2 hm
  refine ⟨s', r1, r2, r5, r6, ?_⟩
  -- the handle is stale now: removing again changes nothing
  have hl' : l < s'.nl := by rw [r4]; exact hl
  have hnot : e ∉ upd A l ((A l).erase e) l := by
    simp only [upd_same]
    exact fun hh => (List.Nodup.mem_erase_iff (h.lists l hl).nodup.of_cons).1 hh |>.1 rfl
  have := (removeNode_spec e r2 hl').1 hnot
  rw [this, r5]

/-- `MoveToFront` and `MoveAfter` (all guards: node or mark not in `l`, `e == mark`, already in
place are no-ops). -/
theorem c13_dlist_refines_move {s : DSt} {A : Nat → List Nat} {l : Nat} (e : Nat)
    (h : GInv s A) (hl : l < s.nl) :
    (e ∉ A l → s.moveToFront l e = some s) ∧
    (e ∈ A l → ∃ s', s.moveToFront l e = some s' ∧ GInv s' (upd A l (e :: (A l).erase e)) ∧
      s'.val = s.val) ∧
    (∀ mark, ((e ∉ A l ∨ e = mark ∨ mark ∉ A l) → s.moveAfter l e mark = some s) ∧
      (e ∈ A l → e ≠ mark → mark ∈ A l → ∃ s', s.moveAfter l e mark = some s' ∧
        GInv s' (upd A l (insAfter e mark ((A l).erase e))) ∧ s'.val = s.val)) := by
  refine ⟨(moveToFront_spec e h hl).1, fun hm => ?_, fun mark => ⟨(moveAfter_spec e mark h hl).1,
    fun he hne hm => ?_⟩⟩
  · obtain ⟨s', r1, r2, r3, _⟩ := (moveToFront_spec e h hl).2 hm; exact ⟨s', r1, r2, r3⟩
  · obtain ⟨s', r1, r2, r3, _⟩ := (moveAfter_spec e mark h hl).2 he hne hm; exact ⟨s', r1, r2, r3⟩

/-- `MoveToBack` and `MoveBefore` (all guards: node or mark not in `l`, `e == mark`, already in
place — `MoveBefore(e, mark)` with `e` right before `mark` runs `move(e, e)` — are no-ops). -/
theorem c13_dlist_refines_move_back {s : DSt} {A : Nat → List Nat} {l : Nat} (e : Nat)
    (h : GInv s A) (hl : l < s.nl) :
    (e ∉ A l → s.moveToBack l e = some s) ∧
    (e ∈ A l → ∃ s', s.moveToBack l e = some s' ∧ GInv s' (upd A l ((A l).erase e ++ [e])) ∧
      s'.val = s.val) ∧
    (∀ mark, ((e ∉ A l ∨ e = mark ∨ mark ∉ A l) → s.moveBefore l e mark = some s) ∧
      (e ∈ A l → e ≠ mark → mark ∈ A l → ∃ s', s.moveBefore l e mark = some s' ∧
        GInv s' (upd A l (insBefore e mark ((A l).erase e))) ∧ s'.val = s.val)) := by
  refine ⟨(moveToBack_spec e h hl).1, fun hm => ?_, fun mark => ⟨(moveBefore_spec e mark h hl).1,
    fun he hne hm => ?_⟩⟩
  · obtain ⟨s', r1, r2, r3, _⟩ := (moveToBack_spec e h hl).2 hm; exact ⟨s', r1, r2, r3⟩
  · obtain ⟨s', r1, r2, r3, _⟩ := (moveBefore_spec e mark h hl).2 he hne hm; exact ⟨s', r1, r2, r3⟩

/-- `PushBackDList(other)` / `PushFrontDList(other)`, **including `other == l`** (a list copied
onto itself): `|other|` new nodes with the ids `fresh, fresh+1, …` in allocation order are
appended (prepended, in reverse allocation order) to `l`, carrying the values of `other` *as it
was at the call*, front to back; no existing node moves or changes value; no panic. -/
theorem c13_dlist_refines_copy {s : DSt} {A : Nat → List Nat} {l o : Nat}
    (h : GInv s A) (hl : l < s.nl) (ho : o < s.nl) :
    (∃ s', s.pushBackDList l o = some s' ∧
      GInv s' (upd A l (A l ++ List.range' s.fresh (A o).length)) ∧
      s'.fresh = s.fresh + (A o).length ∧
      ∀ n, s'.val.get n = copyVal s.val.get s.fresh (A o) n) ∧
    (∃ s', s.pushFrontDList l o = some s' ∧
      GInv s' (upd A l ((List.range' s.fresh (A o).length).reverse ++ A l)) ∧
      s'.fresh = s.fresh + (A o).length ∧
      ∀ n, s'.val.get n = copyVal s.val.get s.fresh (A o).reverse n) := by
  constructor
  · obtain ⟨s', r1, r2, r3, _, r5⟩ := pushBackDList_spec h hl ho; exact ⟨s', r1, r2, r3, r5⟩
  · obtain ⟨s', r1, r2, r3, _, r5⟩ := pushFrontDList_spec h hl ho; exact ⟨s', r1, r2, r3, r5⟩

/-- **DList refinement over arbitrary histories.**  `ASt` is `container/list` written out on
sequences of node ids (`ASt.apply`: `::`, `++`, `insBefore`, `insAfter`, `List.erase`,
`List.range'` for the copies, `succOf` for `Next`/`Prev`), for a family of `nl` lists sharing one
node space; `DSt.apply` runs the statement-by-statement model of `doubly_list.go`.

1. The memory of `nl` zero-value lists is related to `nl` empty sequences.
2. From related states, every list of calls `ops` that is allowed (`OpsOk`: receivers are lists
   of the family, the four node-inserting forms get a detached node, `Init` only on an empty
   list; **node handles of every other call are arbitrary** — live, removed earlier, owned by
   another list) runs without panic in the model, returns call by call exactly the results of
   the specification, and ends in related states.  In particular calls given a node that is
   not (or no longer) in the list are no-ops because the specification says so.
3. In related states `Front/Next…` and `Back/Prev…` read exactly the sequence and its reverse.
4. Handles stay valid across unrelated operations: the specification never renames a node, a
   call changes no list other than its receiver and no value of an existing node (except
   `e.Value = v` through the handle, which changes that one value and no list). -/
theorem c13_dlist_refines :
    (∀ nl, Abs (DSt.zero nl) (ASt.zero nl)) ∧
    (∀ (s : DSt) (a : ASt), Abs s a → ∀ ops : List DOp, OpsOk a ops →
      ∃ s', s.run ops = some (s', (a.run ops).2) ∧ Abs s' (a.run ops).1) ∧
    (∀ (s : DSt) (a : ASt), Abs s a → ∀ l, l < a.nl → ∀ fuel, (a.seq l).length < fuel →
      s.forward l fuel = (a.seq l, true) ∧ s.backward l fuel = ((a.seq l).reverse, true)) ∧
    (∀ (a : ASt) (op : DOp),
      (∀ k, op.receiver ≠ some k → (a.apply op).1.seq k = a.seq k) ∧
      (∀ n, n < a.fresh → (∀ v, op ≠ .setValue n v) → (a.apply op).1.val n = a.val n) ∧
      a.fresh ≤ (a.apply op).1.fresh ∧ (a.apply op).1.nl = a.nl) := by
  refine ⟨fun nl => ⟨c13_zero_value nl, fun n => by simp [DSt.zero, ASt.zero, IM.get_empty], rfl, rfl⟩,
    fun s a h ops hok => run_refines h ops hok, fun s a h l hl fuel hf => ?_, spec_frame⟩
  have hl' : l < s.nl := by rw [h.nl]; exact hl
  exact ⟨forward_spec h.inv hl' fuel hf, backward_spec h.inv hl' fuel hf⟩

/-- Non-vacuity of `c13_dlist_refines`: a history on two zero-value lists with a stale handle
(`Remove` twice), a foreign handle (`MoveToBack` of a node of the other list), a detached node
re-inserted, and a list copied onto itself is allowed, and the specification computes the
expected sequences (so by the theorem the model does, too). -/
example : ∃ ops : List DOp,
    OpsOk (ASt.zero 2) ops ∧ ((ASt.zero 2).run ops).1.seq 1 = [4, 2, 5, 6] ∧
      ((ASt.zero 2).run ops).1.seq 0 = [10, 9, 8, 7, 3] ∧
      ((ASt.zero 2).run ops).1.val 10 = 9 ∧ ((ASt.zero 2).run ops).1.val 7 = 7 :=
  ⟨[.pushBack 0 7, .pushBack 0 8, .pushFront 1 9, .remove 0 2, .remove 0 2, .moveToBack 0 4,
    .pushFrontNode 1 2, .moveBefore 1 4 2, .pushBackDList 1 1, .pushFrontDList 0 1], by decide⟩

/-- Observers: `Len`, `Front`, `Back` and both traversals (`Front`/`Next…` and `Back`/`Prev…`)
read exactly the abstract sequence; forward and backward traversals agree. -/
theorem c13_dlist_refines_traversal {s : DSt} {A : Nat → List Nat} {l : Nat} (h : GInv s A)
    (hl : l < s.nl) (fuel : Nat) (hf : (A l).length < fuel) :
    s.lenOf l = (A l).length ∧ s.front l = (A l).head? ∧ s.back l = (A l).getLast? ∧
    s.forward l fuel = (A l, true) ∧ s.backward l fuel = ((A l).reverse, true) ∧
    (s.backward l fuel).1 = (s.forward l fuel).1.reverse := by
  have f := front_spec h hl
  refine ⟨f.2.2, f.1, f.2.1, forward_spec h hl fuel hf, backward_spec h hl fuel hf, ?_⟩
  rw [forward_spec h hl fuel hf, backward_spec h hl fuel hf]

/-- `SList`: `SInv s L` — `next` from `head` visits exactly `L` and ends in nil, `tail` is the last
node reachable from `head`, `len` is the chain length.  The zero value satisfies it with `[]`,
and the front/back operations preserve it, acting on `L` as a sequence
(`PushFrontNode` ↦ `e :: L`, `PushBackNode` ↦ `L ++ [e]`, `RemoveFront` ↦ tail, returning the
head with its `next` cleared; on the empty list `RemoveFront` returns nil and changes nothing). -/
theorem c13_slist_inv :
    SInv SSt.zero [] ∧
    (∀ (s : SSt) (L : List Nat) (e : Nat), SInv s L → e ∉ L → SInv (s.pushFrontNode e) (e :: L)) ∧
    (∀ (s : SSt) (L : List Nat) (e : Nat), SInv s L → e ∉ L → s.next.get e = none →
      ∃ s', s.pushBackNode e = some s' ∧ SInv s' (L ++ [e])) ∧
    (∀ (s : SSt) (L : List Nat), SInv s L →
      (L = [] → s.removeFront = some (s, none)) ∧
      (∀ x xs, L = x :: xs → ∃ s', s.removeFront = some (s', some x) ∧ SInv s' xs ∧
        s'.next.get x = none)) := by
  refine ⟨sinv_zero, fun s L e h he => pushFrontNode_sinv e h he, fun s L e h he hn => ?_,
    fun s L h => ⟨(removeFront_sinv h).1, fun x xs hL => ?_⟩⟩
  · obtain ⟨s', r1, r2, _⟩ := pushBackNode_sinv e h he hn; exact ⟨s', r1, r2⟩
  · obtain ⟨s', r1, r2, r3, _⟩ := (removeFront_sinv h).2 x xs hL; exact ⟨s', r1, r2, r3⟩

/-- `Get(i)` returns the `i`-th node for `0 ≤ i < Len()` and nil for every other index
(never panics); `Front`, `Back`, `Len` are `head`, `tail`, `len` of the invariant.
(Formerly `c13_slist_refines_partial`; subsumed by `c13_slist_refines` below.) -/
theorem c13_slist_refines_get (s : SSt) (L : List Nat) (h : SInv s L) (i : Int) :
    s.getAt i = some (if 0 ≤ i ∧ i < L.length then L[i.toNat]? else none) ∧
    s.head = L.head? ∧ s.tail = L.getLast? ∧ s.len = L.length := by
  refine ⟨getAt_sinv h i, ?_, h.tail, h.len⟩
  have := h.chain
  cases L with
  | nil => simpa [ChainTo] using this
  | cons x xs => simp only [ChainTo] at this; simp [this.1]

/-- The index operations one by one, on any list satisfying the invariant, **for every integer
index**: `Remove(i)` out of range returns nil and changes nothing, in range it unlinks exactly
the `i`-th node (`P ++ x :: Q ↦ P ++ Q`, whether `x` is the head, the tail, both or neither),
returns it with `next` cleared; `InsertNodeAt(i, e)` puts `e` at index `i` clamped to
`0 … Len()`; `Swap(i, j)` out of range or with `i = j` changes nothing, otherwise exchanges the
two values and no link.  None of them panics, the `Swap` walk terminates. -/
theorem c13_slist_index_ops {s : SSt} {L : List Nat} (h : SInv s L) :
    (∀ i : Int, ¬ (0 ≤ i ∧ i < (L.length : Int)) → s.removeAt i = some (s, none)) ∧
    (∀ P x Q, L = P ++ x :: Q → ∃ s', s.removeAt (P.length : Int) = some (s', some x) ∧
      SInv s' (P ++ Q) ∧ s'.next.get x = none ∧ s'.val = s.val) ∧
    (∀ (i : Int) (e : Nat), e ∉ L → s.next.get e = none →
      ∃ s', s.insertNodeAt i e = some s' ∧ SInv s' (insAt i e L) ∧ s'.val = s.val) ∧
    (∀ i j : Int, ¬ ((0 ≤ i ∧ i < (L.length : Int)) ∧ (0 ≤ j ∧ j < (L.length : Int)) ∧ i ≠ j) →
      s.swap i j = some s) ∧
    (∀ (i j : Nat) (hi : i < L.length) (hj : j < L.length), i ≠ j →
      ∃ s', s.swap i j = some s' ∧ SInv s' L ∧ s'.next = s.next ∧
        s'.val = (s.val.set L[i] (s.val.get L[j])).set L[j] (s.val.get L[i])) := by
  refine ⟨fun i hr => removeAt_out h i hr, fun P x Q hL => ?_, fun i e he hnil => ?_,
    fun i j hr => swap_out h i j hr, fun i j hi hj hij => ?_⟩
  · subst hL
    obtain ⟨s', r1, r2, r3, _, r5, _⟩ := removeAt_in h _ rfl
    exact ⟨s', r1, r2, r3, r5⟩
  · obtain ⟨s', r1, r2, r3, _⟩ := insertNodeAt_sinv i e h he hnil
    exact ⟨s', r1, r2, r3⟩
  · obtain ⟨s', r1, r2, r3, _, r5⟩ := swap_in h i j hij hi hj
    exact ⟨s', r1, r2, r3, r5⟩

/-- **SList refinement over arbitrary histories.**  `SA` is the sequence semantics on a
`List Id` + value map (`SA.apply`: `List.eraseIdx`, `insAt` = `take ++ e :: drop` with the index
clamped, `swapVals`, `::`, `++`, `tail`, `[i]?`); `SSt.apply` runs the statement-by-statement
model of `singly_list.go`.  `SAbs` is the invariant of the property: `Next`-traversal from
`head` = the sequence (ending in nil), `tail` = last node reachable from `head`, `len` = chain
length, duplicate-free, nodes outside the list have `next == nil`.

1. The zero value (`NewSingly()`) is related to the empty sequence.
2. From related states, every list of calls (`Get`, `Remove`, `RemoveFront`, `PushFront`,
   `PushBack`, `InsertAt`, the three `…Node` forms for nodes not in the list, `Swap`, `Len`,
   `Front`, `Back`, `Next`) **with arbitrary integer indices** runs without panic, returns call
   by call the results of the specification (out-of-range `Get`/`Remove` ↦ nil, `Swap` ↦ no-op,
   `InsertAt` clamped) and ends in related states.
3. In related states `Front`, `Back`, `Len` and the `Front/Next…` traversal are consistent with
   the sequence.
4. The clamping of `insAt` spelled out. -/
theorem c13_slist_refines :
    SAbs SSt.zero SA.zero ∧
    (∀ (s : SSt) (a : SA), SAbs s a → ∀ ops : List SOp, SOpsOk a ops →
      ∃ s', s.run ops = some (s', (a.run ops).2) ∧ SAbs s' (a.run ops).1) ∧
    (∀ (s : SSt) (a : SA), SAbs s a →
      s.head = a.seq.head? ∧ s.tail = a.seq.getLast? ∧ s.len = a.seq.length ∧
      ∀ fuel, a.seq.length < fuel → walk (fun e => s.next.get e) fuel s.head = (a.seq, true)) ∧
    (∀ (i : Int) (e : Nat) (L : List Nat),
      (i ≤ 0 → insAt i e L = e :: L) ∧ ((L.length : Int) ≤ i → insAt i e L = L ++ [e]) ∧
      (insAt i e L).length = L.length + 1 ∧
      (0 ≤ i → i ≤ (L.length : Int) → (insAt i e L)[i.toNat]? = some e)) := by
  refine ⟨sabs_zero, fun s a h ops hok => srun_refines h ops hok, fun s a h => ?_, insAt_clamp⟩
  exact ⟨chainTo_head h.inv.chain, h.inv.tail, h.inv.len,
    fun fuel hf => swalk_spec a.seq s.head fuel h.inv.chain hf⟩

/-- Non-vacuity of `c13_slist_refines`: a history with out-of-range and negative indices, a
head removal, a re-inserted removed node and a swap is allowed and the specification computes
the expected sequence and values. -/
example : ∃ ops : List SOp,
    SOpsOk SA.zero ops ∧ (SA.zero.run ops).1.seq = [0, 3, 1, 2] ∧
      (List.range 4).map (SA.zero.run ops).1.val = [3, 2, 1, 9] :=
  ⟨[.pushBack 1, .pushBack 2, .pushBack 3, .insertAt 1 9, .swap 0 3, .remove 1, .remove 7,
    .removeFront, .pushFrontNode 3, .insertNodeAt (-2) 0, .get 2, .next 1], by decide⟩

/-- **iter.go: ranging while the loop body mutates the list.**  `DSt.rangeAll` / `SSt.rangeAll`
model `for v := range l.All() { body }` (= `for e := l.Front(); e != nil; e = e.Next() { body }`,
the code of `All`): value read, body run — arbitrary calls through handles (indices) the caller
holds, or `break` — and `Next` evaluated AFTER the body.  `ASt.rangeAll` / `SA.rangeAll` is the
idiomatic `container/list` loop on the specification.  From related states both yield the same
(node, value) sequence, never panic, and end in related states: removing the current node ends
the loop, removing its successor skips it, a node inserted after the current one is visited. -/
theorem c13_all_loop :
    (∀ (body : Nat → List DOp) (stop : Nat → Bool) (f i : Nat) (p : Ptr) (s : DSt) (a : ASt)
        (acc : List (Nat × Int)), Abs s a → RangeOk body stop f i p a →
      ∃ s', DSt.rangeAll body stop f i p s acc =
          some (s', (ASt.rangeAll body stop f i p a acc).2.1, (ASt.rangeAll body stop f i p a acc).2.2) ∧
        Abs s' (ASt.rangeAll body stop f i p a acc).1) ∧
    (∀ (body : Nat → List SOp) (stop : Nat → Bool) (f i : Nat) (p : Ptr) (s : SSt) (a : SA)
        (acc : List (Nat × Int)), SAbs s a → SRangeOk body stop f i p a →
      ∃ s', SSt.rangeAll body stop f i p s acc =
          some (s', (SA.rangeAll body stop f i p a acc).2.1, (SA.rangeAll body stop f i p a acc).2.2) ∧
        SAbs s' (SA.rangeAll body stop f i p a acc).1) ∧
    -- a family of SLists: the body may call the API on ANY list of the family (DList bodies already
    -- can: every `DOp` names its list)
    (∀ (body : Nat → List (Nat × SOp)) (stop : Nat → Bool) (f i : Nat) (p : Ptr) (F : SFam) (a : FA)
        (acc : List (Nat × Int)), FAbs F a → FRangeOk body stop f i p a →
      ∃ F', SFam.rangeAll body stop f i p F acc =
          some (F', (FA.rangeAll body stop f i p a acc).2.1, (FA.rangeAll body stop f i p a acc).2.2) ∧
        FAbs F' (FA.rangeAll body stop f i p a acc).1) :=
  ⟨range_refines, srange_refines, frange_refines⟩

/-- Non-vacuity of `c13_all_loop`: on the list with values 1 … 5 (nodes 1 … 5 of list 0), removing
the successor (node 2) in the first iteration yields 1 3 4 5; removing the current node yields
1 only; inserting after the current node visits the new node. -/
example :
    let a : ASt := ((ASt.zero 1).run [.pushBack 0 1, .pushBack 0 2, .pushBack 0 3, .pushBack 0 4,
      .pushBack 0 5]).1
    ((ASt.rangeAll (fun i => if i = 0 then [.remove 0 2] else []) (fun _ => false) 100 0
        (a.seq 0).head? a []).2.1.map (·.2) = [1, 3, 4, 5]) ∧
    ((ASt.rangeAll (fun i => if i = 0 then [.remove 0 1] else []) (fun _ => false) 100 0
        (a.seq 0).head? a []).2.1.map (·.2) = [1]) ∧
    ((ASt.rangeAll (fun i => if i = 1 then [.insertAfter 0 9 2] else []) (fun _ => false) 100 0
        (a.seq 0).head? a []).2.1.map (·.2) = [1, 2, 9, 3, 4, 5]) := by
  decide

/-- Loop bodies acting on the OTHER list: ranging over DList 0 = [1 2 3] while the body moves
node 6 of list 1 and removes node 5 of list 1 does not disturb the loop; ranging over SList 0 =
[1 2 3] while the body removes the current node and re-links it into SList 1 ends the loop on
list 0 after one value and list 1 holds the node. -/
example :
    (let a : ASt := ((ASt.zero 2).run [.pushBack 0 1, .pushBack 0 2, .pushBack 0 3, .pushBack 1 8,
        .pushBack 1 9]).1
      let r := ASt.rangeAll (fun i => if i = 0 then [.moveToFront 1 6, .remove 1 5] else [])
        (fun _ => false) 100 0 (a.seq 0).head? a []
      r.2.1.map (·.2) = [1, 2, 3] ∧ r.1.seq 1 = [6]) ∧
    (let a : FA := ((FA.zero 2).run [(0, .pushBack 1), (0, .pushBack 2), (0, .pushBack 3)]).1
      let r := FA.rangeAll (fun i => if i = 0 then [(0, .remove 0), (1, .pushBackNode 0)] else [])
        (fun _ => false) 100 0 (a.seq 0).head? a []
      r.2.1.map (·.2) = [1] ∧ r.1.seq 0 = [1, 2] ∧ r.1.seq 1 = [0]) := by
  decide

/-- **A family of `SList`s over one node store** (what the `flip` / re-link histories of the
harness run: the driver executes `SFam.apply` on the list in focus).  `FAbs`: every list satisfies
the `SList` invariant on its own sequence (`Next`-traversal = sequence, `tail` = last node, `len`),
no node is in two lists, nodes outside EVERY list have `next == nil`.

1. The family of zero-value lists is related to empty sequences.
2. From related states every history of calls `(k, op)` on any lists of the family — arbitrary
   integer indices; node forms given a node that is in no list — runs without panic, returns the
   results of the sequence semantics, and ends in related states.
3. Frame: a call on list `k` changes no other sequence.
4. A node returned by ANY removing call (`Remove(i)`, `RemoveFront`) on any list is detached: it
   may be handed to every node form (`PushFrontNode`, `PushBackNode`, `InsertNodeAt i`) of EVERY
   list of the family, i.e. that call is allowed (`FOk`) in the resulting state. -/
theorem c13_slist_family_refines :
    (∀ nl, FAbs SFam.zero (FA.zero nl)) ∧
    (∀ (F : SFam) (a : FA), FAbs F a → ∀ ops : List (Nat × SOp), FOpsOk a ops →
      ∃ F', F.run ops = some (F', (a.run ops).2) ∧ FAbs F' (a.run ops).1) ∧
    (∀ (a : FA) (k j : Nat) (op : SOp), j ≠ k → (a.apply k op).1.seq j = a.seq j) ∧
    (∀ (F : SFam) (a : FA) (k : Nat) (op : SOp) (x : Nat), FAbs F a → k < a.nl →
      (op = .removeFront ∨ ∃ i, op = .remove i) → (a.apply k op).2 = .ptr (some x) →
      ∀ j i', j < a.nl → FOk (a.apply k op).1 j (.pushFrontNode x) ∧
        FOk (a.apply k op).1 j (.pushBackNode x) ∧ FOk (a.apply k op).1 j (.insertNodeAt i' x)) := by
  refine ⟨fabs_zero, fun F a h ops hok => frun_refines h ops hok, fa_frame, ?_⟩
  intro F a k op x h hk hop hres j i'
  -- the returned node was in list `k`, and is in no list afterwards
  have hkok : FOk a k op := by rcases hop with rfl | ⟨i, rfl⟩ <;> exact hk
  obtain ⟨F', _, h'⟩ := fapply_refines h op hkok
  have hnd := (h.lists k hk).nodup
  have key : x < (a.apply k op).1.fresh ∧ ∀ j, j < (a.apply k op).1.nl → x ∉ (a.apply k op).1.seq j := by
    have hmem : x ∈ a.seq k ∧ x ∉ (a.apply k op).1.seq k ∧ (a.apply k op).1.fresh = a.fresh := by
      rcases hop with rfl | ⟨i, rfl⟩
      · simp only [FA.apply, FA.put, FA.view, SA.apply, upd_same] at hres ⊢
        cases hL : a.seq k with
        | nil => rw [hL] at hres; simp at hres
        | cons y ys =>
          rw [hL] at hres hnd; simp at hres; subst hres
          simp [List.nodup_cons] at hnd; simp [hnd.1]
      · simp only [FA.apply, FA.put, FA.view, SA.apply, upd_same] at hres ⊢
        by_cases hr : 0 ≤ i ∧ i < ((a.seq k).length : Int)
        · simp only [hr, and_self, ↓reduceIte] at hres ⊢
          have hlt : i.toNat < (a.seq k).length := by omega
          rw [List.getElem?_eq_getElem hlt] at hres
          have hx : (a.seq k)[i.toNat] = x := by simpa using hres
          have hs := split_at hlt
          rw [hx] at hs
          refine ⟨by rw [hs]; simp, ?_, trivial⟩
          rw [List.eraseIdx_eq_take_drop_succ]
          rw [hs] at hnd
          simp [List.nodup_append] at hnd ⊢
          grind
        · simp only [hr, ↓reduceIte] at hres; simp at hres
    refine ⟨by rw [hmem.2.2]; exact h.alloc k hk x hmem.1, fun j hj => ?_⟩
    by_cases hjk : j = k
    · subst hjk; exact hmem.2.1
    · rw [fa_frame a k j op hjk]
      exact h.disj k j hk (by rcases hop with rfl | ⟨i, rfl⟩ <;> exact hj) (Ne.symm hjk) x hmem.1
  have hnl : (a.apply k op).1.nl = a.nl := by rcases hop with rfl | ⟨i, rfl⟩ <;> rfl
  simp only [FOk, hnl] at key ⊢
  exact fun hj => ⟨⟨hj, key⟩, ⟨hj, key⟩, ⟨hj, key⟩⟩

/-- Non-vacuity of `c13_slist_family_refines`: nodes returned by `Remove(0)`, `RemoveFront` and
`Remove(i)` of list 0 are re-linked through the three node forms into list 1 and back into list 0;
`Next` follows the node into its new list. -/
example : ∃ ops : List (Nat × SOp),
    FOpsOk (FA.zero 2) ops ∧ ((FA.zero 2).run ops).1.seq 0 = [2] ∧
      ((FA.zero 2).run ops).1.seq 1 = [3, 0, 1] ∧
      ((FA.zero 2).run ops).2.map showRes =
        ["ok", "ok", "ok", "ok", "0", "ok", "1", "ok", "3", "ok", "0", "nil", "ok", "nil"] :=
  ⟨[(0, .pushBack 1), (0, .pushBack 2), (0, .pushBack 3), (0, .pushBack 4), (0, .remove 0),
    (1, .pushBackNode 0), (0, .removeFront), (1, .insertNodeAt 7 1), (0, .remove 1), (1, .pushFrontNode 3),
    (1, .next 3), (1, .next 1), (1, .swap 0 1), (0, .next 2)], by decide⟩

/-- **Struct copies are outside the property — machine-checked.**  `*b = *a` of a NON-EMPTY list
copies the sentinel (`DList`: `root.next`/`root.prev`/`len`; `SList`: `head`/`tail`/`len`) by value
while the nodes stay shared.  In the model the result satisfies the representation invariant for
NO assignment of sequences: the copied `DList`'s ring does not return to its own sentinel
(`first.prev == &a.root`), the two `SList` values claim the same nodes.  So no theorem of this file
applies to a copy, exactly as for a copied `container/list.List`. -/
theorem c13_struct_copy_breaks :
    (∀ (s : DSt) (A : Nat → List Nat) (a b : Nat), GInv s A → a < s.nl → b < s.nl → a ≠ b → A a ≠ [] →
      ¬ ∃ A', GInv (s.copyList a b) A') ∧
    (∀ (F : SFam) (A : FA) (a b : Nat), FAbs F A → a < A.nl → b < A.nl → a ≠ b → A.seq a ≠ [] →
      ¬ ∃ A' : FA, A'.nl = A.nl ∧ FAbs (F.copyList a b) A') :=
  ⟨fun _ _ _ _ h ha hb hab hne => dlist_copy_breaks h ha hb hab hne,
   fun _ _ _ _ h ha hb hab hne => slist_copy_breaks h ha hb hab hne⟩

/-- Non-vacuity of `c13_struct_copy_breaks`: after one `PushBack` on list 0 of two zero-value lists
the hypotheses hold, for `DList` and for `SList`. -/
example : (∃ (s : DSt) (A : Nat → List Nat), GInv s A ∧ 0 < s.nl ∧ 1 < s.nl ∧ A 0 ≠ []) ∧
    (∃ (F : SFam) (A : FA), FAbs F A ∧ 0 < A.nl ∧ 1 < A.nl ∧ A.seq 0 ≠ []) := by
  constructor
  · obtain ⟨s1, _, g1, _, n1, _⟩ := pushBack_spec (l := 0) 7 (c13_zero_value 2) (by decide)
    exact ⟨s1, _, g1, by rw [n1]; decide, by rw [n1]; decide, by simp [upd]⟩
  · obtain ⟨F1, _, h1⟩ := fapply_refines (k := 0) (fabs_zero 2) (.pushBack 7) (by decide)
    exact ⟨F1, _, h1, by decide, by decide, by decide⟩

/-- **Outside the contract — what the code does, machine-checked** (two-or-more-list pointer models).
Guarded calls given a foreign or stale node (`Remove`, `Move*`, `InsertBefore/After`,
`InsertNodeBefore/After` with such a mark) are documented no-ops: that is `c13_dlist_refines`.
Re-inserting a node returned by a removing call is inside the contract (`Detached`,
`c13_dlist_refines` / `c13_slist_family_refines` clause 4).  What remains is misuse, where the
code silently corrupts its lists exactly like hand-relinking a `container/list` element would:

1. `DList`: every node-inserting form given a node that is STILL LINKED in the receiver or in
   another list of the family relinks it without unlinking (`e.list = l`, `l.len++`, the old
   neighbours keep pointing at `e`): afterwards NO assignment of sequences satisfies `GInv`.
2. `DList.Init()` on a non-empty list (its nodes stay owned by a list of `len` 0): same.
3. `SList.PushFrontNode` / `PushBackNode` (hence `InsertNodeAt` with `i ≤ 0` / `i ≥ Len()`) given a
   node still linked in the same or another list of the family: the node is reachable twice (cycle,
   or two lists sharing it): NO assignment satisfies `FAbs`.  (`InsertNodeAt` in the middle with a
   linked node: exercised by the `misuse` stream only.)

So none of the theorems above applies after such a call — the harness exercises these calls in
the stream `misuse` against the Lean model only (both run the same pointer writes). -/
theorem c13_misuse_breaks :
    (∀ (s : DSt) (A : Nat → List Nat) (l k e : Nat), GInv s A → l < s.nl → k < s.nl → e ∈ A k →
      (∀ s', s.pushFrontNode l e = some s' → ¬ ∃ A', GInv s' A') ∧
      (∀ s', s.pushBackNode l e = some s' → ¬ ∃ A', GInv s' A') ∧
      (∀ mark s', mark ∈ A l → s.insertNodeBefore l e mark = some s' → ¬ ∃ A', GInv s' A') ∧
      (∀ mark s', mark ∈ A l → s.insertNodeAfter l e mark = some s' → ¬ ∃ A', GInv s' A')) ∧
    (∀ (s : DSt) (A : Nat → List Nat) (l : Nat), GInv s A → l < s.nl → A l ≠ [] →
      ¬ ∃ A', GInv (s.init l) A') ∧
    (∀ (F : SFam) (a : FA) (l k e : Nat), FAbs F a → l < a.nl → k < a.nl → e ∈ a.seq k →
      (¬ ∃ a' : FA, a'.nl = a.nl ∧ FAbs (F.put l ((F.view l).pushFrontNode e)) a') ∧
      (∀ s1, (F.view l).pushBackNode e = some s1 → ¬ ∃ a' : FA, a'.nl = a.nl ∧ FAbs (F.put l s1) a')) :=
  ⟨fun _ _ _ _ _ h hl hk he => node_forms_linked_break h hl hk he,
   fun _ _ _ h hl hne => init_nonempty_breaks h hl hne,
   fun _ _ _ _ _ h hl hk he => ⟨spushFrontNode_linked_breaks h hl hk he,
     fun _ hp => spushBackNode_linked_breaks h hl hk he hp⟩⟩

/-- Non-vacuity of `c13_misuse_breaks`: a linked node exists (after one `PushBack` on list 0). -/
example : (∃ (s : DSt) (A : Nat → List Nat), GInv s A ∧ 0 < s.nl ∧ 1 < s.nl ∧ 2 ∈ A 0) ∧
    (∃ (F : SFam) (A : FA), FAbs F A ∧ 0 < A.nl ∧ 1 < A.nl ∧ 0 ∈ A.seq 0) := by
  constructor
  · obtain ⟨s1, _, g1, _, n1, _⟩ := pushBack_spec (l := 0) 7 (c13_zero_value 2) (by decide)
    exact ⟨s1, _, g1, by rw [n1]; decide, by rw [n1]; decide, by simp [upd, DSt.zero]⟩
  · obtain ⟨F1, _, h1⟩ := fapply_refines (k := 0) (fabs_zero 2) (.pushBack 7) (by decide)
    exact ⟨F1, _, h1, by decide, by decide, by decide⟩

/-- Non-vacuity: starting from two zero-value lists, `PushBack 7` on list 0, `PushFront 8` on
list 0 and `PushBack 9` on list 1 reach (by the theorems above) a state satisfying the invariant
with sequences `[3, 2]` and `[4]`. -/
example : ∃ s A, GInv s A ∧ A 0 = [3, 2] ∧ A 1 = [4] ∧ s.nl = 2 := by
  have h0 := c13_zero_value 2
  obtain ⟨s1, _, g1, f1, n1, _⟩ := pushBack_spec (l := 0) 7 h0 (by decide)
  obtain ⟨s2, _, g2, f2, n2, _⟩ := pushFront_spec (l := 0) 8 g1 (by rw [n1]; decide)
  obtain ⟨s3, _, g3, f3, n3, _⟩ := pushBack_spec (l := 1) 9 g2 (by rw [n2, n1]; decide)
  refine ⟨s3, _, g3, ?_, ?_, by rw [n3, n2, n1]; rfl⟩
  · simp [upd, f1, DSt.zero]
  · simp [upd, f2, f1, DSt.zero]

end Golib.C13
