/-
C13 — DList and SList keep exact sequence semantics with stable node handles.
ONLY property theorems and non-vacuity examples live here; helper lemmas are in
`Golib/Proof/C13*.lean`.

Abstraction: `GInv s A` — in memory `s` (any number of `DList`s sharing one node space) list `l`
(identified with its sentinel) holds exactly the node sequence `A l`, front to back: the
`next`-orbit of the sentinel is `A l` and returns to the sentinel, `prev` is its inverse,
`e.list == l ↔ e ∈ A l`, `l.len = |A l|`, nodes in no list have all links cleared.
Specification = `container/list` written out on `List Nat` (`insBefore`, `insAfter`,
`List.erase`, `::`, `++`).  `upd A l L` replaces the sequence of list `l` only: every theorem
below therefore also says that *all other lists are untouched*.
-/
import Golib.Proof.C13DWalk
import Golib.Proof.C13SList

namespace Golib.C13

/-- Zero-value lists are ready to use: the memory holding `nl` zero-value `DList`s and no node
satisfies the invariant, every list being empty (and every theorem below applies to it). -/
theorem c13_zero_value (nl : Nat) : GInv (DSt.zero nl) (fun _ => []) := by
  refine ⟨fun l hl => ⟨Or.inl ⟨PM.get_empty _, PM.get_empty _, rfl⟩, by simp, ?_, ?_⟩,
    fun l hl x hx => by simp at hx, Nat.le_refl _, fun n _ _ => ⟨PM.get_empty _, PM.get_empty _⟩,
    fun l _ => PM.get_empty _, fun n r h => ?_, fun n _ => PM.get_empty _⟩
  · intro n; simp [DSt.zero, PM.get_empty]
  · simp [DSt.zero, IM.get_empty]
  · simp [DSt.zero, PM.get_empty] at h

/-- The three splice primitives (`insert`, `remove`, `move`: the coded pointer writes in the
coded order) preserve the invariant and act on the ring as the list-level splice says, wherever
in the ring they are applied; they never dereference nil. -/
theorem c13_dlist_inv {s : DSt} {A : Nat → List Nat} {l : Nat} (h : GInv s A) (hl : l < s.nl)
    (hr : Ring s.next s.prev (l :: A l)) :
    (∀ e a pre post L', l :: A l = pre ++ a :: post → l :: L' = pre ++ a :: e :: post → Detached s e →
      ∃ s', s.insert l e (some a) = some s' ∧ GInv s' (upd A l L')) ∧
    (∀ e p pre post L', l :: A l = pre ++ p :: e :: post → l :: L' = pre ++ p :: post →
      ∃ s', s.remove l e = some s' ∧ GInv s' (upd A l L') ∧ Detached s' e) ∧
    (∀ e p a pre post pre2 post2 L', l :: A l = pre ++ p :: e :: post →
      pre ++ p :: post = pre2 ++ a :: post2 → l :: L' = pre2 ++ a :: e :: post2 →
      ∃ s', s.move e (some a) = some s' ∧ GInv s' (upd A l L')) := by
  refine ⟨fun e a pre post L' h1 h2 he => ?_, fun e p pre post L' h1 h2 => ?_,
    fun e p a pre post pre2 post2 L' h1 h2 h3 => ?_⟩
  · obtain ⟨s', r1, r2, _⟩ := insert_spec h hl hr h1 h2 he; exact ⟨s', r1, r2⟩
  · obtain ⟨s', r1, r2, _, _, _, _, r7⟩ := remove_spec h hl hr h1 h2; exact ⟨s', r1, r2, r7⟩
  · obtain ⟨s', r1, r2, _⟩ := move_spec h hl hr h1 h2 h3; exact ⟨s', r1, r2⟩

/-- Value-inserting methods (zero-value receiver included, via `lazyInit`): the new node gets
the next id, `PushFront`/`PushBack` put it first/last, `InsertBefore`/`InsertAfter` put it next
to `mark` — or return nil and change nothing when `mark` is not (or no longer) a node of `l`. -/
theorem c13_dlist_refines_insert {s : DSt} {A : Nat → List Nat} {l : Nat} (v : Int)
    (h : GInv s A) (hl : l < s.nl) :
    (∃ s', s.pushFront l v = some (s', s.fresh) ∧ GInv s' (upd A l (s.fresh :: A l)) ∧
      s'.val.get s.fresh = v) ∧
    (∃ s', s.pushBack l v = some (s', s.fresh) ∧ GInv s' (upd A l (A l ++ [s.fresh])) ∧
      s'.val.get s.fresh = v) ∧
    (∀ mark, (mark ∉ A l → s.insertBefore l v mark = some (s, none)) ∧
      (mark ∈ A l → ∃ s', s.insertBefore l v mark = some (s', some s.fresh) ∧
        GInv s' (upd A l (insBefore s.fresh mark (A l))) ∧ s'.val.get s.fresh = v)) ∧
    (∀ mark, (mark ∉ A l → s.insertAfter l v mark = some (s, none)) ∧
      (mark ∈ A l → ∃ s', s.insertAfter l v mark = some (s', some s.fresh) ∧
        GInv s' (upd A l (insAfter s.fresh mark (A l))) ∧ s'.val.get s.fresh = v)) := by
  refine ⟨?_, ?_, fun mark => ⟨(insertBefore_spec v mark h hl).1, fun hm => ?_⟩,
    fun mark => ⟨(insertAfter_spec v mark h hl).1, fun hm => ?_⟩⟩
  · obtain ⟨s', r1, r2, _, _, r5⟩ := pushFront_spec v h hl; exact ⟨s', r1, r2, r5⟩
  · obtain ⟨s', r1, r2, _, _, r5⟩ := pushBack_spec v h hl; exact ⟨s', r1, r2, r5⟩
  · obtain ⟨s', r1, r2, _, _, r5⟩ := (insertBefore_spec v mark h hl).2 hm; exact ⟨s', r1, r2, r5⟩
  · obtain ⟨s', r1, r2, _, _, r5⟩ := (insertAfter_spec v mark h hl).2 hm; exact ⟨s', r1, r2, r5⟩

/-- Node-inserting forms, given a detached node (fresh, or removed earlier from any list). -/
theorem c13_dlist_refines_insert_node {s : DSt} {A : Nat → List Nat} {l e : Nat}
    (h : GInv s A) (hl : l < s.nl) (he : Detached s e) :
    (∃ s', s.pushFrontNode l e = some s' ∧ GInv s' (upd A l (e :: A l)) ∧ s'.val = s.val) ∧
    (∃ s', s.pushBackNode l e = some s' ∧ GInv s' (upd A l (A l ++ [e])) ∧ s'.val = s.val) ∧
    (∀ mark, (mark ∉ A l → s.insertNodeBefore l e mark = some s) ∧
      (mark ∈ A l → ∃ s', s.insertNodeBefore l e mark = some s' ∧
        GInv s' (upd A l (insBefore e mark (A l))) ∧ s'.val = s.val)) ∧
    (∀ mark, (mark ∉ A l → s.insertNodeAfter l e mark = some s) ∧
      (mark ∈ A l → ∃ s', s.insertNodeAfter l e mark = some s' ∧
        GInv s' (upd A l (insAfter e mark (A l))) ∧ s'.val = s.val)) := by
  refine ⟨?_, ?_, fun mark => ⟨(insertNodeBefore_spec mark h hl he).1, fun hm => ?_⟩,
    fun mark => ⟨(insertNodeAfter_spec mark h hl he).1, fun hm => ?_⟩⟩
  · obtain ⟨s', r1, r2, r3, _⟩ := pushFrontNode_spec h hl he; exact ⟨s', r1, r2, r3⟩
  · obtain ⟨s', r1, r2, r3, _⟩ := pushBackNode_spec h hl he; exact ⟨s', r1, r2, r3⟩
  · obtain ⟨s', r1, r2, r3, _⟩ := (insertNodeBefore_spec mark h hl he).2 hm; exact ⟨s', r1, r2, r3⟩
  · obtain ⟨s', r1, r2, r3, _⟩ := (insertNodeAfter_spec mark h hl he).2 hm; exact ⟨s', r1, r2, r3⟩

/-- `Remove(e)`: removes exactly `e` if it is a node of `l` (leaving it detached, links cleared),
is a no-op for a node that is not (or no longer) in `l` — e.g. a second `Remove`, or a node of
another list; always returns `e.Value`. -/
theorem c13_dlist_refines_remove {s : DSt} {A : Nat → List Nat} {l : Nat} (e : Nat)
    (h : GInv s A) (hl : l < s.nl) :
    (e ∉ A l → s.removeNode l e = some (s, s.val.get e)) ∧
    (e ∈ A l → ∃ s', s.removeNode l e = some (s', s.val.get e) ∧
      GInv s' (upd A l ((A l).erase e)) ∧ s'.val = s.val ∧ Detached s' e ∧
      s'.removeNode l e = some (s', s.val.get e)) := by
  refine ⟨(removeNode_spec e h hl).1, fun hm => ?_⟩
  obtain ⟨s', r1, r2, r3, r4, r5, r6⟩ := (removeNode_spec e h hl).2 hm
  refine ⟨s', r1, r2, r5, r6, ?_⟩
  -- the handle is stale now: removing again changes nothing
  have hl' : l < s'.nl := by rw [r4]; exact hl
  have hnot : e ∉ upd A l ((A l).erase e) l := by
    simp only [upd_same]
    exact fun hh => (List.Nodup.mem_erase_iff (h.lists l hl).nodup.of_cons).1 hh |>.1 rfl
  have := (removeNode_spec e r2 hl').1 hnot
  rw [this, r5]

/-- `MoveToFront` and `MoveAfter` (all guards: node or mark not in `l`, `e == mark`, already in
place are no-ops). -/
theorem c13_dlist_refines_move {s : DSt} {A : Nat → List Nat} {l : Nat} (e : Nat)
    (h : GInv s A) (hl : l < s.nl) :
    (e ∉ A l → s.moveToFront l e = some s) ∧
    (e ∈ A l → ∃ s', s.moveToFront l e = some s' ∧ GInv s' (upd A l (e :: (A l).erase e)) ∧
      s'.val = s.val) ∧
    (∀ mark, ((e ∉ A l ∨ e = mark ∨ mark ∉ A l) → s.moveAfter l e mark = some s) ∧
      (e ∈ A l → e ≠ mark → mark ∈ A l → ∃ s', s.moveAfter l e mark = some s' ∧
        GInv s' (upd A l (insAfter e mark ((A l).erase e))) ∧ s'.val = s.val)) := by
  refine ⟨(moveToFront_spec e h hl).1, fun hm => ?_, fun mark => ⟨(moveAfter_spec e mark h hl).1,
    fun he hne hm => ?_⟩⟩
  · obtain ⟨s', r1, r2, r3, _⟩ := (moveToFront_spec e h hl).2 hm; exact ⟨s', r1, r2, r3⟩
  · obtain ⟨s', r1, r2, r3, _⟩ := (moveAfter_spec e mark h hl).2 he hne hm; exact ⟨s', r1, r2, r3⟩

/-
Full statement of `c13_dlist_refines` = the five theorems `c13_dlist_refines_*` here plus the
same for `MoveToBack` (`upd A l ((A l).erase e ++ [e])`), `MoveBefore`
(`insBefore e mark ((A l).erase e)`), `PushBackDList(other)` (`A l ++ copies`, the copies
carrying the values of `A other` as it was at the call, also for `other == l`) and
`PushFrontDList`.  Those four are not proved yet: they are covered by the differential check
against `container/list` and the Lean model on every run (incl. lists copied onto themselves);
the primitive `move` they use is covered by `c13_dlist_inv`.
-/

/-- Observers: `Len`, `Front`, `Back` and both traversals (`Front`/`Next…` and `Back`/`Prev…`)
read exactly the abstract sequence; forward and backward traversals agree. -/
theorem c13_dlist_refines_traversal {s : DSt} {A : Nat → List Nat} {l : Nat} (h : GInv s A)
    (hl : l < s.nl) (fuel : Nat) (hf : (A l).length < fuel) :
    s.lenOf l = (A l).length ∧ s.front l = (A l).head? ∧ s.back l = (A l).getLast? ∧
    s.forward l fuel = (A l, true) ∧ s.backward l fuel = ((A l).reverse, true) ∧
    (s.backward l fuel).1 = (s.forward l fuel).1.reverse := by
  have f := front_spec h hl
  refine ⟨f.2.2, f.1, f.2.1, forward_spec h hl fuel hf, backward_spec h hl fuel hf, ?_⟩
  rw [forward_spec h hl fuel hf, backward_spec h hl fuel hf]

/-- `SList`: `SInv s L` — `next` from `head` visits exactly `L` and ends in nil, `tail` is the last
node reachable from `head`, `len` is the chain length.  The zero value satisfies it with `[]`,
and the front/back operations preserve it, acting on `L` as a sequence
(`PushFrontNode` ↦ `e :: L`, `PushBackNode` ↦ `L ++ [e]`, `RemoveFront` ↦ tail, returning the
head with its `next` cleared; on the empty list `RemoveFront` returns nil and changes nothing). -/
theorem c13_slist_inv :
    SInv SSt.zero [] ∧
    (∀ (s : SSt) (L : List Nat) (e : Nat), SInv s L → e ∉ L → SInv (s.pushFrontNode e) (e :: L)) ∧
    (∀ (s : SSt) (L : List Nat) (e : Nat), SInv s L → e ∉ L → s.next.get e = none →
      ∃ s', s.pushBackNode e = some s' ∧ SInv s' (L ++ [e])) ∧
    (∀ (s : SSt) (L : List Nat), SInv s L →
      (L = [] → s.removeFront = some (s, none)) ∧
      (∀ x xs, L = x :: xs → ∃ s', s.removeFront = some (s', some x) ∧ SInv s' xs ∧
        s'.next.get x = none)) := by
  refine ⟨sinv_zero, fun s L e h he => pushFrontNode_sinv e h he, fun s L e h he hn => ?_,
    fun s L h => ⟨(removeFront_sinv h).1, fun x xs hL => ?_⟩⟩
  · obtain ⟨s', r1, r2, _⟩ := pushBackNode_sinv e h he hn; exact ⟨s', r1, r2⟩
  · obtain ⟨s', r1, r2, r3, _⟩ := (removeFront_sinv h).2 x xs hL; exact ⟨s', r1, r2, r3⟩

/-- `Get(i)` returns the `i`-th node for `0 ≤ i < Len()` and nil for every other index
(never panics); `Front`, `Back`, `Len` are `head`, `tail`, `len` of the invariant.
Partial: the full `c13_slist_refines` also states, for `Remove(i)` (`L.eraseIdx i`, head/tail
fix-up, out-of-range ↦ nil/no-op), `InsertNodeAt(i, e)` (clamped: `i ≤ 0` ↦ front, `i ≥ len` ↦
back, else `L.insertIdx i e`) and `Swap(i, j)` (values of positions `i`, `j` exchanged, no-op
out of range or `i = j`), that they preserve `SInv` and act on `L` as said.  These three are
not proved yet; they are covered on every run by the differential check of the real code
against the Lean model and against the sequence oracle (all indices -1 … len+1). -/
theorem c13_slist_refines_partial (s : SSt) (L : List Nat) (h : SInv s L) (i : Int) :
    s.getAt i = some (if 0 ≤ i ∧ i < L.length then L[i.toNat]? else none) ∧
    s.head = L.head? ∧ s.tail = L.getLast? ∧ s.len = L.length := by
  refine ⟨getAt_sinv h i, ?_, h.tail, h.len⟩
  have := h.chain
  cases L with
  | nil => simpa [ChainTo] using this
  | cons x xs => simp only [ChainTo] at this; simp [this.1]

/-- Non-vacuity: starting from two zero-value lists, `PushBack 7` on list 0, `PushFront 8` on
list 0 and `PushBack 9` on list 1 reach (by the theorems above) a state satisfying the invariant
with sequences `[3, 2]` and `[4]`. -/
example : ∃ s A, GInv s A ∧ A 0 = [3, 2] ∧ A 1 = [4] ∧ s.nl = 2 := by
  have h0 := c13_zero_value 2
  obtain ⟨s1, _, g1, f1, n1, _⟩ := pushBack_spec (l := 0) 7 h0 (by decide)
  obtain ⟨s2, _, g2, f2, n2, _⟩ := pushFront_spec (l := 0) 8 g1 (by rw [n1]; decide)
  obtain ⟨s3, _, g3, f3, n3, _⟩ := pushBack_spec (l := 1) 9 g2 (by rw [n2, n1]; decide)
  refine ⟨s3, _, g3, ?_, ?_, by rw [n3, n2, n1]; rfl⟩
  · simp [upd, f2, f1, DSt.zero]
  · simp [upd, f2, f1, DSt.zero]

end Golib.C13
