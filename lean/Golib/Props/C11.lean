/-
C11 — SyncList is a linearizable unbounded FIFO queue with a sane length.
ONLY property theorems and non-vacuity examples live here; helper lemmas are in
`Golib/Proof/C11*.lean`, the model in `Golib/Model/C11List.lean`.

Every theorem quantifies over EVERY schedule `σ : List Nat` (list of thread ids; a thread
id that does not exist or a finished thread is a no-op step), every number of threads,
every program assignment `progs` and every initial content `vals`.  The machine is the
repaired statement order (`Order.addThenStore`, F7); the pre-repair order is refuted in
`Golib/Findings/C11.lean`.
-/
import Golib.Proof.C11Facts
import Golib.Proof.C11Inv
import Golib.Proof.C11Lin

namespace Golib.C11

/-- The model's access order is the source order (regenerated facts, see Proof/C11Facts). -/
theorem c11_source_order :
    soloSrc .addThenStore (init [] [[.push 5]]) 5 = Gen.C11.pushOps.takeWhile (· ≠ .gosched) ∧
    soloSrc .addThenStore (init [9] [[.pop]]) 7 = Gen.C11.popOps ∧
    soloSrc .addThenStore (init [9] [[.len]]) 1 = Gen.C11.lenOps :=
  ⟨facts_push_success_path, facts_pop_success_path, facts_len⟩

/-- `c11_inv`: in every reachable state `head ≤ tail < |chain| ≤ tail + 2` (the tail lags
behind the last linked node by at most one push in progress, the head never passes the
tail), at most one pusher is between its link CAS and its publication, no thread ever
dereferenced nil, and every thread's stale locals are lower bounds (`Inv.locals`). -/
theorem c11_inv (vals : List Int) (progs : List (List Call)) (σ : List Nat) :
    let s := (run .addThenStore (init vals progs) σ).1
    Inv s ∧ s.head ≤ s.tail ∧ s.tail < s.chain.length ∧ s.chain.length ≤ s.tail + 2 ∧
      s.crashed = false := by
  have hI := inv_run (inv_init vals progs) σ
  have h1 := hI.chain_len
  have h2 := hI.one_publisher
  exact ⟨hI, hI.head_le_tail, by omega, by omega, hI.not_crashed⟩

/-- `c11_len`: in every reachable state `Len()` is never negative and never less than
the number of values that can be popped now; when no call is in flight it equals the
number of stored values. -/
theorem c11_len (vals : List Int) (progs : List (List Call)) (σ : List Nat) :
    let s := (run .addThenStore (init vals progs) σ).1
    0 ≤ s.len ∧ ((stored s).length : Int) ≤ s.len ∧
      ((∀ th ∈ s.threads, th.pc = .idle) → s.len = (stored s).length) := by
  have hI := inv_run (inv_init vals progs) σ
  have hl := stored_length hI
  have h1 := hI.len_eq
  have h2 := hI.head_le_tail
  refine ⟨by omega, by omega, ?_⟩
  intro hq
  have e1 := cnt_eq_zero_of_all_idle (p := isPushStore) rfl hq
  have e2 := cnt_eq_zero_of_all_idle (p := isPopPost) rfl hq
  omega

/-- `c11_linearizable`.  The run is instrumented with a ghost FIFO queue `q` that is
updated ONLY at the linearization points — `q ++ [v]` at the publication step of `Push(v)`
(`StorePointer(&l.tail, node)`, which is also the step at which `Push` returns) and `q.tail`
at the successful `CAS(&l.head, …)` of a `Pop` — (clause 1: `gstep_q`), so the sequence of
linearization points is a legal sequential FIFO history by construction and every
linearization point is a step of the operation itself (hence inside its interval:
real-time order).  After EVERY schedule:
 2. the abstract queue is exactly what the list stores: the values a sequence of `Pop`s
    would return now (`stored`), in order — no loss, no duplication, no invention;
 3. a successful head-CAS always finds the abstract queue non-empty and removes the
    value the popped node was created with;
 4. a `Pop` that is about to return `(v, true)` returns exactly the value it removed from
    the abstract queue at its linearization point (`pend`), i.e. exactly-once delivery. -/
theorem c11_linearizable (vals : List Int) (progs : List (List Call)) (σ : List Nat) :
    let sg := lrun (init vals progs) (ginit vals progs) σ
    let s := sg.1
    let g := sg.2
    (∀ i, (gstep s g i).q = g.q ∨
      (∃ th v n, s.threads[i]? = some th ∧ th.pc = .pushStore v n ∧ (gstep s g i).q = g.q ++ [v]) ∨
      (∃ th h n, s.threads[i]? = some th ∧ th.pc = .popCAS h (some n) ∧ s.head = h ∧
        (gstep s g i).q = g.q.tail)) ∧
    s = (run .addThenStore (init vals progs) σ).1 ∧ stored s = g.q ∧
    (∀ (i : Nat) (th : Thread) (h : Nat) (n : Option Nat), s.threads[i]? = some th → th.pc = .popCAS h n → s.head = h →
      ∃ x rest, g.q = x :: rest ∧ g.orig[h + 1]? = some x) ∧
    (∀ (i : Nat) (th : Thread) (v : Int), s.threads[i]? = some th → th.pc = .popAdd v →
      g.pend[i]? = some (some v)) := by
  have hG := ginv_lrun (ginv_init vals progs) σ
  exact ⟨fun i => gstep_q _ _ i, lrun_fst _ _ σ, stored_eq_q hG,
    fun i th h n hth hpc hc => (lin_pop_facts hG hth).1 h n hpc hc,
    fun i th v hth hpc => (lin_pop_facts hG hth).2 v hpc⟩

/-- `c11_false_justified`: a `Pop` that is about to return false because it observed
`head == tail` does so at an instant at which the list is empty (nothing can be popped);
a `Pop` whose head-CAS fails has been overtaken: the head moved since this call loaded it,
which only a successful `Pop` of another thread, overlapping this call, can do. -/
theorem c11_false_justified (vals : List Int) (progs : List (List Call)) (σ : List Nat)
    (i : Nat) (th : Thread) :
    let s := (run .addThenStore (init vals progs) σ).1
    s.threads[i]? = some th →
      (∀ h, th.pc = .popLoadTail h → h = s.tail → stored s = []) ∧
      (∀ h n, th.pc = .popCAS h n → s.head ≠ h → h < s.head) := by
  intro s hth
  have hG := ginv_lrun (ginv_init vals progs) σ
  rw [lrun_fst] at hG
  exact ⟨fun h hpc he => ((false_pop_facts hG hth).1 h hpc he).2, (false_pop_facts hG hth).2⟩

/-- `c11_race_free`: in no reachable state are two different threads both about to make a
plain (non-atomic) access to the `value` of the same node. -/
theorem c11_race_free (vals : List Int) (progs : List (List Call)) (σ : List Nat)
    (i j : Nat) (a b : Thread) (n : Nat) :
    let s := (run .addThenStore (init vals progs) σ).1
    i ≠ j → s.threads[i]? = some a → s.threads[j]? = some b →
      ¬ (plainNode a.pc = some n ∧ plainNode b.pc = some n) := by
  intro s hij hi hj ⟨ha, hb⟩
  have hG := ginv_lrun (ginv_init vals progs) σ
  rw [lrun_fst] at hG
  exact no_conflict hG hij hi hj ha hb

/-- `c11_push_completes_partial`: in every reachable state in which all other threads are
idle, a `Push` at its loop head returns after exactly five of its own steps.
Full statement (DESIGN §5): additionally, under fair scheduling of the single pusher that
is between its link CAS and its publication (`Inv.one_publisher`: there is at most one,
and it needs two more steps), every spinning pusher leaves its `Gosched` loop.  The
fairness clause is not proved here; the harness exercises it (the `drain` line is a
round-robin scheduler and never times out, key `push-stuck`). -/
theorem c11_push_completes_partial (vals : List Int) (progs : List (List Call)) (σ : List Nat)
    (i : Nat) (th : Thread) (v : Int) :
    let s := (run .addThenStore (init vals progs) σ).1
    s.threads[i]? = some th → th.pc = .pushLoadTail v →
      (∀ j b, j ≠ i → s.threads[j]? = some b → b.pc = .idle) →
      (run .addThenStore s [i, i, i, i, i]).2.map (·.ret) = [none, none, none, none, some .push] := by
  intro s hth hpc hidle
  exact push_completes_solo (inv_run (inv_init vals progs) σ) hth hpc hidle

/-- Non-vacuity of the linearizability clauses: a reachable instrumented state with a
non-empty abstract queue, a pop past its linearization point (pending value 4) and a
push whose node is linked but not yet in the abstract queue. -/
example :
    let sg := lrun (init [4, 5] [[.push 7], [.pop]]) (ginit [4, 5] [[.push 7], [.pop]])
      [1, 1, 1, 1, 0, 0, 0, 0]
    sg.2.q = [5] ∧ sg.2.pend = [none, some 4] ∧ sg.2.orig = [0, 4, 5, 7] ∧ stored sg.1 = [5] := by
  decide

/-- Non-vacuity: a reachable state with a linked-but-unpublished node, a pending
decrement and `len = 1 > 0 = poppable` (two threads mid-operation). -/
example :
    let s := (run .addThenStore (init [4] [[.push 7], [.pop]]) [1, 1, 1, 1, 0, 0, 0, 0]).1
    s.chain.length = s.tail + 2 ∧ s.len = 2 ∧ (stored s).length = 0 ∧
      cnt isPushStore s.threads = 1 ∧ cnt isPopPost s.threads = 1 := by decide

end Golib.C11
