/-
C11 — SyncList is a linearizable unbounded FIFO queue with a sane length.
ONLY property theorems and non-vacuity examples live here; helper lemmas are in
`Golib/Proof/C11*.lean`, the model in `Golib/Model/C11List.lean`.

Every theorem quantifies over EVERY schedule `σ : List Nat` (list of thread ids; a thread
id that does not exist or a finished thread is a no-op step), every number of threads,
every program assignment `progs` and every initial content `vals`.  The machine is the
repaired statement order (`Order.addThenStore`, F7); the pre-repair order is refuted in
`Golib/Findings/C11.lean`.
-/
import Golib.Proof.C11Facts
import Golib.Proof.C11Inv

namespace Golib.C11

/-- The model's access order is the source order (regenerated facts, see Proof/C11Facts). -/
theorem c11_source_order :
    soloSrc .addThenStore (init [] [[.push 5]]) 5 = Gen.C11.pushOps.takeWhile (· ≠ .gosched) ∧
    soloSrc .addThenStore (init [9] [[.pop]]) 7 = Gen.C11.popOps ∧
    soloSrc .addThenStore (init [9] [[.len]]) 1 = Gen.C11.lenOps :=
  ⟨facts_push_success_path, facts_pop_success_path, facts_len⟩

/-- `c11_inv`: in every reachable state `head ≤ tail < |chain| ≤ tail + 2` (the tail lags
behind the last linked node by at most one push in progress, the head never passes the
tail), at most one pusher is between its link CAS and its publication, no thread ever
dereferenced nil, and every thread's stale locals are lower bounds (`Inv.locals`). -/
theorem c11_inv (vals : List Int) (progs : List (List Call)) (σ : List Nat) :
    let s := (run .addThenStore (init vals progs) σ).1
    Inv s ∧ s.head ≤ s.tail ∧ s.tail < s.chain.length ∧ s.chain.length ≤ s.tail + 2 ∧
      s.crashed = false := by
  have hI := inv_run (inv_init vals progs) σ
  have h1 := hI.chain_len
  have h2 := hI.one_publisher
  exact ⟨hI, hI.head_le_tail, by omega, by omega, hI.not_crashed⟩

/-- `c11_len`: in every reachable state `Len()` is never negative and never less than
the number of values that can be popped now; when no call is in flight it equals the
number of stored values. -/
theorem c11_len (vals : List Int) (progs : List (List Call)) (σ : List Nat) :
    let s := (run .addThenStore (init vals progs) σ).1
    0 ≤ s.len ∧ ((stored s).length : Int) ≤ s.len ∧
      ((∀ th ∈ s.threads, th.pc = .idle) → s.len = (stored s).length) := by
  have hI := inv_run (inv_init vals progs) σ
  have hl := stored_length hI
  have h1 := hI.len_eq
  have h2 := hI.head_le_tail
  refine ⟨by omega, by omega, ?_⟩
  intro hq
  have e1 := cnt_eq_zero_of_all_idle (p := isPushStore) rfl hq
  have e2 := cnt_eq_zero_of_all_idle (p := isPopPost) rfl hq
  omega

/-- Non-vacuity: a reachable state with a linked-but-unpublished node, a pending
decrement and `len = 1 > 0 = poppable` (two threads mid-operation). -/
example :
    let s := (run .addThenStore (init [4] [[.push 7], [.pop]]) [1, 1, 1, 1, 0, 0, 0, 0]).1
    s.chain.length = s.tail + 2 ∧ s.len = 2 ∧ (stored s).length = 0 ∧
      cnt isPushStore s.threads = 1 ∧ cnt isPopPost s.threads = 1 := by decide

end Golib.C11
